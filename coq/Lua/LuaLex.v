(* Tokenizer for the Lua subset (target: LuaJIT 2.x without 5.2 compatibility = Lua 5.1 lexical
   rules + `goto`/`::` + the 5.2 string escapes \x \z that LuaJIT accepts and LuaJIT's rejection of
   unknown escapes).  Definitions only.

   Deviations (documented, none is produced by the Sylt compiler or used by preamble.lua):
   * `goto` is always a keyword (LuaJIT treats it as a name unless a name follows).
   * hexadecimal floats (`0x1p4`), the LuaJIT number suffixes `LL`/`ULL`/`i` are "malformed".
   * line numbers are only used in messages; a backslash-newline inside a quoted string does not
     advance the counter. *)
From Coq Require Import String Ascii List NArith ZArith QArith Bool.
From Sylt Require Import Lua.LuaAst.
Import ListNotations.
Local Open Scope string_scope.

Inductive token :=
| TName (s : string)
| TKw (s : string)
| TNum (fl : bool) (q : Q)      (* fl: the numeral has a fraction or an exponent *)
| TStr (s : string)
| TOp (s : string)
| TEof.

Inductive lex_result :=
| LexOk (toks : list (token * N))      (* token, line *)
| LexErr (line : N) (msg : string).

Definition keywords : list string :=
  ["and"; "break"; "do"; "else"; "elseif"; "end"; "false"; "for"; "function"; "goto"; "if"; "in";
   "local"; "nil"; "not"; "or"; "repeat"; "return"; "then"; "true"; "until"; "while"].

Fixpoint mem_string (x : string) (l : list string) : bool :=
  match l with
  | [] => false
  | y :: l' => if String.eqb x y then true else mem_string x l'
  end.

Definition is_keyword (s : string) : bool := mem_string s keywords.

(* ---- character classes (bytes) ---- *)

Definition code (c : ascii) : N := N_of_ascii c.

Definition is_digit (c : ascii) : bool := let n := code c in (48 <=? n)%N && (n <=? 57)%N.

Definition is_hex (c : ascii) : bool :=
  let n := code c in
  ((48 <=? n)%N && (n <=? 57)%N) || ((65 <=? n)%N && (n <=? 70)%N) || ((97 <=? n)%N && (n <=? 102)%N).

Definition hex_val (c : ascii) : N :=
  let n := code c in
  if (n <=? 57)%N then (n - 48)%N else if (n <=? 70)%N then (n - 55)%N else (n - 87)%N.

(* letters and '_'; LuaJIT also lets every byte >= 128 be part of a name (Lua 5.3 in the C locale does not) *)
Definition is_alpha (d : dialect) (c : ascii) : bool :=
  let n := code c in
  ((65 <=? n)%N && (n <=? 90)%N) || ((97 <=? n)%N && (n <=? 122)%N) || (n =? 95)%N
  || (negb (is53 d) && (128 <=? n)%N).

Definition is_alnum (d : dialect) (c : ascii) : bool := is_alpha d c || is_digit c.

Definition is_newline (c : ascii) : bool := let n := code c in (n =? 10)%N.

(* space, \t, \v, \f, \r  (and \n, handled first by the callers) *)
Definition is_space (c : ascii) : bool :=
  let n := code c in (n =? 32)%N || ((9 <=? n)%N && (n <=? 13)%N).

(* ---- small string helpers ---- *)

Fixpoint srev_app (s acc : string) : string :=
  match s with
  | EmptyString => acc
  | String c s' => srev_app s' (String c acc)
  end.

Definition srev (s : string) : string := srev_app s EmptyString.

(* longest prefix satisfying p, and the rest *)
Fixpoint span (p : ascii -> bool) (s : string) : string * string :=
  match s with
  | String c s' =>
      if p c then let (a, b) := span p s' in (String c a, b) else (EmptyString, s)
  | EmptyString => (EmptyString, EmptyString)
  end.

Fixpoint skip_line (s : string) : string :=
  match s with
  | String c s' => if is_newline c then s else skip_line s'
  | EmptyString => EmptyString
  end.

(* ---- long brackets  [[ ... ]]  [==[ ... ]==] ---- *)

(* s is the text after the first '['.  Some (level, rest) when a long bracket opens here. *)
Fixpoint long_open (s : string) (lvl : nat) : option (nat * string) :=
  match s with
  | String "="%char s' => long_open s' (S lvl)
  | String "["%char s' => Some (lvl, s')
  | _ => None
  end.

(* s is the text after a ']' inside a long bracket of level lvl *)
Fixpoint long_close (s : string) (lvl : nat) : option string :=
  match lvl, s with
  | O, String "]"%char s' => Some s'
  | S l, String "="%char s' => long_close s' l
  | _, _ => None
  end.

(* body of a long bracket: (contents, rest, line after) *)
Fixpoint long_body (s : string) (lvl : nat) (line : N) (acc : string) : option (string * string * N) :=
  match s with
  | EmptyString => None
  | String c s' =>
      if Ascii.eqb c "]"%char then
        match long_close s' lvl with
        | Some rest => Some (srev acc, rest, line)
        | None => long_body s' lvl line (String c acc)
        end
      else long_body s' lvl (if is_newline c then (line + 1)%N else line) (String c acc)
  end.

(* a newline directly after the opening bracket is dropped *)
Definition long_string (s : string) (lvl : nat) (line : N) : option (string * string * N) :=
  match s with
  | String c s' =>
      if is_newline c then long_body s' lvl (line + 1)%N EmptyString
      else if (code c =? 13)%N then
        match s' with
        | String c2 s'' => if is_newline c2 then long_body s'' lvl (line + 1)%N EmptyString
                           else long_body s' lvl line EmptyString
        | EmptyString => long_body s' lvl line EmptyString
        end
      else long_body s lvl line EmptyString
  | EmptyString => None
  end.

(* ---- quoted strings ---- *)

Inductive str_result :=
| StrOk (contents rest : string)
| StrErr (msg : string).

Definition is_cr_or_lf (c : ascii) : bool := let n := code c in (n =? 10)%N || (n =? 13)%N.

Fixpoint skip_space (s : string) : string :=
  match s with
  | String c s' => if is_space c || is_newline c then skip_space s' else s
  | EmptyString => EmptyString
  end.

(* up to `k` more decimal digits *)
Fixpoint dec_escape (k : nat) (s : string) (acc : N) : N * string :=
  match k, s with
  | S k', String c s' => if is_digit c then dec_escape k' s' (acc * 10 + (code c - 48))%N else (acc, s)
  | _, _ => (acc, s)
  end.

Fixpoint hex_digits (s : string) (acc : N) (cnt : N) : N * N * string :=
  match s with
  | String c s' => if is_hex c then hex_digits s' (acc * 16 + hex_val c)%N (cnt + 1)%N else (acc, cnt, s)
  | EmptyString => (acc, cnt, s)
  end.

Definition utf8_encode (cp : N) : string :=
  let b (n : N) := ascii_of_N n in
  if (cp <? 128)%N then String (b cp) EmptyString
  else if (cp <? 2048)%N then
    String (b (192 + cp / 64)%N) (String (b (128 + cp mod 64)%N) EmptyString)
  else if (cp <? 65536)%N then
    String (b (224 + cp / 4096)%N)
      (String (b (128 + (cp / 64) mod 64)%N) (String (b (128 + cp mod 64)%N) EmptyString))
  else
    String (b (240 + cp / 262144)%N)
      (String (b (128 + (cp / 4096) mod 64)%N)
         (String (b (128 + (cp / 64) mod 64)%N) (String (b (128 + cp mod 64)%N) EmptyString))).

(* s is the text after the opening quote q; acc is the reversed contents so far *)
Fixpoint read_quoted (d : dialect) (fuel : nat) (q : ascii) (s : string) (acc : string) : str_result :=
  match fuel with
  | O => StrErr "unfinished string"
  | S fuel =>
      match s with
      | EmptyString => StrErr "unfinished string"
      | String c s1 =>
          if Ascii.eqb c q then StrOk (srev acc) s1
          else if is_cr_or_lf c then StrErr "unfinished string"
          else if Ascii.eqb c "\"%char then
            match s1 with
            | EmptyString => StrErr "unfinished string"
            | String e s2 =>
                let push (n : N) := read_quoted d fuel q s2 (String (ascii_of_N n) acc) in
                if Ascii.eqb e "a"%char then push 7%N
                else if Ascii.eqb e "b"%char then push 8%N
                else if Ascii.eqb e "f"%char then push 12%N
                else if Ascii.eqb e "n"%char then push 10%N
                else if Ascii.eqb e "r"%char then push 13%N
                else if Ascii.eqb e "t"%char then push 9%N
                else if Ascii.eqb e "v"%char then push 11%N
                else if Ascii.eqb e "\"%char then push 92%N
                else if Ascii.eqb e """"%char then push 34%N
                else if Ascii.eqb e "'"%char then push 39%N
                else if is_cr_or_lf e then
                  (* backslash-newline: a newline; \r\n and \n\r count as one *)
                  match s2 with
                  | String e2 s3 =>
                      if is_cr_or_lf e2 && negb (Ascii.eqb e e2)
                      then read_quoted d fuel q s3 (String (ascii_of_N 10) acc)
                      else push 10%N
                  | EmptyString => push 10%N
                  end
                else if Ascii.eqb e "x"%char then
                  match s2 with
                  | String h1 (String h2 s4) =>
                      if is_hex h1 && is_hex h2
                      then read_quoted d fuel q s4 (String (ascii_of_N (hex_val h1 * 16 + hex_val h2)) acc)
                      else StrErr "invalid escape sequence"
                  | _ => StrErr "invalid escape sequence"
                  end
                else if Ascii.eqb e "z"%char then read_quoted d fuel q (skip_space s2) acc
                else if Ascii.eqb e "u"%char && is53 d then
                  (* \u{XXX}: the UTF-8 encoding of a code point up to 10FFFF (Lua 5.3 only) *)
                  match s2 with
                  | String "{"%char s3 =>
                      let '(cp, cnt, r) := hex_digits s3 0%N 0%N in
                      match r with
                      | String "}"%char s4 =>
                          if (cnt =? 0)%N then StrErr "hexadecimal digit expected"
                          else if (1114111 <? cp)%N then StrErr "UTF-8 value too large"
                          else read_quoted d fuel q s4 (srev_app (utf8_encode cp) acc)
                      | _ => StrErr "missing '}' in \u{xxxx}"
                      end
                  | _ => StrErr "missing '{' in \u{xxxx}"
                  end
                else if is_digit e then
                  let (n, rest) := dec_escape 2 s2 (code e - 48)%N in
                  if (n <=? 255)%N then read_quoted d fuel q rest (String (ascii_of_N n) acc)
                  else StrErr "invalid escape sequence"
                else StrErr "invalid escape sequence"
            end
          else read_quoted d fuel q s1 (String c acc)
      end
  end.

(* ---- numbers ---- *)

Definition pow10 (n : N) : Z := Z.pow 10 (Z.of_N n).

(* value of m * 10^e in lowest terms *)
Definition q_of_dec (m : Z) (e : Z) : Q :=
  if (0 <=? e)%Z then Qmake (m * pow10 (Z.to_N e)) 1
  else Qred (Qmake m (Z.to_pos (pow10 (Z.to_N (- e))))).

(* leading decimal digits: (value, how many, rest) *)
Fixpoint dec_digits (s : string) (acc : N) (cnt : N) : N * N * string :=
  match s with
  | String c s' => if is_digit c then dec_digits s' (acc * 10 + (code c - 48))%N (cnt + 1)%N else (acc, cnt, s)
  | EmptyString => (acc, cnt, s)
  end.

(* decimal numeral:  D* [ . D* ] [ (e|E) [+-] D+ ]  with at least one mantissa digit *)
Definition parse_decimal (s : string) : option (bool * Q) :=
  let '(ip, icnt, r1) := dec_digits s 0%N 0%N in
  let has_dot := match r1 with String "."%char _ => true | _ => false end in
  let '(fp, fcnt, r2) :=
    match r1 with
    | String "."%char r => dec_digits r 0%N 0%N
    | _ => (0%N, 0%N, r1)
    end in
  if ((icnt + fcnt) =? 0)%N then None else
  let mant := (Z.of_N ip * pow10 fcnt + Z.of_N fp)%Z in
  let finish (has_exp : bool) (ex : Z) (rest : string) : option (bool * Q) :=
    match rest with
    | EmptyString => Some (has_dot || has_exp, q_of_dec mant (ex - Z.of_N fcnt)%Z)
    | _ => None
    end in
  match r2 with
  | String c r3 =>
      if Ascii.eqb c "e"%char || Ascii.eqb c "E"%char then
        let '(neg, r4) :=
          match r3 with
          | String "-"%char r => (true, r)
          | String "+"%char r => (false, r)
          | _ => (false, r3)
          end in
        let '(ev, ecnt, r5) := dec_digits r4 0%N 0%N in
        if (ecnt =? 0)%N then None
        else finish true (if neg then (- Z.of_N ev)%Z else Z.of_N ev) r5
      else None
  | EmptyString => finish false 0%Z r2
  end.

Definition parse_hex (s : string) : option (bool * Q) :=       (* s is the text after 0x *)
  let '(v, cnt, rest) := hex_digits s 0%N 0%N in
  if (cnt =? 0)%N then None else
  match rest with
  | EmptyString => Some (false, Qmake (Z.of_N v) 1)
  | _ => None
  end.

(* a complete numeral (used by the lexer on a lexeme and by `tonumber`): (is a float numeral, value) *)
Definition parse_number (s : string) : option (bool * Q) :=
  match s with
  | String "0"%char (String x r) =>
      if Ascii.eqb x "x"%char || Ascii.eqb x "X"%char then parse_hex r else parse_decimal s
  | _ => parse_decimal s
  end.

(* LuaJIT collects  [A-Za-z0-9_.]  and a sign directly after an exponent letter, then converts *)
Fixpoint num_lexeme (s : string) (prev : ascii) (hex : bool) : string * string :=
  match s with
  | String c s' =>
      let expo := if hex then Ascii.eqb prev "p"%char || Ascii.eqb prev "P"%char
                  else Ascii.eqb prev "e"%char || Ascii.eqb prev "E"%char in
      if is_alnum LuaJIT c || Ascii.eqb c "."%char
         || ((Ascii.eqb c "-"%char || Ascii.eqb c "+"%char) && expo)
      then let (a, b) := num_lexeme s' c hex in (String c a, b)
      else (EmptyString, s)
  | EmptyString => (EmptyString, EmptyString)
  end.

Definition starts_hex (s : string) : bool :=
  match s with
  | String "0"%char (String x _) => Ascii.eqb x "x"%char || Ascii.eqb x "X"%char
  | _ => false
  end.

(* ---- main loop ---- *)

Definition name_token (s : string) : token := if is_keyword s then TKw s else TName s.

Definition str1 (c : ascii) : string := String c EmptyString.

(* one step of the tokenizer on a non-empty input *)
Inductive lex_step :=
| StTok (t : token) (rest : string) (line' : N)     (* emit a token *)
| StSkip (rest : string) (line' : N)                (* white space or comment *)
| StErr (msg : string).

Definition lex_number (s : string) (line : N) : lex_step :=
  let (lexeme, rest) := num_lexeme s " "%char (starts_hex s) in
  match parse_number lexeme with
  | Some (fl, q) => StTok (TNum fl q) rest line
  | None => StErr ("malformed number near '" ++ lexeme ++ "'")
  end.

(* `fuel` is only used to read a quoted string; any number above the length of s1 is enough, and the
   main loop's own fuel is such a number *)
Definition lex_one (d : dialect) (fuel : nat) (c : ascii) (s1 : string) (line : N) : lex_step :=
  let s := String c s1 in
  let op1 := StTok (TOp (str1 c)) s1 line in
  (* two-character operator c c2, else `one` *)
  let op2 (c2 : ascii) (one : lex_step) :=
    match s1 with
    | String d s2 => if Ascii.eqb d c2 then StTok (TOp (String c (str1 d))) s2 line else one
    | EmptyString => one
    end in
  if is_newline c then StSkip s1 (line + 1)%N
  else if is_space c then StSkip s1 line
  else if is_alpha d c then
    let (name, rest) := span (is_alnum d) s in StTok (name_token name) rest line
  else if is_digit c then lex_number s line
  else if Ascii.eqb c """"%char || Ascii.eqb c "'"%char then
    match read_quoted d fuel c s1 EmptyString with
    | StrOk str rest => StTok (TStr str) rest line
    | StrErr msg => StErr msg
    end
  else if Ascii.eqb c "-"%char then
    match s1 with
    | String "-"%char s2 =>
        (* comment *)
        match s2 with
        | String "["%char s3 =>
            match long_open s3 O with
            | Some (lvl, body) =>
                match long_body body lvl line EmptyString with
                | Some (_, rest, line') => StSkip rest line'
                | None => StErr "unfinished long comment"
                end
            | None => StSkip (skip_line s2) line
            end
        | _ => StSkip (skip_line s2) line
        end
    | _ => op1
    end
  else if Ascii.eqb c "["%char then
    match s1 with
    | String d _ =>
        if Ascii.eqb d "["%char || Ascii.eqb d "="%char then
          match long_open s1 O with
          | Some (lvl, body) =>
              match long_string body lvl line with
              | Some (str, rest, line') => StTok (TStr str) rest line'
              | None => StErr "unfinished long string"
              end
          | None => StErr "invalid long string delimiter"
          end
        else op1
    | EmptyString => op1
    end
  else if Ascii.eqb c "="%char then op2 "="%char op1
  else if Ascii.eqb c "<"%char then
    (if is53 d then op2 "<"%char (op2 "="%char op1) else op2 "="%char op1)
  else if Ascii.eqb c ">"%char then
    (if is53 d then op2 ">"%char (op2 "="%char op1) else op2 "="%char op1)
  else if Ascii.eqb c "~"%char then
    op2 "="%char (StErr (if is53 d then "unsupported: bitwise operator '~'" else "unexpected symbol near '~'"))
  else if Ascii.eqb c "/"%char then (if is53 d then op2 "/"%char op1 else op1)
  else if is53 d && (Ascii.eqb c "&"%char || Ascii.eqb c "|"%char) then StErr "unsupported: bitwise operators"
  else if Ascii.eqb c ":"%char then op2 ":"%char op1
  else if Ascii.eqb c "."%char then
    match s1 with
    | String "."%char (String "."%char s3) => StTok (TOp "...") s3 line
    | String "."%char s2 => StTok (TOp "..") s2 line
    | String d _ => if is_digit d then lex_number s line else op1
    | EmptyString => op1
    end
  else if mem_string (str1 c) ["+"; "*"; "%"; "^"; "#"; "("; ")"; "{"; "}"; "]"; ";"; ","]
  then op1
  else StErr ("unexpected symbol near '" ++ str1 c ++ "'").

(* every step consumes at least one character, so length s + 1 is enough fuel *)
Fixpoint lex_go (d : dialect) (fuel : nat) (s : string) (line : N) (acc : list (token * N)) : lex_result :=
  match fuel with
  | O => LexErr line "lexer out of fuel"
  | S fuel =>
      match s with
      | EmptyString => LexOk (rev' ((TEof, line) :: acc))
      | String c s1 =>
          match lex_one d fuel c s1 line with
          | StTok t rest line' => lex_go d fuel rest line' ((t, line) :: acc)
          | StSkip rest line' => lex_go d fuel rest line' acc
          | StErr msg => LexErr line msg
          end
      end
  end.

(* rev' is the linear-time reversal (List.rev is quadratic when extracted) *)
Definition lex (d : dialect) (s : string) : lex_result := lex_go d (String.length s + 1) s 1%N [].
