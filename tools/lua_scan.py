"""Names read or assigned in an emitted Lua chunk that nothing defines: not a Lua keyword, not a compiler-made name
(V<n> / L<n>), not a name of the runtime preamble, not a standard Lua global, not an identifier of the program's own
sources (externals are read by their source names).  A Rust Debug rendering that leaks into the text (`NaN`, `inf`,
`Some(..)`) shows up here although the chunk still loads."""
import re

KEYWORDS = set("and break do else elseif end false for function goto if in local nil not or repeat return then true until while".split())
LUA_STD = set("_G _ENV _VERSION assert collectgarbage dofile error getmetatable ipairs load loadfile loadstring next pairs pcall print "
              "rawequal rawget rawlen rawset require select setmetatable tonumber tostring type unpack xpcall coroutine debug io math os "
              "package string table utf8 bit bit32 jit love self".split())
TOKEN = re.compile(r'--\[\[.*?\]\]|--[^\n]*|"(?:\\.|[^"\\\n])*"|\'(?:\\.|[^\'\\\n])*\'|\[\[.*?\]\]|0[xX][0-9a-fA-F.]+(?:[pP][+-]?\d+)?'
                   r'|\d+\.?\d*(?:[eE][+-]?\d+)?|\.\d+(?:[eE][+-]?\d+)?|[A-Za-z_][A-Za-z0-9_]*|::|\.\.\.|\.\.|[<>=~]=|//|<<|>>|\S', re.S)
IDENT = re.compile(r"[A-Za-z_][A-Za-z0-9_]*")


def names_of_text(text):
    return set(IDENT.findall(text))


def undefined_names(body, allowed):
    toks = [t for t in TOKEN.findall(body) if not t.startswith("--")]
    out = []
    brace = []            # for every open bracket: is it a table constructor?
    for k, t in enumerate(toks):
        if t in "({[":
            brace.append(t == "{")
        elif t in ")}]":
            if brace:
                brace.pop()
        if not IDENT.fullmatch(t) or t in KEYWORDS or t in LUA_STD or t in allowed or re.fullmatch(r"[VL]\d+", t):
            continue
        prev = toks[k - 1] if k else ""
        nxt = toks[k + 1] if k + 1 < len(toks) else ""
        if prev in (".", ":", "goto", "::"):
            continue
        if nxt == "=" and brace and brace[-1] and prev in ("{", ","):
            continue      # a field key in a table constructor
        if t not in out:
            out.append(t)
    return out
