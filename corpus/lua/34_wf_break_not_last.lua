-- expect-wf[jit]: bad 'break' is not the last statement
-- expect-wf[5.3]: ok
while true do
  break
  print('x')
end
