-- expect-wf: bad jumps into the scope of a local
repeat
  goto l
  local x = 1
  ::l::
until true
