(* The type graph of sylt-compiler/src/typechecker.rs: TypeNode / Constraint / Type (ty.rs), the
   union-find over it and the state-and-error monad every checker function runs in.
   Definitions only.

   Union-find: the code keeps parent pointers, compresses paths in `find` and unions by size.  The model
   keeps, for every node, its current representative (`nrep`, updated eagerly on every union, with the
   same choice of root as the code's union-by-size), so `find` needs no fuel; path compression is not
   observable and not modelled.

   TyID k of the code is the positive k+1 here (keys of a PositiveMap). *)
From Coq Require Import String List NArith ZArith PArith Bool FMapPositive.
From Sylt Require Import Syntax.Resolved.
Import ListNotations.
Local Open Scope positive_scope.

Definition tyid := positive.

Inductive purity := PPure | PImpure | PUndefined.

(* BTreeMap<String, (Span, TyID)>: kept sorted by key *)
Definition fieldmap := list (string * (span * tyid)).

(* crate::ty::Type *)
Inductive tyh :=
| HUnknown | HTy | HInvalid | HVoid | HNil | HInt | HFloat | HBool | HStr
| HTuple (ts : list tyid)
| HList (t : tyid)
| HFn (params : list tyid) (ret : tyid) (p : purity)
| HBlob (name : string) (sp : span) (fields : fieldmap) (args : list tyid)
| HExtBlob (name : string) (sp : span) (fields : fieldmap) (args : list tyid) (id : N)
| HEnum (name : string) (sp : span) (variants : fieldmap) (args : list tyid).

(* typechecker.rs `enum Constraint`, constructors in declaration order (the derived Ord) *)
Inductive constr :=
| CAdd (t : tyid) | CSub (t : tyid) | CMul (t : tyid)
| CDivTop (t : tyid) | CDivBot (t : tyid) | CDivRes (t : tyid)
| CEqu (t : tyid) | CCmp (t : tyid) | CCmpEqu (t : tyid)
| CNeg
| CConstIdx (i : Z) (t : tyid)
| CField (f : string) (t : tyid)
| CNum
| CEnum
| CVariant (v : string) (t : option tyid)
| CTotalEnum (vs : list string)    (* BTreeSet<String>: sorted, no duplicates *)
| CVariable.

(* the span under which a constraint was first recorded only feeds the "Requirement came from" helper
   note; it is not observable (kind, file, line of the error itself) and is not kept *)
Record node := mkNode { nty : tyh; nrep : tyid; nsize : N; ncons : list constr }.

(* `tnames`: TypeChecker::type_names, the variables that name a blob or an enum (since 9c09349) *)
Record st := mkSt { nodes : PositiveMap.t node; next : positive; tnames : list N }.

(* ---------------------------------------------------------------- errors and the monad *)

Inductive ekind :=
| KExotic | KToDo | KViolating | KBinOp | KUniOp | KMismatch | KMismatchAssign | KAssignability
| KExcessiveForce | KNamespaceNotExpression | KWrongArity | KUnknownField | KMissingField
| KExternBlobInstance | KTupleIndexOutOfRange | KTupleLengthMismatch | KUnresolvedName
| KWrongConstraintArity | KUnknownConstraint | KUnknownConstraintArgument | KUnknownVariant
| KMissingVariants | KExtraVariants | KExpectVoid | KImpurity.

Record err := mkErr { e_kind : ekind; e_span : span }.

(* panic sites of typechecker.rs that lie on the modelled path *)
Inductive site :=
| POuterStmt          (* typechecker.rs:660  unreachable!("Illegal outer statement ...") *)
| PIndexNotInt        (* typechecker.rs:794  unreachable!("Should be handled in parser") *)
| PBinOpNop           (* typechecker.rs:803  unreachable!() *)
| PIfNoBranch         (* typechecker.rs:877  branches.last()...unwrap() *)
| PVarIndex           (* self.variables[var]: index out of bounds *)
| PTypeIndex          (* self.types[id]: index out of bounds *)
| PFieldIndex.        (* fields_and_types[key] *)

Inductive outcome (A : Type) :=
| Ok (a : A)
| Err (e : err) (more : list err)     (* Err(vec![e, more...]): never empty *)
| Panic (p : site)
| OutOfFuel.
Arguments Ok {A}. Arguments Err {A}. Arguments Panic {A}. Arguments OutOfFuel {A}.

Definition M (A : Type) := st -> outcome (A * st).

Definition ret {A} (a : A) : M A := fun s => Ok (a, s).
Definition bind {A B} (m : M A) (k : A -> M B) : M B := fun s =>
  match m s with
  | Ok (a, s') => k a s'
  | Err e more => Err e more
  | Panic p => Panic p
  | OutOfFuel => OutOfFuel
  end.
Definition fail {A} (k : ekind) (sp : span) : M A := fun _ => Err (mkErr k sp) [].
Definition fail_many {A} (e : err) (more : list err) : M A := fun _ => Err e more.
Definition panic {A} (p : site) : M A := fun _ => Panic p.
Definition out_of_fuel {A} : M A := fun _ => OutOfFuel.

Declare Scope tc_scope.
Delimit Scope tc_scope with tc.
Notation "x <- m ;; k" := (bind m (fun x => k)) (at level 61, m at next level, right associativity) : tc_scope.
Notation "' p <- m ;; k" := (bind m (fun x => let p := x in k))
  (at level 61, p pattern, m at next level, right associativity) : tc_scope.
Notation "m ;;; k" := (bind m (fun _ => k)) (at level 61, right associativity) : tc_scope.
Open Scope tc_scope.

(* for x in l { f(x)?; } *)
Fixpoint iterM {A} (f : A -> M unit) (l : list A) : M unit :=
  match l with
  | [] => ret tt
  | x :: xs => f x ;;; iterM f xs
  end.

(* l.iter().map(f).collect::<Result<Vec<_>>>()? *)
Fixpoint mapM {A B} (f : A -> M B) (l : list A) : M (list B) :=
  match l with
  | [] => ret []
  | x :: xs => y <- f x ;; ys <- mapM f xs ;; ret (y :: ys)
  end.

(* let mut acc = b; for x in l { acc = f(acc, x)?; } *)
Fixpoint foldM {A B} (f : B -> A -> M B) (l : list A) (b : B) : M B :=
  match l with
  | [] => ret b
  | x :: xs => b' <- f b x ;; foldM f xs b'
  end.

(* ---------------------------------------------------------------- the order on constraints
   (#[derive(PartialOrd, Ord)]: constructor index, then the fields left to right) *)

Definition constr_tag (c : constr) : N :=
  match c with
  | CAdd _ => 0 | CSub _ => 1 | CMul _ => 2 | CDivTop _ => 3 | CDivBot _ => 4 | CDivRes _ => 5
  | CEqu _ => 6 | CCmp _ => 7 | CCmpEqu _ => 8 | CNeg => 9 | CConstIdx _ _ => 10 | CField _ _ => 11
  | CNum => 12 | CEnum => 13 | CVariant _ _ => 14 | CTotalEnum _ => 15 | CVariable => 16
  end%N.

Definition lex (a b : comparison) : comparison := match a with Eq => b | _ => a end.

Definition opt_compare (a b : option tyid) : comparison :=
  match a, b with
  | None, None => Eq
  | None, Some _ => Lt
  | Some _, None => Gt
  | Some x, Some y => Pos.compare x y
  end.

Fixpoint strs_compare (a b : list string) : comparison :=
  match a, b with
  | [], [] => Eq
  | [], _ :: _ => Lt
  | _ :: _, [] => Gt
  | x :: xs, y :: ys => lex (String.compare x y) (strs_compare xs ys)
  end.

Definition constr_compare (a b : constr) : comparison :=
  match a, b with
  | CAdd x, CAdd y | CSub x, CSub y | CMul x, CMul y | CDivTop x, CDivTop y | CDivBot x, CDivBot y
  | CDivRes x, CDivRes y | CEqu x, CEqu y | CCmp x, CCmp y | CCmpEqu x, CCmpEqu y => Pos.compare x y
  | CConstIdx i x, CConstIdx j y => lex (Z.compare i j) (Pos.compare x y)
  | CField f x, CField g y => lex (String.compare f g) (Pos.compare x y)
  | CVariant v x, CVariant w y => lex (String.compare v w) (opt_compare x y)
  | CTotalEnum v, CTotalEnum w => strs_compare v w
  | _, _ => N.compare (constr_tag a) (constr_tag b)
  end.

(* BTreeMap::entry(c).or_insert(..) / insert(c, ..) on the key set *)
Fixpoint cinsert (c : constr) (l : list constr) : list constr :=
  match l with
  | [] => [c]
  | d :: ds =>
    match constr_compare c d with
    | Lt => c :: l
    | Eq => l
    | Gt => d :: cinsert c ds
    end
  end.

(* BTreeSet<String>::insert *)
Fixpoint sinsert (x : string) (l : list string) : list string :=
  match l with
  | [] => [x]
  | y :: ys =>
    match String.compare x y with
    | Lt => x :: l
    | Eq => l
    | Gt => y :: sinsert x ys
    end
  end.

(* BTreeMap<String, V>::insert: replaces the value of an existing key *)
Fixpoint finsert {V} (k : string) (v : V) (l : list (string * V)) : list (string * V) :=
  match l with
  | [] => [(k, v)]
  | (k', v') :: r =>
    match String.compare k k' with
    | Lt => (k, v) :: l
    | Eq => (k, v) :: r
    | Gt => (k', v') :: finsert k v r
    end
  end.

Fixpoint flookup {V} (k : string) (l : list (string * V)) : option V :=
  match l with
  | [] => None
  | (k', v) :: r => if String.eqb k k' then Some v else flookup k r
  end.

Definition fmem {V} (k : string) (l : list (string * V)) : bool :=
  match flookup k l with Some _ => true | None => false end.

Definition smem (k : string) (l : list string) : bool := existsb (String.eqb k) l.

(* ---------------------------------------------------------------- primitive operations *)

Definition get_node (i : tyid) : M node := fun s =>
  match PositiveMap.find i (nodes s) with
  | Some n => Ok (n, s)
  | None => Panic PTypeIndex
  end.

Definition put_node (i : tyid) (n : node) : M unit := fun s =>
  Ok (tt, mkSt (PositiveMap.add i n (nodes s)) (next s) (tnames s)).

(* fn push_type *)
Definition push_type (t : tyh) : M tyid := fun s =>
  let i := next s in
  Ok (i, mkSt (PositiveMap.add i (mkNode t i 1%N []) (nodes s)) (Pos.succ i) (tnames s)).

(* fn find *)
Definition find (a : tyid) : M tyid := n <- get_node a ;; ret (nrep n).

(* fn find_node *)
Definition find_node (a : tyid) : M node := r <- find a ;; get_node r.

(* fn find_type *)
Definition find_type (a : tyid) : M tyh := n <- find_node a ;; ret (nty n).

(* self.find_node_mut(a).ty = t *)
Definition set_type (a : tyid) (t : tyh) : M unit :=
  r <- find a ;; n <- get_node r ;; put_node r (mkNode t (nrep n) (nsize n) (ncons n)).

(* self.find_node_mut(a).constraints = cs *)
Definition set_cons (a : tyid) (cs : list constr) : M unit :=
  r <- find a ;; n <- get_node r ;; put_node r (mkNode (nty n) (nrep n) (nsize n) cs).

(* fn add_constraint *)
Definition add_constraint (a : tyid) (c : constr) : M unit :=
  r <- find a ;; n <- get_node r ;; put_node r (mkNode (nty n) (nrep n) (nsize n) (cinsert c (ncons n))).

Definition is_void (a : tyid) : M bool :=
  t <- find_type a ;; ret (match t with HVoid => true | _ => false end).

(* fn union: the root with the smaller size is hung under the other (the first argument's root wins a
   tie), sizes are added, the constraints of the absorbed root are inserted into the surviving one;
   every node whose representative was the absorbed root now has the surviving one. *)
Definition union (a b : tyid) : M unit :=
  ra <- find a ;; rb <- find b ;;
  if Pos.eqb ra rb then ret tt else
  na <- get_node ra ;; nb <- get_node rb ;;
  let '(big, small, nbig, nsmall) :=
    if N.ltb (nsize na) (nsize nb) then (rb, ra, nb, na) else (ra, rb, na, nb) in
  fun s =>
    let moved := PositiveMap.map
      (fun n => if Pos.eqb (nrep n) small then mkNode (nty n) big (nsize n) (ncons n) else n) (nodes s) in
    let root := mkNode (nty nbig) big (nsize nbig + nsize nsmall)%N
                       (fold_left (fun acc c => cinsert c acc) (ncons nsmall) (ncons nbig)) in
    Ok (tt, mkSt (PositiveMap.add big root moved) (next s) (tnames s)).

Definition empty_st : st := mkSt (PositiveMap.empty node) 1 [].

(* self.type_names.insert(var) / self.type_names.contains(var) *)
Definition add_type_name (v : N) : M unit := fun s => Ok (tt, mkSt (nodes s) (next s) (v :: tnames s)).
Definition is_type_name (v : N) : M bool := fun s => Ok (existsb (N.eqb v) (tnames s), s).

(* TypeChecker::new: one Unknown node per variable, in order; variable v has TyID v *)
Fixpoint init_vars (n : nat) : M unit :=
  match n with
  | O => ret tt
  | S n' => push_type HUnknown ;;; init_vars n'
  end.

(* same head constructor (used by statements about unification) *)
Definition same_ctor (a b : tyh) : bool :=
  match a, b with
  | HUnknown, HUnknown | HTy, HTy | HInvalid, HInvalid | HVoid, HVoid | HNil, HNil | HInt, HInt
  | HFloat, HFloat | HBool, HBool | HStr, HStr | HTuple _, HTuple _ | HList _, HList _
  | HFn _ _ _, HFn _ _ _ | HBlob _ _ _ _, HBlob _ _ _ _ | HExtBlob _ _ _ _ _, HExtBlob _ _ _ _ _
  | HEnum _ _ _ _, HEnum _ _ _ _ => true
  | _, _ => false
  end.

Definition is_unknown (a : tyh) : bool := match a with HUnknown => true | _ => false end.
