(* Theorems for C15: token lines, conflict-marker lines, file attribution, syntax-error spans. *)
From Coq Require Import List NArith Bool Arith Lia String Permutation.
From Sylt Require Import Lex.Regex Lex.Logos Lex.LexerProofs Diag.Conflict Diag.FileIds Diag.SyntaxErr.
Import ListNotations.

(* ============================================================================================== *)
(* 1. the line a token carries *)

Theorem lex_line : forall (t : Logos.table) (s : list N) (tk : ptoken),
  In tk (lex t s) ->
  line_start (t_span tk) = (1 + N.of_nat (count_nl (firstn (N.to_nat (t_cp0 tk)) s)))%N.
Proof.
  intros t s tk Hin. destruct (lex_token_spec t s tk Hin) as (_ & Hsp & _).
  cbn zeta in Hsp. rewrite Hsp. reflexivity.
Qed.

Theorem lex_line_end : forall (t : Logos.table) (s : list N) (tk : ptoken),
  In tk (lex t s) ->
  line_end (t_span tk) = (1 + N.of_nat (count_nl (firstn (N.to_nat (t_cp1 tk) - 1) s)))%N.
Proof.
  intros t s tk Hin. destruct (lex_token_spec t s tk Hin) as (_ & Hsp & _).
  cbn zeta in Hsp. rewrite Hsp. reflexivity.
Qed.

(* ============================================================================================== *)
(* 2. conflict markers *)

Lemma count_nl_acc : forall p a,
  fold_left (fun k c => if (c =? 10)%N then S k else k) p a
  = a + fold_left (fun k c => if (c =? 10)%N then S k else k) p 0.
Proof.
  induction p as [|c p IH]; intros a; cbn [fold_left]; [lia|].
  destruct (c =? 10)%N.
  - rewrite (IH (S a)), (IH 1). lia.
  - apply IH.
Qed.

Lemma count_nl_cons : forall c p, count_nl (c :: p) = (if (c =? 10)%N then 1 else 0) + count_nl p.
Proof.
  intros c p. unfold count_nl. cbn [fold_left]. destruct (c =? 10)%N.
  - apply count_nl_acc.
  - reflexivity.
Qed.

Lemma count_nl_nil : count_nl [] = 0.
Proof. reflexivity. Qed.

(* a direct scan: bol = we are at the beginning of a line, line = its number *)
Fixpoint scan (bol : bool) (line : nat) (s : list N) : list nat :=
  match s with
  | [] => []
  | c :: r => (if bol && starts_with marker s then [line] else [])
              ++ (if (c =? 10)%N then scan true (S line) r else scan false line r)
  end.

Lemma starts_with_app : forall m l, starts_with m l = true <-> exists rest, l = m ++ rest.
Proof.
  induction m as [|a m IH]; intros l.
  - cbn. split; [intros _; exists l; reflexivity|auto].
  - destruct l as [|c l]; cbn [starts_with].
    + split; [discriminate|]. intros [rest H]. discriminate.
    + rewrite andb_true_iff, N.eqb_eq, IH. split.
      * intros [-> [rest ->]]. exists rest. reflexivity.
      * intros [rest H]. cbn in H. inversion H; subst. split; [reflexivity|]. exists rest. reflexivity.
Qed.

(* the first line of raw_lines is the text up to the first newline, so a pattern without newline is a
   prefix of it iff it is a prefix of the text *)
Lemma starts_with_first_line : forall s m, ~ In 10%N m ->
  starts_with m (fst (hd ([], false) (raw_lines s))) = starts_with m s.
Proof.
  induction s as [|c r IH]; intros m Hm.
  - reflexivity.
  - cbn [raw_lines]. destruct (c =? 10)%N eqn:Hc.
    + apply N.eqb_eq in Hc. subst c. cbn [hd fst]. destruct m as [|a m]; [reflexivity|].
      cbn [starts_with]. destruct (a =? 10)%N eqn:Ha; [|reflexivity].
      apply N.eqb_eq in Ha. subst a. exfalso. apply Hm. left. reflexivity.
    + specialize (IH (tl m)).
      destruct (raw_lines r) as [|[l t] ls] eqn:Hr; cbn [hd fst] in *.
      * destruct m as [|a m]; [reflexivity|]. cbn [starts_with tl] in *.
        rewrite <- IH; [reflexivity|]. intros H. apply Hm. right. exact H.
      * destruct m as [|a m]; [reflexivity|]. cbn [starts_with tl] in *.
        rewrite <- IH; [reflexivity|]. intros H. apply Hm. right. exact H.
Qed.

Lemma starts_with_strip_cr : forall l m, ~ In 13%N m -> starts_with m (strip_cr l) = starts_with m l.
Proof.
  induction l as [|c r IH]; intros m Hm; [reflexivity|].
  cbn [strip_cr]. destruct r as [|c2 r].
  - destruct (c =? 13)%N eqn:Hc; [|reflexivity].
    apply N.eqb_eq in Hc. subst c. destruct m as [|a m]; [reflexivity|].
    cbn [starts_with]. destruct (a =? 13)%N eqn:Ha; [|reflexivity].
    apply N.eqb_eq in Ha. subst a. exfalso. apply Hm. left. reflexivity.
  - destruct m as [|a m]; [reflexivity|]. cbn [starts_with]. f_equal.
    apply IH. intros H. apply Hm. right. exact H.
Qed.

Lemma marker_no_nl : ~ In 10%N marker.
Proof. cbn. intros H. repeat (destruct H as [H|H]; [discriminate|]). exact H. Qed.
Lemma marker_no_cr : ~ In 13%N marker.
Proof. cbn. intros H. repeat (destruct H as [H|H]; [discriminate|]). exact H. Qed.

(* whether the first line of str_lines starts with the marker *)
Lemma first_str_line : forall s,
  starts_with marker (hd [] (str_lines s)) = match s with [] => false | _ => starts_with marker s end.
Proof.
  intros s. unfold str_lines. rewrite <- (starts_with_first_line s marker marker_no_nl).
  destruct (raw_lines s) as [|[l t] ls] eqn:Hr; cbn [map hd fst snd].
  - destruct s as [|c r]; [reflexivity|]. cbn [raw_lines] in Hr.
    destruct (c =? 10)%N; [discriminate|]. destruct (raw_lines r) as [|[? ?] ?]; discriminate.
  - destruct s as [|c r]; [discriminate|].
    destruct t; [apply starts_with_strip_cr, marker_no_cr|reflexivity].
Qed.

(* the lines after the first one *)
Definition later (k : nat) (s : list N) : list nat := find_markers (S k) (tl (str_lines s)).

Lemma str_lines_nl : forall r, str_lines (10%N :: r) = [] :: str_lines r.
Proof. intros r. unfold str_lines. cbn [raw_lines N.eqb Pos.eqb map fst snd strip_cr]. reflexivity. Qed.

Lemma str_lines_tl_other : forall c r, (c =? 10)%N = false -> tl (str_lines (c :: r)) = tl (str_lines r).
Proof.
  intros c r Hc. unfold str_lines. cbn [raw_lines]. rewrite Hc.
  destruct (raw_lines r) as [|[l t] ls]; reflexivity.
Qed.

Lemma str_lines_nonempty : forall c r, str_lines (c :: r) = hd [] (str_lines (c :: r)) :: tl (str_lines (c :: r)).
Proof.
  intros c r. unfold str_lines. cbn [raw_lines]. destruct (c =? 10)%N; [reflexivity|].
  destruct (raw_lines r) as [|[l t] ls]; reflexivity.
Qed.

Lemma find_markers_scan : forall s,
  (forall k, find_markers k (str_lines s) = scan true (S k) s) /\
  (forall k, later k s = scan false (S k) s).
Proof.
  induction s as [|c r [IH1 IH2]].
  - split; reflexivity.
  - assert (Hl : forall k, later k (c :: r) = if (c =? 10)%N then scan true (S (S k)) r else scan false (S k) r).
    { intros k. unfold later. destruct (c =? 10)%N eqn:Hc.
      - apply N.eqb_eq in Hc. subst c. rewrite str_lines_nl. cbn [tl]. apply IH1.
      - rewrite (str_lines_tl_other c r Hc). apply IH2. }
    split; intros k.
    + rewrite str_lines_nonempty. cbn [find_markers scan andb].
      rewrite first_str_line. f_equal. apply Hl.
    + cbn [scan andb app]. apply Hl.
Qed.

Theorem conflict_lines_scan : forall s, conflict_lines s = scan true 1 s.
Proof. intros s. apply (proj1 (find_markers_scan s)). Qed.

(* the position just after `pre` is the beginning of a line *)
Definition at_line_start (pre : list N) : Prop := pre = [] \/ exists p, pre = p ++ [10%N].

Lemma scan_spec : forall s bol line l,
  In l (scan bol line s) <->
  exists pre rest, s = pre ++ marker ++ rest /\
                   (pre = [] -> bol = true) /\ (pre <> [] -> last pre 0%N = 10%N) /\
                   l = line + count_nl pre.
Proof.
  induction s as [|c r IH]; intros bol line l.
  - cbn [scan In]. split; [tauto|]. intros (pre & rest & H & _). destruct pre; discriminate.
  - cbn [scan]. rewrite in_app_iff. split.
    + intros [H|H].
      * destruct bol; cbn [andb] in H; [|destruct H].
        destruct (starts_with marker (c :: r)) eqn:Hs; [|destruct H].
        destruct H as [<-|[]]. apply starts_with_app in Hs as [rest Hs].
        exists [], rest. rewrite count_nl_nil. split; [exact Hs|]. split; [reflexivity|]. split; [congruence|lia].
      * destruct (c =? 10)%N eqn:Hc.
        -- apply IH in H as (pre & rest & Hr & Hb & Hl & ->). apply N.eqb_eq in Hc. subst c.
           exists (10%N :: pre), rest. rewrite (count_nl_cons 10%N pre). cbn [N.eqb Pos.eqb].
           split; [rewrite Hr; reflexivity|]. split; [discriminate|]. split; [|lia].
           intros _. destruct pre as [|p pre]; [reflexivity|]. cbn [last]. apply Hl. discriminate.
        -- apply IH in H as (pre & rest & Hr & Hb & Hl & ->).
           destruct pre as [|p pre]; [specialize (Hb eq_refl); discriminate|].
           exists (c :: p :: pre), rest. rewrite (count_nl_cons c (p :: pre)), Hc.
           split; [rewrite Hr; reflexivity|]. split; [discriminate|]. split; [|lia].
           intros _. cbn [last]. apply Hl. discriminate.
    + intros (pre & rest & Hs & Hb & Hl & ->). destruct pre as [|p pre].
      * left. rewrite (Hb eq_refl). cbn [andb]. cbn [app] in Hs.
        assert (Hsw : starts_with marker (c :: r) = true) by (apply starts_with_app; exists rest; exact Hs).
        rewrite Hsw. rewrite count_nl_nil. left. lia.
      * right. cbn [app] in Hs. inversion Hs; subst p r. clear Hs. rewrite count_nl_cons.
        destruct (c =? 10)%N eqn:Hc.
        -- apply IH. exists pre, rest. split; [reflexivity|]. split; [reflexivity|]. split; [|lia].
           intros Hne. specialize (Hl ltac:(discriminate)). destruct pre; [congruence|exact Hl].
        -- apply IH. exists pre, rest. split; [reflexivity|]. split; [|split; [|lia]].
           ++ intros ->. specialize (Hl ltac:(discriminate)). cbn in Hl. subst c. discriminate.
           ++ intros Hne. specialize (Hl ltac:(discriminate)). destruct pre; [congruence|exact Hl].
Qed.

Lemma last_snoc : forall pre, pre <> [] -> last pre 0%N = 10%N -> exists p, pre = p ++ [10%N].
Proof.
  intros pre Hne Hl. exists (removelast pre). rewrite <- Hl. apply app_removelast_last. exact Hne.
Qed.

(* The line numbers find_conflict_markers reports are exactly the numbers (1 + newlines before) of the
   positions that are at the beginning of a line and followed by the marker. *)
Theorem conflict_marker_line : forall s l,
  In l (conflict_lines s) <->
  exists pre rest, s = pre ++ marker ++ rest /\ at_line_start pre /\ l = 1 + count_nl pre.
Proof.
  intros s l. rewrite conflict_lines_scan, scan_spec. split.
  - intros (pre & rest & Hs & _ & Hl & ->). exists pre, rest. repeat split; auto.
    destruct pre as [|p pre]; [left; reflexivity|right]. apply last_snoc; [discriminate|]. apply Hl. discriminate.
  - intros (pre & rest & Hs & Hat & ->). exists pre, rest. repeat split; auto.
    intros Hne. destruct Hat as [->|[p ->]]; [congruence|]. apply last_last.
Qed.

(* the same line number the lexer would give a token at that position *)
Corollary conflict_marker_line_is_lexer_line : forall s l pre rest,
  s = pre ++ marker ++ rest -> at_line_start pre -> l = 1 + count_nl pre ->
  In l (conflict_lines s) /\ N.of_nat l = line_of pre.
Proof.
  intros s l pre rest Hs Hat ->. split.
  - apply conflict_marker_line. exists pre, rest. auto.
  - unfold line_of. lia.
Qed.

(* ============================================================================================== *)
(* 3. file attribution *)

(* every module's id is the position of its file in `visited` *)
Definition ids_ok (s : state) : Prop :=
  forall f id, In (f, id) (modules s) -> nth_error (visited s) id = Some f.

(* when nothing failed so far the ids are 0, 1, 2, ... in push order *)
Definition dense_ok (s : state) : Prop :=
  List.length (modules s) <= List.length (visited s) /\
  (List.length (modules s) = List.length (visited s) -> map snd (modules s) = seq 0 (List.length (visited s))).

Lemma nth_error_snoc_old : forall (l : list string) x i f, nth_error l i = Some f -> nth_error (l ++ [x]) i = Some f.
Proof.
  intros l x i f H. rewrite nth_error_app1; [exact H|]. apply nth_error_Some. congruence.
Qed.

Lemma nth_error_snoc_new : forall (l : list string) x, nth_error (l ++ [x]) (List.length l) = Some x.
Proof. intros l x. rewrite nth_error_app2, Nat.sub_diag; [reflexivity|lia]. Qed.

Lemma visit_ids_ok : forall read f rest s, ids_ok s -> ids_ok (visit read f rest s).
Proof.
  intros read f rest s H. unfold visit. destruct (mem f (visited s)); [exact H|].
  destruct (read f) as [| |ok uses]; unfold ids_ok in *; cbn [modules visited].
  - intros g id Hin. apply nth_error_snoc_old. auto.
  - intros g id Hin. apply nth_error_snoc_old. auto.
  - destruct ok.
    + intros g id Hin. apply in_app_iff in Hin as [Hin|[Heq|[]]].
      * apply nth_error_snoc_old. auto.
      * inversion Heq; subst. apply nth_error_snoc_new.
    + intros g id Hin. apply nth_error_snoc_old. auto.
Qed.

Lemma visit_dense_ok : forall read f rest s, dense_ok s -> dense_ok (visit read f rest s).
Proof.
  intros read f rest s [Hle Hd]. unfold visit. destruct (mem f (visited s)); [split; assumption|].
  destruct (read f) as [| |ok uses]; unfold dense_ok; cbn [modules visited]; rewrite ?app_length; cbn [List.length].
  - split; [lia|]. intros H. lia.
  - split; [lia|]. intros H. lia.
  - destruct ok; rewrite ?app_length; cbn [List.length].
    + split; [lia|]. intros H. rewrite map_app, Hd by lia. cbn [map snd].
      replace (List.length (visited s) + 1) with (S (List.length (visited s))) by lia.
      rewrite seq_S. reflexivity.
    + split; [lia|]. intros H. lia.
Qed.

Lemma run_invariant : forall (P : state -> Prop) read,
  (forall f rest s, P s -> P (visit read f rest s)) ->
  forall fuel s s', P s -> run fuel read s = Some s' -> P s'.
Proof.
  intros P read Hstep. induction fuel as [|fuel IH]; intros s s' HP Hrun; cbn [run] in Hrun.
  - destruct (pop_last (to_visit s)) as [[f rest]|]; [discriminate|]. inversion Hrun; subst. exact HP.
  - destruct (pop_last (to_visit s)) as [[f rest]|].
    + eapply IH; [|exact Hrun]. apply Hstep. exact HP.
    + inversion Hrun; subst. exact HP.
Qed.

Lemma find_id : forall (mods : list (string * nat)) id,
  (exists f, In (f, id) mods) ->
  exists f, find (fun m => Nat.eqb (snd m) id) mods = Some (f, id) /\ In (f, id) mods.
Proof.
  induction mods as [|[g i] mods IH]; intros id [f Hin]; [destruct Hin|].
  cbn [find snd]. destruct (Nat.eqb i id) eqn:He.
  - apply Nat.eqb_eq in He. subst i. exists g. split; [reflexivity|left; reflexivity].
  - destruct Hin as [Heq|Hin].
    + inversion Heq; subst. rewrite Nat.eqb_refl in He. discriminate.
    + destruct (IH id (ex_intro _ f Hin)) as (f' & Hf & Hin'). exists f'. split; [exact Hf|right; exact Hin'].
Qed.

(* For every import graph (cycles, diamonds, unreadable files, files with syntax errors), with or
   without the bundled std, and for every order in which the reversed map is filled: the file an id is
   mapped back to is the file that was tokenised with that id. *)
Theorem file_attr : forall fuel read bundle_std main s,
  tree_state fuel read bundle_std main = Some s ->
  forall mods', Permutation (modules s) mods' ->
  forall f id, In (f, id) mods' -> namespace_to_file mods' id = Some f.
Proof.
  intros fuel read std main s Hrun mods' Hperm f id Hin.
  assert (Hok : ids_ok s).
  { eapply (run_invariant ids_ok read (visit_ids_ok read)); [|exact Hrun].
    intros g i []. }
  unfold namespace_to_file.
  destruct (find_id mods' id (ex_intro _ f Hin)) as (f' & Hfind & Hin').
  rewrite Hfind.
  assert (H1 : nth_error (visited s) id = Some f) by (apply Hok; eapply Permutation_in; [apply Permutation_sym; exact Hperm|exact Hin]).
  assert (H2 : nth_error (visited s) id = Some f') by (apply Hok; eapply Permutation_in; [apply Permutation_sym; exact Hperm|exact Hin']).
  congruence.
Qed.

(* When no file failed (tree returns Ok), a module's position in the module list is its file id:
   `basics_index`, the position of the preamble that tree() uses as the file id of the std statements it
   appends to every user module, is the preamble's own id. *)
Theorem position_is_file_id : forall fuel read bundle_std main s,
  tree_state fuel read bundle_std main = Some s ->
  List.length (modules s) = List.length (visited s) ->
  forall i f id, nth_error (modules s) i = Some (f, id) -> id = i.
Proof.
  intros fuel read std main s Hrun Hlen i f id Hnth.
  assert (Hd : dense_ok s).
  { eapply (run_invariant dense_ok read (visit_dense_ok read)); [|exact Hrun].
    split; [cbn; lia|]. intros _. reflexivity. }
  destruct Hd as [_ Hd]. specialize (Hd Hlen).
  assert (Hm : nth_error (map snd (modules s)) i = Some id) by (rewrite nth_error_map, Hnth; reflexivity).
  rewrite Hd in Hm.
  assert (Hi : i < List.length (visited s)).
  { apply nth_error_Some in Hnth || idtac. rewrite <- Hlen. apply nth_error_Some. congruence. }
  rewrite nth_error_nth' with (d := 0) in Hm by (rewrite seq_length; exact Hi).
  rewrite seq_nth in Hm by exact Hi. inversion Hm. lia.
Qed.

(* ============================================================================================== *)
(* 4. syntax errors carry the span of the current token *)

Theorem syntax_error_at_current_token : forall c msg,
  se_span (syntax_error c msg) = cspan c /\ se_file (syntax_error c msg) = c_file c.
Proof. intros. split; reflexivity. Qed.

Theorem raise_carries_current_span : forall (A : Type) c msg (c' : context) errs,
  @raise_syntax_error A c msg = PErr c' errs ->
  errs = [syntax_error c msg] /\ c' = skip 1 c.
Proof. intros A c msg c' errs H. unfold raise_syntax_error in H. inversion H. auto. Qed.

Theorem expect_error_at_current_token : forall c pat msg c' errs,
  expect c pat msg = PErr c' errs ->
  pat (token c) = false /\ exists e, errs = [e] /\ se_span e = cspan c /\ se_file e = c_file c.
Proof.
  intros c pat msg c' errs H. unfold expect in H. destruct (pat (token c)); [discriminate|].
  apply raise_carries_current_span in H as [-> _]. split; [reflexivity|].
  exists (syntax_error c msg). auto.
Qed.

Lemma last_span_snoc : forall l t s, last_span (l ++ [(t, s)]) = Some s.
Proof. intros l t s. unfold last_span. rewrite rev_unit. reflexivity. Qed.

(* at the end of the input the span is that of the LAST token of the file ... *)
Theorem eof_span_is_last_token : forall c all t s,
  c_ahead c = [] -> c_last c = last_span (all ++ [(t, s)]) ->
  token c = "EOF"%string /\ cspan c = s.
Proof.
  intros c all t s Ha Hl. unfold token, cspan. rewrite Ha, Hl, last_span_snoc. auto.
Qed.

(* ... and Span::zero (line 0) only when the file has no token at all *)
Theorem empty_file_span_is_zero : forall c, c_ahead c = [] -> c_last c = None ->
  cspan c = zero_span (c_file_id c) /\ line_start (fs_span (cspan c)) = 0%N.
Proof. intros c Ha Hl. unfold cspan. rewrite Ha, Hl. auto. Qed.

(* skip keeps the context a suffix of the token list it started from *)
Definition suffix_of (l all : list (string * fspan)) : Prop := exists pre, all = pre ++ l.

(* the context belongs to the token list `all` *)
Definition ctx_of (all : list (string * fspan)) (c : context) : Prop :=
  suffix_of (c_ahead c) all /\ c_last c = last_span all.

Lemma skip_count_suffix : forall l n, suffix_of (skip_count l n) l.
Proof.
  induction l as [|[t sp] r IH]; intros n.
  - destruct n; exists []; reflexivity.
  - destruct n as [|n]; [exists []; reflexivity|]. cbn [skip_count].
    destruct (is_comment t).
    + destruct (IH (S n)) as [pre H]. exists ((t, sp) :: pre). cbn. f_equal. exact H.
    + destruct (IH n) as [pre H]. exists ((t, sp) :: pre). cbn. f_equal. exact H.
Qed.

Lemma skip_trailing_suffix : forall nl l, suffix_of (skip_trailing nl l) l.
Proof.
  induction l as [|[t sp] r IH].
  - exists []. reflexivity.
  - cbn [skip_trailing]. destruct (is_comment t || nl && is_newline t).
    + destruct IH as [pre H]. exists ((t, sp) :: pre). cbn. f_equal. exact H.
    + exists []. reflexivity.
Qed.

Lemma suffix_trans : forall a b c, suffix_of a b -> suffix_of b c -> suffix_of a c.
Proof. intros a b c [p1 H1] [p2 H2]. exists (p2 ++ p1). rewrite <- app_assoc. congruence. Qed.

Theorem skip_keeps_ctx : forall n c all, ctx_of all c -> ctx_of all (skip n c).
Proof.
  intros n c all [H Hl]. split; [|exact Hl]. unfold skip. cbn [c_ahead].
  eapply suffix_trans; [apply skip_trailing_suffix|].
  eapply suffix_trans; [apply skip_count_suffix|exact H].
Qed.

Lemma push_keeps_ctx : forall flag c all, ctx_of all c -> ctx_of all (push_skip_newlines flag c).
Proof.
  intros flag c all [H Hl]. unfold push_skip_newlines. apply skip_keeps_ctx. split; assumption.
Qed.

(* In a file that has at least one token, whatever the parser is looking at -- a token, or the end of
   the input -- its span is the span the lexer gave to a token of that file: the current one, or the
   last one at the end of the input. *)
Theorem cspan_is_token_span : forall tab file_id s c,
  ctx_of (lexed tab file_id s) c -> lexed tab file_id s <> [] ->
  exists tk, In tk (lex tab s) /\ cspan c = mkFSpan file_id (t_span tk) /\
             (c_ahead c = [] -> exists pre, lex tab s = pre ++ [tk]).
Proof.
  intros tab file_id s c [[pre Hsuf] Hl] Hne. unfold cspan.
  destruct (c_ahead c) as [|[t sp] rest] eqn:Ha.
  - unfold lexed in *. destruct (rev (lex tab s)) as [|tk r] eqn:Hr.
    + apply (f_equal (@rev _)) in Hr. rewrite rev_involutive in Hr. rewrite Hr in Hne. cbn in Hne. congruence.
    + assert (Hlex : lex tab s = rev r ++ [tk]).
      { apply (f_equal (@rev _)) in Hr. rewrite rev_involutive in Hr. exact Hr. }
      rewrite Hl, Hlex, map_app. cbn [map]. rewrite last_span_snoc.
      exists tk. split; [apply in_app_iff; right; left; reflexivity|].
      split; [reflexivity|]. intros _. exists (rev r). reflexivity.
  - assert (Hin : In (t, sp) (lexed tab file_id s)) by (rewrite Hsuf; apply in_app_iff; right; left; reflexivity).
    unfold lexed in Hin. apply in_map_iff in Hin as (tk & Heq & Hin). inversion Heq; subst t sp.
    exists tk. split; [exact Hin|]. split; [reflexivity|]. intros H. discriminate.
Qed.

(* Hence the line of a syntax error is the lexer's line of that token: 1 + the number of newline
   characters before it in the source (any source: multi-byte characters, comments, string literals that
   span lines); at the end of the input it is the line of the last token -- never 0. *)
Theorem syntax_error_line : forall tab file_id s c msg,
  ctx_of (lexed tab file_id s) c -> lexed tab file_id s <> [] ->
  exists tk, In tk (lex tab s) /\
    fs_file_id (se_span (syntax_error c msg)) = file_id /\
    line_start (fs_span (se_span (syntax_error c msg)))
      = (1 + N.of_nat (count_nl (firstn (N.to_nat (t_cp0 tk)) s)))%N /\
    se_file (syntax_error c msg) = c_file c /\
    (c_ahead c = [] -> exists pre, lex tab s = pre ++ [tk]).
Proof.
  intros tab file_id s c msg Hc Hne.
  destruct (cspan_is_token_span tab file_id s c Hc Hne) as (tk & Hin & Hsp & Hlast).
  exists tk. split; [exact Hin|]. cbn [syntax_error se_span se_file]. rewrite Hsp. cbn [fs_file_id fs_span].
  split; [reflexivity|]. split; [exact (lex_line tab s tk Hin)|]. split; [reflexivity|exact Hlast].
Qed.

(* outer_statement: the error for a statement that is not allowed at top level carries the span of the
   statement (its first token) and the file of the context *)
Theorem not_outer_error_is_at_the_statement : forall at_stmt after c' errs,
  outer_statement_check at_stmt after false = PErr c' errs ->
  exists e, errs = [e] /\ se_span e = statement_span at_stmt /\ se_file e = c_file after /\ c' = skip 1 after.
Proof.
  intros at_stmt after c' errs H. unfold outer_statement_check in H. inversion H; subst.
  eexists. split; [reflexivity|]. auto.
Qed.

(* ... whose line is the lexer's line of a token of the file *)
Theorem not_outer_error_line : forall tab file_id s at_stmt after c' errs,
  ctx_of (lexed tab file_id s) at_stmt -> lexed tab file_id s <> [] ->
  outer_statement_check at_stmt after false = PErr c' errs ->
  exists e tk, errs = [e] /\ In tk (lex tab s) /\
    se_span e = cspan (push_skip_newlines false at_stmt) /\
    line_start (fs_span (se_span e)) = (1 + N.of_nat (count_nl (firstn (N.to_nat (t_cp0 tk)) s)))%N.
Proof.
  intros tab file_id s at_stmt after c' errs Hc Hne H.
  apply not_outer_error_is_at_the_statement in H as (e & -> & Hsp & _ & _).
  destruct (cspan_is_token_span tab file_id s (push_skip_newlines false at_stmt)
              (push_keeps_ctx false at_stmt _ Hc) Hne) as (tk & Hin & Htk & _).
  exists e, tk. split; [reflexivity|]. split; [exact Hin|]. split; [exact Hsp|].
  rewrite Hsp. unfold statement_span. rewrite Htk. cbn [fs_span]. exact (lex_line tab s tk Hin).
Qed.

(* ============================================================================================== *)
(* statements left to the oracle *)

(* For a local error kind k of the resolver / type checker: planting k at position pos of a valid
   multi-file program makes the FIRST returned error carry pos's file and line. *)
Definition first_error_at_planted_position_statement
  (program position kind : Type)
  (valid : program -> Prop)
  (plant : kind -> program -> position -> program)
  (pos_file : position -> string) (pos_line : position -> N)
  (compile_errors : program -> list (string * N))      (* (file, span.line_start) of the returned errors, in order *)
  : Prop :=
  forall k p pos, valid p ->
    exists rest, compile_errors (plant k p pos) = (pos_file pos, pos_line pos) :: rest.
