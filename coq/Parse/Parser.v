(* Executable, fuelled model of sylt-parser (parser.rs / expression.rs / statement.rs) over the token
   kinds + payloads.  Definitions only.

   Shape: open recursion.  [step T rec q] is one activation of the Rust function (or loop iteration)
   named by the request [q], with every recursive call going through [rec]; [go T (S f) q = step T (go T f) q].
   Fuel bounds the recursion DEPTH; running out is the distinct outcome [Fuel].

   What is modelled exactly: Context (skip: comments always skipped, newlines when skip_newlines;
   push/pop_skip_newlines; tokens_lookahead; prev; running past the end), every accept/reject decision,
   every backtracking site (blob probe and unary/variant in prefix, `ret`'s and variant's "try expression
   else none", the prime call's argument loop, the assignment probe, parse_type's "-> <type> or void"),
   the tree and the final token index, every syntax error (the context returned with it and the token index
   whose span it reports), the error recovery loops of `block` and `module`, and the sites where the Rust code
   would panic or spin ([Panic]: `remove(0)` on an empty vector, `unreachable!`, `prev()` running into a
   comment at index 0).  Not modelled: spans themselves, messages, statement comments. *)
From Coq Require Import String List NArith Bool Arith.
From Sylt Require Import Syntax.Ast Syntax.Tok Parse.PrecTable.
Import ListNotations.
Local Open Scope nat_scope.

(* ------------------------------------------------------------------------------------------- *)
(* Context: a zipper over the token list.  [pre] = tokens before `curr`, most recent first;
   [post] = tokens from `curr` on; [over] = how far `curr` is past the end; [nl] = skip_newlines. *)

Record ctx := mkctx { pre : list tok; post : list tok; over : nat; nl : bool }.

Definition consumed (c : ctx) : nat := length (pre c) + over c.

Definition token (c : ctx) : tok :=
  match post c with
  | t :: _ => t
  | [] => TEOF
  end.

(* advance over [n] non-comment tokens; returns the number of steps that fell past the end *)
Fixpoint adv (post : list tok) (n : nat) (pre : list tok) : list tok * list tok * nat :=
  match n with
  | 0 => (pre, post, 0)
  | S n' =>
      match post with
      | [] => (pre, [], n)
      | t :: post' => adv post' (match t with TComment => n | _ => n' end) (t :: pre)
      end
  end.

(* trailing comments and (maybe) newlines *)
Fixpoint strip (nlf : bool) (post : list tok) (pre : list tok) : list tok * list tok :=
  match post with
  | TComment :: post' => strip nlf post' (TComment :: pre)
  | TK KNewline :: post' => if nlf then strip nlf post' (TK KNewline :: pre) else (pre, post)
  | _ => (pre, post)
  end.

Definition skip (n : nat) (c : ctx) : ctx :=
  match adv (post c) n (pre c) with
  | (pre1, post1, lft) =>
      match strip (nl c) post1 pre1 with
      | (pre2, post2) => mkctx pre2 post2 (over c + lft) (nl c)
      end
  end.

(* Context::prev: one token back, then further back while on a comment.  With a comment at index 0 and
   nothing before it the Rust loop does not terminate: [None]. *)
Fixpoint unwind (pre : list tok) (post : list tok) : option (list tok * list tok) :=
  match post with
  | TComment :: _ =>
      match pre with
      | t :: pre' => unwind pre' (t :: post)
      | [] => None
      end
  | _ => Some (pre, post)
  end.

Definition prev (c : ctx) : option ctx :=
  match over c with
  | S o => Some (mkctx (pre c) (post c) o (nl c))
  | 0 =>
      match pre c with
      | [] => match post c with TComment :: _ => None | _ => Some c end
      | t :: pre' =>
          match unwind pre' (t :: post c) with
          | Some (p1, p2) => Some (mkctx p1 p2 0 (nl c))
          | None => None
          end
      end
  end.

Definition set_nl (b : bool) (c : ctx) : ctx := mkctx (pre c) (post c) (over c) b.

Definition push_nl (b : bool) (c : ctx) : ctx * bool := (skip 0 (set_nl b c), nl c).
Definition pop_nl (b : bool) (c : ctx) : ctx := set_nl b c.

(* ------------------------------------------------------------------------------------------- *)
(* outcomes.  [Err c es]: a syntax error; [c] is the context handed back with it (where recovery resumes),
   [es] the token indices whose spans the reported errors carry, in order.  [Fuel]: the model ran out of
   fuel.  [Panic]: the Rust code would panic or loop forever here. *)

Inductive res (A : Type) :=
| Ok (a : A)
| Err (c : ctx) (es : list nat)
| Fuel
| Panic.
Arguments Ok {A} a.
Arguments Err {A} c es.
Arguments Fuel {A}.
Arguments Panic {A}.

Definition bind {A B : Type} (m : res A) (k : A -> res B) : res B :=
  match m with
  | Ok a => k a
  | Err c es => Err c es
  | Fuel => Fuel
  | Panic => Panic
  end.

Notation "'let+' x ':=' m 'in' k" := (bind m (fun x => k))
  (at level 200, x name, m at level 100, k at level 200, right associativity).
Notation "'let+' ' p ':=' m 'in' k" := (bind m (fun p => k))
  (at level 200, p strict pattern, m at level 100, k at level 200, right associativity).

(* raise_syntax_error!(ctx, ..): the error carries the span of the current token of [c]; the context handed
   back is one token further *)
Definition raise {A : Type} (c : ctx) : res A := Err (skip 1 c) [consumed c].

Definition is_k (k : kw) (c : ctx) : bool := tok_is k (token c).

Definition skip_if (k : kw) (c : ctx) : ctx := if is_k k c then skip 1 c else c.

Definition expect (k : kw) (c : ctx) : res ctx := if is_k k c then Ok (skip 1 c) else raise c.

Definition look2 (c : ctx) : tok * tok := (token c, token (skip 1 c)).
Definition look3 (c : ctx) : tok * tok * tok := (token c, token (skip 1 c), token (skip 1 (skip 1 c))).

(* fuel for the loops that only consume tokens (no call back into the recursive parser) *)
Definition local_fuel (c : ctx) : nat := S (S (length (post c))).

Fixpoint skip_while_nl (f : nat) (c : ctx) : ctx :=
  match f with
  | 0 => c
  | S f' => if is_k KNewline c then skip_while_nl f' (skip 1 c) else c
  end.

Definition skip_nls (c : ctx) : ctx := skip_while_nl (local_fuel c) c.

(* skip_until!(ctx, k): forward to the next token k or the end *)
Fixpoint skip_until_f (f : nat) (k : kw) (c : ctx) : ctx :=
  match f with
  | 0 => c
  | S f' =>
      match token c with
      | TEOF => c
      | _ => if is_k k c then c else skip_until_f f' k (skip 1 c)
      end
  end.

Definition skip_until (k : kw) (c : ctx) : ctx := skip_until_f (local_fuel c) k c.

(* assignable_call, after an argument: the list continues over line breaks next to a comma; blank and
   comment-only lines in between are insignificant *)
Definition after_arg (c : ctx) : ctx :=
  let an := skip_nls c in
  if tok_is KComma (token c) || (tok_is KNewline (token c) && tok_is KComma (token an))
  then skip_nls (skip 1 an)
  else c.

Definition self_name : name := [115; 101; 108; 102]%N.
Definition slash : N := 47%N.

(* ------------------------------------------------------------------------------------------- *)
(* type_assignable, constraints: token-only loops *)

Fixpoint type_assignable_inner (f : nat) (c : ctx) (acc : tyass) : res (tyass * ctx) :=
  match f with
  | 0 => Fuel
  | S f' =>
      match token c with
      | TIdent n =>
          if is_capitalized n then Ok (TAAccess acc n, skip 1 c)
          else let+ c1 := expect KDot (skip 1 c) in type_assignable_inner f' c1 (TAAccess acc n)
      | _ => Ok (acc, c)
      end
  end.

Definition type_assignable (c : ctx) : res (tyass * ctx) :=
  match token c with
  | TIdent n =>
      if is_capitalized n then Ok (TARead n, skip 1 c)
      else let+ c1 := expect KDot (skip 1 c) in type_assignable_inner (local_fuel c) c1 (TARead n)
  | _ => raise c
  end.

Fixpoint constraint_args (f : nat) (c : ctx) (acc : list name) : res (list name * ctx) :=
  match f with
  | 0 => Fuel
  | S f' =>
      match token c with
      | TIdent v => constraint_args f' (skip 1 c) (acc ++ [v])
      | TK KPlus | TK KComma | TK KGreater => Ok (acc, c)
      | _ => raise c
      end
  end.

Definition constraint (f : nat) (c : ctx) : res (tcons * ctx) :=
  match token c with
  | TIdent n => let+ '(args, c1) := constraint_args f (skip 1 c) [] in Ok ((n, args), c1)
  | _ => raise c
  end.

(* BTreeMap::insert on a key-sorted association list *)
Fixpoint map_insert {V : Type} (k : name) (v : V) (m : list (name * V)) : list (name * V) :=
  match m with
  | [] => [(k, v)]
  | (k', v') :: m' =>
      if name_ltb k k' then (k, v) :: m
      else if name_eqb k k' then (k, v) :: m'
      else (k', v') :: map_insert k v m'
  end.

Definition consmap := list (name * list tcons).

(* the inner loop of the constraint list of one type variable; the bool says "another variable follows" *)
Fixpoint constraints_inner (f : nat) (c : ctx) (ident : name) (lst : list tcons) (m : consmap)
  : res (consmap * bool * ctx) :=
  match f with
  | 0 => Fuel
  | S f' =>
      let+ '(k, c1) := constraint (local_fuel c) c in
      let lst' := lst ++ [k] in
      let c2 := skip 1 c1 in
      match token c1 with
      | TK KPlus => constraints_inner f' c2 ident lst' m
      | TK KComma => Ok (map_insert ident lst' m, true, c2)
      | TK KGreater => Ok (map_insert ident lst' m, false, c2)
      | _ => Panic    (* `unreachable!` in the Rust code; constraint_args only stops on + , > *)
      end
  end.

Fixpoint constraints_outer (f : nat) (c : ctx) (m : consmap) : res (consmap * ctx) :=
  match f with
  | 0 => Fuel
  | S f' =>
      match look2 c with
      | (TIdent ident, TK KColon) =>
          let+ '(m', again, c1) := constraints_inner (local_fuel c) (skip 1 (skip 1 c)) ident [] m in
          if again then constraints_outer f' c1 m' else Ok (m', c1)
      | _ => raise c
      end
  end.

(* ------------------------------------------------------------------------------------------- *)
(* `use` paths *)

Fixpoint path_loop (f : nat) (c : ctx) (acc : name) : name * ctx :=
  match f with
  | 0 => (acc, c)
  | S f' =>
      match token c with
      | TIdent s =>
          let c1 := skip 1 c in
          if is_k KSlash c1 then path_loop f' (skip 1 c1) (acc ++ s ++ [slash])
          else path_loop f' c1 (acc ++ s)
      | _ => (acc, c)
      end
  end.

Definition path (c : ctx) : res (name * ctx) :=
  match token c with
  | TK KSlash => Ok (path_loop (local_fuel c) (skip 1 c) [slash])
  | TIdent _ => Ok (path_loop (local_fuel c) c [])
  | _ => raise c
  end.

Fixpoint trim_start_slash (s : name) : name :=
  match s with
  | c :: s' => if N.eqb c slash then trim_start_slash s' else s
  | [] => []
  end.

Definition trim_slashes (s : name) : name := rev (trim_start_slash (rev (trim_start_slash s))).

Definition ends_with_slash (s : name) : bool :=
  match rev s with c :: _ => N.eqb c slash | [] => false end.

Definition starts_with_slash (s : name) : bool :=
  match s with c :: _ => N.eqb c slash | [] => false end.

(* last path component (PathBuf::file_stem; identifiers contain no '.') *)
Fixpoint last_component (s : name) (cur : name) : name :=
  match s with
  | [] => cur
  | c :: s' => if N.eqb c slash then last_component s' [] else last_component s' (cur ++ [c])
  end.

Definition ascii_name (s : string) : name :=
  map (fun a => N.of_nat (Ascii.nat_of_ascii a)) (list_ascii_of_string s).

(* sylt_common::STD_LIB_FILES (names only) *)
Definition std_lib_names : list name :=
  map ascii_name ["common"; "container"; "dict"; "list"; "math"; "maybe"; "preamble"; "set"; "unsafe"]%string.

(* The importing file is /main.sy and the source root is / (as in the harness), so both a relative and a
   rooted path resolve against "/". *)
Definition use_path (c : ctx) : res (name * file_or_lib * ctx) :=
  let+ '(p, c1) := path c in
  let nm := trim_slashes p in
  let file :=
    if existsb (name_eqb nm) std_lib_names then FLib nm
    else FFile ([slash] ++
                (if name_eqb p [slash] then ascii_name "exports.sy"
                 else if ends_with_slash p then nm ++ ascii_name "/exports.sy"
                 else nm ++ ascii_name ".sy")) in
  Ok (p, file, c1).

Fixpoint from_imports (f : nat) (c : ctx) (acc : list (name * option name))
  : res (list (name * option name) * ctx) :=
  match f with
  | 0 => Fuel
  | S f' =>
      match token c with
      | TK KRightParen | TK KNewline => Ok (acc, c)
      | TIdent n =>
          let c1 := skip 1 c in
          let+ '(alias, c2) :=
            (if is_k KAs c1 then
               let c2 := skip 1 c1 in
               match token c2 with
               | TIdent a => Ok (Some a, skip 1 c2)
               | _ => raise c2
               end
             else Ok (None, c1)) in
          match token c2 with
          | TK KComma | TK KRightParen | TK KNewline => from_imports f' (skip_if KComma c2) (acc ++ [(n, alias)])
          | _ => raise c2
          end
      | _ => raise c
      end
  end.

(* ------------------------------------------------------------------------------------------- *)
(* requests and results of the recursive parser *)

Inductive req :=
| QPrec (p : nat) (c : ctx)                                   (* parse_precedence(ctx, p) *)
| QLoop (p : nat) (lhs : expr) (c : ctx)                      (* its `while` loop *)
| QSub (a : assignable) (c : ctx)                             (* sub_assignable *)
| QArgs (primer : bool) (acc : list expr) (c : ctx)           (* assignable_call: argument loop *)
| QTuple (is_tuple : bool) (acc : list expr) (c : ctx)        (* grouping_or_tuple: loop *)
| QList (acc : list expr) (c : ctx)                           (* list: loop *)
| QFields (acc : list (name * expr)) (c : ctx)                (* blob: loop *)
| QElifs (acc : list ifbranch) (c : ctx)                      (* if_expression: elif loop + else *)
| QCases (acc : list casebranch) (c : ctx)                    (* case_expression: branch loop *)
| QParams (acc : list (name * ty)) (c : ctx)                  (* function: parameter loop *)
| QType (c : ctx)                                             (* parse_type *)
| QSepTypes (old : bool) (c : ctx)                            (* parse_sep_end_by(…, parse_type) after `(` *)
| QFnTyParams (acc : list ty) (c : ctx)                       (* parse_type: fn parameter loop *)
| QTyTuple (is_tuple : bool) (acc : list ty) (c : ctx)        (* parse_type: tuple loop *)
| QStmts (acc : list stmt) (errs : list nat) (c : ctx)        (* block: loop, with the errors collected so far *)
| QStmt (c : ctx)                                             (* statement *)
| QEnumItems (acc : list (name * ty * nat)) (c : ctx)         (* enum: parse_sep_end_by(sep, end, item); with the
                                                                 token index of each variant name *)
| QBlobFields (acc : list (name * ty)) (c : ctx)              (* blob declaration: field loop *)
| QModule (acc : list stmt) (errs : list nat) (last : nat) (c : ctx).   (* module: loop over outer statements *)

Inductive out :=
| RE (e : expr) (c : ctx)
| RA (a : assignable) (c : ctx)
| REs (es : list expr) (c : ctx)
| RTup (is_tuple : bool) (es : list expr) (c : ctx)
| RFs (fs : list (name * expr)) (c : ctx)
| RIfs (bs : list ifbranch) (c : ctx)
| RCases (bs : list casebranch) (c : ctx)
| RParams (ps : list (name * ty)) (ret : ty) (c : ctx)
| RT (t : ty) (c : ctx)
| RTs (ts : list ty) (c : ctx)
| RFnTy (ps : list ty) (ret : ty) (c : ctx)
| RTyTup (is_tuple : bool) (ts : list ty) (c : ctx)
| RSs (ss : list stmt) (c : ctx)
| RS (s : stmt) (c : ctx)
| RNTs (l : list (name * ty)) (c : ctx)
| REnum (l : list (name * ty * nat)) (c : ctx).

(* Programs with explicit recursive calls: [Call q kOk kErr] asks the recursive parser for [q] and goes
   on with [kOk] on success and with [kErr] (given the error's context and positions) on a syntax error;
   running out of fuel or panicking in the callee ends the caller the same way ([run]).  Backtracking sites
   are exactly the handlers that do not re-raise. *)
Inductive prog (A : Type) :=
| Ret (r : res A)
| Call (q : req) (kOk : out -> prog A) (kErr : ctx -> list nat -> prog A).
Arguments Ret {A} r.
Arguments Call {A} q kOk kErr.

Fixpoint ptry {A B : Type} (m : prog A) (k : A -> prog B) (e : ctx -> list nat -> prog B) : prog B :=
  match m with
  | Ret (Ok a) => k a
  | Ret (Err c es) => e c es
  | Ret Fuel => Ret Fuel
  | Ret Panic => Ret Panic
  | Call q kOk kErr => Call q (fun o => ptry (kOk o) k e) (fun c es => ptry (kErr c es) k e)
  end.

Fixpoint run {A : Type} (rec : req -> res out) (m : prog A) : res A :=
  match m with
  | Ret r => r
  | Call q kOk kErr =>
      match rec q with
      | Ok o => run rec (kOk o)
      | Err c es => run rec (kErr c es)
      | Fuel => Fuel
      | Panic => Panic
      end
  end.

Definition ok {A : Type} (a : A) : prog A := Ret (Ok a).
(* `?`: hand the error on unchanged *)
Definition reraise {A : Type} (c : ctx) (es : list nat) : prog A := Ret (Err c es).
Definition praise {A : Type} (c : ctx) : prog A := Ret (raise c).
Definition panic {A : Type} : prog A := Ret Panic.

Notation "'let*' x ':=' m 'in' k" := (ptry m (fun x => k) reraise)
  (at level 200, x name, m at level 100, k at level 200, right associativity).
Notation "'let*' ' p ':=' m 'in' k" := (ptry m (fun p => k) reraise)
  (at level 200, p strict pattern, m at level 100, k at level 200, right associativity).

Definition call (q : req) : prog out := Call q ok reraise.

Definition get_E (o : out) : prog (expr * ctx) := match o with RE e c => ok (e, c) | _ => panic end.
Definition get_A (o : out) : prog (assignable * ctx) := match o with RA a c => ok (a, c) | _ => panic end.
Definition get_Es (o : out) : prog (list expr * ctx) := match o with REs es c => ok (es, c) | _ => panic end.
Definition get_Tup (o : out) : prog (bool * list expr * ctx) :=
  match o with RTup b es c => ok (b, es, c) | _ => panic end.
Definition get_Fs (o : out) : prog (list (name * expr) * ctx) := match o with RFs fs c => ok (fs, c) | _ => panic end.
Definition get_Ifs (o : out) : prog (list ifbranch * ctx) := match o with RIfs bs c => ok (bs, c) | _ => panic end.
Definition get_Cases (o : out) : prog (list casebranch * ctx) :=
  match o with RCases bs c => ok (bs, c) | _ => panic end.
Definition get_Params (o : out) : prog (list (name * ty) * ty * ctx) :=
  match o with RParams ps r c => ok (ps, r, c) | _ => panic end.
Definition get_T (o : out) : prog (ty * ctx) := match o with RT t c => ok (t, c) | _ => panic end.
Definition get_Ts (o : out) : prog (list ty * ctx) := match o with RTs ts c => ok (ts, c) | _ => panic end.
Definition get_FnTy (o : out) : prog (list ty * ty * ctx) :=
  match o with RFnTy ps r c => ok (ps, r, c) | _ => panic end.
Definition get_TyTup (o : out) : prog (bool * list ty * ctx) :=
  match o with RTyTup b ts c => ok (b, ts, c) | _ => panic end.
Definition get_Ss (o : out) : prog (list stmt * ctx) := match o with RSs ss c => ok (ss, c) | _ => panic end.
Definition get_S (o : out) : prog (stmt * ctx) := match o with RS s c => ok (s, c) | _ => panic end.
Definition get_NTs (o : out) : prog (list (name * ty) * ctx) := match o with RNTs l c => ok (l, c) | _ => panic end.
Definition get_Enum (o : out) : prog (list (name * ty * nat) * ctx) :=
  match o with REnum l c => ok (l, c) | _ => panic end.

Definition call_E q := Call q get_E reraise.
Definition call_A q := Call q get_A reraise.
Definition call_Es q := Call q get_Es reraise.
Definition call_Tup q := Call q get_Tup reraise.
Definition call_Fs q := Call q get_Fs reraise.
Definition call_Ifs q := Call q get_Ifs reraise.
Definition call_Cases q := Call q get_Cases reraise.
Definition call_Params q := Call q get_Params reraise.
Definition call_T q := Call q get_T reraise.
Definition call_Ts q := Call q get_Ts reraise.
Definition call_FnTy q := Call q get_FnTy reraise.
Definition call_TyTup q := Call q get_TyTup reraise.
Definition call_Ss q := Call q get_Ss reraise.
Definition call_S q := Call q get_S reraise.
Definition call_NTs q := Call q get_NTs reraise.
Definition call_Enum q := Call q get_Enum reraise.

(* arrow_call's prepend_expresion *)
Fixpoint prepend (lhs rhs : expr) : option expr :=
  match rhs with
  | EGet (ACall callee args) => Some (EGet (AArrowCall lhs callee args))
  | EGet (AArrowCall p callee args) =>
      match prepend lhs p with
      | Some p' => Some (EGet (AArrowCall p' callee args))
      | None => None
      end
  | _ => None
  end.

Fixpoint pop_empty_rev (r : list stmt) : list stmt :=
  match r with
  | SEmpty :: r' => pop_empty_rev r'
  | _ => r
  end.
Definition pop_trailing_empty (ss : list stmt) : list stmt := rev (pop_empty_rev (rev ss)).

Definition has_key {V : Type} (k : name) (l : list (name * V)) : bool :=
  existsb (fun p => name_eqb (fst p) k) l.

Fixpoint has_dup {V : Type} (l : list (name * V)) : bool :=
  match l with
  | [] => false
  | (k, _) :: l' => has_key k l' || has_dup l'
  end.

(* parse_beg_end_comma_sep!(ctx, LeftParen, RightParen, item) with item = `*` Identifier; token-only *)
Fixpoint sep_vars (f : nat) (old : bool) (c : ctx) : res (list name * ctx) :=
  match f with
  | 0 => Fuel
  | S f' =>
      if is_k KRightParen c then Ok ([], skip 1 (pop_nl old c))
      else
        let+ c1 := expect KStar c in
        match token c1 with
        | TIdent v =>
            let c2 := skip 1 c1 in
            if is_k KRightParen c2 then Ok ([v], skip 1 (pop_nl old c2))
            else
              let+ c3 := expect KComma c2 in
              let+ '(vs, c4) := sep_vars f' old c3 in
              Ok (v :: vs, c4)
        | _ => raise c1
        end
  end.

Definition paren_vars (c : ctx) : res (list name * ctx) :=
  if is_k KLeftParen c then
    let '(c1, old) := push_nl true (skip 1 c) in sep_vars (local_fuel c) old c1
  else Ok ([], c).

Definition pexpect (k : kw) (c : ctx) : prog ctx := Ret (expect k c).

Section WithTable.
Variable T : ptab.

Definition expression (c : ctx) : prog (expr * ctx) := call_E ((QPrec (pt_entry T) c)).
Definition parse_type (c : ctx) : prog (ty * ctx) := call_T ((QType c)).
Definition statement (c : ctx) : prog (stmt * ctx) := call_S ((QStmt c)).

(* block(): optional `do`, statements until else/elif/end/EOF, optional `end` *)
Definition block (c : ctx) : prog (list stmt * ctx) := call_Ss ((QStmts [] [] (skip_if KDo c))).

(* parse_beg_end_comma_sep!(ctx, LeftParen, RightParen, parse_type) *)
Definition paren_types (c : ctx) : prog (list ty * ctx) :=
  if is_k KLeftParen c then
    let '(c1, old) := push_nl true (skip 1 c) in call_Ts (QSepTypes old c1)
  else ok ([], c).

(* ---- parse_type ---- *)
Definition step_type (c : ctx) : prog out :=
  match token c with
  | TK KVoidType => ok (RT (TyResolved RVoid) (skip 1 c))
  | TK KNil => ok (RT (TyResolved RNil) (skip 1 c))
  | TK KIntType => ok (RT (TyResolved RInt) (skip 1 c))
  | TK KFloatType => ok (RT (TyResolved RFloat) (skip 1 c))
  | TK KBoolType => ok (RT (TyResolved RBool) (skip 1 c))
  | TK KStrType => ok (RT (TyResolved RStr) (skip 1 c))
  | TIdent _ =>
      let* '(a, c1) := Ret (type_assignable c) in
      let* '(args, c2) := paren_types c1 in
      ok (RT (TyUser a args) c2)
  | TK KStar =>
      let c1 := skip 1 c in
      match token c1 with
      | TIdent n => ok (RT (TyGeneric n) (skip 1 c1))
      | _ => ok (RT (TyResolved RUnknown) c1)
      end
  | TK KFn | TK KPu =>
      let pure := is_k KPu c in
      let c1 := skip 1 c in
      let* '(cs, c2) :=
        Ret (if is_k KLess c1 then constraints_outer (local_fuel c1) (skip 1 c1) [] else Ok ([], c1)) in
      let* '(ps, r, c3) := call_FnTy ((QFnTyParams [] c2)) in
      ok (RT (TyFn cs ps r pure) c3)
  | TK KLeftParen =>
      let '(c1, old) := push_nl true (skip 1 c) in
      let is_tuple := is_k KComma c1 || is_k KRightParen c1 in
      let* '(is_tuple', ts, c2) := call_TyTup ((QTyTuple is_tuple [] c1)) in
      let* c3 := pexpect KRightParen (pop_nl old c2) in
      if is_tuple' then ok (RT (TyTuple ts) c3)
      else match ts with
           | t :: _ => ok (RT (TyGroup t) c3)
           | [] => panic    (* `types.remove(0)` on an empty vector *)
           end
  | TK KLeftBracket =>
      let '(c0, old) := push_nl true (skip 1 c) in
      let* '(t, c1) := parse_type c0 in
      let* c2 := pexpect KRightBracket (pop_nl old c1) in
      ok (RT (TyList t) c2)
  | _ => praise c
  end.

Definition step_sep_types (old : bool) (c : ctx) : prog out :=
  if is_k KRightParen c then ok (RTs [] (skip 1 (pop_nl old c)))
  else
    let* '(t, c1) := parse_type c in
    if is_k KRightParen c1 then ok (RTs [t] (skip 1 (pop_nl old c1)))
    else
      let* c2 := pexpect KComma c1 in
      let* '(ts, c3) := call_Ts (QSepTypes old c2) in
      ok (RTs (t :: ts) c3).

Definition step_fnty_params (acc : list ty) (c : ctx) : prog out :=
  match token c with
  | TK KArrow =>
      let c1 := skip 1 c in
      ptry (parse_type c1) (fun '(t, c2) => ok (RFnTy acc t c2)) (fun _ _ => ok (RFnTy acc (TyResolved RVoid) c1))
  | TEOF => praise c
  | _ =>
      let* '(t, c1) := parse_type c in
      if is_k KComma c1 || is_k KArrow c1 then call (QFnTyParams (acc ++ [t]) (skip_if KComma c1))
      else praise c1
  end.

Definition step_ty_tuple (is_tuple : bool) (acc : list ty) (c0 : ctx) : prog out :=
  let c := skip_if KComma c0 in
  match token c with
  | TEOF | TK KRightParen => ok (RTyTup is_tuple acc c)
  | _ =>
      let* '(t, c1) := parse_type c in
      call (QTyTuple (is_tuple || is_k KComma c1) (acc ++ [t]) c1)
  end.

(* ---- expressions ---- *)

Definition assignable_p (c : ctx) : prog (assignable * ctx) :=
  match token c with
  | TIdent n => call_A ((QSub (ARead n) (skip 1 c)))
  | _ => praise c
  end.

Definition assignable_call (c : ctx) (callee : assignable) : prog out :=
  let primer := is_k KPrime c in
  let c1 := skip 1 c in
  let '(c2, newlines) := if primer then push_nl (nl c1) c1 else push_nl true c1 in
  let* '(args, c3) := call_Es ((QArgs primer [] c2)) in
  let c4 := pop_nl newlines c3 in
  let* c5 := (if primer then ok c4 else pexpect KRightParen c4) in
  call (QSub (ACall callee args) c5).

Definition step_args (primer : bool) (acc : list expr) (c : ctx) : prog out :=
  match token c with
  | TEOF | TK KRightParen => ok (REs acc c)
  | _ =>
      ptry (expression c)
           (fun '(e, c1) =>
              call (QArgs primer (acc ++ [e]) (after_arg c1)))
           (fun c' es => if primer then ok (REs acc c) else reraise c' es)
  end.

Definition assignable_index (c : ctx) (indexed : assignable) : prog out :=
  let '(c1, old) := push_nl true (skip 1 c) in
  let* '(e, c2) := expression c1 in
  match e with
  | EInt _ =>
      let* c3 := pexpect KRightBracket (pop_nl old c2) in
      call (QSub (AIndex indexed e) c3)
  | _ => praise c1
  end.

Definition assignable_variant (c : ctx) (accessed : assignable) : prog out :=
  match (match accessed with
         | ARead n => Some n
         | AAccess _ n => Some n
         | _ => None
         end) with
  | None => praise c
  | Some enum_name =>
      if negb (is_capitalized enum_name) then praise c
      else
        let* c1 := pexpect KDot c in
        match token c1 with
        | TIdent v =>
            let c2 := skip 1 c1 in
            if negb (is_capitalized v) then praise c2
            else
              let* '(value, c3) := ptry (expression c2) ok (fun _ _ => ok (ENil, c2)) in
              ok (RA (AVariant accessed v value) c3)
        | _ => praise c1
        end
  end.

Definition assignable_dot (c : ctx) (accessed : assignable) : prog out :=
  let c1 := skip 1 c in
  match token c1 with
  | TIdent n => call (QSub (AAccess accessed n) (skip 1 c1))
  | _ => praise c
  end.

Definition step_sub (a : assignable) (c : ctx) : prog out :=
  match token c with
  | TK KPrime | TK KLeftParen => assignable_call c a
  | TK KLeftBracket => assignable_index c a
  | TK KDot => ptry (assignable_variant c a) ok (fun _ _ => assignable_dot c a)
  | _ => ok (RA a c)
  end.

Definition value (c : ctx) : prog out :=
  let c1 := skip 1 c in
  match token c with
  | TFloat s => ok (RE (EFloat s) c1)
  | TInt z => ok (RE (EInt z) c1)
  | TBool b => ok (RE (EBool b) c1)
  | TK KNil => ok (RE ENil c1)
  | TStr s => ok (RE (EStr s) c1)
  | _ => praise c1
  end.

Definition unary (c : ctx) : prog out :=
  let op := token c in
  let c1 := skip 1 c in
  let* '(e, c2) := call_E ((QPrec (pt_unary_level T) c1)) in
  match pt_unary T op with
  | Some u => ok (RE (EUn u e) c2)
  | None => praise c2
  end.

Definition grouping_or_tuple (c : ctx) : prog out :=
  let c1 := skip 1 c in
  let '(c2, old) := push_nl true c1 in
  let is_tuple := is_k KComma c2 || is_k KRightParen c2 in
  let* '(is_tuple', es, c3) := call_Tup ((QTuple is_tuple [] c2)) in
  let c4 := pop_nl old c3 in
  let* c5 := pexpect KRightParen c4 in
  if is_tuple' then ok (RE (ETuple es) c5)
  else match es with
       | e :: _ => ok (RE (EParen e) c5)
       | [] => panic     (* `exprs.remove(0)` on an empty vector *)
       end.

Definition step_tuple (is_tuple : bool) (acc : list expr) (c0 : ctx) : prog out :=
  let c := skip_if KComma c0 in
  match token c with
  | TEOF | TK KRightParen => ok (RTup is_tuple acc c)
  | _ =>
      let* '(e, c1) := expression c in
      let is_tuple' := is_tuple || is_k KComma c1 in
      if is_tuple' then
        if is_k KComma c1 || is_k KRightParen c1 then call (QTuple true (acc ++ [e]) (skip_if KComma c1))
        else praise c1
      else ok (RTup false (acc ++ [e]) c1)
  end.

Definition list_expr (c : ctx) : prog out :=
  let c1 := skip 1 c in
  let '(c2, old) := push_nl true c1 in
  let* '(es, c3) := call_Es ((QList [] c2)) in
  let c4 := pop_nl old c3 in
  let* c5 := pexpect KRightBracket c4 in
  ok (RE (EList es) c5).

Definition step_list (acc : list expr) (c : ctx) : prog out :=
  match token c with
  | TEOF | TK KRightBracket => ok (REs acc c)
  | _ =>
      let* '(e, c1) := expression c in
      if is_k KComma c1 || is_k KRightBracket c1 then call (QList (acc ++ [e]) (skip_if KComma c1))
      else praise c1
  end.

Definition blob (c : ctx) : prog out :=
  let* '(b, c1) := Ret (type_assignable c) in
  let* c2 := pexpect KLeftBrace c1 in
  let '(c3, old) := push_nl true c2 in
  let* '(fs, c4) := call_Fs ((QFields [] c3)) in
  let c5 := pop_nl old c4 in
  let* c6 := pexpect KRightBrace c5 in
  if is_k KElse c6 then praise c6 else ok (RE (EBlob b fs) c6).

Definition step_fields (acc : list (name * expr)) (c : ctx) : prog out :=
  match token c with
  | TK KRightBrace | TEOF => ok (RFs acc c)
  | TIdent n =>
      let* c1 := pexpect KColon (skip 1 c) in
      let* '(e, c2) := expression c1 in
      if is_k KComma c2 || is_k KRightBrace c2 then call (QFields (acc ++ [(n, e)]) (skip_if KComma c2))
      else praise c2
  | _ => praise c
  end.

Definition if_expression (c : ctx) : prog out :=
  let c1 := skip 1 c in
  let '(c2, old) := push_nl true c1 in
  let* '(cond, c3) := expression c2 in
  let c4 := pop_nl old c3 in
  (* `do` is required but not eaten here: block() takes it *)
  if is_k KDo c4 then
    let* '(body, c6) := block c4 in
    let* '(bs, c7) := call_Ifs ((QElifs [IfBranch (Some cond) body] c6)) in
    ok (RE (EIf bs) c7)
  else praise c4.

Definition step_elifs (acc : list ifbranch) (c : ctx) : prog out :=
  if is_k KElif c then
    let c1 := skip 1 c in
    let '(c2, old) := push_nl true c1 in
    let* '(cond, c3) := expression c2 in
    let c4 := pop_nl old c3 in
    if is_k KDo c4 then
      let* '(body, c6) := block c4 in
      call (QElifs (acc ++ [IfBranch (Some cond) body]) c6)
    else praise c4
  else if is_k KElse c then
    (* `else` is stepped over with newlines significant: an optional `do` has to follow on the same line *)
    let '(c0, old) := push_nl false c in
    let* c1 := pexpect KElse c0 in
    let* '(body, c2) := block (pop_nl old c1) in
    ok (RIfs (acc ++ [IfBranch None body]) c2)
  else ok (RIfs acc c).

Definition case_expression (c : ctx) : prog out :=
  let '(c1, old) := push_nl true c in
  let* c2 := pexpect KCase c1 in
  let* '(m, c3) := expression c2 in
  let* c4 := pexpect KDo c3 in
  let* '(bs, c5) := call_Cases ((QCases [] c4)) in
  let* '(ft, c6) :=
    (if is_k KElse c5 then let* '(b, c') := block (skip 1 c5) in ok (Some b, c') else ok (None, c5)) in
  let c7 := pop_nl old c6 in
  let* c8 := pexpect KEnd c7 in
  ok (RE (ECase m bs ft) c8).

Definition step_cases (acc : list casebranch) (c : ctx) : prog out :=
  match token c with
  | TEOF | TK KElse | TK KEnd => ok (RCases acc c)
  | TK KNewline => call (QCases acc (skip 1 c))
  | TIdent pat =>
      if is_capitalized pat then
        let c1 := skip 1 c in
        let* '(var, c2) :=
          match token c1 with
          | TIdent v => if negb (is_capitalized v) then ok (Some v, skip 1 c1) else praise c1
          | _ => ok (None, c1)
          end in
        let* c3 := pexpect KArrow c2 in
        let* '(body, c4) := block c3 in
        call (QCases (acc ++ [CaseBranch pat var body]) c4)
      else praise c
  | _ => praise c
  end.

Definition function (c : ctx) : prog out :=
  let pure := is_k KPu c in
  let c1 := skip 1 c in
  let* '(ps, r, c2) := call_Params ((QParams [] c1)) in
  let* '(body, c3) := block c2 in
  ok (RE (EFn ps r (pop_trailing_empty body) pure) c3).

Definition step_params (acc : list (name * ty)) (c : ctx) : prog out :=
  match token c with
  | TIdent n =>
      if name_eqb n self_name then praise c
      else
        let c1 := skip 1 c in
        let* '(t, c2) :=
          (if is_k KColon c1 then parse_type (skip 1 c1) else ok (TyResolved RUnknown, c1)) in
        if is_k KComma c2 || is_k KDo c2 || is_k KArrow c2 then call (QParams (acc ++ [(n, t)]) (skip_if KComma c2))
        else praise c2
  | TK KArrow =>
      let c1 := skip 1 c in
      ptry (parse_type c1) (fun '(t, c2) => ok (RParams acc t c2)) (fun _ _ => ok (RParams acc (TyResolved RUnknown) c1))
  | TK KLeftBrace | TK KDo => ok (RParams acc (TyResolved RVoid) c)
  | _ => praise c
  end.

Definition prefix (c : ctx) : prog out :=
  match token c with
  | TK KFn | TK KPu => function c
  | TK KIf => if_expression c
  | TK KCase => case_expression c
  | TK KLeftParen => grouping_or_tuple c
  | TK KLeftBracket => list_expr c
  | TFloat _ | TInt _ | TBool _ | TStr _ | TK KNil => value c
  | TIdent _ =>
      (* probe: a type_assignable followed by `{` is a blob instantiation *)
      match type_assignable c with
      | Fuel => Ret Fuel
      | Panic => Ret Panic
      | probe =>
          let is_blob := match probe with Ok (_, c1) => is_k KLeftBrace c1 | _ => false end in
          if is_blob then ptry (blob c) ok (fun c' es => Ret (Err (skip_until KRightBrace c') es))
          else let* '(a, c1) := assignable_p c in ok (RE (EGet a) c1)
      end
  | t =>
      match pt_unary T t with
      | Some _ => unary c
      | None => praise c
      end
  end.

Definition arrow_call (c : ctx) (lhs : expr) : prog out :=
  let* c1 := pexpect KArrow c in
  let* '(rhs, c2) := expression c1 in
  match prepend lhs rhs with
  | Some e => ok (RE e c2)
  | None => praise c2
  end.

Definition infix (c : ctx) (lhs : expr) : prog out :=
  let t := token c in
  if tok_is KArrow t then arrow_call c lhs
  else if pt_postfix T t then
    let* '(a, c1) := call_A ((QSub (AExpr lhs) c)) in ok (RE (EGet a) c1)
  else
    match pt_bin T t with
    | Some o =>
        let c1 := skip 1 c in
        let* '(rhs, c2) := call_E ((QPrec (pt_next T (pt_prec T t)) c1)) in
        ok (RE (EBin o lhs rhs) c2)
    | None =>
        (* raise_syntax_error!(ctx.prev(), ..) after the operator has been eaten *)
        match prev (skip 1 c) with
        | Some cp => praise cp
        | None => panic
        end
    end.

Definition step_prec (p : nat) (c : ctx) : prog out :=
  let* '(e, c1) := ptry (prefix c) get_E reraise in
  call (QLoop p e c1).

Definition step_loop (p : nat) (lhs : expr) (c : ctx) : prog out :=
  if (p <=? pt_prec T (token c)) && pt_valid T (token c) then
    let* '(e, c1) := ptry (infix c lhs) get_E reraise in
    call (QLoop p e c1)
  else ok (RE lhs c).

(* ---- statements ---- *)

(* block(): the loop.  A statement that fails is recorded and the loop resumes after the next newline
   (with newlines significant again); the block fails at the end if anything was recorded. *)
Definition step_stmts (acc : list stmt) (errs : list nat) (c : ctx) : prog out :=
  match token c with
  | TK KElse | TK KElif | TK KEnd | TEOF =>
      match errs with
      | [] => ok (RSs acc (skip_if KEnd c))
      | _ => Ret (Err c errs)
      end
  | _ =>
      ptry (statement c)
           (fun '(s, c1) => call (QStmts (acc ++ [s]) errs c1))
           (fun c' es =>
              call (QStmts acc (errs ++ es) (skip_if KNewline (skip_until KNewline (pop_nl false c')))))
  end.

Definition nil_ty : ty := TyResolved RNil.

(* enum: one pass of parse_sep_end_by(ctx, sep, end, item); the nat is the token index of the variant name *)
Definition enum_item (c0 : ctx) : prog (name * ty * nat * ctx) :=
  let c := skip_nls c0 in
  match token c with
  | TIdent v =>
      let c1 := skip 1 c in
      if negb (is_capitalized v) then praise c1
      else
        let* '(t, c2) :=
          (if is_k KEnd c1 || is_k KComma c1 || is_k KNewline c1 then ok (nil_ty, c1)
           else
             let* '(t, c2) := parse_type (skip_if KColon c1) in
             if is_k KComma c2 || is_k KEnd c2 || is_k KNewline c2 then ok (t, c2) else praise c2) in
        ok (v, t, consumed c, skip_if KComma c2)
  | _ => praise c
  end.

Definition step_enum_items (acc : list (name * ty * nat)) (c : ctx) : prog out :=
  let ce := skip_nls c in
  if is_k KEnd ce then ok (REnum acc (skip 1 ce))
  else
    let* '(v, t, pos, c1) := enum_item c in
    let ce1 := skip_nls c1 in
    if is_k KEnd ce1 then ok (REnum (acc ++ [(v, t, pos)]) (skip 1 ce1))
    else call (QEnumItems (acc ++ [(v, t, pos)]) (skip_if KComma (skip_nls c1))).

Definition step_blob_fields (acc : list (name * ty)) (c : ctx) : prog out :=
  match token c with
  | TK KNewline => call (QBlobFields acc (skip 1 c))
  | TK KRightBrace => ok (RNTs acc c)
  | TIdent f =>
      if name_eqb f self_name then praise c
      else if has_key f acc then praise c
      else
        let* c1 := pexpect KColon (skip 1 c) in
        let* '(t, c2) := parse_type c1 in
        if is_k KComma c2 || is_k KRightBrace c2 then call (QBlobFields (acc ++ [(f, t)]) (skip_if KComma c2))
        else praise c2
  | _ => praise c
  end.

Definition assign_op (t : tok) : option assignop :=
  match t with
  | TK KPlusEqual => Some OpAdd
  | TK KMinusEqual => Some OpSub
  | TK KStarEqual => Some OpMul
  | TK KSlashEqual => Some OpDiv
  | TK KEqual => Some OpNop
  | _ => None
  end.

(* the span of an implicit `use` name is taken with ctx.prev() (twice for a path that ends in '/') *)
Definition use_prev_ok (p : name) (c : ctx) : bool :=
  match prev c with
  | None => false
  | Some c1 => if ends_with_slash p then match prev c1 with Some _ => true | None => false end else true
  end.

Definition stmt_use (c : ctx) : prog (stmt * ctx) :=
  let* '(p, file, c1) := Ret (use_path (skip 1 c)) in
  match look2 c1 with
  | (TK KAs, TIdent alias) => ok (SUse p (NAlias alias) file, skip 2 c1)
  | (TK KAs, _) => praise (skip 1 c1)
  | _ =>
      if name_eqb p [slash] then praise c1
      else if use_prev_ok p c1 then ok (SUse p (NImplicit (last_component (trim_slashes p) [])) file, c1)
      else panic
  end.

Definition stmt_from (c : ctx) : prog (stmt * ctx) :=
  let* '(p, file, c1) := Ret (use_path (skip 1 c)) in
  let* c2 := pexpect KUse c1 in
  let paren := is_k KLeftParen c2 in
  let '(c3, old) := if paren then push_nl true (skip 1 c2) else push_nl false c2 in
  let* '(imports, c4) := Ret (from_imports (local_fuel c3) c3 []) in
  match imports with
  | [] => praise c4
  | _ =>
      let c5 := pop_nl old c4 in
      let* c6 := (if paren then pexpect KRightParen c5 else ok c5) in
      ok (SFromUse p imports file, c6)
  end.

(* the first variant (in source order) whose name occurred before *)
Fixpoint first_dup (seen : list name) (l : list (name * ty * nat)) : option nat :=
  match l with
  | [] => None
  | (v, _, pos) :: l' => if existsb (name_eqb v) seen then Some pos else first_dup (v :: seen) l'
  end.

Definition stmt_enum (nm : name) (c : ctx) : prog (stmt * ctx) :=
  if negb (is_capitalized nm) then praise c
  else
    let c1 := skip 3 c in
    let '(c2, old) := push_nl false c1 in
    let* '(vars, c3) := Ret (paren_vars c2) in
    let* '(items, c4) := call_Enum ((QEnumItems [] c3)) in
    match first_dup [] items with
    | Some pos => Ret (Err c4 [pos])
    | None => ok (SEnum nm vars (map (fun x => (fst (fst x), snd (fst x))) items), pop_nl old c4)
    end.

Definition stmt_blob (nm : name) (c : ctx) : prog (stmt * ctx) :=
  if negb (is_capitalized nm) then praise c
  else
    let c1 := skip 2 c in
    let external := is_k KExternBlob c1 in
    let* '(vars, c2) := Ret (paren_vars (skip 1 c1)) in
    let* c3 := pexpect KLeftBrace c2 in
    let '(c4, old) := push_nl true c3 in
    let* '(fields, c5) := call_NTs ((QBlobFields [] c4)) in
    let c6 := pop_nl old c5 in
    let* c7 := pexpect KRightBrace c6 in
    ok (SBlob nm vars fields external, c7).

Definition stmt_def_implied (nm : name) (c : ctx) : prog (stmt * ctx) :=
  if name_eqb nm self_name then praise c
  else
    let c1 := skip 1 c in
    match token c1 with
    | TK KColonColon | TK KColonEqual =>
        let kind := if is_k KColonColon c1 then VConst else VMutable in
        let c2 := skip 1 c1 in
        if is_k KExternal c2 then praise c2
        else
          let* '(v, c3) := expression c2 in
          ok (SDef nm kind TyImplied v, c3)
    | _ => panic     (* `_ => unreachable!()`: the statement dispatch has looked at this token *)
    end.

Definition stmt_def_typed (nm : name) (c : ctx) : prog (stmt * ctx) :=
  if name_eqb nm self_name then praise c
  else
    let c1 := skip 2 c in
    let* '(t, c2) := parse_type c1 in
    let* kind := (if is_k KColon c2 then ok VConst else if is_k KEqual c2 then ok VMutable else praise c2) in
    let c3 := skip 1 c2 in
    if is_k KExternal c3 then ok (SExtDef nm kind t, skip 1 c3)
    else
      let* '(v, c4) := expression c3 in
      ok (SDef nm kind t v, c4).

Definition stmt_expr (c : ctx) : prog (stmt * ctx) :=
  let* '(v, c1) := expression c in
  ok (SExpr v, c1).

(* expression_after: the rest of an expression whose initial value [lhs] has been parsed, [c1] the context after it
   (the second half of parse_precedence at the lowest precedence) *)
Definition expression_after (c1 : ctx) (lhs : expr) : prog (expr * ctx) := call_E (QLoop (pt_entry T) lhs c1).

(* probe with `assignable` and keep what it parsed: an assignment continues after the target; any other statement
   that does not start with a blob instantiation (the look-ahead of prefix) is an expression that starts with this
   assignable; if the probe fails on an identifier that does not start a blob instantiation, the expression parser
   would fail in the same way *)
Definition stmt_assign_or_expr (c : ctx) : prog (stmt * ctx) :=
  ptry (assignable_p c)
       (fun '(target, c1) =>
          match assign_op (token c1) with
          | Some op =>
              let* '(v, c2) := expression (skip 1 c1) in
              ok (SAssign op target v, c2)
          | None =>
              match type_assignable c with
              | Fuel => Ret Fuel
              | Panic => Ret Panic
              | probe =>
                  if (match probe with Ok (_, cb) => is_k KLeftBrace cb | _ => false end) then stmt_expr c
                  else let* '(v, c2) := expression_after c1 (EGet target) in ok (SExpr v, c2)
              end
          end)
       (fun c' es =>
          match token c with
          | TIdent _ =>
              match type_assignable c with
              | Fuel => Ret Fuel
              | Panic => Ret Panic
              | probe =>
                  if (match probe with Ok (_, cb) => is_k KLeftBrace cb | _ => false end) then stmt_expr c
                  else reraise c' es
              end
          | _ => stmt_expr c
          end).

Definition step_stmt (c0 : ctx) : prog out :=
  let '(c, old) := push_nl false c0 in
  let* '(s, c1) :=
    match look3 c with
    | (TK KEnd, _, _) => praise c
    | (TK KElse, _, _) => praise c
    | (TK KNewline, _, _) => ok (SEmpty, c)
    | (TK KDo, _, _) => let* '(ss, c1) := block c in ok (SBlock ss, c1)
    | (TK KUse, _, _) => stmt_use c
    | (TK KFrom, _, _) => stmt_from c
    | (TK KBreak, _, _) => ok (SBreak, skip 1 c)
    | (TK KContinue, _, _) => ok (SContinue, skip 1 c)
    | (TK KUnreachable, _, _) => ok (SUnreachable, skip 1 c)
    | (TK KRet, _, _) =>
        let c1 := skip 1 c in
        ptry (expression c1) (fun '(v, c2) => ok (SRet (Some v), c2)) (fun _ _ => ok (SRet None, c1))
    | (TK KLoop, _, _) =>
        let c1 := skip 1 c in
        let* '(cond, c2) := (if is_k KDo c1 then ok (EBool true, c1) else expression c1) in
        let* '(body, c3) := statement c2 in
        (* the body consumed the newline that also ends this statement - unless it was ended by an
           `end`/`else`/`elif` on the same line: step back only onto a newline *)
        match prev c3 with
        | Some cp => ok (SLoop cond body, if is_k KNewline cp then cp else c3)
        | None => panic
        end
    | (TIdent nm, TK KColonColon, TK KEnum) => stmt_enum nm c
    | (TIdent nm, TK KColonColon, TK KBlob) => stmt_blob nm c
    | (TIdent nm, TK KColonColon, TK KExternBlob) => stmt_blob nm c
    | (TIdent nm, TK KColonColon, _) => stmt_def_implied nm c
    | (TIdent nm, TK KColonEqual, _) => stmt_def_implied nm c
    | (TIdent nm, TK KColon, _) => stmt_def_typed nm c
    | _ => stmt_assign_or_expr c
    end in
  let* c2 :=
    (if is_k KEnd c1 || is_k KElse c1 || is_k KElif c1 then ok c1 else pexpect KNewline c1) in
  ok (RS s (pop_nl old c2)).

(* outer_statement: a statement of one of the kinds allowed at the top level; otherwise an error that
   carries the span of the statement's first token *)
Definition is_outer (s : stmt) : bool :=
  match s with
  | SBlob _ _ _ _ | SEnum _ _ _ | SDef _ _ _ _ | SExtDef _ _ _ | SUse _ _ _ | SFromUse _ _ _ | SEmpty => true
  | _ => false
  end.

Definition outer_statement (c : ctx) : prog (stmt * ctx) :=
  let* '(s, c1) := statement c in
  if is_outer s then ok (s, c1)
  else Ret (Err (skip 1 c1) [consumed (fst (push_nl false c))]).

(* is there a comment among the last n consumed tokens? (comments_since_last_statement at the end) *)
Definition comment_in (n : nat) (c : ctx) : bool :=
  existsb (fun t => match t with TComment => true | _ => false end) (firstn n (pre c)).

(* module(): newlines between statements are skipped; a failed statement is recorded and the loop resumes at
   the next newline; comments after the last statement become a trailing EmptyStatement *)
Definition step_module (acc : list stmt) (errs : list nat) (last : nat) (c : ctx) : prog out :=
  match token c with
  | TEOF =>
      match errs with
      | [] => ok (RSs (if comment_in (length (pre c) - last) c then acc ++ [SEmpty] else acc) c)
      | _ => Ret (Err c errs)
      end
  | TK KNewline => call (QModule acc errs last (skip 1 c))
  | _ =>
      ptry (outer_statement c)
           (fun '(s, c1) => call (QModule (acc ++ [s]) errs (consumed c1) c1))
           (fun c' es => call (QModule acc (errs ++ es) last (skip_until KNewline c')))
  end.

Definition step (q : req) : prog out :=
  match q with
  | QPrec p c => step_prec p c
  | QLoop p lhs c => step_loop p lhs c
  | QSub a c => step_sub a c
  | QArgs primer acc c => step_args primer acc c
  | QTuple b acc c => step_tuple b acc c
  | QList acc c => step_list acc c
  | QFields acc c => step_fields acc c
  | QElifs acc c => step_elifs acc c
  | QCases acc c => step_cases acc c
  | QParams acc c => step_params acc c
  | QType c => step_type c
  | QSepTypes old c => step_sep_types old c
  | QFnTyParams acc c => step_fnty_params acc c
  | QTyTuple b acc c => step_ty_tuple b acc c
  | QStmts acc errs c => step_stmts acc errs c
  | QStmt c => step_stmt c
  | QEnumItems acc c => step_enum_items acc c
  | QBlobFields acc c => step_blob_fields acc c
  | QModule acc errs last c => step_module acc errs last c
  end.

End WithTable.

Fixpoint go (T : ptab) (f : nat) (q : req) : res out :=
  match f with
  | 0 => Fuel
  | S f' => run (go T f') (step T q)
  end.

(* ------------------------------------------------------------------------------------------- *)
(* entry points (the four public functions the harness calls) *)

Definition as_E (o : res out) : res (expr * ctx) :=
  match o with Ok (RE e c) => Ok (e, c) | Ok _ => Panic | Err c es => Err c es | Fuel => Fuel | Panic => Panic end.
Definition as_S (o : res out) : res (stmt * ctx) :=
  match o with Ok (RS s c) => Ok (s, c) | Ok _ => Panic | Err c es => Err c es | Fuel => Fuel | Panic => Panic end.
Definition as_T (o : res out) : res (ty * ctx) :=
  match o with Ok (RT t c) => Ok (t, c) | Ok _ => Panic | Err c es => Err c es | Fuel => Fuel | Panic => Panic end.
Definition as_Ss (o : res out) : res (list stmt * ctx) :=
  match o with Ok (RSs ss c) => Ok (ss, c) | Ok _ => Panic | Err c es => Err c es | Fuel => Fuel | Panic => Panic end.

Definition init (ts : list tok) : ctx := mkctx [] ts 0 false.

Definition parse_expression (T : ptab) (f : nat) (ts : list tok) : res (expr * ctx) :=
  as_E (go T f (QPrec (pt_entry T) (init ts))).

Definition parse_statement (T : ptab) (f : nat) (ts : list tok) : res (stmt * ctx) :=
  as_S (go T f (QStmt (init ts))).

(* one more level of fuel: outer_statement is a wrapper around the statement request *)
Definition parse_outer_statement (T : ptab) (f : nat) (ts : list tok) : res (stmt * ctx) :=
  run (go T f) (outer_statement (init ts)).

Definition parse_type_top (T : ptab) (f : nat) (ts : list tok) : res (ty * ctx) :=
  as_T (go T f (QType (init ts))).

(* the whole file: sylt_parser's module() *)
Definition parse_program (T : ptab) (f : nat) (ts : list tok) : res (list stmt * ctx) :=
  as_Ss (go T f (QModule [] [] 0 (init ts))).

(* the fuel of the entry points: recursion depth is bounded by a small multiple of the number of tokens
   (ParserTotal.v: with this fuel no entry point ever runs out) *)
Definition parse_fuel (ts : list tok) : nat := 6 * length ts + 6.
