-- expect-wf: bad jumps into the scope of a local
goto l
local x = 1
::l::
print(x)
