(* The simulation relation between the reference interpreter (Sem/SyltSem.v) and LuaCore running the
   emitted statements (Pres/EmitAst.v), for the fragment of Pres/Frag.v.

   vrel      Sylt values  ~  Lua values
   rel       Sylt (env, state) ~ Lua (env, state): every user variable in scope is the Lua local V<id>, bound
             to a cell holding a related value; `print` is the Lua global V<pv>; traces agree; the preamble
             invariant `linv` holds
   fut F     "future" of a Lua configuration: the frozen temporaries F keep their binding and their value
   denotes   a (possibly inlined) Lua expression evaluates, without side effects other than allocating
             garbage cells, to a value related to sv -- in EVERY future of the configuration.  This is the
             invariant that makes the usage-count inlining of single-use temporaries sound: the expression
             is evaluated at its use site, later than where the Sylt program computed the value. *)
From Coq Require Import String Ascii List NArith ZArith QArith Bool Lia.
From Sylt Require Import Syntax.Resolved.
From Sylt Require Sem.Values Sem.Runtime Sem.SyltSem.
From Sylt Require Import Back.IR Back.Emit.
From Sylt Require Import Pres.EmitAst Pres.EmitRel Pres.Names Pres.LuaFuel Pres.LuaEv Pres.Preamble.
From Sylt Require Import Lua.LuaAst Lua.LuaMap Lua.LuaNum Lua.LuaProofs Lua.LuaCore.
Import ListNotations.
Local Open Scope N_scope.

Notation sstate := SyltSem.state.
Notation senv := SyltSem.env.
Notation sval := SyltSem.sval.
Notation SV := SyltSem.SV.

Inductive vrel : sval -> value -> Prop :=
| vr_int z : vrel (SV (Values.VInt z)) (VNum false (q_int z))
| vr_bool b : vrel (SV (Values.VBool b)) (VBool b)
| vr_nil : vrel (SV Values.VLuaNil) VNil.

(* ------------------------------------------------------------------ Lua states and environments *)

(* st' is st plus newly allocated cells *)
Definition cells_ext (st st' : state) : Prop :=
  s_tabs st' = s_tabs st /\ s_ntab st' = s_ntab st /\ s_clos st' = s_clos st /\ s_nclo st' = s_nclo st /\
  s_out st' = s_out st /\ s_dialect st' = s_dialect st /\ (s_ncell st <= s_ncell st')%positive /\
  forall c, (c < s_ncell st)%positive -> get_cell st' c = get_cell st c.

Lemma cells_ext_refl st : cells_ext st st.
Proof. unfold cells_ext. repeat split; auto; lia. Qed.

Lemma cells_ext_trans a b c : cells_ext a b -> cells_ext b c -> cells_ext a c.
Proof.
  unfold cells_ext. intros (T1 & N1 & C1 & M1 & O1 & D1 & L1 & G1) (T2 & N2 & C2 & M2 & O2 & D2 & L2 & G2).
  repeat split; try congruence; try lia.
  intros p Hp. rewrite G2 by lia. apply G1. exact Hp.
Qed.

Lemma cells_ext_alloc st v : cells_ext st (snd (alloc_cell st v)).
Proof.
  unfold cells_ext, alloc_cell, get_cell. cbn [snd s_tabs s_ntab s_clos s_nclo s_out s_dialect s_ncell s_cells].
  repeat split; auto; try lia. intros c Hc. rewrite pget_pset_other by lia. reflexivity.
Qed.

Lemma cells_ext_linv st st' : cells_ext st st' -> linv st -> linv st'.
Proof.
  intros (T & N & C & M & O & D & L & G) H. eapply linv_frame; [exact H | exact T | exact D | | lia].
  intros id c Hc. rewrite C. exact Hc.
Qed.

Lemma cells_ext_glob st st' x v : cells_ext st st' -> glob st x v -> glob st' x v.
Proof. intros (T & _) H. eapply glob_frame; eassumption. Qed.

(* names are V<id>, pairwise bound to different cells, all allocated *)
Record wfenv (E : env) (st : state) : Prop := mkWfenv {
  wf_V : forall x p, sget x E = Some p -> exists v, x = fmt_var v;
  wf_inj : forall x y p, sget x E = Some p -> sget y E = Some p -> x = y;
  wf_alloc : forall x p, sget x E = Some p -> (p < s_ncell st)%positive
}.

Definition env_incl (E E' : env) : Prop := forall x p, sget x E = Some p -> sget x E' = Some p.

Lemma env_incl_refl E : env_incl E E. Proof. intros x p H; exact H. Qed.
Lemma env_incl_trans a b c : env_incl a b -> env_incl b c -> env_incl a c.
Proof. intros H1 H2 x p H. apply H2, H1, H. Qed.

(* every V<t> bound in E has t < c *)
Definition E_lt (E : env) (c : N) : Prop := forall t p, sget (fmt_var t) E = Some p -> t < c.

Lemma E_lt_mono E c c' : E_lt E c -> c <= c' -> E_lt E c'.
Proof. intros H Hc t p Ht. specialize (H t p Ht). lia. Qed.

Lemma wfenv_ext E st st' : wfenv E st -> (s_ncell st <= s_ncell st')%positive -> wfenv E st'.
Proof. intros [HV Hi Ha] Hl. constructor; auto. intros x p H. specialize (Ha x p H). lia. Qed.

Lemma sget_sset_var t t' (p : positive) (E : env) : t <> t' -> sget (fmt_var t) (sset (fmt_var t') p E) = sget (fmt_var t) E.
Proof. intros H. apply sget_sset_other. apply fmt_var_neq. exact H. Qed.

(* a new local V<t> in a fresh cell *)
Lemma wfenv_local E st t v :
  wfenv E st -> wfenv (sset (fmt_var t) (s_ncell st) E) (snd (alloc_cell st v)).
Proof.
  intros [HV Hi Ha]. constructor.
  - intros x p H. destruct (string_dec x (fmt_var t)) as [->|Hne]; [eauto|].
    rewrite sget_sset_other in H by exact Hne. eauto.
  - intros x y p Hx Hy.
    destruct (string_dec x (fmt_var t)) as [->|Hx']; destruct (string_dec y (fmt_var t)) as [->|Hy']; auto.
    + rewrite sget_sset_same in Hx. rewrite sget_sset_other in Hy by exact Hy'.
      inversion Hx; subst. specialize (Ha _ _ Hy). lia.
    + rewrite sget_sset_same in Hy. rewrite sget_sset_other in Hx by exact Hx'.
      inversion Hy; subst. specialize (Ha _ _ Hx). lia.
    + rewrite sget_sset_other in Hx, Hy by assumption. eauto.
  - intros x p H. cbn [alloc_cell snd s_ncell].
    destruct (string_dec x (fmt_var t)) as [->|Hne].
    + rewrite sget_sset_same in H. inversion H; subst. lia.
    + rewrite sget_sset_other in H by exact Hne. specialize (Ha _ _ H). lia.
Qed.

Lemma env_incl_local E t p c : E_lt E c -> c <= t -> env_incl E (sset (fmt_var t) p E).
Proof.
  intros Hlt Hc x q H. destruct (string_dec x (fmt_var t)) as [->|Hne].
  - specialize (Hlt _ _ H). lia.
  - rewrite sget_sset_other by exact Hne. exact H.
Qed.

Lemma E_lt_local E t p c : E_lt E c -> t < c -> E_lt (sset (fmt_var t) p E) c.
Proof.
  intros Hlt Hc t' q H. destruct (N.eq_dec t' t) as [->|Hne]; [exact Hc|].
  rewrite sget_sset_var in H by exact Hne. eauto.
Qed.

Lemma get_cell_alloc_old st v p : (p < s_ncell st)%positive -> get_cell (snd (alloc_cell st v)) p = get_cell st p.
Proof. intros H. apply (cells_ext_alloc st v). exact H. Qed.

Lemma get_cell_alloc_new st v : get_cell (snd (alloc_cell st v)) (s_ncell st) = v.
Proof. unfold alloc_cell, get_cell. cbn [snd s_cells]. rewrite pget_pset_same. reflexivity. Qed.

Lemma get_cell_set_same st p v : get_cell (set_cell st p v) p = v.
Proof. unfold set_cell, get_cell. cbn [s_cells]. rewrite pget_pset_same. reflexivity. Qed.
Lemma get_cell_set_other st p q v : q <> p -> get_cell (set_cell st p v) q = get_cell st q.
Proof. intros H. unfold set_cell, get_cell. cbn [s_cells]. rewrite pget_pset_other by exact H. reflexivity. Qed.

Lemma linv_set_cell st p v : linv st -> linv (set_cell st p v).
Proof. intros H. eapply linv_frame; [exact H | reflexivity | reflexivity | auto | cbn; lia]. Qed.
Lemma linv_alloc_cell st v : linv st -> linv (snd (alloc_cell st v)).
Proof. intros H. eapply linv_frame; [exact H | reflexivity | reflexivity | auto | cbn; lia]. Qed.
Lemma linv_emit_line st s : linv st -> linv (emit_line st s).
Proof. intros H. eapply linv_frame; [exact H | reflexivity | reflexivity | auto | cbn; lia]. Qed.

(* ------------------------------------------------------------------ futures, denotation *)

Definition fut (F : list N) (E : env) (st : state) (E2 : env) (st2 : state) : Prop :=
  forall t p, In t F -> sget (fmt_var t) E = Some p ->
              sget (fmt_var t) E2 = Some p /\ get_cell st2 p = get_cell st p.

Lemma fut_refl F E st : fut F E st E st.
Proof. intros t p _ H. auto. Qed.

Lemma fut_trans F E1 s1 E2 s2 E3 s3 : fut F E1 s1 E2 s2 -> fut F E2 s2 E3 s3 -> fut F E1 s1 E3 s3.
Proof.
  intros H1 H2 t p Ht Hp. destruct (H1 t p Ht Hp) as [Ha Hb]. destruct (H2 t p Ht Ha) as [Hc Hd].
  split; [exact Hc | congruence].
Qed.

Lemma fut_mono F F' E1 s1 E2 s2 : incl F' F -> fut F E1 s1 E2 s2 -> fut F' E1 s1 E2 s2.
Proof. intros Hi H t p Ht Hp. apply H; auto. Qed.

Lemma fut_cells_ext F E st st' : wfenv E st -> cells_ext st st' -> fut F E st E st'.
Proof.
  intros Hwf Hx t p _ Hp. split; [exact Hp|]. apply Hx. eapply wf_alloc; eassumption.
Qed.

Lemma fut_incl_cells F E st E' st' :
  env_incl E E' -> (forall x p, sget x E = Some p -> get_cell st' p = get_cell st p) -> fut F E st E' st'.
Proof. intros Hi Hc t p _ Hp. split; [apply Hi; exact Hp | eapply Hc; exact Hp]. Qed.

(* ex evaluates to exactly one value, lv, allocating at most garbage cells (both in a single-value
   position and as the last expression of a list, where a call would pass on ALL its results) *)
Definition PureEval (E : env) (st : state) (ex : expr) (lv : value) : Prop :=
  exists st', Eval E ex st (ROk lv st') /\ EvalMulti E ex st (ROk [lv] st') /\ cells_ext st st'.

Lemma PureEval_noncall E st ex lv st' :
  is_call ex = false -> Eval E ex st (ROk lv st') -> cells_ext st st' -> PureEval E st ex lv.
Proof. intros Hc H Hx. exists st'. split; [exact H | split; [apply EvalMulti_single; assumption | exact Hx]]. Qed.

Lemma PureEval_call E st f args lv st' :
  EvalCall E f args st (ROk [lv] st') -> cells_ext st st' -> PureEval E st (ECall f args) lv.
Proof.
  intros H Hx. exists st'. split; [apply (Eval_call _ _ _ _ [lv]); exact H | split; [apply EvalMulti_call; exact H | exact Hx]].
Qed.

(* the futures we quantify over: well-formed environments whose V-names are bounded, states with the
   preamble invariant *)
Definition denotes (F : list N) (E : env) (st : state) (ex : expr) (sv : sval) : Prop :=
  forall E2 st2, fut F E st E2 st2 -> wfenv E2 st2 -> linv st2 ->
                 exists lv, vrel sv lv /\ PureEval E2 st2 ex lv.

Lemma denotes_mono F F2 E st E2 st2 ex sv :
  denotes F E st ex sv -> fut F E st E2 st2 -> incl F F2 -> denotes F2 E2 st2 ex sv.
Proof.
  intros Hd Hf Hi E3 st3 Hf3 Hwf Hinv. apply Hd; auto.
  eapply fut_trans; [exact Hf|]. eapply fut_mono; eassumption.
Qed.

Lemma denotes_now F E st ex sv :
  denotes F E st ex sv -> wfenv E st -> linv st -> exists lv, vrel sv lv /\ PureEval E st ex lv.
Proof. intros H Hwf Hinv. apply H; auto. apply fut_refl. Qed.

(* a frozen temporary that is a local *)
Lemma denotes_local F E st t p sv :
  In t F -> sget (fmt_var t) E = Some p -> vrel sv (get_cell st p) -> denotes F E st (EVar (fmt_var t)) sv.
Proof.
  intros Ht Hp Hv E2 st2 Hf _ _. destruct (Hf t p Ht Hp) as [Hp2 Hc].
  exists (get_cell st p). split; [exact Hv|].
  apply (PureEval_noncall _ _ _ _ st2); [reflexivity | | apply cells_ext_refl].
  rewrite <- Hc. apply Eval_local. exact Hp2.
Qed.

Lemma PureEval_paren E st ex lv : PureEval E st ex lv -> PureEval E st (EParen ex) lv.
Proof. intros (st' & H & _ & Hx). apply (PureEval_noncall _ _ _ _ st'); [reflexivity | apply Eval_paren; exact H | exact Hx]. Qed.

Lemma denotes_paren F E st ex sv : denotes F E st ex sv -> denotes F E st (EParen ex) sv.
Proof.
  intros H E2 st2 Hf Hwf Hinv. destruct (H E2 st2 Hf Hwf Hinv) as (lv & Hv & Hp).
  exists lv. split; [exact Hv | apply PureEval_paren; exact Hp].
Qed.

(* ------------------------------------------------------------------ the main relation *)

Section Rel.
Variable pv : N.       (* the id of the external print *)
Variable bound : N.    (* |r_vars| + 1: where the temporaries start *)

Record rel (sc : list N) (e : senv) (st : sstate) (E : env) (stL : state) : Prop := mkRel {
  r_vars : forall v, In v sc ->
           exists c x p, SyltSem.lookup e v = Some c /\ nth_error (SyltSem.cells st) c = Some x /\
                         sget (fmt_var v) E = Some p /\ vrel x (get_cell stL p);
  r_scb : forall v, In v sc -> v < bound /\ v <> pv;
  r_sinj : forall v1 v2 c, In v1 sc -> In v2 sc ->
           SyltSem.lookup e v1 = Some c -> SyltSem.lookup e v2 = Some c -> v1 = v2;
  r_print : exists c, SyltSem.lookup e pv = Some c /\ nth_error (SyltSem.cells st) c = Some (SyltSem.SExt "print") /\
                      forall v, In v sc -> SyltSem.lookup e v <> Some c;
  r_pvb : pv < bound;
  r_pvE : sget (fmt_var pv) E = None;
  r_pvG : glob stL (fmt_var pv) (VBuiltin BPrint);
  r_wf : wfenv E stL;
  r_trace : SyltSem.trace st = s_out stL;
  r_linv : linv stL
}.

(* garbage cells on the Lua side *)
Lemma rel_cells_ext sc e st E stL stL' : rel sc e st E stL -> cells_ext stL stL' -> rel sc e st E stL'.
Proof.
  intros [Hv Hb Hi Hp Hpb HpE HpG Hwf Ht Hl] Hx. constructor.
  - intros v Hin. destruct (Hv v Hin) as (c & x & p & H1 & H2 & H3 & H4).
    exists c, x, p. repeat split; auto. destruct Hx as (_ & _ & _ & _ & _ & _ & _ & Hg).
    rewrite Hg; [exact H4 | eapply wf_alloc; eassumption].
  - exact Hb.
  - exact Hi.
  - exact Hp.
  - exact Hpb.
  - exact HpE.
  - eapply cells_ext_glob; eassumption.
  - eapply wfenv_ext; [exact Hwf | apply Hx].
  - destruct Hx as (_ & _ & _ & _ & Ho & _). congruence.
  - eapply cells_ext_linv; eassumption.
Qed.

(* a new temporary local *)
Lemma rel_local_temp sc e st E stL t v :
  rel sc e st E stL -> bound <= t ->
  rel sc e st (sset (fmt_var t) (s_ncell stL) E) (snd (alloc_cell stL v)).
Proof.
  intros [Hv Hb Hi Hp Hpb HpE HpG Hwf Ht Hl] Hbt. constructor.
  - intros w Hin. destruct (Hv w Hin) as (c & x & p & H1 & H2 & H3 & H4).
    exists c, x, p. repeat split; auto.
    + rewrite sget_sset_var; [exact H3 | destruct (Hb w Hin); lia].
    + rewrite get_cell_alloc_old; [exact H4 | eapply wf_alloc; eassumption].
  - exact Hb.
  - exact Hi.
  - exact Hp.
  - exact Hpb.
  - rewrite sget_sset_var; [exact HpE | lia].
  - eapply glob_frame; [|exact HpG]. reflexivity.
  - apply wfenv_local. exact Hwf.
  - exact Ht.
  - apply linv_alloc_cell. exact Hl.
Qed.

(* writing the cell of a temporary *)
Lemma rel_set_temp sc e st E stL t p v :
  rel sc e st E stL -> bound <= t -> sget (fmt_var t) E = Some p -> rel sc e st E (set_cell stL p v).
Proof.
  intros [Hv Hb Hi Hp Hpb HpE HpG Hwf Ht Hl] Hbt Htp. constructor.
  - intros w Hin. destruct (Hv w Hin) as (c & x & q & H1 & H2 & H3 & H4).
    exists c, x, q. repeat split; auto.
    rewrite get_cell_set_other; [exact H4|].
    intros ->. assert (fmt_var w = fmt_var t) by (eapply wf_inj; eassumption).
    apply fmt_var_inj in H. destruct (Hb w Hin). lia.
  - exact Hb.
  - exact Hi.
  - exact Hp.
  - exact Hpb.
  - exact HpE.
  - eapply glob_frame; [|exact HpG]. reflexivity.
  - eapply wfenv_ext; [exact Hwf | cbn; lia].
  - exact Ht.
  - apply linv_set_cell. exact Hl.
Qed.

End Rel.
