(* C14 line breaks inside brackets, whole files of the full language: the simulation.
   Two token lists without comments, related by NbCtx.NB 0: equal except for newline tokens inside simple bracket
   groups (no fn / pu / if / case inside; nesting allowed).  The two runs are in step; every result is the same
   tree.  Inside a simple group the newline flag is on, so neither cursor ever stands on a newline; the groups are
   entered with push_skip_newlines(true) right after the opening bracket and left with the closing bracket, which
   restores the flag that was saved - [link] remembers that it was "on" if the group is nested in another one.
   Error contexts are not compared (doomed blocks as in BlankSim.v); out of fuel is a wildcard. *)
From Coq Require Import List NArith Bool Arith Lia.
From Sylt Require Import Syntax.Ast Syntax.Tok Parse.PrecTable Parse.Parser Parse.ParserProofs
  Parse.ParserTotal Parse.BlankCtx Parse.NbCtx.
From Sylt Require Parse.SimGen Parse.LayoutStmt Parse.LayoutSim.
Import ListNotations.

Definition unpos (l : list (name * ty * nat)) : list (name * ty) := map fst l.

(* right after an opening bracket, before push_skip_newlines(true) *)
Definition RO (d : nat) (c c' : ctx) : Prop :=
  exists c0 c0', c = skip 1 c0 /\ c' = skip 1 c0' /\ R d c0 c0' /\ opener (token c0) = true.

(* a request that closes its own bracket is called inside and answers outside *)
Definition qrelB (d : nat) (q q' : req) : Prop :=
  match q, q' with
  | QPrec p c, QPrec p' c' => p = p' /\ R d c c'
  | QLoop p l c, QLoop p' l' c' => p = p' /\ l = l' /\ R d c c'
  | QSub a c, QSub a' c' => a = a' /\ R d c c'
  | QArgs pr acc c, QArgs pr' acc' c' => pr = pr' /\ acc = acc' /\ R d c c'
  | QTuple i acc c, QTuple i' acc' c' => i = i' /\ acc = acc' /\ R d c c'
  | QList acc c, QList acc' c' => acc = acc' /\ R d c c'
  | QFields acc c, QFields acc' c' => acc = acc' /\ R d c c'
  | QElifs acc c, QElifs acc' c' => acc = acc' /\ d = 0 /\ R 0 c c'
  | QCases acc c, QCases acc' c' => acc = acc' /\ d = 0 /\ R 0 c c'
  | QParams acc c, QParams acc' c' => acc = acc' /\ d = 0 /\ R 0 c c'
  | QType c, QType c' => R d c c'
  | QSepTypes o c, QSepTypes o' c' => o = o' /\ exists d', link d d' o /\ R d' c c'
  | QFnTyParams acc c, QFnTyParams acc' c' => acc = acc' /\ d = 0 /\ R 0 c c'
  | QTyTuple i acc c, QTyTuple i' acc' c' => i = i' /\ acc = acc' /\ R d c c'
  | QStmts acc errs c, QStmts acc' errs' c' =>
      d = 0 /\ ((acc = acc' /\ errs = [] /\ errs' = [] /\ R 0 c c') \/ (errs <> [] /\ errs' <> []))
  | QStmt c, QStmt c' => d = 0 /\ R 0 c c'
  | QEnumItems acc c, QEnumItems acc' c' => unpos acc = unpos acc' /\ d = 0 /\ R 0 c c'
  | QBlobFields acc c, QBlobFields acc' c' => acc = acc' /\ R d c c'
  | _, _ => False
  end.

Definition orelB (d : nat) (o o' : out) : Prop :=
  match o, o' with
  | RE e c, RE e' c' => e = e' /\ R d c c'
  | RA a c, RA a' c' => a = a' /\ R d c c'
  | REs es c, REs es' c' => es = es' /\ R d c c'
  | RTup i es c, RTup i' es' c' => i = i' /\ es = es' /\ R d c c'
  | RFs fs c, RFs fs' c' => fs = fs' /\ R d c c'
  | RIfs bs c, RIfs bs' c' => bs = bs' /\ R d c c'
  | RCases bs c, RCases bs' c' => bs = bs' /\ R d c c'
  | RParams ps r c, RParams ps' r' c' => ps = ps' /\ r = r' /\ R d c c'
  | RT t c, RT t' c' => t = t' /\ R d c c'
  | RTs ts c, RTs ts' c' => ts = ts' /\ R d c c'
  | RFnTy ps r c, RFnTy ps' r' c' => ps = ps' /\ r = r' /\ R d c c'
  | RTyTup i ts c, RTyTup i' ts' c' => i = i' /\ ts = ts' /\ R d c c'
  | RSs ss c, RSs ss' c' => ss = ss' /\ R d c c'
  | RS s c, RS s' c' => s = s' /\ R d c c'
  | RNTs l c, RNTs l' c' => l = l' /\ R d c c'
  | REnum l c, REnum l' c' => unpos l = unpos l' /\ R d c c'
  | _, _ => False
  end.

Definition resrelB {X : Type} (RX : X -> X -> Prop) (r r' : res X) : Prop :=
  match r, r' with
  | Ok a, Ok a' => RX a a'
  | Err _ _, Err _ _ => True
  | Fuel, Fuel => True
  | Panic, Panic => True
  | _, _ => False
  end.

Definition resrelF {X : Type} (RX : X -> X -> Prop) (r r' : res X) : Prop :=
  r = Fuel \/ r' = Fuel \/ resrelB RX r r'.

Definition UErr (q : req) (es : list nat) : Prop := match q with QStmt _ => es <> [] | _ => True end.

Inductive prelB {X : Type} (RX : X -> X -> Prop) : prog X -> prog X -> Prop :=
| pb_ret r r' : resrelB RX r r' -> prelB RX (Ret r) (Ret r')
| pb_call d q q' k k' e e' :
    qrelB d q q' ->
    (forall o o', orelB d o o' -> prelB RX (k o) (k' o')) ->
    (forall c es c' es', UErr q es -> UErr q' es' -> prelB RX (e c es) (e' c' es')) ->
    prelB RX (Call q k e) (Call q' k' e').

Lemma run_relF {X : Type} (RX : X -> X -> Prop) (rec rec' : req -> res out) :
  (forall d q q', qrelB d q q' -> resrelF (orelB d) (rec q) (rec' q')) ->
  (forall q c es, rec q = Err c es -> UErr q es) -> (forall q c es, rec' q = Err c es -> UErr q es) ->
  forall m m', prelB RX m m' -> resrelF RX (run rec m) (run rec' m').
Proof.
  intros HR HE HE' m m' H. induction H as [r r' Hr|d q q' k k' e e' Hq Hk IHk He IHe].
  - right. right. exact Hr.
  - cbn [run]. specialize (HR d q q' Hq). pose proof (HE q) as V. pose proof (HE' q') as V'.
    destruct (rec q) as [o|c es| |]; [| |left; reflexivity|].
    + destruct (rec' q') as [o'|c' es'| |]; [| |right; left; reflexivity|];
        destruct HR as [X0|[X0|X0]]; try discriminate X0; try contradiction. apply IHk. exact X0.
    + destruct (rec' q') as [o'|c' es'| |]; [| |right; left; reflexivity|];
        destruct HR as [X0|[X0|X0]]; try discriminate X0; try contradiction.
      apply IHe; [eapply V; reflexivity|eapply V'; reflexivity].
    + destruct (rec' q') as [o'|c' es'| |]; [| |right; left; reflexivity|];
        destruct HR as [X0|[X0|X0]]; try discriminate X0; try contradiction. right. right. exact I.
Qed.

Lemma ptryB {X Y : Type} (RX : X -> X -> Prop) (RY : Y -> Y -> Prop) m m' (k k' : X -> prog Y)
  (e e' : ctx -> list nat -> prog Y) :
  prelB RX m m' -> (forall a a', RX a a' -> prelB RY (k a) (k' a')) ->
  (forall c es c' es', prelB RY (e c es) (e' c' es')) ->
  prelB RY (ptry m k e) (ptry m' k' e').
Proof.
  intros H Hk He. induction H as [r r' Hr|d q q' k0 k0' e0 e0' Hq Hk0 IHk He0 IHe].
  - destruct r as [a|c es| |], r' as [a'|c' es'| |]; try contradiction; cbn [ptry].
    + apply Hk. exact Hr.
    + apply He.
    + constructor. exact I.
    + constructor. exact I.
  - cbn [ptry]. apply (pb_call RY d); [exact Hq| |].
    + intros o o' Ho. apply IHk. exact Ho.
    + intros c es c' es' V V'. apply IHe; assumption.
Qed.

Lemma ptryB_stmt {Y : Type} (RY : Y -> Y -> Prop) c0 c0'
  (k k' : stmt * ctx -> prog Y) (e e' : ctx -> list nat -> prog Y) :
  R 0 c0 c0' ->
  (forall s c c', R 0 c c' -> prelB RY (k (s, c)) (k' (s, c'))) ->
  (forall c es c' es', es <> [] -> es' <> [] -> prelB RY (e c es) (e' c' es')) ->
  prelB RY (ptry (statement c0) k e) (ptry (statement c0') k' e').
Proof.
  intros H Hk He. unfold statement, call_S. cbn [ptry]. apply (pb_call RY 0); [split; [reflexivity|exact H]| |].
  - intros o o' Ho. destruct o, o'; cbn [orelB] in Ho; try contradiction; cbn [get_S ptry ok panic];
      try (constructor; exact I). destruct Ho as [<- Hc]. apply Hk; assumption.
  - intros c es c' es' V V'. cbn [reraise ptry]. apply He; assumption.
Qed.

Lemma pb_ok {X : Type} (RX : X -> X -> Prop) a a' : RX a a' -> prelB RX (ok a) (ok a').
Proof. intros H. constructor. exact H. Qed.
Lemma pb_raise {X : Type} (RX : X -> X -> Prop) c c' : prelB RX (praise c) (praise c').
Proof. constructor. exact I. Qed.
Lemma pb_reraise {X : Type} (RX : X -> X -> Prop) c es c' es' : prelB RX (reraise c es) (reraise c' es').
Proof. constructor. exact I. Qed.
Lemma pb_panic {X : Type} (RX : X -> X -> Prop) : prelB RX panic panic.
Proof. constructor. exact I. Qed.
Lemma pb_err {X : Type} (RX : X -> X -> Prop) c es c' es' : prelB RX (Ret (Err c es)) (Ret (Err c' es')).
Proof. constructor. exact I. Qed.

Lemma pb_if {X : Type} (RX : X -> X -> Prop) (b b' : bool) m1 m1' m2 m2' :
  b' = b -> (b = true -> prelB RX m1 m1') -> (b = false -> prelB RX m2 m2') ->
  prelB RX (if b then m1 else m2) (if b' then m1' else m2').
Proof. intros -> H1 H2. destruct b; [apply H1|apply H2]; reflexivity. Qed.

Lemma bindB {X Y : Type} (RX : X -> X -> Prop) (RY : Y -> Y -> Prop) m m' (k k' : X -> prog Y) :
  prelB RX m m' -> (forall a a', RX a a' -> prelB RY (k a) (k' a')) ->
  prelB RY (ptry m k reraise) (ptry m' k' reraise).
Proof. intros H Hk. apply (ptryB RX); [exact H|exact Hk|]. intros. apply pb_reraise. Qed.

Lemma prelB_weaken {X : Type} (RX RY : X -> X -> Prop) m m' :
  (forall a a', RX a a' -> RY a a') -> prelB RX m m' -> prelB RY m m'.
Proof.
  intros W H. induction H as [r r' Hr|d q q' k k' e e' Hq Hk IHk He IHe].
  - constructor. destruct r, r'; try contradiction; try exact I. apply W. exact Hr.
  - apply (pb_call RY d); [exact Hq| |]; assumption.
Qed.

(* a value with the cursor after it *)
Definition VR {X : Type} (d : nat) (x x' : X * ctx) : Prop := fst x = fst x' /\ R d (snd x) (snd x').

Lemma callB d q q' : qrelB d q q' -> prelB (orelB d) (call q) (call q').
Proof.
  intros H. unfold call. apply (pb_call _ d); [exact H| |].
  - intros o o' Ho. apply pb_ok. exact Ho.
  - intros. apply pb_reraise.
Qed.

Lemma call_getB {X : Type} (RX : X -> X -> Prop) (get : out -> prog X) d q q' :
  (forall o o', orelB d o o' -> prelB RX (get o) (get o')) -> qrelB d q q' ->
  prelB RX (Call q get reraise) (Call q' get reraise).
Proof.
  intros G H. apply (pb_call _ d); [exact H| |].
  - intros o o' Ho. apply G. exact Ho.
  - intros. apply pb_reraise.
Qed.

Ltac getterB := intros o o' Ho; destruct o, o'; cbn [orelB] in Ho; try contradiction; try apply pb_panic;
  apply pb_ok; unfold VR; cbn [fst snd]; intuition congruence.

Lemma get_E_B d o o' : orelB d o o' -> prelB (@VR expr d) (get_E o) (get_E o'). Proof. revert o o'. getterB. Qed.
Lemma get_A_B d o o' : orelB d o o' -> prelB (@VR assignable d) (get_A o) (get_A o'). Proof. revert o o'. getterB. Qed.
Lemma get_Es_B d o o' : orelB d o o' -> prelB (@VR (list expr) d) (get_Es o) (get_Es o'). Proof. revert o o'. getterB. Qed.
Lemma get_Tup_B d o o' : orelB d o o' -> prelB (@VR (bool * list expr) d) (get_Tup o) (get_Tup o'). Proof. revert o o'. getterB. Qed.
Lemma get_Fs_B d o o' : orelB d o o' -> prelB (@VR (list (name * expr)) d) (get_Fs o) (get_Fs o'). Proof. revert o o'. getterB. Qed.
Lemma get_Ifs_B d o o' : orelB d o o' -> prelB (@VR (list ifbranch) d) (get_Ifs o) (get_Ifs o'). Proof. revert o o'. getterB. Qed.
Lemma get_Cases_B d o o' : orelB d o o' -> prelB (@VR (list casebranch) d) (get_Cases o) (get_Cases o'). Proof. revert o o'. getterB. Qed.
Lemma get_Params_B d o o' : orelB d o o' -> prelB (@VR (list (name * ty) * ty) d) (get_Params o) (get_Params o'). Proof. revert o o'. getterB. Qed.
Lemma get_T_B d o o' : orelB d o o' -> prelB (@VR ty d) (get_T o) (get_T o'). Proof. revert o o'. getterB. Qed.
Lemma get_Ts_B d o o' : orelB d o o' -> prelB (@VR (list ty) d) (get_Ts o) (get_Ts o'). Proof. revert o o'. getterB. Qed.
Lemma get_FnTy_B d o o' : orelB d o o' -> prelB (@VR (list ty * ty) d) (get_FnTy o) (get_FnTy o'). Proof. revert o o'. getterB. Qed.
Lemma get_TyTup_B d o o' : orelB d o o' -> prelB (@VR (bool * list ty) d) (get_TyTup o) (get_TyTup o'). Proof. revert o o'. getterB. Qed.
Lemma get_Ss_B d o o' : orelB d o o' -> prelB (@VR (list stmt) d) (get_Ss o) (get_Ss o'). Proof. revert o o'. getterB. Qed.
Lemma get_NTs_B d o o' : orelB d o o' -> prelB (@VR (list (name * ty)) d) (get_NTs o) (get_NTs o'). Proof. revert o o'. getterB. Qed.

(* ------------------------------------------------------------------------------------------- *)
(* cursor facts in the shape the tactics look for *)

Lemma R_skip1_tk d c c' t : R d c c' -> token c = t -> opener t = false -> closer t = false ->
  R d (skip 1 c) (skip 1 c').
Proof. intros H E O C. apply R_skip1; [exact H|rewrite E; exact O|intros _; rewrite E; exact C]. Qed.

Lemma is_k_token k c : is_k k c = true -> token c = TK k.
Proof.
  unfold is_k. destruct (token c) as [| | | | | |k0|]; try discriminate. cbn [tok_is]. intros E. f_equal.
  destruct k, k0; try discriminate E; reflexivity.
Qed.

Lemma R_skip1_isk d c c' k : R d c c' -> is_k k c = true -> opener (TK k) = false -> closer (TK k) = false ->
  R d (skip 1 c) (skip 1 c').
Proof. intros H E O C. apply (R_skip1_tk d c c' (TK k)); [exact H|apply is_k_token; exact E|exact O|exact C]. Qed.

Lemma R_pop0 b c c' : R 0 c c' -> R 0 (pop_nl b c) (pop_nl b c').
Proof. apply R_set_nl0. Qed.

Lemma R_push_true d c c' : R d c c' ->
  R d (fst (push_nl true c)) (fst (push_nl true c')) /\ snd (push_nl true c') = snd (push_nl true c).
Proof. destruct d; [apply R_push0|apply R_pushS]. Qed.

Lemma R_pushE d b c c' c2 o c2' o' : R d c c' -> (b = true \/ d = 0) ->
  push_nl b c = (c2, o) -> push_nl b c' = (c2', o') -> R d c2 c2' /\ o' = o.
Proof.
  intros H Hb E E'. destruct Hb as [->| ->].
  - pose proof (R_push_true d c c' H) as [X Y]. rewrite E, E' in X, Y. split; assumption.
  - pose proof (R_push0 b c c' H) as [X Y]. rewrite E, E' in X, Y. split; assumption.
Qed.

Lemma R_openE d c c' c2 o c2' o' : R d c c' -> opener (token c) = true ->
  push_nl true (skip 1 c) = (c2, o) -> push_nl true (skip 1 c') = (c2', o') ->
  o' = o /\ exists d', link d d' o /\ R d' c2 c2'.
Proof.
  intros H Ho E E'. destruct (R_open d c c' H Ho) as (d' & L & X). rewrite E, E' in X. cbn [fst] in X.
  assert (Eo : o = nl c) by (unfold push_nl in E; injection E as _ <-; apply SimGen.skip_nl).
  assert (Eo' : o' = nl c') by (unfold push_nl in E'; injection E' as _ <-; apply SimGen.skip_nl).
  split; [rewrite Eo, Eo'; apply (r_nl _ _ _ H)|]. exists d'. split; [rewrite Eo; exact L|exact X].
Qed.

Lemma R_openE_O d c c' c2 o c2' o' : RO d c c' ->
  push_nl true c = (c2, o) -> push_nl true c' = (c2', o') ->
  o' = o /\ exists d', link d d' o /\ R d' c2 c2'.
Proof. intros (c0 & c0' & -> & -> & H & Ho) E E'. apply (R_openE d c0 c0'); assumption. Qed.

Lemma is_k_opener k c : is_k k c = true -> opener (TK k) = true -> opener (token c) = true.
Proof. intros E O. rewrite (is_k_token k c E). exact O. Qed.

(* inside a simple group every token is of the fragment *)
Lemma R_frag d c c' : R (S d) c c' -> frag_tok (token c) = true.
Proof.
  intros H. pose proof (r_post _ _ _ H) as B. unfold token. destruct (post c) as [|t l] eqn:E; [reflexivity|].
  destruct (NB_head (S d) t l _ B) as (l' & _ & Hh).
  { intros Hd. destruct (r_in _ _ _ H Hd) as (_ & X & Y). rewrite E in X. split; assumption. }
  inversion Hh; subst; try assumption.
  - destruct t as [| | | | | |k|]; try discriminate. destruct k; try discriminate; reflexivity.
  - destruct t as [| | | | | |k|]; try discriminate. destruct k; try discriminate; reflexivity.
Qed.

Lemma frag_contra d c c' t : R (S d) c c' -> token c = t -> frag_tok t = false -> False.
Proof. intros H E F. pose proof (R_frag d c c' H) as X. rewrite E in X. congruence. Qed.

(* ------------------------------------------------------------------------------------------- *)
(* tactics *)

Ltac side := first [reflexivity | discriminate | assumption].

Ltac asolve :=
  lazymatch goal with
  | H : R ?d ?c ?c' |- R _ ?c ?c' => exact H
  | |- R _ (skip 1 ?c) (skip 1 ?c') =>
      first [ (eapply R_skip1_tk; [asolve | eassumption | reflexivity | reflexivity])
            | (eapply R_skip1_isk; [asolve | eassumption | reflexivity | reflexivity]) ]
  | |- R _ (skip_if ?k ?c) (skip_if ?k ?c') => apply R_skip_if; [asolve | reflexivity | reflexivity]
  | |- R _ (pop_nl _ _) (pop_nl _ _) => apply R_pop0; asolve
  | |- R _ (set_nl _ _) (set_nl _ _) => apply R_set_nl0; asolve
  | |- R _ (skip_nls _) (skip_nls _) => apply R_skip_nls; asolve
  | |- R _ (after_arg _) (after_arg _) => apply R_after_arg; asolve
  end.

Ltac beqB := first [reflexivity | (eapply R_token; asolve) | (eapply R_is_k; asolve) | (eapply R_nl; asolve)
                   | (progress f_equal; beqB)].

Ltac opener_fact :=
  first [ (match goal with Tk : token ?c = _ |- opener (token ?c) = true => rewrite Tk; reflexivity end)
        | (match goal with Hb : is_k ?k ?c = true |- opener (token ?c) = true => apply (is_k_opener k c Hb); reflexivity end) ].

(* the depth at which a cursor is known to be *)
Ltac depth_of c :=
  match goal with
  | H : R ?d c _ |- _ => constr:(d)
  | _ =>
      lazymatch c with
      | skip _ ?x => depth_of x
      | skip_if _ ?x => depth_of x
      | set_nl _ ?x => depth_of x
      | pop_nl _ ?x => depth_of x
      | skip_nls ?x => depth_of x
      | after_arg ?x => depth_of x
      end
  end.

(* name the two results of the outermost push_nl and relate them *)
Ltac dpushB :=
  match goal with
  | |- prelB _ ?m ?m' =>
      match m with
      | context [push_nl true (skip 1 ?c)] =>
          match m' with
          | context [push_nl true (skip 1 ?c')] =>
              let d := depth_of c in
              let c2 := fresh "cp" in let o := fresh "old" in let c2' := fresh "cp'" in let o' := fresh "old'" in
              let E := fresh "E" in let E' := fresh "E'" in let HX := fresh "HX" in let HO := fresh "HO" in
              let dd := fresh "di" in let HL := fresh "HL" in let HP := fresh "HP" in let EO := fresh "EO" in
              assert (HX : R d c c') by asolve;
              assert (HO : opener (token c) = true) by opener_fact;
              destruct (push_nl true (skip 1 c)) as [c2 o] eqn:E; destruct (push_nl true (skip 1 c')) as [c2' o'] eqn:E';
              destruct (R_openE d c c' c2 o c2' o' HX HO E E') as [EO (dd & HL & HP)];
              clear E E' HX HO; subst o'
          end
      | context [push_nl true ?c] =>
          match m' with
          | context [push_nl true ?c'] =>
              match goal with
              | HRO : RO ?d c c' |- _ =>
                  let c2 := fresh "cp" in let o := fresh "old" in let c2' := fresh "cp'" in let o' := fresh "old'" in
                  let E := fresh "E" in let E' := fresh "E'" in
                  let dd := fresh "di" in let HL := fresh "HL" in let HP := fresh "HP" in let EO := fresh "EO" in
                  destruct (push_nl true c) as [c2 o] eqn:E; destruct (push_nl true c') as [c2' o'] eqn:E';
                  destruct (R_openE_O d c c' c2 o c2' o' HRO E E') as [EO (dd & HL & HP)];
                  clear E E'; subst o'
              end
          end
      | context [push_nl ?f ?c] =>
          match m' with
          | context [push_nl f ?c'] =>
              let d := depth_of c in
              let c2 := fresh "cp" in let o := fresh "old" in let c2' := fresh "cp'" in let o' := fresh "old'" in
              let E := fresh "E" in let E' := fresh "E'" in let H := fresh "HP" in let EO := fresh "EO" in
              let HX := fresh "HX" in let HB := fresh "HB" in
              assert (HX : R d c c') by asolve;
              assert (HB : f = true \/ d = 0) by (first [left; reflexivity|right; reflexivity]);
              destruct (push_nl f c) as [c2 o] eqn:E; destruct (push_nl f c') as [c2' o'] eqn:E';
              destruct (R_pushE d f c c' c2 o c2' o' HX HB E E') as [H EO];
              clear E E' HX HB; subst o'
          end
      end
  end.

Ltac xr_introB :=
  let x := fresh "x" in let x' := fresh "x'" in let HX := fresh "HX" in
  intros x x' HX;
  lazymatch type of HX with
  | VR _ _ _ =>
      repeat match goal with p : (_ * _)%type |- _ => destruct p end;
      unfold VR in HX; cbn [fst snd] in HX;
      let HE := fresh "HE" in let HR := fresh "HR" in
      destruct HX as [HE HR];
      repeat match type of HE with (_, _) = (_, _) => let H1 := fresh "HE" in injection HE as HE H1 end;
      try subst; cbv beta iota zeta
  | _ => cbv beta iota zeta
  end.

Ltac desolve := first [reflexivity | assumption | congruence].

(* ------------------------------------------------------------------------------------------- *)
(* the token-only loops *)

Definition lf2 := SimGen.lf2.

Lemma expectB d k c c' : R d c c' -> opener (TK k) = false -> closer (TK k) = false ->
  resrelB (R d) (expect k c) (expect k c').
Proof.
  intros H O C. unfold expect. rewrite (R_is_k _ k _ _ H). destruct (is_k k c) eqn:E; [|exact I].
  apply (R_skip1_isk d c c' k); assumption.
Qed.

Lemma rbindB {X Y : Type} (RX : X -> X -> Prop) (RY : Y -> Y -> Prop) m m' (k k' : X -> res Y) :
  resrelB RX m m' -> (forall a a', RX a a' -> resrelB RY (k a) (k' a')) -> resrelB RY (bind m k) (bind m' k').
Proof.
  intros H Hk. destruct m as [a|c es| |], m' as [a'|c' es'| |]; try contradiction; cbn [bind]; try exact I.
  apply Hk. exact H.
Qed.

Lemma resB_if {X : Type} (RX : X -> X -> Prop) (b b' : bool) (m1 m1' m2 m2' : res X) :
  b' = b -> (b = true -> resrelB RX m1 m1') -> (b = false -> resrelB RX m2 m2') ->
  resrelB RX (if b then m1 else m2) (if b' then m1' else m2').
Proof. intros -> H1 H2. destruct b; [apply H1|apply H2]; reflexivity. Qed.

Ltac psim1B :=
  lazymatch goal with
  | |- resrelB _ (Ok _) (Ok _) =>
      cbn [resrelB]; first [asolve | (unfold VR; cbn [fst snd]; split; [reflexivity|asolve])]
  | |- resrelB _ (raise _) (raise _) => exact I
  | |- resrelB _ (Err _ _) (Err _ _) => exact I
  | |- resrelB _ Fuel Fuel => exact I
  | |- resrelB _ Panic Panic => exact I
  | |- resrelB _ (expect _ _) (expect _ _) => eapply expectB; [asolve|reflexivity|reflexivity]
  | |- resrelB _ (bind ?m _) (bind _ _) =>
      lazymatch type of m with
      | res ctx => eapply (rbindB (R _)); [|let a := fresh "cx" in let a' := fresh "cx'" in let H := fresh "HR" in
                                            intros a a' H; cbv beta iota zeta]
      | _ => eapply (rbindB (VR _)); [|xr_introB]
      end
  | |- resrelB _ (if ?b then _ else _) (if ?b' then _ else _) =>
      apply resB_if; [beqB|let Hb := fresh "Hb" in intros Hb|let Hb := fresh "Hb" in intros Hb]
  | |- resrelB _ (match token ?x with _ => _ end) (match token ?y with _ => _ end) =>
      replace (token y) with (token x) by (symmetry; eapply R_token; asolve);
      let Tk := fresh "Tk" in destruct (token x) eqn:Tk
  | |- resrelB _ (match ?k with KNil => _ | _ => _ end) (match ?k with KNil => _ | _ => _ end) => destruct k
  end.
Ltac psimsB := repeat (cbv beta zeta; psim1B).

Lemma ta_innerB d : forall f c c' acc, R d c c' ->
  resrelB (VR d) (type_assignable_inner f c acc) (type_assignable_inner f c' acc).
Proof.
  induction f as [|f IH]; intros c c' acc H; [exact I|]. cbn [type_assignable_inner].
  psimsB. apply IH. exact HR.
Qed.

Lemma taB d c c' : R d c c' -> resrelB (VR d) (type_assignable c) (type_assignable c').
Proof.
  intros H. unfold type_assignable. rewrite (R_token _ _ _ H).
  destruct (token c) eqn:Tk; try exact I.
  destruct (is_capitalized s); [psimsB|].
  assert (H1 : R d (skip 1 c) (skip 1 c')) by asolve.
  unfold expect. rewrite (R_is_k _ KDot _ _ H1).
  destruct (is_k KDot (skip 1 c)) eqn:Ed; [|exact I]. cbn [bind].
  rewrite (SimGen.sat_ta_inner (local_fuel c) (lf2 c c') (skip 1 (skip 1 c))),
          (SimGen.sat_ta_inner (local_fuel c') (lf2 c c') (skip 1 (skip 1 c')));
    [apply ta_innerB; asolve|apply SimGen.lf_ok|apply SimGen.lf2_r|apply SimGen.lf_ok|apply SimGen.lf2_l]; apply SimGen.plen_skip2.
Qed.

Lemma constraint_argsB d : forall f c c' acc, R d c c' ->
  resrelB (VR d) (constraint_args f c acc) (constraint_args f c' acc).
Proof.
  induction f as [|f IH]; intros c c' acc H; [exact I|]. cbn [constraint_args].
  psimsB. apply IH. asolve.
Qed.

Lemma constraintB d f c c' : R d c c' -> resrelB (VR d) (constraint f c) (constraint f c').
Proof. intros H. unfold constraint. psimsB. apply constraint_argsB. asolve. Qed.

Lemma constraints_innerB d : forall f c c' ident lst m, R d c c' ->
  resrelB (VR d) (constraints_inner f c ident lst m) (constraints_inner f c' ident lst m).
Proof.
  induction f as [|f IH]; intros c c' ident lst m H; [exact I|]. cbn [constraints_inner].
  rewrite (SimGen.sat_constraint (local_fuel c) (lf2 c c') c), (SimGen.sat_constraint (local_fuel c') (lf2 c c') c');
    try (unfold lf2, SimGen.lf2, local_fuel; lia).
  apply (rbindB (VR d)); [apply constraintB; exact H|]. xr_introB.
  psimsB. apply IH. asolve.
Qed.

(* generic constraints only occur in fn types, which a simple group does not contain *)
Lemma constraints_outerB : forall f c c' m, R 0 c c' ->
  resrelB (VR 0) (constraints_outer f c m) (constraints_outer f c' m).
Proof.
  induction f as [|f IH]; intros c c' m H; [exact I|]. cbn [constraints_outer]. unfold look2.
  rewrite (R_token _ _ _ H). destruct (token c) eqn:T1; try exact I.
  assert (H1 : R 0 (skip 1 c) (skip 1 c')) by asolve. rewrite (R_token _ _ _ H1).
  destruct (token (skip 1 c)) as [| | | | | |k|] eqn:T2; try exact I. destruct k; try exact I.
  assert (H2 : R 0 (skip 1 (skip 1 c)) (skip 1 (skip 1 c'))) by asolve.
  rewrite (SimGen.sat_constraints_inner (local_fuel c) (lf2 c c') (skip 1 (skip 1 c))),
          (SimGen.sat_constraints_inner (local_fuel c') (lf2 c c') (skip 1 (skip 1 c')));
    [|apply SimGen.lf_ok; apply SimGen.plen_skip2|apply SimGen.lf2_r; apply SimGen.plen_skip2
     |apply SimGen.lf_ok; apply SimGen.plen_skip2|apply SimGen.lf2_l; apply SimGen.plen_skip2].
  apply (rbindB (VR 0)); [apply constraints_innerB; exact H2|]. xr_introB.
  destruct b; [apply IH; exact HR|psimsB].
Qed.

Lemma path_loopB d : forall f c c' acc, R d c c' ->
  fst (path_loop f c acc) = fst (path_loop f c' acc) /\ R d (snd (path_loop f c acc)) (snd (path_loop f c' acc)).
Proof.
  induction f as [|f IH]; intros c c' acc H; [split; [reflexivity|exact H]|]. cbn [path_loop].
  rewrite (R_token _ _ _ H). destruct (token c) eqn:Tk; try (split; [reflexivity|exact H]).
  cbv zeta. assert (H1 : R d (skip 1 c) (skip 1 c')) by asolve. rewrite (R_is_k _ KSlash _ _ H1).
  destruct (is_k KSlash (skip 1 c)) eqn:Es; apply IH; asolve.
Qed.

Lemma pathB d c c' : R d c c' -> resrelB (VR d) (path c) (path c').
Proof.
  intros H. unfold path. rewrite (R_token _ _ _ H).
  destruct (token c) as [| | | | | |k|] eqn:Tk; try exact I.
  - rewrite (SimGen.sat_path_loop (local_fuel c) (lf2 c c') c), (SimGen.sat_path_loop (local_fuel c') (lf2 c c') c');
      try (unfold lf2, SimGen.lf2, local_fuel; lia).
    apply path_loopB. exact H.
  - destruct k; try exact I.
    rewrite (SimGen.sat_path_loop (local_fuel c) (lf2 c c') (skip 1 c)), (SimGen.sat_path_loop (local_fuel c') (lf2 c c') (skip 1 c'));
      [|apply SimGen.lf_ok; apply SimGen.plen_skip|apply SimGen.lf2_r; apply SimGen.plen_skip
       |apply SimGen.lf_ok; apply SimGen.plen_skip|apply SimGen.lf2_l; apply SimGen.plen_skip].
    apply path_loopB. asolve.
Qed.

Lemma use_pathB d c c' : R d c c' -> resrelB (VR d) (use_path c) (use_path c').
Proof.
  intros H. unfold use_path. apply (rbindB (VR d)); [apply pathB; exact H|]. xr_introB. psimsB.
Qed.

Lemma from_importsB d : forall f c c' acc, R d c c' ->
  resrelB (VR d) (from_imports f c acc) (from_imports f c' acc).
Proof.
  induction f as [|f IH]; intros c c' acc H; [exact I|]. cbn [from_imports].
  psimsB.
  all: try (apply IH; asolve).
Qed.

(* the variable list of a blob / enum declaration closes its own bracket *)
Lemma sep_varsB d d' old : link d d' old -> forall f c c', R d' c c' ->
  resrelB (VR d) (sep_vars f old c) (sep_vars f old c').
Proof.
  intros L. induction f as [|f IH]; intros c c' H; [exact I|]. cbn [sep_vars].
  rewrite (R_is_k _ KRightParen _ _ H). destruct (is_k KRightParen c) eqn:Ec.
  { cbn [resrelB]. split; [reflexivity|]. cbn [snd].
    apply (R_close d d' old c c' H); [rewrite (is_k_token _ _ Ec); reflexivity|exact L]. }
  apply (rbindB (R d')); [apply expectB; [exact H|reflexivity|reflexivity]|]. intros c1 c1' H1.
  rewrite (R_token _ _ _ H1). destruct (token c1) eqn:Tk; try exact I.
  assert (H2 : R d' (skip 1 c1) (skip 1 c1')) by asolve.
  rewrite (R_is_k _ KRightParen _ _ H2). destruct (is_k KRightParen (skip 1 c1)) eqn:Ec2.
  { cbn [resrelB]. split; [reflexivity|]. cbn [snd].
    apply (R_close d d' old _ _ H2); [rewrite (is_k_token _ _ Ec2); reflexivity|exact L]. }
  apply (rbindB (R d')); [apply expectB; [exact H2|reflexivity|reflexivity]|]. intros c3 c3' H3.
  apply (rbindB (VR d)); [apply IH; exact H3|]. xr_introB. cbn [resrelB]. split; [reflexivity|exact HR].
Qed.

Lemma push_len b c : length (post (fst (push_nl b c))) <= length (post c).
Proof. unfold push_nl. cbn [fst]. pose proof (SimGen.plen_skip 0 (set_nl b c)). cbn [set_nl post] in *. exact H. Qed.

Lemma paren_varsB d c c' : R d c c' -> resrelB (VR d) (paren_vars c) (paren_vars c').
Proof.
  intros H. unfold paren_vars. rewrite (R_is_k _ KLeftParen _ _ H).
  destruct (is_k KLeftParen c) eqn:Ep; [|cbn [resrelB]; split; [reflexivity|exact H]].
  pose proof (push_len true (skip 1 c)) as L1. pose proof (push_len true (skip 1 c')) as L1'.
  pose proof (SimGen.plen_skip 1 c) as L2. pose proof (SimGen.plen_skip 1 c') as L2'.
  destruct (push_nl true (skip 1 c)) as [c2 o] eqn:E, (push_nl true (skip 1 c')) as [c2' o'] eqn:E'.
  destruct (R_openE d c c' c2 o c2' o' H (is_k_opener _ _ Ep eq_refl) E E') as [-> (d' & L & HP)].
  cbn [fst] in L1, L1'.
  rewrite (SimGen.sat_sep_vars (local_fuel c) (lf2 c c') o c2), (SimGen.sat_sep_vars (local_fuel c') (lf2 c c') o c2');
    try (unfold lf2, SimGen.lf2, local_fuel; lia).
  apply (sep_varsB d d' o L). exact HP.
Qed.

(* ------------------------------------------------------------------------------------------- *)
Section Sim.
Variable T : ptab.
Hypothesis TOK : total_ok T.
Hypothesis sane : LayoutSim.bracket_sane T.

Lemma unary_plain t u : pt_unary T t = Some u -> opener t = false /\ closer t = false.
Proof.
  intros H. destruct (opener t) eqn:O; [destruct (sane t (or_introl O)) as [X _]; congruence|].
  destruct (closer t) eqn:C; [destruct (sane t (or_intror C)) as [X _]; congruence|]. split; reflexivity.
Qed.

Lemma bin_plain t o : pt_bin T t = Some o -> opener t = false /\ closer t = false.
Proof.
  intros H. destruct (opener t) eqn:O; [destruct (sane t (or_introl O)) as [_ X]; congruence|].
  destruct (closer t) eqn:C; [destruct (sane t (or_intror C)) as [_ X]; congruence|]. split; reflexivity.
Qed.

Lemma pexpectB d k c c' : R d c c' -> opener (TK k) = false -> closer (TK k) = false ->
  prelB (R d) (pexpect k c) (pexpect k c').
Proof. intros H O C. unfold pexpect. constructor. apply expectB; assumption. Qed.

Lemma pexpect_openB d k c c' : opener (TK k) = true -> R d c c' -> prelB (RO d) (pexpect k c) (pexpect k c').
Proof.
  intros O H. unfold pexpect, expect. rewrite (R_is_k _ k _ _ H). destruct (is_k k c) eqn:E; constructor; [|exact I].
  exists c, c'. split; [reflexivity|split; [reflexivity|split; [exact H|apply (is_k_opener k c E O)]]].
Qed.

Lemma pexpect_closeB d d' old k c c' : closer (TK k) = true -> R d' c c' -> link d d' old ->
  prelB (R d) (pexpect k (pop_nl old c)) (pexpect k (pop_nl old c')).
Proof.
  intros C H L. unfold pexpect, expect. change (is_k k (pop_nl old c)) with (is_k k c).
  change (is_k k (pop_nl old c')) with (is_k k c'). rewrite (R_is_k _ k _ _ H).
  destruct (is_k k c) eqn:E; constructor; [|exact I].
  apply (R_close d d' old c c' H); [rewrite (is_k_token k c E); exact C|exact L].
Qed.

Lemma call_E_B d q q' : qrelB d q q' -> prelB (@VR expr d) (call_E q) (call_E q').
Proof. apply call_getB. apply get_E_B. Qed.
Lemma call_A_B d q q' : qrelB d q q' -> prelB (@VR assignable d) (call_A q) (call_A q').
Proof. apply call_getB. apply get_A_B. Qed.
Lemma call_Es_B d q q' : qrelB d q q' -> prelB (@VR (list expr) d) (call_Es q) (call_Es q').
Proof. apply call_getB. apply get_Es_B. Qed.
Lemma call_Tup_B d q q' : qrelB d q q' -> prelB (@VR (bool * list expr) d) (call_Tup q) (call_Tup q').
Proof. apply call_getB. apply get_Tup_B. Qed.
Lemma call_Fs_B d q q' : qrelB d q q' -> prelB (@VR (list (name * expr)) d) (call_Fs q) (call_Fs q').
Proof. apply call_getB. apply get_Fs_B. Qed.
Lemma call_Ifs_B d q q' : qrelB d q q' -> prelB (@VR (list ifbranch) d) (call_Ifs q) (call_Ifs q').
Proof. apply call_getB. apply get_Ifs_B. Qed.
Lemma call_Cases_B d q q' : qrelB d q q' -> prelB (@VR (list casebranch) d) (call_Cases q) (call_Cases q').
Proof. apply call_getB. apply get_Cases_B. Qed.
Lemma call_Params_B d q q' : qrelB d q q' -> prelB (@VR (list (name * ty) * ty) d) (call_Params q) (call_Params q').
Proof. apply call_getB. apply get_Params_B. Qed.
Lemma call_T_B d q q' : qrelB d q q' -> prelB (@VR ty d) (call_T q) (call_T q').
Proof. apply call_getB. apply get_T_B. Qed.
Lemma call_Ts_B d q q' : qrelB d q q' -> prelB (@VR (list ty) d) (call_Ts q) (call_Ts q').
Proof. apply call_getB. apply get_Ts_B. Qed.
Lemma call_FnTy_B d q q' : qrelB d q q' -> prelB (@VR (list ty * ty) d) (call_FnTy q) (call_FnTy q').
Proof. apply call_getB. apply get_FnTy_B. Qed.
Lemma call_TyTup_B d q q' : qrelB d q q' -> prelB (@VR (bool * list ty) d) (call_TyTup q) (call_TyTup q').
Proof. apply call_getB. apply get_TyTup_B. Qed.
Lemma call_Ss_B d q q' : qrelB d q q' -> prelB (@VR (list stmt) d) (call_Ss q) (call_Ss q').
Proof. apply call_getB. apply get_Ss_B. Qed.
Lemma call_NTs_B d q q' : qrelB d q q' -> prelB (@VR (list (name * ty)) d) (call_NTs q) (call_NTs q').
Proof. apply call_getB. apply get_NTs_B. Qed.

Lemma expressionB d c c' : R d c c' -> prelB (@VR expr d) (expression T c) (expression T c').
Proof. intros H. apply call_E_B. split; [reflexivity|exact H]. Qed.
Lemma parse_typeB d c c' : R d c c' -> prelB (@VR ty d) (parse_type c) (parse_type c').
Proof. intros H. apply call_T_B. exact H. Qed.
Lemma blockB c c' : R 0 c c' -> prelB (@VR (list stmt) 0) (block c) (block c').
Proof.
  intros H. apply call_Ss_B. cbn [qrelB]. split; [reflexivity|]. left.
  split; [reflexivity|split; [reflexivity|split; [reflexivity|]]]. apply R_skip_if; [exact H|reflexivity|reflexivity].
Qed.

Ltac qsolveB := cbn [qrelB]; repeat (split; [desolve|]); asolve.
Ltac bind_ctx m :=
  lazymatch m with
  | pexpect ?k _ =>
      lazymatch eval cbv in (opener (TK k)) with
      | true => eapply (bindB (RO _)); [|let a := fresh "cx" in let a' := fresh "cx'" in let H := fresh "HRO" in
                                         intros a a' H; cbv beta iota zeta]
      | false => eapply (bindB (R _)); [|let a := fresh "cx" in let a' := fresh "cx'" in let H := fresh "HR" in
                                          intros a a' H; cbv beta iota zeta]
      end
  | _ => eapply (bindB (R _)); [|let a := fresh "cx" in let a' := fresh "cx'" in let H := fresh "HR" in
                                  intros a a' H; cbv beta iota zeta]
  end.
Ltac sim1B :=
  lazymatch goal with
  | |- prelB _ (ok _) (ok _) =>
      apply pb_ok; first [asolve | (unfold VR; cbn [fst snd]; split; [desolve|asolve])
                         | (cbn [orelB]; repeat (split; [desolve|]); asolve)]
  | |- prelB _ (praise _) (praise _) => apply pb_raise
  | |- prelB _ panic panic => apply pb_panic
  | |- prelB _ (reraise _ _) (reraise _ _) => apply pb_reraise
  | |- prelB _ (pexpect _ _) (pexpect _ _) =>
      first [ (eapply pexpect_closeB; [reflexivity|asolve|eassumption])
            | (eapply pexpect_openB; [reflexivity|asolve])
            | (eapply pexpectB; [asolve|reflexivity|reflexivity]) ]
  | |- prelB _ (expression _ _) (expression _ _) => eapply expressionB; asolve
  | |- prelB _ (parse_type _) (parse_type _) => eapply parse_typeB; asolve
  | |- prelB _ (block _) (block _) => apply blockB; asolve
  | |- prelB _ (call _) (call _) => eapply callB; qsolveB
  | |- prelB _ (call_E _) (call_E _) => eapply call_E_B; qsolveB
  | |- prelB _ (call_A _) (call_A _) => eapply call_A_B; qsolveB
  | |- prelB _ (call_Es _) (call_Es _) => eapply call_Es_B; qsolveB
  | |- prelB _ (call_Tup _) (call_Tup _) => eapply call_Tup_B; qsolveB
  | |- prelB _ (call_Fs _) (call_Fs _) => eapply call_Fs_B; qsolveB
  | |- prelB _ (call_Ifs _) (call_Ifs _) => eapply call_Ifs_B; qsolveB
  | |- prelB _ (call_Cases _) (call_Cases _) => eapply call_Cases_B; qsolveB
  | |- prelB _ (call_Params _) (call_Params _) => eapply call_Params_B; qsolveB
  | |- prelB _ (call_FnTy _) (call_FnTy _) => eapply call_FnTy_B; qsolveB
  | |- prelB _ (call_TyTup _) (call_TyTup _) => eapply call_TyTup_B; qsolveB
  | |- prelB _ (call_NTs _) (call_NTs _) => eapply call_NTs_B; qsolveB
  | |- prelB _ (Ret (type_assignable _)) (Ret (type_assignable _)) => apply pb_ret; eapply taB; asolve
  | |- prelB _ (Ret (use_path _)) (Ret (use_path _)) => apply pb_ret; eapply use_pathB; asolve
  | |- prelB _ (Ret (paren_vars _)) (Ret (paren_vars _)) => apply pb_ret; eapply paren_varsB; asolve
  | |- prelB _ (ptry ?m _ reraise) (ptry _ _ reraise) =>
      lazymatch type of m with
      | prog ctx => bind_ctx m
      | _ => eapply (bindB (VR _)); [|xr_introB]
      end
  | |- prelB _ (if ?b then _ else _) (if ?b' then _ else _) =>
      apply pb_if; [beqB|let Hb := fresh "Hb" in intros Hb|let Hb := fresh "Hb" in intros Hb]
  | |- prelB _ (match token ?x with _ => _ end) (match token ?y with _ => _ end) =>
      replace (token y) with (token x) by (symmetry; eapply R_token; asolve);
      let Tk := fresh "Tk" in destruct (token x) eqn:Tk
  | |- prelB _ (match ?k with KNil => _ | _ => _ end) (match ?k with KNil => _ | _ => _ end) => destruct k
  | |- prelB _ (let '(_, _) := push_nl _ _ in _) _ => dpushB
  end.
Ltac simsB := repeat (cbv beta zeta; sim1B).

Lemma step_argsB d pr acc c c' : R d c c' -> prelB (orelB d) (step_args T pr acc c) (step_args T pr acc c').
Proof.
  intros H. unfold step_args.
  assert (D : prelB (orelB d)
    (ptry (expression T c) (fun '(e, c1) => call (QArgs pr (acc ++ [e]) (after_arg c1)))
          (fun c' es => if pr then ok (REs acc c) else reraise c' es))
    (ptry (expression T c') (fun '(e, c1) => call (QArgs pr (acc ++ [e]) (after_arg c1)))
          (fun c'0 es => if pr then ok (REs acc c') else reraise c'0 es))).
  { apply (ptryB (@VR expr d)); [simsB|xr_introB; simsB|].
    intros c1 es c1' es'. destruct pr; simsB. }
  simsB; exact D.
Qed.

Lemma step_tupleB d i acc c c' : R d c c' -> prelB (orelB d) (step_tuple T i acc c) (step_tuple T i acc c').
Proof. intros H. unfold step_tuple. simsB. Qed.

Lemma step_listB d acc c c' : R d c c' -> prelB (orelB d) (step_list T acc c) (step_list T acc c').
Proof. intros H. unfold step_list. simsB. Qed.

Lemma step_fieldsB d acc c c' : R d c c' -> prelB (orelB d) (step_fields T acc c) (step_fields T acc c').
Proof. intros H. unfold step_fields. simsB. Qed.

(* a prime call keeps the flag as it is *)
Lemma R_push_nlc d c c' : R d c c' ->
  R d (fst (push_nl (nl c) c)) (fst (push_nl (nl c) c')) /\ snd (push_nl (nl c) c) = nl c /\ snd (push_nl (nl c) c') = nl c.
Proof.
  intros H. split; [|split; [reflexivity|apply (r_nl _ _ _ H)]]. destruct d as [|d].
  - apply (R_push0 (nl c) c c' H).
  - destruct (r_in _ _ _ H ltac:(lia)) as (En & _ & _). rewrite En. apply (R_pushS d c c' H).
Qed.

Lemma R_pop_nlc d c1 c1' c3 c3' : R d c1 c1' -> R d c3 c3' -> R d (pop_nl (nl c1) c3) (pop_nl (nl c1) c3').
Proof.
  intros H1 H3. destruct d as [|d]; [apply R_pop0; exact H3|].
  destruct (r_in _ _ _ H1 ltac:(lia)) as (E1 & _ & _). destruct (r_in _ _ _ H3 ltac:(lia)) as (E3 & _ & _).
  unfold pop_nl. apply R_set_same; [exact H3|congruence].
Qed.

Lemma assignable_callB d a c c' : R d c c' -> token c = TK KPrime \/ token c = TK KLeftParen ->
  prelB (orelB d) (assignable_call c a) (assignable_call c' a).
Proof.
  intros H Tk. unfold assignable_call. cbv zeta. rewrite (R_is_k _ KPrime _ _ H).
  destruct Tk as [Tk|Tk].
  - assert (Ep : is_k KPrime c = true) by (unfold is_k; rewrite Tk; reflexivity). rewrite Ep.
    assert (H1 : R d (skip 1 c) (skip 1 c')) by asolve. rewrite (R_nl _ _ _ H1).
    destruct (R_push_nlc d _ _ H1) as (HP & E1 & E2).
    destruct (push_nl (nl (skip 1 c)) (skip 1 c)) as [cp old], (push_nl (nl (skip 1 c)) (skip 1 c')) as [cp' old'].
    cbn [fst snd] in HP, E1, E2. subst old old'.
    eapply (bindB (VR _)); [eapply call_Es_B; cbn [qrelB]; split; [reflexivity|split; [reflexivity|exact HP]]|].
    xr_introB. pose proof (R_pop_nlc d _ _ _ _ H1 HR) as H4. simsB.
  - assert (Ep : is_k KPrime c = false) by (unfold is_k; rewrite Tk; reflexivity). rewrite Ep.
    dpushB. simsB.
Qed.

Lemma assignable_indexB d a c c' : R d c c' -> token c = TK KLeftBracket ->
  prelB (orelB d) (assignable_index T c a) (assignable_index T c' a).
Proof. intros H Tk. unfold assignable_index. simsB. destruct e; simsB. Qed.

Lemma assignable_variantB d a c c' : R d c c' -> prelB (orelB d) (assignable_variant T c a) (assignable_variant T c' a).
Proof.
  intros H. unfold assignable_variant.
  destruct (match a with ARead n => Some n | AAccess _ n => Some n | _ => None end); simsB.
  apply (ptryB (@VR expr d)); [simsB|xr_introB; simsB|]. intros. simsB.
Qed.

Lemma assignable_dotB d a c c' : R d c c' -> token c = TK KDot -> prelB (orelB d) (assignable_dot c a) (assignable_dot c' a).
Proof. intros H Tk. unfold assignable_dot. simsB. Qed.

Lemma step_subB d a c c' : R d c c' -> prelB (orelB d) (step_sub T a c) (step_sub T a c').
Proof.
  intros H. unfold step_sub. simsB;
    first [(apply assignable_callB; [exact H|first [left; exact Tk|right; exact Tk]])
          | (apply assignable_indexB; [exact H|exact Tk]) | idtac].
  apply (ptryB (orelB d)); [apply assignable_variantB; assumption|intros o o' Ho; apply pb_ok; exact Ho|].
  intros. apply assignable_dotB; [exact H|exact Tk].
Qed.

Lemma valueB d c c' : R d c c' -> prelB (orelB d) (value c) (value c').
Proof. intros H. unfold value. simsB. Qed.

Lemma unaryB d c c' u : R d c c' -> pt_unary T (token c) = Some u -> prelB (orelB d) (unary T c) (unary T c').
Proof.
  intros H Hu. unfold unary. rewrite (R_token _ _ _ H). destruct (unary_plain _ _ Hu) as [O C].
  assert (H1 : R d (skip 1 c) (skip 1 c')) by (apply R_skip1; [exact H|exact O|intros _; exact C]).
  cbv zeta. eapply (bindB (VR _)); [eapply call_E_B; cbn [qrelB]; split; [reflexivity|exact H1]|]. xr_introB.
  rewrite Hu. simsB.
Qed.

Lemma groupingB d c c' : R d c c' -> token c = TK KLeftParen -> prelB (orelB d) (grouping_or_tuple c) (grouping_or_tuple c').
Proof.
  intros H Tk. unfold grouping_or_tuple. cbv beta zeta. dpushB.
  rewrite (R_is_k _ KComma _ _ HP), (R_is_k _ KRightParen _ _ HP). simsB.
  destruct l; simsB.
Qed.

Lemma list_exprB d c c' : R d c c' -> token c = TK KLeftBracket -> prelB (orelB d) (list_expr c) (list_expr c').
Proof. intros H Tk. unfold list_expr. simsB. Qed.

Lemma blobB d c c' : R d c c' -> prelB (orelB d) (blob c) (blob c').
Proof. intros H. unfold blob. simsB. Qed.

(* ---- the forms that contain blocks: depth 0 only (a simple group does not contain them) ---- *)

Lemma if_expressionB c c' : R 0 c c' -> token c = TK KIf -> prelB (orelB 0) (if_expression T c) (if_expression T c').
Proof. intros H Tk. unfold if_expression. simsB. Qed.

Lemma step_elifsB acc c c' : R 0 c c' -> prelB (orelB 0) (step_elifs T acc c) (step_elifs T acc c').
Proof. intros H. unfold step_elifs. simsB. Qed.

Lemma case_expressionB c c' : R 0 c c' -> prelB (orelB 0) (case_expression T c) (case_expression T c').
Proof. intros H. unfold case_expression. simsB. Qed.

Lemma step_casesB acc c c' : R 0 c c' -> prelB (orelB 0) (step_cases acc c) (step_cases acc c').
Proof. intros H. unfold step_cases. simsB. Qed.

Lemma functionB c c' : R 0 c c' -> token c = TK KFn \/ token c = TK KPu -> prelB (orelB 0) (function c) (function c').
Proof.
  intros H Tk. unfold function. rewrite (R_is_k _ KPu _ _ H).
  assert (H1 : R 0 (skip 1 c) (skip 1 c')) by (destruct Tk as [Tk|Tk]; asolve).
  cbv zeta. eapply (bindB (VR _)); [eapply call_Params_B; cbn [qrelB]; split; [reflexivity|split; [reflexivity|exact H1]]|].
  xr_introB. simsB.
Qed.

Lemma step_paramsB acc c c' : R 0 c c' -> prelB (orelB 0) (step_params acc c) (step_params acc c').
Proof.
  intros H. unfold step_params. simsB.
  apply (ptryB (@VR ty 0)); [simsB|xr_introB; simsB|]. intros. simsB.
Qed.

Lemma assignable_pB d c c' : R d c c' -> prelB (@VR assignable d) (assignable_p c) (assignable_p c').
Proof. intros H. unfold assignable_p. simsB. Qed.

Lemma prefixB d c c' : R d c c' -> prelB (orelB d) (prefix T c) (prefix T c').
Proof.
  intros H. unfold prefix.
  assert (D : forall t, token c = t -> prelB (orelB d) (match pt_unary T t with Some _ => unary T c | None => praise c end)
                                  (match pt_unary T t with Some _ => unary T c' | None => praise c' end)).
  { intros t Et. destruct (pt_unary T t) eqn:Eu; [apply (unaryB d c c' u); [exact H|rewrite Et; exact Eu]|simsB]. }
  simsB; first [(apply D; first [assumption|reflexivity]) | apply valueB; exact H
              | (apply groupingB; [exact H|exact Tk])
              | (apply list_exprB; [exact H|exact Tk])
              | (destruct d as [|d0];
                 [first [(apply functionB; [exact H|first [left; exact Tk|right; exact Tk]])
                        |(apply if_expressionB; [exact H|exact Tk])
                        |(apply case_expressionB; exact H)]
                 |exfalso; apply (frag_contra d0 c c' _ H Tk); reflexivity])
              | idtac].
  pose proof (taB _ _ _ H) as TA.
  destruct (type_assignable c) as [[b0 c1]|ce es| |], (type_assignable c') as [[b0' c1']|ce' es'| |];
    try contradiction.
  - destruct TA as [_ TA]. cbn [snd] in TA. rewrite (R_is_k _ KLeftBrace _ _ TA).
    destruct (is_k KLeftBrace c1).
    + apply (ptryB (orelB d)); [apply blobB; exact H|intros o o' Ho; apply pb_ok; exact Ho|].
      intros cx es cx' es'. apply pb_err.
    + apply (bindB (@VR assignable d)); [apply assignable_pB; exact H|xr_introB; simsB].
  - apply (bindB (@VR assignable d)); [apply assignable_pB; exact H|xr_introB; simsB].
  - apply pb_ret. exact I.
  - apply pb_ret. exact I.
Qed.

Lemma step_precB d p c c' : R d c c' -> prelB (orelB d) (step_prec T p c) (step_prec T p c').
Proof.
  intros H. unfold step_prec. apply (bindB (@VR expr d)).
  - apply (bindB (orelB d)); [apply prefixB; exact H|]. apply get_E_B.
  - xr_introB. simsB.
Qed.

Lemma arrow_callB d lhs c c' : R d c c' -> prelB (orelB d) (arrow_call T c lhs) (arrow_call T c' lhs).
Proof. intros H. unfold arrow_call. simsB. destruct (prepend lhs e); simsB. Qed.

Lemma infixB d lhs c c' : R d c c' -> pt_valid T (token c) = true -> prelB (orelB d) (infix T c lhs) (infix T c' lhs).
Proof.
  intros H V. unfold infix. cbv zeta. rewrite (R_token _ _ _ H).
  destruct (tok_is KArrow (token c)); [apply arrow_callB; assumption|].
  destruct (pt_postfix T (token c)); [simsB|].
  destruct (pt_bin T (token c)) eqn:Eb.
  - destruct (bin_plain _ _ Eb) as [O C].
    assert (H1 : R d (skip 1 c) (skip 1 c')) by (apply R_skip1; [exact H|exact O|intros _; exact C]). simsB.
  - destruct (r_nc _ _ _ H) as (N1 & N2 & N3 & N4).
    assert (P : forall x, nocom (pre x) -> nocom (post x) -> exists cp, prev (skip 1 x) = Some cp).
    { intros x Np Nq. eexists. apply prev_eq.
      - rewrite (skip1_eq x Nq). unfold skip1_spec. destruct (post x) as [|t l] eqn:E; [exact Np|].
        apply nocom_cons in Nq. destruct Nq as [Nt Nl]. destruct (nl x); cbn [pre].
        + apply nocom_app. split; [apply nocom_repeat|apply nocom_cons; split; assumption].
        + apply nocom_cons. split; assumption.
      - rewrite (skip1_eq x Nq). unfold skip1_spec. destruct (post x) as [|t l] eqn:E; [reflexivity|].
        apply nocom_cons in Nq. destruct Nq as [Nt Nl]. destruct (nl x); cbn [post]; [apply nocom_dropNL|]; exact Nl. }
    destruct (P c N1 N2) as (cp & ->). destruct (P c' N3 N4) as (cp' & ->). simsB.
Qed.

Lemma step_loopB d p lhs c c' : R d c c' -> prelB (orelB d) (step_loop T p lhs c) (step_loop T p lhs c').
Proof.
  intros H. unfold step_loop. rewrite (R_token _ _ _ H).
  destruct ((p <=? pt_prec T (token c)) && pt_valid T (token c)) eqn:G; [|simsB].
  apply andb_prop in G. destruct G as [_ V].
  apply (bindB (@VR expr d)).
  - apply (bindB (orelB d)); [apply infixB; assumption|]. apply get_E_B.
  - xr_introB. simsB.
Qed.

(* ---- types ---- *)

Lemma paren_typesB d c c' : R d c c' -> prelB (@VR (list ty) d) (paren_types c) (paren_types c').
Proof.
  intros H. unfold paren_types. rewrite (R_is_k _ KLeftParen _ _ H).
  destruct (is_k KLeftParen c) eqn:Hb; [|simsB]. dpushB.
  eapply call_Ts_B. cbn [qrelB]. split; [reflexivity|]. exists di. split; assumption.
Qed.

Lemma step_sep_typesB d old c c' : (exists d', link d d' old /\ R d' c c') ->
  prelB (orelB d) (step_sep_types old c) (step_sep_types old c').
Proof.
  intros (d' & L & H). unfold step_sep_types. rewrite (R_is_k _ KRightParen _ _ H).
  destruct (is_k KRightParen c) eqn:Ec.
  { apply pb_ok. cbn [orelB]. split; [reflexivity|].
    apply (R_close d d' old c c' H); [rewrite (is_k_token _ _ Ec); reflexivity|exact L]. }
  eapply (bindB (VR _)); [eapply parse_typeB; exact H|]. xr_introB.
  rewrite (R_is_k _ KRightParen _ _ HR).
  match goal with |- context [is_k KRightParen ?x] => destruct (is_k KRightParen x) eqn:Ec1 end.
  { apply pb_ok. cbn [orelB]. split; [reflexivity|].
    apply (R_close d d' old _ _ HR); [rewrite (is_k_token _ _ Ec1); reflexivity|exact L]. }
  eapply (bindB (R _)); [eapply pexpectB; [exact HR|reflexivity|reflexivity]|]. intros c2 c2' H2.
  eapply (bindB (VR _)); [eapply call_Ts_B; cbn [qrelB]; split; [reflexivity|exists d'; split; [exact L|exact H2]]|].
  xr_introB. simsB.
Qed.

Lemma step_fnty_paramsB acc c c' : R 0 c c' -> prelB (orelB 0) (step_fnty_params acc c) (step_fnty_params acc c').
Proof.
  intros H. unfold step_fnty_params. simsB.
  all: try (apply (ptryB (@VR ty 0)); [simsB|xr_introB; simsB|intros; simsB]).
Qed.

Lemma step_ty_tupleB d i acc c c' : R d c c' -> prelB (orelB d) (step_ty_tuple i acc c) (step_ty_tuple i acc c').
Proof.
  intros H. unfold step_ty_tuple. simsB.
  all: rewrite (R_is_k _ KComma _ _ HR); simsB.
Qed.

Lemma step_typeB d c c' : R d c c' -> prelB (orelB d) (step_type c) (step_type c').
Proof.
  intros H. unfold step_type. simsB.
  all: try (apply paren_typesB; assumption).
  all: try (rewrite (R_is_k _ KComma _ _ HP), (R_is_k _ KRightParen _ _ HP)).
  all: simsB.
  all: try (destruct l; simsB).
  (* fn types: not inside a simple group *)
  all: destruct d as [|d0]; [|exfalso; apply (frag_contra d0 c c' _ H Tk); reflexivity].
  all: assert (H1 : R 0 (skip 1 c) (skip 1 c')) by asolve.
  all: first
    [ (rewrite (R_is_k _ KPu _ _ H); solve [simsB])
    | (apply pb_ret; rewrite (R_is_k _ KLess _ _ H1);
       destruct (is_k KLess (skip 1 c)) eqn:El; [|cbn [resrelB]; split; [reflexivity|exact H1]];
       rewrite (SimGen.sat_constraints_outer (local_fuel (skip 1 c)) (lf2 (skip 1 c) (skip 1 c')) (skip 1 (skip 1 c))),
               (SimGen.sat_constraints_outer (local_fuel (skip 1 c')) (lf2 (skip 1 c) (skip 1 c')) (skip 1 (skip 1 c')));
       [apply constraints_outerB; asolve|apply SimGen.lf_ok; apply SimGen.plen_skip|apply SimGen.lf2_r; apply SimGen.plen_skip
       |apply SimGen.lf_ok; apply SimGen.plen_skip|apply SimGen.lf2_l; apply SimGen.plen_skip]) ].
Qed.

(* ---- blocks, declarations, statements (depth 0) ---- *)

Lemma step_stmtsB acc c c' : R 0 c c' -> prelB (orelB 0) (step_stmts acc [] c) (step_stmts acc [] c').
Proof.
  intros H. unfold step_stmts.
  assert (D : prelB (orelB 0)
     (ptry (statement c) (fun '(s, c1) => call (QStmts (acc ++ [s]) [] c1))
        (fun c' es => call (QStmts acc ([] ++ es) (skip_if KNewline (skip_until KNewline (pop_nl false c'))))))
     (ptry (statement c') (fun '(s, c1) => call (QStmts (acc ++ [s]) [] c1))
        (fun c' es => call (QStmts acc ([] ++ es) (skip_if KNewline (skip_until KNewline (pop_nl false c'))))))).
  { apply ptryB_stmt; [exact H| |].
    - intros s c1 c1' Hc. apply (callB 0). cbn [qrelB]. split; [reflexivity|]. left.
      split; [reflexivity|split; [reflexivity|split; [reflexivity|exact Hc]]].
    - intros c1 es c1' es' He He'. apply (callB 0). cbn [qrelB app]. split; [reflexivity|]. right. split; assumption. }
  simsB; exact D.
Qed.

Definition EIR (x x' : name * ty * nat * ctx) : Prop :=
  fst (fst x) = fst (fst x') /\ R 0 (snd x) (snd x').

Lemma enum_itemB c c' : R 0 c c' -> prelB EIR (enum_item c) (enum_item c').
Proof.
  intros H. unfold enum_item. cbv zeta.
  assert (H0 : R 0 (skip_nls c) (skip_nls c')) by asolve.
  replace (token (skip_nls c')) with (token (skip_nls c)) by (symmetry; apply (R_token _ _ _ H0)).
  destruct (token (skip_nls c)) as [v| | | | | | |] eqn:Tk; try apply pb_raise.
  simsB.
  apply pb_ok. unfold EIR. cbn [fst snd]. split; [reflexivity|asolve].
Qed.

Lemma unpos_app l x : unpos (l ++ [x]) = unpos l ++ [fst x].
Proof. unfold unpos. rewrite map_app. reflexivity. Qed.

Lemma step_enum_itemsB acc acc' c c' : unpos acc = unpos acc' -> R 0 c c' ->
  prelB (orelB 0) (step_enum_items acc c) (step_enum_items acc' c').
Proof.
  intros HA H. unfold step_enum_items. cbv zeta.
  assert (H0 : R 0 (skip_nls c) (skip_nls c')) by asolve.
  rewrite (R_is_k _ KEnd _ _ H0).
  destruct (is_k KEnd (skip_nls c)) eqn:Ee.
  { apply pb_ok. cbn [orelB]. split; [exact HA|asolve]. }
  apply (bindB EIR); [apply enum_itemB; exact H|].
  intros [[[v t0] pos] c1] [[[v' t0'] pos'] c1'] [HE HR]. cbn [fst snd] in HE, HR. injection HE as -> ->.
  assert (H1 : R 0 (skip_nls c1) (skip_nls c1')) by asolve.
  rewrite (R_is_k _ KEnd _ _ H1).
  assert (HA' : unpos (acc ++ [(v', t0', pos)]) = unpos (acc' ++ [(v', t0', pos')]))
    by (rewrite !unpos_app, HA; reflexivity).
  destruct (is_k KEnd (skip_nls c1)) eqn:Ee1.
  - apply pb_ok. cbn [orelB]. split; [exact HA'|asolve].
  - apply (callB 0). cbn [qrelB]. split; [exact HA'|split; [reflexivity|asolve]].
Qed.

Lemma step_blob_fieldsB d acc c c' : R d c c' -> prelB (orelB d) (step_blob_fields acc c) (step_blob_fields acc c').
Proof. intros H. unfold step_blob_fields. simsB. Qed.

Definition EnR (x x' : list (name * ty * nat) * ctx) : Prop := unpos (fst x) = unpos (fst x') /\ R 0 (snd x) (snd x').

Lemma get_EnumB o o' : orelB 0 o o' -> prelB EnR (get_Enum o) (get_Enum o').
Proof.
  intros Ho. destruct o, o'; cbn [orelB] in Ho; try contradiction; try apply pb_panic.
  apply pb_ok. exact Ho.
Qed.

Lemma R_skip2 c c' t1 t2 : R 0 c c' -> nl c = false -> token c = t1 -> opener t1 = false -> closer t1 = false ->
  token (skip 1 c) = t2 -> opener t2 = false -> closer t2 = false -> R 0 (skip 2 c) (skip 2 c').
Proof.
  intros H En E1 O1 C1 E2 O2 C2. rewrite (LayoutStmt.skip2_eq c En), (LayoutStmt.skip2_eq c') by (rewrite (R_nl _ _ _ H); exact En).
  apply (R_skip1_tk 0 _ _ t2); [apply (R_skip1_tk 0 _ _ t1); assumption|exact E2|exact O2|exact C2].
Qed.

Lemma R_skip3 c c' t1 t2 t3 : R 0 c c' -> nl c = false -> token c = t1 -> opener t1 = false -> closer t1 = false ->
  token (skip 1 c) = t2 -> opener t2 = false -> closer t2 = false ->
  token (skip 1 (skip 1 c)) = t3 -> opener t3 = false -> closer t3 = false -> R 0 (skip 3 c) (skip 3 c').
Proof.
  intros H En E1 O1 C1 E2 O2 C2 E3 O3 C3.
  rewrite (LayoutStmt.skip3_eq c En), (LayoutStmt.skip3_eq c') by (rewrite (R_nl _ _ _ H); exact En).
  apply (R_skip1_tk 0 _ _ t3); [apply (R_skip1_tk 0 _ _ t2); [apply (R_skip1_tk 0 _ _ t1); assumption|exact E2|exact O2|exact C2]
                                |exact E3|exact O3|exact C3].
Qed.

Lemma stmt_enumB nm c c' : R 0 c c' -> nl c = false -> token c = TIdent nm -> token (skip 1 c) = TK KColonColon ->
  token (skip 1 (skip 1 c)) = TK KEnum -> prelB (@VR stmt 0) (stmt_enum nm c) (stmt_enum nm c').
Proof.
  intros H En T1 T2 T3. unfold stmt_enum. destruct (negb (is_capitalized nm)); [simsB|]. cbv zeta.
  assert (H3 : R 0 (skip 3 c) (skip 3 c')).
  { apply (R_skip3 c c' (TIdent nm) (TK KColonColon) (TK KEnum)); try assumption; reflexivity. }
  dpushB.
  eapply (bindB (VR _)); [simsB|]. xr_introB.
  apply (bindB EnR).
  - unfold call_Enum. apply (call_getB _ _ 0); [apply get_EnumB|]. cbn [qrelB]. split; [reflexivity|split; [reflexivity|exact HR]].
  - intros [items c4] [items' c4'] [HU HR4]. cbn [fst snd] in HU, HR4.
    pose proof (SimGen.first_dup_unpos items items' [] HU) as FD.
    destruct (first_dup [] items), (first_dup [] items'); try contradiction.
    + apply pb_err.
    + apply pb_ok. unfold VR. cbn [fst snd]. rewrite !SimGen.unpos_map. change (SimGen.unpos items) with (unpos items).
      change (SimGen.unpos items') with (unpos items'). rewrite HU. split; [reflexivity|asolve].
Qed.

Lemma stmt_blobB nm c c' t3 : R 0 c c' -> nl c = false -> token c = TIdent nm -> token (skip 1 c) = TK KColonColon ->
  token (skip 1 (skip 1 c)) = t3 -> opener t3 = false -> closer t3 = false ->
  prelB (@VR stmt 0) (stmt_blob nm c) (stmt_blob nm c').
Proof.
  intros H En T1 T2 T3 O3 C3. unfold stmt_blob. cbv zeta.
  assert (H2 : R 0 (skip 2 c) (skip 2 c')).
  { apply (R_skip2 c c' (TIdent nm) (TK KColonColon)); try assumption; reflexivity. }
  assert (T3' : token (skip 2 c) = t3) by (rewrite (LayoutStmt.skip2_eq c En); exact T3).
  assert (H3 : R 0 (skip 1 (skip 2 c)) (skip 1 (skip 2 c'))) by (apply (R_skip1_tk 0 _ _ t3); assumption).
  rewrite (R_is_k _ KExternBlob _ _ H2). simsB.
Qed.

Lemma stmt_def_impliedB nm c c' : R 0 c c' -> token c = TIdent nm ->
  prelB (@VR stmt 0) (stmt_def_implied T nm c) (stmt_def_implied T nm c').
Proof.
  intros H T1. unfold stmt_def_implied. simsB.
  all: assert (H1 : R 0 (skip 1 c) (skip 1 c')) by asolve; rewrite (R_is_k _ KColonColon _ _ H1); simsB.
Qed.

Lemma stmt_def_typedB nm c c' : R 0 c c' -> nl c = false -> token c = TIdent nm -> token (skip 1 c) = TK KColon ->
  prelB (@VR stmt 0) (stmt_def_typed T nm c) (stmt_def_typed T nm c').
Proof.
  intros H En T1 T2. unfold stmt_def_typed.
  assert (H2 : R 0 (skip 2 c) (skip 2 c')).
  { apply (R_skip2 c c' (TIdent nm) (TK KColon)); try assumption; reflexivity. }
  simsB.
  match goal with HR : R 0 ?c1 ?c0 |- prelB _ (ptry (if is_k KColon ?c1 then _ else _) _ _) _ =>
    apply (bindB (fun k k' : varkind => k = k' /\ (is_k KColon c1 = true \/ is_k KEqual c1 = true)));
      [rewrite (R_is_k _ KColon _ _ HR), (R_is_k _ KEqual _ _ HR);
       destruct (is_k KColon c1) eqn:E1; [apply pb_ok; split; [reflexivity|left; reflexivity]|];
       destruct (is_k KEqual c1) eqn:E2; [apply pb_ok; split; [reflexivity|right; reflexivity]|apply pb_raise]
      |intros k k' [<- [NT|NT]]; simsB]
  end.
Qed.

Lemma stmt_exprB c c' : R 0 c c' -> prelB (@VR stmt 0) (stmt_expr T c) (stmt_expr T c').
Proof. intros H. unfold stmt_expr. simsB. Qed.

Lemma assign_op_plain t op : assign_op t = Some op -> opener t = false /\ closer t = false.
Proof. destruct t as [| | | | | |k|]; try discriminate. destruct k; try discriminate; split; reflexivity. Qed.

Lemma stmt_assign_or_exprB c c' : R 0 c c' -> prelB (@VR stmt 0) (stmt_assign_or_expr T c) (stmt_assign_or_expr T c').
Proof.
  intros H. unfold stmt_assign_or_expr. pose proof (taB _ _ _ H) as TA.
  apply (ptryB (@VR assignable 0)); [apply assignable_pB; exact H| |].
  - xr_introB. rewrite (R_token _ _ _ HR).
    match goal with |- context [assign_op (token ?x)] => destruct (assign_op (token x)) eqn:Eo end.
    + destruct (assign_op_plain _ _ Eo) as [O C].
      match goal with |- context [expression T (skip 1 ?x)] =>
        assert (H1 : R 0 (skip 1 x) (skip 1 c0)) by (apply R_skip1; [exact HR|exact O|intros _; exact C]) end.
      simsB.
    + destruct (type_assignable c) as [[b0 cb]|ce es| |], (type_assignable c') as [[b0' cb']|ce' es'| |];
        try contradiction; try (apply pb_ret; exact I).
      * destruct TA as [_ TA]. cbn [snd] in TA. rewrite (R_is_k _ KLeftBrace _ _ TA).
        destruct (is_k KLeftBrace cb); [apply stmt_exprB; exact H|unfold expression_after; simsB].
      * unfold expression_after. simsB.
  - intros cx es cx' es'. rewrite (R_token _ _ _ H).
    destruct (token c); try (apply stmt_exprB; exact H).
    destruct (type_assignable c) as [[b0 cb]|ce es0| |], (type_assignable c') as [[b0' cb']|ce' es0'| |];
      try contradiction; try (apply pb_ret; exact I).
    + destruct TA as [_ TA]. cbn [snd] in TA. rewrite (R_is_k _ KLeftBrace _ _ TA).
      destruct (is_k KLeftBrace cb); [apply stmt_exprB; exact H|apply pb_reraise].
Qed.

Lemma stmt_fromB c c' : R 0 c c' -> token c = TK KFrom -> prelB (@VR stmt 0) (stmt_from c) (stmt_from c').
Proof.
  intros H T1. unfold stmt_from. simsB. cbv zeta.
  rewrite (R_is_k _ KLeftParen _ _ HR0).
  destruct (is_k KLeftParen cx) eqn:Hb.
  - dpushB. eapply (bindB (VR _)).
    + apply pb_ret.
      rewrite (SimGen.sat_from_imports (local_fuel cp) (lf2 cp cp') cp), (SimGen.sat_from_imports (local_fuel cp') (lf2 cp cp') cp');
        try (unfold lf2, SimGen.lf2, local_fuel; lia).
      apply from_importsB. exact HP.
    + xr_introB. destruct l; simsB.
  - dpushB. eapply (bindB (VR _)).
    + apply pb_ret.
      rewrite (SimGen.sat_from_imports (local_fuel cp) (lf2 cp cp') cp), (SimGen.sat_from_imports (local_fuel cp') (lf2 cp cp') cp');
        try (unfold lf2, SimGen.lf2, local_fuel; lia).
      apply from_importsB. exact HP.
    + xr_introB. destruct l; simsB.
Qed.

Lemma stmt_useB c c' : R 0 c c' -> token c = TK KUse -> prelB (@VR stmt 0) (stmt_use c) (stmt_use c').
Proof.
  intros H T1. unfold stmt_use.
  assert (H1 : R 0 (skip 1 c) (skip 1 c')) by asolve.
  pose proof (use_pathB _ _ _ H1) as UR.
  destruct (use_path (skip 1 c)) as [[[p file] c1]|ce es| |], (use_path (skip 1 c')) as [[[p' file'] c1']|ce' es'| |];
    try contradiction; cbn [ptry]; try (apply pb_ret; exact I).
  destruct UR as [UE UR]. cbn [fst snd] in UE, UR. injection UE as -> ->.
  unfold look2. cbv iota beta.
  destruct (r_nc _ _ _ UR) as (N1 & N2 & N3 & N4).
  rewrite (use_prev_ok_true p' c1 N1 N2), (use_prev_ok_true p' c1' N3 N4).
  rewrite (R_token _ _ _ UR). destruct (token c1) as [| | | | | |k|] eqn:Tk1; try (destruct (name_eqb p' [slash]); simsB).
  all: try (destruct k; try (destruct (name_eqb p' [slash]); simsB)).
  all: apply pb_ok; unfold VR; cbn [fst snd]; (split; [reflexivity|]).
  all: match goal with Tk : token (skip 1 ?x) = TIdent ?s, Tk1 : token ?x = _, UR : R 0 ?x ?y |- _ =>
         apply (R_skip2_0 x y (TIdent s)); [exact UR|rewrite Tk1; reflexivity|rewrite Tk1; reflexivity|exact Tk|reflexivity|reflexivity|discriminate] end.
Qed.

(* the `loop` arm *)
Definition LR (x x' : stmt * ctx) : Prop :=
  fst x = fst x' /\
  (R 0 (snd x) (snd x') \/
   (is_k KNewline (snd x) = true /\ is_k KNewline (snd x') = true /\ R 0 (skip 1 (snd x)) (skip 1 (snd x')))).

Lemma loop_armB c c' : R 0 c c' -> token c = TK KLoop ->
  prelB LR
    (let c1 := skip 1 c in
     let* '(cond, c2) := (if is_k KDo c1 then ok (EBool true, c1) else expression T c1) in
     let* '(body, c3) := statement c2 in
     match prev c3 with
     | Some cp => ok (SLoop cond body, if is_k KNewline cp then cp else c3)
     | None => panic
     end)
    (let c1 := skip 1 c' in
     let* '(cond, c2) := (if is_k KDo c1 then ok (EBool true, c1) else expression T c1) in
     let* '(body, c3) := statement c2 in
     match prev c3 with
     | Some cp => ok (SLoop cond body, if is_k KNewline cp then cp else c3)
     | None => panic
     end).
Proof.
  intros H T1. cbv zeta. eapply (bindB (VR 0)); [simsB|]. xr_introB.
  apply ptryB_stmt; [exact HR| |].
  - intros s c3 c3' Hc. destruct (r_nc _ _ _ Hc) as (N1 & N2 & N3 & N4).
    rewrite (prev_eq c3 N1 N2), (prev_eq c3' N3 N4).
    destruct (R_prev c3 c3' _ _ Hc (prev_eq c3 N1 N2) (prev_eq c3' N3 N4)) as (E1 & E3).
    apply pb_ok. unfold LR. cbn [fst snd]. split; [reflexivity|].
    rewrite E1. destruct (is_k KNewline (prev_spec c3)) eqn:En.
    + right. split; [exact En|split; [exact E1|apply E3; reflexivity]].
    + left. exact Hc.
  - intros. apply pb_reraise.
Qed.

Lemma LR_of_VR m m' : prelB (@VR stmt 0) m m' -> prelB LR m m'.
Proof. apply prelB_weaken. intros a a' [H1 H2]. split; [exact H1|left; exact H2]. Qed.

Lemma is_k_NL_others c : is_k KNewline c = true -> is_k KEnd c || is_k KElse c || is_k KElif c = false.
Proof.
  unfold is_k. destruct (token c) as [| | | | | |k|]; try discriminate. destruct k; try discriminate. reflexivity.
Qed.

Lemma step_stmtB c0 c0' : R 0 c0 c0' -> prelB (orelB 0) (step_stmt T c0) (step_stmt T c0').
Proof.
  intros H. unfold step_stmt.
  destruct (push_nl false c0) as [cp old] eqn:E. destruct (push_nl false c0') as [cp' old'] eqn:E'.
  destruct (R_pushE 0 false c0 c0' cp old cp' old' H (or_intror eq_refl) E E') as [HP ->].
  assert (En : nl cp = false).
  { unfold push_nl in E. injection E as <- _. rewrite SimGen.skip_nl. reflexivity. }
  clear E E'.
  apply (bindB LR).
  - unfold look3. cbv iota beta.
    replace (token cp') with (token cp) by (symmetry; apply (R_token _ _ _ HP)).
    assert (HD : prelB LR (stmt_assign_or_expr T cp) (stmt_assign_or_expr T cp'))
      by (apply LR_of_VR; apply stmt_assign_or_exprB; exact HP).
    destruct (token cp) as [nm| | | | | |k|] eqn:Tk; try exact HD.
    + assert (H1 : R 0 (skip 1 cp) (skip 1 cp')) by asolve. rewrite (R_token _ _ _ H1).
      destruct (token (skip 1 cp)) as [| | | | | |k2|] eqn:Tk2; try exact HD.
      destruct k2; first [exact HD
                         |(apply LR_of_VR; apply stmt_def_typedB; assumption)
                         |(apply LR_of_VR; apply stmt_def_impliedB; assumption)
                         |idtac].
      assert (H2 : R 0 (skip 1 (skip 1 cp)) (skip 1 (skip 1 cp'))) by asolve. rewrite (R_token _ _ _ H2).
      destruct (token (skip 1 (skip 1 cp))) as [| | | | | |k3|] eqn:Tk3;
        try (apply LR_of_VR; apply stmt_def_impliedB; assumption).
      destruct k3; first [(apply LR_of_VR; apply stmt_def_impliedB; assumption)
                         |(apply LR_of_VR; apply stmt_enumB; assumption)
                         |(apply LR_of_VR; eapply stmt_blobB; try eassumption; reflexivity)].
    + destruct k;
        first [exact HD
              |(apply LR_of_VR; apply stmt_useB; assumption)
              |(apply LR_of_VR; apply stmt_fromB; assumption)
              |apply (loop_armB cp cp' HP Tk)
              |(apply LR_of_VR; solve [simsB])
              |(apply LR_of_VR; cbv zeta; apply (ptryB (@VR expr 0)); [simsB|xr_introB; simsB|intros; simsB])].
  - intros [s c1] [s' c1'] [Hs Hc]. cbn [fst snd] in Hs, Hc. subst s'.
    apply (bindB (R 0)).
    + destruct Hc as [Hc|(N1 & N2 & Hc)].
      * rewrite (R_is_k _ KEnd _ _ Hc), (R_is_k _ KElse _ _ Hc), (R_is_k _ KElif _ _ Hc).
        destruct (is_k KEnd c1 || is_k KElse c1 || is_k KElif c1); [apply pb_ok; exact Hc|].
        apply pexpectB; [exact Hc|reflexivity|reflexivity].
      * rewrite (is_k_NL_others c1 N1), (is_k_NL_others c1' N2). unfold pexpect, expect. rewrite N1, N2.
        apply pb_ret. exact Hc.
    + intros c2 c2' Hc2. apply pb_ok. cbn [orelB]. split; [reflexivity|]. apply R_pop0. exact Hc2.
Qed.

Theorem step_relB d q q' : qrelB d q q' ->
  match q, q' with
  | QStmts _ errs c, QStmts _ errs' c' => errs = [] -> errs' = [] -> prelB (orelB d) (step T q) (step T q')
  | _, _ => prelB (orelB d) (step T q) (step T q')
  end.
Proof.
  intros H. destruct q, q'; cbn [qrelB] in H; try contradiction; cbn [step].
  - destruct H as [-> H]. apply step_precB. exact H.
  - destruct H as (-> & -> & H). apply step_loopB; assumption.
  - destruct H as [-> H]. apply step_subB; assumption.
  - destruct H as (-> & -> & H). apply step_argsB; assumption.
  - destruct H as (-> & -> & H). apply step_tupleB; assumption.
  - destruct H as [-> H]. apply step_listB; assumption.
  - destruct H as [-> H]. apply step_fieldsB; assumption.
  - destruct H as (-> & -> & H). apply step_elifsB; assumption.
  - destruct H as (-> & -> & H). apply step_casesB; assumption.
  - destruct H as (-> & -> & H). apply step_paramsB. exact H.
  - apply step_typeB. exact H.
  - destruct H as [-> H]. apply step_sep_typesB. exact H.
  - destruct H as (-> & -> & H). apply step_fnty_paramsB. exact H.
  - destruct H as (-> & -> & H). apply step_ty_tupleB. exact H.
  - intros -> ->. destruct H as [-> [(-> & _ & _ & HA)|[X _]]]; [apply step_stmtsB; exact HA|congruence].
  - destruct H as [-> H]. apply step_stmtB. exact H.
  - destruct H as (HA & -> & H). apply step_enum_itemsB; assumption.
  - destruct H as [-> H]. apply step_blob_fieldsB. exact H.
Qed.

(* ------------------------------------------------------------------------------------------- *)
(* the runs *)

Lemma go_big f q : exists F, f <= F /\ mu q < F.
Proof. exists (Nat.max f (S (mu q))). split; lia. Qed.

Lemma go_uerr f q c es : go T f q = Err c es -> UErr q es.
Proof.
  intros H. destruct q; try exact I. cbn [UErr].
  destruct (go_big f (QStmt c0)) as (F & Hf & Hm).
  pose proof (go_err_le T f F _ _ _ Hf H) as HF. pose proof (go_good T TOK F (QStmt c0) I Hm) as G.
  rewrite HF in G. apply G.
Qed.

Lemma go_doomed f acc errs c : errs <> [] ->
  go T f (QStmts acc errs c) = Fuel \/ exists ce es, go T f (QStmts acc errs c) = Err ce es.
Proof.
  intros He. destruct (go_big f (QStmts acc errs c)) as (F & Hf & Hm).
  pose proof (go_good T TOK F (QStmts acc errs c) I Hm) as G.
  destruct (go T f (QStmts acc errs c)) as [o|ce es| |] eqn:H.
  - exfalso. rewrite (go_ok_le T f F _ _ Hf H) in G. cbn [good] in G.
    destruct o; cbn [Post] in G; try contradiction. destruct G as [X _]. exact (He X).
  - right. eexists. eexists. reflexivity.
  - left. reflexivity.
  - exfalso. rewrite (go_mono_le T f F _ Hf) in G; rewrite H in *; [exact G|discriminate].
Qed.

Theorem go_relB : forall f' f d q q', qrelB d q q' -> resrelF (orelB d) (go T f q) (go T f' q').
Proof.
  induction f' as [|f' IH]; intros f d q q' H; [right; left; reflexivity|].
  destruct f as [|f]; [left; reflexivity|].
  assert (Step : prelB (orelB d) (step T q) (step T q') -> resrelF (orelB d) (go T (S f) q) (go T (S f') q')).
  { intros P. rewrite !go_S. apply (run_relF (orelB d)); [intros d0 q0 q0' H0; apply IH; exact H0| | |exact P].
    - intros q0 c0 es. apply go_uerr.
    - intros q0 c0 es. apply go_uerr. }
  pose proof (step_relB d q q' H) as SR.
  destruct q, q'; cbn [qrelB] in H; try contradiction; try (apply Step; exact SR).
  destruct H as [-> [(-> & -> & -> & HA)|[D D']]].
  - apply Step. apply SR; reflexivity.
  - destruct (go_doomed (S f) acc errs c D) as [->|(ce & es & ->)]; [left; reflexivity|].
    destruct (go_doomed (S f') acc0 errs0 c0 D') as [->|(ce' & es' & ->)]; [right; left; reflexivity|].
    right. right. exact I.
Qed.

(* ------------------------------------------------------------------------------------------- *)
(* whole files *)

Definition mrelB (r r' : res out) : Prop :=
  r = Fuel \/ r' = Fuel \/
  match r, r' with
  | Ok (RSs ss _), Ok (RSs ss' _) => ss = ss'
  | Ok _, Ok _ => False
  | Err _ _, Err _ _ => True
  | Panic, Panic => True
  | _, _ => False
  end.

Lemma go_doomed_module f acc errs last c : errs <> [] ->
  go T f (QModule acc errs last c) = Fuel \/ exists ce es, go T f (QModule acc errs last c) = Err ce es.
Proof.
  intros He. destruct (go_big f (QModule acc errs last c)) as (F & Hf & Hm).
  pose proof (go_good T TOK F (QModule acc errs last c) I Hm) as G.
  destruct (go T f (QModule acc errs last c)) as [o|ce es| |] eqn:H.
  - exfalso. rewrite (go_ok_le T f F _ _ Hf H) in G. cbn [good] in G.
    destruct o; cbn [Post] in G; try contradiction. destruct G as [X _]. exact (He X).
  - right. eexists. eexists. reflexivity.
  - left. reflexivity.
  - exfalso. rewrite (go_mono_le T f F _ Hf) in G; rewrite H in *; [exact G|discriminate].
Qed.

Lemma mrelB_doomed f f' acc acc' errs errs' last last' c c' : errs <> [] -> errs' <> [] ->
  mrelB (go T f (QModule acc errs last c)) (go T f' (QModule acc' errs' last' c')).
Proof.
  intros D D'. destruct (go_doomed_module f acc errs last c D) as [->|(ce & es & ->)]; [left; reflexivity|].
  destruct (go_doomed_module f' acc' errs' last' c' D') as [->|(ce' & es' & ->)]; [right; left; reflexivity|].
  right. right. exact I.
Qed.

Lemma in_firstn {X : Type} (x : X) : forall n l, In x (firstn n l) -> In x l.
Proof.
  induction n as [|n IH]; intros l H; [destruct H|]. destruct l as [|y l]; [destruct H|].
  cbn [firstn] in H. destruct H as [H|H]; [left; exact H|right; apply IH; exact H].
Qed.

Lemma comment_in_nocom n c : nocom (pre c) -> comment_in n c = false.
Proof.
  intros N. unfold comment_in. apply not_true_is_false. intros E. apply existsb_exists in E. destruct E as (t & Hin & Ht).
  apply in_firstn in Hin. unfold nocom in N. rewrite forallb_forall in N. specialize (N t Hin). destruct t; discriminate.
Qed.

Theorem module_relB : forall f' f acc last last' c c', R 0 c c' ->
  mrelB (go T f (QModule acc [] last c)) (go T f' (QModule acc [] last' c')).
Proof.
  induction f' as [|f' IH]; intros f acc last last' c c' H; [right; left; reflexivity|].
  destruct f as [|f]; [left; reflexivity|].
  rewrite !go_S. cbn [step]. unfold step_module. rewrite (R_token _ _ _ H).
  assert (D : mrelB
    (run (go T f) (ptry (outer_statement c) (fun '(s, c1) => call (QModule (acc ++ [s]) [] (consumed c1) c1))
                     (fun c' es => call (QModule acc ([] ++ es) last (skip_until KNewline c')))))
    (run (go T f') (ptry (outer_statement c') (fun '(s, c1) => call (QModule (acc ++ [s]) [] (consumed c1) c1))
                     (fun c' es => call (QModule acc ([] ++ es) last' (skip_until KNewline c')))))).
  { rewrite !run_ptry, !SimGen.run_outer.
    pose proof (go_relB f' f 0 (QStmt c) (QStmt c') (conj eq_refl H)) as G.
    pose proof (go_uerr f (QStmt c)) as V. pose proof (go_uerr f' (QStmt c')) as V'.
    destruct (go T f (QStmt c)) as [o|ce es| |]; [| |left; reflexivity|].
    - destruct (go T f' (QStmt c')) as [o'|ce' es'| |]; [| |right; left; reflexivity|];
        destruct G as [X|[X|X]]; try discriminate X; cbn [resrelB] in X; try contradiction.
      destruct o as [| | | | | | | | | | | | |st c1| |], o' as [| | | | | | | | | | | | |st' c1'| |];
        cbn [orelB] in X; try contradiction; try (right; right; exact I). destruct X as [<- R1].
      destruct (is_outer st).
      + rewrite !run_call. apply IH. exact R1.
      + rewrite !run_call. apply mrelB_doomed; discriminate.
    - destruct (go T f' (QStmt c')) as [o'|ce' es'| |]; [| |right; left; reflexivity|];
        destruct G as [X|[X|X]]; try discriminate X; cbn [resrelB] in X; try contradiction.
      rewrite !run_call. cbn [app]. apply mrelB_doomed; [exact (V ce es eq_refl)|exact (V' ce' es' eq_refl)].
    - destruct (go T f' (QStmt c')) as [o'|ce' es'| |]; [| |right; left; reflexivity|];
        destruct G as [X|[X|X]]; try discriminate X; cbn [resrelB] in X; try contradiction.
      right. right. exact I. }
  destruct (token c) as [| | | | | |k|] eqn:Tk; try exact D.
  - destruct k; try exact D. rewrite !run_call. apply IH. asolve.
  - right. right. cbn [run ok]. destruct (r_nc _ _ _ H) as (N1 & _ & N3 & _).
    rewrite (comment_in_nocom _ c N1), (comment_in_nocom _ c' N3). reflexivity.
Qed.

End Sim.

(* ------------------------------------------------------------------------------------------- *)
(* the statements *)

Lemma NB_nocom d l l' : NB d l l' -> nocom l -> nocom l'.
Proof.
  intros H. induction H; intros N; try exact N.
  - apply nocom_cons in N. destruct N as [Nt Nl]. apply nocom_cons. split; [exact Nt|apply IHNB; exact Nl].
  - apply nocom_cons in N. destruct N as [Nt Nl]. apply nocom_cons. split; [exact Nt|apply IHNB; exact Nl].
  - apply nocom_cons in N. destruct N as [Nt Nl]. apply nocom_cons. split; [exact Nt|apply IHNB; exact Nl].
  - apply nocom_cons in N. destruct N as [Nt Nl]. apply nocom_cons. split; [exact Nt|apply IHNB; exact Nl].
  - apply nocom_cons in N. destruct N as [_ Nl]. apply IHNB. exact Nl.
  - apply nocom_cons. split; [reflexivity|apply IHNB; exact N].
Qed.

Lemma init_R ts ts' : nocom ts -> NB 0 ts ts' -> R 0 (init ts) (init ts').
Proof.
  intros N B. constructor; cbn [init nl over pre post]; try reflexivity; try assumption.
  - lia.
  - intros X. lia.
  - repeat split; try reflexivity; [exact N|apply (NB_nocom 0 _ _ B N)].
Qed.

(* C14 line breaks inside brackets, whole files of the full language, token lists without comments: with enough
   fuel on both sides both files are accepted with the same tree, or both are rejected *)
Theorem nl_in_brackets_full_nocom T : total_ok T -> LayoutSim.bracket_sane T ->
  forall ts ts' f f', nocom ts -> NB 0 ts ts' -> parse_fuel ts <= f -> parse_fuel ts' <= f' ->
  match parse_program T f ts, parse_program T f' ts' with
  | Ok (ss, _), Ok (ss', _) => ss = ss'
  | Err _ _, Err _ _ => True
  | _, _ => False
  end.
Proof.
  intros TOK sane ts ts' f f' N HB Hf Hf'.
  pose proof (module_relB T TOK sane f' f [] 0 0 (init ts) (init ts') (init_R ts ts' N HB)) as G.
  pose proof (parse_program_total T TOK ts f Hf) as S1. pose proof (parse_program_total T TOK ts' f' Hf') as S2.
  unfold parse_program in *.
  destruct (go T f (QModule [] [] 0 (init ts))) as [o|ce es| |], (go T f' (QModule [] [] 0 (init ts'))) as [o'|ce' es'| |];
    cbn [as_Ss ParserTotal.settled] in *; try contradiction;
    destruct G as [X|[X|X]]; try discriminate X; try contradiction; try exact I;
    try (destruct o; contradiction).
  destruct o, o'; try contradiction. exact X.
Qed.

(* ... and with comments anywhere (CommentSim.v) *)
From Sylt Require Parse.CommentSim.

Lemma nocom_ec l : nocom (CommentSim.ec l).
Proof.
  unfold nocom, CommentSim.ec. apply forallb_forall. intros x Hx. apply filter_In in Hx. exact (proj2 Hx).
Qed.

Lemma ec_length l : length (CommentSim.ec l) <= length l.
Proof. unfold CommentSim.ec. induction l as [|x l IH]; [cbn; lia|]. cbn [filter]. destruct (not_comment x); cbn [length]; lia. Qed.

Theorem nl_in_brackets_full T : total_ok T -> LayoutSim.bracket_sane T ->
  forall ts ts' f f', NB 0 (CommentSim.ec ts) (CommentSim.ec ts') ->
  hd TEOF (CommentSim.ec ts) <> TEOF -> hd TEOF (CommentSim.ec ts') <> TEOF ->
  parse_fuel ts <= f -> parse_fuel ts' <= f' ->
  match parse_program T f ts, parse_program T f' ts' with
  | Ok (ss, _), Ok (ss', _) => SimGen.noempty ss = SimGen.noempty ss'
  | Err _ _, Err _ _ => True
  | _, _ => False
  end.
Proof.
  intros TOK sane ts ts' f f' HB Hne Hne' Hf Hf'.
  pose proof (CommentSim.comments_anywhere T TOK ts (CommentSim.ec ts) f (eq_sym (CommentSim.ec_idem ts)) Hne) as C1.
  pose proof (CommentSim.comments_anywhere T TOK ts' (CommentSim.ec ts') f' (eq_sym (CommentSim.ec_idem ts')) Hne') as C2.
  assert (F1 : parse_fuel (CommentSim.ec ts) <= f) by (unfold parse_fuel in *; pose proof (ec_length ts); lia).
  assert (F2 : parse_fuel (CommentSim.ec ts') <= f') by (unfold parse_fuel in *; pose proof (ec_length ts'); lia).
  pose proof (nl_in_brackets_full_nocom T TOK sane (CommentSim.ec ts) (CommentSim.ec ts') f f' (nocom_ec ts) HB F1 F2) as B.
  unfold CommentSim.prog_rel in C1, C2.
  destruct (parse_program T f ts) as [[ss c]|ce es| |], (parse_program T f (CommentSim.ec ts)) as [[ss0 c0]|ce0 es0| |];
    try contradiction;
    destruct (parse_program T f' ts') as [[ss' c']|ce' es'| |], (parse_program T f' (CommentSim.ec ts')) as [[ss0' c0']|ce0' es0'| |];
    try contradiction; try exact I.
  rewrite C1, C2, B. reflexivity.
Qed.
