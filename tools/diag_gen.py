"""Generator for C15: valid multi-file Sylt programs, insertion positions, planters for every local error
kind of the statement, and preceding-text shapes.

A program is {path: [physical lines]}; a *position* is (path, index into the line list, context) where a
new line can be inserted so that the program stays valid: context "outer" (between top-level
statements) or "inner" (between statements of a function body, not inside a loop).  A planter turns
(program, position) into (files, planted_file, planted_line, allowed_lines) for one error kind."""
import vlib

NONASCII = "ö€😀"

# ---- base programs --------------------------------------------------------------------------------


def base_program(r, nfiles):
    """Returns (files: {path: [lines]}, positions: [(path, idx, ctx)]).  Positions index the line list
    BEFORE any insertion."""
    mods = ["a", "b", "c"][:nfiles - 1]
    files = {}
    positions = []

    def add_fn(lines, pos, path, name, params, body_stmts, ret=None, tab="    "):
        sig = "%s :: fn %s%sdo" % (name, ", ".join(params) + (" " if params else ""), ("-> %s " % ret) if ret else "")
        lines.append(sig)
        for s in body_stmts:
            pos.append((path, len(lines), "inner"))
            lines.append(tab + s)
        pos.append((path, len(lines), "inner-last"))
        lines.append("end")

    for i, m in enumerate(mods):
        path = "/%s.sy" % m
        lines, pos = [], []
        pos.append((path, 0, "outer"))
        # a module may import a later module (chain) or an earlier one (cycle / diamond)
        if i + 1 < len(mods) and r.random() < 0.7:
            lines.append("use %s" % mods[i + 1])
        if i > 0 and r.random() < 0.4:
            lines.append("use %s" % mods[0])          # back edge: cycle a -> b -> a, or diamond
        pos.append((path, len(lines), "outer"))
        lines.append("k_%s :: %d" % (m, r.randint(1, 99)))
        pos.append((path, len(lines), "outer"))
        lines.append("g_%s := %d" % (m, r.randint(1, 99)))
        if r.random() < 0.7:
            pos.append((path, len(lines), "outer"))
            lines.append("B_%s :: blob {" % m)
            lines.append("    x: int,")
            lines.append("    s: str,")
            lines.append("}")
        pos.append((path, len(lines), "outer"))
        add_fn(lines, pos, path, "f_%s" % m, ["p: int"],
               ["q := p + k_%s" % m, "g_%s = q" % m, "ret q * 2"], ret="int", tab=r.choice(["    ", "\t", "  "]))
        pos.append((path, len(lines), "outer"))
        add_fn(lines, pos, path, "takes_int_%s" % m, ["v: int"], ["w := v", "w <=> v"])
        pos.append((path, len(lines), "outer-end"))
        files[path] = lines
        positions += pos

    path = "/main.sy"
    lines, pos = [], []
    pos.append((path, 0, "outer"))
    styles = []
    for m in mods:
        st = r.randrange(3)
        styles.append(st)
        if st == 0:
            lines.append("use %s" % m)
        elif st == 1:
            lines.append("use %s as n_%s" % (m, m))
        else:
            lines.append("from %s use (f_%s, takes_int_%s as ti_%s)" % (m, m, m, m))
    pos.append((path, len(lines), "outer"))
    lines.append("k_main :: %d" % r.randint(1, 99))
    pos.append((path, len(lines), "outer"))
    lines.append("g_main := \"text\"")
    pos.append((path, len(lines), "outer"))
    add_fn(lines, pos, path, "takes_int", ["v: int"], ["w := v + 1", "w <=> v + 1"])
    pos.append((path, len(lines), "outer"))
    add_fn(lines, pos, path, "helper", ["n: int"],
           ["acc := 0", "i := 0", "acc = acc + n", "ret acc + i"], ret="int")
    # positions inside an if-branch and inside a loop body of `helper` (before its `ret`)
    k = lines.index("    ret acc + i")
    block = ["    if n > 0 do", "        acc = acc + 1", "    end", "    loop i < 3 do", "        i = i + 1", "    end"]
    lines[k:k] = block
    pos[:] = [(p, (i + len(block) if i >= k else i), c) for (p, i, c) in pos]
    pos.append((path, k + 1, "inner"))          # first statement of the if-branch
    pos.append((path, k + 2, "inner"))          # end of the if-branch
    pos.append((path, k + 4, "inner-loop"))     # inside the loop
    pos.append((path, k + 5, "inner-loop"))
    pos.append((path, len(lines), "outer"))
    body = ["x := k_main + 1", "y := helper(x)"]
    for m, st in zip(mods, styles):
        if st == 0:
            body.append("z_%s := %s.f_%s(y)" % (m, m, m))
            body.append("%s.takes_int_%s(z_%s)" % (m, m, m))
        elif st == 1:
            body.append("z_%s := n_%s.f_%s(y)" % (m, m, m))
        else:
            body.append("z_%s := f_%s(y)" % (m, m))
            body.append("ti_%s(z_%s)" % (m, m))
    body.append("takes_int(y)")
    body.append("y <=> helper(x)")
    add_fn(lines, pos, path, "start", [], body)
    pos.append((path, len(lines), "outer-end"))
    files[path] = lines
    positions += pos
    return files, positions


# ---- preceding-text shapes ------------------------------------------------------------------------

SHAPES = ["plain", "nonascii-comment", "nonascii-string", "multiline-string", "blank-lines", "trailing-comment",
          "tab-indent", "crlf", "multiline-nonascii-crlf", "multiline-string-ends-with-newline", "string-of-newlines",
          "multiline-nonascii-before-newline"]


def shape_lines(shape, ctx, uid):
    """lines to insert BEFORE the planted line (valid in the given context)"""
    inner = ctx.startswith("inner")
    ind = "    " if inner else ""
    op = ":=" if inner else "::"
    if shape == "nonascii-comment":
        return [ind + "// " + NONASCII + " kommentar " + NONASCII]
    if shape == "nonascii-string":
        return [ind + "s_%d %s \"%s\" // %s" % (uid, op, NONASCII, NONASCII)]
    if shape in ("multiline-string", "multiline-nonascii-crlf"):
        return [ind + "m_%d %s \"first %s" % (uid, op, NONASCII if "nonascii" in shape else "line"),
                "second line // not a comment",
                "  third\" // after the literal"]
    if shape == "multiline-string-ends-with-newline":
        # the closing quote stands alone on the last line: the payload ends with a line break
        return [ind + "e_%d %s \"first line" % (uid, op), "second line", "\""]
    if shape == "string-of-newlines":
        return [ind + "n_%d %s \"" % (uid, op), "", "\" // only line breaks inside"]
    if shape == "multiline-nonascii-before-newline":
        # multi-byte characters before the last inner line break, a token after the literal on its last line
        return [ind + "u_%d %s (\"sm%srg%ssbord" % (uid, op, NONASCII, NONASCII), "x\", 1)"]
    if shape == "blank-lines":
        return ["", ind, ""]
    if shape == "trailing-comment":
        return [ind + "t_%d %s 1 // trailing %s" % (uid, op, NONASCII)]
    if shape == "tab-indent":
        return [("\t\t" if inner else "") + "t_%d %s 2" % (uid, op)]
    return []


def render(lines, shape):
    nl = "\r\n" if "crlf" in shape else "\n"
    return nl.join(lines) + nl


# ---- planters ---------------------------------------------------------------------------------------
# Each returns None (not applicable at this position) or dict(insert=[lines], planted_offset=k, allowed=[offsets],
# remove_end=bool, eof=bool).  Offsets are relative to the first inserted line.

def p_stray_token(r, ctx, names):
    return dict(insert=[("    " if ctx.startswith("inner") else "") + r.choice([")", "]", "}", ",", "->"])])


def p_bad_definition(r, ctx, names):
    ind = "    " if ctx.startswith("inner") else ""
    return dict(insert=[ind + r.choice(["bad_%d ::", "bad_%d :=", "bad_%d : int ="]) % r.randint(0, 9)])


def p_bad_expression(r, ctx, names):
    if not ctx.startswith("inner"):
        return dict(insert=["be_%d :: 1 +" % r.randint(0, 9)])
    return dict(insert=["    " + r.choice(["be := 1 +", "be := 1 2", "be := 1 + * 2", "be := f(1,, 2)"])])


def p_unclosed_bracket(r, ctx, names):
    """the parser can only notice at the first token that cannot continue the bracket (newlines are skipped inside
    brackets): any later line of the same file is accepted (counted separately in the evidence), line 0 is not"""
    if not ctx.startswith("inner"):
        return dict(insert=["ub_%d :: (1" % r.randint(0, 9)], later_ok=True)
    return dict(insert=["    " + r.choice(["ub := (1", "ub := [1, 2", "ub := f(1, 2"])], later_ok=True)


def p_not_outer(r, ctx, names):
    if not ctx.startswith("outer"):
        return None
    return dict(insert=[r.choice(["k_%s" % names["mod"], "1 + 1", "ret 1", "k_%s <=> 1" % names["mod"]])])


def p_unresolved(r, ctx, names):
    if ctx.startswith("inner"):
        return dict(insert=["    " + r.choice(["u_ := undefined_name_%d", "undefined_name_%d(1)", "u_ := 1 + undefined_name_%d"]) % r.randint(0, 9)])
    return dict(insert=["u_%d :: undefined_name" % r.randint(0, 9)])


def p_unresolved_qualified(r, ctx, names):
    """a name that the IMPORTED module does not have, written in the importing file: the error belongs to the file and
    line where `ns.name` is written, not to the module that was searched"""
    if not names.get("imports"):
        return None
    ns = r.choice(names["imports"])
    n = r.randint(0, 9)
    if ctx.startswith("inner"):
        return dict(insert=["    " + r.choice(["uq_ := %s.missing_name_%d", "%s.missing_fn_%d(1)", "uq_ := 1 + %s.missing_name_%d",
                                               "%s.missing_name_%d = 3"]) % (ns, n)])
    return dict(insert=["uq_%d :: %s.missing_name" % (n, ns)])


def p_unresolved_qualified_type(r, ctx, names):
    if not names.get("imports"):
        return None
    ns = r.choice(names["imports"])
    if ctx.startswith("inner"):
        return dict(insert=["    uqt_: %s.NoSuchType = 1" % ns])
    return dict(insert=["uqt_%d: %s.NoSuchType = 1" % (r.randint(0, 9), ns)])


def p_unresolved_type(r, ctx, names):
    if ctx.startswith("inner"):
        return dict(insert=["    ut_: NoSuchType = 1"])
    return dict(insert=["ut_%d: NoSuchType = 1" % r.randint(0, 9)])


def p_duplicate(r, ctx, names):
    if not ctx.startswith("outer"):
        return None
    # re-definition of a global of this file; the compiler may name either definition
    return dict(insert=["k_%s :: 7" % names["mod"]], either=names["k_line"])


def p_duplicate_from_import(r, ctx, names):
    """a from-import written over several lines whose alias collides with a global of this file: the error names the
    line of the colliding name (or the line of the file's own definition), not the line of the `from` keyword"""
    if not ctx.startswith("outer") or not names.get("imports") or names["k_line"] is None:
        return None
    m = r.choice(names["imports"])
    if r.random() < 0.5:
        ins = ["from %s use (" % m, "    k_%s as kk_%d," % (m, r.randint(0, 9)), "    // the next one collides",
               "    k_%s as k_%s," % (m, names["mod"]), ")"]
        off = 3
    else:
        ins = ["from %s use (", "", "    k_%s as k_%s", ")"]
        ins = [ins[0] % m, ins[1], ins[2] % (m, names["mod"]), ins[3]]
        off = 2
    return dict(insert=ins, planted_offset=off, either=names["k_line"])


def p_duplicate_std(r, ctx, names):
    """a user global that collides with a name the std preamble imports into every file"""
    if not ctx.startswith("outer"):
        return None
    return dict(insert=["%s :: 7" % r.choice(["print", "map", "abs", "Maybe", "set", "dict", "list", "math"])], needs_std=True)


def p_assign_constant(r, ctx, names):
    if not ctx.startswith("inner"):
        return None
    return dict(insert=["    k_%s = 3" % names["mod"]])


def p_assign_local_constant(r, ctx, names):
    if not ctx.startswith("inner"):
        return None
    return dict(insert=["    lc_ :: 1", "    lc_ = 2"], planted_offset=1)


def p_operator_mismatch(r, ctx, names):
    e = r.choice(["1 + \"a\"", "\"a\" - 1", "1 * \"b\"", "true + 1", "1 < \"a\"", "1.0 + 1"])
    if ctx.startswith("inner"):
        return dict(insert=["    om_ := " + e])
    return dict(insert=["om_%d :: %s" % (r.randint(0, 9), e)])


def p_argument_mismatch(r, ctx, names):
    if not ctx.startswith("inner"):
        return None
    return dict(insert=["    " + r.choice(["%s(\"s\")", "%s(1.5)", "%s(true)", "%s(1, 2)", "%s()"]) % names["takes_int"]])


def p_argument_mismatch_multiline(r, ctx, names):
    """the offending argument stands on a later line than the call's opening parenthesis: the error names the
    line of the argument"""
    if not ctx.startswith("inner"):
        return None
    bad = r.choice(['"s"', "1.5", "true"])
    form = r.randrange(3)
    if form == 0:
        return dict(insert=["    %s(" % names["takes_int"], "        // the argument follows", "        " + bad + ",", "    )"], planted_offset=2)
    if form == 1:
        return dict(insert=["    %s(" % names["takes_int"], "        " + bad + ")"], planted_offset=1)
    return dict(insert=["    am_ := (%s(" % names["takes_int"], "", "        " + bad, "    ), 1)"], planted_offset=2)


def p_annotation_mismatch(r, ctx, names):
    if ctx.startswith("inner"):
        return dict(insert=["    " + r.choice(["am_: int = \"s\"", "am_: str = 1", "am_: bool = 1.0", "am_: int : \"s\""])])
    return dict(insert=[r.choice(["am_%d: int = \"s\"", "am_%d: str : 1"]) % r.randint(0, 9)])


def p_break_outside(r, ctx, names):
    if not ctx.startswith("inner") or ctx == "inner-loop":
        return None
    return dict(insert=["    " + r.choice(["break", "continue"])])


def p_conflict_marker(r, ctx, names):
    return dict(insert=[r.choice(["<<<<<<< HEAD", "<<<<<<<", "<<<<<<< branch " + NONASCII])], kind="GitConflict")


def p_missing_end(r, ctx, names):
    """remove the `end` of the function that closes at this position"""
    if ctx != "inner-last":
        return None
    return dict(insert=[], remove_end=True, eof=True)


def p_control(r, ctx, names):
    """nothing planted: only the preceding-text shape; the program must still be accepted"""
    return dict(insert=[], control=True)


PLANTERS = {
    "control": p_control,
    "syntax:stray-token": p_stray_token,
    "syntax:bad-definition": p_bad_definition,
    "syntax:bad-expression": p_bad_expression,
    "syntax:unclosed-bracket": p_unclosed_bracket,
    "syntax:not-an-outer-statement": p_not_outer,
    "syntax:missing-end": p_missing_end,
    "unresolved-name": p_unresolved,
    "unresolved-type": p_unresolved_type,
    "unresolved-qualified-name": p_unresolved_qualified,
    "unresolved-qualified-type": p_unresolved_qualified_type,
    "duplicate-global": p_duplicate,
    "duplicate-global-vs-std": p_duplicate_std,
    "duplicate-from-import-multiline": p_duplicate_from_import,
    "assign-to-constant": p_assign_constant,
    "assign-to-local-constant": p_assign_local_constant,
    "operator-mismatch": p_operator_mismatch,
    "argument-mismatch": p_argument_mismatch,
    "argument-mismatch-multiline": p_argument_mismatch_multiline,
    "annotation-mismatch": p_annotation_mismatch,
    "break-outside-loop": p_break_outside,
    "conflict-marker": p_conflict_marker,
}

EXPECT_KIND = {
    "syntax": "Syntax", "conflict-marker": "GitConflict",
}


def plant(r, files, pos, kind, shape, uid):
    """-> dict(files={path: text}, file, line, allowed_lines, kind, shape, needs_std, eof) or None"""
    path, idx, ctx = pos
    lines = list(files[path])
    mod = path[1:-3]
    k_line = None
    for i, l in enumerate(lines):
        if l.startswith("k_%s ::" % mod):
            k_line = i
    names = {"mod": mod, "takes_int": "takes_int" if mod == "main" else "takes_int_%s" % mod, "k_line": k_line,
             "imports": [l.split()[1] for l in lines if l.startswith("use ") and len(l.split()) == 2]}
    p = PLANTERS[kind](r, ctx, names)
    if p is None:
        return None
    pre = shape_lines(shape, ctx, uid)
    if p.get("remove_end"):
        assert lines[idx] == "end"
        new = lines[:idx] + pre + lines[idx + 1:]
        planted = idx + len(pre)          # 0-based index of the line where `end` should have been
        allowed = None
    else:
        ins = p["insert"]
        new = lines[:idx] + pre + ins + lines[idx:]
        planted = idx + len(pre) + p.get("planted_offset", 0)
        allowed = [planted + 1]
        if p.get("either") is not None:
            e = p["either"]
            allowed.append((e if e < idx else e + len(pre) + len(ins)) + 1)
    out = {q: render(ls, "plain") for q, ls in files.items()}
    out[path] = render(new, shape)
    return dict(files=out, file=path, line=planted + 1, allowed_lines=allowed, kind=kind, shape=shape, ctx=ctx,
                later_ok=bool(p.get("later_ok")),
                needs_std=bool(p.get("needs_std")), eof=bool(p.get("eof")), nlines=len(new),
                want_kind=p.get("kind") or ("Syntax" if kind.startswith("syntax") else None))


def case_line(files, std):
    return "%s\t%s\t%s" % ("std" if std else "nostd", "/main.sy",
                           "\t".join("%s=%s" % (p, vlib.hexs(s)) for p, s in sorted(files.items())))
