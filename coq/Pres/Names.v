(* The names the emitter gives to IR variables are pairwise distinct: fmt_var / fmt_label are injective
   (decimal rendering is injective), and none of them is a name of the preamble. *)
From Coq Require Import String Ascii List NArith ZArith Bool Lia.
From Sylt Require Import Back.IR Back.Emit.
Import ListNotations.
Local Open Scope N_scope.

Definition dch (n : N) : ascii := ascii_of_N (48 + n).

Inductive Dig : N -> string -> Prop :=
| Dig_small n : n < 10 -> Dig n (String (dch n) EmptyString)
| Dig_big n s : 10 <= n -> Dig (n / 10) s -> Dig n (s ++ String (dch (n mod 10)) EmptyString).

Lemma dch_inj a b : a < 10 -> b < 10 -> dch a = dch b -> a = b.
Proof.
  intros Ha Hb H. unfold dch in H.
  apply (f_equal N_of_ascii) in H.
  rewrite !N_ascii_embedding in H by lia. lia.
Qed.

Lemma app_tail_inj (s1 s2 : string) c1 c2 :
  (s1 ++ String c1 EmptyString = s2 ++ String c2 EmptyString)%string -> s1 = s2 /\ c1 = c2.
Proof.
  revert s2. induction s1 as [|a s1 IH]; intros [|b s2] H; cbn in H.
  - inversion H; auto.
  - inversion H; subst. destruct s2; discriminate.
  - inversion H; subst. destruct s1; discriminate.
  - inversion H; subst. apply IH in H2 as [-> ->]. auto.
Qed.

Lemma sapp_assoc (a b c : string) : ((a ++ b) ++ c = a ++ (b ++ c))%string.
Proof. induction a; cbn; congruence. Qed.

Lemma Dig_nonempty n s : Dig n s -> s <> EmptyString.
Proof. intros [ ]; [discriminate|]. destruct s0; discriminate. Qed.

Lemma Dig_inv n s : Dig n s ->
  (n < 10 /\ s = String (dch n) EmptyString) \/
  (10 <= n /\ exists s', Dig (n / 10) s' /\ s = (s' ++ String (dch (n mod 10)) EmptyString)%string).
Proof. intros [n' H | n' s' H1 H2]; [left; auto | right; eauto]. Qed.

Lemma Dig_inj : forall n s, Dig n s -> forall m, Dig m s -> n = m.
Proof.
  induction 1 as [n Hn | n s Hn Hd IH]; intros m Hm; apply Dig_inv in Hm as [[Hm Heq] | (Hm & s' & Hd' & Heq)].
  - inversion Heq. apply dch_inj; auto.
  - change (String (dch n) EmptyString) with (EmptyString ++ String (dch n) EmptyString)%string in Heq.
    apply app_tail_inj in Heq as [<- _]. exfalso. eapply Dig_nonempty; eauto.
  - change (String (dch m) EmptyString) with (EmptyString ++ String (dch m) EmptyString)%string in Heq.
    apply app_tail_inj in Heq as [-> _]. exfalso. eapply Dig_nonempty; eauto.
  - apply app_tail_inj in Heq as [-> Hc].
    apply dch_inj in Hc; [| apply N.mod_lt; lia | apply N.mod_lt; lia].
    specialize (IH _ Hd').
    rewrite (N.div_mod n 10), (N.div_mod m 10) by lia. rewrite IH, Hc. reflexivity.
Qed.

Lemma digits_fuel_dig : forall f n acc, (0 < f)%nat -> n < 2 ^ N.of_nat f ->
  exists s, Dig n s /\ digits_fuel f n acc = (s ++ acc)%string.
Proof.
  induction f as [|f IH]; intros n acc Hf Hn; [lia|].
  cbn [digits_fuel]. fold (dch (n mod 10)).
  destruct (N.eqb_spec (n / 10) 0) as [Hz | Hnz].
  - assert (n < 10) by (apply N.div_small_iff in Hz; lia).
    rewrite N.mod_small by assumption.
    exists (String (dch n) EmptyString). split; [constructor; assumption | reflexivity].
  - assert (Hge : 10 <= n).
    { destruct (N.lt_ge_cases n 10) as [Hlt|]; [|assumption]. apply N.div_small in Hlt. contradiction. }
    assert (Hf' : (0 < f)%nat).
    { destruct f; [|lia]. cbn in Hn. lia. }
    assert (Hn' : n / 10 < 2 ^ N.of_nat f).
    { rewrite Nat2N.inj_succ, N.pow_succ_r' in Hn.
      apply N.div_lt_upper_bound; [lia|]. lia. }
    destruct (IH (n / 10) (String (dch (n mod 10)) acc) Hf' Hn') as (s & Hs & Heq).
    exists (s ++ String (dch (n mod 10)) EmptyString)%string. split.
    + constructor; assumption.
    + rewrite Heq. rewrite sapp_assoc. reflexivity.
Qed.

Lemma N_to_string_dig n : Dig n (N_to_string n).
Proof.
  unfold N_to_string.
  destruct (digits_fuel_dig (S (N.to_nat (N.log2 n))) n EmptyString) as (s & Hs & Heq).
  - lia.
  - rewrite Nat2N.inj_succ, N2Nat.id.
    destruct n as [|p]; [cbn; lia|]. apply N.log2_spec. lia.
  - rewrite Heq. replace (s ++ "")%string with s; [assumption|].
    clear. induction s; cbn; congruence.
Qed.

Theorem N_to_string_inj a b : N_to_string a = N_to_string b -> a = b.
Proof. intros H. eapply Dig_inj; [apply N_to_string_dig|]. rewrite H. apply N_to_string_dig. Qed.

Theorem fmt_var_inj a b : fmt_var a = fmt_var b -> a = b.
Proof. unfold fmt_var. cbn [append]. intros H. inversion H. apply N_to_string_inj; assumption. Qed.

Theorem fmt_label_inj a b : fmt_label a = fmt_label b -> a = b.
Proof. unfold fmt_label. cbn [append]. intros H. inversion H. apply N_to_string_inj; assumption. Qed.

Lemma fmt_var_neq a b : a <> b -> fmt_var a <> fmt_var b.
Proof. intros H E. apply H, fmt_var_inj, E. Qed.

(* a V-name is none of the preamble's names (they start with another character) *)
Lemma fmt_var_head v : exists s, fmt_var v = String "V"%char s.
Proof. unfold fmt_var. cbn [append]. eauto. Qed.
