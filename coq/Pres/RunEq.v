(* the reference run of a stage-3a program: print, the global definitions, start, the call of start *)
From Coq Require Import String Ascii List NArith ZArith Bool Lia.
From Sylt Require Import Syntax.Resolved.
From Sylt Require Sem.Values Sem.Runtime Sem.SyltSem.
From Sylt Require Import Back.IR.
From Sylt Require Import Pres.Frag.
Import ListNotations.
Local Open Scope N_scope.

Lemma split_last_app {A} (l : list A) i y : split_last l = Some (i, y) -> l = i ++ [y].
Proof.
  revert i y. induction l as [|x t IH]; intros i y H; [discriminate|]. cbn [split_last] in H.
  destruct (split_last t) as [[i' y']|] eqn:E.
  - inversion H; subst. rewrite (IH i' y eq_refl). reflexivity.
  - inversion H; subst. destruct t as [|x' t']; [reflexivity|]. cbn [split_last] in E.
    destruct (split_last t') as [[? ?]|]; discriminate.
Qed.

Lemma set_nth_last {A} (l : list A) x y : SyltSem.set_nth (length l) x (l ++ [y]) = l ++ [x].
Proof. induction l as [|h t IH]; cbn; [reflexivity | rewrite IH; reflexivity]. Qed.

Lemma nth_error_last {A} (l : list A) x : nth_error (l ++ [x]) (length l) = Some x.
Proof. rewrite nth_error_app2 by lia. rewrite Nat.sub_diag. reflexivity. Qed.

Lemma run_outer_app n : forall a e b st,
  SyltSem.run_outer n e (a ++ b) st =
  match SyltSem.run_outer n e a st with
  | (SyltSem.RVal e', st') => SyltSem.run_outer n e' b st'
  | (SyltSem.RStop o, st') => (SyltSem.RStop o, st')
  | (SyltSem.RAbrupt c, st') => (SyltSem.RAbrupt c, st')
  end.
Proof.
  induction a as [|s a IH]; intros e b st; [reflexivity|].
  destruct s; cbn [app SyltSem.run_outer]; try apply IH.
  unfold SyltSem.bind. destruct (SyltSem.exec n e (SDefinition name var kind t value sp) st) as [[e1|o|c] st1]; [apply IH | reflexivity | reflexivity].
Qed.

(* the state after the definition of a function (start: no parameters) *)
Definition def_env (fv : N) (eg : SyltSem.env) (stg : SyltSem.state) : SyltSem.env := (fv, length (SyltSem.cells stg)) :: eg.
Definition def_state (fv : N) (ps : list N) (body : list stmt) (eg : SyltSem.env) (stg : SyltSem.state) : SyltSem.state :=
  SyltSem.mkState (SyltSem.cells stg ++ [SyltSem.SClos (length (SyltSem.clos stg))]) (SyltSem.blobs stg)
                  (SyltSem.clos stg ++ [SyltSem.mkClos ps body (def_env fv eg stg)]) (SyltSem.trace stg).
Definition start_env := def_env.
Definition start_state (sv : N) (body : list stmt) := def_state sv [] body.

Lemma exec_def_fun f nm fv kd t fname params ret body pure fsp dsp e st :
  SyltSem.exec (S (S f)) e (SDefinition nm fv kd t (EFunction fname params ret body pure fsp) dsp) st =
  (SyltSem.RVal (def_env fv e st), def_state fv (param_ids params) body e st).
Proof.
  cbn [SyltSem.exec SyltSem.eval]. unfold SyltSem.bind, SyltSem.new_cell, SyltSem.new_clos, SyltSem.write_cell, SyltSem.ret.
  cbn [SyltSem.cells SyltSem.clos SyltSem.blobs SyltSem.trace]. rewrite set_nth_last. reflexivity.
Qed.

Definition print_state : SyltSem.state := SyltSem.mkState [SyltSem.SExt "print"] [] [] [].

(* the run of a program: print, the outer definitions, then the call of start *)
Lemma run_items_eq n r pv kd t sp items s :
  r_stmts r = SExternalDefinition "print" pv kd t sp :: items ->
  IR.find_start (Resolved.r_vars r) = Some s ->
  SyltSem.run n r =
  match SyltSem.run_outer n [(pv, 0%nat)] items print_state with
  | (SyltSem.RVal eg, stg) =>
      match SyltSem.lookup eg s with
      | None => SyltSem.mkRun (rev (SyltSem.trace stg)) (SyltSem.OStuck "no start")
      | Some c =>
          match SyltSem.bind (SyltSem.read_cell c) (fun fv => SyltSem.apply n fv []) stg with
          | (SyltSem.RVal _, st) => SyltSem.mkRun (rev (SyltSem.trace st)) SyltSem.ODone
          | (SyltSem.RStop o, st) => SyltSem.mkRun (rev (SyltSem.trace st)) o
          | (SyltSem.RAbrupt _, st) => SyltSem.mkRun (rev (SyltSem.trace st)) (SyltSem.OStuck "ret/break/continue at top level")
          end
      end
  | (SyltSem.RStop o, stg) => SyltSem.mkRun (rev (SyltSem.trace stg)) o
  | (SyltSem.RAbrupt _, stg) => SyltSem.mkRun (rev (SyltSem.trace stg)) (SyltSem.OStuck "ret/break/continue at top level")
  end.
Proof.
  intros Hstmts Hstart. unfold SyltSem.run. rewrite Hstmts.
  change (SyltSem.find_start (Resolved.r_vars r)) with (IR.find_start (Resolved.r_vars r)). rewrite Hstart.
  unfold SyltSem.bind at 1.
  change (SyltSem.run_outer n [] (SExternalDefinition "print" pv kd t sp :: items) (SyltSem.mkState [] [] [] []))
    with (SyltSem.run_outer n [(pv, 0%nat)] items print_state).
  destruct (SyltSem.run_outer n [(pv, 0%nat)] items print_state) as [[eg|o|c] stg]; [|reflexivity|reflexivity].
  destruct (SyltSem.lookup eg s) as [c|]; reflexivity.
Qed.

(* with fuel 1 nothing gets past the first definition *)
Lemma run_outer_fuel1 : forall gs e st, forallb is_def gs = true -> gs <> [] ->
  exists st', SyltSem.run_outer 1 e gs st = (SyltSem.RStop SyltSem.OFuel, st').
Proof.
  intros [|s gs] e st Hp Hne; [contradiction|].
  cbn [forallb] in Hp. apply andb_prop in Hp as [Hs Hp]. destruct s; try discriminate Hs.
  eexists. cbn. reflexivity.
Qed.

Lemma run_fuel1 r pv kd t sp items s :
  r_stmts r = SExternalDefinition "print" pv kd t sp :: items ->
  IR.find_start (Resolved.r_vars r) = Some s -> forallb is_def items = true -> items <> [] ->
  SyltSem.r_final (SyltSem.run 1 r) = SyltSem.OFuel.
Proof.
  intros Hstmts Hstart Hp Hne. rewrite (run_items_eq 1 r pv kd t sp items s Hstmts Hstart).
  destruct (run_outer_fuel1 items [(pv, 0%nat)] print_state Hp Hne) as [st' ->]. reflexivity.
Qed.

(* the outer statements never stop with ODone either *)
From Sylt Require Pres.SemSane.
Lemma run_outer_not_done n : forall gs e st st', SyltSem.run_outer n e gs st <> (SyltSem.RStop SyltSem.ODone, st').
Proof.
  assert (H : forall gs e st, SemSane.Q (SyltSem.run_outer n e gs st)).
  { induction gs as [|s gs IH]; intros e st; [exact I|].
    destruct s; cbn [SyltSem.run_outer]; try apply IH.
    apply SemSane.Q_bind; [apply (SemSane.s_exec _ (SemSane.sane_all n)) | intros; apply IH]. }
  intros gs e st st' Heq. pose proof (H gs e st) as Hq. rewrite Heq in Hq. exact Hq.
Qed.
