(* Correctness of derivatives w.r.t. the declarative matching relation. *)
From Coq Require Import List NArith Bool Lia.
From Sylt Require Import Lex.Regex.
Import ListNotations.

Inductive matches : re -> list N -> Prop :=
| MEps : matches REps []
| MSet neg rs c : set_mem neg rs c = true -> matches (RSet neg rs) [c]
| MCat a b s1 s2 : matches a s1 -> matches b s2 -> matches (RCat a b) (s1 ++ s2)
| MAltL a b s : matches a s -> matches (RAlt a b) s
| MAltR a b s : matches b s -> matches (RAlt a b) s
| MStar0 a : matches (RStar a) []
| MStarS a s1 s2 : matches a s1 -> matches (RStar a) s2 -> matches (RStar a) (s1 ++ s2).

Lemma no_match_none s : ~ matches RNone s.
Proof. intros H; inversion H. Qed.

Lemma is_none_no_match r s : is_none r = true -> ~ matches r s.
Proof. destruct r; cbn; try discriminate. intros _; apply no_match_none. Qed.

Lemma cat_inv a b s : matches (RCat a b) s ->
  exists s1 s2, s = s1 ++ s2 /\ matches a s1 /\ matches b s2.
Proof. intros H; inversion H; subst; eauto. Qed.

Lemma alt_inv a b s : matches (RAlt a b) s -> matches a s \/ matches b s.
Proof. intros H; inversion H; subst; auto. Qed.

Lemma eps_inv s : matches REps s -> s = [].
Proof. intros H; inversion H; reflexivity. Qed.

Lemma set_inv neg rs s : matches (RSet neg rs) s -> exists c, s = [c] /\ set_mem neg rs c = true.
Proof. intros H; inversion H; subst; eauto. Qed.

Lemma nullable_correct r : nullable r = true <-> matches r [].
Proof.
  induction r as [| |neg rs|a IHa b IHb|a IHa b IHb|a IHa]; cbn.
  - split; [discriminate|intros H; inversion H].
  - split; [constructor|reflexivity].
  - split; [discriminate|intros H; inversion H].
  - rewrite andb_true_iff, IHa, IHb. split.
    + intros [H1 H2]. change (@nil N) with (@nil N ++ []). constructor; assumption.
    + intros H. apply cat_inv in H as (s1 & s2 & E & H1 & H2).
      symmetry in E. apply app_eq_nil in E as [-> ->]. split; assumption.
  - rewrite orb_true_iff, IHa, IHb. split.
    + intros [H|H]; [apply MAltL|apply MAltR]; assumption.
    + apply alt_inv.
  - split; [constructor|reflexivity].
Qed.

Lemma cat_correct a b s : matches (cat a b) s <-> matches (RCat a b) s.
Proof.
  split.
  - intros H. destruct a, b; cbn in H; try exact H; try (exfalso; eapply no_match_none; eassumption);
      try (rewrite <- (app_nil_l s); constructor; [constructor|exact H]);
      try (rewrite <- (app_nil_r s); constructor; [exact H|constructor]).
  - intros H. apply cat_inv in H as (s1 & s2 & -> & H1 & H2).
    destruct a, b; cbn; try (constructor; assumption);
      try (exfalso; eapply no_match_none; eassumption);
      try (apply eps_inv in H1; subst; cbn; assumption);
      try (apply eps_inv in H2; subst; rewrite app_nil_r; assumption).
Qed.

Lemma alt_correct a b s : matches (alt a b) s <-> matches (RAlt a b) s.
Proof.
  split.
  - intros H. destruct a, b; cbn in H; try exact H;
      try (apply MAltR; exact H); try (apply MAltL; exact H).
  - intros H. apply alt_inv in H as [H|H]; destruct a, b; cbn;
      try (apply MAltL; assumption); try (apply MAltR; assumption); try assumption;
      try (exfalso; eapply no_match_none; eassumption).
Qed.

Lemma star_cons_inv a c s :
  matches (RStar a) (c :: s) ->
  exists s1 s2, s = s1 ++ s2 /\ matches a (c :: s1) /\ matches (RStar a) s2.
Proof.
  intros H. remember (RStar a) as r eqn:Er. remember (c :: s) as cs eqn:Ec.
  revert c s Ec. induction H as [| | | | | |a' s1 s2 H1 _ H2 IH2]; intros c0 s0 Ec; try discriminate.
  inversion Er; subst a'. destruct s1 as [|x s1].
  - cbn in Ec. apply IH2; [reflexivity|exact Ec].
  - cbn in Ec. inversion Ec; subst. exists s1, s2. auto.
Qed.

Lemma deriv_correct c r : forall s, matches (deriv c r) s <-> matches r (c :: s).
Proof.
  induction r as [| |neg rs|a IHa b IHb|a IHa b IHb|a IHa]; intros s; cbn [deriv].
  - split; intros H; inversion H.
  - split; intros H; inversion H.
  - destruct (set_mem neg rs c) eqn:E; split; intros H.
    + apply eps_inv in H; subst. constructor; exact E.
    + apply set_inv in H as (c' & Ec & _). inversion Ec; subst. constructor.
    + inversion H.
    + apply set_inv in H as (c' & Ec & Hm). inversion Ec; subst. congruence.
  - destruct (nullable a) eqn:Na.
    + rewrite alt_correct. split.
      * intros H. apply alt_inv in H as [H|H].
        -- apply cat_correct in H. apply cat_inv in H as (s1 & s2 & -> & H1 & H2).
           change (c :: s1 ++ s2) with ((c :: s1) ++ s2). constructor; [apply IHa|]; assumption.
        -- change (c :: s) with ([] ++ c :: s). constructor; [apply nullable_correct; exact Na|apply IHb; assumption].
      * intros H. apply cat_inv in H as (s1 & s2 & E & H1 & H2).
        destruct s1 as [|x s1]; cbn in E.
        -- apply MAltR. apply IHb. rewrite E. assumption.
        -- inversion E; subst. apply MAltL. apply cat_correct. constructor; [apply IHa|]; assumption.
    + rewrite cat_correct. split.
      * intros H. apply cat_inv in H as (s1 & s2 & -> & H1 & H2).
        change (c :: s1 ++ s2) with ((c :: s1) ++ s2). constructor; [apply IHa|]; assumption.
      * intros H. apply cat_inv in H as (s1 & s2 & E & H1 & H2).
        destruct s1 as [|x s1]; cbn in E.
        -- apply nullable_correct in H1. congruence.
        -- inversion E; subst. constructor; [apply IHa|]; assumption.
  - rewrite alt_correct. split.
    + intros H; apply alt_inv in H as [H|H]; [apply MAltL; apply IHa|apply MAltR; apply IHb]; assumption.
    + intros H; apply alt_inv in H as [H|H]; [apply MAltL; apply IHa|apply MAltR; apply IHb]; assumption.
  - rewrite cat_correct. split.
    + intros H. apply cat_inv in H as (s1 & s2 & -> & H1 & H2).
      change (c :: s1 ++ s2) with ((c :: s1) ++ s2). constructor; [apply IHa|]; assumption.
    + intros H. apply star_cons_inv in H as (s1 & s2 & -> & H1 & H2).
      constructor; [apply IHa|]; assumption.
Qed.

Lemma derivs_correct s : forall r s', matches (derivs s r) s' <-> matches r (s ++ s').
Proof.
  induction s as [|c s IH]; intros r s'; cbn; [reflexivity|].
  rewrite IH. apply deriv_correct.
Qed.

Lemma derivs_app s1 s2 r : derivs (s1 ++ s2) r = derivs s2 (derivs s1 r).
Proof. revert r; induction s1 as [|c s1 IH]; intros r; cbn; [reflexivity|apply IH]. Qed.

Lemma derivs_none s : derivs s RNone = RNone.
Proof. induction s as [|c s IH]; cbn; [reflexivity|exact IH]. Qed.

Theorem re_match_correct r s : re_match r s = true <-> matches r s.
Proof.
  unfold re_match. rewrite nullable_correct, derivs_correct, app_nil_r. reflexivity.
Qed.

(* a dead derivative kills every extension *)
Lemma derivs_dead pre r : is_none (derivs pre r) = true -> forall s, ~ matches r (pre ++ s).
Proof.
  intros H s M. apply derivs_correct in M. eapply is_none_no_match; eassumption.
Qed.

(* character-set containment: every string matched by r uses only characters satisfying P *)
Fixpoint chars_in (P : N -> bool) (r : re) : bool :=
  match r with
  | RNone | REps => true
  | RSet neg rs => negb neg && forallb (fun ab => (fst ab =? snd ab)%N && P (fst ab)) rs
  | RCat a b | RAlt a b => chars_in P a && chars_in P b
  | RStar a => chars_in P a
  end.

Lemma chars_in_sound P r s : chars_in P r = true -> matches r s -> Forall (fun c => P c = true) s.
Proof.
  intros C M. induction M; cbn in C.
  - constructor.
  - constructor; [|constructor]. apply andb_true_iff in C as [Hn Hf].
    destruct neg; [discriminate|]. unfold set_mem in H. rewrite xorb_false_l in H.
    unfold in_ranges in H. apply existsb_exists in H as (ab & Hin & Hr).
    rewrite forallb_forall in Hf. specialize (Hf ab Hin).
    apply andb_true_iff in Hf as [He Hp]. apply andb_true_iff in Hr as [H1 H2].
    apply N.eqb_eq in He. apply N.leb_le in H1, H2.
    assert (c = fst ab) by lia. subst c. exact Hp.
  - apply andb_true_iff in C as [Ca Cb]. apply Forall_app; split; auto.
  - apply andb_true_iff in C as [Ca Cb]; auto.
  - apply andb_true_iff in C as [Ca Cb]; auto.
  - constructor.
  - apply Forall_app; split; auto.
Qed.
