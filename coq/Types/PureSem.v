(* C04, the positive direction of the purity rules, as a semantic statement.
   A block of the E1 fragment (SoundE1: local definitions, assignments, reads, the E0 expressions) that the type checker
   ACCEPTS in a TypeCtx with inside_pure (the body of a `pu` function, and everything nested in it) contains no
   assignment, no mutable definition, and reads only variables of kind Const (by inversion of the checker: these are
   exactly the three rules of Purity.v).  Hence its evaluation (the tagged evaluator with a store of SoundE1)
     - leaves the store it was started in untouched: the final store is the initial one with the block's own constants
       pushed on top, no existing binding is updated;
     - depends on the constants only: started in two stores that agree on the variables of kind Const, it gives the same
       result. *)
From Coq Require Import String List NArith ZArith PArith Bool Lia FMapPositive.
From Sylt Require Import Syntax.Resolved Types.TyGraph Types.Tc Types.TcInv Types.Reject Types.Purity Types.SoundE0 Types.SoundE1.
Import ListNotations.
Local Open Scope tc_scope.

(* ------------------------------------------------------------------ what a pure block looks like *)
Section Syntactic.
  Variable kinds : PositiveMap.t varkind.

  Definition const_var (x : N) : bool :=
    match PositiveMap.find (N.succ_pos x) kinds with Some Const => true | _ => false end.

  Fixpoint reads_const (e : e1) : bool :=
    match e with
    | Bin1 _ a b => reads_const a && reads_const b
    | Un1 _ a => reads_const a
    | If1 c a b => reads_const c && reads_const a && reads_const b
    | R1 x => const_var x
    | _ => true
    end.

  Definition pure_stmt1 (st : s1) : bool :=
    match st with
    | D1 _ Const _ e => reads_const e
    | D1 _ Mutable _ _ => false
    | A1 _ _ => false
    | X1 e => reads_const e
    end.

  Definition pure_block1 (ss : list s1) (e : e1) : bool := forallb pure_stmt1 ss && reads_const e.
End Syntactic.

(* ------------------------------------------------------------------ inversion of the checker *)
Section Checked.
  Variable kinds : PositiveMap.t varkind.
  Variable g : nat.
  Notation G := (gfix g).
  Notation afix := (afix kinds G).

  (* the checker has accepted e in the TypeCtx ctx, in some state, with some fuel *)
  Definition checked (e : expr) (ctx : tctx) : Prop := exists f s r s', r_expr (afix f) e ctx s = Ok (r, s').
  Definition checked_s (st : stmt) (ctx : tctx) : Prop := exists f s r s', r_stmt (afix f) st ctx s = Ok (r, s').

  Lemma checked_bin op a b sp ctx : checked (EBinOp op a b sp) ctx -> checked a ctx /\ checked b ctx.
  Proof.
    intros (f & s & r & s' & H). destruct f as [|f]; [discriminate|]. apply (expr_inv kinds g) in H. unfold expr_body in H.
    apply bind_inv in H as ([er ex] & s1 & H1 & _).
    assert (X : (exists s0 r0 s2, r_expr (afix f) a ctx s0 = Ok (r0, s2)) /\ (exists s0 r0 s2, r_expr (afix f) b ctx s0 = Ok (r0, s2))).
    { destruct op; try discriminate H1;
        try (progress unfold bin_op_ret in H1; apply bind_inv in H1 as ([r0 x0] & s2 & H1 & _)); unfold bin_op in H1;
        apply bind_inv in H1 as ([ar x] & sa & Ha & H1); apply bind_inv in H1 as ([br y] & sb & Hb & _); eauto 8. }
    destruct X as [(s0 & r0 & s2 & Ha) (s0' & r0' & s2' & Hb)]. split; exists f; eauto.
  Qed.

  Lemma checked_un op a sp ctx : checked (EUniOp op a sp) ctx -> checked a ctx.
  Proof.
    intros (f & s & r & s' & H). destruct f as [|f]; [discriminate|]. apply (expr_inv kinds g) in H. unfold expr_body in H.
    apply bind_inv in H as ([er ex] & s1 & H1 & _).
    destruct op; apply bind_inv in H1 as ([ar x] & sa & Ha & _); exists f; eauto.
  Qed.

  Lemma checked_single_block R a sp sp1 ctx s r s' :
    expression_block G R sp [SStatementExpression a sp1] ctx s = Ok (r, s') -> exists s0 r0 s1, r_expr R a ctx s0 = Ok (r0, s1).
  Proof.
    intros H. unfold expression_block in H. cbn [block_split fst snd foldM] in H.
    apply bind_inv in H as (r1 & s1 & _ & H). apply bind_inv in H as ([vret v] & s2 & He & _). eauto.
  Qed.

  Lemma checked_if c a b sp ctx :
    checked (EIf [IfBranch (Some c) [SStatementExpression a sp] sp; IfBranch None [SStatementExpression b sp] sp] sp) ctx ->
    checked c ctx /\ checked a ctx /\ checked b ctx.
  Proof.
    intros (f & s & r & s' & H). destruct f as [|f]; [discriminate|]. apply (expr_inv kinds g) in H. unfold expr_body in H.
    apply bind_inv in H as ([er ex] & s1 & H1 & _). cbv beta iota in H1.
    apply bind_inv in H1 as (tys & s2 & Hm & _). cbn [mapM] in Hm.
    apply bind_inv in Hm as ([r1 v1] & s3 & Hb1 & Hm). unfold if_branch in Hb1.
    apply bind_inv in Hb1 as (cret & s4 & Hc & Hb1).
    apply bind_inv in Hc as ([cr ct] & s5 & Hce & _).
    apply bind_inv in Hb1 as ([bret bval] & s8 & Hblk & _). apply checked_single_block in Hblk as (sa & ra & sa' & Ha).
    apply bind_inv in Hm as (tys' & s9 & Hm & _).
    apply bind_inv in Hm as ([r2 v2] & s10 & Hb2 & _). unfold if_branch in Hb2.
    apply bind_inv in Hb2 as (cret2 & s11 & _ & Hb2).
    apply bind_inv in Hb2 as ([bret2 bval2] & s12 & Hblk2 & _). apply checked_single_block in Hblk2 as (sb & rb & sb' & Hb).
    split; [|split]; exists f; eauto.
  Qed.

  (* in a pure context only constants are read: Purity.pure_read_mut_local, read backwards *)
  Lemma checked_read_pure x sp ctx : inside_pure ctx = true -> checked (ERead x sp) ctx -> const_var kinds x = true.
  Proof.
    intros P (f & s & r & s' & H). unfold const_var.
    destruct (PositiveMap.find (N.succ_pos x) kinds) as [[]|] eqn:E; [reflexivity| |];
      exfalso; eapply (pure_read_mut_local kinds G x sp f ctx s P); [congruence|exact H|congruence|exact H].
  Qed.

  Lemma checked_reads_const sp ctx : inside_pure ctx = true ->
    forall e, checked (to_expr1 sp e) ctx -> reads_const kinds e = true.
  Proof.
    intros P. induction e as [z|x|s|b|op a IHa b IHb|op a IHa|c IHc a IHa b IHb|x]; intros H; cbn [to_expr1 reads_const] in *;
      try reflexivity.
    - apply checked_bin in H as [Ha Hb]. rewrite (IHa Ha), (IHb Hb). reflexivity.
    - apply checked_un in H. auto.
    - apply checked_if in H as (Hc & Ha & Hb). rewrite (IHc Hc), (IHa Ha), (IHb Hb). reflexivity.
    - eapply checked_read_pure; eassumption.
  Qed.

  (* statements *)
  Lemma checked_stmt_pure sp ctx st : inside_pure ctx = true -> checked_s (to_stmt1 sp st) ctx -> pure_stmt1 kinds st = true.
  Proof.
    intros P (f & s & r & s' & H). destruct st as [x k annot e|x e|e]; cbn [pure_stmt1].
    - assert (K : k = Const).
      { destruct k; [reflexivity|]. exfalso.
        destruct annot; cbn [to_stmt1] in H; eapply (pure_mutdef_local kinds G); eassumption. }
      subst k. apply (checked_reads_const sp ctx P).
      destruct f as [|f]; [discriminate|].
      assert (D : exists t, definition kinds G (afix f) x Const t (to_expr1 sp e) sp ctx s = Ok (r, s'))
        by (destruct annot; cbn [to_stmt1] in H; eexists; exact H).
      destruct D as [t D]. unfold definition in D. rewrite P in D. cbn [immutable negb andb] in D.
      apply bind_inv in D as (vt & s1 & _ & D).
      apply bind_inv in D as (u & s2 & _ & D).
      apply bind_inv in D as (dt & s3 & _ & D).
      apply bind_inv in D as (u4 & s4 & _ & D).
      apply bind_inv in D as (u5 & s5 & _ & D).
      apply bind_inv in D as ([vr vty] & s6 & He & _). exists f; eauto.
    - exfalso. cbn [to_stmt1] in H. eapply (pure_assign_local kinds G); eassumption.
    - apply (checked_reads_const sp ctx P). cbn [to_stmt1] in H.
      destruct f as [|f]; [discriminate|]. cbn [Tc.afix astep r_stmt] in H. unfold stmt_body in H.
      apply bind_inv in H as ([r0 v0] & s1 & He & _). exists f; eauto.
  Qed.

  Lemma foldM_each {A B} (fn : B -> A -> M B) x : forall l acc s r s',
    foldM fn l acc s = Ok (r, s') -> In x l -> exists acc0 s0 r0 s1, fn acc0 x s0 = Ok (r0, s1).
  Proof.
    induction l as [|y l IH]; intros acc s r s' H Hin; [destruct Hin|]. cbn [foldM] in H.
    apply bind_inv in H as (b' & s1 & Hy & H). destruct Hin as [->|Hin]; [eauto|exact (IH _ _ _ _ H Hin)].
  Qed.

  (* an accepted block of the fragment, in a pure context, is a pure block *)
  Theorem accepted_pure_block sp ss e f ctx s r s' :
    inside_pure ctx = true ->
    expression_block G (afix f) sp (to_block1 sp ss e) ctx s = Ok (r, s') ->
    pure_block1 kinds ss e = true.
  Proof.
    intros P H. unfold expression_block, to_block1 in H. rewrite block_split_snoc in H. cbn [fst snd] in H.
    apply bind_inv in H as (r1 & s1 & H1 & H). apply bind_inv in H as ([vret v] & s2 & He & _).
    unfold pure_block1. apply andb_true_iff. split.
    - apply forallb_forall. intros st Hin. apply (checked_stmt_pure sp ctx st P).
      destruct (foldM_each _ (to_stmt1 sp st) _ _ _ _ _ H1 (in_map _ _ _ Hin)) as (acc0 & s0 & r0 & s3 & Hs).
      apply bind_inv in Hs as (sr & s4 & Hs & _). exists f; eauto.
    - apply (checked_reads_const sp ctx P). exists f; eauto.
  Qed.
End Checked.

(* ------------------------------------------------------------------ what a pure block does *)
Section Semantics.
  Variable farith : binop -> string -> string -> string.
  Variable fneg : string -> string.
  Variable fcmp : binop -> string -> string -> bool.
  Variable of_int : Z -> string.
  Variable scmp : binop -> string -> string -> bool.
  Variable kinds : PositiveMap.t varkind.

  Notation eval1 := (eval1 farith fneg fcmp of_int scmp).
  Notation exec1 := (exec1 farith fneg fcmp of_int scmp).
  Notation run1 := (run1 farith fneg fcmp of_int scmp).

  (* the store after the statements *)
  Fixpoint exec_all (r : store) (ss : list s1) : option store :=
    match ss with
    | [] => Some r
    | st :: q => match exec1 r st with Some r' => exec_all r' q | None => None end
    end.

  Lemma run1_exec_all ss : forall r e,
    run1 r ss e = match exec_all r ss with Some r' => eval1 r' e | None => None end.
  Proof. induction ss as [|st q IH]; intros r e; cbn [SoundE1.run1 exec_all]; [reflexivity|]. destruct (exec1 r st); auto. Qed.

  (* the variables the statements define, the last one first *)
  Fixpoint defs1 (ss : list s1) : list N :=
    match ss with
    | [] => []
    | D1 x _ _ _ :: q => defs1 q ++ [x]
    | _ :: q => defs1 q
    end.

  (* no existing binding is touched: only the block's own definitions are pushed *)
  Lemma pure_exec_all ss : forall r r',
    forallb (pure_stmt1 kinds) ss = true -> exec_all r ss = Some r' ->
    exists binds, r' = binds ++ r /\ map fst binds = defs1 ss.
  Proof.
    induction ss as [|st q IH]; intros r r' P H; cbn [exec_all forallb defs1] in *.
    - injection H as <-. exists []. split; reflexivity.
    - apply andb_true_iff in P as [P1 P2].
      destruct (exec1 r st) as [r1|] eqn:E1; [|discriminate].
      destruct (IH _ _ P2 H) as (binds & -> & Hb).
      destruct st as [x k annot e|x e|e]; cbn [pure_stmt1 SoundE1.exec1] in *.
      + destruct (eval1 r e) as [v|]; [|discriminate]. injection E1 as <-.
        exists (binds ++ [(x, v)]). rewrite <- app_assoc. split; [reflexivity|]. rewrite map_app, Hb. reflexivity.
      + discriminate.
      + destruct (eval1 r e); [|discriminate]. injection E1 as <-. exists binds. split; [reflexivity|exact Hb].
  Qed.

  (* two stores that agree on the constants *)
  Definition agree (r1 r2 : store) : Prop := forall x, const_var kinds x = true -> slookup r1 x = slookup r2 x.

  Lemma agree_eval e : forall r1 r2, agree r1 r2 -> reads_const kinds e = true -> eval1 r1 e = eval1 r2 e.
  Proof.
    induction e as [z|x|s|b|op a IHa b IHb|op a IHa|c IHc a IHa b IHb|x]; intros r1 r2 A H; cbn [reads_const SoundE1.eval1] in *;
      try reflexivity.
    - apply andb_true_iff in H as [Ha Hb]. rewrite (IHa _ _ A Ha), (IHb _ _ A Hb). reflexivity.
    - rewrite (IHa _ _ A H). reflexivity.
    - apply andb_true_iff in H as [H Hb]. apply andb_true_iff in H as [Hc Ha].
      rewrite (IHc _ _ A Hc), (IHa _ _ A Ha), (IHb _ _ A Hb). reflexivity.
    - exact (A _ H).
  Qed.

  Lemma agree_cons r1 r2 x v : agree r1 r2 -> agree ((x, v) :: r1) ((x, v) :: r2).
  Proof. intros A y Hy. cbn [slookup]. destruct (N.eqb y x); [reflexivity|exact (A _ Hy)]. Qed.

  Lemma pure_run_agree ss : forall r1 r2 e,
    pure_block1 kinds ss e = true -> agree r1 r2 -> run1 r1 ss e = run1 r2 ss e.
  Proof.
    unfold pure_block1. induction ss as [|st q IH]; intros r1 r2 e P A; cbn [forallb SoundE1.run1] in *.
    - now apply agree_eval.
    - apply andb_true_iff in P as [P Pe]. apply andb_true_iff in P as [P1 P2].
      assert (Pq : forallb (pure_stmt1 kinds) q && reads_const kinds e = true) by (rewrite P2, Pe; reflexivity).
      destruct st as [x k annot e0|x e0|e0]; cbn [pure_stmt1 SoundE1.exec1] in *.
      + destruct k; [|discriminate]. rewrite (agree_eval e0 _ _ A P1).
        destruct (eval1 r2 e0) as [v|]; [|reflexivity]. apply IH; [exact Pq|now apply agree_cons].
      + discriminate.
      + rewrite (agree_eval e0 _ _ A P1). destruct (eval1 r2 e0); [|reflexivity]. now apply IH.
  Qed.
End Semantics.

(* ================================================================== C04_pure_no_store_effect *)
Theorem pure_no_store_effect farith fneg fcmp of_int scmp kinds g f ctx sp ss (e : e1) s r s' :
  inside_pure ctx = true ->
  expression_block (gfix g) (afix kinds (gfix g) f) sp (to_block1 sp ss e) ctx s = Ok (r, s') ->
  (* no assignment, no mutable definition, only constants are read *)
  pure_block1 kinds ss e = true /\
  (* the store the block is started in is left as it is: only the block's own constants are pushed on top of it *)
  (forall st0 st1, exec_all farith fneg fcmp of_int scmp st0 ss = Some st1 ->
     exists binds, st1 = binds ++ st0 /\ map fst binds = defs1 ss) /\
  (* the result depends on the constants only *)
  (forall st0 st0', agree kinds st0 st0' ->
     run1 farith fneg fcmp of_int scmp st0 ss e = run1 farith fneg fcmp of_int scmp st0' ss e).
Proof.
  intros P H. pose proof (accepted_pure_block kinds g sp ss e f ctx s r s' P H) as PB.
  split; [exact PB|]. split.
  - intros st0 st1 Hx. unfold pure_block1 in PB. apply andb_true_iff in PB as [PB _].
    exact (pure_exec_all farith fneg fcmp of_int scmp kinds ss st0 st1 PB Hx).
  - intros st0 st0' A. now apply (pure_run_agree farith fneg fcmp of_int scmp kinds).
Qed.
