#!/usr/bin/env python3
"""Regenerates MANIFEST.json from the declarative list below (single source of truth)."""
import json
import os

VERIF = os.path.dirname(os.path.dirname(os.path.abspath(__file__)))

CHECKS = {
 "C17": dict(
  text="Theorems in Coq over an executable model of the Logos lexer and of string_to_tokens' span arithmetic, for every input: tokens tile the source with only [ \\t\\r] between them, every token is the longest match with the highest priority (or Error), and line/column of both ends are exact. The token table is regenerated from token.rs on every run and proved (vm_compute) equal to the documented token set; the extracted model is run against the real tokenizer.",
  note="Trusted: Coq kernel, the translator for token.rs, the Logos runtime rule as modelled in Lex/Logos.v (validated differentially), extraction (ExtrOcamlBasic/ExtrOcamlString), harness. No axioms.",
  technique="Coq proof over lexer model + regenerated token table + differential tie", design="DESIGN.md §4 C17"),
 "C16": dict(
  text="Every iteration over a HashMap/HashSet in the five crates is regenerated from the source on each run and proved (vm_compute) equal to a hand-reviewed list in which each site carries the class of its consumer; for every order-free class a Coq theorem shows that all visiting orders of the same entries give the same observation (and that the first-error shape does not). Every hand-written PartialEq/Ord/Hash impl is regenerated likewise and proved equal to a reviewed list in which every hashable type hashes exactly the fields it compares; a Coq theorem over a bucket model of a hash map shows that membership and the parser's 'declared twice' verdict equal a hash-free specification for every hash function that respects key equality (and that they do not when the hash reads more than the equality). The real compiler is compiled repeatedly in one process and in fresh processes on valid and multi-error inputs, and hundreds of times on inputs whose verdict goes through a lookup of an equal-but-not-identical key.",
  note="Trusted: Coq kernel, the name-based site finder, the hand reviews (DocHashSites.v site classes, DocKeyTypes.v fields read by each eq/hash), the consumer and bucket models; other sources of nondeterminism (environment, addresses) are covered only by the repetitions. No axioms.",
  technique="Coq permutation-invariance proofs per hash-iteration site + hash/eq-contract theorem for hash-keyed lookups + regenerated site and key-type tables + repeated-compilation oracle", design="DESIGN.md §4 C16"),
 "C07": dict(
  text="The places where the compiler can panic by construction (unreachable!/panic!/assert!/unwrap/expect/remove(0)) are regenerated from the five crates on every run and proved (vm_compute) equal to a hand-reviewed table that records for each why it cannot fire on the compile path; Coq theorems give totality and progress of the tokenizer model for every input. The real compile() is run with panic capture, a watchdog and rendering of every returned error on mutated/truncated/spliced real programs, token soup, multi-error and multi-file projects, and mutants of generated well-typed programs.",
  note="Partial by nature: native stack exhaustion, allocation failure and wall-clock are runtime behaviour outside any model (nesting depth is bounded in the generators). The review of guarded sites is a hand argument, not a theorem; parser/resolver/type-checker totality is covered by the oracle (and by the other agents' models where they exist). No axioms.",
  technique="regenerated panic-site table vs reviewed table (vm_compute) + lexer totality theorems (Coq) + totality fuzz oracle with panic capture and watchdog", design="DESIGN.md §4 C07"),
 "C10": dict(
  text="Static half of C10, proved in Coq for all programs: if the resolved program is lexically scoped (rs_resolved, an executable check) then the IR produced by the lowering model introduces every variable -- user variable or compiler temporary -- as a Lua local, parameter or top-level external in an enclosing block before any read or assignment, assignment targets are real locals (never inlinable temporaries) and blocks are balanced (theorem C10_lower_scoped, by induction on the lowering). The model of intermediate.rs + lua.rs is fed the real resolver's output and must reproduce the real compiler's Lua text byte for byte on every run; the theorem's hypothesis is evaluated on every real resolver output of the tie; an independent scan of the real Lua text looks for V-names outside any binding.",
  note="Trusted: Coq kernel; Back/IR.v + Back/Emit.v as the model of intermediate.rs/lua.rs (byte-exact tie on all accepted repo tests + generated programs each run); the hook dump conversion; that a Lua `local` is a fresh variable per execution and closures capture by reference (Lua semantics: the dynamic half of C10, observed through the Lua interpreter model in the C01 oracle, not proved). No axioms.",
  technique="Coq theorem (induction over the lowering) on a backend model tied byte-exactly to the real output + independent text scan", design="DESIGN.md §4 C10"),
 "C06": dict(
  text="The real emitted text of every accepted program of the run (lexical corner cases: Lua-keyword field names, strings with every byte but the double quote, extreme numbers, every expression form unused, code after ret/break/continue, long bodies; generated typed programs; all repo tests) must pass lua_wf, the Coq model of 'Lua 5.3 loads this chunk', and the backend model must reproduce that text byte for byte. Coq theorems cover for all programs the source-dependent reasons a chunk could fail to load: blocks are balanced and assignment targets are real locals (from C10_lower_scoped), escaped string literals lex back to the original bytes, reserved words are never written as field names.",
  note="lua_wf (coq/Lua/LuaWf.v) is the definition of loadability: trusted, it cannot be compared with a real interpreter here. No theorem yet connects the emitter's text to the Lua grammar as a whole (no parse(render) theorem): that part rests on lua_wf of the real text (translation-validation strength). Open known finding: more than 200 locals in one function. No axioms.",
  technique="Coq lemmas on the emitter model + byte-exact tie + lua_wf (Coq Lua 5.3 loader model) on the real emitted text", design="DESIGN.md §4 C06"),
 "C13": dict(
  text="For every operator table accepted by prec_table_ok -- the table regenerated from expression.rs and parser.rs is, by vm_compute -- the parser model maps the minimally and the fully parenthesised token strings of every operator tree (13 binary operators, 2 unary operators, parentheses, ints, identifier chains with calls, indexes and fields) to that tree modulo Parenthesis nodes, consuming exactly the printed tokens (C13_roundtrip, all depths). A unary operator next to * / is always parenthesised by the minimal printer. The extracted model of the whole parser is run against the real parser; an independent oracle compares the real parser on minimal vs full parenthesisation.",
  note="Trusted: Coq kernel and vm_compute; gen_prec.py and gen_tokens; Parse/Parser.v and Lex/Logos.v as hand-written models validated differentially; extraction (ExtrOcamlBasic/ExtrOcamlString) and parse_driver.ml; harness sexp printer. Theorems speak about token lists. No axioms.",
  technique="Coq round-trip proof over a fuelled parser model generic in the regenerated precedence table + differential tie", design="DESIGN.md §4 C13"),
 "C14": dict(
  text="Parser-level theorems on the parser model: prime call equals paren call; arrow call parses to ArrowCall; parentheses only add Parenthesis nodes; loop-do conditional form; the Context primitives are blind to comments and to newlines inside brackets; a lexer white-space lemma. Three statements are left as visible Props (not assumed). The whole-program claim (byte-identical Lua for all surface variants: prime/paren/arrow calls, trailing expression vs ret, loop do, redundant parentheses, comments, blank lines, indentation, tabs, CRLF, line breaks inside brackets) is decided by an oracle on the real compiler over generated programs and all repo tests.",
  note="Partial: the Lua-equality part of the property is oracle-only (no end-to-end theorem through resolver and backend). Trusted: Coq kernel, the parser and lexer models (validated differentially), extraction, harness. No axioms.",
  technique="Coq theorems on the parser model + differential tie + byte-level variant oracle on the real compiler", design="DESIGN.md §4 C14"),
 "C15": dict(
  text="Theorems: a token's line = 1 + newlines before it (from the lexer model, all inputs); find_conflict_markers reports exactly the lines starting with <<<<<<<; file ids assigned by tree() are inverted by namespace_id_to_file for every import graph (cycles, diamonds, unreadable files, std); syntax errors raised through syntax_error!/expect! carry the current token's span, at the end of input the last token's; `Not a valid outer statement` is reported at the statement. The code items are re-read on every run and proved equal to a reviewed text. 'First error at the planted construct' for resolver/type-checker kinds is stated and decided by a planting oracle (16 kinds x every position x 9 text shapes, multi-file, with and without std) on the real compiler.",
  note="Partial: per-kind location theorems for resolver/type-checker errors are oracle-only. Trusted: Coq kernel; C17's lexer model and tie; Diag/*.v models (Rust lines() semantics, tree work-list) validated by the tie; gen_diag.py and the DocDiag.v review; the planters' tolerances (either definition for duplicates, any later line for an unclosed bracket). No axioms.",
  technique="Coq theorems on lexer/conflict-marker/file-id/syntax-error models + regenerated code table + planting oracle on the real compiler", design="DESIGN.md §4 C15"),
 "C20": dict(
  text="Coq theorems over an executable model of main/run_file_with_reader for all flags and all worlds (compile outcome, create/write results, lua child behaviour): exit status 0 iff compilation (and execution) succeeded, all errors printed in order plus the summary, -o FILE untouched on a compile error and complete whenever status is 0, -o - same bytes, exactly one require line after the preamble (over Back/Emit.v). The driver source is re-read into a table on every run and proved (vm_compute) equal to a reviewed one; the extracted model is run against the built sylt binary on the flag x program x path x child matrix (stub lua) and the property is evaluated directly on the observations.",
  note="Open known finding: FILE is truncated when the write itself fails. Trusted: Coq kernel; gen_driver.py and the DocDriver.v review; gumdrop parsing, Rust Termination/panic exit statuses, RLIMIT_FSIZE behaviour (modelled, validated by the tie); the stub lua; the Lua interpreter model for the --no-std trace comparison. Signals and --dump-tree are not modelled. No axioms.",
  technique="Coq theorems on a driver model + regenerated driver table + matrix run of the real binary with a stub lua", design="DESIGN.md §4 C20"),
 "C01": dict(
  text="Per-program validation, not a theorem for all programs: for a hand-written corpus and generated well-typed programs dense in recursion, closures over mutable variables, if/case expressions held across calls, short-circuit operators, loops with break/continue, early ret, blobs with self, enums, tuples, lists and globals, the REAL emitted chunk (real preamble.lua included) is run in the Coq Lua 5.3 interpreter model and its printed trace and final outcome (done / failed <=> / reached <!>) must equal those of the Coq reference interpreter SyltSem run on the real resolver output. The full statement C01_full_statement is kept as a Prop and is not proved; structural facts about the lowering (C10_lower_scoped, C06 lemmas) are proved for all programs.",
  note="Both interpreters are definitions (trusted): SyltSem is what 'the source denotes', LuaCore (Lua 5.3 dialect) is what 'running the Lua' means; no real Lua interpreter exists in the sandbox. Ints are unbounded, floats/division are outside the compared fragment, std-bundled programs are not compared (the reference interpreter implements only the `print` external). No axioms in the supporting theorems.",
  technique="two extracted Coq interpreters (reference semantics of the source vs Lua 5.3 semantics of the real emitted chunk) compared per program", design="DESIGN.md §4 C01",
  category="translation_validation"),
 "C04": dict(
  text="Coq theorems over a model of the type checker (coq/Types, exact on the tie: accept/reject and first error kind/line on all repo tests and generated/planted programs): assignments to constants are rejected; inside a pure function assignments, mutable definitions, reads of mutable variables and calls of impure functions are rejected at any depth (context monotonicity + propagation through every syntactic position); Pure does not unify with Impure. A planting oracle on the real compiler covers every forbidden construct at every position inside nested closures/branches/loops of pure functions.",
  note="Open known finding C04-purity-laundering (purity forgotten through an un-annotated-purity function type). Trusted: Coq kernel; coq/Types/Tc.v as the model of typechecker.rs (validated by the differential tie, fed with the real resolver output through the hook); extraction; planters in tools/typed_gen.py. No axioms.",
  technique="Coq rejection/propagation theorems on a type-checker model + differential tie + planting oracle on the real compiler", design="DESIGN.md §4 C04"),
 "C05": dict(
  text="Coq theorems over the type-checker model: the shape rules (blob instantiation with missing/unknown field, absent field access, unknown enum variant, non-exhaustive case without else, tuple index/length, externblob instantiation, break/continue outside a loop of the same function, start of type fn -> void) are rejected in every syntactic context (local rejection + propagation). A planting oracle on the real compiler covers every rule at every position for random blob/enum declarations; the emitted Lua of accepted bases must load (lua_wf).",
  note="Trusted: Coq kernel; coq/Types/Tc.v as the model of typechecker.rs (differential tie); extraction; planters; lua_wf for the load check. No axioms.",
  technique="Coq rejection/propagation theorems on a type-checker model + differential tie + planting oracle on the real compiler", design="DESIGN.md §4 C05"),
 "C09": dict(
  text="Coq theorems over a model of the resolver (coq/Resolve, exact on the tie: variable table, resolved statements and first error of the real resolver through the hook): a readable scope-list specification in which an identifier refers to the innermost visible declaration, then to the file's globals, and is rejected otherwise; the resolver's stack discipline computes exactly that specification on every parser-producible AST whenever the four scope flags regenerated from name_resolution.rs are on (C09_resolve_refines), and is refuted with a concrete program whenever one is off (C09_resolve_refines_refuted); consistent renamings (injective on globals, any shadowing-compatible renaming of binders) give equal resolver results up to diagnostic names for every fuel (C09_alpha). Oracle on the real compiler: byte-equal Lua for maximally-distinct vs maximally-shadowing renamings; planted out-of-scope / use-before-declaration uses are rejected.",
  note="Open known finding C09-namespace-shadows-local-in-field-access (x.f prefers a namespace named x over a local x; the repo's own test records it as undecided), so on this tree the fourth flag is off and the refinement theorem applies to the three restored flags only through the differential tie. Trusted: Coq kernel; gen_resolve.py (flags); Resolve/Resolver.v as the model of name_resolution.rs (tie each run); dump conversion and drivers; extraction. No axioms.",
  technique="Coq refinement (resolver stack discipline = scope-list spec) and alpha-equivalence theorems on a resolver model + regenerated flags + differential tie + renaming oracle on the real compiler", design="DESIGN.md §4 C09"),
 "C11": dict(
  text="Coq theorems over a model of dependency.rs (dependency extraction + DFS ordering, exact on the tie against the real initialization_order through the hook): every variable a definition reads, calls or assigns at any depth is in its dependency set (C11_deps_complete: proved for the code as it is now, with the refutation kept for the variant that ignores assignment targets); a successful order is a permutation in which every statement follows the definitions it depends on (topo_sound); a cycle is reported iff the dependency graph has one, never out of fuel (topo_complete); the result is independent of the order of the input statements and acceptance is independent of the numbering of the variables (order_accept_perm / order_accept_iso); types come first. Oracle on the real compiler + Lua interpreter model: a program and random permutations of its top-level statements give the same accept/reject and the same trace.",
  note="Open known finding C11-initialiser-effects-run-in-definition-order (independent initialisers with visible effects run in source order). Trusted: Coq kernel; gen_resolve.py (assignment-target flag); Dep/*.v as the model of dependency.rs (tie each run); that running definitions in an order that respects dependencies initialises before use is Lua semantics observed through LuaCore in the oracle, not proved end to end. No axioms.",
  technique="Coq soundness/completeness/permutation-invariance theorems on a model of the dependency ordering + regenerated flag + differential tie + permutation oracle on the real compiler", design="DESIGN.md §4 C11"),
 "C12": dict(
  text="Coq theorems over models of module discovery (parser.rs tree(): work list, visited set, file ids) and use_path (statement.rs), exact on the tie against the real tree() on generated file maps: each file is loaded once (visit_once); the import path to file mapping for relative/rooted files and folders (exports.sy), the root and std libraries is the documented one (use_path_*); a qualified access ns.x and a from-import resolve to the very variable of the named module (import_transparent_*), a name that is not imported is not visible (not_imported_invisible) and imports do not disturb other files' tables (imports_frame); the order dependence of from-importing a re-exported name is stated as a theorem (C12_reexport_order_dependent). Oracle on the real compiler + Lua interpreter model: single-file vs partitioned multi-file variants in every import style agree on accept/reject and trace.",
  note="Open known finding C12-from-import-of-reexport-depends-on-module-order. Trusted: Coq kernel; Resolve/Modules.v and Resolver.v as models (tie each run); gen_resolve.py (std library names and their imports); the in-memory file reader of the harness stands for the file system. No axioms.",
  technique="Coq theorems on models of module discovery, path mapping and namespace tables + differential tie + partition oracle on the real compiler", design="DESIGN.md §4 C12"),
 "C18": dict(
  text="Refinement theorems in Coq: every list/dict/set operation of an executable model of preamble.lua and of the std functions written in Sylt, and every sequence of operations (induction over the history), computes what plain lists, finite maps, finite sets, option and Z/Q compute, for any element/key type embedded in run-time values; tostring key injectivity proved for strings and ints, refuted for floats and tuples containing strings; library-made Maybe values proved == to source-written ones; math helpers proved against Z/Q. Every definition of preamble.lua and std/*.sy is regenerated (name, shape, text digest) on each run and proved equal to the reviewed list. The real preamble.lua (run by LuaCore) and compiled Sylt programs are compared with the extracted model and with plain Python containers.",
  note="Trusted: Coq kernel; gen_preamble translator; DocRuntime.v review; Runtime.v as the model (validated differentially); LuaCore as the definition of Lua 5.3; extraction (ExtrOcamlBasic/ExtrOcamlString) + runtime_driver.ml; hist_gen.py generators and plain models; harness compile. Exact rationals, no NaN/inf/rounding/wrap-around; containers are values (no aliasing); callbacks pure; random/trig/sqrt/pow/split/args/conversions/for_each/dict.map/set.map outside. Open known finding: keys with equal printed forms collide. No axioms.",
  technique="Coq refinement proofs (per operation + history induction) + regenerated preamble/std tables + differential tie against the real preamble under LuaCore + end-to-end plain-model oracle", design="DESIGN.md §4 C18"),
 "C19": dict(
  text="Theorems in Coq over the model of preamble.lua's metamethods under Lua 5.3 dispatch, for all values of all nested composite types (induction on the type): == decides structural equality on tuples, lists, blobs and enum values and is an equivalence, != is its complement; < <= > >= never fail on ordered types and describe one lexicographic strict total order (trichotomy, transitivity, <= iff < or ==, > and >= are the flips); + - * / (tuple by tuple and by number) and unary minus are element-wise with ints staying ints; + concatenates strings, also inside tuples. The operator templates of lua.rs and the preamble definitions are regenerated on each run and proved equal to the reviewed lists; the real preamble.lua under LuaCore and compiled programs are compared with the extracted model and with structural definitions in Python.",
  note="Trusted: as C18. NaN (== not reflexive) and infinities are outside the rational number model; values are trees (function fields compare by identity); mixed-kind table comparisons other than tuple/list are outside the model (never admitted by the type checker). No axioms.",
  technique="Coq proofs by induction on value types + regenerated operator/preamble tables + differential tie + end-to-end structural oracle", design="DESIGN.md §4 C19"),
}

NOT_YET = "not yet claimed in this revision (machinery under construction; see DESIGN.md §4 for the plan)"


def main():
    props = [json.loads(l)["id"] for l in open(os.path.join(VERIF, "properties.jsonl"))]
    man = {
        "version": 1,
        "setup_cmd": "python3 tools/setup.py",
        "hooks": {
            "guard": "sylt_lang_sylt_lang_verif",
            "enable": "RUSTFLAGS=\"--cfg sylt_lang_sylt_lang_verif\" (set by tools/vlib.py for every cargo build). One add-only hook: sylt_compiler::verif::phases (Debug dumps of resolved AST, ordering, IR, usage counts).",
            "baseline_off_cmd": "cd /repo && cargo test --workspace --no-fail-fast --offline",
            "source_commits": ["75dbdb0"],
            "add_only": True,
        },
        "engines": [
            {"name": "coq-model", "path": "coq/", "serves_properties": sorted(CHECKS), "kind_free_text": "Gallina model + theorems (Coq 8.16.1), tables regenerated from /repo by tools/gen_tables.py and tools/gens/*.py"},
            {"name": "correspondence", "path": "harness/ ocaml/ tools/", "serves_properties": sorted(CHECKS), "kind_free_text": "differential run of the extracted model against the real crates; property oracles for the search"},
        ],
        "checks": [],
        "notes": "See DESIGN.md. Every check: python3 tools/check.py <ID> [--tier thorough]. Fix commits in /repo are listed in known_findings.jsonl.",
        "not_applicable": [],
    }
    for pid in props:
        if pid in CHECKS:
            c = CHECKS[pid]
            man["checks"].append({
                "property_id": pid,
                "quick_cmd": "python3 tools/check.py %s --tier quick" % pid,
                "thorough_cmd": "python3 tools/check.py %s --tier thorough" % pid,
                "evidence_file": "evidence/%s.json" % pid,
                "replay_cmd_template": "python3 tools/check.py %s --replay {path}" % pid,
                "engine": "coq-model",
                "level_claimed": {"category": c.get("category", "proof"), "text": c["text"], "design_ref": c["design"]},
                "level_note": c["note"],
                "technique": c["technique"],
            })
        else:
            man["not_applicable"].append({"property_id": pid, "reason": NOT_YET})
    json.dump(man, open(os.path.join(VERIF, "MANIFEST.json"), "w"), indent=1)
    print("checks:", [c["property_id"] for c in man["checks"]])


if __name__ == "__main__":
    main()
