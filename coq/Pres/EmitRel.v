(* Facts about the AST emitter (Pres/EmitAst.v):
   - `Emits u l code b l'`: the BALANCED code segment `code`, emitted with inlining table l, gives the
     statements b and the table l'; the relation is compositional (Emits_app) and the stack machine
     `estack` computes it (estack_Emits, emit_ast_Emits);
   - `ucovers`: every variable an instruction reads has a usage count >= 1 in the usage table of the
     whole program (count_usages). *)
From Coq Require Import String Ascii List NArith ZArith QArith Bool Lia.
From Sylt Require Import Syntax.Resolved Back.IR Back.Emit Lua.LuaAst Pres.EmitAst.
Import ListNotations.
Local Open Scope N_scope.

Definition simple_op (op : ir) : bool :=
  match op with IFunction _ _ | IIf _ | IElse | IEnd | ILoop => false | _ => true end.

Inductive Emits (u : counts) : alut -> list ir -> block -> alut -> Prop :=
| Em_nil l : Emits u l [] [] l
| Em_op l op c b l2 :
    simple_op op = true -> Emits u (snd (agen_one u l op)) c b l2 ->
    Emits u l (op :: c) (fst (agen_one u l op) ++ b) l2
| Em_if l a ct bt l1 c b l2 :
    Emits u l ct bt l1 -> Emits u l1 c b l2 ->
    Emits u l (IIf a :: ct ++ IEnd :: c) (SIf (aexpand l a) bt [] :: b) l2
| Em_ifelse l a ct bt l1 ce be l2 c b l3 :
    Emits u l ct bt l1 -> Emits u l1 ce be l2 -> Emits u l2 c b l3 ->
    Emits u l (IIf a :: ct ++ IElse :: ce ++ IEnd :: c) (SIf (aexpand l a) bt be :: b) l3
| Em_loop l cb bb l1 c b l2 :
    Emits u l cb bb l1 -> Emits u l1 c b l2 ->
    Emits u l (ILoop :: cb ++ IEnd :: c) (SWhile ETrue bb :: b) l2
| Em_fun l f ps cb bb l1 c b l2 :
    Emits u l cb bb l1 -> Emits u l1 c b l2 ->
    Emits u l (IFunction f ps :: cb ++ IEnd :: c) (SLocalFun (aname l f) (map fmt_var ps) bb :: b) l2.

Lemma Emits_app u l c1 b1 l1 c2 b2 l2 :
  Emits u l c1 b1 l1 -> Emits u l1 c2 b2 l2 -> Emits u l (c1 ++ c2) (b1 ++ b2) l2.
Proof.
  induction 1; intros H2; cbn [app].
  - exact H2.
  - rewrite <- app_assoc. apply Em_op; auto.
  - rewrite <- app_assoc. cbn [app]. eapply Em_if; eauto.
  - rewrite <- app_assoc. cbn [app]. rewrite <- app_assoc. cbn [app]. eapply Em_ifelse; eauto.
  - rewrite <- app_assoc. cbn [app]. eapply Em_loop; eauto.
  - rewrite <- app_assoc. cbn [app]. eapply Em_fun; eauto.
Qed.

Lemma Emits_one u l op :
  simple_op op = true -> Emits u l [op] (fst (agen_one u l op)) (snd (agen_one u l op)).
Proof.
  intros H. rewrite <- (app_nil_r (fst (agen_one u l op))). apply Em_op; [exact H | apply Em_nil].
Qed.

Lemma rev_append_app {A} (a b c : list A) : rev_append (a ++ b) c = rev_append b (rev_append a c).
Proof. revert c. induction a; intros; cbn; auto. Qed.

Lemma rev'_rev_append_nil {A} (b : list A) : rev' (rev_append b []) = b.
Proof. unfold rev'. rewrite !rev_append_rev, !app_nil_r. apply rev_involutive. Qed.

Lemma estack_Emits u l c b l' :
  Emits u l c b l' ->
  forall cur stk rest, estack u l cur stk (c ++ rest) = estack u l' (rev_append b cur) stk rest.
Proof.
  induction 1 as [l | l op c b l2 Hs He IH | l a ct bt l1 c b l2 H1 IH1 H2 IH2
                 | l a ct bt l1 ce be l2 c b l3 H1 IH1 H2 IH2 H3 IH3
                 | l cb bb l1 c b l2 H1 IH1 H2 IH2 | l f ps cb bb l1 c b l2 H1 IH1 H2 IH2]; intros cur stk rest.
  - reflexivity.
  - rewrite rev_append_app. rewrite <- IH. destruct op; try discriminate; reflexivity.
  - cbn [app estack]. rewrite <- app_assoc. rewrite IH1. cbn [app estack close_frame].
    rewrite rev'_rev_append_nil. rewrite IH2. reflexivity.
  - cbn [app estack]. rewrite <- app_assoc. rewrite IH1. cbn [app estack].
    rewrite <- app_assoc. rewrite IH2. cbn [app estack close_frame].
    rewrite !rev'_rev_append_nil. rewrite IH3. reflexivity.
  - cbn [app estack]. rewrite <- app_assoc. rewrite IH1. cbn [app estack close_frame].
    rewrite rev'_rev_append_nil. rewrite IH2. reflexivity.
  - cbn [app estack]. rewrite <- app_assoc. rewrite IH1. cbn [app estack close_frame].
    rewrite rev'_rev_append_nil. rewrite IH2. reflexivity.
Qed.

Theorem emit_ast_Emits ops b l' : Emits (count_usages ops) [] ops b l' -> emit_ast ops = b.
Proof.
  intros H. unfold emit_ast. rewrite <- (app_nil_r ops) at 2. rewrite (estack_Emits _ _ _ _ _ H).
  cbn [estack close_all]. apply rev'_rev_append_nil.
Qed.

(* ------------------------------------------------------------------ usage counts *)

(* the variables an instruction reads: exactly the ones count_one bumps *)
Definition ir_uses (op : ir) : list N :=
  match op with
  | INil _ | IInt _ _ | IFloat _ _ | IStr _ _ | IBool _ _ | ILoop | IBreak | IElse | IEnd
  | IExternal _ _ | ILabel _ | IGoto _ | IHalt _ => []
  | IFunction a _ | IDefine a => [a]
  | IAdd _ a b | ISub _ a b | IMul _ a b | IDiv _ a b | IEquals _ a b | INotEquals _ a b
  | IGreater _ a b | IGreaterEqual _ a b | ILess _ a b | ILessEqual _ a b | IIndex _ a b
  | IAssign a b | IAssignAccess a _ b | IAssignIndex _ a b => [a; b]
  | INeg _ a | INot _ a | IAssert a | IVariant _ _ a | IAccess _ a _ | ICopy _ a | IReturn a | IIf a => [a]
  | ICall _ a bs => a :: bs
  | IList _ xs | ITuple _ xs => xs
  | IBlob _ fs => map snd fs
  end.

Lemma count_of_bump k by_ m v :
  count_of (bump k by_ m) v = count_of m v + (if v =? k then by_ else 0).
Proof.
  induction m as [|[k' n] m IH]; cbn [bump count_of].
  - destruct (N.eqb_spec v k); cbn; lia.
  - destruct (N.eqb_spec k k') as [->|Hk]; cbn [count_of].
    + destruct (N.eqb_spec v k'); lia.
    + destruct (N.eqb_spec v k') as [->|Hv].
      * destruct (N.eqb_spec k' k); [congruence | lia].
      * exact IH.
Qed.

Lemma count_of_bump_ge k by_ m v : count_of m v <= count_of (bump k by_ m) v.
Proof. rewrite count_of_bump. lia. Qed.

Lemma count_of_bump_hit k by_ m : 1 <= by_ -> 1 <= count_of (bump k by_ m) k.
Proof. intros H. rewrite count_of_bump, N.eqb_refl. lia. Qed.

Lemma count_of_bumps_ge ks m v : count_of m v <= count_of (bumps ks m) v.
Proof.
  unfold bumps. revert m. induction ks as [|k ks IH]; intros m; cbn [fold_left]; [lia|].
  etransitivity; [apply (count_of_bump_ge k 1)| apply IH].
Qed.

Lemma count_of_bumps_hit ks m v : In v ks -> 1 <= count_of (bumps ks m) v.
Proof.
  unfold bumps. revert m. induction ks as [|k ks IH]; intros m Hin; [contradiction|].
  destruct Hin as [->|H]; cbn [fold_left].
  - etransitivity; [apply (count_of_bump_hit v 1 m); lia | apply (count_of_bumps_ge ks)].
  - apply IH. exact H.
Qed.

Lemma count_one_ge m op v : count_of m v <= count_of (count_one m op) v.
Proof.
  destruct op; cbn [count_one]; try lia;
    repeat first [ apply count_of_bump_ge | apply count_of_bumps_ge
                 | (etransitivity; [| apply count_of_bump_ge]) | (etransitivity; [| apply count_of_bumps_ge]) ]; lia.
Qed.

Lemma count_one_hit m op v : In v (ir_uses op) -> 1 <= count_of (count_one m op) v.
Proof.
  destruct op; cbn [count_one ir_uses In]; intros H; try contradiction;
    repeat match goal with H : _ \/ _ |- _ => destruct H as [H|H] end; subst; try contradiction;
    try (apply count_of_bump_hit; lia);
    try (etransitivity; [| apply count_of_bump_ge]; apply count_of_bump_hit; lia);
    try (apply count_of_bumps_hit; assumption).
  - (* ICall: the callee *)
    etransitivity; [| apply count_of_bumps_ge]. apply count_of_bump_hit; lia.
Qed.

Lemma count_usages_fold_ge ops m v : count_of m v <= count_of (fold_left count_one ops m) v.
Proof.
  revert m. induction ops as [|op ops IH]; intros m; cbn [fold_left]; [lia|].
  etransitivity; [apply (count_one_ge m op) | apply IH].
Qed.

Definition ucovers (u : counts) (code : list ir) : Prop :=
  forall op v, In op code -> In v (ir_uses op) -> 1 <= count_of u v.

Theorem count_usages_covers ops : ucovers (count_usages ops) ops.
Proof.
  unfold ucovers, count_usages. generalize (@nil (N * N)) as m.
  induction ops as [|op0 ops IH]; intros m op v Hin Hv; [contradiction|].
  cbn [fold_left]. destruct Hin as [->|Hin].
  - etransitivity; [apply (count_one_hit m op v Hv) | apply count_usages_fold_ge].
  - eapply IH; eassumption.
Qed.

Lemma ucovers_incl u c1 c2 : incl c1 c2 -> ucovers u c2 -> ucovers u c1.
Proof. intros Hi H op v Hop Hv. eapply H; [apply Hi; exact Hop | exact Hv]. Qed.

Lemma ucovers_app u c1 c2 : ucovers u (c1 ++ c2) <-> ucovers u c1 /\ ucovers u c2.
Proof.
  split.
  - intros H. split; eapply ucovers_incl; try exact H; [apply incl_appl | apply incl_appr]; apply incl_refl.
  - intros [H1 H2] op v Hop Hv. apply in_app_or in Hop as [Hop|Hop]; eauto.
Qed.

Lemma ucovers_cons u op c : ucovers u (op :: c) <-> (forall v, In v (ir_uses op) -> 1 <= count_of u v) /\ ucovers u c.
Proof.
  split.
  - intros H. split; [intros v Hv; eapply H; [left; reflexivity | exact Hv] | intros o v Ho Hv; eapply H; [right; exact Ho | exact Hv]].
  - intros [H1 H2] o v [<-|Ho] Hv; eauto.
Qed.
