-- expect: 3	z	a	b
-- expect: z,m,a,b
-- expect: b	3
-- expect: z	m,a
-- expect: 123	a	true
-- expect: 2-3
-- expect: 3	0	0	3
-- expect: 4
-- expect: 3
-- expect: 1	2	3	x	ten	true	3
-- expect: deep	deep
-- expect: false	table index is nil
-- expect: nil
-- expect: one	two	three	3
-- expect: frac	frac
-- expect: 1
-- expect: 2
-- expect: bool	func	table	str	neg	zero	nil
-- expect: 5	25
-- expect: 2	1	4	nil
-- expect: false	invalid value (at index 2) in table for 'concat'
-- expect: false	wrong number of arguments to 'insert'
-- expect: false	bad argument #1 to 'insert' (table expected, got nil)
-- expect: nil	nil	1
local unpack = unpack or table.unpack   -- global in Lua 5.1/LuaJIT, table.unpack in Lua 5.3
local t = {}
table.insert(t, "a"); table.insert(t, "b"); table.insert(t, 1, "z")
print(#t, t[1], t[2], t[3])
table.insert(t, 2, "m")
print(table.concat(t, ","))
print(table.remove(t), #t)
print(table.remove(t, 1), table.concat(t, ","))
print(table.concat({1, 2, 3}), table.concat({"a"}, "x"), table.concat({}, "x") == "")
print(table.concat({1, 2, 3, 4}, "-", 2, 3))
print(#{1, 2, 3}, #{}, #{n = 1}, #"abc")
local u = {1, 2, 3}
u[#u + 1] = 4
print(#u)
u[#u] = nil
print(#u)
local c = {1, 2, x = "x", [10] = "ten", ["key with space"] = true; 3}
print(c[1], c[2], c[3], c.x, c[10], c["key with space"], #c)
local n = {a = {b = {c = "deep"}}}
print(n.a.b.c, n["a"]["b"]["c"])
print(pcall(function() local q = {}; q[nil] = 1 end))
print(({})[nil])
-- float keys with integer value are the integer keys
local fk = {}
fk[1.0] = "one"; fk[2 ^ 1] = "two"; fk[6 / 2] = "three"
print(fk[1], fk[2], fk[3], #fk)
fk[1.5] = "frac"
print(fk[1.5], fk[3 / 2])
local r1 = {}
local r2 = r1
r2.x = 1
print(r1.x)
print(#{1, 2, nil})
-- keys of every type
local f = function() end
local kt = {}
local any = {}
any[true] = "bool"; any[f] = "func"; any[kt] = "table"; any["s"] = "str"; any[-1] = "neg"; any[0] = "zero"
print(any[true], any[f], any[kt], any.s, any[-1], any[0], any[false])
-- stack usage
local st = {}
for i = 1, 5 do st[#st + 1] = i * i end
print(#st, st[#st])
while #st > 2 do st[#st] = nil end
print(#st, st[1], st[2], st[3])
print(pcall(table.concat, {1, {}, 3}))
print(pcall(table.insert, {}, 1, 2, 3))
print(pcall(table.insert, nil, 1))
print(unpack({1, 2, 3}, -1, 1))
