(* Model of the Logos-generated lexer plus sylt-tokenizer's span arithmetic (string_to_tokens).
   Definitions only.  Input is a list of Unicode scalar values. *)
From Coq Require Import String List NArith Bool.
From Sylt Require Import Lex.Regex.
Import ListNotations.
Local Open Scope N_scope.

Inductive callback :=
| CbUnit      (* plain variant *)
| CbSkip      (* logos::skip *)
| CbSlice     (* lex.slice().to_string() *)
| CbStrip     (* remove first and last char (string literal) *)
| CbComment   (* slice[2..].trim() *)
| CbInt       (* slice.parse::<i64>() *)
| CbFloat     (* slice.parse::<f64>() *)
| CbBool.     (* slice.parse::<bool>() *)

Record pat := mkPat { p_kind : string; p_rx : rx; p_prio : N; p_cb : callback }.

Definition table := list pat.

(* ---- one token: longest match, ties by priority ---- *)

Definition live := list (pat * re).

Definition start_live (t : table) : live := map (fun p => (p, compile (p_rx p))) t.

Definition step_live (c : N) (l : live) : live :=
  flat_map (fun pr => let r' := deriv c (snd pr) in
                      if is_none r' then [] else [(fst pr, r')]) l.

Fixpoint best_nullable (l : live) (acc : option pat) : option pat :=
  match l with
  | [] => acc
  | (p, r) :: l' =>
      if nullable r then
        match acc with
        | Some q => if p_prio q <? p_prio p then best_nullable l' (Some p) else best_nullable l' acc
        | None => best_nullable l' (Some p)
        end
      else best_nullable l' acc
  end.

(* scan l s n best viable: n = code points consumed so far; best = last accepting (length, pattern);
   viable = longest prefix after which some pattern is still alive. *)
Fixpoint scan (l : live) (s : list N) (n : nat) (best : option (nat * pat)) (viable : nat)
  : option (nat * pat) * nat :=
  match s with
  | [] => (best, viable)
  | c :: s' =>
      match step_live c l with
      | [] => (best, viable)
      | l' =>
          let best' := match best_nullable l' None with
                       | Some p => Some (S n, p)
                       | None => best
                       end in
          scan l' s' (S n) best' (S n)
      end
  end.

(* ---- callbacks ---- *)

Inductive payload :=
| PNone
| PText (s : list N)
| PInt (z : N)
| PFloatText (s : list N)
| PBool (b : bool).

Definition is_ascii_digit (c : N) : bool := (48 <=? c) && (c <=? 57).

Fixpoint parse_dec (s : list N) (acc : N) : option N :=
  match s with
  | [] => Some acc
  | c :: s' => if is_ascii_digit c then parse_dec s' (10 * acc + (c - 48)) else None
  end.

Definition i64_max : N := 9223372036854775807.

(* Unicode White_Space, what str::trim removes *)
Definition is_white_space (c : N) : bool :=
  ((9 <=? c) && (c <=? 13)) || (c =? 32) || (c =? 133) || (c =? 160) || (c =? 5760)
  || ((8192 <=? c) && (c <=? 8202)) || (c =? 8232) || (c =? 8233) || (c =? 8239)
  || (c =? 8287) || (c =? 12288).

Fixpoint trim_start (s : list N) : list N :=
  match s with
  | [] => []
  | c :: s' => if is_white_space c then trim_start s' else s
  end.

Definition trim (s : list N) : list N := rev (trim_start (rev (trim_start s))).

(* characters that may appear in a slice matched by the float pattern and that f64::from_str accepts *)
Definition float_char_ok (c : N) : bool :=
  is_ascii_digit c || (c =? 46) || (c =? 101) || (c =? 43) || (c =? 45).

Definition true_s : list N := [116; 114; 117; 101].
Definition false_s : list N := [102; 97; 108; 115; 101].
Fixpoint eqb_list (a b : list N) : bool :=
  match a, b with
  | [], [] => true
  | x :: a', y :: b' => (x =? y) && eqb_list a' b'
  | _, _ => false
  end.

(* None = the callback returned Err: Logos turns the token into Error (same range) *)
Definition run_callback (cb : callback) (txt : list N) : option payload :=
  match cb with
  | CbUnit => Some PNone
  | CbSkip => Some PNone
  | CbSlice => Some (PText txt)
  | CbStrip => Some (PText (removelast (tl txt)))
  | CbComment => Some (PText (trim (skipn 2 txt)))
  | CbInt => match parse_dec txt 0 with
             | Some z => if z <=? i64_max then Some (PInt z) else None
             | None => None
             end
  | CbFloat => if forallb float_char_ok txt then Some (PFloatText txt) else None
  | CbBool => if eqb_list txt true_s then Some (PBool true)
              else if eqb_list txt false_s then Some (PBool false) else None
  end.

(* ---- raw tokens (tile the input exactly) ---- *)

Inductive rkind :=
| KTok (kind : string) (pl : payload)
| KSkip
| KError.

Record rtoken := mkR { r_kind : rkind; r_text : list N }.

Definition next_raw (t : table) (s : list N) : rtoken :=
  match scan (start_live t) s 0 None 0 with
  | (Some (n, p), _) =>
      let txt := firstn n s in
      match p_cb p with
      | CbSkip => mkR KSkip txt
      | cb => match run_callback cb txt with
              | Some pl => mkR (KTok (p_kind p) pl) txt
              | None => mkR KError txt
              end
      end
  | (None, v) => mkR KError (firstn (Nat.max 1 v) s)
  end.

Fixpoint raw_lex (fuel : nat) (t : table) (s : list N) : list rtoken :=
  match fuel with
  | O => []
  | S f =>
      match s with
      | [] => []
      | _ => let r := next_raw t s in
             r :: raw_lex f t (skipn (length (r_text r)) s)
      end
  end.

(* ---- positions: string_to_tokens ---- *)

Record span := mkSpan { line_start : N; line_end : N; col_start : N; col_end : N }.
Record ptoken := mkP { t_kind : string; t_pl : payload; t_span : span; t_cp0 : N; t_cp1 : N }.

(* position state: idx = code points consumed (0-based index of the next one),
   line = current line, lastnl = 1-based char index of the last newline seen (0 if none) *)
Record pstate := mkS { idx : N; line : N; lastnl : N }.

Definition walk1 (st : pstate) (c : N) : pstate :=
  if c =? 10 then mkS (idx st + 1) (line st + 1) (idx st + 1)
  else mkS (idx st + 1) (line st) (lastnl st).

Definition walk (st : pstate) (txt : list N) : pstate := fold_left walk1 txt st.

Definition span_of (st : pstate) (txt : list N) : span :=
  let mid := walk st (removelast txt) in
  mkSpan (line st) (line mid) (idx st + 1 - lastnl st) (idx st + N.of_nat (length txt) + 1 - lastnl mid).

Definition error_kind : string := "Error"%string.

Fixpoint place (st : pstate) (rs : list rtoken) : list ptoken :=
  match rs with
  | [] => []
  | r :: rs' =>
      let st' := walk st (r_text r) in
      let cp1 := idx st + N.of_nat (length (r_text r)) in
      match r_kind r with
      | KSkip => place st' rs'
      | KTok k pl => mkP k pl (span_of st (r_text r)) (idx st) cp1 :: place st' rs'
      | KError => mkP error_kind PNone (span_of st (r_text r)) (idx st) cp1 :: place st' rs'
      end
  end.

Definition init_state : pstate := mkS 0 1 0.

Definition lex (t : table) (s : list N) : list ptoken :=
  place init_state (raw_lex (length s) t s).
