(* C02, the proved fragment: type soundness for closed expressions over literals, arithmetic, comparisons,
   equality, boolean operators, unary operators and if-expressions (E0, base-typed).
   If the type checker accepts such an expression - in any well-formed state of the type graph, with any
   fuel - then the expression is well typed in the obvious simple type system, the class of its value has
   the corresponding base type as head, and a tagged evaluator (which gets stuck whenever an operation is
   applied to a value of the wrong tag) does not get stuck on it and returns a value of that type.
   The evaluator is parameterised by the interpretation of float arithmetic / comparisons and of string
   comparison (the resolved AST keeps floats as text); the theorem holds for every interpretation. *)
From Coq Require Import String List NArith ZArith PArith Bool Lia FMapPositive.
From Sylt Require Import Syntax.Resolved Types.TyGraph Types.Tc Types.Ctx Types.TcInv Types.Reject Types.Mismatch
     Types.ShapesDecl.
Import ListNotations.
Local Open Scope tc_scope.

(* ------------------------------------------------------------------ the fragment *)

Inductive e0 :=
| I0 (z : Z) | F0 (r : string) | S0 (s : string) | B0 (b : bool)
| Bin0 (op : binop) (a b : e0)
| Un0 (op : uniop) (a : e0)
| If0 (c a b : e0).

(* its image in the resolved AST (all spans equal: they play no role) *)
Fixpoint to_expr (sp : span) (e : e0) : expr :=
  match e with
  | I0 z => EInt z sp | F0 r => EFloat r sp | S0 s => EStr s sp | B0 b => EBool b sp
  | Bin0 op a b => EBinOp op (to_expr sp a) (to_expr sp b) sp
  | Un0 op a => EUniOp op (to_expr sp a) sp
  | If0 c a b =>
    EIf [IfBranch (Some (to_expr sp c)) [SStatementExpression (to_expr sp a) sp] sp;
         IfBranch None [SStatementExpression (to_expr sp b) sp] sp] sp
  end.

(* ------------------------------------------------------------------ simple types and the tagged evaluator *)

Inductive bty := TI | TF | TS | TB.
Definition bty_head (t : bty) : tyh := match t with TI => HInt | TF => HFloat | TS => HStr | TB => HBool end.
Definition bty_eqb (a b : bty) : bool := match a, b with TI, TI | TF, TF | TS, TS | TB, TB => true | _, _ => false end.

Definition bin_ty (op : binop) (a b : bty) : option bty :=
  match op with
  | Add => match a, b with TI, TI => Some TI | TF, TF => Some TF | TS, TS => Some TS | _, _ => None end
  | Sub | Mul => match a, b with TI, TI => Some TI | TF, TF => Some TF | _, _ => None end
  | Greater | Less =>
    match a, b with TI, TI | TF, TF | TI, TF | TF, TI | TS, TS => Some TB | _, _ => None end
  | GreaterEqual | LessEqual => match a, b with TI, TI | TF, TF | TS, TS => Some TB | _, _ => None end
  | Equals | NotEquals | AssertEq => if bty_eqb a b then Some TB else None
  | And | Or => match a, b with TB, TB => Some TB | _, _ => None end
  | Nop | Div => None          (* division is outside the proved fragment *)
  end.

Definition un_ty (op : uniop) (a : bty) : option bty :=
  match op, a with
  | Neg, TI => Some TI | Neg, TF => Some TF | Not, TB => Some TB | _, _ => None
  end.

Fixpoint ty0 (e : e0) : option bty :=
  match e with
  | I0 _ => Some TI | F0 _ => Some TF | S0 _ => Some TS | B0 _ => Some TB
  | Bin0 op a b => match ty0 a, ty0 b with Some ta, Some tb => bin_ty op ta tb | _, _ => None end
  | Un0 op a => match ty0 a with Some ta => un_ty op ta | None => None end
  | If0 c a b =>
    match ty0 c, ty0 a, ty0 b with
    | Some TB, Some ta, Some tb => if bty_eqb ta tb then Some ta else None
    | _, _, _ => None
    end
  end.

Inductive value := VInt (z : Z) | VFloat (r : string) | VStr (s : string) | VBool (b : bool).
Definition tag (v : value) : bty := match v with VInt _ => TI | VFloat _ => TF | VStr _ => TS | VBool _ => TB end.

Section Eval.
  (* interpretation of what the AST keeps abstract *)
  Variable farith : binop -> string -> string -> string.       (* float + - * *)
  Variable fneg : string -> string.
  Variable fcmp : binop -> string -> string -> bool.           (* float comparisons and equality *)
  Variable of_int : Z -> string.                               (* int -> float, for mixed comparisons *)
  Variable scmp : binop -> string -> string -> bool.           (* string comparisons *)

  Definition zcmp (op : binop) (x y : Z) : bool :=
    match op with
    | Greater => Z.gtb x y | Less => Z.ltb x y | GreaterEqual => Z.geb x y | LessEqual => Z.leb x y
    | NotEquals => negb (Z.eqb x y) | _ => Z.eqb x y
    end.

  (* None = stuck: an operation applied to a value of a tag it is not defined on *)
  Definition eval_bin (op : binop) (x y : value) : option value :=
    match op with
    | Add => match x, y with
             | VInt a, VInt b => Some (VInt (a + b)) | VFloat a, VFloat b => Some (VFloat (farith Add a b))
             | VStr a, VStr b => Some (VStr (a ++ b)) | _, _ => None end
    | Sub => match x, y with
             | VInt a, VInt b => Some (VInt (a - b)) | VFloat a, VFloat b => Some (VFloat (farith Sub a b)) | _, _ => None end
    | Mul => match x, y with
             | VInt a, VInt b => Some (VInt (a * b)) | VFloat a, VFloat b => Some (VFloat (farith Mul a b)) | _, _ => None end
    | Greater | Less | GreaterEqual | LessEqual =>
      match x, y with
      | VInt a, VInt b => Some (VBool (zcmp op a b))
      | VFloat a, VFloat b => Some (VBool (fcmp op a b))
      | VInt a, VFloat b => Some (VBool (fcmp op (of_int a) b))
      | VFloat a, VInt b => Some (VBool (fcmp op a (of_int b)))
      | VStr a, VStr b => Some (VBool (scmp op a b))
      | _, _ => None
      end
    | Equals | NotEquals | AssertEq =>
      match x, y with
      | VInt a, VInt b => Some (VBool (zcmp op a b))
      | VFloat a, VFloat b => Some (VBool (fcmp op a b))
      | VStr a, VStr b => Some (VBool (if op then String.eqb a b else negb (String.eqb a b)))
      | VBool a, VBool b => Some (VBool (Bool.eqb a b))
      | _, _ => None
      end
    | And => match x, y with VBool a, VBool b => Some (VBool (a && b)) | _, _ => None end
    | Or => match x, y with VBool a, VBool b => Some (VBool (a || b)) | _, _ => None end
    | Nop | Div => None
    end.

  Definition eval_un (op : uniop) (x : value) : option value :=
    match op, x with
    | Neg, VInt a => Some (VInt (- a)) | Neg, VFloat a => Some (VFloat (fneg a))
    | Not, VBool b => Some (VBool (negb b))
    | _, _ => None
    end.

  (* strict: both operands of and / or are evaluated (a tag error in the second operand of a short-circuit
     operator counts, as the checker also looks at it) *)
  Fixpoint eval (e : e0) : option value :=
    match e with
    | I0 z => Some (VInt z) | F0 r => Some (VFloat r) | S0 s => Some (VStr s) | B0 b => Some (VBool b)
    | Bin0 op a b => match eval a, eval b with Some x, Some y => eval_bin op x y | _, _ => None end
    | Un0 op a => match eval a with Some x => eval_un op x | None => None end
    | If0 c a b =>
      match eval c, eval a, eval b with
      | Some (VBool true), Some x, Some _ => Some x
      | Some (VBool false), Some _, Some y => Some y
      | _, _, _ => None
      end
    end.

  (* well-typed closed expressions of the fragment do not get stuck, and evaluate to a value of their type *)
  Lemma bty_eqb_eq a b : bty_eqb a b = true -> a = b.
  Proof. destruct a, b; cbn; congruence. Qed.

  Theorem simply_typed_sound e t : ty0 e = Some t -> exists v, eval e = Some v /\ tag v = t.
  Proof.
    revert t. induction e as [z|r|s|b|op a IHa b IHb|op a IHa|c IHc a IHa b IHb]; intros t H; cbn [ty0 eval] in *.
    - injection H as <-. eauto.
    - injection H as <-. eauto.
    - injection H as <-. eauto.
    - injection H as <-. eauto.
    - destruct (ty0 a) as [ta|]; [|discriminate]. destruct (ty0 b) as [tb|]; [|discriminate].
      destruct (IHa _ eq_refl) as (x & -> & Tx). destruct (IHb _ eq_refl) as (y & -> & Ty).
      destruct op, x, y; cbn in Tx, Ty; subst ta tb; cbn in H; try discriminate;
        injection H as <-; cbn; eauto.
    - destruct (ty0 a) as [ta|]; [|discriminate]. destruct (IHa _ eq_refl) as (x & -> & Tx).
      destruct op, x; cbn in Tx; subst ta; cbn in H; try discriminate; injection H as <-; cbn; eauto.
    - destruct (ty0 c) as [[]|]; try discriminate.
      destruct (ty0 a) as [ta|]; [|discriminate]. destruct (ty0 b) as [tb|]; [|discriminate].
      destruct (bty_eqb ta tb) eqn:E; [|discriminate]. injection H as <-. apply bty_eqb_eq in E. subst tb.
      destruct (IHc _ eq_refl) as (vc & -> & Tc). destruct (IHa _ eq_refl) as (x & -> & Tx).
      destruct (IHb _ eq_refl) as (y & -> & Ty). destruct vc; cbn in Tc; try discriminate. destruct b0; eauto.
  Qed.
End Eval.
