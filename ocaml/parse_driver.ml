(* Driver for the extracted parser model: `parse_driver expr|stmt|outer|type CASES`; CASES holds one
   hex-encoded UTF-8 source per line ("-" = empty).  Prints the same line as `verif-harness <mode>`:
   `OK <tokens consumed>/<tokens total> <s-expression>` or `ERR <consumed>/<total> <line:col:col of each error>`
   (`FUEL` if the model ran out of fuel, `MODELPANIC` where the Rust code would panic or spin).
   Mode `module` parses a whole file (sylt_parser's module()). *)
open Parsemodel

let rec pos_of_int n = if n = 1 then XH else if n land 1 = 1 then XI (pos_of_int (n lsr 1)) else XO (pos_of_int (n lsr 1))
let n_of_int n = if n = 0 then N0 else Npos (pos_of_int n)
let rec int_of_pos = function XH -> 1 | XO p -> 2 * int_of_pos p | XI p -> 2 * int_of_pos p + 1
let int_of_n = function N0 -> 0 | Npos p -> int_of_pos p
let rec int_of_nat = function O -> 0 | S n -> 1 + int_of_nat n
let int_of_nat n = let rec go acc = function O -> acc | S m -> go (acc + 1) m in go 0 n

let unhex s =
  if s = "-" then Bytes.empty else begin
    let n = String.length s / 2 in
    let b = Bytes.create n in
    for i = 0 to n - 1 do
      Bytes.set b i (Char.chr (int_of_string ("0x" ^ String.sub s (2*i) 2)))
    done; b end

let decode_utf8 (b : Bytes.t) : int list =
  let n = Bytes.length b in
  let rec go i acc =
    if i >= n then List.rev acc else
    let c = Char.code (Bytes.get b i) in
    let g k = Char.code (Bytes.get b (i+k)) land 0x3f in
    if c < 0x80 then go (i+1) (c :: acc)
    else if c < 0xe0 then go (i+2) ((((c land 0x1f) lsl 6) lor g 1) :: acc)
    else if c < 0xf0 then go (i+3) ((((c land 0x0f) lsl 12) lor (g 1 lsl 6) lor g 2) :: acc)
    else go (i+4) ((((c land 0x07) lsl 18) lor (g 1 lsl 12) lor (g 2 lsl 6) lor g 3) :: acc)
  in go 0 []

let string_of_chars (l : char list) =
  let b = Buffer.create 256 in List.iter (Buffer.add_char b) l; Buffer.contents b

let () =
  let m = match Sys.argv.(1) with
    | "expr" -> MExpr | "stmt" -> MStmt | "outer" -> MOuter | "type" -> MType | "module" -> MModule
    | _ -> failwith "mode" in
  let ic = open_in Sys.argv.(2) in
  (try
    while true do
      let line = input_line ic in
      let cps = List.map n_of_int (decode_utf8 (unhex line)) in
      (match drive gen_table gen_ptab m cps with
       | LOk (c, t, s) -> Printf.printf "OK %d/%d %s\n" (int_of_nat c) (int_of_nat t) (string_of_chars s)
       | LErr (c, t, spans) ->
           Printf.printf "ERR %d/%d%s\n" (int_of_nat c) (int_of_nat t)
             (String.concat "" (List.map (fun ((l, a), b) ->
                Printf.sprintf " %d:%d:%d" (int_of_n l) (int_of_n a) (int_of_n b)) spans))
       | LFuel -> print_endline "FUEL"
       | LPanic -> print_endline "MODELPANIC")
    done
  with End_of_file -> ());
  close_in ic
