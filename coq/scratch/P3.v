
(* ---------------------------------------------------------------------------------------- *)
(* the interpreter never shrinks a store: by induction on the fuel, for all functions at once *)

Record mono (n : nat) : Prop := mkMono {
  m_eval : forall s0 e ex st, st_le s0 st -> st_le s0 (res_state (eval n e ex st));
  m_eval_multi : forall s0 e ex st, st_le s0 st -> st_le s0 (res_state (eval_multi n e ex st));
  m_eval_list : forall s0 e es st, st_le s0 st -> st_le s0 (res_state (eval_list n e es st));
  m_eval_call : forall s0 e f args st, st_le s0 st -> st_le s0 (res_state (eval_call n e f args st));
  m_eval_fields : forall s0 e fs id i st, st_le s0 st -> st_le s0 (res_state (eval_fields n e fs id i st));
  m_index : forall s0 v k st, st_le s0 st -> st_le s0 (res_state (index n v k st));
  m_setindex : forall s0 t k v st, st_le s0 st -> st_le s0 (res_state (setindex n t k v st));
  m_call : forall s0 f args st, st_le s0 st -> st_le s0 (res_state (call n f args st));
  m_call_builtin : forall s0 b args st, st_le s0 st -> st_le s0 (res_state (call_builtin n b args st));
  m_tostr : forall s0 v st, st_le s0 st -> st_le s0 (res_state (tostr n v st));
  m_print_line : forall s0 args st, st_le s0 st -> st_le s0 (res_state (print_line n args st));
  m_binop : forall s0 op a b st, st_le s0 st -> st_le s0 (res_state (binop_apply n op a b st));
  m_equals : forall s0 a b st, st_le s0 st -> st_le s0 (res_state (equals n a b st));
  m_less_than : forall s0 a b st, st_le s0 st -> st_le s0 (res_state (less_than n a b st));
  m_less_equal : forall s0 a b st, st_le s0 st -> st_le s0 (res_state (less_equal n a b st));
  m_unop : forall s0 op a st, st_le s0 st -> st_le s0 (res_state (unop_apply n op a st));
  m_eval_targets : forall s0 e ts st, st_le s0 st -> st_le s0 (res_state (eval_targets n e ts st));
  m_assign_all : forall s0 rs vs st, st_le s0 st -> st_le s0 (res_state (assign_all n rs vs st));
  m_exec : forall s0 e s st, st_le s0 st -> st_le s0 (res_state (exec n e s st));
  m_exec_block : forall s0 e seen b st, st_le s0 st -> st_le s0 (res_state (exec_block n e seen b st));
  m_exec_while : forall s0 e c b st, st_le s0 st -> st_le s0 (res_state (exec_while n e c b st));
  m_exec_repeat : forall s0 e b c st, st_le s0 st -> st_le s0 (res_state (exec_repeat n e b c st));
  m_exec_numfor : forall s0 e x i h d b st, st_le s0 st -> st_le s0 (res_state (exec_numfor n e x i h d b st));
  m_exec_genfor : forall s0 e xs f s c b st, st_le s0 st -> st_le s0 (res_state (exec_genfor n e xs f s c b st))
}.

Ltac use_ih IH :=
  match goal with
  | |- st_le _ (res_state (eval _ _ _ _)) => apply (m_eval _ IH)
  | |- st_le _ (res_state (eval_multi _ _ _ _)) => apply (m_eval_multi _ IH)
  | |- st_le _ (res_state (eval_list _ _ _ _)) => apply (m_eval_list _ IH)
  | |- st_le _ (res_state (eval_call _ _ _ _ _)) => apply (m_eval_call _ IH)
  | |- st_le _ (res_state (eval_fields _ _ _ _ _ _)) => apply (m_eval_fields _ IH)
  | |- st_le _ (res_state (index _ _ _ _)) => apply (m_index _ IH)
  | |- st_le _ (res_state (setindex _ _ _ _ _)) => apply (m_setindex _ IH)
  | |- st_le _ (res_state (call _ _ _ _)) => apply (m_call _ IH)
  | |- st_le _ (res_state (call_builtin _ _ _ _)) => apply (m_call_builtin _ IH)
  | |- st_le _ (res_state (tostr _ _ _)) => apply (m_tostr _ IH)
  | |- st_le _ (res_state (print_line _ _ _)) => apply (m_print_line _ IH)
  | |- st_le _ (res_state (binop_apply _ _ _ _ _)) => apply (m_binop _ IH)
  | |- st_le _ (res_state (equals _ _ _ _)) => apply (m_equals _ IH)
  | |- st_le _ (res_state (less_than _ _ _ _)) => apply (m_less_than _ IH)
  | |- st_le _ (res_state (less_equal _ _ _ _)) => apply (m_less_equal _ IH)
  | |- st_le _ (res_state (unop_apply _ _ _ _)) => apply (m_unop _ IH)
  | |- st_le _ (res_state (eval_targets _ _ _ _)) => apply (m_eval_targets _ IH)
  | |- st_le _ (res_state (assign_all _ _ _ _)) => apply (m_assign_all _ IH)
  | |- st_le _ (res_state (exec _ _ _ _)) => apply (m_exec _ IH)
  | |- st_le _ (res_state (exec_block _ _ _ _ _)) => apply (m_exec_block _ IH)
  | |- st_le _ (res_state (exec_while _ _ _ _ _)) => apply (m_exec_while _ IH)
  | |- st_le _ (res_state (exec_repeat _ _ _ _ _)) => apply (m_exec_repeat _ IH)
  | |- st_le _ (res_state (exec_numfor _ _ _ _ _ _ _ _)) => apply (m_exec_numfor _ IH)
  | |- st_le _ (res_state (exec_genfor _ _ _ _ _ _ _ _)) => apply (m_exec_genfor _ IH)
  | |- st_le _ (res_state (pure_builtin _ _ _)) => apply pure_builtin_le
  | |- st_le _ (res_state (arith_num _ _ _ _)) => apply arith_num_le
  end; finish_le.

(* pcall inspects the result of the call *)
Ltac pcall_step IH :=
  match goal with
  | |- st_le ?s0 (res_state (match call ?n ?f ?a ?st with _ => _ end)) =>
      let H := fresh "Hc" in
      assert (H : st_le s0 (res_state (call n f a st))) by (apply (m_call _ IH); finish_le);
      destruct (call n f a st); cbn [res_state] in H
  end.

Ltac mono_solve IH := repeat first [ pcall_step IH | use_ih IH | mono_step ].

Lemma mono_zero : mono O.
Proof. constructor; intros; cbn; assumption. Qed.

Lemma mono_succ : forall n, mono n -> mono (S n).
Proof.
  intros n IH. constructor; intros.
  - cbn [eval]. mono_solve IH.
  - cbn [eval_multi]. mono_solve IH.
  - cbn [eval_list]. mono_solve IH.
  - cbn [eval_call]. mono_solve IH.
  - cbn [eval_fields]. mono_solve IH.
  - cbn [index]. mono_solve IH.
  - cbn [setindex]. mono_solve IH.
  - cbn [call]. mono_solve IH.
  - cbn [call_builtin]. mono_solve IH.
  - cbn [tostr]. mono_solve IH.
  - cbn [print_line]. mono_solve IH.
  - cbn [binop_apply]. mono_solve IH.
  - cbn [equals]. mono_solve IH.
  - cbn [less_than]. mono_solve IH.
  - cbn [less_equal]. mono_solve IH.
  - cbn [unop_apply]. mono_solve IH.
  - cbn [eval_targets]. mono_solve IH.
  - cbn [assign_all]. mono_solve IH.
  - cbn [exec]. mono_solve IH.
  - cbn [exec_block]. mono_solve IH.
  - cbn [exec_while]. mono_solve IH.
  - cbn [exec_repeat]. mono_solve IH.
  - cbn [exec_numfor]. mono_solve IH.
  - cbn [exec_genfor]. mono_solve IH.
Qed.

Theorem mono_all : forall n, mono n.
Proof. induction n; [apply mono_zero | apply mono_succ; assumption]. Qed.
