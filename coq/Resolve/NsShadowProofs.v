(* Under `no_ns_shadow` (Resolve/NsShadow.v) the specification with the namespace table consulted first
   for the root of `x.f` and the documented specification (scope first) are the same function:
       no_ns_shadow fx ast = true -> resolve_spec_nsfirst fx ast = resolve_spec fx ast.
   Invariant: every name in the environment is one of the program's binder names, and the namespace
   tables are those left by the two namespace passes. *)
From Coq Require Import String List NArith ZArith Bool Lia Arith.
From Sylt Require Import Syntax.Resolved Resolve.PAst Resolve.Resolver Resolve.ResolveSpec Resolve.Wf Resolve.NsShadow.
Import ListNotations.
Local Open Scope string_scope.
Local Open Scope list_scope.

Section NS.
Variable B : list string.
Variable st0 : rstate.                     (* the state after the namespace passes *)

Notation plain := (plain_in st0).
Notation chk_e := (chk_e B plain).
Notation chk_a := (chk_a B plain).
Notation chk_s := (chk_s B plain).
Notation inB := (inB B).

(* the namespace tables never change while statements are resolved *)
Definition Pst (st : rstate) : Prop := st_ns st = st_ns st0 /\ st_n2f st = st_n2f st0.

Definition env_in (e : env) : Prop := Forall (fun p => inB (fst p) = true) (env_flat e).

(* m and m' agree on every state with the right tables, keep the tables, and their results satisfy Q *)
Definition good {A} (Q : A -> Prop) (m m' : M A) : Prop :=
  forall st, Pst st -> m st = m' st /\ (forall a st', m st = Ok (a, st') -> Pst st' /\ Q a).

Lemma good_ret {A} (Q : A -> Prop) a : Q a -> good Q (ret a) (ret a).
Proof. intros HQ st HP. split; [reflexivity|]. intros a' st' H. inversion H; subst. auto. Qed.

Lemma good_fail {A} (Q : A -> Prop) k sp : good Q (fail k sp) (fail k sp).
Proof. intros st HP. split; [reflexivity|]. intros a st' H. discriminate. Qed.

Lemma good_bind {A C} (Qa : A -> Prop) (Qb : C -> Prop) (m m' : M A) (k k' : A -> M C) :
  good Qa m m' -> (forall a, Qa a -> good Qb (k a) (k' a)) -> good Qb (bind m k) (bind m' k').
Proof.
  intros Hm Hk st HP. destruct (Hm st HP) as [E Hpost]. unfold bind. rewrite <- E.
  destruct (m st) as [[a s1]| | |]; try (split; [reflexivity|intros; discriminate]).
  destruct (Hpost a s1 eq_refl) as [HP1 Qa1]. exact (Hk a Qa1 s1 HP1).
Qed.

Lemma good_weaken {A} (Q Q' : A -> Prop) m m' : (forall a, Q a -> Q' a) -> good Q m m' -> good Q' m m'.
Proof.
  intros HQ H st HP. destruct (H st HP) as [E Hp]. split; [exact E|].
  intros a st' Hr. destruct (Hp a st' Hr). auto.
Qed.

Lemma good_lift {A} (f : rstate -> res A) : good (fun _ => True) (lift f) (lift f).
Proof.
  intros st HP. split; [reflexivity|]. intros a st' H. unfold lift in H.
  destruct (f st); inversion H; subst. auto.
Qed.

Lemma good_new_var i k : good (fun _ => True) (new_var i k) (new_var i k).
Proof.
  intros st [H1 H2]. split; [reflexivity|]. intros a st' H. inversion H; subst. split; [split; assumption|exact I].
Qed.

Lemma good_mapM {X Y} (p : X -> bool) (g g' : X -> M Y) :
  (forall x, p x = true -> good (fun _ => True) (g x) (g' x)) ->
  forall l, all_with p l = true -> good (fun _ => True) (mapM g l) (mapM g' l).
Proof.
  intros H. induction l as [|x l IH]; intros Hl; cbn [mapM]; [apply good_ret; exact I|].
  cbn in Hl. apply andb_true_iff in Hl as [Hx Hl].
  eapply good_bind; [apply H; exact Hx|]. intros y _.
  eapply good_bind; [apply IH; exact Hl|]. intros ys _. apply good_ret. exact I.
Qed.

Lemma env_in_scope e : env_in e -> env_in ([] :: e).
Proof. intros H. exact H. Qed.

Lemma env_in_cons1 n r e : inB n = true -> env_in e -> env_in ([(n, r)] :: e).
Proof. intros Hn H. unfold env_in. cbn. constructor; assumption. Qed.

Lemma env_in_add n r e : inB n = true -> env_in e -> env_in (env_add e n r).
Proof.
  intros Hn H. unfold env_in. destruct e as [|sc e]; cbn.
  - constructor; [assumption|constructor].
  - constructor; assumption.
Qed.

Lemma env_in_nil : env_in [].
Proof. constructor. Qed.

Lemma env_in_find e x r : env_in e -> stack_find (env_flat e) x = Some r -> inB x = true.
Proof.
  unfold env_in. induction (env_flat e) as [|[n v] l IH]; cbn; intros H Hf; [discriminate|].
  inversion H; subst. destruct (String.eqb_spec n x) as [->|_]; [assumption|auto].
Qed.

Lemma lookup_global_Pst st fid x : Pst st -> lookup_global st fid x = lookup_global st0 fid x.
Proof. intros [H1 H2]. unfold lookup_global. rewrite H1, H2. reflexivity. Qed.

(* a chain whose root is certainly not a namespace name of the file is not a namespace path *)
Lemma namespace_file_plain st fid a x :
  Pst st -> chain_root a = Some x -> plain fid x = true -> namespace_file st fid a = Ok None.
Proof.
  intros HP. induction a; cbn; intros Hr Hp; try discriminate.
  - inversion Hr; subst. rewrite (lookup_global_Pst _ _ _ HP). unfold plain_in in Hp.
    destruct (lookup_global st0 fid (i_name i)) as [[[r|f sp0]|]| | |]; try discriminate; reflexivity.
  - rewrite (IHa Hr Hp). reflexivity.
Qed.

(* the one place where the two specifications differ *)
Lemma access_agree e a sp :
  env_in e -> root_ok B plain (sp_file sp) a = true ->
  good (fun _ => True)
    (lift (fun st => if false && root_on_stack (with_env st e) a then Ok None else namespace_list st (sp_file sp) a))
    (lift (fun st => if true && root_on_stack (with_env st e) a then Ok None else namespace_list st (sp_file sp) a)).
Proof.
  intros He Hr st HP. cbn [andb]. split.
  - unfold lift. unfold root_on_stack, root_ok in *. cbn [st_stack with_env].
    destruct (chain_root a) as [x|] eqn:Ec; [|reflexivity].
    destruct (stack_find (env_flat e) x) as [r|] eqn:Ef; [|reflexivity].
    rewrite (env_in_find _ _ _ He Ef) in Hr. cbn in Hr.
    unfold namespace_list. rewrite (namespace_file_plain st _ a x HP Ec Hr). reflexivity.
  - intros o st' H. unfold lift in H. destruct (namespace_list st (sp_file sp) a); inversion H; subst. auto.
Qed.

Definition Ge (f : nat) : Prop :=
  forall e x, chk_e x = true -> env_in e -> good (fun _ => True) (expr_s false f e x) (expr_s true f e x).
Definition Ga (f : nat) : Prop :=
  forall e a, chk_a a = true -> env_in e -> good (fun _ => True) (assign_s false f e a) (assign_s true f e a).
Definition Gs (f : nat) : Prop :=
  forall e s, chk_s s = true -> env_in e ->
  good (fun r => env_in (snd r)) (stmt_s false f e s) (stmt_s true f e s).

Ltac split_chk H :=
  repeat match type of H with
         | (_ && _) = true => let H1 := fresh "Hc" in apply andb_true_iff in H as [H H1]
         end.

Section Step.
Variable f : nat.
Hypothesis IHe : Ge f.
Hypothesis IHa : Ga f.
Hypothesis IHs : Gs f.

Lemma g_args e l : all_with chk_e l = true -> env_in e ->
  good (fun _ => True) (mapM (expr_s false f e) l) (mapM (expr_s true f e) l).
Proof. intros Hl He. apply (good_mapM chk_e); [|exact Hl]. intros x Hx. apply IHe; assumption. Qed.

Lemma g_optM e o : (match o with Some c => chk_e c | None => true end) = true -> env_in e ->
  good (fun _ => True) (optM (expr_s false f e) o) (optM (expr_s true f e) o).
Proof.
  intros Ho He. destruct o as [c|]; cbn [optM]; [|apply good_ret; exact I].
  eapply good_bind; [apply IHe; assumption|]. intros y _. apply good_ret. exact I.
Qed.

Lemma g_seq ss : forall e, all_with chk_s ss = true -> env_in e ->
  good (fun _ => True) (seq_with (stmt_s false f) e ss) (seq_with (stmt_s true f) e ss).
Proof.
  induction ss as [|s ss IH]; intros e Hw He; cbn [seq_with]; [apply good_ret; exact I|].
  cbn in Hw. apply andb_true_iff in Hw as [Hs Hss].
  eapply good_bind; [apply IHs; eassumption|]. intros r Hr.
  eapply good_bind; [apply IH; assumption|]. intros rest _. apply good_ret. exact I.
Qed.

Lemma g_binop e op a b sp : chk_e a = true -> chk_e b = true -> env_in e ->
  good (fun _ => True) (binop_with (expr_s false f e) op a b sp) (binop_with (expr_s true f e) op a b sp).
Proof.
  intros Ha Hb He. unfold binop_with. eapply good_bind; [apply IHe; assumption|]. intros x _.
  eapply good_bind; [apply IHe; assumption|]. intros y _. apply good_ret. exact I.
Qed.

Lemma g_uniop e op a sp : chk_e a = true -> env_in e ->
  good (fun _ => True) (uniop_with (expr_s false f e) op a sp) (uniop_with (expr_s true f e) op a sp).
Proof.
  intros Ha He. unfold uniop_with. eapply good_bind; [apply IHe; assumption|]. intros x _. apply good_ret. exact I.
Qed.

Lemma g_params ps : forall e, all_with (fun p => inB (i_name (fst p))) ps = true -> env_in e ->
  good (fun r => env_in (snd r)) (params_spec e ps) (params_spec e ps).
Proof.
  induction ps as [|[n t] ps IH]; intros e Hp He; cbn [params_spec]; [apply good_ret; exact He|].
  cbn in Hp. apply andb_true_iff in Hp as [Hn Hp].
  eapply good_bind; [apply good_new_var|]. intros v _.
  eapply good_bind; [apply good_lift|]. intros t' _.
  eapply good_bind; [apply IH; [assumption|apply env_in_add; assumption]|]. intros r Hr.
  apply good_ret. exact Hr.
Qed.

Lemma gstep_e : Ge (S f).
Proof.
  intros e x Hw He. destruct x; cbn [expr_s]; cbn [NsShadow.chk_e] in Hw.
  - apply IHa; assumption.
  - split_chk Hw. apply g_binop; assumption.
  - split_chk Hw. apply g_binop; assumption.
  - split_chk Hw. apply g_binop; assumption.
  - split_chk Hw. apply g_binop; assumption.
  - apply g_uniop; assumption.
  - split_chk Hw. apply g_binop; assumption.
  - split_chk Hw. apply g_binop; assumption.
  - split_chk Hw. apply g_binop; assumption.
  - split_chk Hw. apply g_binop; assumption.
  - apply g_uniop; assumption.
  - apply IHe; assumption.
  - (* PIf *)
    eapply good_bind; [|intros y _; apply good_ret; exact I].
    eapply (good_mapM (fun b => match b with PIfBranch c body _ =>
                         (match c with Some c => chk_e c | None => true end) && all_with chk_s body end));
      [|exact Hw].
    intros [c body bsp] Hb. apply andb_true_iff in Hb as [Hc Hbody].
    eapply good_bind; [apply g_optM; assumption|]. intros c' _.
    eapply good_bind; [apply (g_seq body ([] :: e) Hbody (env_in_scope e He))|]. intros b' _.
    apply good_ret. exact I.
  - (* PCase *)
    split_chk Hw.
    eapply good_bind; [apply IHe; assumption|]. intros tm' _.
    eapply good_bind.
    { eapply (good_mapM (fun b => match b with PCaseBranch _ v body =>
                           (match v with Some i => inB (i_name i) | None => true end) && all_with chk_s body end));
        [|exact Hc0].
      intros [pat v body] Hb. apply andb_true_iff in Hb as [Hv Hbody].
      eapply good_bind with (Qa := fun _ => True).
      { destruct v as [i|]; cbn [optM]; [|apply good_ret; exact I].
        eapply good_bind; [apply good_new_var|]. intros r _. apply good_ret. exact I. }
      intros v' _. cbv zeta.
      eapply good_bind; [|intros b' _; apply good_ret; exact I].
      apply g_seq; [assumption|].
      destruct v as [i|]; [destruct v' as [r|]|]; [apply env_in_cons1; assumption|exact He|exact He]. }
    intros brs' _.
    eapply good_bind with (Qa := fun _ => True); [|intros y _; apply good_ret; exact I].
    destruct fall_through as [ft|]; cbn [optM]; [|apply good_ret; exact I].
    eapply good_bind; [apply (g_seq ft ([] :: e) Hc (env_in_scope e He))|]. intros b' _. apply good_ret. exact I.
  - (* PFunction *)
    split_chk Hw.
    eapply good_bind; [apply (g_params params ([] :: e) Hw (env_in_scope e He))|]. intros ps Hps.
    eapply good_bind; [apply good_lift|]. intros rt' _.
    eapply good_bind; [apply g_seq; assumption|]. intros b' _. apply good_ret. exact I.
  - (* PBlob *)
    split_chk Hw.
    eapply good_bind; [apply good_lift|]. intros b _.
    eapply good_bind; [apply good_new_var|]. intros sv _.
    eapply good_bind; [|intros y _; apply good_ret; exact I].
    eapply (good_mapM (fun p => chk_e (snd p))); [|exact Hc].
    intros [n v] Hv. cbn [snd] in Hv.
    eapply good_bind; [|intros y _; apply good_ret; exact I].
    apply IHe; [assumption|]. destruct (is_function v); [apply env_in_cons1; assumption|exact He].
  - eapply good_bind; [apply g_args; assumption|]. intros y _. apply good_ret. exact I.
  - eapply good_bind; [apply g_args; assumption|]. intros y _. apply good_ret. exact I.
  - apply good_ret. exact I.
  - apply good_ret. exact I.
  - apply good_ret. exact I.
  - apply good_ret. exact I.
  - apply good_ret. exact I.
Qed.

Lemma gstep_a : Ga (S f).
Proof.
  intros e a Hw He. destruct a; cbn [assign_s]; cbn [NsShadow.chk_a] in Hw.
  - eapply good_bind; [apply good_lift|]. intros v _. apply good_ret. exact I.
  - split_chk Hw. eapply good_bind; [apply IHa; assumption|]. intros x _.
    destruct x; try apply good_fail.
    eapply good_bind; [apply IHe; assumption|]. intros y _. apply good_ret. exact I.
  - split_chk Hw. eapply good_bind; [apply IHa; assumption|]. intros x _.
    eapply good_bind; [apply g_args; assumption|]. intros y _. apply good_ret. exact I.
  - split_chk Hw. eapply good_bind; [apply IHe; assumption|]. intros z _.
    eapply good_bind; [apply IHa; assumption|]. intros x _.
    eapply good_bind; [apply g_args; assumption|]. intros y _. apply good_ret. exact I.
  - (* AAccess *)
    split_chk Hw.
    eapply good_bind; [apply access_agree; assumption|]. intros ns _.
    destruct ns as [ns|].
    + eapply good_bind; [apply good_lift|]. intros o _.
      destruct o as [[v|f0 s0]|]; [apply good_ret; exact I|apply good_fail|apply good_fail].
    + eapply good_bind; [apply IHa; assumption|]. intros v _. apply good_ret. exact I.
  - split_chk Hw. eapply good_bind; [apply IHa; assumption|]. intros x _.
    eapply good_bind; [apply IHe; assumption|]. intros y _. apply good_ret. exact I.
  - apply IHe; assumption.
Qed.

Lemma gstep_s : Gs (S f).
Proof.
  intros e s Hw He. destruct s; cbn [stmt_s]; cbn [NsShadow.chk_s] in Hw; try (apply good_ret; exact He).
  - (* PBlobDef *)
    eapply good_bind; [apply good_lift|]. intros v _.
    eapply good_bind; [apply good_lift|]. intros fs _. apply good_ret. exact He.
  - (* PEnumDef *)
    eapply good_bind; [apply good_lift|]. intros v _.
    eapply good_bind; [apply good_lift|]. intros fs _. apply good_ret. exact He.
  - (* PAssignment *)
    split_chk Hw. eapply good_bind; [apply IHe; assumption|]. intros y _.
    eapply good_bind; [apply IHa; assumption|]. intros x _. apply good_ret. exact He.
  - (* PDefinition *)
    split_chk Hw. destruct e as [|sc e0].
    + eapply good_bind; [apply good_new_var|]. intros m _.
      eapply good_bind; [apply IHe; [assumption|apply env_in_cons1; [assumption|exact env_in_nil]]|]. intros y _.
      eapply good_bind; [apply good_lift|]. intros v _.
      eapply good_bind; [apply good_lift|]. intros t' _. apply good_ret. exact env_in_nil.
    + destruct (is_function value).
      * eapply good_bind; [apply good_new_var|]. intros v _.
        eapply good_bind; [apply IHe; [assumption|apply env_in_add; assumption]|]. intros y _.
        eapply good_bind; [apply good_lift|]. intros t' _. apply good_ret. apply env_in_add; assumption.
      * eapply good_bind; [apply IHe; assumption|]. intros y _.
        eapply good_bind; [apply good_new_var|]. intros v _.
        eapply good_bind; [apply good_lift|]. intros t' _. apply good_ret. apply env_in_add; assumption.
  - (* PExternalDefinition *)
    eapply good_bind; [apply good_lift|]. intros v _.
    eapply good_bind; [apply good_lift|]. intros t' _. apply good_ret. exact He.
  - (* PLoop *)
    split_chk Hw. eapply good_bind; [apply IHe; assumption|]. intros c _.
    eapply good_bind; [apply (IHs ([] :: e) s Hc (env_in_scope e He))|]. intros b _. apply good_ret. exact He.
  - (* PRet *)
    eapply good_bind; [apply g_optM; [destruct value; assumption|assumption]|]. intros v _. apply good_ret. exact He.
  - (* PBlock *)
    eapply good_bind; [apply (g_seq statements ([] :: e) Hw (env_in_scope e He))|]. intros b _.
    apply good_ret. exact He.
  - (* PStatementExpression *)
    eapply good_bind; [apply IHe; assumption|]. intros v _. apply good_ret. exact He.
Qed.

End Step.

Lemma g_all : forall f, Ge f /\ Ga f /\ Gs f.
Proof.
  induction f as [|f (IHe & IHa & IHs)].
  - split; [|split]; intros e0 x0 _ _ stq _; (split; [reflexivity|intros aq stq' H; discriminate]).
  - split; [apply gstep_e; assumption|]. split; [apply gstep_a; assumption|apply gstep_s; assumption].
Qed.

End NS.

(* ---------------------------------------------------------------------------------------------- *)

Lemma chk_flat B plain ast :
  all_with (fun m => all_with (chk_s B plain) (m_stmts m)) ast = true ->
  all_with (chk_s B plain) (flat_map m_stmts ast) = true.
Proof.
  induction ast as [|m ast IH]; [reflexivity|]. cbn. intros H. apply andb_true_iff in H as [Hm Ha].
  specialize (IH Ha). clear Ha. induction (m_stmts m) as [|s l IHl]; [exact IH|].
  cbn in Hm. apply andb_true_iff in Hm as [Hs Hl]. cbn. rewrite Hs. cbn. apply IHl. exact Hl.
Qed.

Theorem nsfirst_is_lexical fx ast : no_ns_shadow fx ast = true -> resolve_spec_nsfirst fx ast = resolve_spec fx ast.
Proof.
  unfold no_ns_shadow, passes_state, resolve_spec_nsfirst, resolve_spec, resolve_spec_g, resolve_spec_fuel, resolve_spec_m.
  intros H. unfold bind at 1 in H. unfold bind at 1 5.
  destruct (for_each insert_namespace_and_add_definitions ast (init_state ast)) as [[[] s1]| | |]; try reflexivity.
  unfold bind at 1 4.
  destruct (import_pass fx ast s1) as [[[] s2]| | |];
    try reflexivity.
  pose proof (chk_flat _ _ _ H) as Hc.
  destruct (g_all (binder_names ast) s2 (fuel_of ast)) as (_ & _ & IHs).
  pose proof (g_seq (binder_names ast) s2 (fuel_of ast) IHs (flat_map m_stmts ast) [] Hc
                (env_in_nil (binder_names ast)) s2 (conj eq_refl eq_refl)) as [E _].
  unfold bind at 1 3. rewrite E. reflexivity.
Qed.

(* ---------------------------------------------------------------------------------------------- *)
(* the refinement that applies to the code as soon as the three restore flags are on, whatever it does
   for `x.f` *)
From Sylt Require Import Resolve.RefineProofs.

Theorem resolve_refines_modulo_ns fl :
  restores fl = true ->
  forall ast, wf_ast ast = true -> no_ns_shadow (imports_fixpoint fl) ast = true ->
  resolve fl ast = resolve_spec (imports_fixpoint fl) ast.
Proof.
  intros Hr ast Hw Hn. rewrite (resolve_refines_restores fl Hr ast Hw).
  destruct (access_local_first fl); [reflexivity|]. exact (nsfirst_is_lexical _ ast Hn).
Qed.
