(* Reader for the S-expression text produced by tools/resolved_io.py; builds values of the extracted
   coq/Syntax/Resolved.v types.  This file is textually included after `open <ExtractedModule>`. *)

type sx = A of string | L of sx list

let sx_parse (s : string) : sx =
  let n = String.length s in
  let i = ref 0 in
  let rec skip () = if !i < n && (s.[!i] = ' ' || s.[!i] = '\n' || s.[!i] = '\t') then (incr i; skip ()) in
  let rec value () =
    skip ();
    if s.[!i] = '(' then begin
      incr i;
      let items = ref [] in
      let rec loop () =
        skip ();
        if s.[!i] = ')' then incr i
        else (items := value () :: !items; loop ()) in
      loop (); L (List.rev !items)
    end else begin
      let j = !i in
      while !i < n && s.[!i] <> ' ' && s.[!i] <> '(' && s.[!i] <> ')' && s.[!i] <> '\n' do incr i done;
      A (String.sub s j (!i - j))
    end in
  value ()

let rec rr_pos_of_int n = if n = 1 then XH else if n land 1 = 1 then XI (rr_pos_of_int (n lsr 1)) else XO (rr_pos_of_int (n lsr 1))
let rr_n_of_int n = if n = 0 then N0 else Npos (rr_pos_of_int n)

(* decimal string -> positive, for values beyond OCaml's int (i64 literals) *)
let rr_pos_of_dec (d : string) : positive =
  (* repeated division by 2 on the decimal string *)
  let digits = ref (List.map (fun c -> Char.code c - 48) (List.of_seq (String.to_seq d))) in
  let bits = ref [] in
  let is_zero l = List.for_all (fun x -> x = 0) l in
  while not (is_zero !digits) do
    let carry = ref 0 in
    let q = List.map (fun x -> let v = !carry * 10 + x in carry := v mod 2; v / 2) !digits in
    bits := !carry :: !bits;
    digits := q
  done;
  (* bits: most significant first *)
  match !bits with
  | [] -> failwith "zero"
  | _ :: rest -> List.fold_left (fun acc b -> if b = 1 then XI acc else XO acc) XH rest

let rr_n_of_dec d = if String.for_all (fun c -> c = '0') d then N0 else Npos (rr_pos_of_dec d)
let rr_z_of_dec d =
  if d.[0] = '-' then (let m = String.sub d 1 (String.length d - 1) in
                       if String.for_all (fun c -> c = '0') m then Z0 else Zneg (rr_pos_of_dec m))
  else if String.for_all (fun c -> c = '0') d then Z0 else Zpos (rr_pos_of_dec d)

let rr_chars (s : string) : char list = List.of_seq (String.to_seq s)
let rr_unhex (h : string) : string =
  if h = "-" then "" else String.init (String.length h / 2) (fun i -> Char.chr (int_of_string ("0x" ^ String.sub h (2*i) 2)))

let rr_str = function
  | A a when String.length a >= 2 && a.[0] = 's' && a.[1] = ':' -> rr_chars (rr_unhex (String.sub a 2 (String.length a - 2)))
  | _ -> failwith "expected string atom"
let rr_n = function A a -> rr_n_of_dec a | _ -> failwith "expected number"
let rr_z = function A a -> rr_z_of_dec a | _ -> failwith "expected integer"
let rr_bool = function A "t" -> true | A "f" -> false | _ -> failwith "expected bool"
let rr_list f = function L (A "l" :: xs) -> List.map f xs | _ -> failwith "expected list"
let rr_opt f = function A "none" -> None | L [A "some"; x] -> Some (f x) | _ -> failwith "expected option"

let rr_span = function
  | L [A "sp"; a; b; c; d; e] -> { sp_file = rr_n a; sp_line0 = rr_n b; sp_line1 = rr_n c; sp_col0 = rr_n d; sp_col1 = rr_n e }
  | _ -> failwith "expected span"

let rr_kind = function A "Const" -> Const | A "Mutable" -> Mutable | _ -> failwith "varkind"
let rr_binop = function
  | A "Nop" -> Nop | A "Equals" -> Equals | A "NotEquals" -> NotEquals | A "Greater" -> Greater
  | A "GreaterEqual" -> GreaterEqual | A "Less" -> Less | A "LessEqual" -> LessEqual | A "AssertEq" -> AssertEq
  | A "Add" -> Add | A "Sub" -> Sub | A "Mul" -> Mul | A "Div" -> Div | A "And" -> And | A "Or" -> Or
  | _ -> failwith "binop"
let rr_uniop = function A "Neg" -> Neg | A "Not" -> Not | _ -> failwith "uniop"
let rr_base = function
  | A "BVoid" -> BVoid | A "BNil" -> BNil | A "BInt" -> BInt | A "BFloat" -> BFloat | A "BBool" -> BBool
  | A "BStr" -> BStr | A "BUnknown" -> BUnknown | _ -> failwith "basety"

let rec rr_ty = function
  | L [A "TUser"; r; args; sp] -> TUser (rr_n r, rr_list rr_ty args, rr_span sp)
  | L [A "TImplied"; sp] -> TImplied (rr_span sp)
  | L [A "TResolved"; b; sp] -> TResolved (rr_base b, rr_span sp)
  | L [A "TGeneric"; n; sp] -> TGeneric (rr_str n, rr_span sp)
  | L [A "TTuple"; ts; sp] -> TTuple (rr_list rr_ty ts, rr_span sp)
  | L [A "TList"; t; sp] -> TList (rr_ty t, rr_span sp)
  | L [A "TFn"; cons; ps; ret; pure; sp] ->
      let con = function
        | L [A "c"; k; cs] ->
            (rr_str k, rr_list (function L [A "tc"; n; args] -> { tc_name = rr_str n; tc_args = rr_list rr_str args }
                                       | _ -> failwith "tc") cs)
        | _ -> failwith "constraint" in
      TFn (rr_list con cons, rr_list rr_ty ps, rr_ty ret, rr_bool pure, rr_span sp)
  | _ -> failwith "ty"

let rec rr_expr = function
  | L [A "ERead"; v; sp] -> ERead (rr_n v, rr_span sp)
  | L [A "EVariant"; t; v; e; sp] -> EVariant (rr_n t, rr_str v, rr_expr e, rr_span sp)
  | L [A "ECall"; f; args; sp] -> ECall (rr_expr f, rr_list rr_expr args, rr_span sp)
  | L [A "EBlobAccess"; e; f; sp] -> EBlobAccess (rr_expr e, rr_str f, rr_span sp)
  | L [A "EIndex"; e; i; sp] -> EIndex (rr_expr e, rr_expr i, rr_span sp)
  | L [A "EBinOp"; op; a; b; sp] -> EBinOp (rr_binop op, rr_expr a, rr_expr b, rr_span sp)
  | L [A "EUniOp"; op; a; sp] -> EUniOp (rr_uniop op, rr_expr a, rr_span sp)
  | L [A "EIf"; brs; sp] ->
      EIf (rr_list (function L [A "IfBranch"; c; b; s] -> IfBranch (rr_opt rr_expr c, rr_stmts b, rr_span s)
                           | _ -> failwith "ifbranch") brs, rr_span sp)
  | L [A "ECase"; m; brs; ft; sp] ->
      ECase (rr_expr m,
             rr_list (function L [A "CaseBranch"; p; psp; v; b; s] ->
                                 CaseBranch (rr_str p, rr_span psp, rr_opt rr_n v, rr_stmts b, rr_span s)
                             | _ -> failwith "casebranch") brs,
             rr_opt rr_stmts ft, rr_span sp)
  | L [A "EFunction"; n; ps; ret; body; pure; sp] ->
      EFunction (rr_str n,
                 rr_list (function L [A "p"; pn; v; s; t] -> (((rr_str pn, rr_n v), rr_span s), rr_ty t)
                                 | _ -> failwith "param") ps,
                 rr_ty ret, rr_stmts body, rr_bool pure, rr_span sp)
  | L [A "EBlob"; b; fs; sv; sp] ->
      EBlob (rr_n b, rr_list (function L [A "f"; n; e] -> (rr_str n, rr_expr e) | _ -> failwith "field") fs,
             rr_n sv, rr_span sp)
  | L [A "ECollection"; c; vs; sp] ->
      ECollection ((match c with A "CTuple" -> CTuple | A "CList" -> CList | _ -> failwith "coll"),
                   rr_list rr_expr vs, rr_span sp)
  | L [A "EFloat"; r; sp] -> EFloat (rr_str r, rr_span sp)
  | L [A "EInt"; z; sp] -> EInt (rr_z z, rr_span sp)
  | L [A "EStr"; s; sp] -> EStr (rr_str s, rr_span sp)
  | L [A "EBool"; b; sp] -> EBool (rr_bool b, rr_span sp)
  | L [A "ENil"; sp] -> ENil (rr_span sp)
  | _ -> failwith "expr"

and rr_stmts x = rr_list rr_stmt x

and rr_fields x =
  rr_list (function L [A "fd"; n; s; t] -> (rr_str n, (rr_span s, rr_ty t)) | _ -> failwith "fd") x

and rr_stmt = function
  | L [A "SAssignment"; op; t; v; sp] -> SAssignment (rr_binop op, rr_expr t, rr_expr v, rr_span sp)
  | L [A "SBlob"; n; v; sp; vars; fs; ext] ->
      SBlob (rr_str n, rr_n v, rr_span sp, rr_list rr_str vars, rr_fields fs, rr_bool ext)
  | L [A "SEnum"; n; v; sp; vars; fs] -> SEnum (rr_str n, rr_n v, rr_span sp, rr_list rr_str vars, rr_fields fs)
  | L [A "SDefinition"; n; v; k; t; e; sp] ->
      SDefinition (rr_str n, rr_n v, rr_kind k, rr_ty t, rr_expr e, rr_span sp)
  | L [A "SExternalDefinition"; n; v; k; t; sp] ->
      SExternalDefinition (rr_str n, rr_n v, rr_kind k, rr_ty t, rr_span sp)
  | L [A "SLoop"; c; b; sp] -> SLoop (rr_expr c, rr_stmts b, rr_span sp)
  | L [A "SBreak"; sp] -> SBreak (rr_span sp)
  | L [A "SContinue"; sp] -> SContinue (rr_span sp)
  | L [A "SRet"; v; sp] -> SRet (rr_opt rr_expr v, rr_span sp)
  | L [A "SBlock"; b; sp] -> SBlock (rr_stmts b, rr_span sp)
  | L [A "SStatementExpression"; e; sp] -> SStatementExpression (rr_expr e, rr_span sp)
  | L [A "SUnreachable"; sp] -> SUnreachable (rr_span sp)
  | _ -> failwith "stmt"

let rr_var = function
  | L [A "var"; id; n; sp; g; k] ->
      { v_id = rr_n id; v_name = rr_str n; v_def = rr_span sp; v_global = rr_bool g; v_kind = rr_kind k }
  | _ -> failwith "var"

let rr_resolved = function
  | L [A "resolved"; vs; ss] -> { r_vars = rr_list rr_var vs; r_stmts = rr_stmts ss }
  | _ -> failwith "resolved"

let read_resolved (s : string) : resolved = rr_resolved (sx_parse s)
