#!/usr/bin/env python3
"""Run Lua source in the extracted LuaCore model (there is no Lua interpreter in the sandbox).

    run_lua(sources, fuel=400000, dialect="5.3", timeout=None) -> list of dict(final, msg, trace)
        final in {"done", "error", "fuel", "unsupported", "loaderr", "crash"}; msg is the error / reason
        text ("" for done/fuel); trace is the list of printed lines (bytes decoded as latin-1 so
        that every byte survives).  Never raises for a case the driver could not finish (time-out,
        stack overflow, abort): that case gets final="crash" (msg says why) and the others still run.
        timeout: seconds allowed PER CASE (default 60).
    lua_wf(sources, dialect="5.3", timeout=None) -> list of None | reason
        None = the interpreter of that dialect would load the chunk.  A reason starting with
        "line N: unsupported:" means LuaCore does not model that syntax (not that Lua rejects it).
    split_preamble(text) -> (preamble, body)
        checks that the emitted text starts with the exact bytes of /repo/sylt-compiler/src/preamble.lua.

dialect: "5.3" = PUC-Rio Lua 5.3 with LUA_COMPAT_5_2, what the repo's CI runs: the REFERENCE semantics;
         "jit" = LuaJIT 2.x without 5.2 compatibility (Lua 5.1 rules + goto): information only.

Command line:  lua_run.py [--wf] [--jit] [--fuel N] [--timeout S] FILE.lua ...
"""
import os
import select
import subprocess
import sys
import time

sys.path.insert(0, os.path.dirname(os.path.abspath(__file__)))
import vlib

DEFAULT_FUEL = 400000
DEFAULT_TIMEOUT = 60.0
DIALECTS = {"5.3": "53", "53": "53", "lua53": "53", "jit": "jit", "luajit": "jit", "5.1": "jit"}
PREAMBLE_PATH = os.path.join(vlib.REPO, "sylt-compiler", "src", "preamble.lua")
_EXE = None


def build():
    """Build (cached) the extracted driver; returns its path."""
    global _EXE
    if _EXE:
        return _EXE
    ok, out = vlib.coq_make(["Lua/LuaCore.vo", "Lua/LuaWf.vo"])
    if not ok:
        raise RuntimeError("coq build of Lua/* failed:\n" + out[-3000:])
    ok, exe, out = vlib.build_ocaml("lua", "ExtractLua.v", "lua_driver.ml", "luamodel")
    if not ok:
        raise RuntimeError("extraction/ocaml build failed:\n" + out[-3000:])
    _EXE = exe
    return exe


def _suffix(dialect):
    try:
        return DIALECTS[str(dialect).lower()]
    except KeyError:
        raise ValueError("unknown dialect %r (use \"5.3\" or \"jit\")" % (dialect,))


def _run_shard(exe, cases, timeout):
    """One driver process per run of cases; a case that produces no line within `timeout` seconds (or
    kills the process) is reported as 'CRASH <why>' and the run resumes with the next case."""
    out = []
    start = 0
    # the interpreter recurses deeply (fuel bounds the depth): lift the stack limit
    shell = 'ulimit -s unlimited 2>/dev/null || ulimit -s 4000000 2>/dev/null; OCAMLRUNPARAM=s=4M,o=400 exec "$0" "$@"'
    while start < len(cases):
        path = vlib.tmpfile(".cases")
        with open(path, "w") as f:
            f.write("\n".join(cases[start:]) + "\n")
        p = subprocess.Popen(["/bin/sh", "-c", shell, exe, path], stdout=subprocess.PIPE, stderr=subprocess.DEVNULL)
        buf = b""
        got = 0
        why = None
        deadline = time.time() + timeout
        try:
            while start + got < len(cases):
                nl = buf.find(b"\n")
                if nl >= 0:
                    out.append(buf[:nl].decode("ascii", "replace"))
                    buf = buf[nl + 1:]
                    got += 1
                    deadline = time.time() + timeout
                    continue
                left = deadline - time.time()
                if left <= 0:
                    why = "timeout after %gs" % timeout
                    break
                r, _, _ = select.select([p.stdout], [], [], left)
                if not r:
                    why = "timeout after %gs" % timeout
                    break
                chunk = os.read(p.stdout.fileno(), 1 << 16)
                if not chunk:
                    p.wait()
                    why = "driver exited with status %s" % p.returncode
                    break
                buf += chunk
        finally:
            if p.poll() is None:
                p.kill()
            p.wait()
            p.stdout.close()
            os.remove(path)
        start += got
        if start < len(cases):
            out.append("CRASH " + (why or "no output"))
            start += 1
    return out


def _model(cases, timeout):
    exe = build()
    t = DEFAULT_TIMEOUT if timeout is None else float(timeout)
    return vlib.sharded(lambda cs: _run_shard(exe, cs, t), cases)


def _txt(h):
    return vlib.unhex(h).decode("latin-1")


def _src_bytes(s):
    return s if isinstance(s, bytes) else s.encode("utf-8")


def run_lua(sources, fuel=DEFAULT_FUEL, dialect="5.3", timeout=None):
    mode = "run" + _suffix(dialect)
    cases = ["%s\t%d\t%s" % (mode, fuel, vlib.hexs(_src_bytes(s))) for s in sources]
    out = []
    for line in _model(cases, timeout):
        f = line.split(" ")
        if f[0] != "RUN" or len(f) < 3:
            out.append({"final": "crash", "msg": line, "trace": []})
            continue
        fin = f[1]
        msg = ""
        if ":" in fin:
            fin, h = fin.split(":", 1)
            msg = _txt(h)
        out.append({"final": fin, "msg": msg, "trace": [_txt(h) for h in f[3:3 + int(f[2])]]})
    return out


def lua_wf(sources, dialect="5.3", timeout=None):
    mode = "wf" + _suffix(dialect)
    cases = ["%s\t0\t%s" % (mode, vlib.hexs(_src_bytes(s))) for s in sources]
    out = []
    for line in _model(cases, timeout):
        if line == "WF ok":
            out.append(None)
        elif line.startswith("WF bad:"):
            out.append(_txt(line[len("WF bad:"):]))
        else:
            out.append("crash: " + line)
    return out


def split_preamble(text):
    """(preamble, body) of an emitted chunk; ValueError unless it starts with the exact bytes of the repo's
    preamble.lua (lua.rs writes include_str!("preamble.lua") first).  str in -> str out, bytes in -> bytes out."""
    pre = open(PREAMBLE_PATH, "rb").read()
    if isinstance(text, bytes):
        if not text.startswith(pre):
            raise ValueError("emitted text does not start with the bytes of " + PREAMBLE_PATH)
        return text[:len(pre)], text[len(pre):]
    pre_s = pre.decode("utf-8")
    if not text.startswith(pre_s):
        raise ValueError("emitted text does not start with the text of " + PREAMBLE_PATH)
    return text[:len(pre_s)], text[len(pre_s):]


def main(argv):
    fuel = DEFAULT_FUEL
    wf = False
    dialect = "5.3"
    timeout = None
    files = []
    i = 0
    while i < len(argv):
        if argv[i] == "--fuel":
            fuel = int(argv[i + 1])
            i += 2
        elif argv[i] == "--timeout":
            timeout = float(argv[i + 1])
            i += 2
        elif argv[i] == "--wf":
            wf = True
            i += 1
        elif argv[i] == "--jit":
            dialect = "jit"
            i += 1
        else:
            files.append(argv[i])
            i += 1
    srcs = [open(f, "rb").read() for f in files]
    if wf:
        for f, r in zip(files, lua_wf(srcs, dialect, timeout)):
            print("%s: %s" % (f, "ok" if r is None else "BAD: " + r))
    else:
        for f, r in zip(files, run_lua(srcs, fuel, dialect, timeout)):
            print("== %s: %s %s" % (f, r["final"], r["msg"]))
            for l in r["trace"]:
                print(l)


if __name__ == "__main__":
    main(sys.argv[1:])
