(* C10 -- function activations and closures do not interfere.  (static half, placeholder until the
   scoping theorem is proved) *)
From Coq Require Import String List NArith ZArith Bool.
From Sylt Require Import Syntax.Resolved Back.IR Back.Emit Back.Scope.
Import ListNotations.

(* Non-vacuity of the checker: a chunk whose if-expression result is assigned without having been
   introduced is rejected, the same chunk with the introduction is accepted. *)
Example C10_checker_rejects_global_temp :
  ir_scoped [IBool 5 true; IIf 5; IInt 6 10%Z; IAssign 7 6; IEnd]%N = false.
Proof. vm_compute. reflexivity. Qed.
Example C10_checker_accepts_local_temp :
  ir_scoped [IDefine 7; IBool 5 true; IIf 5; IInt 6 10%Z; IAssign 7 6; IEnd]%N = true.
Proof. vm_compute. reflexivity. Qed.
