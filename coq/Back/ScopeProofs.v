(* lower_scoped: the lowering of a program whose resolved AST is lexically scoped (RScope) produces IR
   that satisfies the scoping discipline of Back/Scope.v: nothing is read or assigned outside the block
   that introduces it, so no temporary or user variable becomes a Lua global. *)
From Coq Require Import String List NArith ZArith Bool Lia.
From Sylt Require Import Syntax.Resolved Back.IR Back.Scope Back.RScope.
Import ListNotations.
Local Open Scope N_scope.

(* ---------------------------------------------------------------- monad inversion *)
Lemma bind_ok {A B} (m : M A) (k : A -> M B) c b c2 :
  bind m k c = Ok (b, c2) -> exists a c1, m c = Ok (a, c1) /\ k a c1 = Ok (b, c2).
Proof.
  unfold bind. destruct (m c) as [[a c1]| |]; intros H; try discriminate. eauto.
Qed.
Lemma ret_ok {A} (a b : A) c c' : ret a c = Ok (b, c') -> a = b /\ c = c'.
Proof. unfold ret. intros H; inversion H; auto. Qed.
Lemma fresh_ok c v c' : fresh c = Ok (v, c') -> v = c /\ c' = c + 1.
Proof. unfold fresh. intros H; inversion H; auto. Qed.
Lemma panic_ok {A} s c (r : A * N) : panic s c = Ok r -> False.
Proof. discriminate. Qed.
Lemma oof_ok {A} c (r : A * N) : out_of_fuel c = Ok r -> False.
Proof. discriminate. Qed.

Ltac mon H :=
  repeat match type of H with
  | bind _ _ _ = Ok _ =>
      let a := fresh "a" in let c1 := fresh "c" in let H1 := fresh "Hm" in
      apply bind_ok in H as (a & c1 & H1 & H)
  | ret _ _ = Ok _ => apply ret_ok in H as [? ?]; subst
  end.

Lemma obind_some {A B} (o : option A) (k : A -> option B) b :
  obind o k = Some b -> exists a, o = Some a /\ k a = Some b.
Proof. destruct o; cbn; intros H; [eauto|discriminate]. Qed.

Ltac omon H :=
  repeat match type of H with
  | obind _ _ = Some _ =>
      let a := fresh "n" in let H1 := fresh "Hr" in
      apply obind_some in H as (a & H1 & H)
  | Some _ = Some _ => inversion H; subst; clear H
  end.

(* ---------------------------------------------------------------- scope_run *)
Lemma scope_run_app a : forall sc b,
  scope_run sc (a ++ b) = match scope_run sc a with Some sc' => scope_run sc' b | None => None end.
Proof.
  induction a as [|op a IH]; intros sc b; cbn; [reflexivity|].
  destruct (scope_step sc op); [apply IH|reflexivity].
Qed.

Lemma scope_run_app_some a b sc sc1 sc2 :
  scope_run sc a = Some sc1 -> scope_run sc1 b = Some sc2 -> scope_run sc (a ++ b) = Some sc2.
Proof. intros H1 H2. rewrite scope_run_app, H1. exact H2. Qed.

(* ---------------------------------------------------------------- definedness *)
Definition has (l : list (N * bool)) (v : N) : Prop := In v (map fst l).

Lemma mem_iff v l : mem v l = true <-> has l v.
Proof.
  unfold mem, has. rewrite existsb_exists, in_map_iff. split.
  - intros (x & Hin & E). apply N.eqb_eq in E. exists x. auto.
  - intros (x & E & Hin). exists x. split; [exact Hin|]. apply N.eqb_eq. auto.
Qed.

Lemma mem_hard_iff v l : mem_hard v l = true <-> In (v, true) l.
Proof.
  unfold mem_hard. rewrite existsb_exists. split.
  - intros ([x b] & Hin & E). cbn in E. apply andb_true_iff in E as [E1 E2]. apply N.eqb_eq in E1. subst. exact Hin.
  - intros Hin. exists (v, true). split; [exact Hin|]. cbn. rewrite N.eqb_refl. reflexivity.
Qed.

Lemma defined_cons l sc v : defined (l :: sc) v = mem v l || defined sc v.
Proof. reflexivity. Qed.
Lemma hard_defined_cons l sc v : hard_defined (l :: sc) v = mem_hard v l || hard_defined sc v.
Proof. reflexivity. Qed.

Lemma mem_app v a b : mem v (a ++ b) = mem v a || mem v b.
Proof. unfold mem. apply existsb_app. Qed.
Lemma mem_hard_app v a b : mem_hard v (a ++ b) = mem_hard v a || mem_hard v b.
Proof. unfold mem_hard. apply existsb_app. Qed.

Lemma defined_new_l new h t v : has new v -> defined ((new ++ h) :: t) v = true.
Proof. intros H. rewrite defined_cons, mem_app. apply mem_iff in H. rewrite H. reflexivity. Qed.
Lemma defined_new_r new h t v : defined (h :: t) v = true -> defined ((new ++ h) :: t) v = true.
Proof.
  rewrite !defined_cons, mem_app. intros H. apply orb_true_iff in H as [H|H]; rewrite H; rewrite ?orb_true_r; reflexivity.
Qed.
Lemma hard_new_l new h t v : In (v, true) new -> hard_defined ((new ++ h) :: t) v = true.
Proof. intros H. rewrite hard_defined_cons, mem_hard_app. apply mem_hard_iff in H. rewrite H. reflexivity. Qed.
Lemma hard_new_r new h t v : hard_defined (h :: t) v = true -> hard_defined ((new ++ h) :: t) v = true.
Proof.
  rewrite !hard_defined_cons, mem_hard_app. intros H. apply orb_true_iff in H as [H|H]; rewrite H; rewrite ?orb_true_r; reflexivity.
Qed.
Lemma defined_push l sc v : defined sc v = true -> defined (l :: sc) v = true.
Proof. intros H. rewrite defined_cons, H. apply orb_true_r. Qed.
Lemma hard_push l sc v : hard_defined sc v = true -> hard_defined (l :: sc) v = true.
Proof. intros H. rewrite hard_defined_cons, H. apply orb_true_r. Qed.
Lemma hard_is_defined sc v : hard_defined sc v = true -> defined sc v = true.
Proof.
  induction sc as [|l sc IH]; cbn; [discriminate|].
  fold (hard_defined sc v). fold (defined sc v). intros H. apply orb_true_iff in H as [H|H].
  - apply mem_hard_iff in H. assert (Hm : mem v l = true) by (apply mem_iff; apply in_map_iff; exists (v, true); auto).
    rewrite Hm. reflexivity.
  - rewrite (IH H). apply orb_true_r.
Qed.

(* ---------------------------------------------------------------- sup: the IR scopes contain the user scopes *)
Definition sup (sc sc0 : scopes) : Prop := Forall2 (fun l l0 => incl l0 l) sc sc0.

Lemma sup_defined sc sc0 v : sup sc sc0 -> defined sc0 v = true -> defined sc v = true.
Proof.
  induction 1 as [|l l0 sc sc0 Hi _ IH]; cbn; [discriminate|].
  fold (defined sc v). fold (defined sc0 v). intros H. apply orb_true_iff in H as [H|H].
  - apply mem_iff in H. unfold has in H. apply in_map_iff in H as (x & E & Hin).
    assert (Hm : mem v l = true). { apply mem_iff. apply in_map_iff. exists x. split; [exact E|apply Hi; exact Hin]. }
    rewrite Hm. reflexivity.
  - rewrite (IH H). apply orb_true_r.
Qed.

Lemma sup_hard sc sc0 v : sup sc sc0 -> hard_defined sc0 v = true -> hard_defined sc v = true.
Proof.
  induction 1 as [|l l0 sc sc0 Hi _ IH]; cbn; [discriminate|].
  fold (hard_defined sc v). fold (hard_defined sc0 v). intros H. apply orb_true_iff in H as [H|H].
  - apply mem_hard_iff in H. assert (Hm : mem_hard v l = true) by (apply mem_hard_iff; apply Hi; exact H).
    rewrite Hm. reflexivity.
  - rewrite (IH H). apply orb_true_r.
Qed.

Lemma sup_add h t sc0 us new : sup (h :: t) sc0 -> incl us new -> sup ((new ++ h) :: t) (add_new us sc0).
Proof.
  intros H Hi. inversion H as [|? l0 ? t0 Hl Ht]; subst. cbn. constructor; [|exact Ht].
  intros x Hx. apply in_app_iff in Hx as [Hx|Hx]; apply in_app_iff; [left; apply Hi; exact Hx|right; apply Hl; exact Hx].
Qed.

Lemma sup_push sc sc0 l l0 : incl l0 l -> sup sc sc0 -> sup (l :: sc) (l0 :: sc0).
Proof. intros Hi H. constructor; assumption. Qed.

Lemma sup_nonempty h t sc0 : sup (h :: t) sc0 -> exists h0 t0, sc0 = h0 :: t0 /\ incl h0 h /\ sup t t0.
Proof. intros H. inversion H; subst. eauto. Qed.

Lemma incl_app_mid {A} (a b c : list A) : incl a c -> incl a (b ++ c).
Proof. intros H x Hx. apply in_app_iff. right. apply H. exact Hx. Qed.
Lemma incl_app_l2 {A} (a b c : list A) : incl a b -> incl a (b ++ c).
Proof. intros H x Hx. apply in_app_iff. left. apply H. exact Hx. Qed.
Lemma incl_app2 {A} (a b c d : list A) : incl a c -> incl b d -> incl (a ++ b) (c ++ d).
Proof. intros H1 H2 x Hx. apply in_app_iff in Hx as [Hx|Hx]; apply in_app_iff; [left; apply H1|right; apply H2]; exact Hx. Qed.

Lemma has_app_l a b v : has a v -> has (a ++ b) v.
Proof. unfold has. rewrite map_app, in_app_iff. auto. Qed.
Lemma has_app_r a b v : has b v -> has (a ++ b) v.
Proof. unfold has. rewrite map_app, in_app_iff. auto. Qed.
Lemma has_cons x b l : has ((x, b) :: l) x.
Proof. left. reflexivity. Qed.
Lemma has_cons_r y l v : has l v -> has (y :: l) v.
Proof. intros H. right. exact H. Qed.

(* ---------------------------------------------------------------- runs: effect of a code fragment on the current block *)
Definition runs (h : list (N * bool)) (t : scopes) (code : list ir) (new : list (N * bool)) : Prop :=
  scope_run (h :: t) code = Some ((new ++ h) :: t).

Lemma runs_nil h t : runs h t [] [].
Proof. reflexivity. Qed.

Lemma runs_app h t c1 n1 c2 n2 :
  runs h t c1 n1 -> runs (n1 ++ h) t c2 n2 -> runs h t (c1 ++ c2) (n2 ++ n1).
Proof.
  unfold runs. intros H1 H2. rewrite scope_run_app, H1, H2, app_assoc. reflexivity.
Qed.

Lemma runs_cons h t op d c2 n2 :
  scope_step (h :: t) op = Some ((d :: h) :: t) -> runs (d :: h) t c2 n2 -> runs h t (op :: c2) (n2 ++ [d]).
Proof.
  unfold runs. intros H1 H2. cbn [scope_run]. rewrite H1, H2, <- app_assoc. reflexivity.
Qed.

Lemma runs_cons0 h t op c2 n2 :
  scope_step (h :: t) op = Some (h :: t) -> runs h t c2 n2 -> runs h t (op :: c2) n2.
Proof. unfold runs. intros H1 H2. cbn [scope_run]. rewrite H1. exact H2. Qed.

(* single instructions *)
Lemma all_defined_true sc vs : (forall v, In v vs -> defined sc v = true) -> all_defined sc vs = true.
Proof. intros H. apply forallb_forall. exact H. Qed.

Lemma step_use_def h t uses x :
  (forall v, In v uses -> defined (h :: t) v = true) -> use_def (h :: t) uses x = Some (((x, false) :: h) :: t).
Proof. intros H. unfold use_def. rewrite (all_defined_true _ _ H). reflexivity. Qed.
Lemma step_use_hard h t uses x :
  (forall v, In v uses -> defined (h :: t) v = true) -> use_hard (h :: t) uses x = Some (((x, true) :: h) :: t).
Proof. intros H. unfold use_hard. rewrite (all_defined_true _ _ H). reflexivity. Qed.
Lemma step_use_only sc uses :
  (forall v, In v uses -> defined sc v = true) -> use_only sc uses = Some sc.
Proof. intros H. unfold use_only. rewrite (all_defined_true _ _ H). reflexivity. Qed.

Lemma in1 {A} (P : A -> Prop) a : P a -> forall v, In v [a] -> P v.
Proof. intros H v [<-|[]]. exact H. Qed.
Lemma in2 {A} (P : A -> Prop) a b : P a -> P b -> forall v, In v [a; b] -> P v.
Proof. intros Ha Hb v [<-|[<-|[]]]; assumption. Qed.
Lemma in3 {A} (P : A -> Prop) a b c : P a -> P b -> P c -> forall v, In v [a; b; c] -> P v.
Proof. intros Ha Hb Hc v [<-|[<-|[<-|[]]]]; assumption. Qed.

Lemma const_map_snoc {A B} (b : B) (x : A) (l : list A) :
  map (fun _ => b) (x :: l) = map (fun _ => b) l ++ [b].
Proof. induction l as [|y l IH]; cbn; [reflexivity|]. cbn in IH. rewrite <- IH. reflexivity. Qed.

(* a block: `IIf a; body; IEnd` leaves the current block unchanged *)
Lemma runs_if h t a body l :
  defined (h :: t) a = true ->
  scope_run ([] :: h :: t) body = Some (l :: h :: t) ->
  runs h t (IIf a :: body ++ [IEnd]) [].
Proof.
  intros Ha Hb. unfold runs. cbn [scope_run scope_step].
  rewrite (step_use_only _ _ (in1 _ _ Ha)). rewrite scope_run_app, Hb. reflexivity.
Qed.

(* ---------------------------------------------------------------- the induction predicates *)
Definition Pexp (f : nat) : Prop := forall e ctx c code v c' h t sc0 us,
  expression f e ctx c = Ok ((code, v), c') -> sup (h :: t) sc0 -> rs_expr f sc0 e = Some us ->
  exists new, runs h t code new /\ incl us new /\ has new v.

Definition Pstm (f : nat) : Prop := forall s ctx c code c' h t sc0 us,
  statement f s ctx c = Ok (code, c') -> sup (h :: t) sc0 -> rs_stmt f sc0 s = Some us ->
  exists new, runs h t code new /\ incl us new.

Definition Pdef (f : nat) : Prop := forall var value ctx c code c' h t sc0 us,
  definition f var value ctx c = Ok (code, c') -> sup (h :: t) sc0 -> rs_definition f sc0 var value = Some us ->
  exists new, runs h t code new /\ incl us new.

Lemma mapM_nil_ok {A B} (f : A -> M B) c r c' : mapM f [] c = Ok (r, c') -> r = [] /\ c' = c.
Proof. cbn. intros H. apply ret_ok in H as [? ?]. subst. auto. Qed.

Lemma mapM_cons_ok {A B} (f : A -> M B) x xs c r c' :
  mapM f (x :: xs) c = Ok (r, c') ->
  exists y c1 ys, f x c = Ok (y, c1) /\ mapM f xs c1 = Ok (ys, c') /\ r = y :: ys.
Proof.
  cbn [mapM]. intros H. apply bind_ok in H as (y & c1 & H1 & H). apply bind_ok in H as (ys & c2 & H2 & H).
  apply ret_ok in H as [? ?]. subst. eauto 7.
Qed.

Lemma lower_list_ok stm ss ctx c code c' :
  lower_list stm ss ctx c = Ok (code, c') ->
  exists cs, mapM (fun s => stm s ctx) ss c = Ok (cs, c') /\ code = concat cs.
Proof.
  unfold lower_list. intros H. apply bind_ok in H as (cs & c1 & H1 & H). apply ret_ok in H as [? ?]. subst. eauto.
Qed.

Lemma lower_list_intro stm ss ctx c cs c' :
  mapM (fun s => stm s ctx) ss c = Ok (cs, c') -> lower_list stm ss ctx c = Ok (concat cs, c').
Proof. unfold lower_list, bind. intros ->. reflexivity. Qed.

(* lists of statements *)
Lemma list_lemma f : Pstm f -> forall ss ctx c code c' h t sc0 us,
  lower_list (statement f) ss ctx c = Ok (code, c') -> sup (h :: t) sc0 ->
  rs_seq (fun sc s => rs_stmt f sc s) sc0 ss = Some us ->
  exists new, runs h t code new /\ incl us new.
Proof.
  intros IH.
  induction ss as [|s ss IHss]; intros ctx c code c' h t sc0 us Hl Hsup Hrs;
    apply lower_list_ok in Hl as (cs & Hm & ->).
  - apply mapM_nil_ok in Hm as [-> ->]. cbn in Hrs. inversion Hrs; subst.
    exists []. split; [apply runs_nil|intros x []].
  - apply mapM_cons_ok in Hm as (y & c1 & ys & Hy & Hys & ->).
    cbn [rs_seq] in Hrs. apply obind_some in Hrs as (n1 & Hr1 & Hrs). apply obind_some in Hrs as (n2 & Hr2 & Hrs).
    inversion Hrs; subst us.
    destruct (IH _ _ _ _ _ _ _ _ _ Hy Hsup Hr1) as (m1 & R1 & I1).
    destruct (IHss _ _ _ _ _ _ _ _ (lower_list_intro _ _ _ _ _ _ Hys) (sup_add _ _ _ _ _ Hsup I1) Hr2) as (m2 & R2 & I2).
    exists (m2 ++ m1). cbn [concat]. split; [eapply runs_app; eassumption|apply incl_app2; assumption].
Qed.

(* lists of expressions evaluated left to right in the same block *)
Lemma exprs_lemma f : Pexp f -> forall es ctx c rs c' h t sc0 us,
  mapM (fun a => expression f a ctx) es c = Ok (rs, c') -> sup (h :: t) sc0 ->
  rs_seq (fun sc e => rs_expr f sc e) sc0 es = Some us ->
  exists new, runs h t (concat (map fst rs)) new /\ incl us new /\ Forall (has new) (map snd rs).
Proof.
  intros IH. induction es as [|e es IHes]; intros ctx c rs c' h t sc0 us Hm Hsup Hrs.
  - apply mapM_nil_ok in Hm as [-> ->]. cbn in Hrs. inversion Hrs; subst.
    exists []. split; [apply runs_nil|]. split; [intros x []|constructor].
  - apply mapM_cons_ok in Hm as ([c1 v1] & k1 & ys & Hy & Hys & ->).
    cbn [rs_seq] in Hrs. apply obind_some in Hrs as (n1 & Hr1 & Hrs). apply obind_some in Hrs as (n2 & Hr2 & Hrs).
    inversion Hrs; subst us.
    destruct (IH _ _ _ _ _ _ _ _ _ _ Hy Hsup Hr1) as (m1 & R1 & I1 & V1).
    destruct (IHes _ _ _ _ _ _ _ _ Hys (sup_add _ _ _ _ _ Hsup I1) Hr2) as (m2 & R2 & I2 & V2).
    exists (m2 ++ m1). cbn [map concat fst snd]. split; [eapply runs_app; eassumption|].
    split; [apply incl_app2; assumption|].
    constructor; [apply has_app_r; exact V1|].
    eapply Forall_impl; [|exact V2]. intros x Hx. apply has_app_l. exact Hx.
Qed.

(* expression_block *)
Lemma eblock_lemma f : Pexp f -> Pstm f -> forall out block ctx c code c' h t sc0 us,
  lower_eblock (statement f) (expression f) out block ctx c = Ok (code, c') -> sup (h :: t) sc0 ->
  hard_defined (h :: t) out = true ->
  rs_eblock (fun sc s => rs_stmt f sc s) (fun sc e => rs_expr f sc e) sc0 block = Some us ->
  exists new, runs h t code new /\ incl us new.
Proof.
  intros IHe IHs out block ctx c code c' h t sc0 us Hl Hsup Hout Hrs.
  unfold lower_eblock in Hl. unfold rs_eblock in Hrs.
  destruct (rev block) as [|last rest_rev] eqn:Erev;
    [eapply list_lemma; eassumption|].
  destruct last; try (eapply list_lemma; eassumption).
  (* the last statement is the value *)
  apply bind_ok in Hl as (ops & c1 & Hops & Hl). apply bind_ok in Hl as ([vc vv] & c2 & Hv & Hl).
  apply ret_ok in Hl as [<- <-].
  apply obind_some in Hrs as (n1 & Hr1 & Hrs). apply obind_some in Hrs as (n2 & Hr2 & Hrs). inversion Hrs; subst us.
  destruct (list_lemma f IHs _ _ _ _ _ _ _ _ _ Hops Hsup Hr1) as (m1 & R1 & I1).
  destruct (IHe _ _ _ _ _ _ _ _ _ _ Hv (sup_add _ _ _ _ _ Hsup I1) Hr2) as (m2 & R2 & I2 & V2).
  exists (m2 ++ m1). split; [|apply incl_app2; assumption].
  eapply runs_app; [exact R1|]. cbn [fst snd].
  rewrite <- (app_nil_l m2). eapply runs_app; [exact R2|].
  unfold runs. cbn [scope_run scope_step].
  rewrite (hard_new_r m2 _ _ _ (hard_new_r m1 _ _ _ Hout)).
  rewrite (step_use_only _ _ (in1 _ _ (defined_new_l _ _ _ _ V2))). reflexivity.
Qed.

(* function bodies *)
Lemma fbody_lemma f : Pexp f -> Pstm f -> forall body ctx c code c' h t sc0 us,
  lower_fbody (statement f) (expression f) body ctx c = Ok (code, c') -> sup (h :: t) sc0 ->
  rs_tail (fun sc s => rs_stmt f sc s) (fun sc e => rs_expr f sc e) sc0 body = Some us ->
  exists new, runs h t code new /\ incl us new.
Proof.
  intros IHe IHs body ctx c code c' h t sc0 us Hl Hsup Hrs.
  unfold lower_fbody in Hl. unfold rs_tail in Hrs.
  destruct (rev body) as [|last init_rev] eqn:Erev.
  - apply ret_ok in Hl as [<- <-]. inversion Hrs; subst. exists []. split; [apply runs_nil|intros x []].
  - apply bind_ok in Hl as (b & c1 & Hb & Hl). apply bind_ok in Hl as (l & c2 & Hlast & Hl).
    apply ret_ok in Hl as [<- <-].
    apply obind_some in Hrs as (n1 & Hr1 & Hrs). apply obind_some in Hrs as (n2 & Hr2 & Hrs). inversion Hrs; subst us.
    destruct (list_lemma f IHs _ _ _ _ _ _ _ _ _ Hb Hsup Hr1) as (m1 & R1 & I1).
    assert (Hlast' : exists m2, runs (m1 ++ h) t l m2 /\ incl n2 m2).
    { destruct last;
        try (destruct (IHs _ _ _ _ _ _ _ _ _ Hlast (sup_add _ _ _ _ _ Hsup I1) Hr2) as (m2 & R2 & I2); exists m2; auto).
      apply bind_ok in Hlast as ([vc vv] & c3 & Hv & Hlast). apply ret_ok in Hlast as [<- <-].
      destruct (IHe _ _ _ _ _ _ _ _ _ _ Hv (sup_add _ _ _ _ _ Hsup I1) Hr2) as (m2 & R2 & I2 & V2).
      exists m2. split; [|exact I2]. cbn [fst snd]. rewrite <- (app_nil_l m2). eapply runs_app; [exact R2|].
      unfold runs. cbn [scope_run scope_step].
      rewrite (step_use_only _ _ (in1 _ _ (defined_new_l _ _ _ _ V2))). reflexivity. }
    destruct Hlast' as (m2 & R2 & I2).
    exists (m2 ++ m1). split; [eapply runs_app; eassumption|apply incl_app2; assumption].
Qed.

(* ---------------------------------------------------------------- automation for single instructions *)
Lemma defined_here v b h t : defined (((v, b) :: h) :: t) v = true.
Proof. rewrite defined_cons. unfold mem. cbn. rewrite N.eqb_refl. reflexivity. Qed.
Lemma defined_skip d h t v : defined (h :: t) v = true -> defined ((d :: h) :: t) v = true.
Proof.
  rewrite !defined_cons. unfold mem. cbn [existsb]. intros H.
  apply orb_true_iff in H as [H|H]; rewrite H; rewrite ?orb_true_r; reflexivity.
Qed.
Lemma hard_here v h t : hard_defined (((v, true) :: h) :: t) v = true.
Proof. rewrite hard_defined_cons. unfold mem_hard. cbn. rewrite N.eqb_refl. reflexivity. Qed.
Lemma hard_skip d h t v : hard_defined (h :: t) v = true -> hard_defined ((d :: h) :: t) v = true.
Proof.
  rewrite !hard_defined_cons. unfold mem_hard. cbn [existsb]. intros H.
  apply orb_true_iff in H as [H|H]; rewrite H; rewrite ?orb_true_r; reflexivity.
Qed.

Ltac solve_has :=
  solve [ assumption | apply has_cons | apply has_cons_r; solve_has
        | apply has_app_l; solve_has | apply has_app_r; solve_has ].

Ltac solve_hard :=
  solve [ assumption | apply hard_here | apply hard_skip; solve_hard
        | apply hard_new_r; solve_hard | apply hard_push; solve_hard ].

Ltac solve_def :=
  solve [ assumption | apply defined_here | apply defined_skip; solve_def
        | apply defined_new_l; solve_has | apply defined_new_r; solve_def
        | apply defined_push; solve_def | apply hard_is_defined; solve_hard ].

Ltac solve_uses :=
  let v := fresh "v" in let Hv := fresh "Hv" in
  intros v Hv; cbn [In] in Hv;
  repeat (destruct Hv as [<-|Hv]; [solve_def|]); try contradiction.

(* one instruction that introduces x (soft / hard) or only uses variables, at the head of the code *)
Lemma runs_def h t op uses x c2 n2 :
  scope_step (h :: t) op = use_def (h :: t) uses x ->
  (forall v, In v uses -> defined (h :: t) v = true) ->
  runs ((x, false) :: h) t c2 n2 -> runs h t (op :: c2) (n2 ++ [(x, false)]).
Proof. intros E H R. eapply runs_cons; [rewrite E; apply step_use_def; exact H|exact R]. Qed.
Lemma runs_hard h t op uses x c2 n2 :
  scope_step (h :: t) op = use_hard (h :: t) uses x ->
  (forall v, In v uses -> defined (h :: t) v = true) ->
  runs ((x, true) :: h) t c2 n2 -> runs h t (op :: c2) (n2 ++ [(x, true)]).
Proof. intros E H R. eapply runs_cons; [rewrite E; apply step_use_hard; exact H|exact R]. Qed.
Lemma runs_only h t op uses c2 n2 :
  scope_step (h :: t) op = use_only (h :: t) uses ->
  (forall v, In v uses -> defined (h :: t) v = true) ->
  runs h t c2 n2 -> runs h t (op :: c2) n2.
Proof. intros E H R. eapply runs_cons0; [rewrite E; apply step_use_only; exact H|exact R]. Qed.
Lemma runs_assign h t x a c2 n2 :
  hard_defined (h :: t) x = true -> defined (h :: t) a = true ->
  runs h t c2 n2 -> runs h t (IAssign x a :: c2) n2.
Proof.
  intros Hx Ha R. eapply runs_cons0; [|exact R]. cbn [scope_step]. rewrite Hx.
  apply step_use_only. apply in1. exact Ha.
Qed.

(* the result of running `code` then more code *)
Lemma runs_app' h t c1 n1 c2 n2 new :
  runs h t c1 n1 -> runs (n1 ++ h) t c2 n2 -> new = n2 ++ n1 -> runs h t (c1 ++ c2) new.
Proof. intros H1 H2 ->. eapply runs_app; eassumption. Qed.

Lemma sup_cons_entry d h t sc0 : sup (h :: t) sc0 -> sup ((d :: h) :: t) sc0.
Proof.
  intros H. inversion H as [|? l0 ? t0 Hl Ht]; subst. constructor; [|exact Ht].
  intros x Hx. right. apply Hl. exact Hx.
Qed.

Lemma incl_nil_any {A} (l : list A) : incl [] l.
Proof. intros x []. Qed.
Lemma incl_cons_r {A} (a : A) l1 l2 : incl l1 l2 -> incl l1 (a :: l2).
Proof. intros H x Hx. right. apply H. exact Hx. Qed.

Ltac solve_incl :=
  solve [ assumption | apply incl_nil_any | apply incl_refl
        | apply incl_app2; solve_incl | apply incl_app_mid; solve_incl
        | apply incl_app_l2; solve_incl | apply incl_cons_r; solve_incl ].

Ltac app_norm := repeat (progress (rewrite <- ?app_assoc; cbn [app])).

(* the branches of an if-expression, followed by one End per branch *)
Lemma if_branches_lemma f : Pexp f -> Pstm f -> forall out brs ctx c codes c' h t sc0 us first,
  mapM (lower_if_branch (statement f) (expression f) out ctx) brs c = Ok (codes, c') ->
  sup (h :: t) sc0 -> hard_defined (h :: t) out = true ->
  rs_if_branches (fun sc e => rs_expr f sc e)
                 (rs_eblock (fun sc s => rs_stmt f sc s) (fun sc e => rs_expr f sc e)) sc0 first brs = Some us ->
  exists new, runs h t (concat codes ++ map (fun _ => IEnd) brs) new /\ incl us new.
Proof.
  intros IHe IHs out. induction brs as [|br brs IH]; intros ctx c codes c' h t sc0 us first Hm Hsup Hout Hrs.
  - apply mapM_nil_ok in Hm as [-> ->]. cbn in Hrs. inversion Hrs; subst.
    exists []. split; [apply runs_nil|apply incl_nil_any].
  - apply mapM_cons_ok in Hm as (cb & c1 & rest & Hb & Hrest & ->).
    rewrite const_map_snoc. cbn [concat].
    destruct br as [[cond|] body sp]; cbn [lower_if_branch] in Hb; cbn [rs_if_branches] in Hrs.
    + apply bind_ok in Hb as ([cc vc] & k1 & Hc & Hb). apply bind_ok in Hb as (blk & k2 & Hblk & Hb).
      apply ret_ok in Hb as [<- <-]. cbn [fst snd].
      apply obind_some in Hrs as (nc & Hnc & Hrs). apply obind_some in Hrs as (nb & Hnb & Hrs).
      apply obind_some in Hrs as (nr & Hnr & Hrs). inversion Hrs; subst us; clear Hrs.
      destruct (IHe _ _ _ _ _ _ _ _ _ _ Hc Hsup Hnc) as (m1 & R1 & I1 & V1).
      assert (Hs2 : sup ([] :: (m1 ++ h) :: t) ([] :: add_new nc sc0))
        by (apply sup_push; [apply incl_refl|apply sup_add; assumption]).
      assert (Hout2 : hard_defined ([] :: (m1 ++ h) :: t) out = true) by solve_hard.
      destruct (eblock_lemma f IHe IHs _ _ _ _ _ _ _ _ _ _ Hblk Hs2 Hout2 Hnb) as (mb & Rb & Ib).
      destruct (IH _ _ _ _ _ _ _ _ _ Hrest Hs2 Hout2 Hnr) as (mr & Rr & Ir).
      exists ([] ++ m1). split; [|destruct first; solve_incl].
      replace ((cc ++ [IIf vc] ++ blk ++ [IElse]) ++ concat rest) with
              (cc ++ [IIf vc] ++ blk ++ [IElse] ++ concat rest) by (app_norm; reflexivity).
      replace ((cc ++ [IIf vc] ++ blk ++ [IElse] ++ concat rest) ++ map (fun _ => IEnd) brs ++ [IEnd]) with
              (cc ++ (IIf vc :: (blk ++ [IElse] ++ concat rest ++ map (fun _ => IEnd) brs) ++ [IEnd]))
        by (app_norm; reflexivity).
      eapply runs_app; [exact R1|].
      eapply runs_if; [solve_def|].
      eapply scope_run_app_some; [exact Rb|].
      cbn [app scope_run scope_step]. exact Rr.
    + apply bind_ok in Hb as (bv & k1 & Hf & Hb). apply fresh_ok in Hf as [-> ->].
      apply bind_ok in Hb as (blk & k2 & Hblk & Hb). apply ret_ok in Hb as [<- <-].
      apply obind_some in Hrs as (nb & Hnb & Hrs). apply obind_some in Hrs as (nr & Hnr & Hrs).
      inversion Hrs; subst us; clear Hrs.
      assert (Hs2 : sup ([] :: ((c, false) :: h) :: t) ([] :: sc0))
        by (apply sup_push; [apply incl_refl|apply sup_cons_entry; assumption]).
      assert (Hout2 : hard_defined ([] :: ((c, false) :: h) :: t) out = true) by solve_hard.
      destruct (eblock_lemma f IHe IHs _ _ _ _ _ _ _ _ _ _ Hblk Hs2 Hout2 Hnb) as (mb & Rb & Ib).
      assert (Hs3 : sup ((mb ++ []) :: ((c, false) :: h) :: t) (add_new nb ([] :: sc0)))
        by (apply sup_add; assumption).
      assert (Hout3 : hard_defined ((mb ++ []) :: ((c, false) :: h) :: t) out = true) by solve_hard.
      destruct (IH _ _ _ _ _ _ _ _ _ Hrest Hs3 Hout3 Hnr) as (mr & Rr & Ir).
      exists ([] ++ [(c, false)]). split; [|apply incl_nil_any].
      replace (([IBool c true; IIf c] ++ blk) ++ concat rest) with
              ([IBool c true; IIf c] ++ blk ++ concat rest) by (app_norm; reflexivity).
      replace (([IBool c true; IIf c] ++ blk ++ concat rest) ++ map (fun _ => IEnd) brs ++ [IEnd]) with
              (IBool c true :: IIf c :: (blk ++ concat rest ++ map (fun _ => IEnd) brs) ++ [IEnd])
        by (app_norm; reflexivity).
      eapply runs_def; [reflexivity|solve_uses|].
      eapply runs_if; [solve_def|].
      eapply scope_run_app_some; [exact Rb|]. exact Rr.
Qed.

(* the arms of a case-expression, the fall-through block, and one End per arm *)
Lemma case_branches_lemma f : Pexp f -> Pstm f -> forall out tag value ft brs ctx c codes c1 ftc c' h t sc0 us first,
  mapM (lower_case_branch (statement f) (expression f) out tag value ctx) brs c = Ok (codes, c1) ->
  lower_eblock (statement f) (expression f) out ft ctx c1 = Ok (ftc, c') ->
  sup (h :: t) sc0 -> hard_defined (h :: t) out = true ->
  defined (h :: t) tag = true -> defined (h :: t) value = true ->
  rs_case_branches (rs_eblock (fun sc s => rs_stmt f sc s) (fun sc e => rs_expr f sc e)) ft sc0 first brs = Some us ->
  exists new, runs h t (concat codes ++ ftc ++ map (fun _ => IEnd) brs) new /\ incl us new.
Proof.
  intros IHe IHs out tag value ft.
  induction brs as [|br brs IH]; intros ctx c codes c1 ftc c' h t sc0 us first Hm Hft Hsup Hout Htag Hval Hrs.
  - apply mapM_nil_ok in Hm as [-> ->]. cbn [rs_case_branches] in Hrs.
    apply obind_some in Hrs as (nb & Hnb & Hrs). inversion Hrs; subst us; clear Hrs.
    destruct (eblock_lemma f IHe IHs _ _ _ _ _ _ _ _ _ _ Hft Hsup Hout Hnb) as (mb & Rb & Ib).
    exists mb. cbn [concat map app]. rewrite app_nil_r. split; [exact Rb|apply incl_nil_any].
  - apply mapM_cons_ok in Hm as (cb & k0 & rest & Hb & Hrest & ->).
    rewrite const_map_snoc. cbn [concat].
    destruct br as [pat psp variable body sp]. cbn [lower_case_branch] in Hb. cbn [rs_case_branches] in Hrs.
    apply bind_ok in Hb as (blk & k1 & Hblk & Hb).
    apply bind_ok in Hb as (es & k2 & Hf1 & Hb). apply fresh_ok in Hf1 as [-> ->].
    apply bind_ok in Hb as (cmp & k3 & Hf2 & Hb). apply fresh_ok in Hf2 as [-> ->].
    apply ret_ok in Hb as [<- <-].
    apply obind_some in Hrs as (nb & Hnb & Hrs). apply obind_some in Hrs as (nr & Hnr & Hrs).
    inversion Hrs; subst us; clear Hrs.
    set (cmp := k1 + 1) in *. set (es := k1) in *.
    destruct variable as [v|].
    + set (H := (cmp, false) :: (es, false) :: (v, true) :: h).
      assert (Hs2 : sup ([] :: H :: t) ([] :: add_new [(v, true)] sc0)).
      { apply sup_push; [apply incl_refl|].
        exact (sup_add h t sc0 [(v, true)] [(cmp, false); (es, false); (v, true)] Hsup
                 (fun x Hx => or_intror (or_intror Hx))). }
      assert (Hout2 : hard_defined ([] :: H :: t) out = true) by (unfold H; solve_hard).
      assert (Htag2 : defined ([] :: H :: t) tag = true) by (unfold H; solve_def).
      assert (Hval2 : defined ([] :: H :: t) value = true) by (unfold H; solve_def).
      destruct (eblock_lemma f IHe IHs _ _ _ _ _ _ _ _ _ _ Hblk Hs2 Hout2 Hnb) as (mb & Rb & Ib).
      destruct (IH _ _ _ _ _ _ _ _ _ _ _ Hrest Hft Hs2 Hout2 Htag2 Hval2 Hnr) as (mr & Rr & Ir).
      exists [(cmp, false); (es, false); (v, true)]. split; [|destruct first; [solve_incl|apply incl_nil_any]].
      replace ((([IDefine v; IAssign v value] ++ [IStr es pat; IEquals cmp es tag; IIf cmp] ++ blk ++ [IElse]) ++ concat rest) ++
               ftc ++ map (fun _ => IEnd) brs ++ [IEnd])
        with (IDefine v :: IAssign v value :: IStr es pat :: IEquals cmp es tag ::
              IIf cmp :: (blk ++ [IElse] ++ concat rest ++ ftc ++ map (fun _ => IEnd) brs) ++ [IEnd])
        by (app_norm; reflexivity).
      change [(cmp, false); (es, false); (v, true)] with ((([] ++ [(cmp, false)]) ++ [(es, false)]) ++ [(v, true)]).
      eapply runs_hard; [reflexivity|solve_uses|].
      eapply runs_assign; [solve_hard|solve_def|].
      eapply runs_def; [reflexivity|solve_uses|].
      eapply runs_def; [reflexivity|solve_uses|].
      eapply runs_if; [solve_def|].
      eapply scope_run_app_some; [exact Rb|].
      cbn [app scope_run scope_step]. exact Rr.
    + set (H := (cmp, false) :: (es, false) :: h).
      assert (Hs2 : sup ([] :: H :: t) ([] :: add_new [] sc0)).
      { apply sup_push; [apply incl_refl|].
        exact (sup_add h t sc0 [] [(cmp, false); (es, false)] Hsup (incl_nil_any _)). }
      assert (Hout2 : hard_defined ([] :: H :: t) out = true) by (unfold H; solve_hard).
      assert (Htag2 : defined ([] :: H :: t) tag = true) by (unfold H; solve_def).
      assert (Hval2 : defined ([] :: H :: t) value = true) by (unfold H; solve_def).
      destruct (eblock_lemma f IHe IHs _ _ _ _ _ _ _ _ _ _ Hblk Hs2 Hout2 Hnb) as (mb & Rb & Ib).
      destruct (IH _ _ _ _ _ _ _ _ _ _ _ Hrest Hft Hs2 Hout2 Htag2 Hval2 Hnr) as (mr & Rr & Ir).
      exists [(cmp, false); (es, false)]. split; [|destruct first; apply incl_nil_any].
      replace ((([] ++ [IStr es pat; IEquals cmp es tag; IIf cmp] ++ blk ++ [IElse]) ++ concat rest) ++
               ftc ++ map (fun _ => IEnd) brs ++ [IEnd])
        with (IStr es pat :: IEquals cmp es tag ::
              IIf cmp :: (blk ++ [IElse] ++ concat rest ++ ftc ++ map (fun _ => IEnd) brs) ++ [IEnd])
        by (app_norm; reflexivity).
      change [(cmp, false); (es, false)] with (([] ++ [(cmp, false)]) ++ [(es, false)]).
      eapply runs_def; [reflexivity|solve_uses|].
      eapply runs_def; [reflexivity|solve_uses|].
      eapply runs_if; [solve_def|].
      eapply scope_run_app_some; [exact Rb|].
      cbn [app scope_run scope_step]. exact Rr.
Qed.

(* a function: its name is introduced in the current block, the body runs in a block of its own that
   starts with the parameters *)
Lemma runs_function h t fv ps body l :
  scope_run (map (fun p => (p, true)) ps :: ((fv, true) :: h) :: t) body = Some (l :: ((fv, true) :: h) :: t) ->
  runs h t (IFunction fv ps :: body ++ [IEnd]) [(fv, true)].
Proof.
  intros Hb. unfold runs. cbn [scope_run scope_step add_def]. rewrite scope_run_app, Hb. reflexivity.
Qed.

Lemma param_scope_eq params :
  map (fun p => (p, true)) (map (fun p : string * N * span * ty => snd (fst (fst p))) params) = param_scope params.
Proof. unfold param_scope. rewrite map_map. reflexivity. Qed.

(* the field initialisers of a blob instantiation *)
Lemma fields_lemma f : Pexp f -> forall (fields : list (string * expr)) ctx c rs c' h t sc0 us,
  mapM (fun fe => r <- expression f (snd fe) ctx ;; ret (fst fe, r)) fields c = Ok (rs, c') -> sup (h :: t) sc0 ->
  rs_seq (fun sc (fe : string * expr) => rs_expr f sc (snd fe)) sc0 fields = Some us ->
  exists new, runs h t (concat (map (fun x : string * (list ir * N) => fst (snd x)) rs)) new /\ incl us new /\
              Forall (has new) (map (fun x : string * (list ir * N) => snd (snd x)) rs).
Proof.
  intros IH. induction fields as [|fe fields IHf]; intros ctx c rs c' h t sc0 us Hm Hsup Hrs.
  - apply mapM_nil_ok in Hm as [-> ->]. cbn in Hrs. inversion Hrs; subst.
    exists []. split; [apply runs_nil|]. split; [apply incl_nil_any|constructor].
  - apply mapM_cons_ok in Hm as (y & k1 & ys & Hy & Hys & ->).
    apply bind_ok in Hy as ([c1 v1] & k2 & He & Hy). apply ret_ok in Hy as [<- <-].
    cbn [rs_seq] in Hrs. apply obind_some in Hrs as (n1 & Hr1 & Hrs). apply obind_some in Hrs as (n2 & Hr2 & Hrs).
    inversion Hrs; subst us.
    destruct (IH _ _ _ _ _ _ _ _ _ _ He Hsup Hr1) as (m1 & R1 & I1 & V1).
    destruct (IHf _ _ _ _ _ _ _ _ Hys (sup_add _ _ _ _ _ Hsup I1) Hr2) as (m2 & R2 & I2 & V2).
    exists (m2 ++ m1). cbn [map concat fst snd]. split; [eapply runs_app; eassumption|].
    split; [apply incl_app2; assumption|].
    constructor; [apply has_app_r; exact V1|].
    eapply Forall_impl; [|exact V2]. intros x Hx. apply has_app_l. exact Hx.
Qed.

(* ---------------------------------------------------------------- the main induction *)
Ltac fresh_in H v :=
  let c1 := fresh "k" in let Hf := fresh "Hf" in
  apply bind_ok in H as (v & c1 & Hf & H); apply fresh_ok in Hf as [-> ->].
Ltac done_in H :=
  let E := fresh "E" in apply ret_ok in H as [E <-]; first [subst | idtac]; try (inversion E; subst; try clear E).
Ltac sub_expr H r Hr :=
  let c1 := fresh "k" in apply bind_ok in H as (r & c1 & Hr & H).
Ltac rs_step H n Hn := apply obind_some in H as (n & Hn & H).
Ltac rs_done H := inversion H; subst; clear H.

Ltac lit_case Hl Hrs :=
  let v := fresh "x" in
  fresh_in Hl v; done_in Hl; rs_done Hrs;
  eexists [(_, false)]; split; [|split; [intros ? []|apply has_cons]];
  change [(?a, false)] with ([] ++ [(a, false)]);
  eapply runs_def; [reflexivity|solve_uses|apply runs_nil].

(* a generic binary value instruction: code = ca ++ cb ++ [op] *)
Ltac bin_case IHe Hl Hsup Hrs :=
  let ra := fresh "ra" in let Hra := fresh "Hra" in let rb := fresh "rb" in let Hrb := fresh "Hrb" in
  let o := fresh "o" in let n1 := fresh "na" in let n2 := fresh "nb" in let H1 := fresh "Hna" in let H2 := fresh "Hnb" in
  sub_expr Hl ra Hra; destruct ra as [? ?]; sub_expr Hl rb Hrb; destruct rb as [? ?]; fresh_in Hl o;
  cbn [binop_ir] in Hl; done_in Hl;
  rs_step Hrs n1 H1; rs_step Hrs n2 H2; rs_done Hrs;
  let m1 := fresh "ma" in let R1 := fresh "Ra" in let I1 := fresh "Ia" in let V1 := fresh "Va" in
  destruct (IHe _ _ _ _ _ _ _ _ _ _ Hra Hsup H1) as (m1 & R1 & I1 & V1);
  let m2 := fresh "mb" in let R2 := fresh "Rb" in let I2 := fresh "Ib" in let V2 := fresh "Vb" in
  destruct (IHe _ _ _ _ _ _ _ _ _ _ Hrb (sup_add _ _ _ _ _ Hsup I1) H2) as (m2 & R2 & I2 & V2);
  eexists; split; [eapply runs_app; [exact R1|]; eapply runs_app; [exact R2|]; cbn [fst snd];
                   eapply runs_def; [reflexivity|solve_uses|apply runs_nil]
                  |split; [solve_incl|solve_has]].

Lemma main : forall f, Pexp f /\ Pstm f /\ Pdef f.
Proof.
  induction f as [|f (IHe & IHs & IHd)].
  - repeat split; intros *; intros Hl; cbn in Hl; discriminate.
  - split; [|split].
    + intros e ctx c code v c' h t sc0 us Hl Hsup Hrs.
      cbn [expression] in Hl. cbn [rs_expr] in Hrs.
      destruct e.
      * (* ERead *)
        fresh_in Hl d. done_in Hl.
        destruct (defined sc0 var) eqn:Hdv; [|discriminate]. rs_done Hrs.
        pose proof (sup_defined _ _ _ Hsup Hdv) as Hd.
        eexists [(_, true)]. split; [|split; [intros ? []|apply has_cons]].
        change [(?a, true)] with ([] ++ [(a, true)]).
        eapply runs_hard; [reflexivity|solve_uses|apply runs_nil].
      * (* EVariant *)
        sub_expr Hl r Hr. destruct r as [rc rv]. fresh_in Hl o. done_in Hl.
        destruct (IHe _ _ _ _ _ _ _ _ _ _ Hr Hsup Hrs) as (m1 & R1 & I1 & V1).
        eexists ([(_, false)] ++ m1). split; [|split; [apply incl_app_mid; exact I1|apply has_cons]].
        eapply runs_app; [exact R1|]. cbn [fst snd].
        change [(?a, false)] with ([] ++ [(a, false)]).
        eapply runs_def; [reflexivity|solve_uses|apply runs_nil].
      * (* ECall *)
        sub_expr Hl rf Hrf. destruct rf as [fc fv]. sub_expr Hl rs Hrsm. fresh_in Hl o. done_in Hl.
        rs_step Hrs nf Hnf. rs_step Hrs na Hna. rs_done Hrs.
        destruct (IHe _ _ _ _ _ _ _ _ _ _ Hrf Hsup Hnf) as (m1 & R1 & I1 & V1).
        destruct (exprs_lemma f IHe _ _ _ _ _ _ _ _ _ Hrsm (sup_add _ _ _ _ _ Hsup I1) Hna) as (m2 & R2 & I2 & V2).
        eexists. split; [|split].
        -- eapply runs_app; [exact R1|]. eapply runs_app; [exact R2|]. cbn [fst snd].
           eapply runs_hard; [reflexivity| |apply runs_nil].
           intros x [<-|Hx]; [solve_def|]. rewrite Forall_forall in V2. apply defined_new_l. apply V2. exact Hx.
        -- solve_incl.
        -- solve_has.
      * (* EBlobAccess *)
        sub_expr Hl r Hr. destruct r as [rc rv]. fresh_in Hl o. done_in Hl.
        destruct (IHe _ _ _ _ _ _ _ _ _ _ Hr Hsup Hrs) as (m1 & R1 & I1 & V1).
        eexists. split; [|split].
        -- eapply runs_app; [exact R1|]. cbn [fst snd]. eapply runs_def; [reflexivity|solve_uses|apply runs_nil].
        -- solve_incl.
        -- solve_has.
      * (* EIndex *) bin_case IHe Hl Hsup Hrs.
      * (* EBinOp *)
        destruct op.
        -- (* Nop: unreachable in the code *)
           sub_expr Hl ra Hra. sub_expr Hl rb Hrb. fresh_in Hl o. cbn [binop_ir] in Hl. discriminate Hl.
        -- bin_case IHe Hl Hsup Hrs.
        -- bin_case IHe Hl Hsup Hrs.
        -- bin_case IHe Hl Hsup Hrs.
        -- bin_case IHe Hl Hsup Hrs.
        -- bin_case IHe Hl Hsup Hrs.
        -- bin_case IHe Hl Hsup Hrs.
        -- (* AssertEq *)
           sub_expr Hl ra Hra. destruct ra as [ca va]. sub_expr Hl rb Hrb. destruct rb as [cb vb]. fresh_in Hl o. done_in Hl.
           rs_step Hrs na Hna. rs_step Hrs nb Hnb. rs_done Hrs.
           destruct (IHe _ _ _ _ _ _ _ _ _ _ Hra Hsup Hna) as (m1 & R1 & I1 & V1).
           destruct (IHe _ _ _ _ _ _ _ _ _ _ Hrb (sup_add _ _ _ _ _ Hsup I1) Hnb) as (m2 & R2 & I2 & V2).
           eexists. split; [|split].
           ++ eapply runs_app; [exact R1|]. eapply runs_app; [exact R2|]. cbn [fst snd].
              eapply runs_def; [reflexivity|solve_uses|].
              eapply runs_only; [reflexivity|solve_uses|apply runs_nil].
           ++ solve_incl.
           ++ solve_has.
        -- bin_case IHe Hl Hsup Hrs.
        -- bin_case IHe Hl Hsup Hrs.
        -- bin_case IHe Hl Hsup Hrs.
        -- bin_case IHe Hl Hsup Hrs.
        -- (* And *)
           sub_expr Hl ra Hra. destruct ra as [ca va]. sub_expr Hl rb Hrb. destruct rb as [cb vb].
           fresh_in Hl cc. fresh_in Hl fl. done_in Hl.
           rs_step Hrs na Hna. rs_step Hrs nb Hnb. inversion Hrs; subst us; clear Hrs.
           destruct (IHe _ _ _ _ _ _ _ _ _ _ Hra Hsup Hna) as (m1 & R1 & I1 & V1).
           cbn [fst snd].
           match goal with |- context [IDefine ?c :: IBool ?fl false :: _] =>
             assert (Hs2 : sup ([] :: ((fl, false) :: (c, true) :: m1 ++ h) :: t) ([] :: add_new na sc0))
               by (apply sup_push; [apply incl_refl|
                   exact (sup_add h t sc0 na ([(fl, false); (c, true)] ++ m1) Hsup (incl_app_mid _ _ _ I1))])
           end.
           destruct (IHe _ _ _ _ _ _ _ _ _ _ Hrb Hs2 Hnb) as (m2 & R2 & I2 & V2).
           eexists. split; [|split].
           ++ eapply runs_app; [exact R1|].
              eapply runs_hard; [reflexivity|solve_uses|].
              eapply runs_def; [reflexivity|solve_uses|].
              eapply runs_assign; [solve_hard|solve_def|].
              match goal with |- runs _ _ (IIf _ :: ?cb ++ [?x; IEnd]) _ =>
                replace (cb ++ [x; IEnd]) with ((cb ++ [x]) ++ [IEnd]) by (rewrite <- app_assoc; reflexivity) end.
              eapply runs_if; [solve_def|].
              eapply scope_run_app_some; [exact R2|].
              cbn [scope_run scope_step].
              match goal with |- context [hard_defined ?sc ?x] =>
                assert (Hc : hard_defined sc x = true) by solve_hard; rewrite Hc end.
              rewrite step_use_only; [reflexivity|solve_uses].
           ++ solve_incl.
           ++ solve_has.
        -- (* Or *)
           sub_expr Hl ra Hra. destruct ra as [ca va]. sub_expr Hl rb Hrb. destruct rb as [cb vb].
           fresh_in Hl ng. fresh_in Hl cc. fresh_in Hl tr. done_in Hl.
           rs_step Hrs na Hna. rs_step Hrs nb Hnb. inversion Hrs; subst us; clear Hrs.
           destruct (IHe _ _ _ _ _ _ _ _ _ _ Hra Hsup Hna) as (m1 & R1 & I1 & V1).
           cbn [fst snd].
           match goal with |- context [IDefine ?c :: IBool ?tr true :: IAssign _ _ :: INot ?ng _ :: _] =>
             assert (Hs2 : sup ([] :: ((ng, false) :: (tr, false) :: (c, true) :: m1 ++ h) :: t) ([] :: add_new na sc0))
               by (apply sup_push; [apply incl_refl|
                   exact (sup_add h t sc0 na ([(ng, false); (tr, false); (c, true)] ++ m1) Hsup (incl_app_mid _ _ _ I1))])
           end.
           destruct (IHe _ _ _ _ _ _ _ _ _ _ Hrb Hs2 Hnb) as (m2 & R2 & I2 & V2).
           eexists. split; [|split].
           ++ eapply runs_app; [exact R1|].
              eapply runs_hard; [reflexivity|solve_uses|].
              eapply runs_def; [reflexivity|solve_uses|].
              eapply runs_assign; [solve_hard|solve_def|].
              eapply runs_def; [reflexivity|solve_uses|].
              match goal with |- runs _ _ (IIf _ :: ?cb ++ [?x; IEnd]) _ =>
                replace (cb ++ [x; IEnd]) with ((cb ++ [x]) ++ [IEnd]) by (rewrite <- app_assoc; reflexivity) end.
              eapply runs_if; [solve_def|].
              eapply scope_run_app_some; [exact R2|].
              cbn [scope_run scope_step].
              match goal with |- context [hard_defined ?sc ?x] =>
                assert (Hc : hard_defined sc x = true) by solve_hard; rewrite Hc end.
              rewrite step_use_only; [reflexivity|solve_uses].
           ++ solve_incl.
           ++ solve_has.
      * (* EUniOp *)
        destruct op;
          (sub_expr Hl r Hr; destruct r as [rc rv]; fresh_in Hl o; done_in Hl;
           destruct (IHe _ _ _ _ _ _ _ _ _ _ Hr Hsup Hrs) as (m1 & R1 & I1 & V1);
           eexists; split; [eapply runs_app; [exact R1|]; cbn [fst snd];
                            eapply runs_def; [reflexivity|solve_uses|apply runs_nil]
                           |split; [solve_incl|solve_has]]).
      * (* EIf *)
        fresh_in Hl out. sub_expr Hl codes Hcodes. done_in Hl.
        assert (Hs1 : sup (((v, true) :: h) :: t) sc0) by (apply sup_cons_entry; exact Hsup).
        assert (Ho1 : hard_defined (((v, true) :: h) :: t) v = true) by solve_hard.
        destruct (if_branches_lemma f IHe IHs _ _ _ _ _ _ _ _ _ _ _ Hcodes Hs1 Ho1 Hrs) as (m1 & R1 & I1).
        eexists. split; [|split].
        -- cbn [app]. eapply runs_hard; [reflexivity|solve_uses|exact R1].
        -- solve_incl.
        -- solve_has.
      * (* ECase *)
        sub_expr Hl rc Hrc. destruct rc as [cc vc]. fresh_in Hl xtag. fresh_in Hl xval. fresh_in Hl xout.
        sub_expr Hl bcode Hb. sub_expr Hl ftc Hft. fresh_in Hl ti. fresh_in Hl vi.
        rs_step Hrs nm Hnm. rs_step Hrs r Hr. inversion Hrs; subst us; clear Hrs.
        destruct (IHe _ _ _ _ _ _ _ _ _ _ Hrc Hsup Hnm) as (m1 & R1 & I1 & V1).
        cbn [fst snd] in Hl.
        match type of Hl with context [IDefine ?o :: IInt ?ti 1 :: IIndex ?tg _ _ :: IInt ?vi 2 :: IIndex ?vl _ _ :: _] =>
          assert (Hs2 : sup (((vl, false) :: (vi, false) :: (tg, false) :: (ti, false) :: (o, true) :: m1 ++ h) :: t) (add_new nm sc0))
            by exact (sup_add h t sc0 nm ([(vl, false); (vi, false); (tg, false); (ti, false); (o, true)] ++ m1) Hsup (incl_app_mid _ _ _ I1));
          assert (Ho : hard_defined (((vl, false) :: (vi, false) :: (tg, false) :: (ti, false) :: (o, true) :: m1 ++ h) :: t) o = true) by solve_hard;
          assert (Ht : defined (((vl, false) :: (vi, false) :: (tg, false) :: (ti, false) :: (o, true) :: m1 ++ h) :: t) tg = true) by solve_def;
          assert (Hv : defined (((vl, false) :: (vi, false) :: (tg, false) :: (ti, false) :: (o, true) :: m1 ++ h) :: t) vl = true) by solve_def;
          destruct (case_branches_lemma f IHe IHs _ _ _ _ _ _ _ _ _ _ _ _ _ _ _ _ Hb Hft Hs2 Ho Ht Hv Hr) as (m2 & R2 & I2)
        end.
        done_in Hl.
        eexists. split; [|split].
        -- eapply runs_app; [exact R1|]. cbn [app].
           eapply runs_hard; [reflexivity|solve_uses|].
           eapply runs_def; [reflexivity|solve_uses|].
           eapply runs_def; [reflexivity|solve_uses|].
           eapply runs_def; [reflexivity|solve_uses|].
           eapply runs_def; [reflexivity|solve_uses|].
           exact R2.
        -- solve_incl.
        -- solve_has.
      * (* EFunction *)
        fresh_in Hl fv. sub_expr Hl bc Hbc. done_in Hl.
        rs_step Hrs nb Hnb. inversion Hrs; subst us; clear Hrs.
        assert (Hs2 : sup (param_scope params :: ((v, true) :: h) :: t) (param_scope params :: sc0))
          by (apply sup_push; [apply incl_refl|apply sup_cons_entry; exact Hsup]).
        destruct (fbody_lemma f IHe IHs _ _ _ _ _ _ _ _ _ Hbc Hs2 Hnb) as (mb & Rb & Ib).
        exists [(v, true)]. split; [|split; [apply incl_nil_any|apply has_cons]].
        eapply runs_function. rewrite param_scope_eq. exact Rb.
      * (* EBlob *)
        sub_expr Hl rs Hm. fresh_in Hl o. done_in Hl.
        rs_step Hrs nf Hnf. inversion Hrs; subst us; clear Hrs.
        assert (Hs2 : sup (((self_var, true) :: h) :: t) (add_new [(self_var, true)] sc0))
          by exact (sup_add h t sc0 [(self_var, true)] [(self_var, true)] Hsup (incl_refl _)).
        destruct (fields_lemma f IHe _ _ _ _ _ _ _ _ _ Hm Hs2 Hnf) as (m1 & R1 & I1 & V1).
        eexists. split; [|split].
        -- cbn [app]. eapply runs_hard; [reflexivity|solve_uses|].
           eapply runs_app; [exact R1|].
           eapply runs_def; [reflexivity| |].
           ++ intros x Hx. rewrite map_map in Hx. cbn [snd] in Hx. rewrite Forall_forall in V1.
              apply defined_new_l. apply V1. exact Hx.
           ++ eapply runs_assign; [solve_hard|solve_def|apply runs_nil].
        -- solve_incl.
        -- solve_has.
      * (* ECollection *)
        destruct c0;
          (sub_expr Hl rs Hm; fresh_in Hl o; done_in Hl;
           destruct (exprs_lemma f IHe _ _ _ _ _ _ _ _ _ Hm Hsup Hrs) as (m1 & R1 & I1 & V1);
           eexists; split; [eapply runs_app; [exact R1|]; eapply runs_def; [reflexivity| |apply runs_nil];
                            intros x Hx; rewrite Forall_forall in V1; apply defined_new_l; apply V1; exact Hx
                           |split; [solve_incl|solve_has]]).
      * lit_case Hl Hrs.
      * lit_case Hl Hrs.
      * lit_case Hl Hrs.
      * lit_case Hl Hrs.
      * lit_case Hl Hrs.
    + intros s ctx c code c' h t sc0 us Hl Hsup Hrs.
      cbn [statement] in Hl. cbn [rs_stmt] in Hrs.
      destruct s.
      * (* SAssignment *)
        destruct (assign_op_ok op) eqn:Hopok; cbn [negb] in Hrs; [|discriminate].
        fresh_in Hl res. sub_expr Hl pcp Hpcp. destruct pcp as [[pre cur] post].
        sub_expr Hl rv Hrv. destruct rv as [cv vv]. sub_expr Hl opi Hopi. done_in Hl.
        rs_step Hrs nt Hnt. rs_step Hrs nv Hnv. inversion Hrs; subst us; clear Hrs.
        assert (T : exists m1, runs h t pre m1 /\ incl nt m1 /\ defined ((m1 ++ h) :: t) cur = true /\
                      (forall m, has m c -> runs (m ++ m1 ++ h) t post [])).
        { destruct target; try discriminate Hpcp; try discriminate Hnt.
          - (* ERead *)
            done_in Hpcp. destruct (hard_defined sc0 cur) eqn:Hh; [|discriminate]. inversion Hnt; subst nt.
            pose proof (sup_hard _ _ _ Hsup Hh) as Hh'.
            exists []. split; [apply runs_nil|]. split; [apply incl_nil_any|]. split; [solve_def|].
            intros m Hm. eapply runs_assign; [solve_hard|solve_def|apply runs_nil].
          - (* EBlobAccess *)
            sub_expr Hpcp ra Hra. destruct ra as [ca va]. fresh_in Hpcp b. done_in Hpcp.
            destruct (IHe _ _ _ _ _ _ _ _ _ _ Hra Hsup Hnt) as (m1 & R1 & I1 & V1).
            eexists. split; [|split; [|split]].
            + eapply runs_app; [exact R1|]. cbn [fst snd]. eapply runs_def; [reflexivity|solve_uses|apply runs_nil].
            + solve_incl.
            + solve_def.
            + intros m Hm. eapply runs_only; [reflexivity|solve_uses|apply runs_nil].
          - (* EIndex *)
            sub_expr Hpcp ra Hra. destruct ra as [ca va]. sub_expr Hpcp rb Hrb. destruct rb as [cb vb].
            fresh_in Hpcp ci. done_in Hpcp.
            rs_step Hnt n1 Hn1. rs_step Hnt n2 Hn2. inversion Hnt; subst nt; clear Hnt.
            destruct (IHe _ _ _ _ _ _ _ _ _ _ Hra Hsup Hn1) as (m1 & R1 & I1 & V1).
            destruct (IHe _ _ _ _ _ _ _ _ _ _ Hrb (sup_add _ _ _ _ _ Hsup I1) Hn2) as (m2 & R2 & I2 & V2).
            eexists. split; [|split; [|split]].
            + eapply runs_app; [exact R1|]. eapply runs_app; [exact R2|]. cbn [fst snd].
              eapply runs_def; [reflexivity|solve_uses|apply runs_nil].
            + solve_incl.
            + solve_def.
            + intros m Hm. eapply runs_only; [reflexivity|solve_uses|apply runs_nil]. }
        destruct T as (m1 & R1 & I1 & Dcur & Hpost).
        destruct (IHe _ _ _ _ _ _ _ _ _ _ Hrv (sup_add _ _ _ _ _ Hsup I1) Hnv) as (m2 & R2 & I2 & V2).
        cbn [fst snd] in *.
        assert (O : exists b, runs (m2 ++ m1 ++ h) t [opi] [(c, b)]).
        { destruct op; try discriminate Hopi; done_in Hopi;
            [exists true; change [(c, true)] with ([] ++ [(c, true)]); eapply runs_hard; [reflexivity|solve_uses|apply runs_nil]
            |exists false; change [(c, false)] with ([] ++ [(c, false)]); eapply runs_def; [reflexivity|solve_uses|apply runs_nil]..]. }
        destruct O as (b & Ro).
        eexists. split.
        -- eapply runs_app; [exact R1|]. eapply runs_app; [exact R2|]. eapply runs_app; [exact Ro|].
           apply (Hpost ([(c, b)] ++ m2)). solve_has.
        -- solve_incl.
      * discriminate Hrs.
      * discriminate Hrs.
      * (* SDefinition *) exact (IHd _ _ _ _ _ _ _ _ _ _ Hl Hsup Hrs).
      * discriminate Hrs.
      * (* SLoop *)
        sub_expr Hl rc Hrc. destruct rc as [cc vc]. fresh_in Hl lb. sub_expr Hl b Hb. done_in Hl.
        rs_step Hrs nc Hnc. rs_step Hrs nb Hnb. inversion Hrs; subst us; clear Hrs.
        assert (Hs1 : sup ([] :: h :: t) ([] :: sc0)) by (apply sup_push; [apply incl_refl|exact Hsup]).
        destruct (IHe _ _ _ _ _ _ _ _ _ _ Hrc Hs1 Hnc) as (m1 & R1 & I1 & V1).
        destruct (list_lemma f IHs _ _ _ _ _ _ _ _ _ Hb (sup_add _ _ _ _ _ Hs1 I1) Hnb) as (m2 & R2 & I2).
        exists []. split; [|apply incl_nil_any].
        cbn [fst snd app]. unfold runs. cbn [scope_run scope_step].
        rewrite scope_run_app, R1. cbn [scope_run scope_step].
        rewrite (step_use_only _ _ (in1 _ _ (defined_new_l _ _ _ _ V1))). cbn [scope_run scope_step].
        rewrite scope_run_app. unfold runs in R2. rewrite R2. reflexivity.
      * (* SBreak *) done_in Hl. rs_done Hrs. exists []. split; [|apply incl_nil_any].
        eapply runs_cons0; [reflexivity|apply runs_nil].
      * (* SContinue *) done_in Hl. rs_done Hrs. exists []. split; [|apply incl_nil_any].
        eapply runs_cons0; [reflexivity|apply runs_nil].
      * (* SRet *)
        destruct value as [value|].
        -- sub_expr Hl r Hr. destruct r as [rc rv]. done_in Hl.
           destruct (IHe _ _ _ _ _ _ _ _ _ _ Hr Hsup Hrs) as (m1 & R1 & I1 & V1).
           exists ([] ++ m1). split; [|solve_incl].
           eapply runs_app; [exact R1|]. cbn [fst snd].
           eapply runs_only; [reflexivity|solve_uses|apply runs_nil].
        -- fresh_in Hl a. done_in Hl. rs_done Hrs. eexists. split; [|apply incl_nil_any].
           eapply runs_def; [reflexivity|solve_uses|].
           eapply runs_only; [reflexivity|solve_uses|apply runs_nil].
      * (* SBlock *) exact (list_lemma f IHs _ _ _ _ _ _ _ _ _ Hl Hsup Hrs).
      * (* SStatementExpression *)
        sub_expr Hl r Hr. destruct r as [rc rv]. done_in Hl.
        destruct (IHe _ _ _ _ _ _ _ _ _ _ Hr Hsup Hrs) as (m1 & R1 & I1 & V1).
        exists m1. split; assumption.
      * (* SUnreachable *) done_in Hl. rs_done Hrs. exists []. split; [|apply incl_nil_any].
        eapply runs_cons0; [reflexivity|apply runs_nil].
    + intros var value ctx c code c' h t sc0 us Hl Hsup Hrs.
      cbn [definition] in Hl. cbn [rs_definition] in Hrs.
      assert (Hs1 : sup (((var, true) :: h) :: t) (add_new [(var, true)] sc0))
        by exact (sup_add h t sc0 [(var, true)] [(var, true)] Hsup (incl_refl _)).
      destruct value;
        try (sub_expr Hl r Hr; destruct r as [rc rv]; done_in Hl;
             rs_step Hrs nv Hnv; inversion Hrs; subst us; clear Hrs;
             destruct (IHe _ _ _ _ _ _ _ _ _ _ Hr Hs1 Hnv) as (m1 & R1 & I1 & V1);
             eexists; split;
             [cbn [app fst snd]; eapply runs_hard; [reflexivity|solve_uses|];
              eapply runs_app; [exact R1|]; eapply runs_assign; [solve_hard|solve_def|apply runs_nil]
             |solve_incl]).
      (* the function case *)
      fresh_in Hl unused. sub_expr Hl bc Hbc. done_in Hl.
      rs_step Hrs nb Hnb. inversion Hrs; subst us; clear Hrs.
      assert (Hs2 : sup (param_scope params :: ((var, true) :: h) :: t) (param_scope params :: add_new [(var, true)] sc0))
        by (apply sup_push; [apply incl_refl|exact Hs1]).
      destruct (fbody_lemma f IHe IHs _ _ _ _ _ _ _ _ _ Hbc Hs2 Hnb) as (mb & Rb & Ib).
      exists [(var, true)]. split; [|apply incl_refl].
      eapply runs_function. rewrite param_scope_eq. exact Rb.
Qed.

Lemma outer_lemma fuel : forall ss c cs c' h t sc0 us,
  mapM (compile_stmt fuel) ss c = Ok (cs, c') -> sup (h :: t) sc0 ->
  rs_seq (rs_outer fuel) sc0 ss = Some us ->
  exists new, runs h t (concat cs) new /\ incl us new.
Proof.
  destruct (main fuel) as (_ & _ & IHd).
  induction ss as [|s ss IH]; intros c cs c' h t sc0 us Hm Hsup Hrs.
  - apply mapM_nil_ok in Hm as [-> ->]. cbn in Hrs. inversion Hrs; subst.
    exists []. split; [apply runs_nil|apply incl_nil_any].
  - apply mapM_cons_ok in Hm as (y & k1 & ys & Hy & Hys & ->).
    cbn [rs_seq] in Hrs. apply obind_some in Hrs as (n1 & Hr1 & Hrs). apply obind_some in Hrs as (n2 & Hr2 & Hrs).
    inversion Hrs; subst us; clear Hrs.
    assert (S1 : exists m1, runs h t y m1 /\ incl n1 m1).
    { destruct s; cbn [compile_stmt] in Hy; cbn [rs_outer] in Hr1;
        try (apply ret_ok in Hy as [<- <-]; inversion Hr1; subst n1; exists []; split; [apply runs_nil|apply incl_nil_any]).
      - exact (IHd _ _ _ _ _ _ _ _ _ _ Hy Hsup Hr1).
      - apply ret_ok in Hy as [<- <-]. inversion Hr1; subst n1.
        exists ([] ++ [(var, true)]). split; [|apply incl_refl].
        eapply runs_hard; [reflexivity|solve_uses|apply runs_nil]. }
    destruct S1 as (m1 & R1 & I1).
    destruct (IH _ _ _ _ _ _ _ Hys (sup_add _ _ _ _ _ Hsup I1) Hr2) as (m2 & R2 & I2).
    exists (m2 ++ m1). cbn [concat]. split; [eapply runs_app; eassumption|apply incl_app2; assumption].
Qed.

Theorem lower_scoped : forall fuel r code,
  rs_resolved fuel r = true -> lower fuel r = Ok code -> ir_scoped code = true.
Proof.
  intros fuel r code Hrs Hl. unfold lower in Hl. unfold rs_resolved in Hrs.
  destruct (rs_seq (rs_outer fuel) [[]] (r_stmts r)) as [new|] eqn:Eseq; [|discriminate].
  destruct (find_start (r_vars r)) as [start|] eqn:Est; [|discriminate].
  match type of Hl with match ?m ?c0 with _ => _ end = _ => destruct (m c0) as [[code' cend]| |] eqn:Em; try discriminate end.
  inversion Hl; subst code'; clear Hl.
  apply bind_ok in Em as (cs & k1 & Hcs & Em).
  apply bind_ok in Em as (tmp & k2 & Hf & Em). apply fresh_ok in Hf as [-> ->]. apply ret_ok in Em as [<- <-].
  assert (Hsup : sup ([] :: []) [[]]) by (repeat constructor; apply incl_refl).
  destruct (outer_lemma fuel _ _ _ _ _ _ _ _ Hcs Hsup Eseq) as (m1 & R1 & I1).
  assert (Hst : defined ((m1 ++ []) :: []) start = true).
  { cbn [add_new] in Hrs. rewrite defined_cons in Hrs. rewrite orb_false_r in Hrs.
    apply mem_iff in Hrs. apply defined_new_l. unfold has in *. rewrite app_nil_r in Hrs.
    apply in_map_iff in Hrs as (x & E & Hin). apply in_map_iff. exists x. split; [exact E|apply I1; exact Hin]. }
  unfold ir_scoped. rewrite scope_run_app. unfold runs in R1. rewrite R1.
  cbn [scope_run scope_step]. unfold use_hard. cbn [all_defined forallb]. rewrite Hst. reflexivity.
Qed.

