(* C08: type annotations never change the generated code.
   (1) The type checker is only a judge: the compile model hands the statements it was given, unchanged, to
       the lowering (Tc.compile_after_order).
   (2) The lowering (the backend model coq/Back/IR.v, which is tied byte-for-byte to the real emitter by its
       own correspondence) never looks at a type annotation: two resolved programs that differ only in their
       `ty` components - annotated, erased, or anything else - lower to the same IR and hence to the same
       Lua text (`strip` replaces every annotation by one fixed type).
   So whenever both variants are accepted, the emitted bytes are equal (C08_bytes). *)
From Coq Require Import String List NArith ZArith Bool.
From Sylt Require Import Syntax.Resolved Types.TyGraph Types.Tc Back.IR Back.Emit.
Import ListNotations.

(* ------------------------------------------------------------------ forgetting every annotation *)

Definition ty0 : ty := TImplied (span_zero 0).

Fixpoint strip_e (e : expr) : expr :=
  match e with
  | ERead v sp => ERead v sp
  | EVariant ev v value sp => EVariant ev v (strip_e value) sp
  | ECall f args sp => ECall (strip_e f) (map strip_e args) sp
  | EBlobAccess value field sp => EBlobAccess (strip_e value) field sp
  | EIndex value index sp => EIndex (strip_e value) (strip_e index) sp
  | EBinOp op a b sp => EBinOp op (strip_e a) (strip_e b) sp
  | EUniOp op a sp => EUniOp op (strip_e a) sp
  | EIf branches sp => EIf (map strip_b branches) sp
  | ECase m branches fall sp =>
    ECase (strip_e m) (map strip_c branches) (match fall with Some l => Some (map strip_s l) | None => None end) sp
  | EFunction name params rty body pure sp =>
    EFunction name (map (fun p => (fst p, ty0)) params) ty0 (map strip_s body) pure sp
  | EBlob blob fields self_var sp => EBlob blob (map (fun fe => (fst fe, strip_e (snd fe))) fields) self_var sp
  | ECollection k values sp => ECollection k (map strip_e values) sp
  | EFloat r sp => EFloat r sp
  | EInt z sp => EInt z sp
  | EStr s sp => EStr s sp
  | EBool b sp => EBool b sp
  | ENil sp => ENil sp
  end
with strip_b (b : ifbranch) : ifbranch :=
  match b with
  | IfBranch cond body sp => IfBranch (match cond with Some c => Some (strip_e c) | None => None end) (map strip_s body) sp
  end
with strip_c (b : casebranch) : casebranch :=
  match b with
  | CaseBranch pat psp var body sp => CaseBranch pat psp var (map strip_s body) sp
  end
with strip_s (s : stmt) : stmt :=
  match s with
  | SAssignment op target value sp => SAssignment op (strip_e target) (strip_e value) sp
  | SBlob name var sp tvars fields ext => SBlob name var sp tvars (map (fun f => (fst f, (fst (snd f), ty0))) fields) ext
  | SEnum name var sp tvars variants => SEnum name var sp tvars (map (fun f => (fst f, (fst (snd f), ty0))) variants)
  | SDefinition name var kind t value sp => SDefinition name var kind ty0 (strip_e value) sp
  | SExternalDefinition name var kind t sp => SExternalDefinition name var kind ty0 sp
  | SLoop cond body sp => SLoop (strip_e cond) (map strip_s body) sp
  | SBreak sp => SBreak sp
  | SContinue sp => SContinue sp
  | SRet value sp => SRet (match value with Some v => Some (strip_e v) | None => None end) sp
  | SBlock stmts sp => SBlock (map strip_s stmts) sp
  | SStatementExpression value sp => SStatementExpression (strip_e value) sp
  | SUnreachable sp => SUnreachable sp
  end.

Definition strip (r : resolved) : resolved := mkResolved (r_vars r) (map strip_s (r_stmts r)).

(* two programs that differ only in their annotations *)
Definition same_modulo_annotations (r1 r2 : resolved) : Prop := strip r1 = strip r2.

(* ------------------------------------------------------------------ the lowering ignores annotations *)

Lemma bind_ext {A B} (m m' : IR.M A) (k k' : A -> IR.M B) :
  (forall c, m c = m' c) -> (forall a c, k a c = k' a c) -> forall c, IR.bind m k c = IR.bind m' k' c.
Proof. intros Hm Hk c. unfold IR.bind. rewrite Hm. destruct (m' c) as [[a c']| |]; auto. Qed.

Lemma mapM_ext {A B} (f f' : A -> IR.M B) : (forall x c, f x c = f' x c) -> forall l c, IR.mapM f l c = IR.mapM f' l c.
Proof.
  intros H. induction l as [|x l IH]; intros c; cbn [IR.mapM]; [reflexivity|].
  apply bind_ext; [intros; apply H|intros y c']. apply bind_ext; [apply IH|reflexivity].
Qed.

Lemma mapM_map {A B C} (f : B -> IR.M C) (g : A -> B) l : IR.mapM f (map g l) = IR.mapM (fun x => f (g x)) l.
Proof. induction l as [|x l IH]; cbn [IR.mapM map]; [reflexivity|]. rewrite IH. reflexivity. Qed.

Section Strip.
  Variable stm : stmt -> N -> IR.M (list ir).
  Variable exp : expr -> N -> IR.M (list ir * N).
  Hypothesis Hs : forall s ctx c, stm (strip_s s) ctx c = stm s ctx c.
  Hypothesis He : forall e ctx c, exp (strip_e e) ctx c = exp e ctx c.

  Lemma lower_list_strip ss ctx c : lower_list stm (map strip_s ss) ctx c = lower_list stm ss ctx c.
  Proof.
    unfold lower_list. apply bind_ext; [|reflexivity]. intros c'. rewrite mapM_map. apply mapM_ext. intros; apply Hs.
  Qed.

  Lemma lower_fbody_strip body ctx c : lower_fbody stm exp (map strip_s body) ctx c = lower_fbody stm exp body ctx c.
  Proof.
    unfold lower_fbody. rewrite <- map_rev. destruct (rev body) as [|last init]; cbn [map]; [reflexivity|].
    apply bind_ext; [intros; rewrite <- map_rev; apply lower_list_strip|intros b c'].
    apply bind_ext; [|reflexivity]. intros c''.
    destruct last; cbn [strip_s];
      try (match goal with |- stm ?x ctx c'' = stm ?y ctx c'' => exact (Hs y ctx c'') end).
    apply bind_ext; [intros; apply He|reflexivity].
  Qed.

  Lemma lower_eblock_strip out block ctx c : lower_eblock stm exp out (map strip_s block) ctx c = lower_eblock stm exp out block ctx c.
  Proof.
    unfold lower_eblock. rewrite <- map_rev. destruct (rev block) as [|last rest] eqn:E; cbn [map].
    - apply lower_list_strip.
    - destruct last; cbn [strip_s]; try apply lower_list_strip.
      apply bind_ext; [intros; rewrite <- map_rev; apply lower_list_strip|intros ops c'].
      apply bind_ext; [intros; apply He|reflexivity].
  Qed.

  Lemma lower_if_branch_strip out ctx br c :
    lower_if_branch stm exp out ctx (strip_b br) c = lower_if_branch stm exp out ctx br c.
  Proof.
    destruct br as [[cond|] body sp]; cbn [strip_b lower_if_branch].
    - apply bind_ext; [intros; apply He|intros rc c']. apply bind_ext; [intros; apply lower_eblock_strip|reflexivity].
    - apply bind_ext; [reflexivity|intros v c']. apply bind_ext; [intros; apply lower_eblock_strip|reflexivity].
  Qed.

  Lemma lower_case_branch_strip out tag value ctx br c :
    lower_case_branch stm exp out tag value ctx (strip_c br) c = lower_case_branch stm exp out tag value ctx br c.
  Proof.
    destruct br; cbn [strip_c lower_case_branch]. apply bind_ext; [intros; apply lower_eblock_strip|reflexivity].
  Qed.
End Strip.

Ltac bx :=
  repeat first
    [ reflexivity
    | apply bind_ext; [intros ?|intros ? ?] ].

Lemma lower_strip : forall fuel,
  (forall e ctx c, expression fuel (strip_e e) ctx c = expression fuel e ctx c) /\
  (forall s ctx c, statement fuel (strip_s s) ctx c = statement fuel s ctx c) /\
  (forall var value ctx c, definition fuel var (strip_e value) ctx c = definition fuel var value ctx c).
Proof.
  induction fuel as [|f (IHe & IHs & IHd)]; [repeat split; reflexivity|].
  assert (LL : forall ss ctx c, lower_list (statement f) (map strip_s ss) ctx c = lower_list (statement f) ss ctx c)
    by (intros; now apply lower_list_strip).
  assert (LF : forall b ctx c, lower_fbody (statement f) (expression f) (map strip_s b) ctx c
                               = lower_fbody (statement f) (expression f) b ctx c)
    by (intros; now apply lower_fbody_strip).
  assert (LE : forall o b ctx c, lower_eblock (statement f) (expression f) o (map strip_s b) ctx c
                                 = lower_eblock (statement f) (expression f) o b ctx c)
    by (intros; now apply lower_eblock_strip).
  assert (ME : forall l ctx c, IR.mapM (fun a => expression f a ctx) (map strip_e l) c = IR.mapM (fun a => expression f a ctx) l c).
  { intros. rewrite mapM_map. apply mapM_ext. intros; apply IHe. }
  assert (MS : forall l ctx c, IR.mapM (fun s => statement f s ctx) (map strip_s l) c = IR.mapM (fun s => statement f s ctx) l c).
  { intros. rewrite mapM_map. apply mapM_ext. intros; apply IHs. }
  repeat split.
  - intros e ctx c. destruct e; cbn [strip_e expression]; try reflexivity.
    + bx; apply IHe.
    + bx; try apply IHe; try apply ME.
    + bx; apply IHe.
    + bx; apply IHe.
    + destruct op; bx; apply IHe.
    + destruct op; bx; apply IHe.
    + bx. rewrite mapM_map. apply mapM_ext. intros; now apply lower_if_branch_strip.
      rewrite (map_map strip_b (fun _ : ifbranch => IEnd) branches). reflexivity.
    + bx; try apply IHe.
      * rewrite mapM_map. apply mapM_ext. intros; now apply lower_case_branch_strip.
      * destruct fall_through; [apply LE|reflexivity].
      * rewrite (map_map strip_c (fun _ : casebranch => IEnd) branches). reflexivity.
    + rewrite map_map. cbn [fst snd]. bx. apply LF.
    + bx. rewrite mapM_map. apply mapM_ext. intros [k e'] c'. cbn [fst snd]. bx. apply IHe.
    + match goal with c0 : collection |- _ => destruct c0 end; bx; apply ME.
  - intros s ctx c. destruct s; cbn [strip_s statement]; try reflexivity.
    + apply bind_ext; [reflexivity|intros res c1].
      apply bind_ext; [intros c2; destruct target; cbn [strip_e]; bx; apply IHe|intros [[pre_code current] post_code] c2].
      bx. apply IHe.
    + apply IHd.
    + bx; first [apply IHe|apply LL|apply MS].
    + destruct value; cbn; bx. apply IHe.
    + first [apply LL|bx; apply MS].
    + bx. apply IHe.
  - intros var value ctx c. destruct value; cbn [strip_e definition];
      try (apply bind_ext; [|reflexivity]; intros cc;
           match goal with |- expression f ?x ctx cc = expression f ?y ctx cc => exact (IHe y ctx cc) end).
    rewrite map_map. cbn [fst snd]. bx. apply LF.
Qed.

(* the whole lowering, and hence the emitted text, is the same for programs that differ only in annotations *)
Theorem lower_ignores_annotations fuel r : IR.lower fuel (strip r) = IR.lower fuel r.
Proof.
  unfold IR.lower, strip. cbn [r_vars r_stmts].
  destruct (lower_strip fuel) as (He & Hs & Hd).
  assert (E : forall c, (cs <- IR.mapM (compile_stmt fuel) (map strip_s (r_stmts r)) ;;
                         match IR.find_start (r_vars r) with
                         | None => IR.panic "intermediate.rs:compile: no start (unwrap)"
                         | Some start => tmp <- fresh ;; IR.ret (concat cs ++ [ICall tmp start []])
                         end) c
                       = (cs <- IR.mapM (compile_stmt fuel) (r_stmts r) ;;
                         match IR.find_start (r_vars r) with
                         | None => IR.panic "intermediate.rs:compile: no start (unwrap)"
                         | Some start => tmp <- fresh ;; IR.ret (concat cs ++ [ICall tmp start []])
                         end) c).
  { apply bind_ext; [|reflexivity]. intros c. rewrite mapM_map. apply mapM_ext. intros s c'.
    destruct s; cbn [strip_s compile_stmt]; try reflexivity. apply Hd. }
  rewrite E. reflexivity.
Qed.

Theorem backend_ignores_annotations fuel req r1 r2 :
  same_modulo_annotations r1 r2 -> Emit.backend fuel req r1 = Emit.backend fuel req r2.
Proof.
  unfold same_modulo_annotations, Emit.backend. intros H.
  rewrite <- (lower_ignores_annotations fuel r1), <- (lower_ignores_annotations fuel r2), H. reflexivity.
Qed.

(* ------------------------------------------------------------------ the type checker is only a judge *)

(* whatever the annotations say and whatever the checker did with them, the lowering receives exactly the
   statements the checker was given *)
Theorem checker_does_not_rewrite {L} (lower : resolved -> L) fuel r lua :
  compile_after_order lower fuel r = COk lua -> lua = lower r.
Proof. unfold compile_after_order. destruct (typecheck fuel r) as [[]| | |]; try discriminate. now intros [= <-]. Qed.

(* C08_bytes: annotated and erased variant (any two programs equal modulo annotations), both accepted:
   the same Lua text *)
Theorem C08_bytes fuel_tc fuel req r1 r2 out1 out2 :
  same_modulo_annotations r1 r2 ->
  compile_after_order (Emit.backend fuel req) fuel_tc r1 = COk out1 ->
  compile_after_order (Emit.backend fuel req) fuel_tc r2 = COk out2 ->
  out1 = out2.
Proof.
  intros S H1 H2. apply checker_does_not_rewrite in H1, H2. subst. now apply backend_ignores_annotations.
Qed.

(* ------------------------------------------------------------------ acceptance *)

(* erasing annotations of ground type on variable definitions, parameters and return types keeps a program
   accepted.  Stated, not proved; the oracle of the C08 check evaluates it on the real compiler (and found the
   known exception for NON-ground annotations: calls through fields of un-annotated parameters). *)
Fixpoint ground_ty (t : ty) : bool :=
  match t with
  | TResolved (BInt | BFloat | BStr | BBool) _ => true
  | TTuple ts _ => forallb ground_ty ts
  | TList t _ => ground_ty t
  | _ => false
  end.

(* erasure of the selected ground annotations (sel decides by the span of the annotation): a variable
   definition `x: T = e` becomes `x := e` (TImplied), a parameter `p: T` becomes `p` and a return type `-> T`
   becomes `->` (both: the unknown type `*`, which is what the parser produces for an omitted one) *)
Section Erase.
  Variable sel : span -> bool.

  Definition erase_var_ty (t : ty) : ty := if ground_ty t && sel (ty_span t) then TImplied (ty_span t) else t.
  Definition erase_sig_ty (t : ty) : ty := if ground_ty t && sel (ty_span t) then TResolved BUnknown (ty_span t) else t.

  Fixpoint erase_e (e : expr) : expr :=
    match e with
    | ERead v sp => ERead v sp
    | EVariant ev v value sp => EVariant ev v (erase_e value) sp
    | ECall f args sp => ECall (erase_e f) (map erase_e args) sp
    | EBlobAccess value field sp => EBlobAccess (erase_e value) field sp
    | EIndex value index sp => EIndex (erase_e value) (erase_e index) sp
    | EBinOp op a b sp => EBinOp op (erase_e a) (erase_e b) sp
    | EUniOp op a sp => EUniOp op (erase_e a) sp
    | EIf branches sp => EIf (map erase_b branches) sp
    | ECase m branches fall sp =>
      ECase (erase_e m) (map erase_c branches) (match fall with Some l => Some (map erase_s l) | None => None end) sp
    | EFunction name params rty body pure sp =>
      EFunction name (map (fun p => (fst p, erase_sig_ty (snd p))) params) (erase_sig_ty rty) (map erase_s body) pure sp
    | EBlob blob fields self_var sp => EBlob blob (map (fun fe => (fst fe, erase_e (snd fe))) fields) self_var sp
    | ECollection k values sp => ECollection k (map erase_e values) sp
    | EFloat r sp => EFloat r sp
    | EInt z sp => EInt z sp
    | EStr s sp => EStr s sp
    | EBool b sp => EBool b sp
    | ENil sp => ENil sp
    end
  with erase_b (b : ifbranch) : ifbranch :=
    match b with
    | IfBranch cond body sp => IfBranch (match cond with Some c => Some (erase_e c) | None => None end) (map erase_s body) sp
    end
  with erase_c (b : casebranch) : casebranch :=
    match b with
    | CaseBranch pat psp var body sp => CaseBranch pat psp var (map erase_s body) sp
    end
  with erase_s (s : stmt) : stmt :=
    match s with
    | SAssignment op target value sp => SAssignment op (erase_e target) (erase_e value) sp
    | SDefinition name var kind t value sp => SDefinition name var kind (erase_var_ty t) (erase_e value) sp
    | SLoop cond body sp => SLoop (erase_e cond) (map erase_s body) sp
    | SRet value sp => SRet (match value with Some v => Some (erase_e v) | None => None end) sp
    | SBlock stmts sp => SBlock (map erase_s stmts) sp
    | SStatementExpression value sp => SStatementExpression (erase_e value) sp
    | s => s
    end.

  Definition erase (r : resolved) : resolved := mkResolved (r_vars r) (map erase_s (r_stmts r)).
End Erase.

(* C08_accept_ground: statement only *)
Definition C08_accept_ground_statement : Prop :=
  forall sel fuel r, typecheck fuel r = TyGraph.Ok tt -> exists fuel', typecheck fuel' (erase sel r) = TyGraph.Ok tt.

(* an erased program differs from the original only in annotations *)
(* unfolding equations (cbn on the mutual fixpoints would expose the raw `fix`) *)
Lemma erase_e_if sel b sp : erase_e sel (EIf b sp) = EIf (map (erase_b sel) b) sp. Proof. reflexivity. Qed.
Lemma erase_e_case sel m b f sp :
  erase_e sel (ECase m b f sp) =
  ECase (erase_e sel m) (map (erase_c sel) b) (match f with Some l => Some (map (erase_s sel) l) | None => None end) sp.
Proof. reflexivity. Qed.
Lemma erase_e_fun sel n ps rt body pu sp :
  erase_e sel (EFunction n ps rt body pu sp) =
  EFunction n (map (fun p => (fst p, erase_sig_ty sel (snd p))) ps) (erase_sig_ty sel rt) (map (erase_s sel) body) pu sp.
Proof. reflexivity. Qed.
Lemma erase_b_eq sel c body sp :
  erase_b sel (IfBranch c body sp) =
  IfBranch (match c with Some c => Some (erase_e sel c) | None => None end) (map (erase_s sel) body) sp.
Proof. reflexivity. Qed.
Lemma erase_c_eq sel p psp v body sp :
  erase_c sel (CaseBranch p psp v body sp) = CaseBranch p psp v (map (erase_s sel) body) sp.
Proof. reflexivity. Qed.
Lemma strip_e_if b sp : strip_e (EIf b sp) = EIf (map strip_b b) sp. Proof. reflexivity. Qed.
Lemma strip_e_case m b f sp :
  strip_e (ECase m b f sp) =
  ECase (strip_e m) (map strip_c b) (match f with Some l => Some (map strip_s l) | None => None end) sp.
Proof. reflexivity. Qed.
Lemma strip_e_fun n ps rt body pu sp :
  strip_e (EFunction n ps rt body pu sp) = EFunction n (map (fun p => (fst p, ty0)) ps) ty0 (map strip_s body) pu sp.
Proof. reflexivity. Qed.
Lemma strip_b_eq c body sp :
  strip_b (IfBranch c body sp) = IfBranch (match c with Some c => Some (strip_e c) | None => None end) (map strip_s body) sp.
Proof. reflexivity. Qed.
Lemma strip_c_eq p psp v body sp : strip_c (CaseBranch p psp v body sp) = CaseBranch p psp v (map strip_s body) sp.
Proof. reflexivity. Qed.

Lemma strip_erase_e sel : forall e, strip_e (erase_e sel e) = strip_e e
with strip_erase_b sel : forall b, strip_b (erase_b sel b) = strip_b b
with strip_erase_c sel : forall b, strip_c (erase_c sel b) = strip_c b
with strip_erase_s sel : forall s, strip_s (erase_s sel s) = strip_s s.
Proof.
  - destruct e;
      try rewrite erase_e_if; try rewrite erase_e_case; try rewrite erase_e_fun;
      try rewrite !strip_e_if; try rewrite !strip_e_case; try rewrite !strip_e_fun;
      cbn [erase_e strip_e]; try reflexivity.
    + now rewrite strip_erase_e.
    + rewrite strip_erase_e. f_equal. rewrite map_map.
      induction args as [|a args IH]; cbn [map]; [reflexivity|]. now rewrite strip_erase_e, IH.
    + now rewrite strip_erase_e.
    + now rewrite !strip_erase_e.
    + now rewrite !strip_erase_e.
    + now rewrite strip_erase_e.
    + f_equal. rewrite map_map.
      induction branches as [|a l IH]; cbn [map]; [reflexivity|]. now rewrite strip_erase_b, IH.
    + rewrite strip_erase_e. f_equal.
      * rewrite map_map. induction branches as [|a l IH]; cbn [map]; [reflexivity|]. now rewrite strip_erase_c, IH.
      * destruct fall_through as [l|]; [|reflexivity]. f_equal. rewrite map_map.
        induction l as [|a l IH]; cbn [map]; [reflexivity|]. now rewrite strip_erase_s, IH.
    + f_equal.
      * rewrite map_map. cbn [fst]. reflexivity.
      * rewrite map_map. induction body as [|a l IH]; cbn [map]; [reflexivity|]. now rewrite strip_erase_s, IH.
    + f_equal. rewrite map_map. induction fields as [|[k a] l IH]; cbn [map fst snd]; [reflexivity|].
      cbn [map fst snd] in IH. now rewrite strip_erase_e, IH.
    + f_equal. rewrite map_map. induction values as [|a l IH]; cbn [map]; [reflexivity|]. now rewrite strip_erase_e, IH.
  - destruct b as [c body sp]. rewrite erase_b_eq, !strip_b_eq. f_equal.
    + destruct c; [now rewrite strip_erase_e|reflexivity].
    + rewrite map_map; induction body as [|a l IH]; cbn [map]; [reflexivity|]; now rewrite strip_erase_s, IH.
  - destruct b. rewrite erase_c_eq, !strip_c_eq. f_equal.
    rewrite map_map; induction body as [|a l IH]; cbn [map]; [reflexivity|]; now rewrite strip_erase_s, IH.
  - destruct s; try reflexivity.
    + change (SAssignment op (strip_e (erase_e sel target)) (strip_e (erase_e sel value)) sp = SAssignment op (strip_e target) (strip_e value) sp).
      now rewrite !strip_erase_e.
    + change (SDefinition name var kind ty0 (strip_e (erase_e sel value)) sp = SDefinition name var kind ty0 (strip_e value) sp).
      now rewrite strip_erase_e.
    + change (SLoop (strip_e (erase_e sel condition)) (map strip_s (map (erase_s sel) body)) sp = SLoop (strip_e condition) (map strip_s body) sp).
      rewrite strip_erase_e. f_equal. rewrite map_map.
      induction body as [|a l IH]; cbn [map]; [reflexivity|]. now rewrite strip_erase_s, IH.
    + destruct value as [v|]; [|reflexivity].
      change (SRet (Some (strip_e (erase_e sel v))) sp = SRet (Some (strip_e v)) sp). now rewrite strip_erase_e.
    + change (SBlock (map strip_s (map (erase_s sel) statements)) sp = SBlock (map strip_s statements) sp).
      f_equal. rewrite map_map. induction statements as [|a l IH]; cbn [map]; [reflexivity|]. now rewrite strip_erase_s, IH.
    + change (SStatementExpression (strip_e (erase_e sel value)) sp = SStatementExpression (strip_e value) sp).
      now rewrite strip_erase_e.
Qed.

Theorem erase_same_modulo sel r : same_modulo_annotations (erase sel r) r.
Proof.
  unfold same_modulo_annotations, strip, erase. cbn [r_vars r_stmts]. f_equal. rewrite map_map.
  apply map_ext. intros s. apply strip_erase_s.
Qed.

(* hence: erasing any set of ground annotations changes not a byte, whenever both programs are accepted *)
Corollary C08_bytes_erase sel fuel_tc fuel req r out1 out2 :
  compile_after_order (Emit.backend fuel req) fuel_tc r = COk out1 ->
  compile_after_order (Emit.backend fuel req) fuel_tc (erase sel r) = COk out2 ->
  out1 = out2.
Proof. intros H1 H2. eapply C08_bytes; [|exact H1|exact H2]. symmetry. apply erase_same_modulo. Qed.
