(* Definitions of functions and function-valued constants, assignment of function values, binding of parameters (the worlds
   they create); statement lists (P_blk); the body of a function with a plain result; guards.  Continued in SimApply.v. *)
From Coq Require Import String Ascii List NArith ZArith QArith Bool Lia.
From Sylt Require Import Syntax.Resolved.
From Sylt Require Sem.Values Sem.Runtime Sem.SyltSem.
From Sylt Require Import Back.IR Back.Emit Back.ScopeProofs.
From Sylt Require Import Pres.EmitAst Pres.EmitRel Pres.Names Pres.LuaFuel Pres.LuaEv Pres.Preamble.
From Sylt Require Import Pres.Frag.
From Sylt Require Import Pres.SimDefs Pres.SimOps Pres.SimVals.
From Sylt Require Import Pres.SimExpr Pres.LowerShape Pres.SimSteps Pres.SimExprProofs Pres.SimEcall.
From Sylt Require Import Pres.LuaLoop.
From Sylt Require Import Pres.SimFun.
From Sylt Require Import Pres.NoExit Pres.SimStmt Pres.RunEq.
From Sylt Require Import Lua.LuaAst Lua.LuaMap Lua.LuaNum Lua.LuaProofs Lua.LuaCore.
Import ListNotations.
Local Open Scope N_scope.

Ltac splits := repeat match goal with |- _ /\ _ => split end.

(* ------------------------------------------------------------------ function definitions at chunk level *)

(* the world after the creation of the closure d, bound to the name fd_var d *)
Definition world_add (W : world) (d : fdyn) : world :=
  mkWorld (w_R W) (fun c p K => w_F W c p K \/ (c = fd_cf d /\ p = fd_pf d /\ K = dkind d))
          (fun d' => w_D W d' \/ d' = d) (w_P W) (w_pc W).

Lemma wsub_world_add W d : wsub W (world_add W d).
Proof. unfold wsub, world_add. cbn. repeat split; auto. Qed.

Section DefFun.
Variable pv : N.
Variable sv : N.
Variable bound : N.
Variable u : counts.

Notation ctx_ok := (ctx_ok bound).

(* `local function V<fv>(ps) <body> end`: the closure joins the world, its name the callable functions; the
   description d records its code, its cells and its closure environments *)
Lemma rel_define_function fl W sc e st E stL fv ps ks rk body g k bc ctx c c2 l :
  rel pv sv bound u fl W sc e st E stL ->
  fresh_id pv sv bound fl sc fv = true ->
  params_ok pv sv bound ((fv, KF ks rk) :: fl) sc ps = true -> length ks = length ps ->
  fbody_check (frag_stmts pv sv bound (snd (bind_scope ps ks sc ((fv, KF ks rk) :: fl))) k (fst (bind_scope ps ks sc ((fv, KF ks rk) :: fl))))
              (fun fl1 sc1 x => frag_fexpr pv sv bound fl1 k sc1 x) (fun fl1 sc1 x => frag_expr pv sv bound fl1 k sc1 x) k body rk = true ->
  lower_fbody (statement g) (expression g) body ctx c = Ok (bc, c2) ->
  ucovers u bc -> bound <= c -> lut_ok bound l c c2 -> E_free E c c2 ->
  let E1 := sset (fmt_var fv) (s_ncell stL) E in
  let d := mkFdyn fv ps ks rk body sc ((fv, KF ks rk) :: fl) g k bc ctx c c2 l
                  (length (SyltSem.cells st)) (length (SyltSem.clos st)) (def_env fv e st)
                  (s_ncell stL) (s_nclo stL) E1 in
  rel pv sv bound u ((fv, KF ks rk) :: fl) (world_add W d) sc (def_env fv e st) (def_state fv ps body e st)
      E1 (lua_def_state stL E1 ps (fbody u d)).
Proof.
  intros (Hfs & W1 & Hs1 & Hrel0) Hfresh Hpok Hlks Hfb Hlow Hub Hbc Hlut HEf E1 d.
  pose proof Hrel0 as [Hb Hfbd Hp Hpb HpE HpG Hwf Ht Hli HW].
  pose proof HW as [H1 H2 H3 H4 H5 H6 H7 Hff H8 H9 H10 Hall Hlock H11 H13 H14 Hfi].
  assert (H12 : forall f ar, In (f, ar) fl -> ar <> KP ->
            exists c0 p, SyltSem.lookup e f = Some c0 /\ sget (fmt_var f) E = Some p /\ w_F W1 c0 p ar).
  { intros f ar Hin HK. destruct (Hfs f ar Hin HK) as (c0 & p & A & B & C). exists c0, p.
    destruct Hs1 as (_ & HF & _). auto. }
  destruct (fresh_id_inv _ _ _ _ _ _ Hfresh) as (Hnin & Hnpv & Hnsv & Hfvb).
  pose proof (fresh_id_fl _ _ _ _ _ _ Hfresh) as Hnfl.
  set (fl' := (fv, KF ks rk) :: fl) in *.
  set (stL2 := lua_def_state stL E1 ps (fbody u d)).
  assert (Hold : forall p, (p < s_ncell stL)%positive -> get_cell stL2 p = get_cell stL p)
    by (intros p Hp'; apply lua_def_old; exact Hp').
  assert (Hnc2 : s_ncell stL2 = Pos.succ (s_ncell stL)) by reflexivity.
  assert (Hwf1 : wfenv E1 stL2).
  { pose proof (wfenv_local E stL fv VNil Hwf) as [HV Hin Ha]. constructor; [exact HV | exact Hin |].
    intros x p H. specialize (Ha x p H). cbn in *. exact Ha. }
  assert (HRc : forall c0 p b, w_R W1 c0 p b -> (c0 < length (SyltSem.cells st))%nat /\ (p < s_ncell stL)%positive).
  { intros c0 p b Hr. destruct (H1 c0 p b Hr) as (y & A & _ & B). split; [apply nth_error_Some; congruence | exact B]. }
  assert (HFc : forall c0 p d0, w_F W1 c0 p d0 -> (c0 < length (SyltSem.cells st))%nat /\ (p < s_ncell stL)%positive).
  { intros c0 p d0 Hf. destruct (H6 c0 p d0 Hf) as (dd & A & _ & B & _). split; [apply nth_error_Some; congruence | exact B]. }
  (* the scope seen from the new environments *)
  assert (Hsc2 : forall v, In v sc -> exists c0 p, SyltSem.lookup (def_env fv e st) v = Some c0 /\ sget (fmt_var v) E1 = Some p /\ w_R W1 c0 p true).
  { intros v Hv. destruct (H11 v Hv) as (c0 & p & A & B & C). exists c0, p.
    assert (Hne : v <> fv) by (intros ->; contradiction).
    unfold def_env. cbn [SyltSem.lookup]. destruct (N.eqb_spec fv v); [congruence|].
    split; [exact A | split; [unfold E1; rewrite sget_sset_var by exact Hne; exact B | exact C]]. }
  assert (Hfl2 : forall f ar, In (f, ar) fl' -> ar <> KP ->
            exists c0 p, SyltSem.lookup (def_env fv e st) f = Some c0 /\ sget (fmt_var f) E1 = Some p /\
                         w_F (world_add W1 d) c0 p ar).
  { intros f ar [Heq|Hin] HK.
    - inversion Heq; subst f ar. exists (length (SyltSem.cells st)), (s_ncell stL).
      unfold def_env. cbn [SyltSem.lookup]. rewrite N.eqb_refl.
      split; [reflexivity | split; [apply sget_sset_same | right; cbn [d fd_cf fd_pf dkind fd_pk fd_rk]; auto]].
    - destruct (H12 f ar Hin HK) as (c0 & p & A & B & C). exists c0, p.
      assert (Hne : f <> fv).
      { intros ->. apply Hnfl. unfold fnames. change fv with (fst (fv, ar)). apply in_map. exact Hin. }
      unfold def_env. cbn [SyltSem.lookup]. destruct (N.eqb_spec fv f); [congruence|].
      split; [exact A | split; [unfold E1; rewrite sget_sset_var by exact Hne; exact B | left; exact C]]. }
  assert (Htm2 : forall t p, bound <= t -> sget (fmt_var t) E1 = Some p -> not_user (world_add W1 d) p).
  { intros t p Hbt Hq. unfold E1 in Hq. rewrite sget_sset_var in Hq by lia. destruct (H14 t p Hbt Hq) as [Hn1 Hn2].
    split; [exact Hn1|]. intros c0 d0 [Hf|(_ & -> & _)]; [exact (Hn2 c0 d0 Hf)|].
    cbn [d fd_pf] in Hq. pose proof (wf_alloc _ _ Hwf _ _ Hq). lia. }
  (* the static facts about the new function *)
  assert (Hstatic : fstatic pv sv bound u d).
  { constructor; cbn [d fd_var fd_params fd_pk fd_rk fd_body fd_sc fd_fl fd_g fd_k fd_code fd_c fd_c' fd_lut fd_ef fd_Ef].
    - exact Hlow.
    - exact Hfb.
    - exact Hlks.
    - exact Hpok.
    - exact Hb.
    - intros g0 [<-|Hg]; [split; assumption | apply Hfbd; exact Hg].
    - intros g0 Hg [Heq|Hf]; [cbn [fst] in Heq; subst g0; contradiction | exact (H13 g0 Hg Hf)].
    - exact Hub.
    - exact Hbc.
    - exact Hlut.
    - intros t0 Ht0. unfold E1. rewrite sget_sset_var by lia. apply HEf. exact Ht0.
    - unfold E1. rewrite sget_sset_var by (intros Heq; apply Hnpv; symmetry; exact Heq). exact HpE.
    - apply (wf_V _ _ Hwf1).
    - apply (wf_inj _ _ Hwf1). }
  assert (Hs2 : wsub (world_add W d) (world_add W1 d)).
  { destruct Hs1 as (A & B & C & D & F). unfold wsub, world_add. cbn.
    split; [exact A|]. split; [intros c0 p d0 [Hf|Hf]; [left; apply B; exact Hf | right; exact Hf]|].
    split; [intros d0 [Hd0|Hd0]; [left; apply C; exact Hd0 | right; exact Hd0]|]. split; assumption. }
  split.
  { intros f ar [Heq|Hin] HK.
    - inversion Heq; subst f ar. exists (length (SyltSem.cells st)), (s_ncell stL).
      unfold def_env. cbn [SyltSem.lookup]. rewrite N.eqb_refl.
      split; [reflexivity | split; [apply sget_sset_same | right; cbn [d fd_cf fd_pf dkind fd_pk fd_rk]; auto]].
    - destruct (Hfs f ar Hin HK) as (c0 & p & A & B & C). exists c0, p.
      assert (Hne : f <> fv).
      { intros ->. apply Hnfl. unfold fnames. change fv with (fst (fv, ar)). apply in_map. exact Hin. }
      unfold def_env. cbn [SyltSem.lookup]. destruct (N.eqb_spec fv f); [congruence|].
      split; [exact A | split; [unfold E1; rewrite sget_sset_var by exact Hne; exact B | left; exact C]]. }
  exists (world_add W1 d). split; [exact Hs2|].
  constructor.
  - exact Hb.
  - intros g0 [<-|Hg]; [split; assumption | apply Hfbd; exact Hg].
  - unfold def_env. cbn [SyltSem.lookup world_add w_pc]. destruct (N.eqb_spec fv pv); [congruence | exact Hp].
  - exact Hpb.
  - unfold E1. rewrite sget_sset_var by (intros Heq; apply Hnpv; symmetry; exact Heq). exact HpE.
  - eapply glob_frame; [|exact HpG]. reflexivity.
  - exact Hwf1.
  - exact Ht.
  - apply linv_lua_def. exact Hli.
  - (* the world *)
    constructor; cbn [world_add w_R w_F w_D w_P w_pc].
    + intros c0 p b Hr. destruct (H1 c0 p b Hr) as (y & A & B & C). exists y.
      split; [unfold def_state; cbn [SyltSem.cells]; apply nth_error_app_old; exact A|].
      split; [rewrite Hold by exact C; exact B | rewrite Hnc2; lia].
    + exact H2.
    + exact H3.
    + intros c0 p b Hr. destruct (H4 c0 p b Hr) as [A B]. destruct (HRc _ _ _ Hr) as [Hc0 Hp0]. split.
      * intros p' d0 [Hf|(-> & _ & _)]; [exact (A p' d0 Hf) | cbn [d fd_cf] in Hc0; lia].
      * intros c' d0 [Hf|(_ & -> & _)]; [exact (B c' d0 Hf) | cbn [d fd_pf] in Hp0; lia].
    + exact H5.
    + intros c0 p d0 [Hf|(-> & -> & ->)].
      * destruct (H6 c0 p d0 Hf) as (dd & A & B & C & D & Dk). exists dd.
        split; [unfold def_state; cbn [SyltSem.cells]; apply nth_error_app_old; exact A|].
        split; [rewrite Hold by exact C; exact B|]. split; [rewrite Hnc2; lia | split; [left; exact D | exact Dk]].
      * exists d. cbn [d fd_cf fd_pf fd_ci fd_fid].
        split; [unfold def_state; cbn [SyltSem.cells]; apply nth_error_app_new|].
        split; [unfold stL2, lua_def_state; apply get_cell_set_same|]. split; [rewrite Hnc2; lia | split; [right; reflexivity | reflexivity]].
    + intros c0 p d0 lv [Hf|(_ & -> & _)]; [exact (H7 c0 p d0 lv Hf)|].
      cbn [d fd_pf]. intros Hq. destruct (H8 _ _ Hq). lia.
    + intros c0 p d0 p' d0' [Hf|(-> & -> & ->)] [Hf'|(Hc' & Hp' & Hd')].
      * exact (Hff c0 p d0 p' d0' Hf Hf').
      * subst c0. destruct (HFc _ _ _ Hf). cbn [d fd_cf] in *. lia.
      * destruct (HFc _ _ _ Hf'). cbn [d fd_cf] in *. lia.
      * subst. split; reflexivity.
    + intros p lv Hq. destruct (H8 p lv Hq) as [A B]. split; [rewrite Hold by exact B; exact A | rewrite Hnc2; lia].
    + unfold def_state. cbn [SyltSem.cells]. apply nth_error_app_old. exact H9.
    + intros d0 [Hd0| ->].
      * destruct (H10 d0 Hd0) as (A & B & C & D & F & G & G' & Hsc & Hfl & Htm).
        split; [exact A|]. split; [unfold def_state; cbn [SyltSem.clos]; rewrite nth_error_app1 by exact G; exact B|].
        split.
        { unfold stL2, lua_def_state, set_cell, alloc_closure, alloc_cell. cbn [snd s_clos s_nclo].
          rewrite pget_pset_other; [exact C|]. intros Heq. rewrite F, Hlock in Heq. apply fid_of_inj in Heq. lia. }
        split; [intros x p Hx; specialize (D x p Hx); rewrite Hnc2; lia|].
        split; [exact F|]. split; [unfold def_state; cbn [SyltSem.clos]; rewrite app_length; lia|]. split; [exact G'|].
        split; [exact Hsc|].
        split; [intros f ar Hin HK; destruct (Hfl f ar Hin HK) as (c0 & p & X & Y & Z); exists c0, p; auto|].
        intros t p Hbt Hq. destruct (Htm t p Hbt Hq) as [Hn1 Hn2]. split; [exact Hn1|].
        intros c0 d1 [Hf|(_ & -> & _)]; [exact (Hn2 c0 d1 Hf)|]. specialize (D _ _ Hq). cbn [d fd_pf] in D. lia.
      * split; [exact Hstatic|]. cbn [d fd_ci fd_params fd_body fd_ef fd_fid fd_Ef fd_sc fd_fl].
        split; [unfold def_state; cbn [SyltSem.clos]; apply nth_error_app_new|].
        split; [unfold stL2, lua_def_state, set_cell, alloc_closure, alloc_cell; cbn [snd s_clos s_nclo]; apply pget_pset_same|].
        split; [apply (wf_alloc _ _ Hwf1)|].
        split; [exact Hlock|]. split; [unfold def_state; cbn [SyltSem.clos]; rewrite app_length; cbn [length]; lia|].
        split; [unfold def_env; cbn [SyltSem.lookup]; destruct (N.eqb_spec fv pv); [congruence | exact Hp]|].
        split; [exact Hsc2|]. split; [exact Hfl2 | exact Htm2].
    + intros ci Hci. unfold def_state in Hci. cbn [SyltSem.clos] in Hci. rewrite app_length in Hci. cbn [length] in Hci.
      destruct (Nat.eq_dec ci (length (SyltSem.clos st))) as [->|Hne].
      * exists d. split; [right; reflexivity | reflexivity].
      * destruct (Hall ci ltac:(lia)) as (d0 & A & B). exists d0. split; [left; exact A | exact B].
    + unfold stL2, lua_def_state, set_cell, alloc_closure, alloc_cell, def_state. cbn [snd s_nclo SyltSem.clos].
      rewrite app_length. cbn [length]. rewrite Nat.add_1_r, fid_of_succ, Hlock. reflexivity.
    + exact Hsc2.
    + intros v Hvin [Heq|Hf]; [cbn [fst] in Heq; subst v; contradiction | exact (H13 v Hvin Hf)].
    + exact Htm2.
    + intros c0 c0' p K0 K0' [Hf|(-> & -> & _)] [Hf'|(-> & Hp' & _)].
      * exact (Hfi c0 c0' p K0 K0' Hf Hf').
      * subst p. destruct (HFc _ _ _ Hf). cbn [d fd_pf] in *. lia.
      * destruct (HFc _ _ _ Hf'). cbn [d fd_pf] in *. lia.
      * reflexivity.
Qed.

End DefFun.

(* ------------------------------------------------------------------ association lists with different keys *)

Lemma lookup_app_notin al e v : ~ In v (map fst al) -> SyltSem.lookup (al ++ e) v = SyltSem.lookup e v.
Proof.
  induction al as [|[k c] al IH]; intros Hn; [reflexivity|]. cbn [app SyltSem.lookup].
  destruct (N.eqb_spec k v) as [->|]; [exfalso; apply Hn; left; reflexivity | apply IH; intros H; apply Hn; right; exact H].
Qed.

Lemma lookup_app_in al e e' v : In v (map fst al) -> SyltSem.lookup (al ++ e) v = SyltSem.lookup (al ++ e') v.
Proof.
  induction al as [|[k c] al IH]; intros Hin; [destruct Hin|]. cbn [app SyltSem.lookup].
  destruct (N.eqb_spec k v) as [->|Hne]; [reflexivity|]. apply IH. destruct Hin as [H|H]; [contradiction | exact H].
Qed.

Lemma lookup_rev_nodup al : NoDup (map fst al) -> forall e v, SyltSem.lookup (rev al ++ e) v = SyltSem.lookup (al ++ e) v.
Proof.
  induction al as [|[k c] al IH]; intros Hnd e v; [reflexivity|].
  inversion Hnd as [|? ? Hnk Hnd']; subst. cbn [rev]. rewrite <- app_assoc. cbn [app].
  rewrite (IH Hnd' ((k, c) :: e) v). cbn [SyltSem.lookup].
  destruct (N.eqb_spec k v) as [->|Hne].
  - rewrite lookup_app_notin by exact Hnk. cbn [SyltSem.lookup]. rewrite N.eqb_refl. reflexivity.
  - destruct (in_dec N.eq_dec v (map fst al)) as [Hin|Hnin].
    + apply lookup_app_in. exact Hin.
    + rewrite !lookup_app_notin by exact Hnin. cbn [SyltSem.lookup]. destruct (N.eqb_spec k v); [contradiction | reflexivity].
Qed.

Section Sim.
Variable pv : N.
Variable sv : N.
Variable bound : N.
Variable u : counts.
Variable fl : list (N * kind).
Variable W : world.

Notation rel := (rel pv sv bound u fl W).
Notation winv := (winv pv sv bound u fl W).

(* the relation only looks at the Sylt environment through lookup *)
Lemma rel_lookup_ext sc e e' st E stL :
  (forall v, SyltSem.lookup e' v = SyltSem.lookup e v) -> rel sc e st E stL -> rel sc e' st E stL.
Proof.
  intros Hl (Hfs & W1 & Hs1 & [Hb Hfb Hp Hpb HpE HpG Hwf Ht Hli HW]).
  split; [intros f ar Hin HK; destruct (Hfs f ar Hin HK) as (c & p & A & B); exists c, p; rewrite Hl; auto|].
  exists W1. split; [exact Hs1|]. constructor; auto.
  - rewrite Hl. exact Hp.
  - apply (winv_env pv sv bound u fl W1 sc e st E stL fl sc e' E HW).
    + intros v Hv. destruct (wi_sc _ _ _ _ _ _ _ _ _ _ _ HW v Hv) as (c & p & A & B & C). exists c, p. rewrite Hl. auto.
    + apply (wi_scfl _ _ _ _ _ _ _ _ _ _ _ HW).
    + apply (wi_temps _ _ _ _ _ _ _ _ _ _ _ HW).
Qed.

(* a new user variable with a value on both sides (a parameter) *)
Lemma rel_define_var sc e st E stL var x lv :
  rel sc e st E stL -> fresh_id pv sv bound fl sc var = true -> vrel x lv ->
  rel (var :: sc) ((var, length (SyltSem.cells st)) :: e) (s_alloc st x)
      (sset (fmt_var var) (s_ncell stL) E) (snd (alloc_cell stL lv)).
Proof. apply rel_define_user. Qed.

(* ------------------------------------------------------------------ the parameters of a call *)

Lemma params_ok_inv : forall ps sc, params_ok pv sv bound fl sc ps = true ->
  NoDup ps /\ (forall p, In p ps -> ~ In p sc /\ p < bound /\ p <> pv /\ ~ In p (fnames fl)).
Proof.
  induction ps as [|p ps IH]; intros sc H; [split; [constructor | intros p []]|].
  cbn [params_ok] in H. apply andb_prop in H as [Hf Hr]. destruct (IH _ Hr) as [Hnd Hall].
  destruct (fresh_id_inv _ _ _ _ _ _ Hf) as (Hnin & Hnpv & _ & Hb). pose proof (fresh_id_fl _ _ _ _ _ _ Hf) as Hnfl.
  split.
  - constructor; [|exact Hnd]. intros Hin. destruct (Hall p Hin) as [Hn _]. apply Hn. left. reflexivity.
  - intros q [<-|Hq]; [auto|]. destruct (Hall q Hq) as (Hn & H2 & H3 & H4). splits; auto. intros Hin. apply Hn. right. exact Hin.
Qed.

End Sim.

(* ------------------------------------------------------------------ binding the parameters: plain values join the
   user variables, closures the callable functions *)
Section Bind.
Variable pv : N.
Variable sv : N.
Variable bound : N.
Variable u : counts.

(* the world with the two cells of a function parameter that holds the closure d *)
Definition world_addF (W0 : world) (c : nat) (p : positive) (K : kind) : world :=
  mkWorld (w_R W0) (fun c' p' K' => w_F W0 c' p' K' \/ (c' = c /\ p' = p /\ K' = K)) (w_D W0) (w_P W0) (w_pc W0).

Lemma wsub_addF W0 c p d : wsub W0 (world_addF W0 c p d).
Proof. unfold wsub, world_addF. cbn. repeat split; auto. Qed.

Lemma rel_define_fparam fl W sc e st E stL var d :
  rel pv sv bound u fl W sc e st E stL -> fresh_id pv sv bound fl sc var = true -> w_D W d ->
  rel pv sv bound u ((var, dkind d) :: fl) (world_addF W (length (SyltSem.cells st)) (s_ncell stL) (dkind d)) sc
      ((var, length (SyltSem.cells st)) :: e) (s_alloc st (SyltSem.SClos (fd_ci d)))
      (sset (fmt_var var) (s_ncell stL) E) (snd (alloc_cell stL (VFun (fd_fid d)))).
Proof.
  intros (Hfs & W1 & Hs1 & [Hb Hfb Hp Hpb HpE HpG Hwf Ht Hli HW]) Hfresh Hd.
  destruct (fresh_id_inv _ _ _ _ _ _ Hfresh) as (Hnin & Hnpv & Hnsv & Hvb). pose proof (fresh_id_fl _ _ _ _ _ _ Hfresh) as Hnfl.
  pose proof HW as [H1 H2 H3 H4 H5 H6 H7 Hff H8 H9 H10 Hall Hlock H11 H13 H14 Hfi].
  assert (Hd1 : w_D W1 d) by (destruct Hs1 as (_ & _ & HD & _); apply HD; exact Hd).
  set (c0 := length (SyltSem.cells st)). set (p0 := s_ncell stL).
  assert (HRc : forall c p b, w_R W1 c p b -> (c < c0)%nat /\ (p < p0)%positive).
  { intros c p b Hr. destruct (H1 c p b Hr) as (y & A & _ & B). split; [apply nth_error_Some; congruence | exact B]. }
  assert (HFc : forall c p d', w_F W1 c p d' -> (c < c0)%nat /\ (p < p0)%positive).
  { intros c p d' Hf. destruct (H6 c p d' Hf) as (dd & A & _ & B & _). split; [apply nth_error_Some; congruence | exact B]. }
  split.
  { intros f K [Heq|Hin] HK.
    - inversion Heq; subst f K. exists c0, p0. cbn [SyltSem.lookup]. rewrite N.eqb_refl.
      split; [reflexivity | split; [apply sget_sset_same | right; auto]].
    - destruct (Hfs f K Hin HK) as (c & p & A & B & C). exists c, p.
      assert (Hne : f <> var).
      { intros ->. apply Hnfl. unfold fnames. apply in_map_iff. eexists. split; [|exact Hin]. reflexivity. }
      cbn [SyltSem.lookup]. destruct (N.eqb_spec var f); [congruence|].
      split; [exact A | split; [rewrite sget_sset_var by exact Hne; exact B | left; exact C]]. }
  exists (world_addF W1 c0 p0 (dkind d)). split.
  { destruct Hs1 as (A & B & C & D & F). unfold wsub, world_addF. cbn.
    split; [exact A|]. split; [intros c p d' [Hf|Hf]; [left; apply B; exact Hf | right; exact Hf]|]. split; [exact C | split; assumption]. }
  constructor.
  - exact Hb.
  - intros g0 [<-|Hg]; [split; assumption | apply Hfb; exact Hg].
  - cbn [SyltSem.lookup world_addF w_pc]. destruct (N.eqb_spec var pv); [congruence | exact Hp].
  - exact Hpb.
  - rewrite sget_sset_var by (intros Heq; apply Hnpv; symmetry; exact Heq). exact HpE.
  - eapply glob_frame; [|exact HpG]. reflexivity.
  - apply wfenv_local. exact Hwf.
  - exact Ht.
  - apply linv_alloc_cell. exact Hli.
  - constructor; cbn [world_addF w_R w_F w_D w_P w_pc].
    + intros c p b Hr. destruct (H1 c p b Hr) as (y & A & B & C). exists y. split; [apply nth_error_app_old; exact A|].
      split; [rewrite get_cell_alloc_old; assumption | cbn; lia].
    + exact H2.
    + exact H3.
    + intros c p b Hr. destruct (H4 c p b Hr) as [A B]. destruct (HRc _ _ _ Hr). split.
      * intros p' d' [Hf|(-> & _ & _)]; [exact (A p' d' Hf) | unfold c0 in *; lia].
      * intros c' d' [Hf|(_ & -> & _)]; [exact (B c' d' Hf) | unfold p0 in *; lia].
    + exact H5.
    + intros c p d' [Hf|(-> & -> & ->)].
      * destruct (H6 c p d' Hf) as (dd & A & B & C & D & Dk). exists dd.
        split; [apply nth_error_app_old; exact A|]. split; [rewrite get_cell_alloc_old; assumption|]. split; [cbn; lia | split; [exact D | exact Dk]].
      * exists d. split; [apply nth_error_app_new|]. split; [apply get_cell_alloc_new|]. split; [cbn; unfold p0; lia | split; [exact Hd1 | reflexivity]].
    + intros c p d' lv [Hf|(_ & -> & _)]; [exact (H7 c p d' lv Hf)|]. intros Hq. destruct (H8 _ _ Hq). unfold p0 in *. lia.
    + intros c p d1 p' d2 [Hf|(-> & -> & ->)] [Hf'|(Hc' & Hp' & Hd')].
      * exact (Hff c p d1 p' d2 Hf Hf').
      * subst c. destruct (HFc _ _ _ Hf). lia.
      * destruct (HFc _ _ _ Hf'). lia.
      * subst. split; reflexivity.
    + intros p lv Hq. destruct (H8 p lv Hq) as [A B]. split; [rewrite get_cell_alloc_old; assumption | cbn; lia].
    + apply nth_error_app_old. exact H9.
    + intros d0 Hd0. destruct (H10 d0 Hd0) as (A & B & C & D & F & G & G' & Hsc & Hfl & Htm).
      split; [exact A|]. split; [exact B|]. split; [exact C|]. split; [intros y p Hy; specialize (D y p Hy); cbn; lia|].
      split; [exact F|]. split; [exact G|]. split; [exact G'|]. split; [exact Hsc|].
      split; [intros f K Hin HK; destruct (Hfl f K Hin HK) as (c & p & X & Y & Z); exists c, p; auto|].
      intros t p Hbt Hq. destruct (Htm t p Hbt Hq) as [Hn1 Hn2]. split; [exact Hn1|].
      intros c d1 [Hf|(_ & -> & _)]; [exact (Hn2 c d1 Hf)|]. specialize (D _ _ Hq). unfold p0 in *. lia.
    + exact Hall.
    + exact Hlock.
    + intros w Hin. destruct (H11 w Hin) as (c & p & A & B & C). exists c, p.
      assert (Hne : w <> var) by (intros ->; contradiction).
      cbn [SyltSem.lookup]. destruct (N.eqb_spec var w); [congruence|].
      split; [exact A | split; [rewrite sget_sset_var by exact Hne; exact B | exact C]].
    + intros w Hin [Heq|Hf]; [cbn [fst] in Heq; subst w; contradiction | exact (H13 w Hin Hf)].
    + intros t p Hbt Hq. rewrite sget_sset_var in Hq by lia. destruct (H14 t p Hbt Hq) as [Hn1 Hn2]. split; [exact Hn1|].
      intros c d1 [Hf|(_ & -> & _)]; [exact (Hn2 c d1 Hf)|]. pose proof (wf_alloc _ _ Hwf _ _ Hq). unfold p0 in *. lia.
    + intros c c' p K K' [Hf|(-> & -> & _)] [Hf'|(-> & Hp' & _)].
      * exact (Hfi c c' p K K' Hf Hf').
      * subst p. destruct (HFc _ _ _ Hf). lia.
      * destruct (HFc _ _ _ Hf'). lia.
      * reflexivity.
Qed.

(* ---- a function-valued constant  x :: <function value>.  While the value is computed the two cells of x exist (they
   hold nil) and the name cannot be used: the entry (x, KP) among the callable functions, the pair of cells in the
   world with the flag false.  The assignment makes them the cells of a function name. ---- *)
Lemma rel_reserve fl W sc e st E stL x :
  rel pv sv bound u fl W sc e st E stL -> fresh_id pv sv bound fl sc x = true ->
  rel pv sv bound u ((x, KP) :: fl) (world_addR W (length (SyltSem.cells st)) (s_ncell stL) false) sc
      ((x, length (SyltSem.cells st)) :: e) (s_alloc st (SyltSem.SV Values.VLuaNil))
      (sset (fmt_var x) (s_ncell stL) E) (snd (alloc_cell stL VNil)).
Proof.
  intros (Hfs & W1 & Hs1 & [Hb Hfb Hp Hpb HpE HpG Hwf Ht Hli HW]) Hfresh.
  destruct (fresh_id_inv _ _ _ _ _ _ Hfresh) as (Hnin & Hnpv & Hnsv & Hvb). pose proof (fresh_id_fl _ _ _ _ _ _ Hfresh) as Hnfl.
  split.
  { intros f K [Heq|Hin] HK; [inversion Heq; subst; contradiction|].
    destruct (Hfs f K Hin HK) as (c & p & A & B & C). exists c, p.
    assert (Hne : f <> x).
    { intros ->. apply Hnfl. unfold fnames. apply in_map_iff. eexists. split; [|exact Hin]. reflexivity. }
    cbn [SyltSem.lookup]. destruct (N.eqb_spec x f); [congruence|].
    split; [exact A | split; [rewrite sget_sset_var by exact Hne; exact B | exact C]]. }
  exists (world_addR W1 (length (SyltSem.cells st)) (s_ncell stL) false). split.
  { destruct Hs1 as (A & B & C & D & F). unfold wsub, world_addR. cbn.
    split; [intros c p b [Hr|Hr]; [left; apply A; exact Hr | right; exact Hr]|]. split; [exact B|]. split; [exact C | split; assumption]. }
  pose proof (winv_addR pv sv bound u fl W1 sc e st E stL (SyltSem.SV Values.VLuaNil) VNil false HW Hwf I) as HW2.
  constructor.
  - exact Hb.
  - intros g [<-|Hg]; [split; assumption | apply Hfb; exact Hg].
  - cbn [SyltSem.lookup world_addR w_pc]. destruct (N.eqb_spec x pv); [congruence | exact Hp].
  - exact Hpb.
  - rewrite sget_sset_var by (intros Heq; apply Hnpv; symmetry; exact Heq). exact HpE.
  - eapply glob_frame; [|exact HpG]. reflexivity.
  - apply wfenv_local. exact Hwf.
  - exact Ht.
  - apply linv_alloc_cell. exact Hli.
  - apply (winv_env pv sv bound u fl _ sc e _ E _ ((x, KP) :: fl) sc _ _ HW2).
    + intros w Hin. destruct (wi_sc _ _ _ _ _ _ _ _ _ _ _ HW w Hin) as (c & p & A & B & C). exists c, p.
      assert (Hne : w <> x) by (intros ->; contradiction).
      cbn [SyltSem.lookup]. destruct (N.eqb_spec x w); [congruence|].
      split; [exact A | split; [rewrite sget_sset_var by exact Hne; exact B | left; exact C]].
    + intros w Hin [Heq|Hf]; [cbn [fst] in Heq; subst w; contradiction | exact (wi_scfl _ _ _ _ _ _ _ _ _ _ _ HW w Hin Hf)].
    + intros t p Hbt Hq. rewrite sget_sset_var in Hq by lia. apply (wi_temps _ _ _ _ _ _ _ _ _ _ _ HW2 t p Hbt Hq).
Qed.

Lemma rel_cdef fl W sc e st0 E0 stL0 x W1 st E stL d :
  rel pv sv bound u fl W sc e st0 E0 stL0 ->
  wsub (world_addR W (length (SyltSem.cells st0)) (s_ncell stL0) false) W1 -> w_D W1 d ->
  rel pv sv bound u ((x, KP) :: fl) W1 sc ((x, length (SyltSem.cells st0)) :: e) st E stL ->
  sget (fmt_var x) E = Some (s_ncell stL0) ->
  fresh_id pv sv bound fl sc x = true ->
  rel pv sv bound u ((x, dkind d) :: fl) (world_addF (world_addD W d) (length (SyltSem.cells st0)) (s_ncell stL0) (dkind d)) sc
      ((x, length (SyltSem.cells st0)) :: e) (s_write st (length (SyltSem.cells st0)) (SyltSem.SClos (fd_ci d)))
      E (set_cell stL (s_ncell stL0) (VFun (fd_fid d))).
Proof.
  intros (Hfs0 & Wh0 & Hs0 & Hrel0) Hs Hd (Hfs1 & Wh & Hs1 & Hrel1) HxE Hfresh.
  set (c := length (SyltSem.cells st0)) in *. set (p := s_ncell stL0) in *.
  destruct (fresh_id_inv _ _ _ _ _ _ Hfresh) as (Hnin & Hnpv & Hnsv & Hvb). pose proof (fresh_id_fl _ _ _ _ _ _ Hfresh) as Hnfl.
  pose proof Hrel1 as [Hb Hfb Hp Hpb HpE HpG Hwf Ht Hli HW].
  pose proof HW as [H1 H2 H3 H4 H5 H6 H7 Hff H8 H9 H10 Hall Hlock H11 H13 H14 Hfi].
  pose proof (r0_world _ _ _ _ _ _ _ _ _ _ _ Hrel0) as HW0.
  assert (Hs01 : wsub W Wh) by (eapply wsub_trans; [eapply wsub_trans; [apply wsub_addR | exact Hs] | exact Hs1]).
  assert (HRcp : w_R Wh c p false).
  { destruct Hs1 as (A & _). apply A. destruct Hs as (A' & _). apply A'. unfold world_addR. cbn. right. auto. }
  assert (Hdh : w_D Wh d) by (destruct Hs1 as (_ & _ & HD & _); apply HD; exact Hd).
  destruct (H1 c p false HRcp) as (x0 & Hx0 & _ & Hplt).
  assert (Hcl : (c < length (SyltSem.cells st))%nat) by (apply nth_error_Some; congruence).
  assert (HRW : forall c0 p0 b, w_R W c0 p0 b -> c0 <> c).
  { intros c0 p0 b Hr. destruct Hs0 as (A & _). destruct (wi_R _ _ _ _ _ _ _ _ _ _ _ HW0 c0 p0 b (A _ _ _ Hr)) as (y & Hy & _).
    assert ((c0 < length (SyltSem.cells st0))%nat) by (apply nth_error_Some; congruence). unfold c. lia. }
  assert (Hpcne : w_pc Wh <> c).
  { assert (Hpc : w_pc Wh = w_pc Wh0).
    { destruct Hs01 as (_ & _ & _ & _ & F1). destruct Hs0 as (_ & _ & _ & _ & F0). congruence. }
    rewrite Hpc. pose proof (wi_pc _ _ _ _ _ _ _ _ _ _ _ HW0) as H.
    assert ((w_pc Wh0 < length (SyltSem.cells st0))%nat) by (apply nth_error_Some; congruence). unfold c. lia. }
  assert (HnF1 : forall p' d0, ~ w_F Wh c p' d0) by (apply (H4 c p false HRcp)).
  assert (HnF2 : forall c' d0, ~ w_F Wh c' p d0) by (apply (H4 c p false HRcp)).
  assert (HRne : forall c0 p0, w_R Wh c0 p0 true -> c0 <> c /\ p0 <> p).
  { intros c0 p0 Hr. split.
    - intros ->. destruct (H2 c p0 p true false Hr HRcp) as [_ Hbb]. discriminate Hbb.
    - intros ->. assert (c0 = c) by (eapply H3; eassumption). subst c0. destruct (H2 c p p true false Hr HRcp) as [_ Hbb]. discriminate Hbb. }
  set (W2h := mkWorld (fun c0 p0 b => w_R Wh c0 p0 b /\ c0 <> c) (fun c0 p0 d0 => w_F Wh c0 p0 d0 \/ (c0 = c /\ p0 = p /\ d0 = dkind d))
                      (w_D Wh) (w_P Wh) (w_pc Wh)).
  split.
  { intros f K [Heq|Hin] HK.
    - inversion Heq; subst f K. exists c, p. cbn [SyltSem.lookup]. rewrite N.eqb_refl.
      split; [reflexivity | split; [exact HxE | right; auto]].
    - destruct (Hfs0 f K Hin HK) as (c0 & p0 & A0 & _ & C0).
      destruct (Hfs1 f K (or_intror Hin) HK) as (c1 & p1 & A1 & B1 & C1).
      assert (Hne : f <> x).
      { intros ->. apply Hnfl. unfold fnames. apply in_map_iff. eexists. split; [|exact Hin]. reflexivity. }
      cbn [SyltSem.lookup] in A1 |- *. destruct (N.eqb_spec x f); [congruence|].
      assert (c1 = c0) by congruence. subst c1.
      assert (HF0 : w_F Wh c0 p0 K) by (destruct Hs01 as (_ & HF & _); apply HF; exact C0).
      assert (HF1 : w_F Wh c0 p1 K) by (destruct Hs1 as (_ & HF & _); apply HF; exact C1).
      destruct (Hff c0 p1 K p0 K HF1 HF0) as [-> _].
      exists c0, p0. split; [exact A0 | split; [exact B1 | left; exact C0]]. }
  exists W2h. split.
  { destruct Hs01 as (A & B & C & D & F). unfold wsub, W2h, world_addF, world_addD. cbn.
    split; [intros c0 p0 b Hr; split; [apply A; exact Hr | eapply HRW; exact Hr]|].
    split; [intros c0 p0 d0 [Hf|Hf]; [left; apply B; exact Hf | right; exact Hf]|].
    split; [intros d0 [Hd0| ->]; [apply C; exact Hd0 | exact Hdh]|]. split; assumption. }
  constructor.
  - exact Hb.
  - exact Hfb.
  - exact Hp.
  - exact Hpb.
  - exact HpE.
  - eapply glob_frame; [|exact HpG]. reflexivity.
  - eapply wfenv_ext; [exact Hwf | cbn; lia].
  - exact Ht.
  - apply linv_set_cell. exact Hli.
  - constructor; unfold W2h; cbn [w_R w_F w_D w_P w_pc s_write SyltSem.cells SyltSem.clos].
    + intros c0 p0 b [Hr Hne]. destruct (H1 c0 p0 b Hr) as (y & A & B & C). exists y.
      split; [rewrite nth_set_nth_other by congruence; exact A|]. split; [|exact C].
      rewrite get_cell_set_other; [exact B|]. intros ->. apply Hne. eapply H3; eassumption.
    + intros c0 p0 p0' b b' [Hr _] [Hr' _]. eapply H2; eassumption.
    + intros c0 c0' p0 b b' [Hr _] [Hr' _]. eapply H3; eassumption.
    + intros c0 p0 b [Hr Hne]. destruct (H4 c0 p0 b Hr) as [A B]. split.
      * intros p' d0 [Hf|(Hc & _ & _)]; [exact (A p' d0 Hf) | exact (Hne Hc)].
      * intros c' d0 [Hf|(_ & Hp' & _)]; [exact (B c' d0 Hf)|]. subst p0. apply Hne. eapply H3; eassumption.
    + intros c0 p0 b lv [Hr _]. exact (H5 c0 p0 b lv Hr).
    + intros c0 p0 d0 [Hf|(-> & -> & ->)].
      * destruct (H6 c0 p0 d0 Hf) as (dd & A & B & C & D & Dk). exists dd.
        assert (c0 <> c) by (intros ->; exact (HnF1 _ _ Hf)). assert (p0 <> p) by (intros ->; exact (HnF2 _ _ Hf)).
        split; [rewrite nth_set_nth_other by congruence; exact A|]. split; [rewrite get_cell_set_other by assumption; exact B|].
        split; [exact C | split; [exact D | exact Dk]].
      * exists d. split; [apply nth_set_nth_same; exact Hcl|]. split; [apply get_cell_set_same|]. split; [exact Hplt | split; [exact Hdh | reflexivity]].
    + intros c0 p0 d0 lv [Hf|(_ & -> & _)]; [exact (H7 c0 p0 d0 lv Hf) | exact (H5 c p false lv HRcp)].
    + intros c0 p0 d0 p0' d0' [Hf|(-> & -> & ->)] [Hf'|(Hc' & Hp' & Hd')].
      * exact (Hff c0 p0 d0 p0' d0' Hf Hf').
      * subst c0. destruct (HnF1 _ _ Hf).
      * destruct (HnF1 _ _ Hf').
      * subst. split; reflexivity.
    + intros p0 lv Hq. destruct (H8 p0 lv Hq) as [A B]. split; [|exact B].
      rewrite get_cell_set_other; [exact A|]. intros ->. exact (H5 c p false lv HRcp Hq).
    + rewrite nth_set_nth_other by (intros Heq; apply Hpcne; symmetry; exact Heq). exact H9.
    + intros d0 Hd0. destruct (H10 d0 Hd0) as (A & B & C & D & F & G & G' & Hsc & Hfl & Htm).
      split; [exact A|]. split; [exact B|]. split; [exact C|]. split; [exact D|]. split; [exact F|]. split; [exact G|]. split; [exact G'|].
      split; [intros g Hg; destruct (Hsc g Hg) as (c1 & p1 & X & Y & Z); exists c1, p1; split; [exact X | split; [exact Y | split; [exact Z | apply (HRne _ _ Z)]]]|].
      split; [intros f K Hin HK; destruct (Hfl f K Hin HK) as (c1 & p1 & X & Y & Z); exists c1, p1; auto|].
      intros t p1 Hbt Hq. destruct (Htm t p1 Hbt Hq) as [Hn1 Hn2]. split; [intros c1 b [Hr _]; exact (Hn1 c1 b Hr)|].
      intros c1 d1 [Hf|(_ & -> & _)]; [exact (Hn2 c1 d1 Hf) | exact (Hn1 c false HRcp)].
    + exact Hall.
    + exact Hlock.
    + intros v Hv. destruct (H11 v Hv) as (c1 & p1 & X & Y & Z). exists c1, p1. split; [exact X | split; [exact Y | split; [exact Z | apply (HRne _ _ Z)]]].
    + exact H13.
    + intros t p1 Hbt Hq. destruct (H14 t p1 Hbt Hq) as [Hn1 Hn2]. split; [intros c1 b [Hr _]; exact (Hn1 c1 b Hr)|].
      intros c1 d1 [Hf|(_ & -> & _)]; [exact (Hn2 c1 d1 Hf) | exact (Hn1 c false HRcp)].
    + intros c0 c0' p0 K0 K0' [Hf|(-> & -> & _)] [Hf'|(-> & Hp' & _)].
      * exact (Hfi c0 c0' p0 K0 K0' Hf Hf').
      * subst p0. destruct (HnF2 _ _ Hf).
      * destruct (HnF2 _ _ Hf').
      * reflexivity.
Qed.

(* the Lua side of the two steps *)
Lemma step_reserve fl W sc e st E stL l c x :
  rel pv sv bound u fl W sc e st E stL -> lut_ok bound l c c -> fresh_id pv sv bound fl sc x = true -> 1 <= count_of u x ->
  ExecS E (fst (agen_one u l (IDefine x))) stL (ROk (sset (fmt_var x) (s_ncell stL) E, SigNormal) (snd (alloc_cell stL VNil))) /\
  wframe bound c c E stL (sset (fmt_var x) (s_ncell stL) E) (snd (alloc_cell stL VNil)) /\
  keep fl sc E (sset (fmt_var x) (s_ncell stL) E).
Proof.
  intros Hrel Hl Hfresh Hu. destruct (fresh_id_inv _ _ _ _ _ _ Hfresh) as (Hnin & Hnpv & Hnsv & Hvb).
  pose proof (fresh_id_fl _ _ _ _ _ _ Hfresh) as Hnfl.
  pose proof (r_wf _ _ _ _ _ _ _ _ _ _ _ Hrel) as Hwf.
  cbn [agen_one]. assert (Hused : (0 <? count_of u x) = true) by (apply N.ltb_lt; lia). rewrite Hused. cbn [fst].
  rewrite (aname_none l x) by (apply Hl; right; exact Hvb).
  assert (Hex : Exec E (SLocal [fmt_var x] [ENil]) stL
                  (ROk (sset (fmt_var x) (s_ncell stL) E, SigNormal) (snd (alloc_cell stL VNil)))).
  { pose proof (Exec_local E [fmt_var x] [ENil] stL [VNil] stL
                  (EvalList_one _ _ _ _ (EvalMulti_single E ENil stL VNil stL eq_refl (Eval_nil E stL)))) as H.
    rewrite bind_locals_one in H. exact H. }
  split; [apply ExecS_one; exact Hex|]. split.
  - constructor.
    + intros t p Hbt H. rewrite sget_sset_var by lia. exact H.
    + intros y p H. destruct (string_dec y (fmt_var x)) as [->|Hne].
      * right. right. exists x. split; [reflexivity | exact Hvb].
      * left. rewrite sget_sset_other in H by exact Hne. exact H.
    + intros t p _ _ H. apply get_cell_alloc_old. eapply wf_alloc; eassumption.
    + cbn; lia.
  - intros w [Hw|Hw]; apply sget_sset_var; intros ->; contradiction.
Qed.

Lemma step_cassign fl W1 sc e st E stL l c c' x rv p F fid :
  rel pv sv bound u fl W1 sc e st E stL -> lut_ok bound l c c' -> x < bound -> 1 <= count_of u x ->
  sget (fmt_var x) E = Some p ->
  ldenotes F E stL (aexpand l rv) (VFun fid) ->
  exists st3, cells_ext stL st3 /\
    ExecS E (fst (agen_one u l (IAssign x rv))) stL (ROk (E, SigNormal) (set_cell st3 p (VFun fid))) /\
    wframe bound c c' E stL E (set_cell st3 p (VFun fid)).
Proof.
  intros Hrel Hl Hvb Hu Hp Hd.
  pose proof (r_wf _ _ _ _ _ _ _ _ _ _ _ Hrel) as Hwf. pose proof (r_linv _ _ _ _ _ _ _ _ _ _ _ Hrel) as Hli.
  cbn [agen_one]. assert (Hused : (0 <? count_of u x) = true) by (apply N.ltb_lt; lia). rewrite Hused. cbn [fst].
  rewrite (aexpand_user bound l c c' x Hl Hvb).
  destruct (Hd E stL (fut_refl _ _ _) Hwf Hli) as (st3 & _ & Hm & Hx3).
  pose proof (Exec_assign_local E (fmt_var x) p (aexpand l rv) stL [VFun fid] st3 Hp (EvalList_one _ _ _ _ Hm)) as Hex.
  cbn [first] in Hex.
  exists st3. split; [exact Hx3|]. split; [apply ExecS_one; exact Hex|].
  constructor; auto.
  - intros t q Hbt Hr Hq. rewrite get_cell_set_other.
    + apply Hx3. eapply wf_alloc; eassumption.
    + intros ->. assert (fmt_var t = fmt_var x) by (eapply wf_inj; eassumption). apply fmt_var_inj in H. lia.
  - cbn [set_cell s_ncell]. apply Hx3.
Qed.

Lemma frag_fexpr_KF fl k sc x K : frag_fexpr pv sv bound fl k sc x = Some K -> K <> KP.
Proof.
  destruct k as [|k]; [discriminate|]. destruct x; try discriminate.
  - cbn [frag_fexpr]. destruct (fun_kind fl var) as [[|a r]|]; try discriminate. intros H; inversion H; discriminate.
  - destruct (read_dec x) as [(f & fsp & ->)|Hnr].
    + rewrite frag_fexpr_call. destruct (f =? pv); [discriminate|].
      destruct (fun_kind fl f) as [[|ks [|a r]]|]; try discriminate.
      destruct (frag_args pv sv bound fl k sc ks args); [|discriminate]. intros H; inversion H; discriminate.
    + rewrite (frag_fexpr_call2 _ _ _ _ _ _ _ _ _ Hnr).
      destruct (frag_fexpr pv sv bound fl k sc x) as [[|ks [|a r]]|]; try discriminate.
      destruct (frag_args pv sv bound fl k sc ks args); [|discriminate]. intros H; inversion H; discriminate.
  - cbn [frag_fexpr]. match goal with |- (if ?b then _ else _) = _ -> _ => destruct b; [|discriminate] end. intros H; inversion H; discriminate.
Qed.

(* ---- the assignment  h = <function value>  to a function name: both cells get the halves of the new closure ---- *)
Lemma rel_fassign fl W sc e st E stL h K c p d :
  rel pv sv bound u fl W sc e st E stL -> In (h, K) fl -> K <> KP -> w_D W d -> dkind d = K ->
  SyltSem.lookup e h = Some c -> sget (fmt_var h) E = Some p ->
  rel pv sv bound u fl W sc e (s_write st c (SyltSem.SClos (fd_ci d))) E (set_cell stL p (VFun (fd_fid d))).
Proof.
  intros (Hfs & Wh & Hs & Hrel0) Hin HK Hd Hdk Hlk Hq.
  destruct (Hfs h K Hin HK) as (c' & p' & A & B & C). rewrite Hlk in A. inversion A; subst c'. rewrite Hq in B. inversion B; subst p'. clear A B.
  pose proof Hrel0 as [Hb Hfb Hp Hpb HpE HpG Hwf Ht Hli HW].
  pose proof HW as [H1 H2 H3 H4 H5 H6 H7 Hff H8 H9 H10 Hall Hlock H11 H13 H14 Hfi].
  assert (HFh : w_F Wh c p K) by (destruct Hs as (_ & HF & _); apply HF; exact C).
  assert (Hdh : w_D Wh d) by (destruct Hs as (_ & _ & HD & _); apply HD; exact Hd).
  destruct (H6 c p K HFh) as (d0 & Hn0 & _ & Hplt & _).
  assert (Hcl : (c < length (SyltSem.cells st))%nat) by (apply nth_error_Some; congruence).
  split; [exact Hfs|]. exists Wh. split; [exact Hs|]. constructor.
  - exact Hb.
  - exact Hfb.
  - exact Hp.
  - exact Hpb.
  - exact HpE.
  - eapply glob_frame; [|exact HpG]. reflexivity.
  - eapply wfenv_ext; [exact Hwf | cbn; lia].
  - exact Ht.
  - apply linv_set_cell. exact Hli.
  - constructor; cbn [s_write SyltSem.cells SyltSem.clos].
    + intros c0 p0 b Hr. destruct (H1 c0 p0 b Hr) as (y & A & B & C0). destruct (H4 c0 p0 b Hr) as [Hn1 Hn2]. exists y.
      assert (c0 <> c) by (intros ->; exact (Hn1 _ _ HFh)). assert (p0 <> p) by (intros ->; exact (Hn2 _ _ HFh)).
      split; [rewrite nth_set_nth_other by congruence; exact A|]. split; [|exact C0].
      rewrite get_cell_set_other by assumption. exact B.
    + exact H2.
    + exact H3.
    + exact H4.
    + exact H5.
    + intros c0 p0 K0 Hf. destruct (Nat.eq_dec c0 c) as [->|Hne].
      * destruct (Hff c p0 K0 p K Hf HFh) as [-> ->]. exists d.
        split; [apply nth_set_nth_same; exact Hcl|]. split; [apply get_cell_set_same|]. split; [exact Hplt | split; [exact Hdh | exact Hdk]].
      * assert (p0 <> p) by (intros ->; apply Hne; eapply Hfi; eassumption).
        destruct (H6 c0 p0 K0 Hf) as (dd & A & B & C0 & D & Dk). exists dd.
        split; [rewrite nth_set_nth_other by congruence; exact A|]. split; [rewrite get_cell_set_other by assumption; exact B|].
        split; [exact C0 | split; [exact D | exact Dk]].
    + exact H7.
    + exact Hff.
    + intros p0 lv Hq0. destruct (H8 p0 lv Hq0) as [A B]. split; [|exact B].
      rewrite get_cell_set_other; [exact A|]. intros ->. exact (H7 c p K lv HFh Hq0).
    + rewrite nth_set_nth_other; [exact H9|]. intros ->. rewrite H9 in Hn0. discriminate Hn0.
    + exact H10.
    + exact Hall.
    + exact Hlock.
    + exact H11.
    + exact H13.
    + exact H14.
    + exact Hfi.
Qed.

(* ICopy t a for a temporary that holds a closure: `local V<t> = <a>` *)
Lemma step_copy_clos fl W sc e st F c c' E stL l t a fid :
  rel pv sv bound u fl W sc e st E stL -> ctx_ok bound l F E c c' -> c <= t < c' -> 1 <= count_of u t ->
  ldenotes F E stL (aexpand l a) (VFun fid) ->
  exists E' stL' F',
    okstep pv sv bound u fl W sc e st F c c' E stL (fst (agen_one u l (ICopy t a))) E' stL' F' /\
    ldenotes F' E' stL' (aexpand l t) (VFun fid).
Proof.
  intros Hrel Hctx Ht Hu Hd. pose proof Hctx as [Hb Hl HF HE].
  pose proof (r_wf _ _ _ _ _ _ _ _ _ _ _ Hrel) as Hwf. pose proof (r_linv _ _ _ _ _ _ _ _ _ _ _ Hrel) as Hli.
  cbn [agen_one]. assert (Hused : (0 <? count_of u t) = true) by (apply N.ltb_lt; lia). rewrite Hused. cbn [fst].
  rewrite (aname_none l t) by (apply Hl; left; exact Ht).
  destruct (step_local pv sv bound u fl W sc e st F c c' E stL l t (aexpand l a) (VFun fid) Hrel Hctx Ht (Hd E stL (fut_refl _ _ _) Hwf Hli))
    as (E' & stL' & q & Hok & Hq & Hc).
  exists E', stL', (t :: F). split; [exact Hok|].
  unfold aexpand at 1. rewrite (Hl t) by (left; exact Ht).
  eapply ldenotes_local; [left; reflexivity | exact Hq | exact Hc].
Qed.

(* the names a list of parameters must avoid: fewer names, still fresh *)
Lemma fresh_id_anti fl sc fl2 sc2 v :
  fresh_id pv sv bound fl sc v = true ->
  (forall x, In x sc2 \/ In x (fnames fl2) -> In x sc \/ In x (fnames fl)) ->
  fresh_id pv sv bound fl2 sc2 v = true.
Proof.
  intros Hf Hi. destruct (fresh_id_inv _ _ _ _ _ _ Hf) as (A & B & C & D). pose proof (fresh_id_fl _ _ _ _ _ _ Hf) as F.
  unfold fresh_id.
  assert (Hm : forall l, ~ In v l -> memN v l = false).
  { intros l Hn. unfold memN. destruct (existsb (N.eqb v) l) eqn:He; [|reflexivity].
    apply existsb_exists in He as (y & Hy & Heq). apply N.eqb_eq in Heq. subst y. contradiction. }
  rewrite (Hm sc2), (Hm (map fst fl2)).
  - destruct (N.eqb_spec v pv); [contradiction|]. destruct (N.eqb_spec v sv); [contradiction|].
    destruct (N.ltb_spec v bound); [reflexivity | lia].
  - intros Hin. destruct (Hi v (or_intror Hin)); contradiction.
  - intros Hin. destruct (Hi v (or_introl Hin)); contradiction.
Qed.

Lemma params_ok_anti : forall ps fl sc fl2 sc2,
  params_ok pv sv bound fl sc ps = true ->
  (forall x, In x sc2 \/ In x (fnames fl2) -> In x sc \/ In x (fnames fl)) ->
  params_ok pv sv bound fl2 sc2 ps = true.
Proof.
  induction ps as [|p ps IH]; intros fl sc fl2 sc2 H Hi; [reflexivity|].
  cbn [params_ok] in *. apply andb_prop in H as [Hf Hr]. apply andb_true_intro. split.
  - eapply fresh_id_anti; eassumption.
  - eapply IH; [exact Hr|]. intros x [[<-|Hx]|Hx]; [left; left; reflexivity | |].
    + destruct (Hi x (or_introl Hx)); [left; right; assumption | right; assumption].
    + destruct (Hi x (or_intror Hx)); [left; right; assumption | right; assumption].
Qed.

Lemma bind_params : forall ps ks avs lvs fl W sc e st E stL,
  rel pv sv bound u fl W sc e st E stL -> Forall3 (arel W) ks avs lvs -> length ps = length ks ->
  params_ok pv sv bound fl sc ps = true ->
  exists W1 cs st1 E1 stL1,
    SyltSem.mapM SyltSem.new_cell avs st = (SyltSem.RVal cs, st1) /\
    bind_locals E (map fmt_var ps) lvs stL = (E1, stL1) /\
    wsub W W1 /\
    rel pv sv bound u (snd (bind_scope ps ks sc fl)) W1 (fst (bind_scope ps ks sc fl)) (rev (combine ps cs) ++ e) st1 E1 stL1 /\
    length cs = length ps /\
    (s_ncell stL <= s_ncell stL1)%positive /\
    (forall t, bound <= t -> sget (fmt_var t) E1 = sget (fmt_var t) E) /\
    (forall v, ~ In v ps -> sget (fmt_var v) E1 = sget (fmt_var v) E).
Proof.
  induction ps as [|p ps IH]; intros ks avs lvs fl W sc e st E stL Hrel Hvs Hlen Hok.
  - destruct ks; [|discriminate Hlen]. inversion Hvs; subst.
    exists W, [], st, E, stL. splits; try reflexivity; auto; try lia. apply wsub_refl.
  - destruct ks as [|K ks]; [discriminate Hlen|]. inversion Hvs as [|? av lv ? avs' lvs' Hv Hvs']; subst.
    cbn [params_ok] in Hok. apply andb_prop in Hok as [Hf Hr].
    destruct (fresh_id_inv _ _ _ _ _ _ Hf) as (_ & _ & _ & Hpb).
    destruct K as [|ka kr].
    + (* a plain parameter *)
      cbn [arel] in Hv.
      pose proof (rel_define_user pv sv bound u fl W sc e st E stL p av lv Hrel Hf Hv) as Hrel1.
      destruct (IH ks avs' lvs' fl W (p :: sc) ((p, length (SyltSem.cells st)) :: e) (s_alloc st av)
                   (sset (fmt_var p) (s_ncell stL) E) (snd (alloc_cell stL lv)) Hrel1 Hvs' ltac:(cbn in Hlen; lia) Hr)
        as (W1 & cs & st1 & E1 & stL1 & Hm & Hbl & Hw & Hrel2 & Hlc & Hn & Ht & Hu).
      exists W1, (length (SyltSem.cells st) :: cs), st1, E1, stL1. splits.
      * cbn [SyltSem.mapM]. unfold SyltSem.bind at 1. rewrite new_cell_eq. unfold SyltSem.bind at 1. rewrite Hm. reflexivity.
      * cbn [map bind_locals]. unfold alloc_cell at 1. cbn [first tl]. exact Hbl.
      * exact Hw.
      * cbn [rev combine bind_scope]. rewrite <- !app_assoc. exact Hrel2.
      * cbn [length]. lia.
      * cbn [alloc_cell snd s_ncell] in Hn. lia.
      * intros t Hbt. rewrite (Ht t Hbt). apply sget_sset_var. lia.
      * intros v Hnv. rewrite Hu by (intros Hin; apply Hnv; right; exact Hin). apply sget_sset_var. intros ->. apply Hnv. left. reflexivity.
    + (* a function parameter *)
      cbn [arel] in Hv. destruct Hv as (d & Hd & Hdk & -> & ->).
      pose proof (rel_define_fparam fl W sc e st E stL p d Hrel Hf Hd) as Hrel1. rewrite Hdk in Hrel1.
      set (W0 := world_addF W (length (SyltSem.cells st)) (s_ncell stL) (KF ka kr)) in *.
      assert (Hvs0 : Forall3 (arel W0) ks avs' lvs').
      { clear - Hvs'. induction Hvs' as [|K av lv ks avs lvs Hh _ IHv]; constructor; [|exact IHv].
        destruct K; [exact Hh|]. cbn [arel] in *. destruct Hh as (d0 & A & B). exists d0. split; [exact A | exact B]. }
      assert (Hr0 : params_ok pv sv bound ((p, KF ka kr) :: fl) sc ps = true).
      { eapply params_ok_anti; [exact Hr|]. intros x [Hx|[<-|Hx]]; [left; right; exact Hx | left; left; reflexivity | right; exact Hx]. }
      destruct (IH ks avs' lvs' ((p, KF ka kr) :: fl) W0 sc ((p, length (SyltSem.cells st)) :: e) (s_alloc st (SyltSem.SClos (fd_ci d)))
                   (sset (fmt_var p) (s_ncell stL) E) (snd (alloc_cell stL (VFun (fd_fid d)))) Hrel1 Hvs0 ltac:(cbn in Hlen; lia) Hr0)
        as (W1 & cs & st1 & E1 & stL1 & Hm & Hbl & Hw & Hrel2 & Hlc & Hn & Ht & Hu).
      exists W1, (length (SyltSem.cells st) :: cs), st1, E1, stL1. splits.
      * cbn [SyltSem.mapM]. unfold SyltSem.bind at 1. rewrite new_cell_eq. unfold SyltSem.bind at 1. rewrite Hm. reflexivity.
      * cbn [map bind_locals]. unfold alloc_cell at 1. cbn [first tl]. exact Hbl.
      * eapply wsub_trans; [apply wsub_addF | exact Hw].
      * cbn [rev combine bind_scope]. rewrite <- !app_assoc. exact Hrel2.
      * cbn [length]. lia.
      * cbn [alloc_cell snd s_ncell] in Hn. lia.
      * intros t Hbt. rewrite (Ht t Hbt). apply sget_sset_var. lia.
      * intros v Hnv. rewrite Hu by (intros Hin; apply Hnv; right; exact Hin). apply sget_sset_var. intros ->. apply Hnv. left. reflexivity.
Qed.

Definition guard_ok (fl : list (N * kind)) (k : nat) (sc : list N) (rk : kind) (g : Resolved.stmt) : bool :=
  match guard_parts g with
  | Some (c, fx) =>
      noexit_expr k c && frag_expr pv sv bound fl k sc c && noexit_fexpr k fx &&
      match frag_fexpr pv sv bound fl k sc fx with Some K => kind_eqb K rk | None => false end
  | None => false
  end.

End Bind.

Lemma split_last_inv {A} : forall (l : list A) i y, split_last l = Some (i, y) -> l = i ++ [y].
Proof.
  induction l as [|x t IH]; intros i y H; cbn [split_last] in H; [discriminate|].
  destruct (split_last t) as [[i' y']|] eqn:Ht.
  - inversion H; subst. cbn [app]. f_equal. apply IH. reflexivity.
  - inversion H; subst. destruct t as [|x' t']; [reflexivity|]. cbn [split_last] in Ht. destruct (split_last t') as [[? ?]|]; discriminate Ht.
Qed.

Lemma exec_block_app : forall a n e st b,
  SyltSem.exec_block n e (a ++ b) st =
  (let (r, st') := SyltSem.exec_block n e a st in
   match r with
   | SyltSem.RVal e' => SyltSem.exec_block (n - length a) e' b st'
   | SyltSem.RStop o => (SyltSem.RStop o, st')
   | SyltSem.RAbrupt c => (SyltSem.RAbrupt c, st')
   end).
Proof.
  induction a as [|s a IH]; intros n e st b.
  - cbn [app length]. rewrite Nat.sub_0_r. destruct n as [|n]; reflexivity.
  - destruct n as [|n]; [reflexivity|]. cbn [app SyltSem.exec_block length Nat.sub]. unfold SyltSem.bind.
    destruct (SyltSem.exec n e s st) as [[e1|o|cc] st1]; [apply IH | reflexivity | reflexivity].
Qed.





Section Body.
Variable pv : N.
Variable sv : N.
Variable bound : N.
Variable u : counts.
Variable fl : list (N * kind).
Variable W : world.

Notation rel := (rel pv sv bound u fl W).
Notation ctx_ok := (ctx_ok bound).

(* statement lists: a statement (P_exec) or a local function (it joins the callable functions) and the rest *)
Lemma P_blk_succ n :
  (forall fl' W', P_exec pv sv bound u fl' W' n) -> (forall fl' W', P_blk pv sv bound u fl' W' n) ->
  (forall fl' W', P_farg pv sv bound u fl' W' (pred n)) ->
  P_blk pv sv bound u fl W (S n).
Proof.
  intros HE HB HX g k ss ctx c cs c' e st r st' sc sc' flr l E stL F Hev Hm Hfrag Hu Hctx Hrel Hint.
  destruct ss as [|s ss].
  - destruct (mapM_nil_ok _ _ _ _ Hm) as [-> ->]. destruct k as [|k]; [discriminate|]. cbn in Hfrag. inversion Hfrag; subst sc' flr.
    cbn in Hev. inversion Hev; subst r st'.
    eexists _, _. split; [apply cshape_nil|]. cbn [blk_post]. exists W, E, stL, F.
    splits; [apply XS_nil | apply wframe_refl | exact Hrel | apply wsub_refl | apply F_new_refl | apply keep_refl
             | intros v _; reflexivity | apply incl_refl].
  - destruct k as [|k]; [discriminate|].
    apply mapM_cons_ok in Hm as (y & c1 & ys & Hy & Hys & ->). cbn [concat] in *.
    apply ucovers_app in Hu as [Huy Huys].
    pose proof Hctx as [Hbc Hlut HFo HEf].
    assert (Hlb : forall v, v < bound -> alut_get l v = None) by (intros v Hv; apply Hlut; right; exact Hv).
    cbn [SyltSem.exec_block] in Hev. unfold SyltSem.bind at 1 in Hev.
    destruct (is_fundef s) eqn:Hfd.
    + (* a local function *)
      destruct s; try discriminate Hfd. destruct value; try discriminate Hfd. rewrite frag_stmts_fun in Hfrag.
      match type of Hfrag with (if ?b then _ else _) = _ => destruct b eqn:Hc; [|discriminate Hfrag] end.
      apply andb_prop in Hc as [Hc Hfb]. apply andb_prop in Hc as [Hfr Hpok].
      set (ps := param_ids params) in *. set (ks := param_kinds params) in *. set (rk := kind_of_ty ret) in *. set (fl' := (var, KF ks rk) :: fl) in *.
      rename Hfb into Hfbody.
      assert (Hlks : length ks = length ps) by (unfold ks, ps, param_kinds, param_ids; rewrite !map_length; reflexivity).
      destruct g as [|[|g2]]; [cbn in Hy; discriminate Hy | cbn in Hy; discriminate Hy |].
      cbn [statement] in Hy. rewrite definition_fun in Hy. fold ps in Hy. mon Hy. fresh_all. rename a0 into bc.
      destruct n as [|[|n2]]; [cbn in Hev; inversion Hev; subst; destruct Hint | cbn in Hev; inversion Hev; subst; destruct Hint |].
      rewrite exec_def_fun in Hev. fold ps in Hev.
      apply ucovers_cons in Huy as [_ Huy]. apply ucovers_app in Huy as [Hubc _].
      destruct (L_fb_all pv sv bound u _ g2 k body rk ctx (c + 1) bc c1 _ l Hm0 Hfbody) as (bb & l1 & Hsb).
      pose proof Hsb as (Hemb & Hcc1 & Hfr1 & Hnlb).
      destruct (fresh_id_inv _ _ _ _ _ _ Hfr) as (Hnin & Hnpv & Hnsv & Hvb).
      pose proof (fresh_id_fl _ _ _ _ _ _ Hfr) as Hnfl.
      destruct (L_stmts_all pv sv bound u fl' (S (S g2)) k ss ctx c1 ys c' sc (sc', flr) l1 Hys Hfrag) as (_ & _ & (_ & Hc1c' & _)).
      assert (Hlut1 : lut_ok bound l (c + 1) c1) by (eapply lut_ok_sub; [exact Hlut | lia | lia]).
      assert (HEf1 : E_free E (c + 1) c1) by (eapply E_free_sub; [exact HEf | lia | lia]).
      pose proof (rel_define_function pv sv bound u fl W sc e st E stL var ps ks rk body g2 k bc ctx (c + 1) c1 l
                  Hrel Hfr Hpok Hlks Hfbody Hm0 Hubc ltac:(lia) Hlut1 HEf1) as Hrel1.
      set (E1 := sset (fmt_var var) (s_ncell stL) E) in *.
      set (d := mkFdyn var ps ks rk body sc fl' g2 k bc ctx (c + 1) c1 l (length (SyltSem.cells st)) (length (SyltSem.clos st))
                       (def_env var e st) (s_ncell stL) (s_nclo stL) E1) in *.
      change (SimDefs.rel pv sv bound u fl' (world_add W d) sc (def_env var e st) (def_state var ps body e st) E1 (lua_def_state stL E1 ps (fbody u d))) in Hrel1.
      assert (Hbb : bb = fbody u d) by (unfold fbody; cbn [d fd_lut fd_code]; apply (Emits_block_fun u l bc bb l1 Hemb)).
      rewrite <- Hbb in Hrel1.
      assert (Hx1 : Exec E (SLocalFun (fmt_var var) (map fmt_var ps) bb) stL (ROk (E1, SigNormal) (lua_def_state stL E1 ps bb)))
        by apply Exec_localfun.
      assert (Hn1 : (s_ncell stL <= s_ncell (lua_def_state stL E1 ps bb))%positive)
        by (unfold lua_def_state, set_cell, alloc_closure, alloc_cell; cbn [snd s_ncell]; lia).
      assert (Hf1 : wframe bound c c1 E stL E1 (lua_def_state stL E1 ps bb)).
      { constructor.
        - intros t0 p0 Hb0 Hp0. unfold E1. rewrite sget_sset_var by lia. exact Hp0.
        - intros x p0 Hx. unfold E1 in Hx. destruct (String.eqb_spec x (fmt_var var)) as [->|Hne].
          + right. right. exists var. split; [reflexivity | exact Hvb].
          + left. rewrite sget_sset_other in Hx by exact Hne. exact Hx.
        - intros t0 p0 Hb0 _ Hp0. apply lua_def_old. eapply wf_alloc; [apply (r_wf _ _ _ _ _ _ _ _ _ _ _ Hrel) | exact Hp0].
        - exact Hn1. }
      assert (Hctx1 : ctx_ok l1 F E1 c1 c').
      { constructor; [lia | | eapply F_out_sub; [exact HFo | lia | lia] |].
        - intros t0 Ht0. rewrite Hfr1 by lia. apply Hlut. lia.
        - intros t0 Ht0. unfold E1. rewrite sget_sset_var by lia. apply HEf. lia. }
      assert (Hse1 : sext pv fl sc e (def_env var e st)).
      { intros w Hw. unfold def_env. cbn [SyltSem.lookup]. destruct (N.eqb_spec var w) as [->|]; [|reflexivity].
        destruct Hw as [Hw|[Hw|Hw]]; [contradiction | congruence | contradiction]. }
      assert (Hk1 : keep fl sc E E1).
      { intros w Hw. unfold E1. apply sget_sset_var. intros ->. destruct Hw as [Hw|Hw]; contradiction. }
      assert (Hfn1 : incl fl fl') by (apply incl_tl, incl_refl).
      assert (Hkw : forall E2, keep fl' sc E1 E2 -> keep fl sc E1 E2).
      { intros E2 H2 w Hw. apply H2. destruct Hw as [Hw|Hw]; [left; exact Hw | right; right; exact Hw]. }
      destruct (HB fl' (world_add W d) (S (S g2)) k ss ctx c1 ys c' (def_env var e st) (def_state var ps body e st) r st' sc sc' flr l1 E1
                   (lua_def_state stL E1 ps bb) F Hev Hys Hfrag Huys Hctx1 Hrel1 Hint) as (b2 & l2 & Hs2 & Hpost).
      eexists _, _. split; [eapply cshape_app; [apply cshape_fun; [exact Hsb | apply Hlb; exact Hvb] | exact Hs2]|].
      assert (Hxone : ExecS E [SLocalFun (fmt_var var) (map fmt_var ps) bb] stL (ROk (E1, SigNormal) (lua_def_state stL E1 ps bb)))
        by (apply ExecS_one; exact Hx1).
      destruct r as [e2|o|a].
      * cbn [blk_post] in *. destruct Hpost as (W2 & E2 & stL2 & F2 & Hx2 & Hf2 & Hr2 & Hw2 & HFn2 & Hk2 & Hs2' & Hi2).
        exists W2, E2, stL2, F2.
        splits; [eapply ExecS_app; eassumption
                | eapply wframe_trans; [eapply wframe_widen; [exact Hf1 | lia | lia] | eapply wframe_widen; [exact Hf2 | lia | lia]]
                | exact Hr2 | eapply wsub_trans; [apply wsub_world_add | exact Hw2] | eapply F_new_widen; [exact HFn2 | lia | lia]
                | eapply keep_trans; [exact Hk1 | apply Hkw; exact Hk2] | | exact Hi2].
        intros w Hw. rewrite Hs2'; [apply Hse1; exact Hw|]. destruct Hw as [Hw|[Hw|Hw]]; [left; exact Hw | right; left; exact Hw | right; right; right; exact Hw].
      * cbn [blk_post] in *.
        eapply (exit_pre_w pv sv bound u fl W fl' (world_add W d) ctx sc sc e (def_env var e st) st c c1 c1 c' c c' E stL _ E1 (lua_def_state stL E1 ps bb));
          [exact Hxone | exact Hf1 | exact Hk1 | exact Hrel | apply wsub_world_add | exact Hfn1 | exact Hse1 | apply incl_refl | exact Hpost | lia | lia | lia | lia].
      * cbn [blk_post] in *.
        eapply (exit_pre_w pv sv bound u fl W fl' (world_add W d) ctx sc sc e (def_env var e st) st c c1 c1 c' c c' E stL _ E1 (lua_def_state stL E1 ps bb));
          [exact Hxone | exact Hf1 | exact Hk1 | exact Hrel | apply wsub_world_add | exact Hfn1 | exact Hse1 | apply incl_refl | exact Hpost | lia | lia | lia | lia].
    + (* a statement *)
      rewrite (frag_stmts_plain _ _ _ _ _ _ _ _ Hfd) in Hfrag.
      destruct (frag_stmt pv sv bound fl k sc s) as [sc1|] eqn:Hs.
      2: { (* x :: <function value> *)
        destruct (cdef_next_inv _ _ _ _ _ _ _ _ _ Hfrag) as [(nm & x & kd & t & v & sp & K & -> & Hfe & Hfr & Hrest)|(h & hsp & v & sp & ka & kr & -> & Hk & Hfe & Hrest)].
        2: { (* h = <function value> *)
          apply fun_kind_in in Hk.
          assert (HK : KF ka kr <> KP) by discriminate.
          destruct g as [|[|g2]]; [cbn in Hy; discriminate Hy | cbn in Hy; discriminate Hy |]. cbn [statement] in Hy.
          mon Hy. fresh_all. apply ret_ok in Hm0 as [<- <-]. cbn beta iota in Hy. mon Hy. apply ret_ok in Hm0 as [<- <-].
          destruct a as [code_v rv]. cbn [fst snd app] in *. rename c0 into c1.
          apply ucovers_app in Huy as [Huv Hua].
          assert (Hcrv : 1 <= count_of u rv) by (eapply Hua; [left; reflexivity | left; reflexivity]).
          assert (Hcc : 1 <= count_of u c) by (eapply Hua; [right; left; reflexivity | right; left; reflexivity]).
          assert (Hch : 1 <= count_of u h) by (eapply Hua; [right; left; reflexivity | left; reflexivity]).
          assert (Hhb : h < bound).
          { destruct (r_flb _ _ _ _ _ _ _ _ _ _ _ Hrel h); [|assumption]. unfold fnames. apply in_map_iff. eexists. split; [|exact Hk]. reflexivity. }
          destruct (L_fexpr_all pv sv bound u fl (S g2) k v _ ctx (c + 1) code_v rv c1 sc l Hm Hfe) as (_ & _ & (_ & Hcc1 & _) & _).
          destruct (L_stmts_all pv sv bound u fl (S (S g2)) k ss ctx c1 ys c' sc (sc', flr) l Hys Hrest) as (_ & _ & (_ & Hc1c' & _)).
          assert (HLr : forall l0, exists b2 l2, cshape u l0 (concat ys) b2 l2 c1 c')
            by (intros l0; eapply (L_stmts_all pv sv bound u fl (S (S g2))); eassumption).
          assert (Hsc0 : forall l0, cshape u l0 [ICopy c rv; IAssign h c] (fst (agen_one u l0 (ICopy c rv)) ++ fst (agen_one u l0 (IAssign h c))) l0 c c1).
          { intros l0. eapply cshape_cons'; [apply (cshape_plain u l0 (ICopy c rv) c c1); [lia | reflexivity | reflexivity | apply used_plain]|].
            apply (cshape_plain u l0 (IAssign h c) c c1); [lia | reflexivity | reflexivity | apply used_plain]. }
          assert (Hmk : forall b1 l1, cshape u l code_v b1 l1 (c + 1) c1 ->
                    cshape u l (code_v ++ [ICopy c rv; IAssign h c]) (b1 ++ fst (agen_one u l1 (ICopy c rv)) ++ fst (agen_one u l1 (IAssign h c))) l1 c c1).
          { intros b1 l1 H1. eapply cshape_app'; [eapply cshape_widen; [exact H1 | lia | lia] | apply Hsc0]. }
          assert (Hctxv : ctx_ok l F E (c + 1) c1) by (eapply ctx_sub; [exact Hctx | lia | lia]).
          destruct n as [|n2]; [cbn in Hev; inversion Hev; subst; destruct Hint|]. cbn [pred] in HX.
          destruct (rel_fscope pv sv bound u fl W sc e st E stL Hrel h _ Hk HK) as (ch & ph & Hlk & HqE0 & _).
          destruct (SyltSem.exec (S n2) e (SAssignment Nop (ERead h hsp) v sp) st) as [rr stx] eqn:He0.
          cbn [SyltSem.exec] in He0. rewrite Hlk in He0. unfold SyltSem.bind at 1 in He0.
          destruct (SyltSem.eval n2 e v st) as [[y_|o|cc] st2] eqn:He1.
          2,3: (inversion He0; subst rr stx; inversion Hev; subst r st';
                destruct (HX fl W (S g2) k v _ ctx (c + 1) code_v rv c1 e st _ st2 sc l E stL F He1 Hm Hfe Huv Hcrv Hctxv Hrel Hint)
                  as (b1 & l1 & Hs1 & _ & _ & Hp1);
                destruct (HLr l1) as (b2 & l2 & Hs2);
                eexists _, _; (split; [eapply cshape_app; [apply (Hmk b1 l1 Hs1) | exact Hs2]|]);
                cbn [blk_post]; apply (exit_app pv sv bound u fl W ctx sc e c c1 c'); [|lia];
                apply (exit_app pv sv bound u fl W ctx sc e c c1 c1); [|lia];
                eapply (xpost_widen pv sv bound u fl W ctx sc e (c + 1) c1 c c1); [exact Hp1 | lia | lia]).
          destruct (HX fl W (S g2) k v _ ctx (c + 1) code_v rv c1 e st _ st2 sc l E stL F He1 Hm Hfe Huv Hcrv Hctxv Hrel I)
            as (b1 & l1 & Hs1 & _ & _ & W1 & E1 & stL1 & F1 & Hw1 & Hok1 & Hrel1 & Hd1).
          cbn [adenotes] in Hd1. destruct Hd1 as (d & Hd & Hdk & -> & Hld).
          pose proof Hok1 as (Hx1 & Hf1 & _ & HFn1 & Hk1). pose proof Hs1 as (_ & _ & Hfr1 & _).
          cbn in He0. inversion He0; subst rr stx. clear He0.
          (* local V<res> = the closure *)
          assert (Hctxr : ctx_ok l1 F1 E1 c (c + 1)).
          { eapply (ctx_disj bound l F E stL c (c + 1) (c + 1) c1 l1 F1 E1 stL1); [eapply ctx_sub; [exact Hctx | lia | lia] | exact Hfr1 | exact HFn1 | exact Hf1 | lia | right; lia]. }
          destruct (step_copy_clos pv sv bound u fl W1 sc e st2 F1 c (c + 1) E1 stL1 l1 c rv (fd_fid d) Hrel1 Hctxr ltac:(lia) Hcc Hld)
            as (E2 & stL2 & F2 & Hok2 & Hd2).
          pose proof Hok2 as (Hx2 & Hf2 & Hrel2 & HFn2 & Hk2).
          (* V<h> = V<res> *)
          destruct (rel_fscope pv sv bound u fl W1 sc e st2 E2 stL2 Hrel2 h _ Hk HK) as (ch2 & ph2 & Hlk2 & HqE2 & _).
          rewrite Hlk in Hlk2. inversion Hlk2; subst ch2. clear Hlk2.
          assert (Hlcv : lut_ok bound l1 c1 c1) by (intros t0 [Ht0|Ht0]; [lia | rewrite Hfr1 by lia; apply Hlut; right; exact Ht0]).
          destruct (step_cassign pv sv bound u fl W1 sc e st2 E2 stL2 l1 c1 c1 h c ph2 F2 (fd_fid d) Hrel2 Hlcv Hhb Hch HqE2 Hd2)
            as (st3 & Hx3 & Hxa & Hfa).
          pose proof (rel_fassign pv sv bound u fl W1 sc e st2 E2 st3 h _ ch ph2 d
                        (rel_cells_ext pv sv bound u _ _ _ _ _ _ _ _ Hrel2 Hx3) Hk HK Hd Hdk Hlk HqE2) as Hrel3.
          set (stL3 := set_cell st3 ph2 (VFun (fd_fid d))) in *.
          set (bpre := b1 ++ fst (agen_one u l1 (ICopy c rv)) ++ fst (agen_one u l1 (IAssign h c))).
          assert (Hxpre : ExecS E bpre stL (ROk (E2, SigNormal) stL3)).
          { unfold bpre. eapply ExecS_app; [exact Hx1|]. eapply ExecS_app; [exact Hx2 | exact Hxa]. }
          assert (Hfpre : wframe bound c c1 E stL E2 stL3).
          { eapply wframe_trans; [eapply wframe_widen; [exact Hf1 | lia | lia]|].
            eapply wframe_trans; [eapply wframe_widen; [exact Hf2 | lia | lia] | eapply wframe_widen; [exact Hfa | lia | lia]]. }
          assert (Hkpre : keep fl sc E E2) by (eapply keep_trans; eassumption).
          assert (HFpre : F_new F F2 c c1).
          { destruct HFn1 as [Hi1 Hn1]. destruct HFn2 as [Hi2 Hn2]. split; [eapply incl_tran; eassumption|].
            intros t0 Ht0. destruct (Hn2 t0 Ht0) as [H|H]; [destruct (Hn1 t0 H) as [H'|H']; [left; exact H' | right; lia] | right; lia]. }
          assert (Hctx2 : ctx_ok l1 F2 E2 c1 c').
          { eapply (ctx_step bound l F E stL c c1 c'); [exact Hctx | | exact HFpre | exact Hfpre | lia].
            intros w Hw. apply Hfr1. lia. }
          destruct (HB fl W1 (S (S g2)) k ss ctx c1 ys c' e _ r st' sc sc' flr l1 E2 stL3 F2 Hev Hys Hrest Huys Hctx2 Hrel3 Hint)
            as (b2 & l2 & Hs2 & Hpost).
          eexists _, _. split; [eapply cshape_app; [apply (Hmk b1 l1 Hs1) | exact Hs2]|]. fold bpre.
          destruct r as [e2|o|a].
          - cbn [blk_post] in *. destruct Hpost as (W3 & E3 & stL4 & F3 & Hx4 & Hf4 & Hr4 & Hw4 & HFn4 & Hk4 & Hs4 & Hi4).
            exists W3, E3, stL4, F3.
            splits; [eapply ExecS_app; eassumption
                    | eapply wframe_trans; [eapply wframe_widen; [exact Hfpre | lia | lia] | eapply wframe_widen; [exact Hf4 | lia | lia]]
                    | exact Hr4 | eapply wsub_trans; eassumption
                    | eapply F_new_trans; [exact HFpre | exact HFn4 | lia | lia]
                    | eapply keep_trans; eassumption | exact Hs4 | exact Hi4].
          - cbn [blk_post] in *.
            eapply (exit_pre_w pv sv bound u fl W fl W1 ctx sc sc e e st c c1 c1 c' c c' E stL bpre E2 stL3);
              [exact Hxpre | exact Hfpre | exact Hkpre | exact Hrel | exact Hw1 | apply incl_refl | apply sext_refl | apply incl_refl | exact Hpost | lia | lia | lia | lia].
          - cbn [blk_post] in *.
            eapply (exit_pre_w pv sv bound u fl W fl W1 ctx sc sc e e st c c1 c1 c' c c' E stL bpre E2 stL3);
              [exact Hxpre | exact Hfpre | exact Hkpre | exact Hrel | exact Hw1 | apply incl_refl | apply sext_refl | apply incl_refl | exact Hpost | lia | lia | lia | lia]. }
        assert (Hnf : is_function v = false) by (destruct v; try reflexivity; discriminate Hfd).
        pose proof (frag_fexpr_KF pv sv bound _ _ _ _ _ Hfe) as HK.
        destruct g as [|[|g2]]; [cbn in Hy; discriminate Hy | cbn in Hy; discriminate Hy |]. cbn [statement] in Hy.
        rewrite (definition_nonfun g2 x v ctx Hnf) in Hy. mon Hy. destruct a as [code_v rv]. cbn [fst snd] in *.
        apply ucovers_cons in Huy as [Hu1 Huy]. apply ucovers_app in Huy as [Huv Hua].
        assert (Hcx : 1 <= count_of u x) by (apply Hu1; left; reflexivity).
        assert (Hcrv : 1 <= count_of u rv) by (eapply Hua; [left; reflexivity | right; left; reflexivity]).
        destruct (fresh_id_inv _ _ _ _ _ _ Hfr) as (Hnin & Hnpv & Hnsv & Hvb).
        pose proof (fresh_id_fl _ _ _ _ _ _ Hfr) as Hnfl.
        set (fl0 := (x, KP) :: fl) in *. set (fl' := (x, K) :: fl) in *.
        destruct (L_fexpr_all pv sv bound u fl0 g2 k v K ctx c code_v rv c1 sc l Hm Hfe) as (_ & _ & (_ & Hccv & _) & _).
        destruct (L_stmts_all pv sv bound u fl' (S (S g2)) k ss ctx c1 ys c' sc (sc', flr) l Hys Hrest) as (_ & _ & (_ & Hcvc' & _)).
        destruct n as [|n2]; [cbn in Hev; inversion Hev; subst; destruct Hint|]. cbn [pred] in HX.
        (* local V<x> = nil *)
        assert (Hlcc : lut_ok bound l c c) by (eapply lut_ok_sub; [exact Hlut | lia | lia]).
        destruct (step_reserve pv sv bound u fl W sc e st E stL l c x Hrel Hlcc Hfr Hcx) as (Hxd & Hfd0 & Hkd).
        pose proof (rel_reserve pv sv bound u fl W sc e st E stL x Hrel Hfr) as Hrel1.
        set (c0 := length (SyltSem.cells st)) in *. set (p0 := s_ncell stL) in *.
        set (e' := (x, c0) :: e) in *. set (E1 := sset (fmt_var x) p0 E) in *. set (stL1 := snd (alloc_cell stL VNil)) in *.
        set (W0 := world_addR W c0 p0 false) in *.
        assert (Hsd : cshape u l [IDefine x] (fst (agen_one u l (IDefine x))) l c c)
          by (apply cshape_plain; [lia | reflexivity | reflexivity | apply used_plain]).
        assert (Hctx1 : ctx_ok l F E1 c c1).
        { constructor; [exact Hbc | eapply lut_ok_sub; [exact Hlut | lia | lia] | eapply F_out_sub; [exact HFo | lia | lia] |].
          intros t0 Ht0. unfold E1. rewrite sget_sset_var by lia. apply HEf. lia. }
        assert (Hse : sext pv fl sc e e').
        { intros w Hw. unfold e'. cbn [SyltSem.lookup]. destruct (N.eqb_spec x w) as [->|]; [|reflexivity].
          destruct Hw as [Hw|[Hw|Hw]]; [contradiction | congruence | contradiction]. }
        assert (Hfn0 : incl fl fl0) by (apply incl_tl, incl_refl).
        assert (Hsa : forall l0, cshape u l0 [IAssign x rv] (fst (agen_one u l0 (IAssign x rv))) l0 c1 c1)
          by (intros l0; apply (cshape_plain u l0 (IAssign x rv) c1 c1); [lia | reflexivity | reflexivity | apply used_plain]).
        assert (HLr : forall l0, exists b2 l2, cshape u l0 (concat ys) b2 l2 c1 c')
          by (intros l0; eapply (L_stmts_all pv sv bound u fl' (S (S g2))); eassumption).
        destruct (SyltSem.exec (S n2) e (SDefinition nm x kd t v sp) st) as [rr stx] eqn:He0.
        cbn [SyltSem.exec] in He0. unfold SyltSem.bind at 1 in He0. rewrite new_cell_eq in He0. fold c0 in He0. fold e' in He0.
        unfold SyltSem.bind at 1 in He0.
        destruct (SyltSem.eval n2 e' v (s_alloc st (SyltSem.SV Values.VLuaNil))) as [[y_|o|cc] st2] eqn:He1.
        2,3: (inversion He0; subst rr stx; inversion Hev; subst r st';
              destruct (HX fl0 W0 g2 k v K ctx c code_v rv c1 e' _ _ _ sc l E1 stL1 F He1 Hm Hfe Huv Hcrv Hctx1 Hrel1 Hint)
                as (b1 & l1 & Hs1 & _ & _ & Hp1);
              destruct (HLr l1) as (b2 & l2 & Hs2);
              eexists _, _; (split; [eapply cshape_app; [eapply cshape_cons; [exact Hsd|]; eapply cshape_app; [exact Hs1 | apply Hsa] | exact Hs2]|]);
              cbn [blk_post];
              apply (exit_app pv sv bound u fl W ctx sc e c c1 c'); [|lia];
              change (fst (agen_one u l (IDefine x)) ++ b1 ++ fst (agen_one u l1 (IAssign x rv)))
                with (fst (agen_one u l (IDefine x)) ++ (b1 ++ fst (agen_one u l1 (IAssign x rv))));
              eapply (exit_pre_w pv sv bound u fl W fl0 W0 ctx sc sc e e' st c c c c1 c c1 E stL _ E1 stL1);
                [exact Hxd | exact Hfd0 | exact Hkd | exact Hrel | apply wsub_addR | exact Hfn0 | exact Hse | apply incl_refl
                 | eapply exit_app; [exact Hp1 | apply N.le_refl] | lia | lia | lia | lia]).
        destruct (HX fl0 W0 g2 k v K ctx c code_v rv c1 e' _ _ st2 sc l E1 stL1 F He1 Hm Hfe Huv Hcrv Hctx1 Hrel1 I)
          as (b1 & l1 & Hs1 & _ & _ & W1 & E2 & stL2 & F2 & Hw1 & Hok2 & Hrel2 & Hd2).
        destruct K as [|ka kr]; [contradiction|]. cbn [adenotes] in Hd2. destruct Hd2 as (d & Hd & Hdk & -> & Hld).
        pose proof Hok2 as (Hx2 & Hf2 & _ & HFn2 & Hk2).
        assert (Hctx2 : ctx_ok l1 F2 E2 c1 c').
        { eapply (ctx_after_blk bound u l F E1 stL1 c c1 c'); [|exact Hs1 | exact Hf2 | exact HFn2].
          constructor; [exact Hbc | exact Hlut | exact HFo |]. intros t0 Ht0. unfold E1. rewrite sget_sset_var by lia. apply HEf. exact Ht0. }
        assert (HxE2 : sget (fmt_var x) E2 = Some p0).
        { rewrite (Hk2 x); [unfold E1; apply sget_sset_same|]. right. left. reflexivity. }
        unfold SyltSem.bind at 1 in He0. rewrite write_cell_eq in He0. cbn in He0. inversion He0; subst rr stx. clear He0.
        (* V<x> = the closure *)
        assert (Hlcv : lut_ok bound l1 c1 c1) by (eapply lut_ok_sub; [apply (cx_lut _ _ _ _ _ _ Hctx2) | lia | lia]).
        destruct (step_cassign pv sv bound u fl0 W1 sc e' st2 E2 stL2 l1 c1 c1 x rv p0 F2 (fd_fid d) Hrel2 Hlcv Hvb Hcx HxE2 Hld)
          as (st3 & Hx3 & Hxa & Hfa).
        pose proof (rel_cdef pv sv bound u fl W sc e st E stL x W1 st2 E2 st3 d Hrel Hw1 Hd
                      (rel_cells_ext pv sv bound u _ _ _ _ _ _ _ _ Hrel2 Hx3) HxE2 Hfr) as Hrel3.
        fold c0 p0 e' in Hrel3. rewrite Hdk in Hrel3. fold fl' in Hrel3.
        set (W2 := world_addF (world_addD W d) c0 p0 (KF ka kr)) in *.
        set (stL3 := set_cell st3 p0 (VFun (fd_fid d))) in *.
        assert (Hww2 : wsub W W2) by (eapply wsub_trans; [apply wsub_addD | apply wsub_addF]).
        (* the prefix as one step *)
        set (bpre := fst (agen_one u l (IDefine x)) ++ (b1 ++ fst (agen_one u l1 (IAssign x rv)))).
        assert (Hxpre : ExecS E bpre stL (ROk (E2, SigNormal) stL3)).
        { unfold bpre. eapply ExecS_app; [exact Hxd|]. eapply ExecS_app; [exact Hx2 | exact Hxa]. }
        assert (Hfpre : wframe bound c c1 E stL E2 stL3).
        { eapply wframe_trans; [eapply wframe_widen; [exact Hfd0 | lia | lia]|].
          eapply wframe_trans; [exact Hf2 | eapply wframe_widen; [exact Hfa | lia | lia]]. }
        assert (Hkpre : keep fl sc E E2).
        { intros w Hw. rewrite (Hk2 w); [apply Hkd; exact Hw|]. destruct Hw as [Hw|Hw]; [left; exact Hw | right; right; exact Hw]. }
        assert (Hfn1 : incl fl fl') by (apply incl_tl, incl_refl).
        destruct (HB fl' W2 (S (S g2)) k ss ctx c1 ys c' e' _ r st' sc sc' flr l1 E2 stL3 F2 Hev Hys Hrest Huys Hctx2 Hrel3 Hint)
          as (b2 & l2 & Hs2 & Hpost).
        eexists _, _. split; [eapply cshape_app; [eapply cshape_cons; [exact Hsd|]; eapply cshape_app; [exact Hs1 | apply Hsa] | exact Hs2]|].
        change ((fst (agen_one u l (IDefine x)) ++ b1 ++ fst (agen_one u l1 (IAssign x rv))) ++ b2) with (bpre ++ b2).
        destruct r as [e2|o|a].
        - cbn [blk_post] in *. destruct Hpost as (W3 & E3 & stL4 & F3 & Hx4 & Hf4 & Hr4 & Hw4 & HFn4 & Hk4 & Hs4 & Hi4).
          exists W3, E3, stL4, F3.
          splits; [eapply ExecS_app; eassumption
                  | eapply wframe_trans; [eapply wframe_widen; [exact Hfpre | lia | lia] | eapply wframe_widen; [exact Hf4 | lia | lia]]
                  | exact Hr4 | eapply wsub_trans; [exact Hww2 | exact Hw4]
                  | eapply F_new_trans; [exact HFn2 | exact HFn4 | lia | lia]
                  | | | exact Hi4].
          + intros w Hw. rewrite (Hk4 w); [apply Hkpre; exact Hw|]. destruct Hw as [Hw|Hw]; [left; exact Hw | right; right; exact Hw].
          + intros w Hw. rewrite Hs4; [apply Hse; exact Hw|]. destruct Hw as [Hw|[Hw|Hw]]; [left; exact Hw | right; left; exact Hw | right; right; right; exact Hw].
        - cbn [blk_post] in *.
          eapply (exit_pre_w pv sv bound u fl W fl' W2 ctx sc sc e e' st c c1 c1 c' c c' E stL bpre E2 stL3);
            [exact Hxpre | exact Hfpre | exact Hkpre | exact Hrel | exact Hww2 | exact Hfn1 | exact Hse | apply incl_refl | exact Hpost | lia | lia | lia | lia].
        - cbn [blk_post] in *.
          eapply (exit_pre_w pv sv bound u fl W fl' W2 ctx sc sc e e' st c c1 c1 c' c c' E stL bpre E2 stL3);
            [exact Hxpre | exact Hfpre | exact Hkpre | exact Hrel | exact Hww2 | exact Hfn1 | exact Hse | apply incl_refl | exact Hpost | lia | lia | lia | lia]. }
      destruct (L_stmt_all pv sv bound u fl g k s ctx c y c1 sc sc1 l Hy Hs) as (_ & _ & (_ & Hcc1 & _)).
      assert (HLr : forall l0, exists b2 l2, cshape u l0 (concat ys) b2 l2 c1 c')
        by (intros l0; eapply (L_stmts_all pv sv bound u fl g); eassumption).
      destruct (HLr l) as (_ & _ & (_ & Hc1c' & _)).
      assert (Hctxs : ctx_ok l F E c c1) by (eapply ctx_sub; [exact Hctx | lia | lia]).
      destruct (SyltSem.exec n e s st) as [[e1|o|a] st1] eqn:He1.
      2,3: (inversion Hev; subst;
            destruct (HE fl W g k s ctx c y c1 e st _ st' sc sc1 l E stL F He1 Hy Hs Huy Hctxs Hrel Hint) as (b1 & l1 & Hs1 & Hp1);
            destruct (HLr l1) as (b2 & l2 & Hs2);
            eexists _, _; (split; [eapply cshape_app; eassumption|]); cbn [stmt_post blk_post] in *;
            eapply exit_app; [exact Hp1 | exact Hc1c']).
      destruct (HE fl W g k s ctx c y c1 e st _ st1 sc sc1 l E stL F He1 Hy Hs Huy Hctxs Hrel I)
        as (b1 & l1 & Hs1 & E1 & stL1 & F1 & Hok1 & Hse1 & Hinc1).
      pose proof Hok1 as (Hx1 & Hf1 & Hrel1 & HFn1 & Hk1).
      assert (Hctx1 : ctx_ok l1 F1 E1 c1 c') by (eapply (ctx_afterS pv sv bound u fl W); eassumption).
      destruct (HB fl W g k ss ctx c1 ys c' e1 st1 r st' sc1 sc' flr l1 E1 stL1 F1 Hev Hys Hfrag Huys Hctx1 Hrel1 Hint)
        as (b2 & l2 & Hs2 & Hpost).
      eexists _, _. split; [eapply cshape_app; eassumption|].
      destruct r as [e2|o|a].
      * cbn [blk_post] in *. destruct Hpost as (W2 & E2 & stL2 & F2 & Hx2 & Hf2 & Hr2 & Hw2 & HFn2 & Hk2 & Hs2' & Hi2).
        exists W2, E2, stL2, F2.
        splits; [eapply ExecS_app; eassumption
                | eapply wframe_trans; [eapply wframe_widen; [exact Hf1 | lia | lia] | eapply wframe_widen; [exact Hf2 | lia | lia]]
                | exact Hr2 | exact Hw2 | eapply F_new_trans; eassumption
                | eapply keep_trans_incl; eassumption
                | eapply sext_trans; eassumption | eapply incl_tran; eassumption].
      * cbn [blk_post] in *. eapply (exit_pre pv sv bound u fl W ctx sc sc1 e e1 st st1); eassumption.
      * cbn [blk_post] in *. eapply (exit_pre pv sv bound u fl W ctx sc sc1 e e1 st st1); eassumption.
Qed.

(* the body block after a prefix that ended normally *)
Lemma fb_pre rk fl1 W1 sc sc1 e e1 E E1 stL stL1 b1 b2 r st' :
  ExecS E b1 stL (ROk (E1, SigNormal) stL1) -> wsub W W1 -> sext pv fl sc e e1 -> incl sc sc1 -> keep fl sc E E1 ->
  (s_ncell stL <= s_ncell stL1)%positive -> incl fl fl1 ->
  fb_post pv sv bound u fl1 W1 rk sc1 e1 E1 stL1 b2 r st' -> fb_post pv sv bound u fl W rk sc e E stL (b1 ++ b2) r st'.
Proof.
  intros Hx1 Hw1 Hs1 Hi1 Hk1 Hn1 Hfl Hp.
  assert (Hfn : incl (fnames fl) (fnames fl1)) by (unfold fnames; apply incl_map; exact Hfl).
  assert (Hsx : forall e2, sext pv fl1 sc1 e1 e2 -> sext pv fl sc e e2).
  { intros e2 H2 w Hw. rewrite H2; [apply Hs1; exact Hw|]. destruct Hw as [Hw|[Hw|Hw]]; [left; apply Hi1; exact Hw | right; left; exact Hw | right; right; apply Hfn; exact Hw]. }
  assert (Hkx : forall E2, keep fl1 sc1 E1 E2 -> keep fl sc E E2).
  { intros E2 H2 w Hw. rewrite H2; [apply Hk1; exact Hw|]. destruct Hw as [Hw|Hw]; [left; apply Hi1; exact Hw | right; apply Hfn; exact Hw]. }
  destruct r as [v|o|[| |v]]; cbn [fb_post] in *; try exact I.
  - destruct Hp as (fl2 & W2 & E2 & sg & stL2 & sc2 & e2 & Hx2 & Hsg & Hr2 & Hw2 & Hs2 & Hi2 & Hk2 & Hn2).
    exists fl2, W2, E2, sg, stL2, sc2, e2.
    splits; [eapply ExecS_app; eassumption | exact Hsg | exact Hr2 | eapply wsub_trans; eassumption | eapply Hsx; eassumption
             | eapply incl_tran; eassumption | apply Hkx; exact Hk2 | lia].
  - destruct Hp as (ev & stL2 & Hx2 & Htr). exists ev, stL2. split; [eapply ExecS_app; eassumption | exact Htr].
  - destruct Hp as (fl2 & W2 & sc2 & e2 & E2 & Er & stL2 & lv & Hx2 & Hv2 & Hr2 & Hw2 & Hs2 & Hi2 & Hk2 & Hn2).
    exists fl2, W2, sc2, e2, E2, Er, stL2, lv.
    splits; [eapply ExecS_app; eassumption | exact Hv2 | exact Hr2 | eapply wsub_trans; eassumption | eapply Hsx; eassumption
             | eapply incl_tran; eassumption | apply Hkx; exact Hk2 | lia].
Qed.

(* the body block stopped by a prefix *)
Lemma fb_app_stop {A} rk sc e E stL b1 b2 (x : A) r st' :
  match r with SyltSem.RVal _ => False | _ => True end ->
  fb_post pv sv bound u fl W rk sc e E stL b1 r st' -> fb_post pv sv bound u fl W rk sc e E stL (b1 ++ b2) r st'.
Proof.
  intros Hr Hp. destruct r as [v|o|[| |v]]; cbn [fb_post] in *; try exact I; try contradiction.
  - destruct Hp as (ev & stL2 & Hx2 & Htr). exists ev, stL2. split; [apply ExecS_app_stop; [exact Hx2 | intros []] | exact Htr].
  - destruct Hp as (fl2 & W2 & sc2 & e2 & E2 & Er & stL2 & lv & Hx2 & Hrest).
    exists fl2, W2, sc2, e2, E2, Er, stL2, lv. split; [apply ExecS_app_stop; [exact Hx2 | intros []] | exact Hrest].
Qed.

Lemma P_fb_zero : P_fb pv sv bound u fl W O.
Proof.
  intros g k body rk ctx c code c' e st r st' sc l E stL F Hev. cbn in Hev. inversion Hev; subst. intros. contradiction.
Qed.

(* the body of a function with a plain result *)
Lemma P_fb_succ_plain n :
  (forall fl' W', P_eval pv sv bound u fl' W' n) -> (forall fl' W', P_blk pv sv bound u fl' W' n) ->
  forall g k body ctx c code c' e st r st' sc l E stL F,
    SyltSem.block_value (S n) e body st = (r, st') ->
    lower_fbody (statement g) (expression g) body ctx c = Ok (code, c') ->
    fbody_check (frag_stmts pv sv bound fl k sc) (fun fl1 sc1 x => frag_fexpr pv sv bound fl1 k sc1 x) (fun fl1 sc1 x => frag_expr pv sv bound fl1 k sc1 x) k body KP = true ->
    ucovers u code -> ctx_ok l F E c c' ->
    rel sc e st E stL -> interesting r ->
    exists b l', cshape u l code b l' c c' /\ fb_post pv sv bound u fl W KP sc e E stL b r st'.
Proof.
  intros IHe IHb g k body ctx c code c' e st r st' sc l E stL F Hev Hlow Hcheck Hu Hctx Hrel Hint.
  pose proof Hctx as [Hbc Hlut HFo HEf].
  destruct (L_fb_all pv sv bound u fl g k body KP ctx c code c' sc l Hlow Hcheck) as (b0 & l0 & Hs0).
  cbn [fbody_check] in Hcheck.
  destruct (frag_stmts pv sv bound fl k sc body) as [[sc' flr]|] eqn:Hfrag; [|discriminate Hcheck]. clear Hcheck.
  pose proof Hs0 as (_ & Hcc' & _).
  (* an abrupt end is outside what the post-condition says *)
  assert (Hab : r = SyltSem.RAbrupt SyltSem.CBreak \/ r = SyltSem.RAbrupt SyltSem.CContinue ->
                exists b l', cshape u l code b l' c c' /\ fb_post pv sv bound u fl W KP sc e E stL b r st').
  { intros [-> | ->]; exists b0, l0; (split; [exact Hs0 | exact I]). }
  clear Hs0.
  cbn [SyltSem.block_value] in Hev. unfold lower_fbody in Hlow.
  destruct (rev body) as [|last init_rev] eqn:Hrev.
  - (* empty body *)
    assert (body = []) by (rewrite <- (rev_involutive body), Hrev; reflexivity). subst body.
    apply ret_ok in Hlow as [<- <-].
    unfold SyltSem.bind in Hev. destruct n as [|n]; [cbn in Hev; inversion Hev; subst; destruct Hint|].
    cbn in Hev. inversion Hev; subst r st'.
    destruct k as [|k]; [discriminate|]. cbn in Hfrag. inversion Hfrag; subst sc' flr.
    eexists _, _. split; [apply cshape_nil|]. cbn [fb_post].
    exists fl, W, E, SigNormal, stL, sc, e.
    splits; [apply XS_nil | left; split; [reflexivity | split; reflexivity] | exact Hrel | apply wsub_refl | apply sext_refl | apply incl_refl | apply keep_refl | lia].
  - assert (Hbody : body = rev init_rev ++ [last]) by (rewrite <- (rev_involutive body), Hrev; reflexivity).
    mon Hlow. apply lower_list_ok in Hm as (cs & Hmi & ->).
    pose proof Hfrag as Hfrag0.
    destruct (frag_stmts_app pv sv bound _ _ _ _ _ _ Hfrag0) as (sc1 & fl1 & k' & Hfi & Hfl).
    apply ucovers_app in Hu as [Hui Hul].
    (* the last statement is not an expression: the value is nil *)
    assert (Hgen : SyltSem.bind (SyltSem.exec_block n e (rev init_rev ++ [last])) (fun _ : senv => SyltSem.ret (SV Values.VLuaNil)) st = (r, st') ->
                   statement g last ctx c0 = Ok (a0, c') ->
                   exists (b : block) (l' : alut), cshape u l (concat cs ++ a0) b l' c c' /\ fb_post pv sv bound u fl W KP sc e E stL b r st').
    { intros Hev' Hst.
      pose proof (mapM_snoc _ _ _ _ _ _ _ _ Hmi Hst) as Hmall.
      assert (Hcc : concat (cs ++ [a0]) = concat cs ++ a0) by (rewrite concat_app; cbn [concat]; rewrite app_nil_r; reflexivity).
      assert (Huall : ucovers u (concat (cs ++ [a0]))) by (rewrite Hcc; apply ucovers_app; split; assumption).
      unfold SyltSem.bind at 1 in Hev'.
      destruct (SyltSem.exec_block n e (rev init_rev ++ [last]) st) as [[e1|o|cc] st1] eqn:He1.
      3: { inversion Hev'; subst. destruct cc as [| |v]; [apply Hab; auto | apply Hab; auto |].
           destruct (IHb fl W g k _ ctx c _ c' e st _ st' sc sc' flr l E stL F He1 Hmall Hfrag0 Huall Hctx Hrel Hint)
             as (b1 & l1 & Hs1 & Hpost). rewrite Hcc in Hs1.
           eexists _, _. split; [exact Hs1|]. cbn [blk_post] in Hpost. eapply fb_of_exit. exact Hpost. }
      2: { inversion Hev'; subst.
           destruct (IHb fl W g k _ ctx c _ c' e st _ st' sc sc' flr l E stL F He1 Hmall Hfrag0 Huall Hctx Hrel Hint)
             as (b1 & l1 & Hs1 & Hpost). rewrite Hcc in Hs1.
           eexists _, _. split; [exact Hs1|]. cbn [blk_post fb_post] in *.
           destruct Hpost as (rl & Hx & (ev & stL' & -> & Htr)). exists ev, stL'. split; assumption. }
      cbn in Hev'. inversion Hev'; subst r st'. clear Hev'.
      destruct (IHb fl W g k _ ctx c _ c' e st _ st1 sc sc' flr l E stL F He1 Hmall Hfrag0 Huall Hctx Hrel I)
        as (b1 & l1 & Hs1 & W1 & E1 & stL1 & F1 & Hx1 & Hf1 & Hrel1 & Hw1 & _ & Hk1 & Hse1 & Hinc1). rewrite Hcc in Hs1.
      eexists _, _. split; [exact Hs1|].
      exists flr, W1, E1, SigNormal, stL1, sc', e1.
      splits; [exact Hx1 | left; split; [reflexivity | split; reflexivity] | exact Hrel1 | exact Hw1 | exact Hse1 | exact Hinc1 | exact Hk1 | apply (wr_ncell _ _ _ _ _ _ _ Hf1)]. }
    destruct last; try (apply Hgen; assumption).
    (* the last statement is an expression: its value is returned *)
    clear Hgen.
    destruct k' as [|k']; [discriminate|]. rewrite (frag_stmts_plain pv sv bound fl1) in Hfl by reflexivity.
    destruct k' as [|k'']; [discriminate|]. rewrite frag_stmt_sexpr in Hfl.
    destruct (frag_expr pv sv bound fl1 k'' sc1 value) eqn:Hfe; [|discriminate Hfl].
    mon Hm0. destruct a as [code_v rv]. cbn [fst snd] in *.
    apply ucovers_app in Hul as [Huv Hur].
    assert (Hcrv : 1 <= count_of u rv) by (eapply Hur; [left; reflexivity | left; reflexivity]).
    assert (Hrest : forall l0, exists b2 l2, cshape u l0 code_v b2 l2 c0 c' /\ c0 <= rv /\ rv < c')
      by (intros lx; apply (L_expr_all pv sv bound u fl1 g k'' value ctx c0 code_v rv c' sc1 lx Hm Hfe)).
    destruct (Hrest l) as (_ & _ & (_ & Hc0' & _) & _).
    destruct (L_stmts_all pv sv bound u fl g k (rev init_rev) ctx c cs c0 sc (sc1, fl1) l Hmi Hfi) as (_ & _ & (_ & Hcc0 & _)).
    assert (Hret : forall l0, cshape u l0 [IReturn rv] (fst (agen_one u l0 (IReturn rv))) l0 c' c')
      by (intros lx; apply cshape_plain; [lia | reflexivity | reflexivity | reflexivity]).
    pose proof (frag_stmts_flincl pv sv bound _ _ _ _ _ _ Hfi) as Hfn.
    assert (Hctxi : ctx_ok l F E c c0) by (eapply ctx_sub; [exact Hctx | lia | lia]).
    unfold SyltSem.bind at 1 in Hev.
    destruct (SyltSem.exec_block n e (rev init_rev) st) as [[e1|o|cc] st1] eqn:He1.
    3: { inversion Hev; subst. destruct cc as [| |v]; [apply Hab; auto | apply Hab; auto |].
         destruct (IHb fl W g k _ ctx c _ c0 e st _ st' sc sc1 fl1 l E stL F He1 Hmi Hfi Hui Hctxi Hrel Hint)
           as (b1 & l1 & Hs1 & Hp1). destruct (Hrest l1) as (b2 & l2 & Hs2 & _).
         eexists _, _. split; [eapply cshape_app; [exact Hs1|]; eapply cshape_app; [exact Hs2 | apply Hret]|].
         cbn [blk_post] in Hp1. apply (fb_app_stop KP sc e E stL b1 _ tt); [exact I | eapply fb_of_exit; exact Hp1]. }
    2: { inversion Hev; subst.
         destruct (IHb fl W g k _ ctx c _ c0 e st _ st' sc sc1 fl1 l E stL F He1 Hmi Hfi Hui Hctxi Hrel Hint)
           as (b1 & l1 & Hs1 & Hp1). destruct (Hrest l1) as (b2 & l2 & Hs2 & _).
         eexists _, _. split; [eapply cshape_app; [exact Hs1|]; eapply cshape_app; [exact Hs2 | apply Hret]|].
         cbn [blk_post fb_post] in *. destruct Hp1 as (rl & Hx1 & (ev & stL1 & -> & Htr)).
         exists ev, stL1. split; [apply ExecS_app_stop; [exact Hx1 | intros []] | exact Htr]. }
    destruct (IHb fl W g k _ ctx c _ c0 e st _ st1 sc sc1 fl1 l E stL F He1 Hmi Hfi Hui Hctxi Hrel I)
      as (b1 & l1 & Hs1 & W1 & E1 & stL1 & F1 & Hx1 & Hf1 & Hrel1 & Hw1 & HFn1 & Hk1 & Hse1 & Hinc1).
    assert (Hctx1 : ctx_ok l1 F1 E1 c0 c') by (eapply (ctx_after_blk bound u); eassumption).
    pose proof (wr_ncell _ _ _ _ _ _ _ Hf1) as Hn1.
    destruct (SyltSem.eval n e1 value st1) as [[v_|o|cc] st2] eqn:He2.
    3: { inversion Hev; subst. destruct cc as [| |v]; [apply Hab; auto | apply Hab; auto |].
         destruct (IHe fl1 W1 g k'' value ctx c0 code_v rv c' e1 st1 _ st' sc1 l1 E1 stL1 F1 He2 Hm Hfe Huv Hctx1 Hrel1 Hint)
           as (b2 & l2 & Hs2 & _ & _ & Hp2). cbn [eval_post] in Hp2.
         eexists _, _. split; [eapply cshape_app; [exact Hs1|]; eapply cshape_app; [exact Hs2 | apply Hret]|].
         eapply (fb_pre KP fl1 W1 sc sc1 e e1 E E1 stL stL1); try eassumption.
         eapply fb_of_exit. eapply exit_app; [exact Hp2 | apply N.le_refl]. }
    2: { inversion Hev; subst.
         destruct (IHe fl1 W1 g k'' value ctx c0 code_v rv c' e1 st1 _ st' sc1 l1 E1 stL1 F1 He2 Hm Hfe Huv Hctx1 Hrel1 Hint)
           as (b2 & l2 & Hs2 & _ & _ & Hp2). cbn [eval_post] in Hp2. destruct Hp2 as (rl & Hx2 & (ev & stL2 & -> & Htr)).
         eexists _, _. split; [eapply cshape_app; [exact Hs1|]; eapply cshape_app; [exact Hs2 | apply Hret]|].
         exists ev, stL2. split; [|exact Htr].
         eapply ExecS_app; [exact Hx1|]. apply ExecS_app_stop; [exact Hx2 | intros []]. }
    inversion Hev; subst r st'. clear Hev.
    destruct (IHe fl1 W1 g k'' value ctx c0 code_v rv c' e1 st1 _ st2 sc1 l1 E1 stL1 F1 He2 Hm Hfe Huv Hctx1 Hrel1 I)
      as (b2 & l2 & Hs2 & _ & _ & E2 & stL2 & F2 & Hok2 & Hd2). specialize (Hd2 Hcrv).
    pose proof Hok2 as (Hx2 & Hf2 & Hrel2 & _ & Hk2).
    eexists _, _. split; [eapply cshape_app; [exact Hs1|]; eapply cshape_app; [exact Hs2 | apply Hret]|].
    destruct (denotes_now _ _ _ _ _ Hd2 (r_wf _ _ _ _ _ _ _ _ _ _ _ Hrel2) (r_linv _ _ _ _ _ _ _ _ _ _ _ Hrel2)) as (lv & Hv & st3 & _ & Hm3 & Hx3).
    exists fl1, W1, E2, (SigReturn [lv]), st3, sc1, e1. splits.
    + eapply ExecS_app; [exact Hx1|]. eapply ExecS_app; [exact Hx2|].
      cbn [agen_one fst]. apply XS_stop; [|intros []].
      eapply Exec_do. apply ExecBlock_of_ExecS; [|repeat constructor | intros []].
      apply XS_stop; [|intros []]. apply Exec_return. apply EvalList_one. exact Hm3.
    + right. exists lv. split; [reflexivity | exact Hv].
    + eapply rel_cells_ext; eassumption.
    + exact Hw1.
    + exact Hse1.
    + exact Hinc1.
    + intros w Hw. rewrite Hk2; [apply Hk1; exact Hw|].
      destruct Hw as [Hw|Hw]; [left; apply Hinc1; exact Hw | right].
      unfold fnames in *. apply in_map_iff in Hw as (x & <- & Hx). apply in_map. apply Hfn. exact Hx.
    + pose proof (wr_ncell _ _ _ _ _ _ _ Hf2).
      destruct Hx3 as (_ & _ & _ & _ & _ & _ & Hn3 & _). lia.
Qed.


(* ---- a guard  if c do ret <function value> end  in the body of a function that returns a function ---- *)
Lemma P_guard m ka kr :
  (forall m', (m' <= m)%nat -> P_eval pv sv bound u fl W m') -> (forall m', (m' <= m)%nat -> P_farg pv sv bound u fl W m') ->
  forall g k G cnd fx ctx c code c' e st r st' sc l E stL F,
    guard_parts G = Some (cnd, fx) ->
    SyltSem.exec m e G st = (r, st') -> statement g G ctx c = Ok (code, c') ->
    frag_expr pv sv bound fl k sc cnd = true -> noexit_expr k cnd = true ->
    frag_fexpr pv sv bound fl k sc fx = Some (KF ka kr) -> noexit_fexpr k fx = true ->
    ucovers u code -> ctx_ok l F E c c' -> rel sc e st E stL -> interesting r ->
    exists b l', cshape u l code b l' c c' /\
      match r with
      | SyltSem.RVal e' => e' = e /\ exists E' stL' F', SimExpr.okstep pv sv bound u fl W sc e st' F c c' E stL b E' stL' F'
      | SyltSem.RStop o => exists ev stL', ExecS E b stL (RErr ev stL') /\ SyltSem.trace st' = s_out stL'
      | SyltSem.RAbrupt (SyltSem.CReturn v) =>
          exists W1 E' Er stL' lv, wsub W W1 /\ ExecS E b stL (ROk (Er, SigReturn [lv]) stL') /\ arel W1 (KF ka kr) v lv /\
            SimDefs.rel pv sv bound u fl W1 sc e st' E' stL' /\ keep fl sc E E' /\ (s_ncell stL <= s_ncell stL')%positive
      | SyltSem.RAbrupt _ => False
      end.
Proof.
  intros IHe IHF g k G cnd fx ctx c code c' e st r st' sc l E stL F HGp Hev Hlow Hfc Hnc Hff Hnf Hu Hctx Hrel Hint.
  destruct (guard_parts_inv _ _ _ HGp) as (sp1 & sp2 & sp3 & sp4 & ->). clear HGp.
  pose proof Hctx as [Hbc Hlut HFo HEf].
  (* the lowering *)
  destruct g as [|g1]; [discriminate Hlow|]. cbn [statement] in Hlow. mon Hlow.
  destruct g1 as [|g2]; [discriminate Hm|]. cbn [expression] in Hm. mon Hm. fresh_all. cbn [fst] in *.
  apply mapM_cons_ok in Hm1 as (y & c1 & ys & Hy & Hnil & ->). apply mapM_nil_ok in Hnil as [-> ->].
  unfold lower_if_branch in Hy. mon Hy. destruct a as [code_c vc]. cbn [fst snd] in *.
  unfold lower_eblock in Hm0. cbn [rev app] in Hm0. unfold lower_list in Hm0. mon Hm0.
  apply mapM_cons_ok in Hm1 as (y2 & c2 & ys2 & Hy2 & Hnil & ->). apply mapM_nil_ok in Hnil as [-> ->].
  destruct g2 as [|g3]; [discriminate Hy2|]. cbn [statement] in Hy2. mon Hy2. destruct a as [code_f rv]. cbn [fst snd concat map] in *.
  rename c2 into c'.
  assert (Hcode : [IDefine c] ++ ((code_c ++ [IIf vc] ++ ((code_f ++ [IReturn rv]) ++ []) ++ [IElse]) ++ []) ++ [IEnd]
                  = IDefine c :: code_c ++ (IIf vc :: (code_f ++ [IReturn rv]) ++ IElse :: [] ++ [IEnd]))
    by (repeat (first [rewrite app_nil_r | rewrite <- app_assoc | progress cbn [app]]); reflexivity).
  rewrite Hcode in *. clear Hcode.
  (* structure and usage counts *)
  destruct (L_expr_all pv sv bound u fl (S g3) k cnd ctx (c + 1) code_c vc c0 sc l Hm Hfc) as (_ & _ & (_ & Hc0 & _) & Hvc1 & Hvc2).
  assert (HLf : forall l0, exists bf l2, cshape u l0 code_f bf l2 c0 c' /\ c0 <= rv /\ rv < c')
    by (intros l0; apply (L_fexpr_all pv sv bound u fl g3 k fx _ ctx c0 code_f rv c' sc l0 Hm0 Hff)).
  destruct (HLf l) as (_ & _ & (_ & Hc0' & _) & _).
  apply ucovers_cons in Hu as [Hud Hu]. apply ucovers_app in Hu as [Huc Hu]. apply ucovers_cons in Hu as [Huif Hu].
  apply ucovers_app in Hu as [Hub _]. apply ucovers_app in Hub as [Huf Hur].
  assert (Hcc : 1 <= count_of u c) by (apply Hud; left; reflexivity).
  assert (Hcvc : 1 <= count_of u vc) by (apply Huif; left; reflexivity).
  assert (Hcrv : 1 <= count_of u rv) by (eapply Hur; [left; reflexivity | left; reflexivity]).
  (* the block for given sub-blocks *)
  assert (Hmk : forall bc l1 bf l2, cshape u l code_c bc l1 (c + 1) c0 -> cshape u l1 code_f bf l2 c0 c' ->
            cshape u l (IDefine c :: code_c ++ (IIf vc :: (code_f ++ [IReturn rv]) ++ IElse :: [] ++ [IEnd]))
                   (fst (agen_one u l (IDefine c)) ++ bc ++ [SIf (aexpand l1 vc) (bf ++ fst (agen_one u l2 (IReturn rv))) []]) l2 c c').
  { intros bc l1 bf l2 H1 H2.
    eapply cshape_cons'; [apply (cshape_plain u l (IDefine c) c c'); [lia | reflexivity | reflexivity | apply used_plain]|].
    eapply cshape_app'; [eapply cshape_widen; [exact H1 | lia | lia]|].
    eapply cshape_ifelse; [|apply cshape_nil'; lia].
    eapply cshape_app'; [eapply cshape_widen; [exact H2 | lia | lia]|].
    apply (cshape_plain u l2 (IReturn rv) c c'); [lia | reflexivity | reflexivity | reflexivity]. }
  (* local V<out> = nil *)
  assert (Hctxd : ctx_ok l F E c (c + 1)) by (eapply ctx_sub; [exact Hctx | lia | lia]).
  destruct (step_define_temp pv sv bound u fl W sc e st F c (c + 1) E stL l c Hrel Hctxd ltac:(lia) Hcc) as (E1 & stL1 & p & Hokd & Hp & Hcell & Hnp).
  assert (Hsd : cshape u l [IDefine c] (fst (agen_one u l (IDefine c))) l c (c + 1))
    by (apply cshape_plain; [lia | reflexivity | reflexivity | apply used_plain]).
  assert (Hctx1 : ctx_ok l F E1 (c + 1) c') by (eapply (ctx_after pv sv bound u fl W); eassumption).
  pose proof Hokd as (Hxd & Hfd & Hrel1 & _ & Hkd).
  assert (Hokd' : SimExpr.okstep pv sv bound u fl W sc e st F c c' E stL (fst (agen_one u l (IDefine c))) E1 stL1 F)
    by (eapply (okstep_widen pv sv bound u fl W); [exact Hokd | lia | lia]).
  (* the reference interpreter *)
  destruct m as [|m1]; [cbn in Hev; inversion Hev; subst; destruct Hint|].
  cbn [SyltSem.exec] in Hev. unfold SyltSem.bind at 1 in Hev.
  destruct m1 as [|m2]; [cbn in Hev; inversion Hev; subst; destruct Hint|].
  rewrite seval_if in Hev.
  change (if_go m2 e [IfBranch (Some cnd) [SRet (Some fx) sp1] sp2])
    with (SyltSem.bind (SyltSem.eval m2 e cnd) (fun c => SyltSem.bind (SyltSem.truth "if" c) (fun bc =>
            if bc then SyltSem.block_value m2 e [SRet (Some fx) sp1] else SyltSem.ret (SyltSem.SV Values.VLuaNil)))) in Hev.
  unfold SyltSem.bind at 1 in Hev.
  destruct (SyltSem.eval m2 e cnd st) as [rc st1] eqn:Hec.
  assert (Hctxc : ctx_ok l F E1 (c + 1) c0) by (eapply ctx_sub; [exact Hctx1 | lia | lia]).
  destruct rc as [vc_|o|cc].
  3: { exfalso. exact (noexit_noab m2 k e cnd st _ _ Hnc Hec). }
  2: { cbn in Hev. inversion Hev; subst r st'.
       destruct (IHe m2 ltac:(lia) (S g3) k cnd ctx (c + 1) code_c vc c0 e st _ st1 sc l E1 stL1 F Hec Hm Hfc Huc Hctxc Hrel1 Hint)
         as (bc & l1 & Hs1 & _ & _ & Hp1).
       destruct (HLf l1) as (bf & l2 & Hs2 & _).
       eexists _, _. split; [apply (Hmk bc l1 bf l2 Hs1 Hs2)|].
       destruct Hp1 as (rl & Hx & (ev & stL' & -> & Htr)). exists ev, stL'. split; [|exact Htr].
       eapply ExecS_app; [exact Hxd|]. apply ExecS_app_stop; [exact Hx | intros []]. }
  destruct (IHe m2 ltac:(lia) (S g3) k cnd ctx (c + 1) code_c vc c0 e st _ st1 sc l E1 stL1 F Hec Hm Hfc Huc Hctxc Hrel1 I)
    as (bc & l1 & Hs1 & _ & _ & E2 & stL2 & F2 & Hok2 & Hd2). specialize (Hd2 Hcvc).
  pose proof Hok2 as (Hx2 & Hf2 & Hrel2 & Hn2 & Hk2).
  assert (Hctx2 : ctx_ok l1 F2 E2 c0 c') by (eapply (ctx_after pv sv bound u fl W); eassumption).
  pose proof (r_wf _ _ _ _ _ _ _ _ _ _ _ Hrel2) as Hwf2. pose proof (r_linv _ _ _ _ _ _ _ _ _ _ _ Hrel2) as Hli2.
  destruct (denotes_now _ _ _ _ _ Hd2 Hwf2 Hli2) as (lvc & Hvvc & stc & Hevc & _ & Hxc).
  unfold SyltSem.bind at 1 in Hev.
  assert (Hbcv : exists bcv, vc_ = SyltSem.SV (Values.VBool bcv)).
  { inversion Hvvc; subst; cbn in Hev; inversion Hev; subst; try destruct Hint. eauto. }
  destruct Hbcv as [bcv ->]. cbn [SyltSem.truth SyltSem.ret] in Hev. inversion Hvvc; subst lvc.
  assert (Hrelc : rel sc e st1 E2 stc) by (eapply rel_cells_ext; eassumption).
  assert (Hokc : SimExpr.okstep pv sv bound u fl W sc e st1 F c c' E stL (fst (agen_one u l (IDefine c)) ++ bc) E2 stL2 F2).
  { eapply (okstep_trans' pv sv bound u fl W); [exact Hokd'|]. eapply (okstep_widen pv sv bound u fl W); [exact Hok2 | lia | lia]. }
  destruct bcv.
  - (* the guard fires *)
    destruct m2 as [|m3]; [cbn in Hev; inversion Hev; subst; destruct Hint|].
    cbn [SyltSem.block_value rev app] in Hev. unfold SyltSem.bind at 1 in Hev.
    destruct m3 as [|m4]; [cbn in Hev; inversion Hev; subst; destruct Hint|].
    cbn [SyltSem.exec_block] in Hev. unfold SyltSem.bind at 1 in Hev.
    destruct m4 as [|m5]; [cbn in Hev; inversion Hev; subst; destruct Hint|].
    cbn [SyltSem.exec] in Hev. unfold SyltSem.bind at 1 in Hev.
    destruct (SyltSem.eval m5 e fx st1) as [[y|o|cc] st2] eqn:Hef.
    3: { exfalso. exact (noexit_fexpr_noab m5 k e fx st1 _ _ Hnf Hef). }
    2: { cbn in Hev. inversion Hev; subst r st'.
         destruct (IHF m5 ltac:(lia) g3 k fx _ ctx c0 code_f rv c' e st1 _ st2 sc l1 E2 stc F2 Hef Hm0 Hff Huf Hcrv Hctx2 Hrelc Hint)
           as (bf & l2 & Hs2 & _ & _ & Hp2).
         eexists _, _. split; [apply (Hmk bc l1 bf l2 Hs1 Hs2)|].
         destruct Hp2 as (rl & Hx & (ev & stL' & -> & Htr)). exists ev, stL'. split; [|exact Htr].
         rewrite app_assoc. eapply ExecS_app; [apply Hokc|]. apply XS_stop; [|intros []].
         eapply (Exec_if_err E2 (aexpand l1 vc) _ _ stL2 (VBool true) stc); [exact Hevc|]. cbn [truthy].
         apply ExecBlock_of_ExecS_nil; [apply ExecS_app_stop; [exact Hx | intros []]|].
         apply nolabel_app; [apply Hs2 | cbn [agen_one fst]; repeat constructor]. }
    cbn in Hev. inversion Hev; subst r st'. clear Hev.
    destruct (IHF m5 ltac:(lia) g3 k fx _ ctx c0 code_f rv c' e st1 _ st2 sc l1 E2 stc F2 Hef Hm0 Hff Huf Hcrv Hctx2 Hrelc I)
      as (bf & l2 & Hs2 & _ & _ & W1 & E3 & stL3 & F3 & Hw1 & Hok3 & Hrel3 & Hd3).
    eexists _, _. split; [apply (Hmk bc l1 bf l2 Hs1 Hs2)|].
    cbn [adenotes] in Hd3. destruct Hd3 as (d & HdW & Hdk & -> & Hld).
    pose proof Hok3 as (Hx3 & Hf3 & _ & _ & Hk3).
    destruct (Hld E3 stL3 (fut_refl _ _ _) (r_wf _ _ _ _ _ _ _ _ _ _ _ Hrel3) (r_linv _ _ _ _ _ _ _ _ _ _ _ Hrel3)) as (st4 & _ & Hm4 & Hx4).
    exists W1, E3, E2, st4, (VFun (fd_fid d)). splits.
    + exact Hw1.
    + rewrite app_assoc. eapply ExecS_app; [apply Hokc|]. apply XS_stop; [|intros []].
      eapply (Exec_if E2 (aexpand l1 vc) _ _ stL2 (VBool true) stc); [exact Hevc|]. cbn [truthy].
      apply ExecBlock_of_ExecS_nil; [|apply nolabel_app; [apply Hs2 | cbn [agen_one fst]; repeat constructor]].
      eapply ExecS_app; [exact Hx3|]. cbn [agen_one fst]. apply XS_stop; [|intros []].
      eapply Exec_do. apply ExecBlock_of_ExecS; [|repeat constructor | intros []].
      apply XS_stop; [|intros []]. apply Exec_return. apply EvalList_one. exact Hm4.
    + cbn [arel]. exists d. auto.
    + eapply rel_cells_ext; eassumption.
    + destruct Hokc as (_ & _ & _ & _ & Hkc). eapply keep_trans; [exact Hkc | exact Hk3].
    + destruct Hokc as (_ & Hfc' & _). pose proof (wr_ncell _ _ _ _ _ _ _ Hfc'). pose proof (wr_ncell _ _ _ _ _ _ _ Hf3).
      destruct Hxc as (_ & _ & _ & _ & _ & _ & Hnc' & _). destruct Hx4 as (_ & _ & _ & _ & _ & _ & Hn4 & _). lia.
  - (* the guard does not fire *)
    cbn in Hev. inversion Hev; subst r st'. clear Hev.
    destruct (HLf l1) as (bf & l2 & Hs2 & _).
    eexists _, _. split; [apply (Hmk bc l1 bf l2 Hs1 Hs2)|].
    split; [reflexivity|]. exists E2, stc, F2.
    rewrite app_assoc. eapply (okstep_trans' pv sv bound u fl W); [exact Hokc|].
    eapply (okstep_if pv sv bound u fl W sc e st1 st1 F2 c c' E2 stL2 (aexpand l1 vc) _ [] (VBool false) stc E2 stc); try assumption.
    + cbn [truthy]. constructor.
    + cbn [truthy]. apply XS_nil.
    + split; [lia | intros; reflexivity].
Qed.


(* the guards of a body, one after the other: all pass (the environments are the ones before), or one returns *)
Lemma P_guards ka kr : forall guards m,
  (forall m', (m' <= m)%nat -> P_eval pv sv bound u fl W m') -> (forall m', (m' <= m)%nat -> P_farg pv sv bound u fl W m') ->
  forall g k ctx c cs c' e st r st' sc l E stL F,
    SyltSem.exec_block m e guards st = (r, st') -> mapM (fun s => statement g s ctx) guards c = Ok (cs, c') ->
    forallb (guard_ok pv sv bound fl k sc (KF ka kr)) guards = true ->
    ucovers u (concat cs) -> ctx_ok l F E c c' -> rel sc e st E stL -> interesting r ->
    exists b l', cshape u l (concat cs) b l' c c' /\
      match r with
      | SyltSem.RVal e' => e' = e /\ exists E' stL' F', SimExpr.okstep pv sv bound u fl W sc e st' F c c' E stL b E' stL' F'
      | SyltSem.RStop o => exists ev stL', ExecS E b stL (RErr ev stL') /\ SyltSem.trace st' = s_out stL'
      | SyltSem.RAbrupt (SyltSem.CReturn v) =>
          exists W1 E' Er stL' lv, wsub W W1 /\ ExecS E b stL (ROk (Er, SigReturn [lv]) stL') /\ arel W1 (KF ka kr) v lv /\
            SimDefs.rel pv sv bound u fl W1 sc e st' E' stL' /\ keep fl sc E E' /\ (s_ncell stL <= s_ncell stL')%positive
      | SyltSem.RAbrupt _ => False
      end.
Proof.
  induction guards as [|G gs IHg]; intros m IHe IHF g k ctx c cs c' e st r st' sc l E stL F Hev Hm Hgs Hu Hctx Hrel Hint.
  - destruct (mapM_nil_ok _ _ _ _ Hm) as [-> ->].
    destruct m as [|m1]; [cbn in Hev; inversion Hev; subst; destruct Hint|]. cbn in Hev. inversion Hev; subst r st'.
    eexists _, _. split; [apply cshape_nil|]. split; [reflexivity|]. exists E, stL, F. apply (okstep_refl pv sv bound u fl W). exact Hrel.
  - cbn [forallb] in Hgs. apply andb_prop in Hgs as [HG Hgs].
    apply mapM_cons_ok in Hm as (y & c1 & ys & Hy & Hys & ->). cbn [concat] in *. apply ucovers_app in Hu as [Huy Huys].
    unfold guard_ok in HG. destruct (guard_parts G) as [[cnd gfx]|] eqn:HGp; [|discriminate HG].
    apply andb_prop in HG as [HG Hk4]. apply andb_prop in HG as [HG Hnf]. apply andb_prop in HG as [Hnc Hfc].
    destruct (frag_fexpr pv sv bound fl k sc gfx) as [K'|] eqn:Hff; [|discriminate Hk4]. apply kind_eqb_eq in Hk4. subst K'.
    destruct (L_guard pv sv bound u g (fun g' _ fl0 => L_expr_all pv sv bound u fl0 g') (fun g' _ fl0 => L_fexpr_all pv sv bound u fl0 g')
                      fl k G cnd gfx _ ctx c y c1 sc l HGp Hy Hfc Hff) as (_ & _ & (_ & Hcc1 & _)).
    assert (HLr : forall l0, exists b2 l2, cshape u l0 (concat ys) b2 l2 c1 c').
    { intros l0. clear - Hys Hgs. revert ys c1 Hys l0. induction gs as [|G2 gs2 IH2]; intros ys c1 Hys l0.
      - destruct (mapM_nil_ok _ _ _ _ Hys) as [-> ->]. eexists _, _. apply cshape_nil.
      - cbn [forallb] in Hgs. apply andb_prop in Hgs as [HG2 Hgs2].
        apply mapM_cons_ok in Hys as (y2 & c2 & ys2 & Hy2 & Hys2 & ->). cbn [concat].
        unfold guard_ok in HG2. destruct (guard_parts G2) as [[cnd2 fx2]|] eqn:HGp2; [|discriminate HG2].
        apply andb_prop in HG2 as [HG2 Hk42]. apply andb_prop in HG2 as [HG2 _]. apply andb_prop in HG2 as [_ Hfc2].
        destruct (frag_fexpr pv sv bound fl k sc fx2) as [K2|] eqn:Hff2; [|discriminate Hk42].
        destruct (L_guard pv sv bound u g (fun g' _ fl0 => L_expr_all pv sv bound u fl0 g') (fun g' _ fl0 => L_fexpr_all pv sv bound u fl0 g')
                          fl k G2 cnd2 fx2 _ ctx c1 y2 c2 sc l0 HGp2 Hy2 Hfc2 Hff2) as (bg & lg & Hsg).
        destruct (IH2 Hgs2 ys2 c2 Hys2 lg) as (b3 & l3 & Hs3). eexists _, _. eapply cshape_app; eassumption. }
    destruct (HLr l) as (_ & _ & (_ & Hc1c' & _)).
    destruct m as [|m1]; [cbn in Hev; inversion Hev; subst; destruct Hint|].
    cbn [SyltSem.exec_block] in Hev. unfold SyltSem.bind at 1 in Hev.
    destruct (SyltSem.exec m1 e G st) as [r1 st1] eqn:He1.
    assert (Hi1 : interesting r1).
    { destruct r1 as [e1|o|cc]; [exact I | inversion Hev; subst; exact Hint | inversion Hev; subst; exact Hint]. }
    assert (Hctx1 : ctx_ok l F E c c1) by (eapply ctx_sub; [exact Hctx | lia | lia]).
    destruct (P_guard m1 ka kr (fun m' H => IHe m' ltac:(lia)) (fun m' H => IHF m' ltac:(lia)) g k G cnd gfx ctx c y c1 e st r1 st1 sc l E stL F
                HGp He1 Hy Hfc Hnc Hff Hnf Huy Hctx1 Hrel Hi1) as (b1 & l1 & Hs1 & Hp1).
    destruct r1 as [e1|o|cc].
    + destruct Hp1 as (-> & E1 & stL1 & F1 & Hok1).
      pose proof Hok1 as (Hx1 & Hf1 & Hrel1 & Hn1 & Hk1).
      assert (Hctx2 : ctx_ok l1 F1 E1 c1 c') by (eapply (ctx_after pv sv bound u fl W); eassumption).
      destruct (IHg m1 (fun m' H => IHe m' ltac:(lia)) (fun m' H => IHF m' ltac:(lia)) g k ctx c1 ys c' e st1 r st' sc l1 E1 stL1 F1
                  Hev Hys Hgs Huys Hctx2 Hrel1 Hint) as (b2 & l2 & Hs2 & Hp2).
      eexists _, _. split; [eapply cshape_app; eassumption|].
      destruct r as [e2|o|cc].
      * destruct Hp2 as (-> & E2 & stL2 & F2 & Hok2). split; [reflexivity|]. exists E2, stL2, F2.
        eapply (okstep_trans pv sv bound u fl W); [exact Hok1 | exact Hok2 | lia | lia].
      * destruct Hp2 as (ev & stL' & Hx2 & Htr). exists ev, stL'. split; [eapply ExecS_app; eassumption | exact Htr].
      * destruct cc as [| |v]; try contradiction.
        destruct Hp2 as (W1 & E' & Er & stL' & lv & Hw1 & Hx2 & Hv & Hr2 & Hk2 & Hn2).
        exists W1, E', Er, stL', lv. splits; [exact Hw1 | eapply ExecS_app; eassumption | exact Hv | exact Hr2 | eapply keep_trans; eassumption |].
        pose proof (wr_ncell _ _ _ _ _ _ _ Hf1). lia.
    + inversion Hev; subst r st'. destruct (HLr l1) as (b2 & l2 & Hs2).
      eexists _, _. split; [eapply cshape_app; eassumption|].
      destruct Hp1 as (ev & stL' & Hx1 & Htr). exists ev, stL'. split; [apply ExecS_app_stop; [exact Hx1 | intros []] | exact Htr].
    + inversion Hev; subst r st'. destruct (HLr l1) as (b2 & l2 & Hs2).
      eexists _, _. split; [eapply cshape_app; eassumption|].
      destruct cc as [| |v]; try contradiction.
      destruct Hp1 as (W1 & E' & Er & stL' & lv & Hw1 & Hx1 & Hrest).
      exists W1, E', Er, stL', lv. split; [exact Hw1|]. split; [apply ExecS_app_stop; [exact Hx1 | intros []] | exact Hrest].
Qed.

End Body.

