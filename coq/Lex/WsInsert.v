(* C14, lexer level, whole input: white space inserted at a token boundary does not change the tokens.
   (spaces, tabs, carriage returns: CRLF vs LF, trailing white space, indentation, tabs vs spaces)

   Additive: no definition of Regex.v / Logos.v / LayoutProofs.v is changed.

   How.  After at least one character, the set of live patterns of [scan] is of one of five kinds:
   every live regex is free of white-space characters (then a white-space character kills them all), the set
   after a single `/`, or exactly the inside of a string, of a comment, of a white-space run (then a white-space
   character leaves the set as it is).  So reading ahead over inserted white space either stops the scan - with
   the answer it had - or goes on exactly as without it, shifted. *)
From Coq Require Import String List NArith Bool Arith Lia.
From Sylt Require Import Lex.Regex Lex.Logos Lex.RegexProofs Lex.LexerProofs Lex.LayoutProofs.
Import ListNotations.
Local Open Scope N_scope.

(* ------------------------------------------------------------------------------------------- *)
(* regexes without white-space characters *)

Definition ws3 (f : N -> bool) : bool := f 9 || f 13 || f 32.

Fixpoint wsfreeb (r : re) : bool :=
  match r with
  | RNone | REps => true
  | RSet neg rs => negb (ws3 (set_mem neg rs))
  | RCat a b | RAlt a b => wsfreeb a && wsfreeb b
  | RStar a => wsfreeb a
  end.

Lemma is_ws_cases w : is_ws_char w = true -> w = 32 \/ w = 9 \/ w = 13.
Proof.
  unfold is_ws_char. intros H. apply orb_prop in H. destruct H as [H|H]; [apply orb_prop in H; destruct H as [H|H]|];
    apply N.eqb_eq in H; auto.
Qed.

Lemma wsfree_cat a b : wsfreeb a = true -> wsfreeb b = true -> wsfreeb (cat a b) = true.
Proof. intros Ha Hb. destruct a, b; cbn [cat wsfreeb] in *; try reflexivity; try assumption; rewrite ?Ha, ?Hb; reflexivity. Qed.

Lemma wsfree_alt a b : wsfreeb a = true -> wsfreeb b = true -> wsfreeb (alt a b) = true.
Proof. intros Ha Hb. destruct a, b; cbn [alt wsfreeb] in *; try reflexivity; try assumption; rewrite ?Ha, ?Hb; reflexivity. Qed.

Lemma wsfree_deriv c r : wsfreeb r = true -> wsfreeb (deriv c r) = true.
Proof.
  induction r as [| |neg rs|a IHa b IHb|a IHa b IHb|a IHa]; intros H; cbn [deriv wsfreeb] in *; try reflexivity.
  - destruct (set_mem neg rs c); reflexivity.
  - apply andb_prop in H. destruct H as [Ha Hb].
    destruct (nullable a); [apply wsfree_alt|]; try (apply wsfree_cat; [apply IHa; exact Ha|exact Hb]). apply IHb. exact Hb.
  - apply andb_prop in H. destruct H as [Ha Hb]. apply wsfree_alt; [apply IHa|apply IHb]; assumption.
  - apply wsfree_cat; [apply IHa; exact H|cbn [wsfreeb]; exact H].
Qed.

Lemma cat_none_l b : cat RNone b = RNone.
Proof. reflexivity. Qed.

Lemma wsfree_dead w r : is_ws_char w = true -> wsfreeb r = true -> deriv w r = RNone.
Proof.
  intros Hw. induction r as [| |neg rs|a IHa b IHb|a IHa b IHb|a IHa]; intros H; cbn [deriv wsfreeb] in *; try reflexivity.
  - apply negb_true_iff in H. unfold ws3 in H. apply orb_false_elim in H. destruct H as [H H32].
    apply orb_false_elim in H. destruct H as [H9 H13].
    destruct (is_ws_cases w Hw) as [->|[->| ->]]; rewrite ?H9, ?H13, ?H32; reflexivity.
  - apply andb_prop in H. destruct H as [Ha Hb]. rewrite (IHa Ha). cbn [cat].
    destruct (nullable a); [rewrite (IHb Hb); reflexivity|reflexivity].
  - apply andb_prop in H. destruct H as [Ha Hb]. rewrite (IHa Ha), (IHb Hb). reflexivity.
  - rewrite (IHa H). reflexivity.
Qed.

(* ---- live sets ---- *)

Definition allw (l : live) : bool := forallb (fun e => wsfreeb (snd e)) l.

Lemma step_live_app c l1 l2 : step_live c (l1 ++ l2) = step_live c l1 ++ step_live c l2.
Proof. unfold step_live. apply flat_map_app. Qed.

Lemma allw_step c l : allw l = true -> allw (step_live c l) = true.
Proof.
  induction l as [|[p r] l IH]; intros H; [reflexivity|]. cbn [allw forallb snd] in H. apply andb_prop in H.
  destruct H as [Hr Hl]. change ((p, r) :: l) with ([(p, r)] ++ l). rewrite step_live_app.
  unfold allw. rewrite forallb_app. fold (allw (step_live c l)). rewrite (IH Hl), andb_true_r.
  unfold step_live. cbn [flat_map fst snd app]. pose proof (wsfree_deriv c r Hr) as Hd.
  destruct (is_none (deriv c r)); cbn [app forallb snd]; [reflexivity|rewrite Hd; reflexivity].
Qed.

Lemma allw_ws_dead w l : is_ws_char w = true -> allw l = true -> step_live w l = [].
Proof.
  intros Hw. induction l as [|[p r] l IH]; intros H; [reflexivity|]. cbn [allw forallb snd] in H. apply andb_prop in H.
  destruct H as [Hr Hl]. unfold step_live in *. cbn [flat_map fst snd]. rewrite (wsfree_dead w r Hw Hr). cbn [is_none app].
  apply IH. exact Hl.
Qed.

Lemma allw_app l1 l2 : allw (l1 ++ l2) = allw l1 && allw l2.
Proof. unfold allw. apply forallb_app. Qed.

(* ------------------------------------------------------------------------------------------- *)
(* the three families of patterns that do contain white space: strings, comments, white space *)

Definition NQ : re := RSet true [(34, 34)].
Definition Q : re := RSet false [(34, 34)].
Definition S0 : re := RCat Q (RCat (RStar NQ) Q).
Definition Sin : re := RCat (RStar NQ) Q.
Definition NN : re := RSet true [(10, 10)].
Definition S47 : re := RSet false [(47, 47)].
Definition C0 : re := RCat (RCat S47 S47) (RStar NN).
Definition C1 : re := RCat S47 (RStar NN).
Definition D2 : re := RStar NN.
Definition WSs : re := RSet false [(9, 9); (13, 13); (32, 32)].
Definition W0 : re := RCat WSs (RStar WSs).
Definition W1 : re := RStar WSs.

Lemma range1 c k : c <> k -> (k <=? c) && (c <=? k) = false.
Proof.
  intros H. destruct (k <=? c) eqn:A, (c <=? k) eqn:B; try reflexivity.
  apply N.leb_le in A. apply N.leb_le in B. exfalso. apply H. lia.
Qed.

Lemma mem1 neg k c : set_mem neg [(k, k)] c = xorb neg (c =? k).
Proof.
  unfold set_mem, in_ranges. cbn [existsb fst snd]. rewrite orb_false_r. f_equal.
  destruct (N.eqb_spec c k) as [->|H]; [rewrite !N.leb_refl; reflexivity|apply range1; exact H].
Qed.

Lemma deriv_S0 c : deriv c S0 = if c =? 34 then Sin else RNone.
Proof. unfold S0, Q. cbn [deriv nullable]. rewrite mem1. cbn [xorb]. destruct (c =? 34); reflexivity. Qed.

Lemma deriv_Sin c : deriv c Sin = if c =? 34 then REps else Sin.
Proof.
  unfold Sin, NQ, Q. cbn [deriv nullable]. rewrite !mem1. cbn [xorb].
  destruct (c =? 34); reflexivity.
Qed.

Lemma deriv_C0 c : deriv c C0 = if c =? 47 then C1 else RNone.
Proof. unfold C0, S47. cbn [deriv nullable andb]. rewrite mem1. cbn [xorb]. destruct (c =? 47); reflexivity. Qed.

Lemma deriv_C1 c : deriv c C1 = if c =? 47 then D2 else RNone.
Proof. unfold C1, S47. cbn [deriv nullable]. rewrite mem1. cbn [xorb]. destruct (c =? 47); reflexivity. Qed.

Lemma deriv_D2 c : deriv c D2 = if c =? 10 then RNone else D2.
Proof. unfold D2, NN. cbn [deriv]. rewrite mem1. cbn [xorb]. destruct (c =? 10); reflexivity. Qed.

Lemma mem_ws c : set_mem false [(9, 9); (13, 13); (32, 32)] c = is_ws_char c.
Proof.
  unfold set_mem, in_ranges, is_ws_char. cbn [existsb fst snd xorb]. rewrite orb_false_r.
  destruct (N.eqb_spec c 9) as [->|H9]; [reflexivity|]. rewrite (range1 c 9 H9).
  destruct (N.eqb_spec c 13) as [->|H13]; [reflexivity|]. rewrite (range1 c 13 H13).
  destruct (N.eqb_spec c 32) as [->|H32]; [reflexivity|]. rewrite (range1 c 32 H32). reflexivity.
Qed.

Lemma deriv_W0 c : deriv c W0 = if is_ws_char c then W1 else RNone.
Proof. unfold W0, WSs. cbn [deriv nullable]. rewrite mem_ws. destruct (is_ws_char c); reflexivity. Qed.

Lemma deriv_W1 c : deriv c W1 = if is_ws_char c then W1 else RNone.
Proof. unfold W1, WSs. cbn [deriv]. rewrite mem_ws. destruct (is_ws_char c); reflexivity. Qed.

Lemma ws_not c k : is_ws_char c = true -> k <> 32 -> k <> 9 -> k <> 13 -> (c =? k) = false.
Proof. intros H A B D. destruct (is_ws_cases c H) as [->|[->| ->]]; apply N.eqb_neq; congruence. Qed.

Local Close Scope N_scope.

(* ------------------------------------------------------------------------------------------- *)
(* kinds and payloads of the tokens that are not skipped, on raw tokens; the text of a comment is erased *)

Definition erase_c (k : string) (pl : payload) : payload :=
  if String.eqb k "Comment" then match pl with PText _ => PText [] | _ => pl end else pl.

Definition rk (r : rtoken) : option (string * payload) :=
  match r_kind r with
  | KSkip => None
  | KTok k pl => Some (k, erase_c k pl)
  | KError => Some (error_kind, PNone)
  end.

Fixpoint rks (rs : list rtoken) : list (string * payload) :=
  match rs with
  | [] => []
  | r :: rs' => match rk r with Some x => x :: rks rs' | None => rks rs' end
  end.

(* all tokens, comments too (without their text): what the parser is given depends on this only *)
Definition ckinds (ts : list ptoken) : list (string * payload) :=
  map (fun p => (t_kind p, erase_c (t_kind p) (t_pl p))) ts.

Definition dropc (l : list (string * payload)) : list (string * payload) :=
  filter (fun x => negb (String.eqb (fst x) "Comment")) l.

Lemma ckinds_place rs : forall st, ckinds (place st rs) = rks rs.
Proof.
  induction rs as [|r rs IH]; intros st; [reflexivity|].
  cbn [place rks]. unfold rk. destruct (r_kind r) as [k pl| |].
  - unfold ckinds. cbn [map t_kind t_pl]. f_equal. apply IH.
  - apply IH.
  - unfold ckinds. cbn [map t_kind t_pl]. f_equal. apply IH.
Qed.

Lemma kinds_ckinds ts : kinds ts = dropc (ckinds ts).
Proof.
  induction ts as [|p ts IH]; [reflexivity|]. unfold kinds, ckinds, dropc in *. cbn [map filter fst].
  unfold erase_c at 1. destruct (String.eqb (t_kind p) "Comment"); cbn [negb map]; [exact IH|]. f_equal. exact IH.
Qed.

Lemma kinds_place rs st : kinds (place st rs) = dropc (rks rs).
Proof. rewrite kinds_ckinds, ckinds_place. reflexivity. Qed.

Lemma ws_span s : exists ws2 z, s = ws2 ++ z /\ forallb is_ws_char ws2 = true /\
  match z with [] => True | c :: _ => is_ws_char c = false end.
Proof.
  induction s as [|c s (ws2 & z & E & H & Hz)]; [exists [], []; repeat split|].
  destruct (is_ws_char c) eqn:Ec.
  - exists (c :: ws2), z. subst s. repeat split; [cbn [forallb]; rewrite Ec, H; reflexivity|exact Hz].
  - exists [], (c :: s). repeat split. exact Ec.
Qed.

Lemma firstn_app_le {A} n (a b : list A) : n <= length a -> firstn n (a ++ b) = firstn n a.
Proof. intros H. rewrite firstn_app. replace (n - length a) with 0 by lia. cbn [firstn]. apply app_nil_r. Qed.

Lemma skipn_app_len {A} (a b : list A) : skipn (length a) (a ++ b) = b.
Proof. induction a; [reflexivity|exact IHa]. Qed.


(* ------------------------------------------------------------------------------------------- *)
(* re-spacing: white space after any of the tokens, other white space where there was some *)

Definition is_skip (r : rtoken) : bool := match r_kind r with KSkip => true | _ => false end.

Definition starts_ws (s : list N) : Prop := match s with c :: _ => is_ws_char c = true | [] => False end.

(* the new text of a token: a skipped token (white space) is replaced by [u], any other token is followed by [u] *)
Definition nt (ru : rtoken * list N) : list N :=
  if is_skip (fst ru) then snd ru else r_text (fst ru) ++ snd ru.

Definition weave (rus : list (rtoken * list N)) : list N := concat (map nt rus).

Definition u_ok (ru : rtoken * list N) : Prop :=
  forallb is_ws_char (snd ru) = true /\ (is_skip (fst ru) = true -> snd ru <> []).

Definition tok_sane (r : rtoken) : Prop :=
  r_text r <> [] /\ (is_skip r = true -> forallb is_ws_char (r_text r) = true).

(* the old and the new text have a common prefix, after which both end or the new one goes on with white space *)
Definition agree (y y' : list N) : Prop :=
  exists p rest rest', y = p ++ rest /\ y' = p ++ rest' /\
    ((rest = [] /\ rest' = []) \/ (starts_ws rest' /\ (p = [] -> starts_ws rest))).

Lemma weave_agree : forall rus, Forall u_ok rus -> Forall tok_sane (map fst rus) ->
  agree (concat (map r_text (map fst rus))) (weave rus).
Proof.
  induction rus as [|[r u] tl IH]; intros Hu Hs.
  { exists [], [], []. repeat split. left. split; reflexivity. }
  inversion Hu as [|? ? [Hu1 Hu2] Hu']; subst. cbn [map fst] in Hs. inversion Hs as [|? ? [Hx Hsk] Hs']; subst.
  cbn [fst snd] in *. specialize (IH Hu' Hs'). unfold weave. cbn [map concat fst]. unfold nt at 1. cbn [fst snd].
  fold (weave tl). destruct (is_skip r) eqn:Esk.
  - exists [], (r_text r ++ concat (map r_text (map fst tl))), (u ++ weave tl). repeat split. right. split.
    + destruct u as [|w u']; [exfalso; apply (Hu2 eq_refl); reflexivity|]. cbn [forallb] in Hu1.
      apply andb_prop in Hu1. exact (proj1 Hu1).
    + intros _. specialize (Hsk eq_refl). destruct (r_text r) as [|c x']; [congruence|]. cbn [forallb] in Hsk.
      apply andb_prop in Hsk. exact (proj1 Hsk).
  - destruct u as [|w u'].
    + destruct IH as (p & rest & rest' & E & E' & D). exists (r_text r ++ p), rest, rest'.
      rewrite E, E', app_nil_r, !app_assoc. repeat split.
      destruct D as [D|[D1 D2]]; [left; exact D|right; split; [exact D1|]].
      intros X. apply app_eq_nil in X. destruct X as [X _]. congruence.
    + exists (r_text r), (concat (map r_text (map fst tl))), ((w :: u') ++ weave tl). rewrite <- app_assoc. repeat split.
      right. split; [cbn [forallb] in Hu1; apply andb_prop in Hu1; exact (proj1 Hu1)|]. intros X. congruence.
Qed.

Lemma map_fst_combine {A B} : forall (a : list A) (b : list B), length b = length a -> map fst (combine a b) = a.
Proof.
  induction a as [|x a IH]; intros b H; [reflexivity|]. destruct b as [|y b]; [discriminate H|].
  cbn [combine map fst]. f_equal. apply IH. cbn [length] in H. lia.
Qed.

(* ---- CRLF line ends ---- *)
Definition crlf (s : list N) : list N := flat_map (fun c => if (c =? 10)%N then [13%N; 10%N] else [c]) s.

Definition is_nl_tok (r : rtoken) : bool := eqb_list (r_text r) [10%N].
Definition cr_before (rs : list rtoken) : list N :=
  match rs with r :: _ => if is_nl_tok r then [13%N] else [] | [] => [] end.
Fixpoint cr_us (rs : list rtoken) : list (list N) :=
  match rs with
  | [] => []
  | r :: rs' => ((if is_skip r then r_text r else []) ++ cr_before rs') :: cr_us rs'
  end.
(* no line break inside a token (a string, or a piece of text that is no token) *)
Definition nl_alone (r : rtoken) : bool := is_nl_tok r || negb (existsb (N.eqb 10) (r_text r)).

Lemma eqb_list_eq : forall a b, eqb_list a b = true -> a = b.
Proof.
  induction a as [|x a IH]; intros [|y b] H; cbn [eqb_list] in H; try discriminate H; [reflexivity|].
  apply andb_prop in H. destruct H as [H1 H2]. apply N.eqb_eq in H1. subst y. f_equal. apply IH. exact H2.
Qed.

Lemma crlf_no_nl x : existsb (N.eqb 10) x = false -> crlf x = x.
Proof.
  induction x as [|c x IH]; intros H; [reflexivity|]. cbn [existsb] in H. apply orb_false_elim in H. destruct H as [H1 H2].
  unfold crlf. cbn [flat_map]. fold (crlf x). rewrite (IH H2). rewrite N.eqb_sym in H1. rewrite H1. reflexivity.
Qed.

Lemma crlf_weave : forall rs, forallb nl_alone rs = true ->
  crlf (concat (map r_text rs)) = cr_before rs ++ weave (combine rs (cr_us rs)).
Proof.
  induction rs as [|r rs IH]; intros H; [reflexivity|]. cbn [forallb] in H. apply andb_prop in H. destruct H as [H1 H2].
  cbn [map concat cr_us combine]. unfold weave. cbn [map concat]. fold (weave (combine rs (cr_us rs))).
  unfold crlf. rewrite flat_map_app. fold (crlf (r_text r)). fold (crlf (concat (map r_text rs))). rewrite (IH H2).
  assert (X : nt (r, (if is_skip r then r_text r else []) ++ cr_before rs) = r_text r ++ cr_before rs).
  { unfold nt. cbn [fst snd]. destruct (is_skip r); reflexivity. }
  rewrite X. rewrite <- !app_assoc. cbn [cr_before]. unfold nl_alone in H1.
  destruct (is_nl_tok r) eqn:En.
  - unfold is_nl_tok in En. apply eqb_list_eq in En. rewrite En. reflexivity.
  - cbn [orb] in H1. apply negb_true_iff in H1. rewrite (crlf_no_nl _ H1). reflexivity.
Qed.

Lemma cr_us_length rs : length (cr_us rs) = length rs.
Proof. induction rs as [|r rs IH]; [reflexivity|]. cbn [cr_us length]. rewrite IH. reflexivity. Qed.

Lemma cr_us_ok : forall rs, Forall tok_sane rs -> Forall u_ok (combine rs (cr_us rs)).
Proof.
  induction rs as [|r rs IH]; intros H; [constructor|]. inversion H as [|? ? [Hx Hsk] H']; subst.
  cbn [cr_us combine]. constructor; [|apply IH; exact H']. split; cbn [fst snd].
  - rewrite forallb_app. apply andb_true_intro. split.
    + destruct (is_skip r); [apply Hsk; reflexivity|reflexivity].
    + unfold cr_before. destruct rs as [|r2 rs2]; [reflexivity|]. destruct (is_nl_tok r2); reflexivity.
  - intros E. rewrite E. intros X. apply app_eq_nil in X. destruct X as [X _]. exact (Hx X).
Qed.

(* ------------------------------------------------------------------------------------------- *)
(* regexes without the line-break character (for the insertion of a blank line) *)

Fixpoint nlfreeb (r : re) : bool :=
  match r with
  | RNone | REps => true
  | RSet neg rs => negb (set_mem neg rs 10%N)
  | RCat a b | RAlt a b => nlfreeb a && nlfreeb b
  | RStar a => nlfreeb a
  end.

Lemma nlfree_cat a b : nlfreeb a = true -> nlfreeb b = true -> nlfreeb (cat a b) = true.
Proof. intros Ha Hb. destruct a, b; cbn [cat nlfreeb] in *; try reflexivity; try assumption; rewrite ?Ha, ?Hb; reflexivity. Qed.

Lemma nlfree_alt a b : nlfreeb a = true -> nlfreeb b = true -> nlfreeb (alt a b) = true.
Proof. intros Ha Hb. destruct a, b; cbn [alt nlfreeb] in *; try reflexivity; try assumption; rewrite ?Ha, ?Hb; reflexivity. Qed.

Lemma nlfree_deriv c r : nlfreeb r = true -> nlfreeb (deriv c r) = true.
Proof.
  induction r as [| |neg rs|a IHa b IHb|a IHa b IHb|a IHa]; intros H; cbn [deriv nlfreeb] in *; try reflexivity.
  - destruct (set_mem neg rs c); reflexivity.
  - apply andb_prop in H. destruct H as [Ha Hb].
    destruct (nullable a); [apply nlfree_alt|]; try (apply nlfree_cat; [apply IHa; exact Ha|exact Hb]). apply IHb. exact Hb.
  - apply andb_prop in H. destruct H as [Ha Hb]. apply nlfree_alt; [apply IHa|apply IHb]; assumption.
  - apply nlfree_cat; [apply IHa; exact H|cbn [nlfreeb]; exact H].
Qed.

Lemma nlfree_dead r : nlfreeb r = true -> deriv 10%N r = RNone.
Proof.
  induction r as [| |neg rs|a IHa b IHb|a IHa b IHb|a IHa]; intros H; cbn [deriv nlfreeb] in *; try reflexivity.
  - apply negb_true_iff in H. rewrite H. reflexivity.
  - apply andb_prop in H. destruct H as [Ha Hb]. rewrite (IHa Ha). cbn [cat].
    destruct (nullable a); [rewrite (IHb Hb); reflexivity|reflexivity].
  - apply andb_prop in H. destruct H as [Ha Hb]. rewrite (IHa Ha), (IHb Hb). reflexivity.
  - rewrite (IHa H). reflexivity.
Qed.

(* the pattern of the line break itself *)
Definition NLset : re := RSet false [(10%N, 10%N)].
Definition is_nlset (r : re) : bool :=
  match r with
  | RSet false [(a, b)] => N.eqb a 10 && N.eqb b 10
  | _ => false
  end.

Definition n1 (l : live) : bool := forallb (fun e => nlfreeb (snd e)) l.
Definition n0 (l : live) : bool := forallb (fun e => nlfreeb (snd e) || is_nlset (snd e)) l.

Lemma is_nlset_deriv c r : is_nlset r = true -> nlfreeb (deriv c r) = true.
Proof.
  destruct r as [| |neg rs| | |]; try discriminate. destruct neg; try discriminate.
  destruct rs as [|[a b] rs]; try discriminate. destruct rs; try discriminate.
  intros _. cbn [deriv]. destruct (set_mem false [(a, b)] c); reflexivity.
Qed.

Lemma n1_app l1 l2 : n1 (l1 ++ l2) = n1 l1 && n1 l2.
Proof. unfold n1. apply forallb_app. Qed.

Lemma n1_step c l : n1 l = true -> n1 (step_live c l) = true.
Proof.
  induction l as [|[p r] l IH]; intros H; [reflexivity|]. cbn [n1 forallb snd] in H. apply andb_prop in H.
  destruct H as [Hr Hl]. change ((p, r) :: l) with ([(p, r)] ++ l). rewrite step_live_app, n1_app, (IH Hl), andb_true_r.
  unfold step_live. cbn [flat_map fst snd app]. pose proof (nlfree_deriv c r Hr) as Hd.
  rewrite app_nil_r. destruct (is_none (deriv c r)); unfold n1; cbn [forallb snd]; [reflexivity|rewrite Hd; reflexivity].
Qed.

Lemma n0_step c l : n0 l = true -> n1 (step_live c l) = true.
Proof.
  induction l as [|[p r] l IH]; intros H; [reflexivity|]. cbn [n0 forallb snd] in H. apply andb_prop in H.
  destruct H as [Hr Hl]. change ((p, r) :: l) with ([(p, r)] ++ l). rewrite step_live_app, n1_app, (IH Hl), andb_true_r.
  unfold step_live. cbn [flat_map fst snd app].
  assert (Hd : nlfreeb (deriv c r) = true).
  { apply orb_prop in Hr. destruct Hr as [Hr|Hr]; [apply nlfree_deriv; exact Hr|apply is_nlset_deriv; exact Hr]. }
  rewrite app_nil_r. destruct (is_none (deriv c r)); unfold n1; cbn [forallb snd]; [reflexivity|rewrite Hd; reflexivity].
Qed.

Lemma n1_dead10 l : n1 l = true -> step_live 10%N l = [].
Proof.
  induction l as [|[p r] l IH]; intros H; [reflexivity|]. cbn [n1 forallb snd] in H. apply andb_prop in H.
  destruct H as [Hr Hl]. unfold step_live in *. cbn [flat_map fst snd]. rewrite (nlfree_dead r Hr). cbn [is_none app].
  apply IH. exact Hl.
Qed.

(* after the line-break character itself nothing goes on *)
Lemma n0_after10 l c : n0 l = true -> step_live c (step_live 10%N l) = [].
Proof.
  induction l as [|[p r] l IH]; intros H; [reflexivity|]. cbn [n0 forallb snd] in H. apply andb_prop in H.
  destruct H as [Hr Hl]. change ((p, r) :: l) with ([(p, r)] ++ l). rewrite !step_live_app, (IH Hl), app_nil_r.
  apply orb_prop in Hr. destruct Hr as [Hr|Hr].
  - unfold step_live at 2. cbn [flat_map fst snd app]. rewrite (nlfree_dead r Hr). reflexivity.
  - destruct r as [| |neg rs| | |]; try discriminate. destruct neg; try discriminate.
    destruct rs as [|[a b] rs]; try discriminate. destruct rs; try discriminate.
    cbn [is_nlset] in Hr. apply andb_prop in Hr. destruct Hr as [Ha Hb]. apply N.eqb_eq in Ha. apply N.eqb_eq in Hb. subst a b.
    reflexivity.
Qed.

Lemma scan_state_app a : forall rest l n best viable,
  scan_state l (a ++ rest) n best viable =
  match scan_state l a n best viable with
  | Done b v => Done b v
  | Alive l' n' b' v' => scan_state l' rest n' b' v'
  end.
Proof.
  induction a as [|c a IH]; intros rest l n best viable; [reflexivity|].
  cbn [app scan_state]. destruct (step_live c l) as [|x l'] eqn:E; [reflexivity|]. apply IH.
Qed.

(* ------------------------------------------------------------------------------------------- *)
(* a table whose patterns are white-space free except one string, one comment and one white-space pattern of the
   shapes above (checked by computation for the regenerated table, see Props/C14.v) *)

Section Table.
Variable t : table.
Variables pS pC pW : pat.
Variables E1 E2 : live.
Hypothesis H_L0 : start_live t = E1 ++ [(pS, S0)] ++ E2 ++ [(pC, C0); (pW, W0)].
Hypothesis H_E1 : allw E1 = true.
Hypothesis H_E2 : allw E2 = true.
Hypothesis H_34 : step_live 34 E1 = [] /\ step_live 34 E2 = [].
Hypothesis H_47 : step_live 47 (step_live 47 E1 ++ step_live 47 E2) = [].
Hypothesis H_cbW : p_cb pW = CbSkip.
Hypothesis H_cbC : p_cb pC = CbComment /\ p_kind pC = "Comment"%string.

Definition LS : live := [(pS, Sin)].
Definition LSe : live := [(pS, REps)].
Definition A1 : live := step_live 47 E1 ++ step_live 47 E2.
Definition L1 : live := A1 ++ [(pC, C1)].
Definition LC : live := [(pC, D2)].
Definition LW : live := [(pW, W1)].

Lemma step_one c p r : step_live c [(p, r)] = if is_none (deriv c r) then [] else [(p, deriv c r)].
Proof. unfold step_live. cbn [flat_map fst snd]. rewrite app_nil_r. reflexivity. Qed.

Lemma step_LS c : step_live c LS = if (c =? 34)%N then LSe else LS.
Proof. unfold LS. rewrite step_one, deriv_Sin. destruct (c =? 34)%N; reflexivity. Qed.

Lemma step_LC c : step_live c LC = if (c =? 10)%N then [] else LC.
Proof. unfold LC. rewrite step_one, deriv_D2. destruct (c =? 10)%N; reflexivity. Qed.

Lemma step_LW c : step_live c LW = if is_ws_char c then LW else [].
Proof. unfold LW. rewrite step_one, deriv_W1. destruct (is_ws_char c); reflexivity. Qed.

Lemma allw_A1 : allw A1 = true.
Proof. unfold A1. rewrite allw_app, !allw_step by assumption. reflexivity. Qed.

Lemma step_L1 c : step_live c L1 = step_live c A1 ++ (if (c =? 47)%N then LC else []).
Proof. unfold L1. rewrite step_live_app, step_one, deriv_C1. destruct (c =? 47)%N; reflexivity. Qed.

Lemma step_L0 c : step_live c (start_live t) =
  step_live c E1 ++ (if (c =? 34)%N then LS else []) ++ step_live c E2
  ++ (if (c =? 47)%N then [(pC, C1)] else []) ++ (if is_ws_char c then LW else []).
Proof.
  rewrite H_L0. rewrite !step_live_app. change [(pC, C0); (pW, W0)] with ([(pC, C0)] ++ [(pW, W0)]).
  rewrite step_live_app, !step_one, deriv_S0, deriv_C0, deriv_W0.
  destruct (c =? 34)%N, (c =? 47)%N, (is_ws_char c); reflexivity.
Qed.

(* the live sets that occur after at least one character *)
Inductive cl : live -> Prop :=
| cl_w l : allw l = true -> cl l
| cl_S : cl LS
| cl_1 : cl L1
| cl_C : cl LC
| cl_W : cl LW.

Lemma cl_first c : cl (step_live c (start_live t)).
Proof.
  rewrite step_L0.
  destruct (N.eqb_spec c 34) as [->|N34].
  { destruct H_34 as [-> ->]. change (47 =? 34)%N with false || idtac.
    replace (34 =? 47)%N with false by reflexivity. replace (is_ws_char 34) with false by reflexivity.
    cbn [app]. apply cl_S. }
  destruct (N.eqb_spec c 47) as [->|N47].
  { replace (is_ws_char 47) with false by reflexivity. cbn [app].
    rewrite app_assoc. apply cl_1. }
  destruct (is_ws_char c) eqn:Ew.
  { rewrite (allw_ws_dead c E1 Ew H_E1), (allw_ws_dead c E2 Ew H_E2). cbn [app]. apply cl_W. }
  cbn [app]. rewrite app_nil_r. apply cl_w. rewrite allw_app, !allw_step by assumption. reflexivity.
Qed.

Lemma cl_step c l : cl l -> cl (step_live c l).
Proof.
  intros [l' H| | | |].
  - apply cl_w. apply allw_step. exact H.
  - rewrite step_LS. destruct (c =? 34)%N; [apply cl_w; reflexivity|apply cl_S].
  - rewrite step_L1. destruct (N.eqb_spec c 47) as [->|N47].
    + replace (step_live 47 A1) with (@nil (pat * re)) by (symmetry; exact H_47). apply cl_C.
    + rewrite app_nil_r. apply cl_w. apply allw_step. apply allw_A1.
  - rewrite step_LC. destruct (c =? 10)%N; [apply cl_w; reflexivity|apply cl_C].
  - rewrite step_LW. destruct (is_ws_char c); [apply cl_W|apply cl_w; reflexivity].
Qed.

(* a white-space character: kills, or changes nothing *)
Lemma ws_L1 w : is_ws_char w = true -> step_live w L1 = [].
Proof.
  intros Hw. rewrite step_L1, (allw_ws_dead w A1 Hw allw_A1).
  rewrite (ws_not w 47 Hw) by discriminate. reflexivity.
Qed.

Lemma ws_LS w : is_ws_char w = true -> step_live w LS = LS.
Proof. intros Hw. rewrite step_LS, (ws_not w 34 Hw) by discriminate. reflexivity. Qed.

Lemma ws_LC w : is_ws_char w = true -> step_live w LC = LC.
Proof. intros Hw. rewrite step_LC, (ws_not w 10 Hw) by discriminate. reflexivity. Qed.

Lemma ws_LW w : is_ws_char w = true -> step_live w LW = LW.
Proof. intros Hw. rewrite step_LW, Hw. reflexivity. Qed.

(* ------------------------------------------------------------------------------------------- *)
(* scan *)

Definition shiftb (k n0 : nat) (b : option (nat * pat)) : option (nat * pat) :=
  match b with
  | Some (m, p) => Some ((if n0 <? m then m + k else m), p)
  | None => None
  end.

Lemma scan_shift : forall y l n b v k n0, n0 <= n ->
  scan l y (n + k) (shiftb k n0 b) (v + k) = (shiftb k n0 (fst (scan l y n b v)), snd (scan l y n b v) + k).
Proof.
  induction y as [|c y IH]; intros l n b v k n0 Hn; [reflexivity|]. cbn [scan].
  destruct (step_live c l) as [|e l'] eqn:E; [reflexivity|].
  replace (S (n + k)) with (S n + k) by lia.
  assert (X : match best_nullable (e :: l') None with Some p => Some (S n + k, p) | None => shiftb k n0 b end
              = shiftb k n0 (match best_nullable (e :: l') None with Some p => Some (S n, p) | None => b end)).
  { destruct (best_nullable (e :: l') None); [|reflexivity]. cbn [shiftb].
    replace (n0 <? S n) with true by (symmetry; apply Nat.ltb_lt; lia). reflexivity. }
  rewrite X. apply IH. lia.
Qed.

Lemma scan_mono : forall y l n b v,
  (snd (scan l y n b v) = v \/ n < snd (scan l y n b v)) /\
  (fst (scan l y n b v) = b \/ exists m p, fst (scan l y n b v) = Some (m, p) /\ n < m).
Proof.
  induction y as [|c y IH]; intros l n b v; [split; left; reflexivity|]. cbn [scan].
  destruct (step_live c l) as [|e l'] eqn:E; [split; left; reflexivity|].
  destruct (IH (e :: l') (S n) (match best_nullable (e :: l') None with Some p => Some (S n, p) | None => b end) (S n))
    as [[A|A] [B|(m & p & B & Hm)]].
  - split; [right; rewrite A; lia|].
    rewrite B. destruct (best_nullable (e :: l') None); [right; eexists; eexists; split; [reflexivity|lia]|left; reflexivity].
  - split; [right; rewrite A; lia|right; exists m, p; split; [exact B|lia]].
  - split; [right; lia|].
    rewrite B. destruct (best_nullable (e :: l') None); [right; eexists; eexists; split; [reflexivity|lia]|left; reflexivity].
  - split; [right; lia|right; exists m, p; split; [exact B|lia]].
Qed.

Lemma scan_dead w y l n b v : step_live w l = [] -> scan l (w :: y) n b v = (b, v).
Proof. intros H. cbn [scan]. rewrite H. reflexivity. Qed.

(* reading white space over a live set that white space leaves as it is *)
Lemma scan_ws_loop_none : forall ws l n b v y, l <> [] ->
  (forall w, is_ws_char w = true -> step_live w l = l) -> forallb is_ws_char ws = true ->
  best_nullable l None = None ->
  scan l (ws ++ y) n b v = scan l y (n + length ws) b (match ws with [] => v | _ => n + length ws end).
Proof.
  induction ws as [|w ws IH]; intros l n b v y Hl Hloop Hws Hbn; [cbn [app length]; rewrite Nat.add_0_r; reflexivity|].
  cbn [forallb] in Hws. apply andb_prop in Hws. destruct Hws as [Hw Hws].
  cbn [app scan]. rewrite (Hloop w Hw). destruct l as [|e l']; [congruence|]. rewrite Hbn.
  rewrite (IH (e :: l') (S n) b (S n) y Hl Hloop Hws Hbn). cbn [length].
  replace (S n + length ws) with (n + S (length ws)) by lia.
  destruct ws as [|w2 ws2]; [cbn [length]; replace (n + 1) with (S n) by lia|]; reflexivity.
Qed.

Lemma scan_ws_loop_some : forall ws l n b v y p, l <> [] ->
  (forall w, is_ws_char w = true -> step_live w l = l) -> forallb is_ws_char ws = true ->
  best_nullable l None = Some p ->
  scan l (ws ++ y) n b v
  = scan l y (n + length ws) (match ws with [] => b | _ => Some (n + length ws, p) end)
         (match ws with [] => v | _ => n + length ws end).
Proof.
  induction ws as [|w ws IH]; intros l n b v y p Hl Hloop Hws Hbn; [cbn [app length]; rewrite Nat.add_0_r; reflexivity|].
  cbn [forallb] in Hws. apply andb_prop in Hws. destruct Hws as [Hw Hws].
  cbn [app scan]. rewrite (Hloop w Hw). destruct l as [|e l']; [congruence|]. rewrite Hbn.
  rewrite (IH (e :: l') (S n) (Some (S n, p)) (S n) y p Hl Hloop Hws Hbn). cbn [length].
  replace (S n + length ws) with (n + S (length ws)) by lia.
  destruct ws as [|w2 ws2]; [cbn [length]; replace (n + 1) with (S n) by lia|]; reflexivity.
Qed.

(* ---- the state of the scan after a non-empty prefix ---- *)

Definition blt (b : option (nat * pat)) (n : nat) : Prop :=
  match b with Some (m, _) => m < n | None => True end.

(* the best so far is the accept at the current position, if there is one *)
Definition J (l : live) (n : nat) (b : option (nat * pat)) : Prop :=
  match best_nullable l None with
  | Some p => b = Some (n, p)
  | None => blt b n
  end.

Lemma J_next l n b : J l n b -> blt b (S n).
Proof.
  unfold J. destruct (best_nullable l None); [intros ->; cbn; lia|].
  destruct b as [[m p]|]; cbn; [lia|trivial].
Qed.

Lemma scan_state_inv : forall x l n b v, cl l -> J l n b -> v = n ->
  match scan_state l x n b v with
  | Done _ _ => True
  | Alive l' n' b' v' => cl l' /\ J l' n' b' /\ v' = n' /\ n' = n + length x
  end.
Proof.
  induction x as [|c x IH]; intros l n b v Hc Hj Hv; [cbn [scan_state length]; repeat split; try assumption; lia|].
  cbn [scan_state]. destruct (step_live c l) as [|e l'] eqn:E; [exact I|].
  rewrite <- E.
  pose proof (IH (step_live c l) (S n)
                (match best_nullable (step_live c l) None with Some p => Some (S n, p) | None => b end) (S n)
                (cl_step c l Hc)) as X.
  rewrite E in X |- *. rewrite <- E in X.
  assert (Hj' : J (step_live c l) (S n)
                  (match best_nullable (step_live c l) None with Some p => Some (S n, p) | None => b end)).
  { unfold J. destruct (best_nullable (step_live c l) None); [reflexivity|apply (J_next l n b Hj)]. }
  specialize (X Hj' eq_refl). rewrite E in X.
  destruct (scan_state (e :: l') x (S n) _ (S n)); [exact I|].
  destruct X as (A & B & D & F). repeat split; try assumption. cbn [length]. lia.
Qed.

Lemma scan_state_start c x :
  match scan_state (start_live t) (c :: x) 0 None 0 with
  | Done _ _ => True
  | Alive l' n' b' v' => cl l' /\ J l' n' b' /\ v' = n' /\ n' = S (length x)
  end.
Proof.
  cbn [scan_state]. destruct (step_live c (start_live t)) as [|e l'] eqn:E; [exact I|].
  pose proof (cl_first c) as Hc. rewrite E in Hc.
  assert (Hj : J (e :: l') 1 (match best_nullable (e :: l') None with Some p => Some (1, p) | None => None end)).
  { unfold J. destruct (best_nullable (e :: l') None); [reflexivity|exact I]. }
  pose proof (scan_state_inv x (e :: l') 1 _ 1 Hc Hj eq_refl) as X.
  destruct (scan_state (e :: l') x 1 _ 1); [exact I|].
  destruct X as (A & B & D & F). repeat split; try assumption.
Qed.

(* ------------------------------------------------------------------------------------------- *)
(* one token *)

Definition build (res : option (nat * pat) * nat) (s : list N) : rtoken :=
  match res with
  | (Some (n, p), _) =>
      let txt := firstn n s in
      match p_cb p with
      | CbSkip => mkR KSkip txt
      | cb => match run_callback cb txt with
              | Some pl => mkR (KTok (p_kind p) pl) txt
              | None => mkR KError txt
              end
      end
  | (None, v) => mkR KError (firstn (Nat.max 1 v) s)
  end.

Definition tlen (res : option (nat * pat) * nat) : nat :=
  match res with (Some (n, _), _) => n | (None, v) => Nat.max 1 v end.

Lemma next_raw_build s : next_raw t s = build (scan (start_live t) s 0 None 0) s.
Proof. unfold next_raw, build. destruct (scan (start_live t) s 0 None 0) as [[[n p]|] v]; reflexivity. Qed.

Lemma build_text res s : r_text (build res s) = firstn (tlen res) s.
Proof.
  destruct res as [[[n p]|] v]; cbn [build tlen]; [|reflexivity].
  destruct (p_cb p); try reflexivity; destruct (run_callback _ _); reflexivity.
Qed.

(* the token depends on the scan result and on the characters of the token only *)
Lemma build_ext res res' s s' :
  fst res' = fst res -> (fst res = None -> snd res' = snd res) ->
  firstn (tlen res) s = firstn (tlen res) s' -> build res' s' = build res s.
Proof.
  destruct res as [[[n p]|] v], res' as [b' v']; cbn [fst snd tlen build]; intros -> Hv E.
  - rewrite E. reflexivity.
  - rewrite (Hv eq_refl), E. reflexivity.
Qed.

(* what inserting white space after a non-empty prefix [x] does to the scan, when the original token lies within [x] *)
Inductive ws_effect (x ws y : list N) (Ro Rn : option (nat * pat) * nat) : Prop :=
| eff_same : fst Rn = fst Ro -> (fst Ro = None -> snd Rn = snd Ro) -> ws_effect x ws y Ro Rn
| eff_longer p : fst Ro = Some (length x, p) -> p = pC \/ p = pW ->
    fst Rn = Some (length x + length ws, p) -> ws_effect x ws y Ro Rn
| eff_eof : y = [] -> fst Ro = None -> snd Ro = length x -> Rn = (None, length x + length ws) ->
    ws_effect x ws y Ro Rn.

Lemma bn_LS : best_nullable LS None = None.
Proof. reflexivity. Qed.
Lemma bn_LC : best_nullable LC None = Some pC.
Proof. reflexivity. Qed.
Lemma bn_LW : best_nullable LW None = Some pW.
Proof. reflexivity. Qed.

Lemma scan_effect c x0 ws y : ws <> [] -> forallb is_ws_char ws = true ->
  tlen (scan (start_live t) ((c :: x0) ++ y) 0 None 0) <= length (c :: x0) ->
  ws_effect (c :: x0) ws y (scan (start_live t) ((c :: x0) ++ y) 0 None 0)
                           (scan (start_live t) ((c :: x0) ++ ws ++ y) 0 None 0).
Proof.
  intros Hne Hws Hlen. set (x := c :: x0) in *.
  rewrite (scan_app x y), (scan_app x (ws ++ y)) in *.
  pose proof (scan_state_start c x0) as St. fold x in St.
  destruct (scan_state (start_live t) x 0 None 0) as [b v|l n b v].
  { apply eff_same; [reflexivity|reflexivity]. }
  destruct St as (Hc & Hj & -> & Hn). assert (En : n = length x) by (unfold x; cbn [length]; exact Hn). clear Hn.
  destruct ws as [|w ws']; [congruence|]. cbn [forallb] in Hws. apply andb_prop in Hws. destruct Hws as [Hw Hws'].
  destruct (scan_mono y l n b n) as [Mv Mb].
  (* the original result, given that the token ends within x *)
  assert (Fb : fst (scan l y n b n) = b).
  { destruct Mb as [E|(m & p & E & Hm)]; [exact E|]. exfalso.
    destruct (scan l y n b n) as [bo vo]. cbn [fst] in E. subst bo. cbn [tlen] in Hlen. lia. }
  assert (Fv : fst (scan l y n b n) = None -> snd (scan l y n b n) = n).
  { intros E. destruct (scan l y n b n) as [bo vo]. cbn [fst snd] in *. rewrite E in Hlen. cbn [tlen] in Hlen. lia. }
  assert (DeadCase : step_live w l = [] -> ws_effect x (w :: ws') y (scan l y n b n) (scan l ((w :: ws') ++ y) n b n)).
  { intros Hd. cbn [app]. rewrite (scan_dead w (ws' ++ y) l n b n Hd). apply eff_same; cbn [fst snd]; [symmetry; exact Fb|].
    intros E. symmetry. apply Fv. exact E. }
  inversion Hc as [l' Hall El| | | |]; subst.
  - apply DeadCase. apply allw_ws_dead; assumption.
  - (* inside a string *)
    rewrite (scan_ws_loop_none (w :: ws') LS (length x) b (length x) y ltac:(discriminate)
               (fun w0 Hw0 => ws_LS w0 Hw0) ltac:(cbn [forallb]; rewrite Hw, Hws'; reflexivity) bn_LS).
    assert (Bp : shiftb (length (w :: ws')) (length x) b = b).
    { unfold J in Hj. rewrite bn_LS in Hj. destruct b as [[m p]|]; [|reflexivity]. cbn [blt] in Hj. cbn [shiftb].
      replace (length x <? m) with false by (symmetry; apply Nat.ltb_ge; lia). reflexivity. }
    replace (scan LS y (length x + length (w :: ws')) b (length x + length (w :: ws')))
      with (scan LS y (length x + length (w :: ws')) (shiftb (length (w :: ws')) (length x) b) (length x + length (w :: ws')))
      by (rewrite Bp; reflexivity).
    rewrite (scan_shift y LS (length x) b (length x) (length (w :: ws')) (length x) (Nat.le_refl _)).
    destruct (fst (scan LS y (length x) b (length x))) as [[m p]|] eqn:Eb.
    + apply eff_same; cbn [fst snd]; [|intros X; rewrite Eb in X; discriminate X].
      rewrite Eb, Fb. exact Bp.
    + (* no match at all: the unterminated string runs to the end of the input *)
      assert (Y : y = []).
      { destruct y as [|c1 y1]; [reflexivity|]. exfalso. specialize (Fv eq_refl). cbn [scan] in Fv.
        rewrite step_LS in Fv. destruct (c1 =? 34)%N.
        - destruct (scan_mono y1 LSe (S (length x)) (match best_nullable LSe None with Some p => Some (S (length x), p) | None => b end) (S (length x))) as [[A|A] _];
            unfold LSe in *; lia.
        - destruct (scan_mono y1 LS (S (length x)) (match best_nullable LS None with Some p => Some (S (length x), p) | None => b end) (S (length x))) as [[A|A] _];
            unfold LS in *; lia. }
      subst y. apply eff_eof; [reflexivity|exact Eb|apply Fv; reflexivity|].
      cbn [scan fst snd shiftb]. reflexivity.
  - apply DeadCase. apply ws_L1. exact Hw.
  - (* inside a comment *)
    unfold J in Hj. rewrite bn_LC in Hj. subst b.
    rewrite (scan_ws_loop_some (w :: ws') LC (length x) _ (length x) y pC ltac:(discriminate)
               (fun w0 Hw0 => ws_LC w0 Hw0) ltac:(cbn [forallb]; rewrite Hw, Hws'; reflexivity) bn_LC).
    assert (Bp : shiftb (length (w :: ws')) (length x - 1) (Some (length x, pC)) = Some (length x + length (w :: ws'), pC)).
    { cbn [shiftb]. replace (length x - 1 <? length x) with true by (symmetry; apply Nat.ltb_lt; unfold x; cbn [length]; lia). reflexivity. }
    rewrite <- Bp.
    rewrite (scan_shift y LC (length x) _ (length x) (length (w :: ws')) (length x - 1) ltac:(lia)).
    apply (eff_longer _ _ _ _ _ pC); [exact Fb|left; reflexivity|]. cbn [fst]. rewrite Fb. exact Bp.
  - (* inside a white-space run *)
    unfold J in Hj. rewrite bn_LW in Hj. subst b.
    rewrite (scan_ws_loop_some (w :: ws') LW (length x) _ (length x) y pW ltac:(discriminate)
               (fun w0 Hw0 => ws_LW w0 Hw0) ltac:(cbn [forallb]; rewrite Hw, Hws'; reflexivity) bn_LW).
    assert (Bp : shiftb (length (w :: ws')) (length x - 1) (Some (length x, pW)) = Some (length x + length (w :: ws'), pW)).
    { cbn [shiftb]. replace (length x - 1 <? length x) with true by (symmetry; apply Nat.ltb_lt; unfold x; cbn [length]; lia). reflexivity. }
    rewrite <- Bp.
    rewrite (scan_shift y LW (length x) _ (length x) (length (w :: ws')) (length x - 1) ltac:(lia)).
    apply (eff_longer _ _ _ _ _ pW); [exact Fb|right; reflexivity|]. cbn [fst]. rewrite Fb. exact Bp.
Qed.

(* ------------------------------------------------------------------------------------------- *)
(* a run of white space at the start of the input is one skipped token *)

Lemma step_L0_ws w : is_ws_char w = true -> step_live w (start_live t) = LW.
Proof.
  intros Hw. rewrite step_L0, (allw_ws_dead w E1 Hw H_E1), (allw_ws_dead w E2 Hw H_E2), Hw.
  rewrite (ws_not w 34 Hw), (ws_not w 47 Hw) by discriminate. reflexivity.
Qed.

Lemma scan_ws_run w ws z : is_ws_char w = true -> forallb is_ws_char ws = true ->
  match z with [] => True | c :: _ => is_ws_char c = false end ->
  scan (start_live t) ((w :: ws) ++ z) 0 None 0 = (Some (S (length ws), pW), S (length ws)).
Proof.
  intros Hw Hws Hz. cbn [app scan]. rewrite (step_L0_ws w Hw).
  change (scan LW (ws ++ z) 1 (Some (1, pW)) 1 = (Some (S (length ws), pW), S (length ws))).
  rewrite (scan_ws_loop_some ws LW 1 (Some (1, pW)) 1 z pW ltac:(discriminate) (fun w0 Hw0 => ws_LW w0 Hw0) Hws bn_LW).
  assert (X : scan LW z (1 + length ws) (Some (1 + length ws, pW)) (1 + length ws)
              = (Some (S (length ws), pW), S (length ws))).
  { destruct z as [|c z']; [reflexivity|]. apply scan_dead. rewrite step_LW, Hz. reflexivity. }
  destruct ws as [|w2 ws2]; exact X.
Qed.

Lemma next_raw_ws_run w ws z : is_ws_char w = true -> forallb is_ws_char ws = true ->
  match z with [] => True | c :: _ => is_ws_char c = false end ->
  next_raw t ((w :: ws) ++ z) = mkR KSkip (w :: ws).
Proof.
  intros Hw Hws Hz. unfold next_raw. rewrite (scan_ws_run w ws z Hw Hws Hz), H_cbW.
  change (S (length ws)) with (length (w :: ws)). rewrite firstn_app_len. reflexivity.
Qed.

(* ------------------------------------------------------------------------------------------- *)
(* raw_lex *)

Lemma next_raw_nonempty s : s <> [] -> r_text (next_raw t s) <> [].
Proof. intros H. apply (raw_ok_text_nonempty t s). apply next_raw_ok. exact H. Qed.

Lemma raw_lex_fuel2 : forall f f' s, length s <= f -> length s <= f' -> raw_lex f t s = raw_lex f' t s.
Proof.
  induction f as [|f IH]; intros f' s H H'.
  - destruct s; [destruct f'; reflexivity|cbn [length] in H; lia].
  - destruct s as [|c s']; [destruct f'; reflexivity|]. destruct f' as [|f']; [cbn [length] in H'; lia|]. cbn [raw_lex].
    assert (L : length (skipn (length (r_text (next_raw t (c :: s')))) (c :: s')) <= length s').
    { pose proof (next_raw_nonempty (c :: s') ltac:(discriminate)) as Hne.
      rewrite skipn_length. cbn [length]. destruct (r_text (next_raw t (c :: s'))); [congruence|cbn [length]; lia]. }
    cbn [length] in H, H'. f_equal. apply IH; lia.
Qed.

Lemma raw_lex_fuel f s : length s <= f -> raw_lex f t s = raw_lex (length s) t s.
Proof. intros H. apply raw_lex_fuel2; [exact H|apply Nat.le_refl]. Qed.

Lemma raw_lex_step x y r : x <> [] -> next_raw t (x ++ y) = r -> r_text r = x ->
  raw_lex (length (x ++ y)) t (x ++ y) = r :: raw_lex (length y) t y.
Proof.
  intros Hx Hr Ht. destruct x as [|c x0]; [congruence|].
  change ((c :: x0) ++ y) with (c :: (x0 ++ y)) in *. cbn [length raw_lex]. rewrite Hr, Ht.
  change (c :: (x0 ++ y)) with ((c :: x0) ++ y). rewrite skipn_app_len. f_equal.
  apply raw_lex_fuel. rewrite app_length. lia.
Qed.

Lemma rks_step x y r : x <> [] -> next_raw t (x ++ y) = r -> r_text r = x ->
  rks (raw_lex (length (x ++ y)) t (x ++ y))
  = match rk r with Some k => k :: rks (raw_lex (length y) t y) | None => rks (raw_lex (length y) t y) end.
Proof. intros Hx Hr Ht. rewrite (raw_lex_step x y r Hx Hr Ht). reflexivity. Qed.

Lemma lead_ws ws s : ws <> [] -> forallb is_ws_char ws = true ->
  rks (raw_lex (length (ws ++ s)) t (ws ++ s)) = rks (raw_lex (length s) t s).
Proof.
  intros Hne Hws. destruct (ws_span s) as (ws2 & z & -> & H2 & Hz).
  destruct ws as [|w ws']; [congruence|]. cbn [forallb] in Hws. apply andb_prop in Hws. destruct Hws as [Hw Hws'].
  rewrite app_assoc.
  rewrite (rks_step ((w :: ws') ++ ws2) z (mkR KSkip ((w :: ws') ++ ws2)) ltac:(discriminate)
             (next_raw_ws_run w (ws' ++ ws2) z Hw ltac:(rewrite forallb_app, Hws', H2; reflexivity) Hz) eq_refl).
  cbn [rk r_kind].
  destruct ws2 as [|w2 ws2']; [reflexivity|]. cbn [forallb] in H2. apply andb_prop in H2. destruct H2 as [Hw2 H2'].
  rewrite (rks_step (w2 :: ws2') z (mkR KSkip (w2 :: ws2')) ltac:(discriminate)
             (next_raw_ws_run w2 ws2' z Hw2 H2' Hz) eq_refl).
  reflexivity.
Qed.

Lemma tlen_le s : s <> [] -> tlen (scan (start_live t) s 0 None 0) <= length s.
Proof.
  intros Hs. pose proof (scan_app s [] (start_live t) 0 None 0) as E. rewrite app_nil_r in E. rewrite E.
  pose proof (scan_state_bounds s (start_live t) 0 None 0 I (Nat.le_refl 0)) as B. cbn [Nat.add] in B.
  assert (L : 1 <= length s) by (destruct s; [congruence|cbn [length]; lia]).
  destruct (scan_state (start_live t) s 0 None 0) as [b v|l n b v]; cbn [scan]; destruct B as [Bb Bv];
    destruct b as [[m p]|]; cbn [tlen]; lia.
Qed.

Lemma text_len s : s <> [] -> length (r_text (next_raw t s)) = tlen (scan (start_live t) s 0 None 0).
Proof. intros Hs. rewrite next_raw_build, build_text, firstn_length. pose proof (tlen_le s Hs). lia. Qed.

Lemma rk_W n v s : rk (build (Some (n, pW), v) s) = None.
Proof. cbn [build]. rewrite H_cbW. reflexivity. Qed.

Lemma rk_C n v s : rk (build (Some (n, pC), v) s) = Some ("Comment"%string, PText []).
Proof.
  cbn [build]. destruct H_cbC as [-> Hk]. cbn [run_callback]. unfold rk. cbn [r_kind]. rewrite Hk. reflexivity.
Qed.

(* the whole input, on raw tokens *)
Theorem ws_insert_rks ws : ws <> [] -> forallb is_ws_char ws = true ->
  forall rs1 s1 s2, concat (map r_text rs1) = s1 ->
    raw_lex (length (s1 ++ s2)) t (s1 ++ s2) = rs1 ++ raw_lex (length s2) t s2 ->
    rks (raw_lex (length (s1 ++ ws ++ s2)) t (s1 ++ ws ++ s2)) = rks (raw_lex (length (s1 ++ s2)) t (s1 ++ s2)).
Proof.
  intros Hne Hws. induction rs1 as [|r rs' IH]; intros s1 s2 Hc H.
  { cbn [map concat] in Hc. subst s1. cbn [app]. apply lead_ws; assumption. }
  cbn [map concat] in Hc. set (x := r_text r) in *. set (s1' := concat (map r_text rs')) in *.
  assert (Es : s1 ++ s2 = x ++ s1' ++ s2) by (subst s1; rewrite app_assoc; reflexivity).
  assert (Hr : next_raw t (x ++ s1' ++ s2) = r /\ x <> [] /\
               raw_lex (length (s1' ++ s2)) t (s1' ++ s2) = rs' ++ raw_lex (length s2) t s2).
  { rewrite <- Es. destruct (s1 ++ s2) as [|c rest] eqn:E0; [discriminate H|].
    cbn [length raw_lex app] in H. injection H as Hr Ht.
    pose proof (next_raw_nonempty (c :: rest) ltac:(discriminate)) as Hx. rewrite Hr in Hx. fold x in Hx.
    split; [exact Hr|split; [exact Hx|]]. rewrite Hr in Ht. fold x in Ht. rewrite Es in Ht. rewrite skipn_app_len in Ht.
    rewrite <- Ht. symmetry. apply raw_lex_fuel.
    assert (length (c :: rest) = length (x ++ s1' ++ s2)) by (rewrite Es; reflexivity).
    rewrite app_length in H. cbn [length] in H. destruct x; [congruence|cbn [length] in H; lia]. }
  destruct Hr as (Hr & Hx & Ht).
  assert (Hl : tlen (scan (start_live t) (x ++ s1' ++ s2) 0 None 0) = length x).
  { rewrite <- text_len by (destruct x; [congruence|discriminate]). rewrite Hr. reflexivity. }
  rewrite Es. replace (s1 ++ ws ++ s2) with (x ++ s1' ++ ws ++ s2) by (subst s1; rewrite app_assoc; reflexivity).
  rewrite (rks_step x (s1' ++ s2) r Hx Hr eq_refl).
  destruct x as [|c0 x0] eqn:Ex; [congruence|].
  destruct s1' as [|c1 s1''] eqn:Es1.
  - (* the insertion is right after this token *)
    change ([] ++ s2) with s2 in *. change ([] ++ ws ++ s2) with (ws ++ s2).
    pose proof (scan_effect c0 x0 ws s2 Hne Hws ltac:(rewrite Hl; apply Nat.le_refl)) as Eff.
    rewrite next_raw_build in Hr.
    destruct Eff as [Ef Ev|p Ef Hp Efn|Ey Ef Ev En].
    + (* same token, then the white space *)
      assert (Hr' : next_raw t ((c0 :: x0) ++ ws ++ s2) = r).
      { rewrite next_raw_build, <- Hr. apply build_ext; [exact Ef|exact Ev|].
        rewrite Hl. rewrite !firstn_app_le by apply Nat.le_refl. reflexivity. }
      rewrite (rks_step (c0 :: x0) (ws ++ s2) r Hx Hr' Ex).
      rewrite (lead_ws ws s2 Hne Hws). reflexivity.
    + (* a comment or a white-space run, now longer *)
      destruct (scan (start_live t) ((c0 :: x0) ++ s2) 0 None 0) as [bo vo].
      destruct (scan (start_live t) ((c0 :: x0) ++ ws ++ s2) 0 None 0) as [bn vn] eqn:En.
      cbn [fst snd] in *. subst bo bn.
      assert (Hr' : next_raw t (((c0 :: x0) ++ ws) ++ s2) = build (Some (length (c0 :: x0) + length ws, p), vn) (((c0 :: x0) ++ ws) ++ s2)).
      { rewrite next_raw_build, <- app_assoc, En. reflexivity. }
      assert (Htx : r_text (build (Some (length (c0 :: x0) + length ws, p), vn) (((c0 :: x0) ++ ws) ++ s2)) = (c0 :: x0) ++ ws).
      { rewrite build_text. cbn [tlen]. rewrite <- app_length. apply firstn_app_len. }
      replace ((c0 :: x0) ++ ws ++ s2) with (((c0 :: x0) ++ ws) ++ s2) by (rewrite <- app_assoc; reflexivity).
      rewrite (rks_step ((c0 :: x0) ++ ws) s2 _ ltac:(discriminate) Hr' Htx).
      rewrite <- Hr. destruct Hp as [-> | ->]; rewrite ?rk_C, ?rk_W; reflexivity.
    + (* an unterminated string at the end of the input *)
      subst s2. destruct (scan (start_live t) ((c0 :: x0) ++ []) 0 None 0) as [bo vo].
      cbn [fst snd] in *. subst bo vo.
      assert (Hr' : next_raw t (((c0 :: x0) ++ ws) ++ []) = mkR KError ((c0 :: x0) ++ ws)).
      { rewrite next_raw_build, <- app_assoc, En. cbn [build]. f_equal.
        rewrite app_nil_r, <- app_length. replace (Nat.max 1 (length ((c0 :: x0) ++ ws))) with (length ((c0 :: x0) ++ ws)) by (cbn [app length]; lia).
        apply firstn_all. }
      replace ((c0 :: x0) ++ ws ++ []) with (((c0 :: x0) ++ ws) ++ []) by (rewrite <- app_assoc; reflexivity).
      rewrite (rks_step ((c0 :: x0) ++ ws) [] _ ltac:(discriminate) Hr' eq_refl).
      rewrite <- Hr. reflexivity.
  - (* the insertion is further to the right: this token is not touched *)
    set (s1b := c1 :: s1'') in *.
    assert (Hr' : next_raw t ((c0 :: x0) ++ s1b ++ ws ++ s2) = r).
    { pose proof (scan_effect c0 (x0 ++ s1b) ws s2 Hne Hws) as Eff.
      change (c0 :: x0 ++ s1b) with ((c0 :: x0) ++ s1b) in Eff. rewrite <- !app_assoc in Eff.
      assert (Lx : length (c0 :: x0) < length ((c0 :: x0) ++ s1b)) by (rewrite app_length; unfold s1b; cbn [length]; lia).
      specialize (Eff ltac:(rewrite Hl; lia)).
      rewrite !next_raw_build in *. rewrite <- Hr.
      destruct Eff as [Ef Ev|p Ef Hp Efn|Ey Ef Ev En].
      + apply build_ext; [exact Ef|exact Ev|]. rewrite Hl. rewrite !firstn_app_le by apply Nat.le_refl. reflexivity.
      + exfalso. destruct (scan (start_live t) ((c0 :: x0) ++ s1b ++ s2) 0 None 0) as [bo vo]. cbn [fst] in Ef. subst bo.
        cbn [tlen] in Hl. lia.
      + exfalso. destruct (scan (start_live t) ((c0 :: x0) ++ s1b ++ s2) 0 None 0) as [bo vo]. cbn [fst snd] in *. subst bo vo.
        cbn [tlen] in Hl. lia. }
    rewrite (rks_step (c0 :: x0) (s1b ++ ws ++ s2) r Hx Hr' Ex).
    rewrite (IH s1b s2 eq_refl Ht). reflexivity.
Qed.

Theorem ws_insert_c s1 s2 ws : ws <> [] -> forallb is_ws_char ws = true ->
  (exists rs1, concat (map r_text rs1) = s1 /\ raw_lex (length (s1 ++ s2)) t (s1 ++ s2) = rs1 ++ raw_lex (length s2) t s2) ->
  ckinds (lex t (s1 ++ ws ++ s2)) = ckinds (lex t (s1 ++ s2)).
Proof.
  intros Hne Hws (rs1 & Hc & H). unfold lex. rewrite !ckinds_place.
  apply (ws_insert_rks ws Hne Hws rs1 s1 s2 Hc H).
Qed.

Theorem ws_insert : ws_insert_statement t.
Proof. intros s1 s2 ws Hne Hws H. rewrite !kinds_ckinds. f_equal. apply ws_insert_c; assumption. Qed.

(* ------------------------------------------------------------------------------------------- *)
(* re-spacing *)

Hypothesis H_skip : skip_ok t = true.

Lemma allw_LS : allw LS = false.
Proof. reflexivity. Qed.

Lemma step_to_LS c l : cl l -> step_live c l = LS -> l = LS.
Proof.
  intros Hc E. inversion Hc as [l' Hall El| | | |]; subst.
  - exfalso. pose proof (allw_step c l Hall) as X. rewrite E, allw_LS in X. discriminate X.
  - reflexivity.
  - exfalso. rewrite step_L1 in E. destruct (c =? 47)%N eqn:E47.
    + apply N.eqb_eq in E47. rewrite E47 in E. replace (step_live 47 A1) with (@nil (pat * re)) in E by (symmetry; exact H_47). discriminate E.
    + rewrite app_nil_r in E. pose proof (allw_step c A1 allw_A1) as X. rewrite E, allw_LS in X. discriminate X.
  - exfalso. rewrite step_LC in E. destruct (c =? 10)%N; discriminate E.
  - exfalso. rewrite step_LW in E. destruct (is_ws_char c); discriminate E.
Qed.

(* inside a string nothing has been accepted yet *)
Lemma scan_state_LS : forall x l n b v, cl l -> (l = LS -> b = None) ->
  match scan_state l x n b v with
  | Done _ _ => True
  | Alive l' _ b' _ => l' = LS -> b' = None
  end.
Proof.
  induction x as [|c x IH]; intros l n b v Hc Hb; [exact Hb|].
  cbn [scan_state]. destruct (step_live c l) as [|e l'] eqn:E; [exact I|]. rewrite <- E.
  pose proof (IH (step_live c l) (S n)
                (match best_nullable (step_live c l) None with Some p => Some (S n, p) | None => b end) (S n)
                (cl_step c l Hc)) as X.
  assert (Hb' : step_live c l = LS ->
                match best_nullable (step_live c l) None with Some p => Some (S n, p) | None => b end = None).
  { intros El. rewrite El, bn_LS. apply Hb. apply (step_to_LS c l Hc El). }
  specialize (X Hb'). rewrite E in X |- *. exact X.
Qed.

Lemma scan_state_start_LS c x :
  match scan_state (start_live t) (c :: x) 0 None 0 with
  | Done _ _ => True
  | Alive l' _ b' _ => l' = LS -> b' = None
  end.
Proof.
  cbn [scan_state]. destruct (step_live c (start_live t)) as [|e l'] eqn:E; [exact I|].
  pose proof (cl_first c) as Hc. rewrite E in Hc.
  apply scan_state_LS; [exact Hc|]. intros El. rewrite El, bn_LS. reflexivity.
Qed.

(* the rest of the input is replaced by something that starts with white space: the token that lies within
   the prefix is not changed, except in three situations *)
Lemma scan_cut c x0 rest w r' : is_ws_char w = true ->
  tlen (scan (start_live t) ((c :: x0) ++ rest) 0 None 0) <= length (c :: x0) ->
  (fst (scan (start_live t) ((c :: x0) ++ w :: r') 0 None 0) = fst (scan (start_live t) ((c :: x0) ++ rest) 0 None 0) /\
   (fst (scan (start_live t) ((c :: x0) ++ rest) 0 None 0) = None ->
    snd (scan (start_live t) ((c :: x0) ++ w :: r') 0 None 0) = snd (scan (start_live t) ((c :: x0) ++ rest) 0 None 0)))
  \/ (tlen (scan (start_live t) ((c :: x0) ++ rest) 0 None 0) = length (c :: x0) /\
      (rest = [] \/ ~ starts_ws rest \/
       exists n, fst (scan (start_live t) ((c :: x0) ++ rest) 0 None 0) = Some (n, pW))).
Proof.
  intros Hw Hlen. set (x := c :: x0) in *.
  rewrite (scan_app x rest), (scan_app x (w :: r')) in *.
  pose proof (scan_state_start c x0) as St. pose proof (scan_state_start_LS c x0) as SL. fold x in St, SL.
  destruct (scan_state (start_live t) x 0 None 0) as [b v|l n b v].
  { left. split; reflexivity. }
  destruct St as (Hc & Hj & -> & Hn). assert (En : n = length x) by (unfold x; cbn [length]; exact Hn). clear Hn.
  destruct (scan_mono rest l n b n) as [Mv Mb].
  assert (Fb : fst (scan l rest n b n) = b).
  { destruct Mb as [E|(m & p & E & Hm)]; [exact E|]. exfalso.
    destruct (scan l rest n b n) as [bo vo]. cbn [fst] in E. subst bo. cbn [tlen] in Hlen. lia. }
  assert (Fv : fst (scan l rest n b n) = None -> snd (scan l rest n b n) = n).
  { intros E. destruct (scan l rest n b n) as [bo vo]. cbn [fst snd] in *. rewrite E in Hlen. cbn [tlen] in Hlen. lia. }
  assert (DeadCase : step_live w l = [] ->
            fst (scan l (w :: r') n b n) = fst (scan l rest n b n) /\
            (fst (scan l rest n b n) = None -> snd (scan l (w :: r') n b n) = snd (scan l rest n b n))).
  { intros Hd. rewrite (scan_dead w r' l n b n Hd). cbn [fst snd]. split; [symmetry; exact Fb|].
    intros E. symmetry. apply Fv. exact E. }
  inversion Hc as [l' Hall El| | | |]; subst l.
  - left. apply DeadCase. apply allw_ws_dead; assumption.
  - (* inside a string *)
    right. specialize (SL eq_refl). subst b. specialize (Fv Fb).
    assert (Tl : tlen (scan LS rest n None n) = n).
    { destruct (scan LS rest n None n) as [bo vo]. cbn [fst snd] in *. subst bo vo. cbn [tlen]. unfold x in En. cbn [length] in En. lia. }
    split; [rewrite Tl; exact En|]. left.
    destruct rest as [|c1 y1]; [reflexivity|]. exfalso. cbn [scan] in Fv.
    rewrite step_LS in Fv. destruct (c1 =? 34)%N.
    + destruct (scan_mono y1 LSe (S n) (match best_nullable LSe None with Some p => Some (S n, p) | None => None end) (S n)) as [[A|A] _];
        unfold LSe in *; lia.
    + destruct (scan_mono y1 LS (S n) (match best_nullable LS None with Some p => Some (S n, p) | None => None end) (S n)) as [[A|A] _];
        unfold LS in *; lia.
  - left. apply DeadCase. apply ws_L1. exact Hw.
  - (* inside a comment *)
    right. unfold J in Hj. rewrite bn_LC in Hj. subst b.
    split; [destruct (scan LC rest n (Some (n, pC)) n) as [bo vo]; cbn [fst] in Fb; subst bo; cbn [tlen]; exact En|].
    right. left. intros Hs. destruct rest as [|w2 y1]; [exact Hs|]. cbn [starts_ws] in Hs.
    cbn [scan] in Fb. rewrite (ws_LC w2 Hs) in Fb.
    assert (Fb' : fst (scan LC y1 (S n) (Some (S n, pC)) (S n)) = Some (n, pC)) by exact Fb. clear Fb. rename Fb' into Fb.
    destruct (scan_mono y1 LC (S n) (Some (S n, pC)) (S n)) as [_ [B|(m & p & B & Hm)]]; rewrite B in Fb.
    + injection Fb as Fb. lia.
    + injection Fb as Fb _. lia.
  - (* inside a white-space run *)
    right. unfold J in Hj. rewrite bn_LW in Hj. subst b.
    split; [destruct (scan LW rest n (Some (n, pW)) n) as [bo vo]; cbn [fst] in Fb; subst bo; cbn [tlen]; exact En|].
    right. right. exists n. exact Fb.
Qed.

(* a token that is not skipped is not changed when the text after it is re-spaced *)
Lemma tail_respace x y y' r : next_raw t (x ++ y) = r -> r_text r = x -> x <> [] -> is_skip r = false ->
  y <> [] -> agree y y' -> next_raw t (x ++ y') = r.
Proof.
  intros Hr Ht Hx Hsk Hy (p & rest & rest' & -> & -> & D).
  destruct D as [[-> ->]|[Hs Hp]]; [exact Hr|].
  destruct rest' as [|w r']; [destruct Hs|]. cbn [starts_ws] in Hs.
  destruct x as [|c0 x0]; [congruence|].
  assert (Hl : tlen (scan (start_live t) ((c0 :: x0) ++ p ++ rest) 0 None 0) = length (c0 :: x0)).
  { rewrite <- text_len by discriminate. rewrite Hr. rewrite Ht. reflexivity. }
  pose proof (scan_cut c0 (x0 ++ p) rest w r' Hs) as Cut.
  change (c0 :: x0 ++ p) with ((c0 :: x0) ++ p) in Cut. rewrite <- !app_assoc in Cut.
  assert (Lx : length ((c0 :: x0) ++ p) = length (c0 :: x0) + length p) by apply app_length.
  specialize (Cut ltac:(rewrite Hl, Lx; lia)).
  destruct Cut as [[Ef Ev]|[Tl Bad]].
  - rewrite !next_raw_build in *. rewrite <- Hr. apply build_ext; [exact Ef|exact Ev|].
    rewrite Hl. rewrite !firstn_app_le by apply Nat.le_refl. reflexivity.
  - exfalso. rewrite Hl, Lx in Tl. assert (Ep : p = []) by (destruct p; [reflexivity|cbn [length] in Tl; lia]).
    subst p. specialize (Hp eq_refl). cbn [app] in *. destruct Bad as [->|[Bad|(n & Bad)]].
    + destruct Hp.
    + exact (Bad Hp).
    + rewrite next_raw_build in Hr. destruct (scan (start_live t) (c0 :: x0 ++ rest) 0 None 0) as [bo vo].
      cbn [fst] in Bad. subst bo. subst r. unfold is_skip in Hsk. cbn [build] in Hsk. rewrite H_cbW in Hsk. discriminate Hsk.
Qed.

Lemma raw_lex_sane s f : length s <= f -> Forall tok_sane (raw_lex f t s).
Proof.
  intros H. pose proof (raw_lex_ok t f s H) as R. set (rs0 := raw_lex f t s) in *. clearbody rs0. clear H.
  induction R as [|s0 r rs Hne Hok _ IH]; [constructor|]. constructor; [|exact IH].
  split; [apply (raw_ok_text_nonempty t s0 r Hok)|].
  intros Hk. assert (Ek : r_kind r = KSkip) by (unfold is_skip in Hk; destruct (r_kind r); congruence).
  pose proof (skip_text_ws t s0 r H_skip Hok Ek) as F. apply forallb_forall. rewrite Forall_forall in F. exact F.
Qed.

Theorem respace_rks : forall rus s, s = concat (map r_text (map fst rus)) ->
  raw_lex (length s) t s = map fst rus -> Forall u_ok rus ->
  rks (raw_lex (length (weave rus)) t (weave rus)) = rks (raw_lex (length s) t s).
Proof.
  induction rus as [|[r u] tl IH]; intros s Es H Hu.
  { cbn in Es. subst s. reflexivity. }
  cbn [map fst concat] in Es, H. set (x := r_text r) in *. set (y := concat (map r_text (map fst tl))) in *.
  inversion Hu as [|? ? [Hu1 Hu2] Hu']; subst. cbn [fst snd] in Hu1, Hu2.
  assert (Hr : next_raw t (x ++ y) = r /\ x <> [] /\ raw_lex (length y) t y = map fst tl).
  { destruct (x ++ y) as [|c rest] eqn:E0; [discriminate H|].
    cbn [length raw_lex] in H. injection H as Hr Ht.
    pose proof (next_raw_nonempty (c :: rest) ltac:(discriminate)) as Hx. rewrite Hr in Hx. fold x in Hx.
    split; [exact Hr|split; [exact Hx|]]. rewrite Hr in Ht. fold x in Ht. rewrite <- E0 in Ht. rewrite skipn_app_len in Ht.
    rewrite <- Ht. symmetry. apply raw_lex_fuel.
    assert (length (c :: rest) = length (x ++ y)) by (rewrite E0; reflexivity).
    rewrite app_length in H. cbn [length] in H. destruct x; [congruence|cbn [length] in H; lia]. }
  destruct Hr as (Hr & Hx & Ht).
  specialize (IH y eq_refl Ht Hu').
  rewrite (rks_step x y r Hx Hr eq_refl).
  unfold weave. cbn [map concat]. fold (weave tl). unfold nt. cbn [fst snd]. fold x.
  destruct (is_skip r) eqn:Esk.
  - (* white space replaced by white space *)
    rewrite (lead_ws u (weave tl) (Hu2 eq_refl) Hu1), IH.
    unfold rk. unfold is_skip in Esk. destruct (r_kind r); try discriminate Esk. reflexivity.
  - assert (Sane : Forall tok_sane (map fst tl)) by (rewrite <- Ht; apply raw_lex_sane; apply Nat.le_refl).
    rewrite <- app_assoc.
    assert (Hr' : next_raw t (x ++ weave tl) = r).
    { clear IH H Hu. destruct tl as [|ru2 tl2]; [exact Hr|].
      apply (tail_respace x y (weave (ru2 :: tl2)) r Hr eq_refl Hx Esk); [|apply weave_agree; assumption].
      cbn [map] in Sane. inversion Sane as [|? ? [Hx2 _] _].
      unfold y. cbn [map concat]. intros X. apply app_eq_nil in X. destruct X as [X _]. exact (Hx2 X). }
    destruct u as [|w u'].
    + cbn [app]. rewrite (rks_step x (weave tl) r Hx Hr' eq_refl), IH. reflexivity.
    + rewrite (ws_insert_rks (w :: u') ltac:(discriminate) Hu1 [r] x (weave tl) ltac:(cbn [map concat]; apply app_nil_r)
                 (raw_lex_step x (weave tl) r Hx Hr' eq_refl)).
      rewrite (rks_step x (weave tl) r Hx Hr' eq_refl), IH. reflexivity.
Qed.

(* the statement on source texts: [s'] is [s] with other white space between the tokens *)
Theorem respace_c : forall s u0 us, length us = length (raw_lex (length s) t s) ->
  forallb is_ws_char u0 = true -> Forall u_ok (combine (raw_lex (length s) t s) us) ->
  ckinds (lex t (u0 ++ weave (combine (raw_lex (length s) t s) us))) = ckinds (lex t s).
Proof.
  intros s u0 us Hl Hu0 Hu. unfold lex. rewrite !ckinds_place.
  set (rus := combine (raw_lex (length s) t s) us) in *.
  assert (Ef : map fst rus = raw_lex (length s) t s) by (apply map_fst_combine; exact Hl).
  assert (X : rks (raw_lex (length (weave rus)) t (weave rus)) = rks (raw_lex (length s) t s)).
  { apply respace_rks; [rewrite Ef; symmetry; apply raw_lex_tiles|symmetry; exact Ef|exact Hu]. }
  destruct u0 as [|w u0']; [exact X|]. rewrite lead_ws; [exact X|discriminate|exact Hu0].
Qed.

Theorem respace : forall s u0 us, length us = length (raw_lex (length s) t s) ->
  forallb is_ws_char u0 = true -> Forall u_ok (combine (raw_lex (length s) t s) us) ->
  kinds (lex t (u0 ++ weave (combine (raw_lex (length s) t s) us))) = kinds (lex t s).
Proof. intros s u0 us Hl Hu0 Hu. rewrite !kinds_ckinds. f_equal. apply respace_c; assumption. Qed.

(* CRLF line ends instead of LF line ends, when no token contains a line break other than the line-break token *)
Theorem crlf_same_c s : forallb nl_alone (raw_lex (length s) t s) = true ->
  ckinds (lex t (crlf s)) = ckinds (lex t s).
Proof.
  intros H. set (rs := raw_lex (length s) t s) in *.
  assert (E : crlf s = cr_before rs ++ weave (combine rs (cr_us rs))).
  { rewrite <- (crlf_weave rs H). unfold rs. rewrite raw_lex_tiles. reflexivity. }
  rewrite E. apply respace_c.
  - apply cr_us_length.
  - unfold cr_before. destruct rs as [|r2 rs2]; [reflexivity|]. destruct (is_nl_tok r2); reflexivity.
  - apply cr_us_ok. apply raw_lex_sane. apply Nat.le_refl.
Qed.

Theorem crlf_same s : forallb nl_alone (raw_lex (length s) t s) = true ->
  kinds (lex t (crlf s)) = kinds (lex t s).
Proof. intros H. rewrite !kinds_ckinds. f_equal. apply crlf_same_c. exact H. Qed.

(* ------------------------------------------------------------------------------------------- *)
(* a blank line: the line-break character inserted right after a line-break token (or at the very start) *)

Variable pN : pat.
Hypothesis H_n0 : n0 E1 = true /\ n0 E2 = true.
Hypothesis H_N : best_nullable (step_live 10 E1 ++ step_live 10 E2) None = Some pN /\
                 p_cb pN = CbUnit /\ p_kind pN = "Newline"%string.

Definition LN : live := step_live 10 E1 ++ step_live 10 E2.

Lemma step_L0_10 : step_live 10 (start_live t) = LN.
Proof.
  rewrite step_L0. replace (10 =? 34)%N with false by reflexivity. replace (10 =? 47)%N with false by reflexivity.
  replace (is_ws_char 10) with false by reflexivity. cbn [app]. rewrite app_nil_r. reflexivity.
Qed.

Lemma LN_dead c : step_live c LN = [].
Proof. unfold LN. rewrite step_live_app, (n0_after10 E1 c (proj1 H_n0)), (n0_after10 E2 c (proj2 H_n0)). reflexivity. Qed.

Lemma LN_ne : LN <> [].
Proof. intros E. destruct H_N as [X _]. fold LN in X. rewrite E in X. discriminate X. Qed.

Lemma scan_dead_all l rest n b v : (forall c, step_live c l = []) -> scan l rest n b v = (b, v).
Proof. intros D. destruct rest as [|c rest]; [reflexivity|]. cbn [scan]. rewrite (D c). reflexivity. Qed.

Definition rN : rtoken := mkR (KTok "Newline"%string PNone) [10%N].

Lemma next_raw_10 y : next_raw t (10%N :: y) = rN.
Proof.
  unfold next_raw. cbn [scan]. rewrite step_L0_10. pose proof LN_ne as Ne. destruct H_N as (Hb & Hcb & Hk). fold LN in Hb.
  destruct LN as [|e l'] eqn:E; [congruence|]. rewrite Hb. rewrite <- E.
  rewrite (scan_dead_all LN y 1 (Some (1, pN)) 1 LN_dead). rewrite Hcb. cbn [run_callback firstn]. rewrite Hk. reflexivity.
Qed.

Inductive cn : live -> Prop :=
| cn_n l : n1 l = true -> cn l
| cn_S : cn LS
| cn_1 : cn L1
| cn_C : cn LC
| cn_W : cn LW.

Lemma n1_A1 : n1 A1 = true.
Proof. unfold A1. rewrite n1_app, (n0_step 47 E1 (proj1 H_n0)), (n0_step 47 E2 (proj2 H_n0)). reflexivity. Qed.

Lemma cn_first c : cn (step_live c (start_live t)).
Proof.
  rewrite step_L0.
  destruct (N.eqb_spec c 34) as [->|N34].
  { destruct H_34 as [-> ->]. replace (34 =? 47)%N with false by reflexivity. replace (is_ws_char 34) with false by reflexivity.
    cbn [app]. apply cn_S. }
  destruct (N.eqb_spec c 47) as [->|N47].
  { replace (is_ws_char 47) with false by reflexivity. cbn [app]. rewrite app_assoc. apply cn_1. }
  destruct (is_ws_char c) eqn:Ew.
  { rewrite (allw_ws_dead c E1 Ew H_E1), (allw_ws_dead c E2 Ew H_E2). cbn [app]. apply cn_W. }
  cbn [app]. rewrite app_nil_r. apply cn_n. rewrite n1_app, (n0_step c E1 (proj1 H_n0)), (n0_step c E2 (proj2 H_n0)). reflexivity.
Qed.

Lemma cn_step c l : cn l -> cn (step_live c l).
Proof.
  intros [l' H| | | |].
  - apply cn_n. apply n1_step. exact H.
  - rewrite step_LS. destruct (c =? 34)%N; [apply cn_n; reflexivity|apply cn_S].
  - rewrite step_L1. destruct (c =? 47)%N eqn:E47.
    + apply N.eqb_eq in E47. subst c. replace (step_live 47 A1) with (@nil (pat * re)) by (symmetry; exact H_47). apply cn_C.
    + rewrite app_nil_r. apply cn_n. apply n1_step. apply n1_A1.
  - rewrite step_LC. destruct (c =? 10)%N; [apply cn_n; reflexivity|apply cn_C].
  - rewrite step_LW. destruct (is_ws_char c); [apply cn_W|apply cn_n; reflexivity].
Qed.

Lemma cn_10 l : cn l -> l = LS \/ step_live 10 l = [].
Proof.
  intros [l' H| | | |].
  - right. apply n1_dead10. exact H.
  - left. reflexivity.
  - right. rewrite step_L1, (n1_dead10 A1 n1_A1). reflexivity.
  - right. rewrite step_LC. reflexivity.
  - right. rewrite step_LW. reflexivity.
Qed.

Lemma scan_state_cn : forall x l n b v, cn l ->
  match scan_state l x n b v with Done _ _ => True | Alive l' _ _ _ => cn l' end.
Proof.
  induction x as [|c x IH]; intros l n b v Hc; [exact Hc|]. cbn [scan_state].
  destruct (step_live c l) as [|e l'] eqn:E; [exact I|]. rewrite <- E. apply IH. apply cn_step. exact Hc.
Qed.

Lemma scan_state_start_cn c x :
  match scan_state (start_live t) (c :: x) 0 None 0 with Done _ _ => True | Alive l' _ _ _ => cn l' end.
Proof.
  cbn [scan_state]. destruct (step_live c (start_live t)) as [|e l'] eqn:E; [exact I|]. rewrite <- E.
  apply scan_state_cn. apply cn_first.
Qed.

(* after a prefix that ends with a line break: the scan has stopped, or cannot go on, or is inside a string *)
Lemma after10 X0 :
  match scan_state (start_live t) (X0 ++ [10%N]) 0 None 0 with
  | Done _ _ => True
  | Alive l _ _ _ => l = LS \/ (forall c, step_live c l = [])
  end.
Proof.
  destruct X0 as [|c x0].
  - cbn [app scan_state]. rewrite step_L0_10. pose proof LN_ne as Ne. destruct LN as [|e l'] eqn:E; [congruence|].
    rewrite <- E. cbn [scan_state]. right. apply LN_dead.
  - change ((c :: x0) ++ [10%N]) with ((c :: x0) ++ [10%N]). rewrite scan_state_app.
    pose proof (scan_state_start_cn c x0) as Hc.
    destruct (scan_state (start_live t) (c :: x0) 0 None 0) as [b v|l n b v]; [exact I|].
    cbn [scan_state]. destruct (cn_10 l Hc) as [->|D].
    + rewrite step_LS. replace (10 =? 34)%N with false by reflexivity. unfold LS at 1. left. reflexivity.
    + rewrite D. exact I.
Qed.

Definition ends10 (rs : list rtoken) : Prop :=
  match rs with [] => True | _ => r_text (last rs rN) = [10%N] end.

Lemma concat_ends10 rs : rs <> [] -> ends10 rs -> exists X0, concat (map r_text rs) = X0 ++ [10%N].
Proof.
  induction rs as [|r rs IH]; intros Ne H; [congruence|]. destruct rs as [|r2 rs].
  - cbn in H. exists []. cbn [map concat app]. rewrite app_nil_r. exact H.
  - destruct (IH ltac:(discriminate) H) as (X0 & E). exists (r_text r ++ X0). cbn [map concat] in *. rewrite E, app_assoc. reflexivity.
Qed.

Theorem nl_insert_raw : forall rs1 s1 s2, concat (map r_text rs1) = s1 ->
  raw_lex (length (s1 ++ s2)) t (s1 ++ s2) = rs1 ++ raw_lex (length s2) t s2 -> ends10 rs1 ->
  raw_lex (length (s1 ++ 10%N :: s2)) t (s1 ++ 10%N :: s2) = rs1 ++ rN :: raw_lex (length s2) t s2.
Proof.
  induction rs1 as [|r rs' IH]; intros s1 s2 Hc H He.
  { cbn [map concat] in Hc. subst s1. cbn [app].
    apply (raw_lex_step [10%N] s2 rN ltac:(discriminate) (next_raw_10 s2) eq_refl). }
  cbn [map concat] in Hc. set (x := r_text r) in *. set (s1' := concat (map r_text rs')) in *.
  assert (Es : s1 ++ s2 = x ++ s1' ++ s2) by (subst s1; rewrite app_assoc; reflexivity).
  assert (Hr : next_raw t (x ++ s1' ++ s2) = r /\ x <> [] /\
               raw_lex (length (s1' ++ s2)) t (s1' ++ s2) = rs' ++ raw_lex (length s2) t s2).
  { rewrite <- Es. destruct (s1 ++ s2) as [|c rest] eqn:E0; [discriminate H|].
    cbn [length raw_lex app] in H. injection H as Hr Ht.
    pose proof (next_raw_nonempty (c :: rest) ltac:(discriminate)) as Hx. rewrite Hr in Hx. fold x in Hx.
    split; [exact Hr|split; [exact Hx|]]. rewrite Hr in Ht. fold x in Ht. rewrite Es in Ht. rewrite skipn_app_len in Ht.
    rewrite <- Ht. symmetry. apply raw_lex_fuel.
    assert (length (c :: rest) = length (x ++ s1' ++ s2)) by (rewrite Es; reflexivity).
    rewrite app_length in H. cbn [length] in H. destruct x; [congruence|cbn [length] in H; lia]. }
  destruct Hr as (Hr & Hx & Ht).
  assert (Hl : tlen (scan (start_live t) (x ++ s1' ++ s2) 0 None 0) = length x).
  { rewrite <- text_len by (destruct x; [congruence|discriminate]). rewrite Hr. reflexivity. }
  destruct (concat_ends10 (r :: rs') ltac:(discriminate) He) as (X0 & EX). cbn [map concat] in EX. fold x s1' in EX.
  assert (He' : ends10 rs') by (destruct rs' as [|r2 rs2]; [exact I|exact He]).
  assert (Hr' : next_raw t (x ++ s1' ++ 10%N :: s2) = r).
  { rewrite next_raw_build in *. rewrite <- Hr.
    assert (Sc : scan (start_live t) (x ++ s1' ++ 10%N :: s2) 0 None 0 = scan (start_live t) (x ++ s1' ++ s2) 0 None 0).
    { rewrite !app_assoc, EX. rewrite (scan_app (X0 ++ [10%N]) (10%N :: s2)), (scan_app (X0 ++ [10%N]) s2).
      pose proof (after10 X0) as A10.
      destruct (scan_state (start_live t) (X0 ++ [10%N]) 0 None 0) as [b v|l n b v] eqn:St; [reflexivity|].
      destruct A10 as [->|D]; [|rewrite !(scan_dead_all l _ n b v D); reflexivity].
      exfalso.
      (* inside a string: the token would not end where it does *)
      assert (Hl2 : tlen (scan LS s2 n b v) = length x).
      { rewrite <- Hl. rewrite !app_assoc, EX, (scan_app (X0 ++ [10%N]) s2), St. reflexivity. }
      destruct x as [|c0 x0] eqn:Ex; [congruence|].
      assert (EX' : X0 ++ [10%N] = c0 :: (x0 ++ s1')) by (rewrite <- EX; reflexivity).
      pose proof (scan_state_start c0 (x0 ++ s1')) as S1. pose proof (scan_state_start_LS c0 (x0 ++ s1')) as S2.
      rewrite <- EX', St in S1, S2. destruct S1 as (_ & _ & -> & Hn). specialize (S2 eq_refl). subst b.
      destruct (scan_mono s2 LS n None n) as [Mv Mb].
      assert (Ln : n = length (c0 :: x0) + length s1') by (rewrite Hn, app_length; cbn [length]; lia).
      destruct (scan LS s2 n None n) as [bo vo]. cbn [fst snd] in *.
      assert (Lx : length s1' = 0).
      { destruct Mb as [->|(m & p & -> & Hm)]; cbn [tlen] in Hl2; [destruct Mv as [->|Mv]|]; lia. }
      assert (Es1 : s1' = []) by (destruct s1'; [reflexivity|discriminate Lx]).
      assert (Ers : rs' = []).
      { rewrite Es1 in Ht. cbn [app] in Ht. destruct rs' as [|r2 rs2]; [reflexivity|]. exfalso.
        apply (f_equal (@length rtoken)) in Ht. rewrite app_length in Ht. cbn [length] in Ht. lia. }
      subst rs'. cbn [ends10 last] in He. fold x in He. rewrite Ex in He. injection He as -> ->.
      rewrite Es1 in EX'. cbn [app] in EX'. destruct X0 as [|y0 X0]; [|destruct X0; discriminate EX'].
      cbn [app scan_state] in St. rewrite step_L0_10 in St. pose proof LN_ne as Ne.
      destruct LN as [|e l'] eqn:EN; [congruence|]. rewrite <- EN in St. cbn [scan_state] in St. injection St as ELS _ _ _.
      pose proof (LN_dead 32) as D32. rewrite ELS, (ws_LS 32 eq_refl) in D32. discriminate D32. }
    rewrite Sc. apply build_ext; [reflexivity|reflexivity|].
    rewrite Hl. rewrite !firstn_app_le by apply Nat.le_refl. reflexivity. }
  replace (s1 ++ 10%N :: s2) with (x ++ s1' ++ 10%N :: s2) by (subst s1; rewrite app_assoc; reflexivity).
  rewrite (raw_lex_step x (s1' ++ 10%N :: s2) r Hx Hr' eq_refl).
  rewrite (IH s1' s2 eq_refl Ht He'). reflexivity.
Qed.

Lemma rks_app a b : rks (a ++ b) = rks a ++ rks b.
Proof. induction a as [|r a IH]; [reflexivity|]. cbn [app rks]. destruct (rk r); [cbn [app]; f_equal|]; exact IH. Qed.

(* on the kinds and payloads of all tokens: one more "Newline" *)
Theorem nl_insert_c s1 s2 rs1 : concat (map r_text rs1) = s1 ->
  raw_lex (length (s1 ++ s2)) t (s1 ++ s2) = rs1 ++ raw_lex (length s2) t s2 -> ends10 rs1 ->
  ckinds (lex t (s1 ++ s2)) = rks rs1 ++ rks (raw_lex (length s2) t s2) /\
  ckinds (lex t (s1 ++ 10%N :: s2)) = rks rs1 ++ ("Newline"%string, PNone) :: rks (raw_lex (length s2) t s2).
Proof.
  intros Hc H He. unfold lex. rewrite !ckinds_place, H, (nl_insert_raw rs1 s1 s2 Hc H He), !rks_app. split; reflexivity.
Qed.

(* the token before the inserted line break is the line-break token *)
Lemma tiled_last : forall rs1 s1 s2, concat (map r_text rs1) = s1 ->
  raw_lex (length (s1 ++ s2)) t (s1 ++ s2) = rs1 ++ raw_lex (length s2) t s2 -> ends10 rs1 ->
  rs1 = [] \/ exists rs0, rs1 = rs0 ++ [rN].
Proof.
  induction rs1 as [|r rs' IH]; intros s1 s2 Hc H He; [left; reflexivity|right].
  cbn [map concat] in Hc. set (x := r_text r) in *. set (s1' := concat (map r_text rs')) in *.
  assert (Es : s1 ++ s2 = x ++ s1' ++ s2) by (subst s1; rewrite app_assoc; reflexivity).
  assert (Hr : next_raw t (x ++ s1' ++ s2) = r /\ x <> [] /\
               raw_lex (length (s1' ++ s2)) t (s1' ++ s2) = rs' ++ raw_lex (length s2) t s2).
  { rewrite <- Es. destruct (s1 ++ s2) as [|c rest] eqn:E0; [discriminate H|].
    cbn [length raw_lex app] in H. injection H as Hr Ht.
    pose proof (next_raw_nonempty (c :: rest) ltac:(discriminate)) as Hx. rewrite Hr in Hx. fold x in Hx.
    split; [exact Hr|split; [exact Hx|]]. rewrite Hr in Ht. fold x in Ht. rewrite Es in Ht. rewrite skipn_app_len in Ht.
    rewrite <- Ht. symmetry. apply raw_lex_fuel.
    assert (length (c :: rest) = length (x ++ s1' ++ s2)) by (rewrite Es; reflexivity).
    rewrite app_length in H. cbn [length] in H. destruct x; [congruence|cbn [length] in H; lia]. }
  destruct Hr as (Hr & Hx & Ht).
  destruct rs' as [|r2 rs2].
  - exists []. cbn [app]. f_equal. cbn [ends10 last] in He. fold x in He. rewrite He in Hr. cbn [map concat app] in Hr.
    rewrite <- Hr. apply next_raw_10.
  - destruct (IH s1' s2 eq_refl Ht He) as [X|(rs0 & X)]; [discriminate X|]. exists (r :: rs0). rewrite X. reflexivity.
Qed.

Lemma rk_rN : rk rN = Some ("Newline"%string, PNone).
Proof. reflexivity. Qed.

End Table.
