(* resolve_total: on a tree whose module table is consistent (`tree_ok`, Resolve/TreeOk.v) the resolver
   model never reaches one of its Panic sites (indexing `namespace_to_file`, `namespaces`,
   `file_to_namespace` with a missing key, `get_mut(..).unwrap()`), and with `fuel_of ast` fuel -- the
   nesting depth of the program plus one -- or more it never runs out of fuel: the result is `Ok _` or
   `Err` of a non-empty list.
   Invariant: `namespace_to_file` is the module table; exactly the module files have a namespace table;
   every namespace entry of every table names a module file. *)
From Coq Require Import String List NArith ZArith Bool Lia Arith.
From Sylt Require Import Syntax.Resolved Resolve.PAst Resolve.Resolver Resolve.Wf Resolve.TreeOk
     Resolve.Modules Resolve.ModulesProofs Resolve.ImportProofs Resolve.AlphaProofs Resolve.ImportFix.
Import ListNotations.
Local Open Scope list_scope.

Lemma all_with_in {X} (p : X -> bool) l x : all_with p l = true -> In x l -> p x = true.
Proof.
  induction l as [|y l IH]; cbn; intros H []; apply andb_true_iff in H as [H1 H2]; subst; auto.
Qed.

Lemma list_max_in {X} (g : X -> nat) l x : In x l -> g x <= list_max g l.
Proof. induction l as [|y l IH]; cbn; intros []; subst; [lia|]. specialize (IH H). lia. Qed.

Lemma fol_eqb_refl f : fol_eqb f f = true.
Proof. apply fol_eqb_eq. reflexivity. Qed.

Section Total.
Variable fl : rflags.
Variable ast : past.

Definition files : list file_or_lib := map m_file ast.
Definition ids : list N := module_ids ast.
Definition N2F : list (N * file_or_lib) := map (fun m => (m_file_id m, m_file m)) ast.

Lemma n2f_get_some fid : existsb (N.eqb fid) ids = true -> exists f, n2f_get N2F fid = Some f /\ In f files.
Proof.
  unfold ids, module_ids, N2F, files. induction ast as [|m l IH]; cbn; [discriminate|].
  destruct (N.eqb fid (m_file_id m)); cbn; [eauto|]. intros H. destruct (IH H) as (f & E & Hin). eauto.
Qed.

Lemma n2f_get_in k f : n2f_get N2F k = Some f -> In f files /\ existsb (N.eqb k) ids = true.
Proof.
  unfold ids, module_ids, N2F, files. induction ast as [|m l IH]; cbn; [discriminate|].
  destruct (N.eqb k (m_file_id m)); cbn.
  - intros E. inversion E; subst. auto.
  - intros E. destruct (IH E). auto.
Qed.

Lemma f2n_get_some g : In g files -> exists k, f2n_get N2F g = Some k /\ existsb (N.eqb k) ids = true.
Proof.
  unfold ids, module_ids, N2F, files. induction ast as [|m l IH]; cbn; [intros []|].
  destruct (fol_eqb g (m_file m)) eqn:E.
  - intros _. exists (m_file_id m). rewrite N.eqb_refl. auto.
  - intros [H|H]; [subst; rewrite fol_eqb_refl in E; discriminate|].
    destruct (IH H) as (k & Ek & Hk). exists k. split; [exact Ek|]. rewrite Hk. apply orb_true_r.
Qed.

(* the part of the state the Panic sites depend on *)
Record Inv (st : rstate) : Prop := mkInv {
  i_n2f : st_n2f st = N2F;
  i_dom : forall f, fol_get (st_ns st) f <> None <-> In f files;
  i_ns : forall f t x g sp, fol_get (st_ns st) f = Some t -> ns_get t x = Some (NNamespace g sp) -> In g files
}.

Lemma Inv_ext st st' : st_ns st' = st_ns st -> st_n2f st' = st_n2f st -> Inv st -> Inv st'.
Proof. intros H1 H2 [A B C]. constructor; rewrite ?H1, ?H2; auto. Qed.

Definition rgood {A} (r : res A) : Prop :=
  match r with Ok _ => True | Err es => es <> [] | _ => False end.

Definition good_res {A} (r : res (A * rstate)) : Prop :=
  match r with Ok (_, st') => Inv st' | Err es => es <> [] | _ => False end.

Definition tot {A} (m : M A) : Prop := forall st, Inv st -> good_res (m st).

(* ---- read-only parts ---- *)

Lemma lookup_global_ok st fid x : Inv st -> existsb (N.eqb fid) ids = true -> exists o, lookup_global st fid x = Ok o.
Proof.
  intros [A B C] H. unfold lookup_global. rewrite A. destruct (n2f_get_some fid H) as (f & -> & Hin).
  apply B in Hin. destruct (fol_get (st_ns st) f); [eauto|contradiction].
Qed.

Lemma lookup_ok st x sp : Inv st -> fid_ok ids sp = true -> rgood (lookup st x sp).
Proof.
  intros HI H. unfold lookup. destruct (stack_find (st_stack st) x); [exact I|].
  destruct (lookup_global_ok st (sp_file sp) x HI H) as [o ->]. cbn.
  destruct o as [[r|f s0]|]; cbn; auto; discriminate.
Qed.

Lemma namespace_file_ok st fid a : Inv st -> existsb (N.eqb fid) ids = true ->
  exists o, namespace_file st fid a = Ok o /\ (forall g, o = Some g -> In g files).
Proof.
  intros HI H. induction a; cbn; try (exists None; split; [reflexivity|discriminate]).
  - destruct (lookup_global_ok st fid (i_name i) HI H) as [o E]. rewrite E. cbn.
    destruct o as [[r|f s0]|]; try (exists None; split; [reflexivity|discriminate]).
    exists (Some f). split; [reflexivity|]. intros g Eg. inversion Eg; subst.
    unfold lookup_global in E. rewrite (i_n2f _ HI) in E. destruct (n2f_get N2F fid) as [f0|]; [|discriminate].
    destruct (fol_get (st_ns st) f0) as [t|] eqn:Et; [|discriminate]. inversion E.
    eapply (i_ns _ HI); eauto.
  - destruct IHa as (o & -> & Ho). cbn. destruct o as [f|]; [|exists None; split; [reflexivity|discriminate]].
    rewrite (i_n2f _ HI). destruct (f2n_get_some f (Ho f eq_refl)) as (k & -> & Hk).
    destruct (lookup_global_ok st k (i_name field) HI Hk) as [o E]. rewrite E. cbn.
    destruct o as [[r|g s0]|]; try (exists None; split; [reflexivity|discriminate]).
    exists (Some g). split; [reflexivity|]. intros g' Eg. inversion Eg; subst.
    unfold lookup_global in E. rewrite (i_n2f _ HI) in E. destruct (n2f_get N2F k) as [f0|]; [|discriminate].
    destruct (fol_get (st_ns st) f0) as [t|] eqn:Et; [|discriminate]. inversion E.
    eapply (i_ns _ HI); eauto.
Qed.

Lemma namespace_list_ok st fid a : Inv st -> existsb (N.eqb fid) ids = true ->
  exists o, namespace_list st fid a = Ok o /\ (forall k, o = Some k -> existsb (N.eqb k) ids = true).
Proof.
  intros HI H. unfold namespace_list. destruct (namespace_file_ok st fid a HI H) as (o & -> & Ho). cbn.
  destruct o as [f|]; [|exists None; split; [reflexivity|discriminate]].
  rewrite (i_n2f _ HI). destruct (f2n_get_some f (Ho f eq_refl)) as (k & -> & Hk).
  exists (Some k). split; [reflexivity|]. intros k' E. inversion E; subst. exact Hk.
Qed.

Lemma ns_entry_file st fid x g sp : Inv st -> lookup_global st fid x = Ok (Some (NNamespace g sp)) -> In g files.
Proof.
  intros HI E. unfold lookup_global in E. destruct (n2f_get (st_n2f st) fid) as [f0|]; [|discriminate].
  destruct (fol_get (st_ns st) f0) as [t|] eqn:Et; [|discriminate]. inversion E. eapply (i_ns _ HI); eauto.
Qed.

Lemma namespace_type_list_ok st fid t : Inv st -> existsb (N.eqb fid) ids = true ->
  match namespace_type_list st fid t with
  | Ok k => existsb (N.eqb k) ids = true
  | Err es => es <> []
  | _ => False
  end.
Proof.
  intros HI H. induction t as [i sp|nl IH i sp]; cbn [namespace_type_list].
  - destruct (lookup_global_ok st fid (i_name i) HI H) as [o E]. rewrite E. cbn.
    destruct o as [[r|g s0]|]; cbn; try discriminate.
    rewrite (i_n2f _ HI). destruct (f2n_get_some g (ns_entry_file _ _ _ _ _ HI E)) as (k & -> & Hk). exact Hk.
  - destruct (namespace_type_list st fid nl) as [k| | |]; cbn; try contradiction; [|exact IH].
    destruct (lookup_global_ok st k (i_name i) HI IH) as [o E]. rewrite E. cbn.
    destruct o as [[r|g s0]|]; cbn; try discriminate.
    rewrite (i_n2f _ HI). destruct (f2n_get_some g (ns_entry_file _ _ _ _ _ HI E)) as (k' & -> & Hk). exact Hk.
Qed.

Lemma ty_assignable_ok st t : Inv st -> fk_ta ids t = true -> rgood (ty_assignable st t).
Proof.
  intros HI H. destruct t as [i sp|nl i sp]; cbn [ty_assignable fk_ta] in *.
  - apply lookup_ok; assumption.
  - pose proof (namespace_type_list_ok st (sp_file sp) nl HI H) as Hn.
    destruct (namespace_type_list st (sp_file sp) nl) as [k| | |]; cbn; try contradiction; [|exact Hn].
    destruct (lookup_global_ok st k (i_name i) HI Hn) as [o ->]. cbn.
    destruct o as [[r|g s0]|]; cbn; auto; discriminate.
Qed.

Lemma mapR_ok {X Y} (f : X -> res Y) l : (forall x, In x l -> rgood (f x)) -> rgood (mapR f l).
Proof.
  induction l as [|x l IH]; intros H; cbn; auto.
  pose proof (H x (or_introl eq_refl)) as Hx. destruct (f x); cbn in *; try contradiction; auto.
  assert (Hl : rgood (mapR f l)) by (apply IH; intros z Hz; apply H; right; exact Hz).
  destruct (mapR f l); cbn in *; auto.
Qed.

Lemma ty_r_ok st : Inv st -> forall n t, pty_size t <= n -> fk_ty ids t = true -> rgood (ty_r st t).
Proof.
  intros HI. induction n as [|n IH]; intros t Hsz Hk; [destruct t; cbn in Hsz; lia|].
  assert (Hl : forall l, sum_with pty_size l <= n -> all_with (fk_ty ids) l = true -> rgood (mapR (ty_r st) l)).
  { intros l Hl Ha. apply mapR_ok. intros x Hx. apply IH; [|eapply all_with_in; eauto].
    pose proof (sum_with_in pty_size _ _ Hx). lia. }
  destruct t; cbn [ty_r fk_ty pty_size] in *; try exact I.
  - apply andb_true_iff in Hk as [Hk1 Hk2]. pose proof (ty_assignable_ok st t HI Hk1) as Ht.
    destruct (ty_assignable st t); cbn in *; try contradiction; auto.
    pose proof (Hl args ltac:(lia) Hk2) as Ha. destruct (mapR (ty_r st) args); cbn in *; auto.
  - apply andb_true_iff in Hk as [Hk1 Hk2]. pose proof (Hl params ltac:(lia) Hk1) as Ha.
    destruct (mapR (ty_r st) params); cbn in *; try contradiction; auto.
    pose proof (IH t ltac:(lia) Hk2) as Hr. destruct (ty_r st t); cbn in *; auto.
  - pose proof (Hl ts ltac:(lia) Hk) as Ha. destruct (mapR (ty_r st) ts); cbn in *; auto.
  - pose proof (IH t ltac:(lia) Hk) as Hr. destruct (ty_r st t); cbn in *; auto.
  - apply IH; [lia|exact Hk].
Qed.

Lemma ty_ok st t : Inv st -> fk_ty ids t = true -> rgood (ty_r st t).
Proof. intros HI H. eapply ty_r_ok; eauto. Qed.

Lemma fields_r_ok st fs : Inv st -> all_with (fun f => fk_ty ids (snd f)) fs = true ->
  exists oks errs, fields_r st fs = Ok (oks, errs).
Proof.
  intros HI. induction fs as [|[i t] fs IH]; cbn [fields_r all_with]; intros H; [eauto|].
  apply andb_true_iff in H as [Ht Hf]. destruct (IH Hf) as (oks & errs & ->). cbn [rbind snd].
  pose proof (ty_ok st t HI Ht) as Hr. cbn [snd] in *. destruct (ty_r st t); cbn in *; try contradiction; eauto.
Qed.

(* ---- the monad ---- *)

Lemma tot_ret {A} (a : A) : tot (ret a).
Proof. intros st HI. exact HI. Qed.

Lemma tot_bind {A C} (m : M A) (k : A -> M C) : tot m -> (forall a, tot (k a)) -> tot (bind m k).
Proof.
  intros Hm Hk st HI. unfold bind. specialize (Hm st HI). destruct (m st) as [[a s1]| | |]; cbn in *; auto.
  apply Hk. exact Hm.
Qed.

Lemma tot_fail {A} k sp : tot (@fail A k sp).
Proof. intros st HI. cbn. discriminate. Qed.

Lemma tot_lift {A} (f : rstate -> res A) : (forall st, Inv st -> rgood (f st)) -> tot (lift f).
Proof. intros H st HI. unfold lift. specialize (H st HI). destruct (f st); cbn in *; auto. Qed.

Lemma tot_mapM {X Y} (g : X -> M Y) l : (forall x, In x l -> tot (g x)) -> tot (mapM g l).
Proof.
  induction l as [|x l IH]; intros H; cbn [mapM]; [apply tot_ret|].
  apply tot_bind; [apply H; left; reflexivity|]. intros y.
  apply tot_bind; [apply IH; intros z Hz; apply H; right; exact Hz|]. intros ys. apply tot_ret.
Qed.

Lemma tot_block (rs : pstmt -> M (option stmt)) l : (forall s, In s l -> tot (rs s)) -> tot (block_with rs l).
Proof.
  induction l as [|x l IH]; intros H; cbn [block_with]; [apply tot_ret|].
  apply tot_bind; [apply H; left; reflexivity|]. intros y.
  apply tot_bind; [apply IH; intros z Hz; apply H; right; exact Hz|]. intros ys. apply tot_ret.
Qed.

Lemma tot_new_var g i k : tot (new_var_g g i k).
Proof. intros st HI. cbn. eapply Inv_ext; [| |exact HI]; reflexivity. Qed.
Lemma tot_push_name n r : tot (push_name n r).
Proof. intros st HI. cbn. eapply Inv_ext; [| |exact HI]; reflexivity. Qed.
Lemma tot_push_var i k : tot (push_var i k).
Proof. unfold push_var. apply tot_bind; [apply tot_new_var|]. intros r. apply tot_bind; [apply tot_push_name|]. intros _. apply tot_ret. Qed.
Lemma tot_stack_len : tot stack_len. Proof. intros st HI. exact HI. Qed.
Lemma tot_get_stack : tot get_stack. Proof. intros st HI. exact HI. Qed.
Lemma tot_set_stack s : tot (set_stack s).
Proof. intros st HI. cbn. eapply Inv_ext; [| |exact HI]; reflexivity. Qed.
Lemma tot_truncate n : tot (truncate n).
Proof. intros st HI. cbn. eapply Inv_ext; [| |exact HI]; reflexivity. Qed.
Lemma tot_truncate_if b n : tot (truncate_if b n).
Proof. destruct b; [apply tot_truncate|apply tot_ret]. Qed.

Lemma tot_lookup x sp : fid_ok ids sp = true -> tot (lift (fun st => lookup st x sp)).
Proof. intros H. apply tot_lift. intros st HI. apply lookup_ok; assumption. Qed.

Lemma tot_ty t : fk_ty ids t = true -> tot (lift (fun st => ty_r st t)).
Proof. intros H. apply tot_lift. intros st HI. apply ty_ok; assumption. Qed.

Lemma tot_fields fs : all_with (fun f => fk_ty ids (snd f)) fs = true -> tot (fields_m fs).
Proof.
  intros H. unfold fields_m. apply tot_lift. intros st HI. destruct (fields_r_ok st fs HI H) as (oks & errs & ->).
  cbn. destruct errs; cbn; [exact I|discriminate].
Qed.

(* ---- expressions, assignables, statements: enough fuel ---- *)

Definition Te (f : nat) : Prop := forall x, depth_e x <= f -> fk_e ids x = true -> tot (expr_r fl f x).
Definition Ta (f : nat) : Prop := forall a, depth_a a <= f -> fk_a ids a = true -> tot (assign_r fl f a).
Definition Ts (f : nat) : Prop := forall s, depth_s s <= f -> fk_s ids s = true -> tot (stmt_r fl f s).

Ltac ksplit H :=
  repeat match goal with
         | H0 : (_ && _) = true |- _ => let H1 := fresh "Hk" in apply andb_true_iff in H0 as [H0 H1]
         end.

Section Step.
Variable f : nat.
Hypothesis IHe : Te f.
Hypothesis IHa : Ta f.
Hypothesis IHs : Ts f.

Lemma t_args l : list_max depth_e l <= f -> all_with (fk_e ids) l = true -> tot (mapM (expr_r fl f) l).
Proof.
  intros Hd Hk. apply tot_mapM. intros x Hx. apply IHe; [|eapply all_with_in; eauto].
  pose proof (list_max_in depth_e l x Hx). lia.
Qed.

Lemma t_blocks l : list_max depth_s l <= f -> all_with (fk_s ids) l = true -> tot (block_with (stmt_r fl f) l).
Proof.
  intros Hd Hk. apply tot_block. intros x Hx. apply IHs; [|eapply all_with_in; eauto].
  pose proof (list_max_in depth_s l x Hx). lia.
Qed.

Lemma t_optM o : match o with Some c => depth_e c | None => 0 end <= f ->
  (match o with Some c => fk_e ids c | None => true end) = true -> tot (optM (expr_r fl f) o).
Proof.
  intros Hd Hk. destruct o as [c|]; cbn [optM]; [|apply tot_ret].
  apply tot_bind; [apply IHe; assumption|]. intros y. apply tot_ret.
Qed.

Lemma t_binop op a b sp : Nat.max (depth_e a) (depth_e b) <= f -> fk_e ids a && fk_e ids b = true ->
  tot (binop_with (expr_r fl f) op a b sp).
Proof.
  intros Hd Hk. ksplit Hk. unfold binop_with. apply tot_bind; [apply IHe; [lia|assumption]|]. intros x.
  apply tot_bind; [apply IHe; [lia|assumption]|]. intros y. apply tot_ret.
Qed.

Lemma t_uniop op a sp : depth_e a <= f -> fk_e ids a = true -> tot (uniop_with (expr_r fl f) op a sp).
Proof. intros Hd Hk. unfold uniop_with. apply tot_bind; [apply IHe; assumption|]. intros x. apply tot_ret. Qed.

Lemma tstep_e : Te (S f).
Proof.
  intros x Hd Hk. destruct x; cbn [expr_r]; cbn [depth_e] in Hd; cbn [fk_e] in Hk; apply le_S_n in Hd;
    try apply tot_ret.
  - apply IHa; assumption.
  - apply t_binop; assumption.
  - apply t_binop; assumption.
  - apply t_binop; assumption.
  - apply t_binop; assumption.
  - apply t_uniop; assumption.
  - apply t_binop; assumption.
  - apply t_binop; assumption.
  - apply t_binop; assumption.
  - apply t_binop; assumption.
  - apply t_uniop; assumption.
  - apply IHe; assumption.
  - (* PIf *)
    apply tot_bind; [|intros y; apply tot_ret]. apply tot_mapM. intros b Hb.
    match type of Hd with context [list_max ?g branches] => pose proof (list_max_in g _ _ Hb) as Hdb end.
    pose proof (all_with_in _ _ _ Hk Hb) as Hkb.
    destruct b as [c body bsp]. cbn beta iota in Hdb, Hkb. ksplit Hkb. cbn [if_branch_with].
    apply tot_bind; [apply t_optM; [destruct c; lia|assumption]|]. intros c'.
    apply tot_bind; [apply tot_stack_len|]. intros len.
    apply tot_bind; [apply t_blocks; [lia|assumption]|]. intros b'.
    apply tot_bind; [apply tot_truncate_if|]. intros _. apply tot_ret.
  - (* PCase *)
    ksplit Hk.
    apply tot_bind; [apply IHe; [lia|assumption]|]. intros tm'.
    apply tot_bind.
    { apply tot_mapM. intros b Hb.
      match type of Hd with context [list_max ?g branches] => pose proof (list_max_in g _ _ Hb) as Hdb end.
      pose proof (all_with_in _ _ _ Hk1 Hb) as Hkb.
      destruct b as [pat v body]. cbn beta iota in Hdb, Hkb. cbn [case_branch_with].
      apply tot_bind; [apply tot_stack_len|]. intros len.
      apply tot_bind.
      { destruct v as [i|]; cbn [optM]; [|apply tot_ret].
        apply tot_bind; [apply tot_push_var|]. intros r. apply tot_ret. }
      intros v'.
      apply tot_bind; [apply t_blocks; [lia|assumption]|]. intros b'.
      apply tot_bind; [apply tot_truncate_if|]. intros _. apply tot_ret. }
    intros brs'.
    apply tot_bind; [|intros y; apply tot_ret].
    destruct fall_through as [ft|]; cbn [optM]; [|apply tot_ret].
    apply tot_bind; [|intros y; apply tot_ret].
    apply tot_bind; [apply tot_stack_len|]. intros len.
    apply tot_bind; [apply t_blocks; [lia|assumption]|]. intros b'.
    apply tot_bind; [apply tot_truncate_if|]. intros _. apply tot_ret.
  - (* PFunction *)
    ksplit Hk.
    apply tot_bind; [apply tot_stack_len|]. intros ss.
    apply tot_bind.
    { apply tot_mapM. intros p Hp. pose proof (all_with_in _ _ _ Hk Hp) as Hkp. destruct p as [n t]. cbn [snd] in Hkp.
      cbn [param_r]. apply tot_bind; [apply tot_push_var|]. intros v.
      apply tot_bind; [apply tot_ty; assumption|]. intros t'. apply tot_ret. }
    intros ps.
    apply tot_bind; [apply tot_ty; assumption|]. intros rt'.
    apply tot_bind; [apply t_blocks; assumption|]. intros b'.
    apply tot_bind; [apply tot_truncate|]. intros _. apply tot_ret.
  - (* PBlob *)
    ksplit Hk.
    apply tot_bind; [apply tot_lift; intros st HI; apply ty_assignable_ok; assumption|]. intros b.
    apply tot_bind; [apply tot_new_var|]. intros sv.
    apply tot_bind; [|intros y; apply tot_ret].
    apply tot_mapM. intros p Hp. pose proof (all_with_in _ _ _ Hk0 Hp) as Hkp.
    pose proof (list_max_in (fun f0 => depth_e (snd f0)) _ _ Hp) as Hdp. destruct p as [n v]. cbn [snd] in *.
    cbn [blob_field_with].
    apply tot_bind; [apply tot_stack_len|]. intros ss.
    apply tot_bind; [destruct (is_function v); [apply tot_push_name|apply tot_ret]|]. intros _.
    apply tot_bind; [apply IHe; [lia|assumption]|]. intros v'.
    apply tot_bind; [apply tot_truncate|]. intros _. apply tot_ret.
  - apply tot_bind; [apply t_args; assumption|]. intros y. apply tot_ret.
  - apply tot_bind; [apply t_args; assumption|]. intros y. apply tot_ret.
Qed.

Lemma tstep_a : Ta (S f).
Proof.
  intros a Hd Hk. destruct a; cbn [assign_r]; cbn [depth_a] in Hd; cbn [fk_a] in Hk; apply le_S_n in Hd.
  - apply tot_bind; [apply tot_lookup; assumption|]. intros v. apply tot_ret.
  - ksplit Hk. apply tot_bind; [apply IHa; [lia|assumption]|]. intros x.
    destruct x; try apply tot_fail.
    apply tot_bind; [apply IHe; [lia|assumption]|]. intros y. apply tot_ret.
  - ksplit Hk. apply tot_bind; [apply IHa; [lia|assumption]|]. intros x.
    apply tot_bind; [apply t_args; [lia|assumption]|]. intros y. apply tot_ret.
  - ksplit Hk. apply tot_bind; [apply IHe; [lia|assumption]|]. intros z.
    apply tot_bind; [apply IHa; [lia|assumption]|]. intros x.
    apply tot_bind; [apply t_args; [lia|assumption]|]. intros y. apply tot_ret.
  - (* AAccess *)
    ksplit Hk.
    intros st HI. unfold bind at 1. unfold lift at 1. unfold access_namespace.
    assert (Hns : exists o, (if access_local_first fl && root_on_stack st a then Ok None
                             else namespace_list st (sp_file sp) a) = Ok o
                            /\ (forall k, o = Some k -> existsb (N.eqb k) ids = true)).
    { destruct (access_local_first fl && root_on_stack st a).
      - exists None. split; [reflexivity|discriminate].
      - apply namespace_list_ok; assumption. }
    destruct Hns as (o & -> & Ho). destruct o as [ns|].
    + revert st HI. fold (tot (o <- lift (fun st0 => lookup_global st0 ns (i_name field)) ;;
                               match o with
                               | Some (NName v) => ret (ERead v (i_span field))
                               | Some (NNamespace _ _) => fail ENamespaceFound sp
                               | None => fail ENothingMatched sp
                               end)).
      apply tot_bind.
      { apply tot_lift. intros st HI. destruct (lookup_global_ok st ns (i_name field) HI (Ho ns eq_refl)) as [o ->]. exact I. }
      intros o. destruct o as [[v|f0 s0]|]; [apply tot_ret|apply tot_fail|apply tot_fail].
    + revert st HI. fold (tot (v <- assign_r fl f a ;; ret (EBlobAccess v (i_name field) (i_span field)))).
      apply tot_bind; [apply IHa; assumption|]. intros v. apply tot_ret.
  - ksplit Hk. apply tot_bind; [apply IHa; [lia|assumption]|]. intros x.
    apply tot_bind; [apply IHe; [lia|assumption]|]. intros y. apply tot_ret.
  - apply IHe; assumption.
Qed.

Lemma tstep_s : Ts (S f).
Proof.
  intros s Hd Hk. destruct s; cbn [stmt_r]; cbn [depth_s] in Hd; cbn [fk_s] in Hk; apply le_S_n in Hd;
    try apply tot_ret.
  - (* PBlobDef *)
    ksplit Hk. apply tot_bind; [apply tot_lookup; assumption|]. intros v.
    apply tot_bind; [apply tot_fields; assumption|]. intros fs. apply tot_ret.
  - (* PEnumDef *)
    ksplit Hk. apply tot_bind; [apply tot_lookup; assumption|]. intros v.
    apply tot_bind; [apply tot_fields; assumption|]. intros fs. apply tot_ret.
  - (* PAssignment *)
    ksplit Hk. apply tot_bind; [apply IHe; [lia|assumption]|]. intros y.
    apply tot_bind; [apply IHa; [lia|assumption]|]. intros x. apply tot_ret.
  - (* PDefinition *)
    ksplit Hk.
    apply tot_bind; [apply tot_get_stack|]. intros stack.
    apply tot_bind.
    { destruct stack as [|p0 rest].
      - apply tot_bind; [apply tot_push_var|]. intros _.
        apply tot_bind; [apply IHe; assumption|]. intros y.
        apply tot_bind; [apply tot_set_stack|]. intros _.
        apply tot_bind; [apply tot_lookup; assumption|]. intros v. apply tot_ret.
      - destruct (is_function value).
        + apply tot_bind; [apply tot_push_var|]. intros v.
          apply tot_bind; [apply IHe; assumption|]. intros y. apply tot_ret.
        + apply tot_bind; [apply IHe; assumption|]. intros y.
          apply tot_bind; [apply tot_push_var|]. intros v. apply tot_ret. }
    intros vv.
    apply tot_bind; [apply tot_ty; assumption|]. intros t'. apply tot_ret.
  - (* PExternalDefinition *)
    ksplit Hk. apply tot_bind; [apply tot_lookup; assumption|]. intros v.
    apply tot_bind; [apply tot_ty; assumption|]. intros t'. apply tot_ret.
  - (* PLoop *)
    ksplit Hk. apply tot_bind; [apply IHe; [lia|assumption]|]. intros c.
    apply tot_bind; [apply IHs; [lia|assumption]|]. intros b. apply tot_ret.
  - (* PRet *)
    apply tot_bind; [apply t_optM; destruct value; (assumption || lia)|]. intros v. apply tot_ret.
  - (* PBlock *)
    apply tot_bind; [apply tot_stack_len|]. intros len.
    apply tot_bind; [apply t_blocks; assumption|]. intros b.
    apply tot_bind; [apply tot_truncate|]. intros _. apply tot_ret.
  - (* PStatementExpression *)
    apply tot_bind; [apply IHe; assumption|]. intros v. apply tot_ret.
Qed.

End Step.

Lemma depth_pos : (forall x, 1 <= depth_e x) /\ (forall a, 1 <= depth_a a) /\ (forall s, 1 <= depth_s s).
Proof. split; [|split]; intros x; destruct x; cbn; lia. Qed.

Lemma t_all : forall f, Te f /\ Ta f /\ Ts f.
Proof.
  induction f as [|f (IHe & IHa & IHs)].
  - destruct depth_pos as (He & Ha & Hs).
    split; [|split]; intros x Hd _; [specialize (He x)|specialize (Ha x)|specialize (Hs x)]; lia.
  - split; [apply tstep_e; assumption|]. split; [apply tstep_a; assumption|apply tstep_s; assumption].
Qed.

(* ---- the namespace passes ---- *)

Definition names_only (t : nstable) : Prop := forall x v, ns_get t x = Some v -> exists r, v = NName r.

Lemma add_definitions_tot ss : forall t st, names_only t ->
  match add_definitions ss t st with
  | Ok (t', st') => st_ns st' = st_ns st /\ st_n2f st' = st_n2f st /\ names_only t'
  | Err es => es <> []
  | _ => False
  end.
Proof.
  induction ss as [|s ss IH]; intros t st Hn; cbn [add_definitions]; [cbn; auto|].
  destruct (defined_ident s) as [[i k]|]; [|apply IH; exact Hn].
  unfold bind, new_global, new_var_g. destruct (ns_get t (i_name i)) eqn:E; [cbn; discriminate|].
  match goal with |- match add_definitions ss ?t1 ?s1 with _ => _ end =>
    assert (H1 : names_only t1); [|specialize (IH t1 s1 H1)] end.
  { intros x v. cbn. destruct (String.eqb x (i_name i)); [intros Ev; inversion Ev; eauto|apply Hn]. }
  destruct (add_definitions ss _ _) as [[t' st']| | |]; auto.
Qed.

(* after the first pass over a prefix of the modules *)
Record P1 (done : list pmodule) (st : rstate) : Prop := mkP1 {
  p_n2f : st_n2f st = N2F;
  p_dom : forall f, fol_get (st_ns st) f <> None -> In f (map m_file done);
  p_done : forall m, In m done -> fol_get (st_ns st) (m_file m) <> None;
  p_names : forall f t, fol_get (st_ns st) f = Some t -> names_only t
}.

Lemma pass1_tot ms : forall done st, P1 done st ->
  match for_each insert_namespace_and_add_definitions ms st with
  | Ok (_, st') => P1 (done ++ ms) st'
  | Err es => es <> []
  | _ => False
  end.
Proof.
  induction ms as [|m ms IH]; intros done st HP; cbn [for_each]; [cbn; rewrite app_nil_r; exact HP|].
  unfold bind at 1. unfold insert_namespace_and_add_definitions. unfold bind at 1.
  pose proof (add_definitions_tot (m_stmts m) [] st ltac:(intros x v H; discriminate)) as Ha.
  destruct (add_definitions (m_stmts m) [] st) as [[t st1]| | |]; try contradiction; [|exact Ha].
  destruct Ha as (E1 & E2 & Hn). unfold set_namespace. cbn beta iota.
  replace (done ++ m :: ms) with ((done ++ [m]) ++ ms) by (rewrite <- app_assoc; reflexivity).
  apply IH. destruct HP as [A B C D]. constructor; cbn [st_ns st_n2f].
  - congruence.
  - intros f Hf. rewrite map_app. apply in_or_app. destruct (fol_eqb f (m_file m)) eqn:Ef.
    + apply fol_eqb_eq in Ef. subst. right. left. reflexivity.
    + left. apply B. rewrite E1 in Hf. rewrite fol_get_set_other in Hf; [exact Hf|].
      intros ->. rewrite fol_eqb_refl in Ef. discriminate.
  - intros m0 Hm0. apply in_app_or in Hm0 as [Hm0|[<-|[]]].
    + destruct (fol_eqb (m_file m0) (m_file m)) eqn:Ef.
      * apply fol_eqb_eq in Ef. rewrite Ef, E1, fol_get_set_same. discriminate.
      * rewrite E1, fol_get_set_other; [apply C; exact Hm0|]. intros Eq. rewrite Eq, fol_eqb_refl in Ef. discriminate.
    + rewrite E1, fol_get_set_same. discriminate.
  - intros f t0 Hf. rewrite E1 in Hf. destruct (fol_eqb f (m_file m)) eqn:Ef.
    + apply fol_eqb_eq in Ef. subst. rewrite fol_get_set_same in Hf. inversion Hf; subst. exact Hn.
    + rewrite fol_get_set_other in Hf; [eapply D; eauto|]. intros ->. rewrite fol_eqb_refl in Ef. discriminate.
Qed.

Lemma P1_Inv st : P1 ast st -> Inv st.
Proof.
  intros [A B C D]. constructor; [exact A| |].
  - intros f. split; [apply B|]. intros Hf. apply in_map_iff in Hf as (m & <- & Hm). apply C. exact Hm.
  - intros f t x g sp Hf Hx. destruct (D f t Hf x _ Hx) as [r Hr]. discriminate.
Qed.

Lemma import_name_tot f nm v k sp :
  In f files -> (forall g s0, v = NNamespace g s0 -> In g files) -> tot (import_name f nm v k sp).
Proof.
  intros Hf Hv st HI. unfold import_name. destruct (fol_get (st_ns st) f) as [t|] eqn:Et.
  2:{ apply (i_dom _ HI) in Hf. contradiction. }
  destruct (ns_get t nm) as [old|] eqn:En.
  - destruct (name_eqb old v); cbn; [exact HI|discriminate].
  - unfold set_namespace. cbn. destruct HI as [A B C]. constructor; cbn [st_ns st_n2f]; [exact A| |].
    + intros g. destruct (fol_eqb g f) eqn:Eg.
      * apply fol_eqb_eq in Eg. subst. rewrite fol_get_set_same. split; [intros _; exact Hf|discriminate].
      * rewrite fol_get_set_other; [apply B|]. intros ->. rewrite fol_eqb_refl in Eg. discriminate.
    + intros g t0 x g0 s0 Hg Hx. destruct (fol_eqb g f) eqn:Eg.
      * apply fol_eqb_eq in Eg. subst. rewrite fol_get_set_same in Hg. inversion Hg; subst. cbn in Hx.
        destruct (String.eqb x nm); [inversion Hx; subst; eapply Hv; eauto|eapply C; eauto].
      * rewrite fol_get_set_other in Hg; [eapply C; eauto|]. intros ->. rewrite fol_eqb_refl in Eg. discriminate.
Qed.

Lemma from_imports_tot f file sp imps : In f files -> tot (from_imports f file sp imps).
Proof.
  intros Hf. induction imps as [|[nm al] rest IH]; cbn [from_imports]; [apply tot_ret|].
  intros st HI. unfold bind at 1. unfold get_ns. destruct (fol_get (st_ns st) file) as [from_ns|] eqn:Ef; [|cbn; discriminate].
  destruct (ns_get from_ns (i_name nm)) as [v|] eqn:Ev; [|cbn; discriminate].
  revert st HI Ef. intros st HI Ef.
  assert (Hv : forall g s0, v = NNamespace g s0 -> In g files).
  { intros g s0 ->. eapply (i_ns _ HI); eauto. }
  apply (tot_bind _ _ (import_name_tot f _ v ECollisionFrom _ Hf Hv) (fun _ => IH) st HI).
Qed.

Lemma rgv_tot f ss : In f files -> tot (resolve_global_variables f ss).
Proof.
  intros Hf. induction ss as [|s ss IH]; cbn [resolve_global_variables]; [apply tot_ret|].
  apply tot_bind; [|intros _; exact IH].
  destruct s; try apply tot_ret.
  - intros st HI. cbn zeta. unfold bind at 1. unfold get_ns.
    destruct (fol_get (st_ns st) file) as [t|] eqn:Ef; [|cbn; discriminate].
    apply import_name_tot; [exact Hf| |exact HI].
    intros g s0 E. inversion E; subst. apply (i_dom _ HI). rewrite Ef. discriminate.
  - apply from_imports_tot. exact Hf.
Qed.

Lemma tot_for_each {X} (g : X -> M unit) l : (forall x, In x l -> tot (g x)) -> tot (for_each g l).
Proof.
  induction l as [|x l IH]; intros H; cbn [for_each]; [apply tot_ret|].
  apply tot_bind; [apply H; left; reflexivity|]. intros _. apply IH. intros z Hz. apply H. right. exact Hz.
Qed.

(* the import pass repeated to a fixpoint: the quiet rounds keep the invariant, never fail, and the number of
   rounds granted is enough (ImportFix.import_rounds_total) *)
Lemma tot_try m : tot m -> tot (try_ m).
Proof. intros H st HI. specialize (H st HI). unfold try_. destruct (m st) as [[u s]| | |]; auto. Qed.

Lemma quiet_round_tot : tot (quiet_round ast).
Proof.
  apply tot_for_each. intros m Hm. apply tot_for_each. intros s _.
  assert (Hf : In (m_file m) files) by (apply in_map; exact Hm).
  destruct s; try apply tot_ret.
  - apply tot_try, rgv_tot, Hf.
  - apply tot_for_each. intros it _. apply tot_try, from_imports_tot, Hf.
Qed.

Lemma import_rounds_inv n : forall st u st', Inv st -> import_rounds n ast st = Ok (u, st') -> Inv st'.
Proof.
  induction n as [|n IH]; intros st u st' HI H; [discriminate|]. cbn [import_rounds] in H.
  pose proof (quiet_round_tot st HI) as Hq. destruct (quiet_round ast st) as [[u1 s1]| | |]; try discriminate.
  cbn in Hq. destruct (Nat.eqb (names_count s1) (names_count st)); [inversion H; subst; exact Hq|eapply IH; eauto].
Qed.

Lemma import_pass_tot b : tot (import_pass b ast).
Proof.
  unfold import_pass. apply tot_bind.
  - destruct b; [|apply tot_ret]. intros st HI.
    destruct (import_rounds_total ast st) as (st' & E).
    { intros m Hm. apply (i_dom _ HI). apply in_map. exact Hm. }
    rewrite E. cbn. eapply import_rounds_inv; eauto.
  - intros _. apply tot_for_each. intros m Hm. apply rgv_tot. apply in_map. exact Hm.
Qed.

(* resolve_total *)
Theorem resolve_total fuel :
  tree_ok ast = true -> fuel_of ast <= fuel ->
  (exists r, resolve_fuel fl fuel ast = Ok r) \/ (exists e es, resolve_fuel fl fuel ast = Err (e :: es)).
Proof.
  intros Hok Hfuel. unfold tree_ok in Hok. apply andb_true_iff in Hok as [H0 Hk].
  assert (Hgood : good_res (resolve_m fl fuel ast (init_state ast))).
  { unfold resolve_m. unfold bind at 1.
    pose proof (pass1_tot ast [] (init_state ast)) as H1. cbn [app] in H1.
    assert (HP0 : P1 [] (init_state ast)).
    { constructor; cbn.
      - reflexivity.
      - intros f Hf. exfalso. apply Hf. reflexivity.
      - intros m [].
      - intros f t Hf. discriminate. }
    specialize (H1 HP0).
    destruct (for_each insert_namespace_and_add_definitions ast (init_state ast)) as [[[] s1]| | |];
      try contradiction; [|exact H1].
    apply P1_Inv in H1. revert s1 H1.
    fold (tot (_ <- import_pass (imports_fixpoint fl) ast ;;
               out <- block_with (stmt_r fl fuel) (flat_map m_stmts ast) ;;
               start <- lift (fun st => lookup_global st 0 "start") ;;
               match start with
               | None => fail ENoStart (span_zero 0)
               | Some _ => ret out
               end)).
    apply tot_bind.
    { apply import_pass_tot. }
    intros _. apply tot_bind.
    { apply tot_block. intros s Hs. apply in_flat_map in Hs as (m & Hm & Hs).
      apply (proj2 (proj2 (t_all fuel))).
      - unfold fuel_of in Hfuel.
        pose proof (list_max_in (fun m => list_max depth_s (m_stmts m)) ast m Hm) as H1.
        pose proof (list_max_in depth_s (m_stmts m) s Hs) as H2. cbn beta in H1. lia.
      - eapply all_with_in; [|exact Hs]. apply (all_with_in _ _ _ Hk Hm). }
    intros out. apply tot_bind.
    { apply tot_lift. intros st HI. destruct (lookup_global_ok st 0%N "start" HI H0) as [o ->]. exact I. }
    intros start. destruct start; [apply tot_ret|apply tot_fail]. }
  unfold resolve_fuel. destruct (resolve_m fl fuel ast (init_state ast)) as [[out st]|es| |]; cbn in Hgood;
    try contradiction.
  - left. eauto.
  - right. destruct es as [|e es]; [contradiction Hgood; reflexivity|eauto].
Qed.

End Total.

(* a span with a file id that is no module's: the hypothesis tree_ok is doing work *)
From Sylt Require Import Resolve.RefineRefuted.
Definition bad_tree : past :=
  main_ [fn_start [PStatementExpression (PGet (ARead (mkIdent "x" (mkSpan 7 2 2 1 2)) (mkSpan 7 2 2 1 2)) (mkSpan 0 2 2 1 2))
                                        (mkSpan 0 2 2 1 2)]].

Example total_example : forall fl,
  tree_ok w_nsfield_ok = true /\ tree_ok w_if = true /\ tree_ok bad_tree = false
  /\ (exists s, resolve fl bad_tree = Panic s).
Proof. intros [[] [] [] [] []]; (split; [|split; [|split]]); try (vm_compute; reflexivity); eexists; vm_compute; reflexivity. Qed.
