(* Extraction of the lexer model.  Directives: only those of ExtrOcamlBasic and ExtrOcamlString. *)
From Coq Require Import Extraction ExtrOcamlBasic ExtrOcamlString.
From Sylt Require Import Lex.Regex Lex.Logos Lex.DocTokens Gen.GenTokens.
Extraction Language OCaml.
Definition doc_tab := doc_table nd.
Extraction "lexmodel.ml" Logos.lex GenTokens.gen_table doc_tab.
