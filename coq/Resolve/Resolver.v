(* Model of sylt-compiler/src/name_resolution.rs (`resolve` and the `Resolver` it drives), following
   the code, not what the code should do: one mutable scope stack with push/truncate, the
   "function before / value after" rule for definitions, `self` for blob fields, per-file namespace
   tables, `lookup` / `lookup_global` / `namespace_list`, `insert_namespace_and_add_definitions`,
   `resolve_global_variables`.

   What is abstracted:
   - Only the FIRST error of the returned `Vec<Error>` is modelled (kind of message + span); the code
     keeps going after an error inside `block`/`type_vec` to collect more errors, the model stops.
     The first element of the vector is the error raised first, so this loses nothing for the first error.
   - `HashMap` iteration: the fields of a `blob`/`enum` statement are resolved in hash order by the
     code and the first failing one wins; the model returns *all* candidates (`Err alts`).
   - Help texts ("Maybe you ment", "First definition is here") and message wording are not modelled.
   - Indexing a missing map entry (`self.namespaces[..]`, `namespace_to_file[..]`) is `Panic`.
   Fuel: `expression`/`assignable`/`statement` recurse on the fuel; running out is `OutOfFuel`.
   Definitions only. *)
From Coq Require Import String List NArith ZArith Bool Ascii.
From Sylt Require Import Syntax.Resolved Resolve.PAst.
Import ListNotations.
Local Open Scope string_scope.

(* which `resolution_error!` site produced the error *)
Inductive ekind :=
| ENamespaceFound        (* "When resolving the name {:?} - a namespace was found" *)
| ENothingMatched        (* "Failed to resolve {:?} - nothing matched" *)
| ENotUserType           (* "This is not a reference to a user defined type" *)
| EVariableNotType       (* "{:?} is a variable, not a type" *)
| ENoType                (* "No type named {:?}" *)
| ENamespaceNotType      (* "{:?} is a namespace, not a type" *)
| EVariantNotRead        (* "This is not ok TODO(ed)" *)
| ECollisionDef          (* "Name collision - duplicate definitions of the namespace {:?}" *)
| ECollisionUse          (* "Name collision - duplicate definitions of {:?}" *)
| ECollisionFrom         (* "A Name collision - duplicate definitions of {:?}" *)
| ENoNamespace           (* "No namespace named {:?}" *)
| ECannotFind            (* "Cannot find {:?} in namespace {:?}" *)
| ENoStart.              (* "Expected a start function in the main module - but couldn't find it" *)

Record rerr := mkRErr { e_kind : ekind; e_span : span }.

Inductive res (A : Type) :=
| Ok (a : A)
| Err (alts : list rerr)   (* the first error; more than one element only where the code iterates a HashMap *)
| Panic (site : string)
| OutOfFuel.
Arguments Ok {A}. Arguments Err {A}. Arguments Panic {A}. Arguments OutOfFuel {A}.

Definition rbind {A B} (m : res A) (k : A -> res B) : res B :=
  match m with Ok a => k a | Err e => Err e | Panic s => Panic s | OutOfFuel => OutOfFuel end.

Definition err1 {A} (k : ekind) (sp : span) : res A := Err [mkRErr k sp].

Definition mapR {A B} (f : A -> res B) : list A -> res (list B) :=
  fix go (l : list A) : res (list B) :=
  match l with
  | [] => Ok []
  | x :: xs => rbind (f x) (fun y => rbind (go xs) (fun ys => Ok (y :: ys)))
  end.

(* enum Name *)
Inductive name := NName (r : N) | NNamespace (f : file_or_lib) (sp : span).

Definition name_eqb (a b : name) : bool :=
  match a, b with
  | NName r, NName s => N.eqb r s
  | NNamespace f sp, NNamespace g sq => fol_eqb f g && span_eqb sp sq
  | _, _ => false
  end.

Definition nstable := list (string * name).            (* HashMap<String, Name>; keys unique *)

Fixpoint ns_get (t : nstable) (k : string) : option name :=
  match t with
  | [] => None
  | (k', v) :: t' => if String.eqb k k' then Some v else ns_get t' k
  end.

Record rstate := mkSt {
  st_ns : list (file_or_lib * nstable);   (* namespaces: HashMap<FileOrLib, HashMap<String, Name>> *)
  st_stack : list (string * N);           (* the scope stack, top first *)
  st_vars : list var;                     (* variables, newest first *)
  st_next : N;                            (* = variables.len() *)
  st_n2f : list (N * file_or_lib)         (* namespace_to_file (constant) *)
}.

Fixpoint fol_get {V} (t : list (file_or_lib * V)) (k : file_or_lib) : option V :=
  match t with
  | [] => None
  | (k', v) :: t' => if fol_eqb k k' then Some v else fol_get t' k
  end.

Fixpoint fol_set {V} (t : list (file_or_lib * V)) (k : file_or_lib) (v : V) : list (file_or_lib * V) :=
  match t with
  | [] => [(k, v)]
  | (k', v') :: t' => if fol_eqb k k' then (k, v) :: t' else (k', v') :: fol_set t' k v
  end.

Fixpoint n2f_get (t : list (N * file_or_lib)) (k : N) : option file_or_lib :=
  match t with
  | [] => None
  | (k', v) :: t' => if N.eqb k k' then Some v else n2f_get t' k
  end.

(* file_to_namespace: the reversed map *)
Fixpoint f2n_get (t : list (N * file_or_lib)) (f : file_or_lib) : option N :=
  match t with
  | [] => None
  | (k, f') :: t' => if fol_eqb f f' then Some k else f2n_get t' f
  end.

(* fn lookup_global(&self, namespace_id, name) -> Option<&Name> *)
Definition lookup_global (st : rstate) (nsid : N) (nm : string) : res (option name) :=
  match n2f_get (st_n2f st) nsid with
  | None => Panic "lookup_global: namespace_to_file"
  | Some f =>
      match fol_get (st_ns st) f with
      | None => Panic "lookup_global: namespaces"
      | Some t => Ok (ns_get t nm)
      end
  end.

Fixpoint stack_find (s : list (string * N)) (nm : string) : option N :=
  match s with
  | [] => None
  | (n, r) :: s' => if String.eqb n nm then Some r else stack_find s' nm
  end.

(* fn lookup(&self, name, span) -> ResolveResult<Ref> *)
Definition lookup (st : rstate) (nm : string) (sp : span) : res N :=
  match stack_find (st_stack st) nm with
  | Some r => Ok r
  | None =>
      rbind (lookup_global st (sp_file sp) nm) (fun o =>
      match o with
      | Some (NName r) => Ok r
      | Some (NNamespace _ _) => err1 ENamespaceFound sp
      | None => err1 ENothingMatched sp
      end)
  end.

(* fn namespace_list(&self, namespace_id, assignable) -> Option<usize>; the inner match gives the file *)
Fixpoint namespace_file (st : rstate) (nsid : N) (a : passign) : res (option file_or_lib) :=
  match a with
  | ARead i _ =>
      rbind (lookup_global st nsid (i_name i)) (fun o =>
      match o with Some (NNamespace f _) => Ok (Some f) | _ => Ok None end)
  | AAccess prev i _ =>
      rbind (namespace_file st nsid prev) (fun of =>
      match of with
      | None => Ok None
      | Some f =>
          match f2n_get (st_n2f st) f with
          | None => Ok None
          | Some ns' =>
              rbind (lookup_global st ns' (i_name i)) (fun o =>
              match o with Some (NNamespace g _) => Ok (Some g) | _ => Ok None end)
          end
      end)
  | _ => Ok None
  end.

Definition namespace_list (st : rstate) (nsid : N) (a : passign) : res (option N) :=
  rbind (namespace_file st nsid a) (fun of =>
  match of with None => Ok None | Some f => Ok (f2n_get (st_n2f st) f) end).

(* fn namespace_type_list(&self, namespace_id, ty_ass) -> ResolveResult<NamespaceID> *)
Fixpoint namespace_type_list (st : rstate) (nsid : N) (t : ptassign) : res N :=
  let finish (o : option name) (i : ident) : res N :=
    match o with
    | Some (NName _) => err1 EVariableNotType (i_span i)
    | None => err1 ENoType (i_span i)
    | Some (NNamespace f _) =>
        match f2n_get (st_n2f st) f with
        | Some n => Ok n
        | None => Panic "namespace_type_list: file_to_namespace"
        end
    end in
  match t with
  | TARead i _ => rbind (lookup_global st nsid (i_name i)) (fun o => finish o i)
  | TAAccess nl i _ =>
      rbind (namespace_type_list st nsid nl) (fun ns' =>
      rbind (lookup_global st ns' (i_name i)) (fun o => finish o i))
  end.

(* fn ty_assignable(&self, ty_ass) -> ResolveResult<Type>; always a UserType: returns the Ref *)
Definition ty_assignable (st : rstate) (t : ptassign) : res N :=
  match t with
  | TARead i _ => lookup st (i_name i) (i_span i)
  | TAAccess nl i sp =>
      rbind (namespace_type_list st (sp_file sp) nl) (fun ns' =>
      rbind (lookup_global st ns' (i_name i)) (fun o =>
      match o with
      | Some (NName r) => Ok r
      | None => err1 ENoType (i_span i)
      | Some (NNamespace _ _) => err1 ENamespaceNotType (i_span i)
      end))
  end.

(* fn ty(&self, ty) -> ResolveResult<Type> (type_vec: the first failing element gives the first error) *)
Fixpoint ty_r (st : rstate) (t : pty) : res ty :=
  match t with
  | PTImplied sp => Ok (TImplied sp)
  | PTResolved b sp => Ok (TResolved b sp)
  | PTUser ta gs sp =>
      rbind (ty_assignable st ta) (fun r =>
      rbind (mapR (ty_r st) gs) (fun gs' => Ok (TUser r gs' sp)))
  | PTFn cs params rt is_pure sp =>
      rbind (mapR (ty_r st) params) (fun ps =>
      rbind (ty_r st rt) (fun r => Ok (TFn cs ps r is_pure sp)))
  | PTTuple ts sp => rbind (mapR (ty_r st) ts) (fun ts' => Ok (TTuple ts' sp))
  | PTList t' sp => rbind (ty_r st t') (fun t'' => Ok (TList t'' sp))
  | PTGeneric n sp => Ok (TGeneric n sp)
  | PTGrouping t' _ => ty_r st t'
  end.

(* ---------------------------------------------------------------------------------------------- *)
(* the state monad of the `&mut self` methods *)

Definition M (A : Type) := rstate -> res (A * rstate).
Definition ret {A} (a : A) : M A := fun st => Ok (a, st).
Definition bind {A B} (m : M A) (k : A -> M B) : M B :=
  fun st => match m st with
            | Ok (a, st') => k a st'
            | Err e => Err e | Panic s => Panic s | OutOfFuel => OutOfFuel
            end.
Definition lift {A} (f : rstate -> res A) : M A :=
  fun st => match f st with Ok a => Ok (a, st) | Err e => Err e | Panic s => Panic s | OutOfFuel => OutOfFuel end.
Definition fail {A} (k : ekind) (sp : span) : M A := fun _ => err1 k sp.

Notation "x <- m ;; k" := (bind m (fun x => k)) (at level 61, m at next level, right associativity).

Fixpoint mapM {A B} (f : A -> M B) (l : list A) : M (list B) :=
  match l with
  | [] => ret []
  | x :: xs => y <- f x ;; ys <- mapM f xs ;; ret (y :: ys)
  end.

Definition optM {A B} (f : A -> M B) (o : option A) : M (option B) :=
  match o with None => ret None | Some a => b <- f a ;; ret (Some b) end.

(* fn new_var / new_global *)
Definition new_var_g (global : bool) (i : ident) (k : varkind) : M N :=
  fun st =>
    let id := st_next st in
    Ok (id, mkSt (st_ns st) (st_stack st) (mkVar id (i_name i) (i_span i) global k :: st_vars st)
                 (N.succ id) (st_n2f st)).
Definition new_var := new_var_g false.
Definition new_global := new_var_g true.

Definition set_stack (s : list (string * N)) : M unit :=
  fun st => Ok (tt, mkSt (st_ns st) s (st_vars st) (st_next st) (st_n2f st)).
Definition get_stack : M (list (string * N)) := fun st => Ok (st_stack st, st).

Definition push_name (nm : string) (r : N) : M unit :=
  s <- get_stack ;; set_stack ((nm, r) :: s).

(* fn push_var *)
Definition push_var (i : ident) (k : varkind) : M N :=
  r <- new_var i k ;; _ <- push_name (i_name i) r ;; ret r.

(* Vec::truncate(len): keep the `len` oldest entries (the stack is kept top first) *)
Definition truncate_to (len : nat) (s : list (string * N)) : list (string * N) :=
  skipn (length s - len) s.
Definition stack_len : M nat := s <- get_stack ;; ret (length s).
Definition truncate (len : nat) : M unit := s <- get_stack ;; set_stack (truncate_to len s).

(* fn block: statements that resolve to None (use, from-use, empty) are dropped *)
Fixpoint block_with (rs : pstmt -> M (option stmt)) (ss : list pstmt) : M (list stmt) :=
  match ss with
  | [] => ret []
  | s :: ss' =>
      o <- rs s ;;
      rest <- block_with rs ss' ;;
      ret (match o with Some s' => s' :: rest | None => rest end)
  end.

(* Whether `fn if_branch` / `fn case_branch` restore the stack (`self.stack.truncate(..)`) when they
   are done.  On the pinned tree neither does: what a branch body (or a case arm, including its bound
   variable, or the `else` block of a case) pushes stays on the stack.  The flags are regenerated from name_resolution.rs on
   every run (tools/gens/gen_resolve.py -> Gen/GenResolve.v). *)
Record rflags := mkFlags {
  if_truncates : bool;        (* fn if_branch *)
  case_truncates : bool;      (* fn case_branch *)
  else_truncates : bool;      (* the `fall_through` block of a case, resolved inside fn expression *)
  access_local_first : bool;  (* `x.f`: is x looked up on the scope stack before the namespace table?
                                 On the pinned tree it is not (AK::Access calls namespace_list first). *)
  imports_fixpoint : bool     (* `pub fn resolve`: is the use / from-use pass repeated (errors dropped) until a
                                 round over all modules adds no name, before the pass that reports?  On the
                                 pinned tree it is not: the pass runs once, in `tree.modules` order. *)
}.

(* the innermost name of a chain of accesses `x.a.b`, if the assignable is such a chain *)
Fixpoint chain_root (a : passign) : option string :=
  match a with
  | ARead i _ => Some (i_name i)
  | AAccess a' _ _ => chain_root a'
  | _ => None
  end.

Definition root_on_stack (st : rstate) (a : passign) : bool :=
  match chain_root a with
  | Some x => match stack_find (st_stack st) x with Some _ => true | None => false end
  | None => false
  end.

(* the namespace test of `a.x` *)
Definition access_namespace (fl : rflags) (st : rstate) (fid : N) (a : passign) : res (option N) :=
  if access_local_first fl && root_on_stack st a then Ok None else namespace_list st fid a.

Definition truncate_if (b : bool) (len : nat) : M unit := if b then truncate len else ret tt.

(* fn if_branch *)
Definition if_branch_with (fl : rflags) (re : pexpr -> M expr) (rs : pstmt -> M (option stmt)) (b : pifbranch)
  : M ifbranch :=
  match b with
  | PIfBranch cond body sp =>
      c <- optM re cond ;;
      len <- stack_len ;;
      body' <- block_with rs body ;;
      _ <- truncate_if (if_truncates fl) len ;;
      ret (IfBranch c body' sp)
  end.

(* fn case_branch *)
Definition case_branch_with (fl : rflags) (rs : pstmt -> M (option stmt)) (b : pcasebranch) : M casebranch :=
  match b with
  | PCaseBranch pat v body =>
      len <- stack_len ;;
      v' <- optM (fun i => push_var i Const) v ;;
      body' <- block_with rs body ;;
      _ <- truncate_if (case_truncates fl) len ;;
      ret (CaseBranch (i_name pat) (i_span pat) v' body' (i_span pat))
  end.

Definition binop_with (re : pexpr -> M expr) (op : binop) (a b : pexpr) (sp : span) : M expr :=
  a' <- re a ;; b' <- re b ;; ret (EBinOp op a' b' sp).
Definition uniop_with (re : pexpr -> M expr) (op : uniop) (a : pexpr) (sp : span) : M expr :=
  a' <- re a ;; ret (EUniOp op a' sp).

Definition cmp_binop (k : cmpkind) : binop :=
  match k with
  | CKEquals => Equals | CKNotEquals => NotEquals | CKGreater => Greater
  | CKGreaterEqual => GreaterEqual | CKLess => Less | CKLessEqual => LessEqual
  end.

Definition assign_binop (o : assignop) : binop :=
  match o with OpNop => Nop | OpAdd => Add | OpSub => Sub | OpMul => Mul | OpDiv => Div end.

(* a function parameter: push the variable, then resolve its type (the stack already holds the parameter) *)
Definition param_r (p : ident * pty) : M (string * N * span * ty) :=
  let '(n, t) := p in
  v <- push_var n Const ;;
  t' <- lift (fun st => ty_r st t) ;;
  ret (i_name n, v, i_span n, t').

(* a field of a blob instance: `self` is visible only when the field is a function literal *)
Definition blob_field_with (re : pexpr -> M expr) (self_var : N) (f : string * pexpr) : M (string * expr) :=
  let '(n, e) := f in
  ss <- stack_len ;;
  _ <- (if is_function e then push_name "self" self_var else ret tt) ;;
  e' <- re e ;;
  _ <- truncate ss ;;
  ret (n, e').

(* fields of a `blob`/`enum` statement: every failing field is a candidate for the first error *)
Fixpoint fields_r (st : rstate) (fs : list (ident * pty))
  : res (list (string * (span * ty)) * list rerr) :=
  match fs with
  | [] => Ok ([], [])
  | (i, t) :: fs' =>
      rbind (fields_r st fs') (fun '(oks, errs) =>
      match ty_r st t with
      | Ok t' => Ok ((i_name i, (i_span i, t')) :: oks, errs)
      | Err e => Ok (oks, app e errs)
      | Panic s => Panic s
      | OutOfFuel => OutOfFuel
      end)
  end.

Definition fields_m (fs : list (ident * pty)) : M (list (string * (span * ty))) :=
  lift (fun st => rbind (fields_r st fs) (fun '(oks, errs) =>
                  match errs with [] => Ok oks | _ => Err errs end)).

(* Rust's `{:?}` of an identifier name (no character needs escaping in an identifier) *)
Definition stack_begin_name (nm : string) : string :=
  "== STACK BEGIN " ++ String (ascii_of_nat 34) (nm ++ String (ascii_of_nat 34) " ==").

Fixpoint expr_r (fl : rflags) (fuel : nat) (e : pexpr) {struct fuel} : M expr :=
  match fuel with
  | 0 => fun _ => OutOfFuel
  | S f =>
    let re := expr_r fl f in
    let rs := stmt_r fl f in
    match e with
    | PGet a _ => assign_r fl f a
    | PAdd a b sp => binop_with re Add a b sp
    | PSub a b sp => binop_with re Sub a b sp
    | PMul a b sp => binop_with re Mul a b sp
    | PDiv a b sp => binop_with re Div a b sp
    | PNeg a sp => uniop_with re Neg a sp
    | PComparison a k b sp => binop_with re (cmp_binop k) a b sp
    | PAssertEq a b sp => binop_with re AssertEq a b sp
    | PAnd a b sp => binop_with re And a b sp
    | POr a b sp => binop_with re Or a b sp
    | PNot a sp => uniop_with re Not a sp
    | PParenthesis x _ => re x
    | PIf brs sp =>
        brs' <- mapM (if_branch_with fl re rs) brs ;;
        ret (EIf brs' sp)
    | PCase tm brs ft sp =>
        tm' <- re tm ;;
        brs' <- mapM (case_branch_with fl rs) brs ;;
        ft' <- optM (fun b => len <- stack_len ;;
                              b' <- block_with rs b ;;
                              _ <- truncate_if (else_truncates fl) len ;;
                              ret b') ft ;;
        ret (ECase tm' brs' ft' sp)
    | PFunction nm params rt body pure sp =>
        ss <- stack_len ;;
        params' <- mapM param_r params ;;
        rt' <- lift (fun st => ty_r st rt) ;;
        body' <- block_with rs body ;;
        _ <- truncate ss ;;
        ret (EFunction nm params' rt' body' pure sp)
    | PBlob blob fields sp =>
        b <- lift (fun st => ty_assignable st blob) ;;
        self_var <- new_var (mkIdent "self" sp) Mutable ;;
        fields' <- mapM (blob_field_with re self_var) fields ;;
        ret (EBlob b fields' self_var sp)
    | PTuple vs sp => vs' <- mapM re vs ;; ret (ECollection CTuple vs' sp)
    | PList vs sp => vs' <- mapM re vs ;; ret (ECollection CList vs' sp)
    | PFloat r sp => ret (EFloat r sp)
    | PInt z sp => ret (EInt z sp)
    | PStr s sp => ret (EStr s sp)
    | PBool b sp => ret (EBool b sp)
    | PNil sp => ret (ENil sp)
    end
  end

with assign_r (fl : rflags) (fuel : nat) (a : passign) {struct fuel} : M expr :=
  match fuel with
  | 0 => fun _ => OutOfFuel
  | S f =>
    let re := expr_r fl f in
    match a with
    | ARead i _ =>
        v <- lift (fun st => lookup st (i_name i) (i_span i)) ;;
        ret (ERead v (i_span i))
    | AVariant enum_ass variant value sp =>
        e <- assign_r fl f enum_ass ;;
        match e with
        | ERead v _ =>
            value' <- re value ;;
            ret (EVariant v (i_name variant) value' sp)
        | _ => fail EVariantNotRead sp
        end
    | ACall fn args sp =>
        fn' <- assign_r fl f fn ;;
        args' <- mapM re args ;;
        ret (ECall fn' args' sp)
    | AArrowCall extra fn args sp =>
        extra' <- re extra ;;
        fn' <- assign_r fl f fn ;;
        args' <- mapM re args ;;
        ret (ECall fn' (extra' :: args') sp)
    | AAccess a' i sp =>
        ns <- lift (fun st => access_namespace fl st (sp_file sp) a') ;;
        match ns with
        | Some ns =>
            o <- lift (fun st => lookup_global st ns (i_name i)) ;;
            match o with
            | Some (NName v) => ret (ERead v (i_span i))
            | Some (NNamespace _ _) => fail ENamespaceFound sp
            | None => fail ENothingMatched sp
            end
        | None =>
            v <- assign_r fl f a' ;;
            ret (EBlobAccess v (i_name i) (i_span i))
        end
    | AIndex a' idx sp =>
        v <- assign_r fl f a' ;;
        idx' <- re idx ;;
        ret (EIndex v idx' sp)
    | AExpression e _ => re e
    end
  end

with stmt_r (fl : rflags) (fuel : nat) (s : pstmt) {struct fuel} : M (option stmt) :=
  match fuel with
  | 0 => fun _ => OutOfFuel
  | S f =>
    let re := expr_r fl f in
    let rs := stmt_r fl f in
    match s with
    | PEmptyStatement _ | PFromUse _ _ _ _ | PUse _ _ _ _ => ret None
    | PBlobDef nm vars fields ext sp =>
        v <- lift (fun st => lookup st (i_name nm) sp) ;;
        fields' <- fields_m fields ;;
        ret (Some (SBlob (i_name nm) v sp (map i_name vars) fields' ext))
    | PEnumDef nm vars variants sp =>
        v <- lift (fun st => lookup st (i_name nm) sp) ;;
        variants' <- fields_m variants ;;
        ret (Some (SEnum (i_name nm) v sp (map i_name vars) variants'))
    | PExternalDefinition i k t sp =>
        v <- lift (fun st => lookup st (i_name i) sp) ;;
        t' <- lift (fun st => ty_r st t) ;;
        ret (Some (SExternalDefinition (i_name i) v k t' (i_span i)))
    | PDefinition i k t value sp =>
        stack <- get_stack ;;
        vv <- match stack with
              | [] =>
                  (* outer statement: a global; a marker is pushed so that the stack is not empty
                     while the value is resolved, then the stack is cleared *)
                  _ <- push_var (mkIdent (stack_begin_name (i_name i)) (i_span i)) k ;;
                  value' <- re value ;;
                  _ <- set_stack [] ;;
                  v <- lift (fun st => lookup st (i_name i) sp) ;;
                  ret (value', v)
              | _ :: _ =>
                  if is_function value then
                    (* function: push the variable before *)
                    v <- push_var i k ;;
                    value' <- re value ;;
                    ret (value', v)
                  else
                    (* value: push the variable after *)
                    value' <- re value ;;
                    v <- push_var i k ;;
                    ret (value', v)
              end ;;
        t' <- lift (fun st => ty_r st t) ;;
        ret (Some (SDefinition (i_name i) (snd vv) k t' (fst vv) (i_span i)))
    | PAssignment op target value sp =>
        value' <- re value ;;
        target' <- assign_r fl f target ;;
        ret (Some (SAssignment (assign_binop op) target' value' sp))
    | PLoop cond body sp =>
        cond' <- re cond ;;
        body' <- rs body ;;
        ret (Some (SLoop cond' (match body' with Some b => [b] | None => [] end) sp))
    | PBreak sp => ret (Some (SBreak sp))
    | PContinue sp => ret (Some (SContinue sp))
    | PRet v sp => v' <- optM re v ;; ret (Some (SRet v' sp))
    | PBlock ss sp =>
        len <- stack_len ;;
        ss' <- block_with rs ss ;;
        _ <- truncate len ;;
        ret (Some (SBlock ss' sp))
    | PStatementExpression v sp => v' <- re v ;; ret (Some (SStatementExpression v' sp))
    | PUnreachable sp => ret (Some (SUnreachable sp))
    end
  end.

(* ---------------------------------------------------------------------------------------------- *)
(* the passes of `resolve` *)

(* fn insert_namespace_and_add_definitions: one new global per defining statement (allocated before
   the collision check), the first duplicate name is the first error *)
Definition defined_ident (s : pstmt) : option (ident * varkind) :=
  match s with
  | PBlobDef nm _ _ _ _ | PEnumDef nm _ _ _ => Some (nm, Const)
  | PExternalDefinition i k _ _ | PDefinition i k _ _ _ => Some (i, k)
  | _ => None
  end.

Fixpoint add_definitions (ss : list pstmt) (t : nstable) : M nstable :=
  match ss with
  | [] => ret t
  | s :: ss' =>
      match defined_ident s with
      | None => add_definitions ss' t
      | Some (i, k) =>
          v <- new_global i k ;;
          match ns_get t (i_name i) with
          | None => add_definitions ss' ((i_name i, NName v) :: t)
          | Some _ => fail ECollisionDef (pstmt_span s)
          end
      end
  end.

Definition set_namespace (f : file_or_lib) (t : nstable) : M unit :=
  fun st => Ok (tt, mkSt (fol_set (st_ns st) f t) (st_stack st) (st_vars st) (st_next st) (st_n2f st)).

Definition insert_namespace_and_add_definitions (m : pmodule) : M unit :=
  t <- add_definitions (m_stmts m) [] ;;
  set_namespace (m_file m) t.

(* insert `nm -> v` into the namespace of file `f`; an equal entry is tolerated, a different one is
   a collision *)
Definition import_name (f : file_or_lib) (nm : string) (v : name) (k : ekind) (sp : span) : M unit :=
  fun st =>
    match fol_get (st_ns st) f with
    | None => Panic "resolve_global_variables: namespaces.get_mut(file_or_lib).unwrap()"
    | Some t =>
        match ns_get t nm with
        | None => set_namespace f ((nm, v) :: t) st
        | Some old => if name_eqb old v then Ok (tt, st) else err1 k sp
        end
    end.

Definition get_ns (f : file_or_lib) : M (option nstable) := fun st => Ok (fol_get (st_ns st) f, st).

Fixpoint from_imports (f : file_or_lib) (file : file_or_lib) (stmt_sp : span)
         (imports : list (ident * option ident)) : M unit :=
  match imports with
  | [] => ret tt
  | (nm, alias) :: rest =>
      from_ns <- get_ns file ;;
      match from_ns with
      | None => fail ENoNamespace stmt_sp
      | Some from_ns =>
          match ns_get from_ns (i_name nm) with
          | None => fail ECannotFind (i_span nm)
          | Some v =>
              let var := match alias with Some a => a | None => nm end in
              _ <- import_name f (i_name var) v ECollisionFrom (i_span var) ;;
              from_imports f file stmt_sp rest
          end
      end
  end.

(* fn resolve_global_variables *)
Fixpoint resolve_global_variables (f : file_or_lib) (ss : list pstmt) : M unit :=
  match ss with
  | [] => ret tt
  | s :: ss' =>
      _ <- match s with
           | PUse _ nm file sp =>
               let i := usename_ident nm in
               target <- get_ns file ;;
               match target with
               | None => fail ENoNamespace (i_span i)
               | Some _ => import_name f (i_name i) (NNamespace file (i_span i)) ECollisionUse sp
               end
           | PFromUse _ imports file sp => from_imports f file sp imports
           | _ => ret tt
           end ;;
      resolve_global_variables f ss'
  end.

Fixpoint for_each {A} (f : A -> M unit) (l : list A) : M unit :=
  match l with [] => ret tt | x :: xs => _ <- f x ;; for_each f xs end.

(* ---- the import pass repeated to a fixpoint (`imports_fixpoint`) ----
   `let _ = resolver.resolve_global_variables(..)`: the pass run for its insertions only.  In the code a
   failing `use` / from-item pushes an error and the loop goes on with the state unchanged; the model of the
   reporting pass stops at the first error, so the quiet pass is written item by item: a failing item is
   skipped.  (One item changes the state at most once, as its last action.) *)
Definition try_ (m : M unit) : M unit :=
  fun st => match m st with Err _ => Ok (tt, st) | r => r end.

Definition quiet_stmt (f : file_or_lib) (s : pstmt) : M unit :=
  match s with
  | PFromUse _ imports file sp => for_each (fun it => try_ (from_imports f file sp [it])) imports
  | PUse _ _ _ _ => try_ (resolve_global_variables f [s])
  | _ => ret tt
  end.

Definition quiet_pass (f : file_or_lib) (ss : list pstmt) : M unit := for_each (quiet_stmt f) ss.

Definition quiet_round (ast : past) : M unit := for_each (fun m => quiet_pass (m_file m) (m_stmts m)) ast.

(* fn imported_names: how many names all namespaces hold together *)
Definition names_count (st : rstate) : nat := fold_right (fun p n => length (snd p) + n) 0 (st_ns st).

(* `loop { let before = ..; <round>; if .. == before { break } }`; the number of rounds is bounded by the
   number of use statements and from-items plus one (every one of them inserts at most once): with that many
   rounds OutOfFuel is never reached (Resolve/TotalProofs.v) *)
Fixpoint import_rounds (n : nat) (ast : past) : M unit :=
  match n with
  | 0 => fun _ => OutOfFuel
  | S n' => fun st =>
      match quiet_round ast st with
      | Ok (_, st') =>
          if Nat.eqb (names_count st') (names_count st) then Ok (tt, st') else import_rounds n' ast st'
      | r => r
      end
  end.

Definition import_items_s (s : pstmt) : nat :=
  match s with PUse _ _ _ _ => 1 | PFromUse _ imports _ _ => length imports | _ => 0 end.

Definition import_items (ast : past) : nat :=
  fold_right (fun m n => fold_right (fun s k => import_items_s s + k) 0 (m_stmts m) + n) 0 ast.

Definition report_pass (ast : past) : M unit :=
  for_each (fun m => resolve_global_variables (m_file m) (m_stmts m)) ast.

Definition import_pass (fx : bool) (ast : past) : M unit :=
  _ <- (if fx then import_rounds (S (import_items ast)) ast else ret tt) ;;
  report_pass ast.

(* statement depth, for the fuel of a whole program *)
Definition list_max {A} (f : A -> nat) : list A -> nat :=
  fix go (l : list A) : nat :=
  match l with [] => 0 | x :: xs => Nat.max (f x) (go xs) end.

Fixpoint depth_e (e : pexpr) : nat :=
  S (match e with
     | PGet a _ => depth_a a
     | PAdd a b _ | PSub a b _ | PMul a b _ | PDiv a b _ | PComparison a _ b _ | PAssertEq a b _
     | PAnd a b _ | POr a b _ => Nat.max (depth_e a) (depth_e b)
     | PNeg a _ | PNot a _ | PParenthesis a _ => depth_e a
     | PIf brs _ =>
         list_max (fun b => match b with PIfBranch c body _ =>
                   Nat.max (match c with Some c => depth_e c | None => 0 end) (list_max depth_s body) end) brs
     | PCase tm brs ft _ =>
         Nat.max (depth_e tm)
           (Nat.max (list_max (fun b => match b with PCaseBranch _ _ body => list_max depth_s body end) brs)
                    (match ft with Some b => list_max depth_s b | None => 0 end))
     | PFunction _ _ _ body _ _ => list_max depth_s body
     | PBlob _ fields _ => list_max (fun f => depth_e (snd f)) fields
     | PTuple vs _ | PList vs _ => list_max depth_e vs
     | _ => 0
     end)
with depth_a (a : passign) : nat :=
  S (match a with
     | ARead _ _ => 0
     | AVariant x _ v _ => Nat.max (depth_a x) (depth_e v)
     | ACall f args _ => Nat.max (depth_a f) (list_max depth_e args)
     | AArrowCall x f args _ => Nat.max (depth_e x) (Nat.max (depth_a f) (list_max depth_e args))
     | AAccess x _ _ => depth_a x
     | AIndex x i _ => Nat.max (depth_a x) (depth_e i)
     | AExpression e _ => depth_e e
     end)
with depth_s (s : pstmt) : nat :=
  S (match s with
     | PAssignment _ t v _ => Nat.max (depth_a t) (depth_e v)
     | PDefinition _ _ _ v _ => depth_e v
     | PLoop c b _ => Nat.max (depth_e c) (depth_s b)
     | PRet (Some v) _ => depth_e v
     | PBlock ss _ => list_max depth_s ss
     | PStatementExpression v _ => depth_e v
     | _ => 0
     end).

Definition fuel_of (ast : past) : nat :=
  S (list_max (fun m => list_max depth_s (m_stmts m)) ast).

Definition init_state (ast : past) : rstate :=
  mkSt [] [] [] 0 (map (fun m => (m_file_id m, m_file m)) ast).

(* pub fn resolve *)
Definition resolve_m (fl : rflags) (fuel : nat) (ast : past) : M (list stmt) :=
  _ <- for_each insert_namespace_and_add_definitions ast ;;
  _ <- import_pass (imports_fixpoint fl) ast ;;
  out <- block_with (stmt_r fl fuel) (flat_map m_stmts ast) ;;
  start <- lift (fun st => lookup_global st 0 "start") ;;
  match start with
  | None => fail ENoStart (span_zero 0)
  | Some _ => ret out
  end.

Definition resolve_fuel (fl : rflags) (fuel : nat) (ast : past) : res resolved :=
  match resolve_m fl fuel ast (init_state ast) with
  | Ok (out, st) => Ok (mkResolved (rev (st_vars st)) out)
  | Err e => Err e
  | Panic s => Panic s
  | OutOfFuel => OutOfFuel
  end.

Definition resolve (fl : rflags) (ast : past) : res resolved := resolve_fuel fl (fuel_of ast) ast.
