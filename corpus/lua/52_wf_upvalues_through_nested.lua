-- expect-wf[jit]: bad more than 60 upvalues
-- expect-wf[5.3]: ok
do
local u0 = 0
local u1 = 1
local u2 = 2
local u3 = 3
local u4 = 4
local u5 = 5
local u6 = 6
local u7 = 7
local u8 = 8
local u9 = 9
local u10 = 10
local u11 = 11
local u12 = 12
local u13 = 13
local u14 = 14
local u15 = 15
local u16 = 16
local u17 = 17
local u18 = 18
local u19 = 19
local u20 = 20
local u21 = 21
local u22 = 22
local u23 = 23
local u24 = 24
local u25 = 25
local u26 = 26
local u27 = 27
local u28 = 28
local u29 = 29
local u30 = 30
local u31 = 31
local u32 = 32
local u33 = 33
local u34 = 34
local u35 = 35
local u36 = 36
local u37 = 37
local u38 = 38
local u39 = 39
local u40 = 40
local u41 = 41
local u42 = 42
local u43 = 43
local u44 = 44
local u45 = 45
local u46 = 46
local u47 = 47
local u48 = 48
local u49 = 49
local u50 = 50
local u51 = 51
local u52 = 52
local u53 = 53
local u54 = 54
local u55 = 55
local u56 = 56
local u57 = 57
local u58 = 58
local u59 = 59
local u60 = 60
local function f()
  return function() return u0 + u1 + u2 + u3 + u4 + u5 + u6 + u7 + u8 + u9 + u10 + u11 + u12 + u13 + u14 + u15 + u16 + u17 + u18 + u19 + u20 + u21 + u22 + u23 + u24 + u25 + u26 + u27 + u28 + u29 + u30 + u31 + u32 + u33 + u34 + u35 + u36 + u37 + u38 + u39 + u40 + u41 + u42 + u43 + u44 + u45 + u46 + u47 + u48 + u49 + u50 + u51 + u52 + u53 + u54 + u55 + u56 + u57 + u58 + u59 + u60 end
end
end
