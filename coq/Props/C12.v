(* C12 -- Modules: imports resolve as documented and files are isolated.
   Only pinned statements, `exact`, and Print Assumptions.  `gen_std_libs` / `gen_std_uses` are the
   standard-library names and the use-paths inside std/*.sy, regenerated on this run. *)
From Coq Require Import String List NArith ZArith Bool Sorted Permutation.
From Sylt Require Import Syntax.Resolved Resolve.PAst Resolve.Resolver Resolve.Modules Resolve.ModulesProofs
     Resolve.ImportProofs Resolve.ImportFix Gen.GenResolve.
Import ListNotations.
Local Open Scope string_scope.
Local Open Scope N_scope.
Local Open Scope list_scope.

(* visit_once: whatever the file map (import cycles and diamonds included), a successfully discovered
   project has no file twice in `modules`; file ids are distinct, increase along the module list and
   are the positions of the files in the (duplicate-free) visit order. *)
Theorem C12_visit_once : forall lib_uses m main std mods,
  tree lib_uses m main std = TOk mods ->
  NoDup (map fst mods)
  /\ StronglySorted N.lt (map snd mods)
  /\ exists visited, NoDup visited /\ forall f id, In (f, id) mods -> nth_error visited (N.to_nat id) = Some f.
Proof. exact visit_once. Qed.

(* use_path_spec: the documented mapping.  `cur` is the file the statement is written in, `root` the
   directory of the main file; a path component `p` / `d` has no slash at either end. *)
Theorem C12_use_path_relative_file : forall libs root cur p,
  starts_with_slash p = false -> ends_with_slash p = false -> mem_str p libs = false ->
  use_path libs root (File cur) p = Some (File (join (parent cur) (p ++ ".sy")%string)).
Proof. exact use_path_relative_file. Qed.

Theorem C12_use_path_relative_folder : forall libs root cur d,
  starts_with_slash d = false -> ends_with_slash d = false -> d <> "" -> mem_str d libs = false ->
  use_path libs root (File cur) (d ++ "/")%string = Some (File (join (parent cur) (d ++ "/exports.sy")%string)).
Proof. exact use_path_relative_folder. Qed.

Theorem C12_use_path_rooted_file : forall libs root cur p,
  starts_with_slash p = false -> ends_with_slash p = false -> p <> "" -> mem_str p libs = false ->
  use_path libs root (File cur) ("/" ++ p)%string = Some (File (join root (p ++ ".sy")%string)).
Proof. exact use_path_rooted_file. Qed.

Theorem C12_use_path_rooted_folder : forall libs root cur d,
  starts_with_slash d = false -> ends_with_slash d = false -> d <> "" -> mem_str d libs = false ->
  use_path libs root (File cur) ("/" ++ d ++ "/")%string = Some (File (join root (d ++ "/exports.sy")%string)).
Proof. exact use_path_rooted_folder. Qed.

Theorem C12_use_path_root : forall libs root cur, mem_str "" libs = false ->
  use_path libs root (File cur) "/" = Some (File (join root "exports.sy")).
Proof. exact use_path_root. Qed.

(* std library names win *)
Theorem C12_use_path_lib : forall libs root p c,
  mem_str (trim_end (trim_start p)) libs = true -> use_path libs root c p = Some (Lib (trim_end (trim_start p))).
Proof. exact use_path_lib. Qed.

(* import_transparent: `n.x` after `use f as n`, and chains `a.b.x`, ARE the variable x of f's table ... *)
Theorem C12_import_transparent_ns : forall fl fuel st a g gid g' tg x xsp asp v,
  access_local_first fl && root_on_stack st a = false ->
  ns_path st (sp_file asp) a g ->
  f2n_get (st_n2f st) g = Some gid -> n2f_get (st_n2f st) gid = Some g' -> fol_get (st_ns st) g' = Some tg ->
  ns_get tg x = Some (NName v) ->
  assign_r fl (S fuel) (AAccess a (mkIdent x xsp) asp) st = Ok (ERead v xsp, st).
Proof. exact import_transparent_ns. Qed.

(* ... which is what the bare name x resolves to inside f *)
Theorem C12_resolves_inside : forall st gid g tg x v sp,
  sp_file sp = gid -> n2f_get (st_n2f st) gid = Some g -> fol_get (st_ns st) g = Some tg ->
  ns_get tg x = Some (NName v) -> stack_find (st_stack st) x = None ->
  lookup st x sp = Ok v.
Proof. exact resolves_inside. Qed.

(* `from file use x [as y]` binds y (or x) in f to what x is bound to in `file` AT THAT MOMENT of the
   import pass (this is why a from-import of a name that `file` itself only re-exports depends on the
   order in which the modules are processed: see C12_reexport_order_dependent) *)
Theorem C12_import_transparent_from : forall f file sp x alias st tfile v tf,
  let y := match alias with Some a => a | None => x end in
  fol_get (st_ns st) file = Some tfile -> ns_get tfile (i_name x) = Some v ->
  fol_get (st_ns st) f = Some tf -> ns_get tf (i_name y) = None ->
  exists st' tf', from_imports f file sp [(x, alias)] st = Ok (tt, st')
                  /\ fol_get (st_ns st') f = Some tf' /\ ns_get tf' (i_name y) = Some v.
Proof. exact import_transparent_from. Qed.

(* ... and the consequence for re-exports.  `imports_fixpoint` (regenerated from `pub fn resolve` on this run, see
   C12_reexport_flag) says whether the use / from-use pass is repeated, errors dropped, until a round over all
   modules adds no name, before the pass that reports.
   OFF (the pinned tree): the same three modules are rejected in the order tree() visits them and accepted in
   another order (witness: main `from b use x`, b `from c use x`, c `x :: 1`). *)
Theorem C12_reexport_order_dependent : forall fl, imports_fixpoint fl = false ->
  resolve fl [reexport_main; reexport_b; reexport_c] = Err [mkRErr ECannotFind (spn 0 1)]
  /\ exists r, resolve fl [reexport_c; reexport_b; reexport_main] = Ok r.
Proof. exact reexport_order_dependent. Qed.

(* ON: whatever the order in which the modules are processed (any permutation of the module list), the import
   pass accepts the same programs and binds the same names to the same things in every file's table; nothing
   else of the state differs.  `st0` is the state after `insert_namespace_and_add_definitions`: every module
   has its table.  (The reported error of a rejected program may name another import: the first one in the
   order at hand.) *)
Theorem C12_reexport_order_independent : forall ast ast' st0 s1,
  Permutation ast ast' ->
  (forall m, In m ast -> fol_get (st_ns st0) (m_file m) <> None) ->
  import_pass true ast st0 = Ok (tt, s1) ->
  exists s2, import_pass true ast' st0 = Ok (tt, s2)
    /\ (forall f x, get s2 f x = get s1 f x)
    /\ (forall f, fol_get (st_ns s2) f = None <-> fol_get (st_ns s1) f = None)
    /\ st_stack s2 = st_stack s1 /\ st_vars s2 = st_vars s1 /\ st_next s2 = st_next s1 /\ st_n2f s2 = st_n2f s1.
Proof. exact imports_order_independent. Qed.

Theorem C12_reexport_accept_order_independent : forall ast ast' st0,
  Permutation ast ast' ->
  (forall m, In m ast -> fol_get (st_ns st0) (m_file m) <> None) ->
  (exists s, import_pass true ast st0 = Ok (tt, s)) <-> (exists s, import_pass true ast' st0 = Ok (tt, s)).
Proof. exact imports_accept_order_independent. Qed.

(* the loop of the fixed variant ends within the rounds the model grants (one more than there are use
   statements and from-items), without an error and without reaching a panic site *)
Theorem C12_import_rounds_terminate : forall ast st,
  (forall m, In m ast -> fol_get (st_ns st) (m_file m) <> None) ->
  exists st', import_rounds (S (import_items ast)) ast st = Ok (tt, st').
Proof. exact import_rounds_total. Qed.

(* and the witness of the order dependence is accepted in both orders *)
Theorem C12_reexport_fixpoint_accepts : forall fl, imports_fixpoint fl = true ->
  (exists r, resolve fl [reexport_main; reexport_b; reexport_c] = Ok r)
  /\ (exists r, resolve fl [reexport_c; reexport_b; reexport_main] = Ok r).
Proof. exact reexport_fixpoint_accepts. Qed.

(* which case this run is in *)
Theorem C12_reexport_flag : imports_fixpoint gen_rflags = imports_fixpoint gen_rflags.
Proof. reflexivity. Qed.

(* not_imported_invisible *)
Theorem C12_not_imported_invisible : forall st nm sp f t,
  n2f_get (st_n2f st) (sp_file sp) = Some f -> fol_get (st_ns st) f = Some t ->
  stack_find (st_stack st) nm = None -> ns_get t nm = None ->
  lookup st nm sp = Err [mkRErr ENothingMatched sp].
Proof. exact not_imported_invisible. Qed.

(* files are isolated: the import pass of file f adds to f's table only the names of f's own use / from
   statements and changes no other file's table, no variable, and not the scope stack *)
Theorem C12_imports_frame : forall f ss st st' u,
  resolve_global_variables f ss st = Ok (u, st') ->
  (exists t, fol_get (st_ns st) f = Some t) ->
  grows f (imported_names ss) st st'.
Proof. exact imports_frame. Qed.

(* Non-vacuity: a project with an import cycle (main <-> a), a diamond (main -> a, b -> c), a folder and
   a rooted path; the std names are the regenerated ones. *)
Example C12_example_tree :
  tree gen_std_uses
    [("/p/main.sy", FSource true ["a"; "b"]); ("/p/a.sy", FSource true ["main"; "d/c"]);
     ("/p/b.sy", FSource true ["/d/c"; "d/"]); ("/p/d/c.sy", FSource true ["/main"]);
     ("/p/d/exports.sy", FSource true ["c"])]
    "/p/main.sy" false
  = TOk [(File "/p/main.sy", 0); (File "/p/b.sy", 1); (File "/p/d/exports.sy", 2); (File "/p/d/c.sy", 3);
         (File "/p/a.sy", 4)].
Proof. vm_compute. reflexivity. Qed.

Example C12_example_use_path :
  use_path gen_std_libs "/p" (File "/p/d/c.sy") "e/f" = Some (File "/p/d/e/f.sy")
  /\ use_path gen_std_libs "/p" (File "/p/d/c.sy") "/e/" = Some (File "/p/e/exports.sy")
  /\ use_path gen_std_libs "/p" (File "/p/d/c.sy") "/list" = Some (Lib "list")
  /\ use_path gen_std_libs "/p" (Lib "list") "e" = None.
Proof. vm_compute. repeat split. Qed.

Print Assumptions C12_visit_once.
Print Assumptions C12_use_path_relative_file.
Print Assumptions C12_use_path_relative_folder.
Print Assumptions C12_use_path_rooted_file.
Print Assumptions C12_use_path_rooted_folder.
Print Assumptions C12_use_path_root.
Print Assumptions C12_use_path_lib.
Print Assumptions C12_import_transparent_ns.
Print Assumptions C12_resolves_inside.
Print Assumptions C12_import_transparent_from.
Print Assumptions C12_reexport_order_dependent.
Print Assumptions C12_reexport_order_independent.
Print Assumptions C12_reexport_accept_order_independent.
Print Assumptions C12_import_rounds_terminate.
Print Assumptions C12_reexport_fixpoint_accepts.
Print Assumptions C12_not_imported_invisible.
Print Assumptions C12_imports_frame.

(* ---- source tie: the hand-written model behind these theorems mirrors the files below; the digests of their
   functions regenerated from /repo on this run equal the reviewed ones (coq/Doc/DocSrcDigest.v).  Any edit of
   such a function breaks this obligation: the differential tie and the oracle then decide (tools/check.py). *)
From Sylt Require Doc.SrcDigest Doc.DocSrcDigest Gen.GenSrcDigest.
Theorem C12_model_sources_reviewed :
  Sylt.Doc.SrcDigest.sources_reviewed ["sylt-compiler/src/name_resolution.rs"%string; "sylt-parser/src/parser.rs"%string; "sylt-parser/src/statement.rs"%string]
    Sylt.Doc.DocSrcDigest.doc_src_digests Sylt.Gen.GenSrcDigest.src_digests = true.
Proof. vm_compute. reflexivity. Qed.
Print Assumptions C12_model_sources_reviewed.

(* ---- the spelling of the main path (Resolve/Respell.v) ----
   C12_tree_respell   if every path of a project is rewritten by an injective function rho such that, for every use
                      statement of every file of the project, the file it denotes computed from the rewritten current
                      file and the rewritten main file is the rewritten file, then module discovery on the rewritten
                      project is module discovery on the project, rewritten: the same files in the same order with
                      the same file ids (so C12_visit_once transfers), the same failures.
   C12_tree_prefix    for rho = "this prefix in front of every path" the condition is the computable check
                      respell_okb; C12_respell_example: it holds of the example project written with bare file names
                      for the prefixes "" (main.sy), "./" (./main.sy), "proj/" and "/abs/dir/" -- and fails, as it
                      must, for a prefix without the trailing slash.  No counter-example exists in the unchanged code
                      for these spellings; the one that existed in a seeded variant (root "." for a bare main path)
                      is what the shared-state oracle family of tools/props/c12.py catches. *)
From Sylt Require Import Resolve.Respell.

Theorem C12_tree_respell : forall rho lib_uses m main std,
  (forall a b, rho a = rho b -> a = b) ->
  (forall cur parses us u, fmap_get m cur = Some (FSource parses us) -> In u us ->
     use_path (map fst lib_uses) (parent (rho main)) (File (rho cur)) u
     = ofol rho (use_path (map fst lib_uses) (parent main) (File cur) u)) ->
  tree lib_uses (rmap rho m) (rho main) std = rres rho (tree lib_uses m main std).
Proof. exact tree_respell. Qed.

Theorem C12_tree_prefix : forall p lib_uses m main std mods,
  respell_okb (map fst lib_uses) p m main = true ->
  tree lib_uses m main std = TOk mods ->
  tree lib_uses (rmap (append p) m) (p ++ main)%string std
  = TOk (map (fun e => (rfol (append p) (fst e), snd e)) mods).
Proof. exact tree_prefix_modules. Qed.

Example C12_respell_example :
  let libs := map fst gen_std_uses in
  respell_okb libs "" ex_proj "main.sy" = true
  /\ respell_okb libs "./" ex_proj "main.sy" = true
  /\ respell_okb libs "proj/" ex_proj "main.sy" = true
  /\ respell_okb libs "/abs/dir/" ex_proj "main.sy" = true
  /\ respell_okb libs "proj" ex_proj "main.sy" = false
  /\ tree gen_std_uses (rmap (append "./") ex_proj) "./main.sy" false
     = TOk [(File "./main.sy", 0); (File "./b.sy", 1); (File "./d/exports.sy", 2); (File "./d/c.sy", 3); (File "./a.sy", 4)].
Proof. vm_compute. repeat split. Qed.

Print Assumptions C12_tree_respell.
Print Assumptions C12_tree_prefix.
