(* Every error the resolver model returns is reported at a span of a construct of the program, and of the
   kind that construct can produce (Resolve/ErrorSites.v) -- except "no start function", which is
   reported at Span::zero(0).  And: errors come in statement order; the error of a statement list is
   the error of its first erroneous statement. *)
From Coq Require Import String List NArith ZArith Bool Lia Arith.
From Sylt Require Import Syntax.Resolved Resolve.PAst Resolve.Resolver Resolve.ErrorSites Resolve.AlphaProofs.
Import ListNotations.
Local Open Scope list_scope.

Definition errs_in (S : list site) (es : list rerr) : Prop := Forall (fun e => In (e_kind e, e_span e) S) es.

Definition rloc {A} (S : list site) (r : res A) : Prop := match r with Err es => errs_in S es | _ => True end.

(* every error the computation can return is at a site of S *)
Definition loc {A} (S : list site) (m : M A) : Prop := forall st, rloc S (m st).

Lemma errs_in_incl S S' es : incl S S' -> errs_in S es -> errs_in S' es.
Proof. intros Hi H. eapply Forall_impl; [|exact H]. intros e He. apply Hi. exact He. Qed.

Lemma rloc_incl {A} S S' (r : res A) : incl S S' -> rloc S r -> rloc S' r.
Proof. intros Hi. destruct r; cbn; auto. apply errs_in_incl. exact Hi. Qed.

Lemma loc_incl {A} S S' (m : M A) : incl S S' -> loc S m -> loc S' m.
Proof. intros Hi H st. eapply rloc_incl; eauto. Qed.

Lemma rloc_err1 {A} S k sp : In (k, sp) S -> rloc S (@err1 A k sp).
Proof. intros H. cbn. constructor; [exact H|constructor]. Qed.

Lemma rloc_rbind {A C} S (m : res A) (k : A -> res C) :
  rloc S m -> (forall a, rloc S (k a)) -> rloc S (rbind m k).
Proof. intros Hm Hk. destruct m; cbn in *; auto. Qed.

Lemma scat_in {X} (f : X -> list site) l x : In x l -> incl (f x) (scat f l).
Proof.
  induction l as [|y l IH]; cbn; intros []; subst.
  - apply incl_appl. apply incl_refl.
  - apply incl_appr. apply IH. assumption.
Qed.

Lemma incl_scat {X} (f : X -> list site) l S x : incl (scat f l) S -> In x l -> incl (f x) S.
Proof. intros H Hx. eapply incl_tran; [apply scat_in; exact Hx|exact H]. Qed.

(* ---- the read-only parts ---- *)

Lemma lookup_global_noerr st fid x : rloc [] (lookup_global st fid x).
Proof. unfold lookup_global. destruct (n2f_get (st_n2f st) fid); cbn; auto. destruct (fol_get (st_ns st) f); cbn; auto. Qed.

Lemma lookup_loc st x sp : rloc (lookup_sites sp) (lookup st x sp).
Proof.
  unfold lookup. destruct (stack_find (st_stack st) x); cbn; auto.
  pose proof (lookup_global_noerr st (sp_file sp) x) as H.
  destruct (lookup_global st (sp_file sp) x) as [[[r|f s0]|]| | |]; cbn in *; auto.
  - constructor; [left; reflexivity|constructor].
  - constructor; [right; left; reflexivity|constructor].
  - inversion H; subst; [constructor|]. destruct H0.
Qed.

Lemma namespace_file_noerr st fid a : rloc [] (namespace_file st fid a).
Proof.
  induction a; cbn; auto.
  - apply rloc_rbind; [apply lookup_global_noerr|]. intros [[r|f s0]|]; cbn; auto.
  - apply rloc_rbind; [exact IHa|]. intros [f|]; cbn; auto.
    destruct (f2n_get (st_n2f st) f); cbn; auto.
    apply rloc_rbind; [apply lookup_global_noerr|]. intros [[r|g s0]|]; cbn; auto.
Qed.

Lemma namespace_list_noerr st fid a : rloc [] (namespace_list st fid a).
Proof. unfold namespace_list. apply rloc_rbind; [apply namespace_file_noerr|]. intros [f|]; cbn; auto. Qed.

Lemma namespace_type_list_loc st fid t : rloc (sites_tns t) (namespace_type_list st fid t).
Proof.
  induction t as [i sp|nl IH i sp]; cbn [namespace_type_list sites_tns].
  - apply rloc_rbind; [eapply rloc_incl; [|apply lookup_global_noerr]; intros x []|].
    intros [[r|f s0]|]; cbn.
    + constructor; [left; reflexivity|constructor].
    + destruct (f2n_get (st_n2f st) f); cbn; auto.
    + constructor; [right; left; reflexivity|constructor].
  - apply rloc_rbind; [eapply rloc_incl; [|exact IH]; apply incl_appl; apply incl_refl|]. intros ns'.
    apply rloc_rbind; [eapply rloc_incl; [|apply lookup_global_noerr]; intros x []|].
    intros [[r|f s0]|]; cbn.
    + constructor; [apply in_or_app; right; left; reflexivity|constructor].
    + destruct (f2n_get (st_n2f st) f); cbn; auto.
    + constructor; [apply in_or_app; right; right; left; reflexivity|constructor].
Qed.

Lemma ty_assignable_loc st t : rloc (sites_ta t) (ty_assignable st t).
Proof.
  destruct t as [i sp|nl i sp]; cbn [ty_assignable sites_ta].
  - apply lookup_loc.
  - apply rloc_rbind; [eapply rloc_incl; [|apply namespace_type_list_loc]; apply incl_appl; apply incl_refl|].
    intros ns'. apply rloc_rbind; [eapply rloc_incl; [|apply lookup_global_noerr]; intros x []|].
    intros [[r|f s0]|]; cbn; auto.
    + constructor; [apply in_or_app; right; right; left; reflexivity|constructor].
    + constructor; [apply in_or_app; right; left; reflexivity|constructor].
Qed.

Lemma mapR_loc {X Y} S (f : X -> res Y) l : (forall x, In x l -> rloc S (f x)) -> rloc S (mapR f l).
Proof.
  induction l as [|x l IH]; intros H; cbn; auto.
  apply rloc_rbind; [apply H; left; reflexivity|]. intros y.
  apply rloc_rbind; [apply IH; intros z Hz; apply H; right; assumption|]. intros ys. exact I.
Qed.

Lemma ty_r_loc st : forall n t, pty_size t <= n -> rloc (sites_ty t) (ty_r st t).
Proof.
  induction n as [|n IH]; intros t Hsz; [destruct t; cbn in Hsz; lia|].
  assert (Hl : forall l, sum_with pty_size l <= n -> forall S, incl (scat sites_ty l) S -> rloc S (mapR (ty_r st) l)).
  { intros l Hl S Hi. apply mapR_loc. intros x Hx. eapply rloc_incl; [eapply incl_scat; eauto|].
    apply IH. pose proof (sum_with_in pty_size _ _ Hx). lia. }
  destruct t; cbn [ty_r sites_ty pty_size] in *; try exact I.
  - apply rloc_rbind; [eapply rloc_incl; [|apply ty_assignable_loc]; apply incl_appl; apply incl_refl|]. intros r0.
    apply rloc_rbind; [apply Hl; [lia|apply incl_appr; apply incl_refl]|]. intros gs0. exact I.
  - apply rloc_rbind; [apply Hl; [lia|apply incl_appl; apply incl_refl]|]. intros ps0.
    apply rloc_rbind; [eapply rloc_incl; [|apply IH; lia]; apply incl_appr; apply incl_refl|]. intros r0. exact I.
  - apply rloc_rbind; [apply Hl; [lia|apply incl_refl]|]. intros ts0. exact I.
  - apply rloc_rbind; [apply IH; lia|]. intros r0. exact I.
  - apply IH. lia.
Qed.

Lemma ty_loc st t : rloc (sites_ty t) (ty_r st t).
Proof. eapply ty_r_loc. apply le_n. Qed.

Lemma fields_r_loc st fs :
  match fields_r st fs with
  | Ok (_, errs) => errs_in (scat (fun f => sites_ty (snd f)) fs) errs
  | Err es => errs_in (scat (fun f => sites_ty (snd f)) fs) es
  | _ => True
  end.
Proof.
  induction fs as [|[i t] fs IH]; cbn [fields_r scat]; [constructor|].
  destruct (fields_r st fs) as [[oks errs]| | |]; cbn [rbind snd]; auto.
  - pose proof (ty_loc st t) as Ht. destruct (ty_r st t) as [t'|e| |]; cbn in *; auto.
    + eapply errs_in_incl; [|exact IH]. apply incl_appr. apply incl_refl.
    + apply Forall_app. split.
      * eapply errs_in_incl; [|exact Ht]. apply incl_appl. apply incl_refl.
      * eapply errs_in_incl; [|exact IH]. apply incl_appr. apply incl_refl.
  - eapply errs_in_incl; [|exact IH]. apply incl_appr. apply incl_refl.
Qed.

(* ---- the monad ---- *)

Lemma loc_ret {A} S (a : A) : loc S (ret a).
Proof. intros st. exact I. Qed.

Lemma loc_bind {A C} S (m : M A) (k : A -> M C) : loc S m -> (forall a, loc S (k a)) -> loc S (bind m k).
Proof.
  intros Hm Hk st. unfold bind. specialize (Hm st). destruct (m st) as [[a s1]| | |]; cbn in *; auto. apply Hk.
Qed.

Lemma loc_fail {A} S k sp : In (k, sp) S -> loc S (@fail A k sp).
Proof. intros H st. apply rloc_err1. exact H. Qed.

Lemma loc_lift {A} S (f : rstate -> res A) : (forall st, rloc S (f st)) -> loc S (lift f).
Proof. intros H st. unfold lift. specialize (H st). destruct (f st); cbn in *; auto. Qed.

Lemma loc_mapM {X Y} S (g : X -> M Y) l : (forall x, In x l -> loc S (g x)) -> loc S (mapM g l).
Proof.
  induction l as [|x l IH]; intros H; cbn [mapM]; [apply loc_ret|].
  apply loc_bind; [apply H; left; reflexivity|]. intros y.
  apply loc_bind; [apply IH; intros z Hz; apply H; right; assumption|]. intros ys. apply loc_ret.
Qed.

Lemma loc_block S (rs : pstmt -> M (option stmt)) l : (forall s, In s l -> loc S (rs s)) -> loc S (block_with rs l).
Proof.
  induction l as [|x l IH]; intros H; cbn [block_with]; [apply loc_ret|].
  apply loc_bind; [apply H; left; reflexivity|]. intros y.
  apply loc_bind; [apply IH; intros z Hz; apply H; right; assumption|]. intros ys. apply loc_ret.
Qed.

(* the stack and variable primitives never fail *)
Lemma loc_new_var S g i k : loc S (new_var_g g i k). Proof. intros st. exact I. Qed.
Lemma loc_push_name S n r : loc S (push_name n r). Proof. intros st. exact I. Qed.
Lemma loc_push_var S i k : loc S (push_var i k).
Proof. unfold push_var. apply loc_bind; [apply loc_new_var|]. intros r. apply loc_bind; [apply loc_push_name|]. intros _. apply loc_ret. Qed.
Lemma loc_stack_len S : loc S stack_len. Proof. intros st. exact I. Qed.
Lemma loc_truncate S n : loc S (truncate n). Proof. intros st. exact I. Qed.
Lemma loc_truncate_if S b n : loc S (truncate_if b n). Proof. destruct b; [apply loc_truncate|apply loc_ret]. Qed.
Lemma loc_get_stack S : loc S get_stack. Proof. intros st. exact I. Qed.
Lemma loc_set_stack S s : loc S (set_stack s). Proof. intros st. exact I. Qed.

Lemma loc_lookup S x sp : incl (lookup_sites sp) S -> loc S (lift (fun st => lookup st x sp)).
Proof. intros Hi. apply loc_lift. intros st. eapply rloc_incl; [exact Hi|apply lookup_loc]. Qed.

Lemma loc_ty S t : incl (sites_ty t) S -> loc S (lift (fun st => ty_r st t)).
Proof. intros Hi. apply loc_lift. intros st. eapply rloc_incl; [exact Hi|apply ty_loc]. Qed.

Lemma loc_fields S fs : incl (scat (fun f => sites_ty (snd f)) fs) S -> loc S (fields_m fs).
Proof.
  intros Hi. unfold fields_m. apply loc_lift. intros st. pose proof (fields_r_loc st fs) as H.
  destruct (fields_r st fs) as [[oks errs]|e| |]; cbn; auto.
  - destruct errs; cbn; auto. eapply errs_in_incl; eauto.
  - eapply errs_in_incl; eauto.
Qed.

(* ---- expressions, assignables, statements ---- *)

Section Main.
Variable fl : rflags.

Definition Le (f : nat) : Prop := forall x S, incl (sites_e x) S -> loc S (expr_r fl f x).
Definition La (f : nat) : Prop := forall a S, incl (sites_a a) S -> loc S (assign_r fl f a).
Definition Ls (f : nat) : Prop := forall s S, incl (sites_s s) S -> loc S (stmt_r fl f s).

Ltac isplit H :=
  repeat match goal with
         | H0 : incl (_ ++ _) _ |- _ => let H1 := fresh "Hi" in apply incl_app_inv in H0 as [H0 H1]
         end.

Section Step.
Variable f : nat.
Hypothesis IHe : Le f.
Hypothesis IHa : La f.
Hypothesis IHs : Ls f.

Lemma l_args S l : incl (scat sites_e l) S -> loc S (mapM (expr_r fl f) l).
Proof. intros H. apply loc_mapM. intros x Hx. apply IHe. eapply incl_scat; eauto. Qed.

Lemma l_blocks S l : incl (scat sites_s l) S -> loc S (block_with (stmt_r fl f) l).
Proof. intros H. apply loc_block. intros x Hx. apply IHs. eapply incl_scat; eauto. Qed.

Lemma l_optM S o : incl (match o with Some c => sites_e c | None => [] end) S -> loc S (optM (expr_r fl f) o).
Proof.
  intros H. destruct o as [c|]; cbn [optM]; [|apply loc_ret].
  apply loc_bind; [apply IHe; exact H|]. intros y. apply loc_ret.
Qed.

Lemma l_binop S op a b sp : incl (sites_e a ++ sites_e b) S -> loc S (binop_with (expr_r fl f) op a b sp).
Proof.
  intros H. isplit H. unfold binop_with. apply loc_bind; [apply IHe; assumption|]. intros x.
  apply loc_bind; [apply IHe; assumption|]. intros y. apply loc_ret.
Qed.

Lemma l_uniop S op a sp : incl (sites_e a) S -> loc S (uniop_with (expr_r fl f) op a sp).
Proof. intros H. unfold uniop_with. apply loc_bind; [apply IHe; assumption|]. intros x. apply loc_ret. Qed.

Lemma lstep_e : Le (S f).
Proof.
  intros x S H. destruct x; cbn [expr_r]; cbn [sites_e] in H; try apply loc_ret.
  - apply IHa; assumption.
  - apply l_binop; assumption.
  - apply l_binop; assumption.
  - apply l_binop; assumption.
  - apply l_binop; assumption.
  - apply l_uniop; assumption.
  - apply l_binop; assumption.
  - apply l_binop; assumption.
  - apply l_binop; assumption.
  - apply l_binop; assumption.
  - apply l_uniop; assumption.
  - apply IHe; assumption.
  - (* PIf *)
    apply loc_bind; [|intros y; apply loc_ret]. apply loc_mapM. intros b Hb.
    pose proof (incl_scat _ _ _ _ H Hb) as Hbi. destruct b as [c body bsp]. cbn beta iota in Hbi. isplit Hbi.
    cbn [if_branch_with].
    apply loc_bind; [apply l_optM; assumption|]. intros c'.
    apply loc_bind; [apply loc_stack_len|]. intros len.
    apply loc_bind; [apply l_blocks; assumption|]. intros b'.
    apply loc_bind; [apply loc_truncate_if|]. intros _. apply loc_ret.
  - (* PCase *)
    isplit H.
    apply loc_bind; [apply IHe; assumption|]. intros tm'.
    apply loc_bind.
    { apply loc_mapM. intros b Hb. pose proof (incl_scat _ _ _ _ Hi Hb) as Hbi. destruct b as [pat v body].
      cbn beta iota in Hbi. cbn [case_branch_with].
      apply loc_bind; [apply loc_stack_len|]. intros len.
      apply loc_bind.
      { destruct v as [i|]; cbn [optM]; [|apply loc_ret].
        apply loc_bind; [apply loc_push_var|]. intros r. apply loc_ret. }
      intros v'.
      apply loc_bind; [apply l_blocks; assumption|]. intros b'.
      apply loc_bind; [apply loc_truncate_if|]. intros _. apply loc_ret. }
    intros brs'.
    apply loc_bind; [|intros y; apply loc_ret].
    destruct fall_through as [ft|]; cbn [optM]; [|apply loc_ret].
    apply loc_bind; [|intros y; apply loc_ret].
    apply loc_bind; [apply loc_stack_len|]. intros len.
    apply loc_bind; [apply l_blocks; assumption|]. intros b'.
    apply loc_bind; [apply loc_truncate_if|]. intros _. apply loc_ret.
  - (* PFunction *)
    isplit H.
    apply loc_bind; [apply loc_stack_len|]. intros ss.
    apply loc_bind.
    { apply loc_mapM. intros p Hp. pose proof (incl_scat _ _ _ _ H Hp) as Hpi. destruct p as [n t]. cbn [snd] in Hpi.
      cbn [param_r]. apply loc_bind; [apply loc_push_var|]. intros v.
      apply loc_bind; [apply loc_ty; assumption|]. intros t'. apply loc_ret. }
    intros ps.
    apply loc_bind; [apply loc_ty; assumption|]. intros rt'.
    apply loc_bind; [apply l_blocks; assumption|]. intros b'.
    apply loc_bind; [apply loc_truncate|]. intros _. apply loc_ret.
  - (* PBlob *)
    isplit H.
    apply loc_bind; [apply loc_lift; intros st; eapply rloc_incl; [exact H|apply ty_assignable_loc]|]. intros b.
    apply loc_bind; [apply loc_new_var|]. intros sv.
    apply loc_bind; [|intros y; apply loc_ret].
    apply loc_mapM. intros p Hp. pose proof (incl_scat _ _ _ _ Hi Hp) as Hpi. destruct p as [n v]. cbn [snd] in Hpi.
    cbn [blob_field_with].
    apply loc_bind; [apply loc_stack_len|]. intros ss.
    apply loc_bind; [destruct (is_function v); [apply loc_push_name|apply loc_ret]|]. intros _.
    apply loc_bind; [apply IHe; assumption|]. intros v'.
    apply loc_bind; [apply loc_truncate|]. intros _. apply loc_ret.
  - apply loc_bind; [apply l_args; assumption|]. intros y. apply loc_ret.
  - apply loc_bind; [apply l_args; assumption|]. intros y. apply loc_ret.
Qed.

Lemma lstep_a : La (S f).
Proof.
  intros a S H. destruct a; cbn [assign_r]; cbn [sites_a] in H.
  - apply loc_bind; [apply loc_lookup; assumption|]. intros v. apply loc_ret.
  - isplit H. apply loc_bind; [apply IHa; assumption|]. intros x.
    assert (Hf : In (EVariantNotRead, sp) S) by (apply Hi; left; reflexivity).
    assert (Hv : incl (sites_e value) S) by (intros z Hz; apply Hi; right; exact Hz).
    destruct x; try (apply loc_fail; exact Hf).
    apply loc_bind; [apply IHe; assumption|]. intros y. apply loc_ret.
  - isplit H. apply loc_bind; [apply IHa; assumption|]. intros x.
    apply loc_bind; [apply l_args; assumption|]. intros y. apply loc_ret.
  - isplit H. apply loc_bind; [apply IHe; assumption|]. intros z.
    apply loc_bind; [apply IHa; assumption|]. intros x.
    apply loc_bind; [apply l_args; assumption|]. intros y. apply loc_ret.
  - (* AAccess *)
    isplit H.
    apply loc_bind.
    { apply loc_lift. intros st. unfold access_namespace.
      destruct (access_local_first fl && root_on_stack st a); [exact I|].
      eapply rloc_incl; [|apply namespace_list_noerr]. intros z []. }
    intros ns. destruct ns as [ns|].
    + apply loc_bind; [apply loc_lift; intros st; eapply rloc_incl; [|apply lookup_global_noerr]; intros z []|].
      intros o. destruct o as [[v|f0 s0]|]; [apply loc_ret| |]; apply loc_fail; apply H; cbn; auto.
    + apply loc_bind; [apply IHa; assumption|]. intros v. apply loc_ret.
  - isplit H. apply loc_bind; [apply IHa; assumption|]. intros x.
    apply loc_bind; [apply IHe; assumption|]. intros y. apply loc_ret.
  - apply IHe; assumption.
Qed.

Lemma lstep_s : Ls (S f).
Proof.
  intros s S H. destruct s; cbn [stmt_r]; cbn [sites_s] in H; try apply loc_ret.
  - (* PBlobDef *)
    isplit H. apply loc_bind; [apply loc_lookup; assumption|]. intros v.
    apply loc_bind; [apply loc_fields; assumption|]. intros fs. apply loc_ret.
  - (* PEnumDef *)
    isplit H. apply loc_bind; [apply loc_lookup; assumption|]. intros v.
    apply loc_bind; [apply loc_fields; assumption|]. intros fs. apply loc_ret.
  - (* PAssignment *)
    isplit H. apply loc_bind; [apply IHe; assumption|]. intros y.
    apply loc_bind; [apply IHa; assumption|]. intros x. apply loc_ret.
  - (* PDefinition *)
    isplit H.
    apply loc_bind; [apply loc_get_stack|]. intros stack.
    apply loc_bind.
    { destruct stack as [|p0 rest].
      - apply loc_bind; [apply loc_push_var|]. intros _.
        apply loc_bind; [apply IHe; assumption|]. intros y.
        apply loc_bind; [apply loc_set_stack|]. intros _.
        apply loc_bind; [apply loc_lookup; assumption|]. intros v. apply loc_ret.
      - destruct (is_function value).
        + apply loc_bind; [apply loc_push_var|]. intros v.
          apply loc_bind; [apply IHe; assumption|]. intros y. apply loc_ret.
        + apply loc_bind; [apply IHe; assumption|]. intros y.
          apply loc_bind; [apply loc_push_var|]. intros v. apply loc_ret. }
    intros vv.
    apply loc_bind; [apply loc_ty; assumption|]. intros t'. apply loc_ret.
  - (* PExternalDefinition *)
    isplit H. apply loc_bind; [apply loc_lookup; assumption|]. intros v.
    apply loc_bind; [apply loc_ty; assumption|]. intros t'. apply loc_ret.
  - (* PLoop *)
    isplit H. apply loc_bind; [apply IHe; assumption|]. intros c.
    apply loc_bind; [apply IHs; assumption|]. intros b. apply loc_ret.
  - (* PRet *)
    apply loc_bind; [apply l_optM; destruct value; assumption|]. intros v. apply loc_ret.
  - (* PBlock *)
    apply loc_bind; [apply loc_stack_len|]. intros len.
    apply loc_bind; [apply l_blocks; assumption|]. intros b.
    apply loc_bind; [apply loc_truncate|]. intros _. apply loc_ret.
  - (* PStatementExpression *)
    apply loc_bind; [apply IHe; assumption|]. intros v. apply loc_ret.
Qed.

End Step.

Lemma l_all : forall f, Le f /\ La f /\ Ls f.
Proof.
  induction f as [|f (IHe & IHa & IHs)].
  - split; [|split]; intros x0 S0 _ st0; exact I.
  - split; [apply lstep_e; assumption|]. split; [apply lstep_a; assumption|apply lstep_s; assumption].
Qed.

(* ---- the namespace passes ---- *)

Lemma add_definitions_loc S ss : forall t,
  (forall s, In s ss -> incl (sites_pass s) S) -> loc S (add_definitions ss t).
Proof.
  induction ss as [|s ss IH]; intros t H; cbn [add_definitions]; [apply loc_ret|].
  assert (Hs : incl (sites_pass s) S) by (apply H; left; reflexivity).
  assert (Hr : forall s0, In s0 ss -> incl (sites_pass s0) S) by (intros s0 H0; apply H; right; exact H0).
  unfold sites_pass in Hs. destruct (defined_ident s) as [[i k]|]; [|apply IH; exact Hr].
  apply loc_bind; [apply loc_new_var|]. intros v.
  destruct (ns_get t (i_name i)); [|apply IH; exact Hr].
  apply loc_fail. apply Hs. left. reflexivity.
Qed.

Lemma import_name_loc S f nm v k sp : In (k, sp) S -> loc S (import_name f nm v k sp).
Proof.
  intros H st. unfold import_name. destruct (fol_get (st_ns st) f); cbn; auto.
  destruct (ns_get n nm) as [old|]; cbn; auto. destruct (name_eqb old v); cbn; auto.
  constructor; [exact H|constructor].
Qed.

Lemma from_imports_loc S f file sp imps :
  In (ENoNamespace, sp) S ->
  incl (scat (fun p => [(ECannotFind, i_span (fst p));
                        (ECollisionFrom, i_span (match snd p with Some a => a | None => fst p end))]) imps) S ->
  loc S (from_imports f file sp imps).
Proof.
  intros Hn. induction imps as [|[nm al] rest IH]; intros Hi; cbn [from_imports]; [apply loc_ret|].
  cbn [scat fst snd] in Hi. apply incl_app_inv in Hi as [Hh Ht].
  apply loc_bind; [intros st; exact I|]. intros from_ns.
  destruct from_ns as [from_ns|]; [|apply loc_fail; exact Hn].
  destruct (ns_get from_ns (i_name nm)); [|apply loc_fail; apply Hh; left; reflexivity].
  apply loc_bind; [apply import_name_loc; apply Hh; right; left; reflexivity|]. intros _. apply IH. exact Ht.
Qed.

Lemma rgv_loc S f ss : (forall s, In s ss -> incl (sites_pass s) S) -> loc S (resolve_global_variables f ss).
Proof.
  induction ss as [|s ss IH]; intros H; cbn [resolve_global_variables]; [apply loc_ret|].
  assert (Hs : incl (sites_pass s) S) by (apply H; left; reflexivity).
  apply loc_bind; [|intros _; apply IH; intros s0 H0; apply H; right; exact H0].
  unfold sites_pass in Hs. apply incl_app_inv in Hs as [_ Hs].
  destruct s; try apply loc_ret.
  - apply loc_bind; [intros st; exact I|]. intros target.
    destruct target; [apply import_name_loc; apply Hs; right; left; reflexivity|
                      apply loc_fail; apply Hs; left; reflexivity].
  - apply from_imports_loc; [apply Hs; left; reflexivity|]. intros z Hz. apply Hs. right. exact Hz.
Qed.

Lemma for_each_loc {X} S (g : X -> M unit) l : (forall x, In x l -> loc S (g x)) -> loc S (for_each g l).
Proof.
  induction l as [|x l IH]; intros H; cbn [for_each]; [apply loc_ret|].
  apply loc_bind; [apply H; left; reflexivity|]. intros _. apply IH. intros z Hz. apply H. right. exact Hz.
Qed.

(* the quiet rounds of the import pass drop their errors *)
Lemma try_loc S m : loc S (try_ m).
Proof. intros st. unfold try_. destruct (m st) as [[u s]| | |]; exact I. Qed.

Lemma quiet_round_loc S ast : loc S (quiet_round ast).
Proof.
  apply for_each_loc. intros m _. apply for_each_loc. intros s _. destruct s; try apply loc_ret.
  - apply try_loc.
  - apply for_each_loc. intros it _. apply try_loc.
Qed.

Lemma import_rounds_loc S n ast : loc S (import_rounds n ast).
Proof.
  induction n as [|n IH]; intros st; cbn [import_rounds]; [exact I|].
  pose proof (quiet_round_loc S ast st) as Hq. destruct (quiet_round ast st) as [[u s]| | |]; auto.
  destruct (Nat.eqb (names_count s) (names_count st)); [exact I|apply IH].
Qed.

Lemma module_sites ast m s : In m ast -> In s (m_stmts m) ->
  incl (sites_pass s) (err_sites ast) /\ incl (sites_s s) (err_sites ast).
Proof.
  intros Hm Hs. unfold err_sites.
  assert (H : incl (sites_pass s ++ sites_s s) (scat (fun m => scat (fun s => sites_pass s ++ sites_s s) (m_stmts m)) ast)).
  { eapply incl_tran; [apply (scat_in (fun s => sites_pass s ++ sites_s s) _ _ Hs)|].
    apply (scat_in (fun m => scat (fun s => sites_pass s ++ sites_s s) (m_stmts m)) _ _ Hm). }
  apply incl_app_inv in H. exact H.
Qed.

Definition no_start : site := (ENoStart, span_zero 0).

Lemma resolve_m_loc fuel ast : loc (no_start :: err_sites ast) (resolve_m fl fuel ast).
Proof.
  unfold resolve_m.
  apply loc_bind.
  { apply for_each_loc. intros m Hm. unfold insert_namespace_and_add_definitions.
    apply loc_bind; [|intros t st; exact I].
    apply add_definitions_loc. intros s Hs. apply incl_tl. apply (module_sites ast m s Hm Hs). }
  intros _. apply loc_bind.
  { unfold import_pass. apply loc_bind.
    { destruct (imports_fixpoint fl); [apply import_rounds_loc|apply loc_ret]. }
    intros _. apply for_each_loc. intros m Hm. apply rgv_loc. intros s Hs. apply incl_tl. apply (module_sites ast m s Hm Hs). }
  intros _. apply loc_bind.
  { apply loc_block. intros s Hs. apply in_flat_map in Hs as (m & Hm & Hs).
    apply (proj2 (proj2 (l_all fuel))). apply incl_tl. apply (module_sites ast m s Hm Hs). }
  intros out. apply loc_bind.
  { apply loc_lift. intros st. eapply rloc_incl; [|apply lookup_global_noerr]. intros z []. }
  intros start. destruct start; [apply loc_ret|]. apply loc_fail. left. reflexivity.
Qed.

(* resolve_errors_located *)
Theorem resolve_errors_located ast es :
  resolve fl ast = Err es ->
  Forall (fun e => In (e_kind e, e_span e) (err_sites ast) \/ (e_kind e = ENoStart /\ e_span e = span_zero 0)) es.
Proof.
  unfold resolve, resolve_fuel. intros H.
  pose proof (resolve_m_loc (fuel_of ast) ast (init_state ast)) as Hl.
  destruct (resolve_m fl (fuel_of ast) ast (init_state ast)) as [[out st]|e| |]; try discriminate.
  inversion H; subst. cbn in Hl. eapply Forall_impl; [|exact Hl].
  intros e [E|Hin]; [right; inversion E; auto|left; exact Hin].
Qed.

Corollary resolve_error_spans ast es :
  resolve fl ast = Err es ->
  Forall (fun e => In (e_span e) (spans_of ast) \/ (e_kind e = ENoStart /\ e_span e = span_zero 0)) es.
Proof.
  intros H. eapply Forall_impl; [|exact (resolve_errors_located ast es H)].
  intros e [Hin|Hn]; [left|right; exact Hn]. unfold spans_of. apply in_map_iff. exists (e_kind e, e_span e). auto.
Qed.

(* ---------------------------------------------------------------------------------------------- *)
(* first_error_is_first: a statement list fails with the error of its FIRST erroneous statement, the
   statements before it having been resolved in order (the code keeps going and appends the errors of
   later statements behind it; the model, like every comparison with the code, keeps the first) *)

Lemma block_first_error (rs : pstmt -> M (option stmt)) l1 s l2 st o1 st1 es :
  block_with rs l1 st = Ok (o1, st1) -> rs s st1 = Err es -> block_with rs (l1 ++ s :: l2) st = Err es.
Proof.
  revert st o1. induction l1 as [|x l1 IH]; intros st o1 H1 Hs.
  - inversion H1; subst. cbn [app block_with]. unfold bind. rewrite Hs. reflexivity.
  - cbn [app block_with] in *. unfold bind in *. destruct (rs x st) as [[ox sx]| | |]; try discriminate.
    destruct (block_with rs l1 sx) as [[o2 s2]| | |] eqn:E; try discriminate.
    inversion H1; subst. rewrite (IH _ _ E Hs). reflexivity.
Qed.

Lemma block_error_is_first (rs : pstmt -> M (option stmt)) l st es :
  block_with rs l st = Err es ->
  exists l1 s l2 o1 st1, l = l1 ++ s :: l2 /\ block_with rs l1 st = Ok (o1, st1) /\ rs s st1 = Err es.
Proof.
  revert st. induction l as [|x l IH]; intros st H; [discriminate|].
  cbn [block_with] in H. unfold bind in H. destruct (rs x st) as [[ox sx]|e| |] eqn:Ex; try discriminate.
  - destruct (block_with rs l sx) as [[o2 s2]|e2| |] eqn:E; try discriminate. inversion H; subst.
    destruct (IH _ E) as (l1 & s & l2 & o1 & st1 & -> & H1 & H2).
    exists (x :: l1), s, l2. eexists. exists st1. split; [reflexivity|]. split; [|exact H2].
    cbn [block_with]. unfold bind. rewrite Ex, H1. reflexivity.
  - inversion H; subst. exists [], x, l, [], st. auto.
Qed.

End Main.
