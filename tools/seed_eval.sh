#!/bin/bash
# usage: tools/seed_eval.sh <round> <ID> [check IDs...]   -- confirm a seed, then run the named checks (default: <ID>) against its worktree
R=$1; id=$2; shift 2
ids="$@"; [ -z "$ids" ] && ids=$id
echo "== verify"; bash /verif/tools/seed_verify_n.sh $R $id 2>&1 | tail -n 1
echo "== checks"; bash /verif/tools/altrun.sh /tmp/wt-seed$R-$id $ids 2>&1 | grep -E "^VIOLATION|^C[0-9]+:|^BROKEN" | cut -c1-420 | tail -n 12
