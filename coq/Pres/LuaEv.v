(* "Eventually" big-step rules for LuaCore: `Ev f r` says that the fuelled computation f gives r for every
   sufficiently large fuel.  The rules below are the one-step unfoldings of LuaCore's interpreter functions
   in that form; the simulation proofs are built from them and never mention fuel. *)
From Coq Require Import String Ascii List NArith ZArith QArith Bool Lia.
From Sylt Require Import Lua.LuaAst Lua.LuaMap Lua.LuaNum Lua.LuaCore Pres.LuaFuel.
Import ListNotations.
Local Open Scope string_scope.

Definition Ev {A : Type} (f : nat -> res A) (r : res A) : Prop :=
  exists m, forall k, (m <= k)%nat -> f k = r.

Lemma Ev_const {A} (r : res A) : Ev (fun _ => r) r.
Proof. exists O; auto. Qed.

Lemma Ev_S {A} (f : nat -> res A) r : Ev (fun k => f (S k)) r -> Ev f r.
Proof.
  intros [m H]. exists (S m). intros k Hk. destruct k; [lia|]. apply H. lia.
Qed.

Lemma Ev_ext {A} (f g : nat -> res A) r : (forall k, f k = g k) -> Ev g r -> Ev f r.
Proof. intros E [m H]. exists m. intros. rewrite E. auto. Qed.

Lemma Ev_bind {A B} (f : nat -> res A) (g : nat -> A -> state -> res B) a s r :
  Ev f (ROk a s) -> Ev (fun k => g k a s) r -> Ev (fun k => bind (f k) (g k)) r.
Proof.
  intros [m1 H1] [m2 H2]. exists (Nat.max m1 m2). intros k Hk.
  rewrite H1 by lia. cbn [bind]. apply H2. lia.
Qed.

Lemma Ev_bind_err {A B} (f : nat -> res A) (g : nat -> A -> state -> res B) v s :
  Ev f (RErr v s) -> Ev (fun k => bind (f k) (g k)) (RErr v s).
Proof. intros [m1 H1]. exists m1. intros k Hk. rewrite H1 by lia. reflexivity. Qed.

Lemma Ev_det {A} (f : nat -> res A) r1 r2 : Ev f r1 -> Ev f r2 -> r1 = r2.
Proof.
  intros [m1 H1] [m2 H2]. rewrite <- (H1 (Nat.max m1 m2)) by lia. apply H2. lia.
Qed.

(* one successful run is enough (fuel monotonicity) *)
Lemma Ev_eval_run n E ex st r : eval n E ex st = r -> nofuel r -> Ev (fun k => eval k E ex st) r.
Proof. intros H Hn. exists n. intros k Hk. rewrite <- H. apply eval_fuel_mono; [assumption | rewrite H; assumption]. Qed.
Lemma Ev_exec_block_run n E seen b st r :
  exec_block n E seen b st = r -> nofuel r -> Ev (fun k => exec_block k E seen b st) r.
Proof. intros H Hn. exists n. intros k Hk. rewrite <- H. apply exec_block_fuel_mono; [assumption | rewrite H; assumption]. Qed.
Lemma Ev_call_run n f args st r : call n f args st = r -> nofuel r -> Ev (fun k => call k f args st) r.
Proof. intros H Hn. exists n. intros k Hk. rewrite <- H. apply call_fuel_mono; [assumption | rewrite H; assumption]. Qed.

(* ------------------------------------------------------------------ expressions *)

Definition Eval (E : env) (ex : expr) (st : state) (r : res value) : Prop := Ev (fun k => eval k E ex st) r.

Lemma Eval_num E fl q st : Eval E (ENum fl q) st (ROk (mknum st fl q) st).
Proof. exists 1%nat. intros [|k] Hk; [lia|]. reflexivity. Qed.
Lemma Eval_true E st : Eval E ETrue st (ROk (VBool true) st).
Proof. exists 1%nat. intros [|k] Hk; [lia|]. reflexivity. Qed.
Lemma Eval_false E st : Eval E EFalse st (ROk (VBool false) st).
Proof. exists 1%nat. intros [|k] Hk; [lia|]. reflexivity. Qed.
Lemma Eval_nil E st : Eval E ENil st (ROk VNil st).
Proof. exists 1%nat. intros [|k] Hk; [lia|]. reflexivity. Qed.
Lemma Eval_str E s st : Eval E (EStr s) st (ROk (VStr s) st).
Proof. exists 1%nat. intros [|k] Hk; [lia|]. reflexivity. Qed.

Lemma Eval_local E x c st : sget x E = Some c -> Eval E (EVar x) st (ROk (get_cell st c) st).
Proof. intros H. exists 1%nat. intros [|k] Hk; [lia|]. cbn [eval]. rewrite H. reflexivity. Qed.

Definition glob (st : state) (x : string) (v : value) : Prop :=
  raw_get (get_table st globals_id) (VStr x) = v.

Lemma Eval_global E x v st :
  sget x E = None -> glob st x v -> is_nil v = false -> Eval E (EVar x) st (ROk v st).
Proof.
  intros H Hg Hn. exists 2%nat. intros [|[|k]] Hk; try lia. cbn [eval index]. rewrite H.
  unfold glob in Hg. rewrite Hg, Hn. reflexivity.
Qed.

Lemma Eval_paren E a st r : Eval E a st r -> Eval E (EParen a) st r.
Proof. intros H. apply Ev_S. exact H. Qed.

Definition is_shortcut (op : binop) : bool := match op with OAnd | OOr => true | _ => false end.

Lemma Eval_bin E op a b st va st1 vb st2 r :
  is_shortcut op = false ->
  Eval E a st (ROk va st1) -> Eval E b st1 (ROk vb st2) ->
  Ev (fun k => binop_apply k op va vb st2) r ->
  Eval E (EBin op a b) st r.
Proof.
  intros Hop Ha Hb Hr. apply Ev_S.
  assert (Hgoal : Ev (fun k => bind (eval k E a st) (fun va st1 => bind (eval k E b st1) (fun vb st2 => binop_apply k op va vb st2))) r).
  { apply (Ev_bind (fun k => eval k E a st) (fun k va st1 => bind (eval k E b st1) (fun vb st2 => binop_apply k op va vb st2)) va st1); [exact Ha|].
    apply (Ev_bind (fun k => eval k E b st1) (fun k vb st2 => binop_apply k op va vb st2) vb st2); assumption. }
  eapply Ev_ext; [|exact Hgoal]. intros k. destruct op; try discriminate; reflexivity.
Qed.

Lemma Eval_bin_err1 E op a b st v st1 :
  is_shortcut op = false -> Eval E a st (RErr v st1) -> Eval E (EBin op a b) st (RErr v st1).
Proof.
  intros Hop Ha. apply Ev_S.
  eapply Ev_ext; [| apply (Ev_bind_err (fun k => eval k E a st)
     (fun k va st1 => bind (eval k E b st1) (fun vb st2 => binop_apply k op va vb st2))); exact Ha].
  intros k. destruct op; try discriminate; reflexivity.
Qed.

Lemma Eval_and E a b st va st1 r :
  Eval E a st (ROk va st1) ->
  (if truthy va then Eval E b st1 r else r = ROk va st1) ->
  Eval E (EBin OAnd a b) st r.
Proof.
  intros Ha Hb. apply Ev_S. cbn [eval].
  apply (Ev_bind (fun k => eval k E a st) (fun k va st1 => if truthy va then eval k E b st1 else ROk va st1) va st1); [exact Ha|].
  destruct (truthy va); [exact Hb | subst r; apply Ev_const].
Qed.

Lemma Eval_un E op a st va st1 r :
  Eval E a st (ROk va st1) -> Ev (fun k => unop_apply k op va st1) r -> Eval E (EUn op a) st r.
Proof.
  intros Ha Hr. apply Ev_S. cbn [eval].
  apply (Ev_bind (fun k => eval k E a st) (fun k va st1 => unop_apply k op va st1) va st1); assumption.
Qed.

(* ---- expression lists ---- *)

Definition EvalList (E : env) (es : list expr) (st : state) (r : res (list value)) : Prop :=
  Ev (fun k => eval_list k E es st) r.
Definition EvalMulti (E : env) (ex : expr) (st : state) (r : res (list value)) : Prop :=
  Ev (fun k => eval_multi k E ex st) r.
Definition EvalCall (E : env) (f : expr) (args : list expr) (st : state) (r : res (list value)) : Prop :=
  Ev (fun k => eval_call k E f args st) r.

Definition is_call (ex : expr) : bool := match ex with ECall _ _ => true | _ => false end.

Lemma EvalMulti_single E ex st v st1 :
  is_call ex = false -> Eval E ex st (ROk v st1) -> EvalMulti E ex st (ROk [v] st1).
Proof.
  intros Hc H. apply Ev_S.
  eapply Ev_ext; [| apply (Ev_bind (fun k => eval k E ex st) (fun k v st1 => ROk [v] st1) v st1); [exact H | apply Ev_const]].
  intros k. destruct ex; try discriminate; reflexivity.
Qed.

Lemma EvalMulti_call E f args st r : EvalCall E f args st r -> EvalMulti E (ECall f args) st r.
Proof. intros H. apply Ev_S. exact H. Qed.

(* an expression in a single-value position and the same expression as the last of a list *)
Lemma Eval_to_multi E ex st v st1 :
  Eval E ex st (ROk v st1) -> exists vs, EvalMulti E ex st (ROk vs st1) /\ first vs = v.
Proof.
  intros H. destruct (is_call ex) eqn:Hc.
  - destruct ex; try discriminate. destruct H as [m H].
    pose proof (H (S m) ltac:(lia)) as Hm. cbn [eval] in Hm.
    destruct (eval_call m E ex args st) as [rs s| | |] eqn:Ec; cbn [bind] in Hm; try discriminate.
    inversion Hm; subst. exists rs. split; [|reflexivity].
    apply EvalMulti_call. exists m. intros k Hk.
    rewrite <- Ec. apply (f_eval_call _ (fmono_all m)); [assumption | rewrite Ec; exact I].
  - exists [v]. split; [apply EvalMulti_single; assumption | reflexivity].
Qed.

Lemma EvalList_nil E st : EvalList E [] st (ROk [] st).
Proof. exists 1%nat. intros [|k] Hk; [lia|]. reflexivity. Qed.

Lemma EvalList_one E ex st r : EvalMulti E ex st r -> EvalList E [ex] st r.
Proof. intros H. apply Ev_S. exact H. Qed.

Lemma EvalList_cons E ex es st v st1 vs st2 :
  es <> [] -> Eval E ex st (ROk v st1) -> EvalList E es st1 (ROk vs st2) ->
  EvalList E (ex :: es) st (ROk (v :: vs) st2).
Proof.
  intros Hne Ha Hb. apply Ev_S.
  eapply Ev_ext; [| apply (Ev_bind (fun k => eval k E ex st)
        (fun k v st1 => bind (eval_list k E es st1) (fun vs st2 => ROk (v :: vs) st2)) v st1); [exact Ha|];
        apply (Ev_bind (fun k => eval_list k E es st1) (fun k vs st2 => ROk (v :: vs) st2) vs st2); [exact Hb | apply Ev_const]].
  intros k. destruct es; [contradiction|]. reflexivity.
Qed.

(* a list of expressions each evaluated in a single-value position, the last one possibly a call *)
Lemma EvalList_single E ex st v st1 :
  Eval E ex st (ROk v st1) -> exists vs, EvalList E [ex] st (ROk vs st1) /\ first vs = v.
Proof.
  intros H. apply Eval_to_multi in H as (vs & H & Hf). exists vs. split; [apply EvalList_one; exact H | exact Hf].
Qed.

Lemma EvalCall_intro E f args st vf st1 vargs st2 r :
  Eval E f st (ROk vf st1) -> EvalList E args st1 (ROk vargs st2) ->
  Ev (fun k => call k vf vargs st2) r ->
  EvalCall E f args st r.
Proof.
  intros Hf Ha Hc. apply Ev_S. cbn [eval_call].
  apply (Ev_bind (fun k => eval k E f st) (fun k vf st1 => bind (eval_list k E args st1) (fun vargs st2 => call k vf vargs st2)) vf st1); [exact Hf|].
  apply (Ev_bind (fun k => eval_list k E args st1) (fun k vargs st2 => call k vf vargs st2) vargs st2); assumption.
Qed.

Lemma Eval_call E f args st rs st1 :
  EvalCall E f args st (ROk rs st1) -> Eval E (ECall f args) st (ROk (first rs) st1).
Proof.
  intros H. apply Ev_S. cbn [eval].
  apply (Ev_bind (fun k => eval_call k E f args st) (fun k rs st1 => ROk (first rs) st1) rs st1); [exact H | apply Ev_const].
Qed.

Lemma Eval_call_err E f args st v st1 :
  EvalCall E f args st (RErr v st1) -> Eval E (ECall f args) st (RErr v st1).
Proof.
  intros H. apply Ev_S. cbn [eval].
  apply (Ev_bind_err (fun k => eval_call k E f args st) (fun k rs st1 => ROk (first rs) st1)); exact H.
Qed.

(* ---- calls ---- *)

Definition Call (f : value) (args : list value) (st : state) (r : res (list value)) : Prop :=
  Ev (fun k => call k f args st) r.

Definition ExecBlock (E : env) (seen : seen_labels) (b : block) (st : state) (r : res (env * signal)) : Prop :=
  Ev (fun k => exec_block k E seen b st) r.

(* a Lua closure whose body returns *)
Lemma Call_closure id c args st E1 st1 Eb vs st2 :
  pget id (s_clos st) = Some c ->
  bind_locals (c_env c) (c_params c) args st = (E1, st1) ->
  ExecBlock E1 [] (c_body c) st1 (ROk (Eb, SigReturn vs) st2) ->
  Call (VFun id) args st (ROk vs st2).
Proof.
  intros Hc Hb Hx. apply Ev_S. cbn [call]. rewrite Hc, Hb.
  apply (Ev_bind (fun k => exec_block k E1 [] (c_body c) st1)
           (fun k r st2 => match snd r with
                           | SigReturn vs => ROk vs st2 | SigNormal => ROk [] st2
                           | SigBreak => err "break outside a loop" st2
                           | SigGoto l => err ("no visible label '" ++ l ++ "' for goto") st2 end)
           (Eb, SigReturn vs) st2); [exact Hx | apply Ev_const].
Qed.

Lemma Call_closure_normal id c args st E1 st1 Eb st2 :
  pget id (s_clos st) = Some c ->
  bind_locals (c_env c) (c_params c) args st = (E1, st1) ->
  ExecBlock E1 [] (c_body c) st1 (ROk (Eb, SigNormal) st2) ->
  Call (VFun id) args st (ROk [] st2).
Proof.
  intros Hc Hb Hx. apply Ev_S. cbn [call]. rewrite Hc, Hb.
  apply (Ev_bind (fun k => exec_block k E1 [] (c_body c) st1)
           (fun k r st2 => match snd r with
                           | SigReturn vs => ROk vs st2 | SigNormal => ROk [] st2
                           | SigBreak => err "break outside a loop" st2
                           | SigGoto l => err ("no visible label '" ++ l ++ "' for goto") st2 end)
           (Eb, SigNormal) st2); [exact Hx | apply Ev_const].
Qed.

Lemma Call_closure_err id c args st E1 st1 v st2 :
  pget id (s_clos st) = Some c ->
  bind_locals (c_env c) (c_params c) args st = (E1, st1) ->
  ExecBlock E1 [] (c_body c) st1 (RErr v st2) ->
  Call (VFun id) args st (RErr v st2).
Proof.
  intros Hc Hb Hx. apply Ev_S. cbn [call]. rewrite Hc, Hb.
  apply (Ev_bind_err (fun k => exec_block k E1 [] (c_body c) st1)); exact Hx.
Qed.

Lemma Call_pure_builtin b args st :
  match b with BTostring | BPrint | BPcall => False | _ => True end ->
  Call (VBuiltin b) args st (pure_builtin b args st).
Proof.
  intros Hb. exists 2%nat. intros [|[|k]] Hk; try lia. cbn [call call_builtin].
  destruct b; try contradiction; reflexivity.
Qed.

(* print of one value that has no __tostring metamethod *)
Lemma Call_print1 v st :
  metamethod st v "__tostring" = VNil ->
  Call (VBuiltin BPrint) [v] st (ROk [] (emit_line st (tostring_basic (d53 st) v))).
Proof.
  intros Hm. exists 4%nat. intros [|[|[|[|k]]]] Hk; try lia.
  cbn [call call_builtin print_line tostr]. rewrite Hm. reflexivity.
Qed.

(* ------------------------------------------------------------------ statements *)

Definition Exec (E : env) (s : stmt) (st : state) (r : res (env * signal)) : Prop :=
  Ev (fun k => exec k E s st) r.

Lemma Exec_local E xs es st vs st1 :
  EvalList E es st (ROk vs st1) ->
  Exec E (SLocal xs es) st (ROk (fst (bind_locals E xs vs st1), SigNormal) (snd (bind_locals E xs vs st1))).
Proof.
  intros H. apply Ev_S. cbn [exec].
  apply (Ev_bind (fun k => eval_list k E es st)
          (fun k vs st1 => let (e1, st2) := bind_locals E xs vs st1 in ROk (e1, SigNormal) st2) vs st1); [exact H|].
  destruct (bind_locals E xs vs st1). apply Ev_const.
Qed.

Lemma Exec_local_err E xs es st v st1 :
  EvalList E es st (RErr v st1) -> Exec E (SLocal xs es) st (RErr v st1).
Proof. intros H. apply Ev_S. cbn [exec]. apply (Ev_bind_err (fun k => eval_list k E es st)); exact H. Qed.

(* x = e for a local x *)
Lemma Exec_assign_local E x c ex st vs st1 :
  sget x E = Some c -> EvalList E [ex] st (ROk vs st1) ->
  Exec E (SAssign [EVar x] [ex]) st (ROk (E, SigNormal) (set_cell st1 c (first vs))).
Proof.
  intros Hx [m H]. exists (S (S (S (S m)))). intros k Hk.
  destruct k as [|[|[|k]]]; try lia.
  cbn [exec eval_targets bind]. rewrite Hx. cbn [bind].
  rewrite H by lia. cbn [bind assign_all]. reflexivity.
Qed.

Lemma Exec_assign_err E x c ex st v st1 :
  sget x E = Some c -> EvalList E [ex] st (RErr v st1) ->
  Exec E (SAssign [EVar x] [ex]) st (RErr v st1).
Proof.
  intros Hx [m H]. exists (S (S (S (S m)))). intros k Hk.
  destruct k as [|[|[|k]]]; try lia.
  cbn [exec eval_targets bind]. rewrite Hx. cbn [bind].
  rewrite H by lia. reflexivity.
Qed.

Lemma Exec_call E f args st rs st1 :
  EvalCall E f args st (ROk rs st1) -> Exec E (SCall f args) st (ROk (E, SigNormal) st1).
Proof.
  intros H. apply Ev_S. cbn [exec].
  apply (Ev_bind (fun k => eval_call k E f args st) (fun k _ st1 => ROk (E, SigNormal) st1) rs st1); [exact H | apply Ev_const].
Qed.

Lemma Exec_call_err E f args st v st1 :
  EvalCall E f args st (RErr v st1) -> Exec E (SCall f args) st (RErr v st1).
Proof. intros H. apply Ev_S. cbn [exec]. apply (Ev_bind_err (fun k => eval_call k E f args st)); exact H. Qed.

Lemma Exec_return E es st vs st1 :
  EvalList E es st (ROk vs st1) -> Exec E (SReturn es) st (ROk (E, SigReturn vs) st1).
Proof.
  intros H. apply Ev_S. cbn [exec].
  apply (Ev_bind (fun k => eval_list k E es st) (fun k vs st1 => ROk (E, SigReturn vs) st1) vs st1); [exact H | apply Ev_const].
Qed.

Lemma Exec_do E b st Eb sg st1 :
  ExecBlock E [] b st (ROk (Eb, sg) st1) -> Exec E (SDo b) st (ROk (E, sg) st1).
Proof.
  intros H. apply Ev_S. cbn [exec].
  apply (Ev_bind (fun k => exec_block k E [] b st) (fun k r st1 => ROk (E, snd r) st1) (Eb, sg) st1); [exact H | apply Ev_const].
Qed.

Lemma Exec_do_err E b st v st1 :
  ExecBlock E [] b st (RErr v st1) -> Exec E (SDo b) st (RErr v st1).
Proof. intros H. apply Ev_S. cbn [exec]. apply (Ev_bind_err (fun k => exec_block k E [] b st)); exact H. Qed.

Lemma Exec_if E c t f st vc st1 Eb sg st2 :
  Eval E c st (ROk vc st1) ->
  ExecBlock E [] (if truthy vc then t else f) st1 (ROk (Eb, sg) st2) ->
  Exec E (SIf c t f) st (ROk (E, sg) st2).
Proof.
  intros Hc Hb. apply Ev_S. cbn [exec].
  apply (Ev_bind (fun k => eval k E c st)
           (fun k vc st1 => bind (exec_block k E [] (if truthy vc then t else f) st1) (fun r st2 => ROk (E, snd r) st2)) vc st1); [exact Hc|].
  apply (Ev_bind (fun k => exec_block k E [] (if truthy vc then t else f) st1) (fun k r st2 => ROk (E, snd r) st2) (Eb, sg) st2);
    [exact Hb | apply Ev_const].
Qed.

Lemma Exec_if_err E c t f st vc st1 v st2 :
  Eval E c st (ROk vc st1) ->
  ExecBlock E [] (if truthy vc then t else f) st1 (RErr v st2) ->
  Exec E (SIf c t f) st (RErr v st2).
Proof.
  intros Hc Hb. apply Ev_S. cbn [exec].
  apply (Ev_bind (fun k => eval k E c st)
           (fun k vc st1 => bind (exec_block k E [] (if truthy vc then t else f) st1) (fun r st2 => ROk (E, snd r) st2)) vc st1); [exact Hc|].
  apply (Ev_bind_err (fun k => exec_block k E [] (if truthy vc then t else f) st1)); exact Hb.
Qed.

Lemma Exec_localfun E x ps b st :
  Exec E (SLocalFun x ps b) st
    (ROk (sset x (s_ncell st) E, SigNormal)
         (set_cell (snd (alloc_closure (snd (alloc_cell st VNil)) (mkClosure (sset x (s_ncell st) E) ps b)))
                   (s_ncell st) (VFun (s_nclo st)))).
Proof. exists 1%nat. intros [|k] Hk; [lia|]. reflexivity. Qed.

Lemma Exec_break E st : Exec E SBreak st (ROk (E, SigBreak) st).
Proof. exists 1%nat. intros [|k] Hk; [lia|]. reflexivity. Qed.
Lemma Exec_goto E l st : Exec E (SGoto l) st (ROk (E, SigGoto l) st).
Proof. exists 1%nat. intros [|k] Hk; [lia|]. reflexivity. Qed.

(* ------------------------------------------------------------------ statement sequences *)

Definition is_label (s : stmt) : bool := match s with SLabel _ => true | _ => false end.
Definition nolabel (b : block) : Prop := Forall (fun s => is_label s = false) b.

Definition normal_res (r : res (env * signal)) : Prop :=
  match r with ROk (_, SigNormal) _ => True | _ => False end.

(* the statements of b executed in order; stops at the first statement whose result is not normal *)
Inductive ExecS : env -> block -> state -> res (env * signal) -> Prop :=
| XS_nil E st : ExecS E [] st (ROk (E, SigNormal) st)
| XS_cons E s b st E1 st1 r :
    Exec E s st (ROk (E1, SigNormal) st1) -> ExecS E1 b st1 r -> ExecS E (s :: b) st r
| XS_stop E s b st r :
    Exec E s st r -> ~ normal_res r -> ExecS E (s :: b) st r.

Lemma ExecS_app E b1 st E1 st1 b2 r :
  ExecS E b1 st (ROk (E1, SigNormal) st1) -> ExecS E1 b2 st1 r -> ExecS E (b1 ++ b2)%list st r.
Proof.
  intros H. remember (ROk (E1, SigNormal) st1) as r1 eqn:Hr. revert Hr.
  induction H as [E st | E s b st E' st' r' Hs Hb IH | E s b st r' Hs Hn]; intros Hr H2; subst.
  - inversion Hr; subst. exact H2.
  - cbn [app]. eapply XS_cons; [exact Hs|]. apply IH; auto.
  - exfalso. apply Hn. exact I.
Qed.

Lemma ExecS_app_stop E b1 st b2 r :
  ExecS E b1 st r -> ~ normal_res r -> ExecS E (b1 ++ b2)%list st r.
Proof.
  induction 1 as [E st | E s b st E' st' r' Hs Hb IH | E s b st r' Hs Hn]; intros Hr.
  - exfalso. apply Hr. exact I.
  - cbn [app]. eapply XS_cons; [exact Hs|]. apply IH; auto.
  - cbn [app]. apply XS_stop; assumption.
Qed.

Lemma ExecS_one E s st r : Exec E s st r -> ExecS E [s] st r.
Proof.
  intros H. destruct r as [[E1 sg] st1| | |].
  - destruct sg; [eapply XS_cons; [exact H | apply XS_nil] | | | ]; (apply XS_stop; [exact H | intros []]).
  - apply XS_stop; [exact H | intros []].
  - apply XS_stop; [exact H | intros []].
  - apply XS_stop; [exact H | intros []].
Qed.

(* what exec_block does with such a sequence, when the outcome is not a goto *)
Definition goto_res (r : res (env * signal)) : Prop :=
  match r with ROk (_, SigGoto _) _ => True | _ => False end.

Lemma exec_block_cons_unfold k E seen s b st :
  is_label s = false ->
  exec_block (S k) E seen (s :: b) st =
  bind (exec k E s st) (fun r st1 =>
    match snd r with
    | SigNormal => exec_block k (fst r) seen b st1
    | SigGoto l =>
        match seen_find l seen with
        | Some (el, bl, seen') => exec_block k el seen' bl st1
        | None =>
            match scan_label l (fst r) b seen with
            | Some (bl, seen') => exec_block k (fst r) seen' bl st1
            | None => ROk (fst r, SigGoto l) st1
            end
        end
    | sg => ROk (fst r, sg) st1
    end).
Proof. intros H. destruct s; try discriminate; reflexivity. Qed.

Lemma ExecBlock_of_ExecS E b st r seen :
  ExecS E b st r -> nolabel b -> ~ goto_res r -> ExecBlock E seen b st r.
Proof.
  induction 1 as [E st | E s b st E' st' r' Hs Hb IH | E s b st r' Hs Hn]; intros Hl Hg.
  - exists 1%nat. intros [|k] Hk; [lia|]. reflexivity.
  - inversion Hl; subst. apply Ev_S.
    eapply Ev_ext; [intros k; apply exec_block_cons_unfold; assumption|].
    eapply (Ev_bind (fun k => exec k E s st)); [exact Hs|]. cbn [snd fst]. apply IH; assumption.
  - inversion Hl; subst. apply Ev_S.
    eapply Ev_ext; [intros k; apply exec_block_cons_unfold; assumption|].
    destruct r' as [[E1 sg] st1|v st1|st1|w st1].
    + eapply (Ev_bind (fun k => exec k E s st)); [exact Hs|]. cbn [snd fst].
      destruct sg; try apply Ev_const.
      * exfalso. apply Hn. exact I.
      * exfalso. apply Hg. exact I.
    + apply (Ev_bind_err (fun k => exec k E s st)). exact Hs.
    + destruct Hs as [m Hs]. exists m. intros k Hk. rewrite Hs by lia. reflexivity.
    + destruct Hs as [m Hs]. exists m. intros k Hk. rewrite Hs by lia. reflexivity.
Qed.

(* with no label passed yet and no label ahead, a goto leaves the block like the other signals *)
Lemma scan_label_nolabel l e b : nolabel b -> scan_label l e b [] = None.
Proof.
  revert e. induction b as [|x b IH]; intros e Hb; [reflexivity|]. inversion Hb; subst.
  destruct x; try discriminate; cbn [scan_label]; auto.
Qed.

Lemma ExecBlock_of_ExecS_nil E b st r :
  ExecS E b st r -> nolabel b -> ExecBlock E [] b st r.
Proof.
  induction 1 as [E st | E s b st E' st' r' Hs Hb IH | E s b st r' Hs Hn]; intros Hl.
  - exists 1%nat. intros [|k] Hk; [lia|]. reflexivity.
  - inversion Hl; subst. apply Ev_S.
    eapply Ev_ext; [intros k; apply exec_block_cons_unfold; assumption|].
    eapply (Ev_bind (fun k => exec k E s st)); [exact Hs|]. cbn [snd fst]. apply IH; assumption.
  - inversion Hl; subst. apply Ev_S.
    eapply Ev_ext; [intros k; apply exec_block_cons_unfold; assumption|].
    destruct r' as [[E1 sg] st1|v st1|st1|w st1].
    + eapply (Ev_bind (fun k => exec k E s st)); [exact Hs|]. cbn [snd fst seen_find].
      destruct sg; try apply Ev_const.
      * exfalso. apply Hn. exact I.
      * rewrite scan_label_nolabel by assumption. apply Ev_const.
    + apply (Ev_bind_err (fun k => exec k E s st)). exact Hs.
    + destruct Hs as [m Hs]. exists m. intros k Hk. rewrite Hs by lia. reflexivity.
    + destruct Hs as [m Hs]. exists m. intros k Hk. rewrite Hs by lia. reflexivity.
Qed.

(* an if whose chosen branch does not end normally *)
Lemma Exec_if_sig E c t f st vc st1 Eb sg st2 :
  Eval E c st (ROk vc st1) ->
  ExecBlock E [] (if truthy vc then t else f) st1 (ROk (Eb, sg) st2) ->
  Exec E (SIf c t f) st (ROk (E, sg) st2).
Proof. apply Exec_if. Qed.
