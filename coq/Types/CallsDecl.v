(* C03 through calls, whole programs: the declaration `f :: fn p1: t1, .. -> r do .. end` (leaf types t1.., r)
   establishes Calls.fn_sig, the declaration `x: t = e` / `x: t : e` establishes Calls.var_is; a later use that
   contradicts the declared types is rejected wherever it stands. *)
From Coq Require Import String List NArith ZArith PArith Bool Lia FMapPositive.
From Sylt Require Import Syntax.Resolved Types.TyGraph Types.Tc Types.Ctx Types.TcInv Types.Reject Types.Mismatch
  Types.ShapesDecl Types.CopyInst Types.Calls.
Import ListNotations.
Local Open Scope tc_scope.

(* every parameter is annotated with a leaf type *)
Definition annotated (params : list (string * N * span * ty)) (ps : list basety) : Prop :=
  Forall2 (fun p b => exists nm var psp tsp, p = (nm, var, psp, TResolved b tsp)) params ps.

Section Establish.
  Variable kinds : PositiveMap.t varkind.
  Variable g : nat.
  Notation G := (gfix g).
  Notation afix := (afix kinds G).
  Let PG : gpres G := gfix_pres g.
  Let PA f : apres (afix f) := afix_pres kinds G PG f.

  Lemma r_type_base b tsp seen f s r s' :
    wf s -> r_type (afix f) (TResolved b tsp) seen s = Ok (r, s') ->
    wf s' /\ ext s s' /\ head s' (fst r) = Some (base_head b) /\ snd r = seen.
  Proof.
    intros W H. destruct f as [|f]; [discriminate|]. cbn [Tc.afix astep r_type] in H. unfold type_body in H.
    apply bind_inv in H as (i & s1 & Hp & H). injection H as <- <-. cbn [fst snd].
    destruct (push_spec _ _ _ _ W Hp) as (W1 & E1 & Hh). split; [assumption|]. split; [assumption|]. split; [|reflexivity].
    destruct b; exact Hh.
  Qed.

  Lemma params_fold f : forall params ps acc s r s',
    wf s -> annotated params ps -> (forall n b, nth_error ps n = Some b -> rigid_base b = true) ->
    foldM (fun (acc : list tyid * genmap) (p : string * N * span * ty) =>
             let '(_, var, psp, pty) := p in
             vt <- var_ty kinds var;; rt0 <- r_type (afix f) pty (snd acc);;
             a <- unify G psp vt (fst rt0);; ret (fst acc ++ [a], snd rt0)) params acc s = Ok (r, s') ->
    wf s' /\ ext s s' /\
    exists new, fst r = fst acc ++ new /\ length new = length ps /\
                forall n a b, nth_error new n = Some a -> nth_error ps n = Some b -> head s' a = Some (base_head b).
  Proof.
    induction params as [|p params IH]; intros ps acc s r s' W An Rg H; inversion An as [|p0 b0 ps0 bs0 Hp An']; subst;
      cbn [foldM] in H.
    - injection H as <- <-. split; [assumption|]. split; [apply ext_refl|]. exists []. rewrite app_nil_r.
      split; [reflexivity|]. split; [reflexivity|]. intros [|n] a b Ha; discriminate.
    - destruct Hp as (nm & var & psp & tsp & ->).
      apply bind_inv in H as (acc1 & s1 & H1 & H).
      apply bind_inv in H1 as (vt & s2 & Hv & H1). apply ShapesDecl_var_ty_inv in Hv as [-> ->].
      apply bind_inv in H1 as (rt0 & s3 & Hr & H1).
      destruct (r_type_base _ _ _ _ _ _ _ W Hr) as (W3 & E3 & Hh3 & _).
      apply bind_inv in H1 as (a & s4 & Hu & H1). injection H1 as <- <-.
      destruct (unify_result_head _ _ _ _ _ _ _ W3 Hu) as (W4 & E4 & Hra & Heq).
      assert (Rb0 : rigid_base b0 = true) by (apply (Rg 0%nat); reflexivity).
      assert (Ha4 : head s4 a = Some (base_head b0)).
      { rewrite Hra, Heq. exact (head_keep _ _ _ _ E4 Hh3 Rb0). }
      destruct (IH bs0 _ _ _ _ W4 An' (fun n b Hn => Rg (S n) b Hn) H) as (W5 & E5 & (new & Hn & Hl & Hk)).
      split; [assumption|]. split; [eapply ext_trans; [exact E3|]; eapply ext_trans; eassumption|].
      exists (a :: new). cbn [fst] in Hn. rewrite Hn, <- app_assoc. split; [reflexivity|]. split; [cbn; lia|].
      intros [|n] a' b' Ha' Hb'; cbn [nth_error] in Ha', Hb'.
      + injection Ha' as <-. injection Hb' as <-. exact (head_keep _ _ _ _ E5 Ha4 Rb0).
      + eapply Hk; eassumption.
  Qed.

  (* fn type_from_function on a fully annotated signature *)
  Lemma tff_sig params ps rb tsp pure f s fty rt s' :
    wf s -> annotated params ps -> (forall n b, nth_error ps n = Some b -> rigid_base b = true) -> rigid_base rb = true ->
    type_from_function kinds G (afix f) params (TResolved rb tsp) pure s = Ok ((fty, rt), s') ->
    wf s' /\ ext s s' /\
    exists args p, head s' fty = Some (HFn args rt p) /\ length args = length ps /\
      (forall n a b, nth_error args n = Some a -> nth_error ps n = Some b -> head s' a = Some (base_head b)) /\
      head s' rt = Some (base_head rb).
  Proof.
    intros W An Rg Rr H.
    assert (P : pres (type_from_function kinds G (afix f) params (TResolved rb tsp) pure))
      by (eapply pres_type_from_function; [exact PG|apply PA]).
    destruct (P _ _ _ W H) as [W' E']. split; [assumption|]. split; [assumption|].
    unfold type_from_function in H.
    apply bind_inv in H as ([args seen] & s1 & H1 & H).
    destruct (params_fold _ _ _ _ _ _ _ W An Rg H1) as (W1 & E1 & (new & Hn & Hl & Hk)). cbn [fst app] in Hn. subst args.
    apply bind_inv in H as (rr & s2 & Hr & H).
    destruct (r_type_base _ _ _ _ _ _ _ W1 Hr) as (W2 & E2 & Hh2 & _).
    apply bind_inv in H as (fn & s3 & Hp & H). injection H as <- <- <-.
    destruct (push_spec _ _ _ _ W2 Hp) as (W3 & E3 & Hf).
    exists new, (if pure then PPure else PImpure). split; [exact Hf|]. split; [assumption|]. split.
    - intros n a b Ha Hb. eapply head_keep; [eapply ext_trans; [exact E2|exact E3]|eapply Hk; eassumption|].
      eapply Rg; eassumption.
    - exact (head_keep _ _ _ _ E3 Hh2 Rr).
  Qed.

  (* the signature facts move with the class: from a function node to whatever has been unified with it *)
  Lemma sig_transfer ps rb i j s s' args r p :
    (forall n b, nth_error ps n = Some b -> rigid_base b = true) -> rigid_base rb = true ->
    head s i = Some (HFn args r p) -> length args = length ps ->
    (forall n a b, nth_error args n = Some a -> nth_error ps n = Some b -> head s a = Some (base_head b)) ->
    head s r = Some (base_head rb) ->
    ext s s' -> head s' j = head s' i ->
    exists args' r' p', head s' j = Some (HFn args' r' p') /\ length args' = length ps /\
      (forall n a b, nth_error args' n = Some a -> nth_error ps n = Some b -> head s' a = Some (base_head b)) /\
      head s' r' = Some (base_head rb).
  Proof.
    intros Rg Rr Hh Hl Ha Hr E Hj. pose proof E as (_ & _ & _ & E4 & _).
    destruct (E4 _ _ Hh eq_refl) as (h' & Hh' & Sh). destruct h'; try discriminate Sh.
    cbn [same_shape] in Sh. apply PeanoNat.Nat.eqb_eq in Sh.
    exists params, ret, p0. split; [congruence|]. split; [lia|]. split.
    - intros n a' b Ha' Hb. destruct (nth_error_same_length params args n a' (eq_sym Sh) Ha') as [a Hna].
      apply (kid_keep s s' i (HFn args r p) (HFn params ret p0) (KArg n) a a'); try assumption; try reflexivity.
      + eapply Ha; eassumption.
      + eapply Rg; eassumption.
    - apply (kid_keep s s' i (HFn args r p) (HFn params ret p0) KRes r ret); try assumption; reflexivity.
  Qed.

  (* `f :: fn p1: t1, .. -> r do .. end` at the top level *)
  Lemma fn_established name v kind dty nm params ps rb tsp body pure fsp dsp f s u s' :
    annotated params ps -> (forall n b, nth_error ps n = Some b -> rigid_base b = true) -> rigid_base rb = true ->
    wf s ->
    outer_statement kinds G (afix f)
      (SDefinition name v kind dty (EFunction nm params (TResolved rb tsp) body pure fsp) dsp) ctx_new s = Ok (u, s') ->
    fn_sig v ps rb s'.
  Proof.
    intros An Rg Rr W H. unfold outer_statement in H. apply bind_inv in H as (vr & s1 & H & Hu). injection Hu as _ <-.
    unfold definition in H. cbn [ctx_new inside_pure andb] in H.
    apply bind_inv in H as (vt & s2 & Hv & H). apply ShapesDecl_var_ty_inv in Hv as [-> ->].
    apply bind_inv in H as (u1 & s3 & H1 & H).
    apply bind_inv in H1 as ([fty rt] & s4 & Ht & H1).
    destruct (tff_sig _ _ _ _ _ _ _ _ _ _ W An Rg Rr Ht) as (W4 & E4 & (args & p & Hf & Hl & Ha & Hr)).
    apply bind_inv in H1 as (u2 & s5 & Hun & H1). injection H1 as _ <-.
    destruct (unify_result_head _ _ _ _ _ _ _ W4 Hun) as (W5 & E5 & _ & Heq).
    destruct (sig_transfer ps rb fty (N.succ_pos v) s4 s5 args rt p Rg Rr Hf Hl Ha Hr E5 Heq) as (a5 & r5 & p5 & X1 & X2 & X3 & X4).
    assert (S5 : fn_sig v ps rb s5) by (exists a5, r5, p5; auto).
    (* everything after is an extension *)
    match type of H with ?m s5 = _ => assert (Pm : pres m) by (pose proof PG; pose proof (PA f); prs;
      try apply pres_resolve_type; try apply (ap_expr _ (PA f)); try assumption) end.
    destruct (Pm _ _ _ W5 H) as [_ E6]. exact (fn_sig_ext v ps rb Rg Rr _ _ W5 E6 S5).
  Qed.

  (* `x: t = e` / `x: t : e` with a leaf type t *)
  Lemma var_established name v kind b tsp value dsp f s u s' :
    rigid_base b = true -> wf s ->
    outer_statement kinds G (afix f) (SDefinition name v kind (TResolved b tsp) value dsp) ctx_new s = Ok (u, s') ->
    var_is v b s'.
  Proof.
    intros Rb W H. unfold outer_statement in H. apply bind_inv in H as (vr & s1 & H & Hu). injection Hu as _ <-.
    unfold definition in H. cbn [ctx_new inside_pure andb] in H.
    apply bind_inv in H as (vt & s2 & Hv & H). apply ShapesDecl_var_ty_inv in Hv as [-> ->].
    apply bind_inv_pres0 in H as (u1 & s3 & _ & W3 & E3 & H);
      [|destruct value; try apply pres_ret; pose proof PG; pose proof (PA f); prs; apply pres_type_from_function; assumption|assumption].
    apply bind_inv in H as (dt & s4 & Hd & H).
    unfold resolve_type in Hd. apply bind_inv in Hd as (rd & s4' & Hr & Hd). injection Hd as <- <-.
    destruct (r_type_base _ _ _ _ _ _ _ W3 Hr) as (W4 & E4 & Hh4 & _).
    apply bind_inv_pres0 in H as (u2 & s5 & Hc & W5 & E5 & H); [|apply pres_add_constraint|assumption].
    apply bind_inv in H as (u3 & s6 & Hun & H).
    destruct (unify_result_head _ _ _ _ _ _ _ W5 Hun) as (W6 & E6 & _ & Heq).
    assert (V6 : var_is v b s6).
    { unfold var_is. rewrite Heq. eapply head_keep; [eapply ext_trans; [exact E5|exact E6]|exact Hh4|exact Rb]. }
    match type of H with ?m s6 = _ => assert (Pm : pres m) by (pose proof PG; pose proof (PA f); prs; apply (ap_expr _ (PA f))) end.
    destruct (Pm _ _ _ W6 H) as [_ E7]. exact (var_is_ext v b _ _ Rb W6 E7 V6).
  Qed.
End Establish.

(* rejected_after_decl for invariants whose establishment looks into the syntax-level functions *)
Theorem rejected_after_decl' (Inv : st -> Prop) (decl : stmt) (e : expr) :
  (forall s s', wf s -> ext s s' -> Inv s -> Inv s') ->
  (forall kinds g f s u s', wf s -> outer_statement kinds (gfix g) (afix kinds (gfix g) f) decl ctx_new s = Ok (u, s') -> Inv s') ->
  (forall kinds g f ctx s, wf s /\ Inv s -> notok (r_expr (afix kinds (gfix g) f) e ctx s)) ->
  forall pre mid post dname dvar dkind dty (C : ectx) dsp sp0 fuel vars,
    typecheck fuel (mkResolved vars
      (pre ++ decl :: mid ++ SDefinition dname dvar dkind dty (plug_e e (SStatementExpression e sp0) C) dsp :: post)) <> Ok tt.
Proof.
  intros IE Hd He pre mid post dname dvar dkind dty C dsp sp0 fuel vars.
  apply typecheck_notok_main. intros s W.
  set (kinds := kinds_of vars 1 (PositiveMap.empty varkind)).
  pose proof (gfix_pres fuel) as PG. pose proof (afix_pres kinds (gfix fuel) PG fuel) as PA.
  apply (iterM_notok_after _ Inv); try assumption.
  - intros y. now apply pres_outer_statement.
  - intros s0 u s1 W0 H0. exact (Hd _ _ _ _ _ _ W0 H0).
  - intros s0 J0. cbv beta.
    set (J := fun s => wf s /\ Inv s).
    assert (HJ : pres_closed J) by (apply inv_pres_closed; assumption).
    apply (outer_def_notok_j kinds (gfix fuel) PG J HJ e (SStatementExpression e sp0)); [assumption|].
    assert (Re : forall c, rej_e_j kinds (gfix fuel) J e c) by (intros c f s' J'; now apply He).
    assert (Rs : forall c, rej_s_j kinds (gfix fuel) J (SStatementExpression e sp0) c).
    { intros c f s' J'. destruct f as [|f]; [apply notok_fuel|]. cbn [afix astep r_stmt]. unfold stmt_body.
      apply bind_notok_l. now apply He. }
    apply (proj1 (at_all _ _ Re Rs)).
Qed.

(* the same with a statement filler as well (contexts whose hole is a statement position take `st`) *)
Theorem rejected_after_decl_es (Inv : st -> Prop) (decl : stmt) (e : expr) (stm : stmt) :
  (forall s s', wf s -> ext s s' -> Inv s -> Inv s') ->
  (forall kinds g f s u s', wf s -> outer_statement kinds (gfix g) (afix kinds (gfix g) f) decl ctx_new s = Ok (u, s') -> Inv s') ->
  (forall kinds g f ctx s, wf s /\ Inv s -> notok (r_expr (afix kinds (gfix g) f) e ctx s)) ->
  (forall kinds g f ctx s, wf s /\ Inv s -> notok (r_stmt (afix kinds (gfix g) f) stm ctx s)) ->
  forall pre mid post dname dvar dkind dty (C : ectx) dsp fuel vars,
    typecheck fuel (mkResolved vars
      (pre ++ decl :: mid ++ SDefinition dname dvar dkind dty (plug_e e stm C) dsp :: post)) <> Ok tt.
Proof.
  intros IE Hd He Hs pre mid post dname dvar dkind dty C dsp fuel vars.
  apply typecheck_notok_main. intros s W.
  set (kinds := kinds_of vars 1 (PositiveMap.empty varkind)).
  pose proof (gfix_pres fuel) as PG. pose proof (afix_pres kinds (gfix fuel) PG fuel) as PA.
  apply (iterM_notok_after _ Inv); try assumption.
  - intros y. now apply pres_outer_statement.
  - intros s0 u s1 W0 H0. exact (Hd _ _ _ _ _ _ W0 H0).
  - intros s0 J0. cbv beta.
    set (J := fun s => wf s /\ Inv s).
    assert (HJ : pres_closed J) by (apply inv_pres_closed; assumption).
    apply (outer_def_notok_j kinds (gfix fuel) PG J HJ e stm); [assumption|].
    assert (Re : forall c, rej_e_j kinds (gfix fuel) J e c) by (intros c f s' J'; now apply He).
    assert (Rs : forall c, rej_s_j kinds (gfix fuel) J stm c) by (intros c f s' J'; now apply Hs).
    apply (proj1 (at_all _ _ Re Rs)).
Qed.

(* ================================================================== C03 through calls *)

(* After `f :: fn p1: t1, .., pn: tn -> r do .. end` (leaf types), anywhere inside the value of a later top-level
   definition: a call of f with an argument (a literal, or a call of f) of another type than the parameter, a call
   with another number of arguments, or any mismatch kind of Mismatch.v with calls of f as operands
   ("a" + f(1), not f(1), x: str = f(1), if f(1) do .., [f(1), "a"], f(1)(2) ..) -- the program is not accepted. *)
Theorem C03_calls_rejected name v kind dty nm params ps rb tsp body pure fsp dsp e :
  annotated params ps -> (forall n b, nth_error ps n = Some b -> rigid_base b = true) -> rigid_base rb = true ->
  bad_call v ps rb e ->
  forall pre mid post dname dvar dkind dty' (C : ectx) dsp' sp0 fuel vars,
    typecheck fuel (mkResolved vars
      (pre ++ SDefinition name v kind dty (EFunction nm params (TResolved rb tsp) body pure fsp) dsp :: mid ++
       SDefinition dname dvar dkind dty' (plug_e e (SStatementExpression e sp0) C) dsp' :: post)) <> Ok tt.
Proof.
  intros An Rg Rr B. apply (rejected_after_decl' (fn_sig v ps rb)).
  - intros s s' W E. now apply fn_sig_ext.
  - intros kinds g f s u s' W H. eapply fn_established; eassumption.
  - intros kinds g f ctx s J. now apply (bad_call_rejected kinds g v ps rb Rg Rr e B).
Qed.

(* After `x: t = ..` / `x: t : ..` with a leaf type t: any mismatch kind of Mismatch.v with reads of x as operands
   (x + "a" for x: int, not x, y: str = x, if x do ..) -- the program is not accepted. *)
Theorem C03_var_use_rejected name v kind b tsp value dsp e :
  rigid_base b = true -> bad_expr_g (var_atom v b) e ->
  forall pre mid post dname dvar dkind dty' (C : ectx) dsp' sp0 fuel vars,
    typecheck fuel (mkResolved vars
      (pre ++ SDefinition name v kind (TResolved b tsp) value dsp :: mid ++
       SDefinition dname dvar dkind dty' (plug_e e (SStatementExpression e sp0) C) dsp' :: post)) <> Ok tt.
Proof.
  intros Rb B. apply (rejected_after_decl' (var_is v b)).
  - intros s s' W E. now apply var_is_ext.
  - intros kinds g f s u s' W H. eapply var_established; eassumption.
  - intros kinds g f ctx s J. now apply (bad_var_use_rejected kinds g v b Rb e B).
Qed.

(* the statement kinds: `x: str = f(1)`, `loop f(1) do .. end`, an unused `"a" + f(1)`; at a statement position *)
Theorem C03_calls_stmt_rejected name v kind dty nm params ps rb tsp body pure fsp dsp e stm :
  annotated params ps -> (forall n b, nth_error ps n = Some b -> rigid_base b = true) -> rigid_base rb = true ->
  bad_call v ps rb e -> bad_stmt_g (call_atom v rb) stm ->
  forall pre mid post dname dvar dkind dty' (C : ectx) dsp' fuel vars,
    typecheck fuel (mkResolved vars
      (pre ++ SDefinition name v kind dty (EFunction nm params (TResolved rb tsp) body pure fsp) dsp :: mid ++
       SDefinition dname dvar dkind dty' (plug_e e stm C) dsp' :: post)) <> Ok tt.
Proof.
  intros An Rg Rr B Bs. apply (rejected_after_decl_es (fn_sig v ps rb)).
  - intros s s' W E. now apply fn_sig_ext.
  - intros kinds g f s u s' W H. eapply fn_established; eassumption.
  - intros kinds g f ctx s J. now apply (bad_call_rejected kinds g v ps rb Rg Rr e B).
  - intros kinds g f ctx s [W Sg].
    apply (bad_stmt_g_rejected kinds g (fn_sig v ps rb) (fn_sig_ext v ps rb Rg Rr) (call_atom v rb)
             (call_atom_rigid v rb Rr) (call_atom_spec kinds g v ps rb Rg Rr) (call_atom_not_fn v rb) stm Bs f ctx s W Sg).
Qed.

Theorem C03_var_use_stmt_rejected name v kind b tsp value dsp e stm :
  rigid_base b = true -> bad_expr_g (var_atom v b) e -> bad_stmt_g (var_atom v b) stm ->
  forall pre mid post dname dvar dkind dty' (C : ectx) dsp' fuel vars,
    typecheck fuel (mkResolved vars
      (pre ++ SDefinition name v kind (TResolved b tsp) value dsp :: mid ++
       SDefinition dname dvar dkind dty' (plug_e e stm C) dsp' :: post)) <> Ok tt.
Proof.
  intros Rb B Bs. apply (rejected_after_decl_es (var_is v b)).
  - intros s s' W E. now apply var_is_ext.
  - intros kinds g f s u s' W H. eapply var_established; eassumption.
  - intros kinds g f ctx s J. now apply (bad_var_use_rejected kinds g v b Rb e B).
  - intros kinds g f ctx s [W Hv].
    apply (bad_stmt_g_rejected kinds g (var_is v b) (fun s s' => var_is_ext v b s s' Rb) (var_atom v b)
             (var_atom_rigid v b Rb) (var_atom_spec kinds g v b Rb) (var_atom_not_fn v b) stm Bs f ctx s W Hv).
Qed.
