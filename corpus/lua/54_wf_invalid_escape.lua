-- expect-wf: bad invalid escape sequence
local s = "a\qb"
