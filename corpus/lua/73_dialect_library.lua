-- expect[5.3]: nil	function	function	function	function	function
-- expect[5.3]: 1	2
-- expect[jit]: function	nil	nil	nil	nil	function
-- expect[jit]: 1	2
print(type(unpack), type(table.unpack), type(rawlen), type(math.type), type(math.tointeger), type(math.pow))
local u = unpack or table.unpack
print(u({1, 2}))
