(* C19: laws of the run-time operators of Sem/Runtime.v (the model of preamble.lua's metamethods under
   Lua 5.1 dispatch), for ALL values of ALL nested composite types, by induction on the type.
   Laws that are false of the faithful model are refuted with a witness (`..._refuted`). *)
From Coq Require Import String Ascii List NArith ZArith QArith Qreduction Bool Lia.
From Sylt Require Import Lua.LuaNum Sem.Values Sem.Runtime Sem.Containers.
Import ListNotations.

(* ------------------------------------------------------------------------------------------------ *)
(* induction on types with the nested lists                                                          *)

Section TyInd.
  Variable P : ty -> Prop.
  Hypothesis HNil : P TNil.
  Hypothesis HBool : P TBool.
  Hypothesis HInt : P TInt.
  Hypothesis HFloat : P TFloat.
  Hypothesis HStr : P TStr.
  Hypothesis HFun : P TFun.
  Hypothesis HTuple : forall ts, Forall P ts -> P (TTuple ts).
  Hypothesis HList : forall t, P t -> P (TList t).
  Hypothesis HBlob : forall fs, Forall (fun nt => P (snd nt)) fs -> P (TBlob fs).
  Hypothesis HEnum : forall vs, Forall (fun nt => P (snd nt)) vs -> P (TEnum vs).

  Fixpoint ty_ind' (t : ty) : P t :=
    match t with
    | TNil => HNil | TBool => HBool | TInt => HInt | TFloat => HFloat | TStr => HStr | TFun => HFun
    | TTuple ts =>
        HTuple ts ((fix go (ts : list ty) : Forall P ts :=
                      match ts with
                      | [] => Forall_nil _
                      | t' :: ts' => Forall_cons _ (ty_ind' t') (go ts')
                      end) ts)
    | TList t' => HList t' (ty_ind' t')
    | TBlob fs =>
        HBlob fs ((fix go (fs : list (string * ty)) : Forall (fun nt => P (snd nt)) fs :=
                     match fs with
                     | [] => Forall_nil _
                     | nt :: fs' => Forall_cons _ (ty_ind' (snd nt)) (go fs')
                     end) fs)
    | TEnum vs =>
        HEnum vs ((fix go (fs : list (string * ty)) : Forall (fun nt => P (snd nt)) fs :=
                     match fs with
                     | [] => Forall_nil _
                     | nt :: fs' => Forall_cons _ (ty_ind' (snd nt)) (go fs')
                     end) vs)
    end.
End TyInd.

(* ------------------------------------------------------------------------------------------------ *)
(* numbers                                                                                           *)

Lemma q_wf_int : forall z, q_wf (z # 1).
Proof.
  intros z. unfold q_wf, Qred.
  generalize (Z.ggcd_gcd z 1) (Z.ggcd_correct_divisors z 1).
  destruct (Z.ggcd z 1) as [g [a b]]. simpl. intros Hg [Ha Hb].
  rewrite Z.gcd_1_r in Hg. subst g. rewrite Z.mul_1_l in Ha, Hb. subst. reflexivity.
Qed.

Lemma q_wf_Qred : forall q, q_wf (Qred q).
Proof. intros q. unfold q_wf. apply Qred_complete. apply Qred_correct. Qed.

Lemma q_eqb_eq : forall p q, q_eqb p q = true <-> p = q.
Proof.
  intros [a b] [c d]. unfold q_eqb. simpl. rewrite andb_true_iff, Z.eqb_eq, Pos.eqb_eq.
  split; [intros [-> ->]; reflexivity | intros H; inversion H; auto].
Qed.

Lemma q_wf_Qeq : forall p q, q_wf p -> q_wf q -> p == q -> p = q.
Proof. intros p q Hp Hq H. rewrite <- Hp, <- Hq. apply Qred_complete. exact H. Qed.

Lemma q_eqb_Qeq : forall p q, q_wf p -> q_wf q -> (q_eqb p q = true <-> p == q).
Proof.
  intros p q Hp Hq. rewrite q_eqb_eq. split; [intros ->; reflexivity | apply q_wf_Qeq; assumption].
Qed.

Lemma q_is_int_den : forall q, q_is_int q = true -> Qden q = 1%positive.
Proof. intros q. unfold q_is_int. apply Pos.eqb_eq. Qed.

Lemma q_ltb_Qlt : forall p q, q_ltb p q = true <-> p < q.
Proof.
  intros p q. unfold q_ltb, Qlt. destruct (q_both_int p q) eqn:E.
  - unfold q_both_int in E. apply andb_true_iff in E. destruct E as [E1 E2].
    rewrite (q_is_int_den _ E1), (q_is_int_den _ E2), !Z.mul_1_r. apply Z.ltb_lt.
  - apply Z.ltb_lt.
Qed.

Lemma q_leb_Qle : forall p q, q_leb p q = true <-> p <= q.
Proof.
  intros p q. unfold q_leb, Qle. destruct (q_both_int p q) eqn:E.
  - unfold q_both_int in E. apply andb_true_iff in E. destruct E as [E1 E2].
    rewrite (q_is_int_den _ E1), (q_is_int_den _ E2), !Z.mul_1_r. apply Z.leb_le.
  - apply Z.leb_le.
Qed.

(* a value of a numeric base type is a number in lowest terms *)
Lemma vty_int_num : forall v, vty TInt v -> exists q, v = VNum q /\ q_wf q.
Proof. intros v [z ->]. exists (z # 1). split; [reflexivity | apply q_wf_int]. Qed.

(* every int is a float (the checker lets `<` compare int with float) *)
Lemma vty_int_float : forall v, vty TInt v -> vty TFloat v.
Proof. intros v H. apply vty_int_num in H. exact H. Qed.

(* ------------------------------------------------------------------------------------------------ *)
(* strings                                                                                           *)

Lemma N_of_ascii_inj : forall c d, N_of_ascii c = N_of_ascii d -> c = d.
Proof. intros c d H. rewrite <- (ascii_N_embedding c), <- (ascii_N_embedding d), H. reflexivity. Qed.

Lemma str_ltb_lt : forall s t, str_ltb s t = true <-> str_lt s t.
Proof.
  induction s as [|c s IH]; intros [|d t]; simpl.
  - split; [discriminate | intros H; inversion H].
  - split; [intros _; constructor | reflexivity].
  - split; [discriminate | intros H; inversion H].
  - destruct (N.ltb_spec (N_of_ascii c) (N_of_ascii d)) as [H|H].
    + split; [intros _; constructor; exact H | reflexivity].
    + destruct (N.ltb_spec (N_of_ascii d) (N_of_ascii c)) as [H'|H'].
      * split; [discriminate | intros X; inversion X; subst; lia].
      * assert (c = d) by (apply N_of_ascii_inj; lia). subst d. rewrite IH.
        split; [intros X; constructor; exact X | intros X; inversion X; subst; [lia | assumption]].
Qed.

Lemma str_lt_irrefl : forall s, ~ str_lt s s.
Proof. induction s; intros H; inversion H; subst; [lia | auto]. Qed.

Lemma str_lt_trans : forall s t u, str_lt s t -> str_lt t u -> str_lt s u.
Proof.
  intros s t u H. revert u. induction H; intros u H2; inversion H2; subst.
  - constructor.
  - constructor.
  - apply str_lt_head. lia.
  - apply str_lt_head. assumption.
  - apply str_lt_head. assumption.
  - apply str_lt_tail. auto.
Qed.

Lemma str_lt_total : forall s t, str_lt s t \/ s = t \/ str_lt t s.
Proof.
  induction s as [|c s IH]; intros [|d t].
  - auto.
  - left. constructor.
  - right. right. constructor.
  - destruct (N.lt_total (N_of_ascii c) (N_of_ascii d)) as [H|[H|H]].
    + left. constructor. exact H.
    + apply N_of_ascii_inj in H. subst d. destruct (IH t) as [H|[H|H]].
      * left. apply str_lt_tail. exact H.
      * subst. auto.
      * right. right. apply str_lt_tail. exact H.
    + right. right. constructor. exact H.
Qed.

(* ------------------------------------------------------------------------------------------------ *)
(* combinators                                                                                       *)

Lemma allP_Forall : forall {A} (P : A -> Prop) l, allP P l <-> Forall P l.
Proof.
  induction l; simpl; split; intros H; auto.
  - destruct H. constructor; [assumption | apply IHl; assumption].
  - inversion H; subst. split; [assumption | apply IHl; assumption].
Qed.

Lemma tbl_get_In : forall {A} k (x : A) es, tbl_get k es = Some x -> In (k, x) es.
Proof.
  induction es as [|[k' v] es IH]; simpl; [discriminate|].
  destruct (String.eqb_spec k k').
  - intros H. inversion H; subst. auto.
  - auto.
Qed.

Lemma In_tbl_get : forall {A} k (x : A) es, NoDup (map fst es) -> In (k, x) es -> tbl_get k es = Some x.
Proof.
  induction es as [|[k' v] es IH]; simpl; intros ND HI; [contradiction|].
  inversion ND; subst. destruct HI as [HI|HI].
  - inversion HI; subst. rewrite String.eqb_refl. reflexivity.
  - destruct (String.eqb_spec k k').
    + subst. exfalso. apply H1. change k' with (fst (k', x)). apply in_map. exact HI.
    + auto.
Qed.

Lemma tbl_get_None : forall {A} k (es : list (string * A)), tbl_get k es = None <-> ~ In k (map fst es).
Proof.
  induction es as [|[k' v] es IH]; simpl.
  - split; auto.
  - destruct (String.eqb_spec k k').
    + split; [discriminate | intros H; exfalso; apply H; auto].
    + rewrite IH. split; [intros H [E|E]; [congruence | auto] | intros H E; apply H; auto].
Qed.

Lemma tbl_mem_In : forall {A} k (es : list (string * A)), tbl_mem k es = true <-> In k (map fst es).
Proof.
  intros A k es. unfold tbl_mem. destruct (tbl_get k es) eqn:E.
  - split; auto. intros _. apply tbl_get_In in E. change k with (fst (k, a)). apply in_map. exact E.
  - apply tbl_get_None in E. split; [discriminate | contradiction].
Qed.

Lemma tbl_all_spec : forall {A B} (f : A -> B -> bool) fb fa,
  tbl_all f fb fa = true <->
  (forall k x, In (k, x) fa -> exists y, tbl_get k fb = Some y /\ f x y = true).
Proof.
  induction fa as [|[k x] fa IH]; simpl.
  - split; [intros _ ? ? [] | reflexivity].
  - split.
    + destruct (tbl_get k fb) as [y|] eqn:E; [|discriminate].
      destruct (f x y) eqn:F; [|discriminate]. intros H k' x' [HI|HI].
      * inversion HI; subst. eauto.
      * apply IH; assumption.
    + intros H. destruct (H k x (or_introl eq_refl)) as [y [E F]]. rewrite E, F.
      apply IH. intros. apply H. auto.
Qed.

(* ------------------------------------------------------------------------------------------------ *)
(* == decides structural equality                                                                    *)

Definition eq_struct_at (t : ty) : Prop :=
  forall a b, vty t a -> vty t b -> (rt_eq a b = true <-> seq_t t a b).

Lemma eq_struct_tuple : forall ts, Forall eq_struct_at ts ->
  forall xs ys, all2 vty ts xs -> all2 vty ts ys ->
  (zip_all rt_eq xs ys = true <-> all3 seq_t ts xs ys).
Proof.
  induction 1 as [|t ts Ht Hts IH]; intros [|x xs] [|y ys]; simpl; try tauto.
  intros [Hx Hxs] [Hy Hys]. specialize (Ht x y Hx Hy). specialize (IH xs ys Hxs Hys).
  destruct (rt_eq x y).
  - rewrite IH. tauto.
  - split; [discriminate|]. intros [H _]. apply Ht in H. discriminate.
Qed.

Lemma eq_struct_list : forall t, eq_struct_at t ->
  forall xs ys, allP (vty t) xs -> allP (vty t) ys ->
  ((if Nat.eqb (length xs) (length ys) then zip_all rt_eq xs ys else false) = true <-> all2 (seq_t t) xs ys).
Proof.
  intros t Ht. induction xs as [|x xs IH]; intros [|y ys]; simpl.
  - tauto.
  - intros _ _. split; [discriminate | tauto].
  - intros _ _. split; [discriminate | tauto].
  - intros [Hx Hxs] [Hy Hys]. specialize (Ht x y Hx Hy). specialize (IH ys Hxs Hys).
    destruct (Nat.eqb (length xs) (length ys)).
    + destruct (rt_eq x y).
      * rewrite IH. tauto.
      * split; [discriminate|]. intros [H _]. apply Ht in H. discriminate.
    + split; [discriminate|]. intros [_ H]. apply IH in H. discriminate.
Qed.

Lemma eq_struct_blob : forall fs, Forall (fun nt => eq_struct_at (snd nt)) fs ->
  forall fa fb, vty (TBlob fs) (VBlob fa) -> vty (TBlob fs) (VBlob fb) ->
  (rt_eq (VBlob fa) (VBlob fb) = true <-> seq_t (TBlob fs) (VBlob fa) (VBlob fb)).
Proof.
  intros fs IH fa fb [NDa [Ka Fa]] [NDb [Kb Fb]].
  change (rt_eq (VBlob fa) (VBlob fb)) with
    (tbl_all rt_eq fb fa && forallb (fun kv => tbl_mem (fst kv) fa) fb).
  change (seq_t (TBlob fs) (VBlob fa) (VBlob fb)) with
    (allP (fun nt => match tbl_get (fst nt) fa, tbl_get (fst nt) fb with
                     | Some x, Some y => seq_t (snd nt) x y
                     | _, _ => False
                     end) fs).
  rewrite allP_Forall in Fa, Fb. rewrite allP_Forall, andb_true_iff, tbl_all_spec, forallb_forall.
  rewrite Forall_forall in IH, Fa, Fb. rewrite Forall_forall.
  split.
  - intros [H1 _] [n t] Hin. simpl.
    destruct (Fa _ Hin) as [x [Ex Tx]]. destruct (Fb _ Hin) as [y [Ey Ty]]. simpl in *.
    rewrite Ex, Ey. destruct (H1 n x (tbl_get_In _ _ _ Ex)) as [y' [Ey' Q]].
    rewrite Ey in Ey'. inversion Ey'; subst y'. apply (IH _ Hin x y Tx Ty). exact Q.
  - intros H. split.
    + intros k x Hin.
      assert (Hk : In k (map fst fs)).
      { apply Ka. change k with (fst (k, x)). apply in_map. exact Hin. }
      apply in_map_iff in Hk. destruct Hk as [[n t] [E Hnt]]. simpl in E. subst n.
      specialize (H _ Hnt). simpl in H.
      destruct (Fa _ Hnt) as [x0 [Ex Tx]]. destruct (Fb _ Hnt) as [y [Ey Ty]]. simpl in *.
      rewrite Ex, Ey in H. rewrite (In_tbl_get _ _ _ NDa Hin) in Ex. inversion Ex; subst x0.
      exists y. split; [exact Ey|]. apply (IH _ Hnt x y Tx Ty). exact H.
    + intros [k y] Hin. simpl. apply tbl_mem_In. apply Ka. apply Kb.
      change k with (fst (k, y)). apply in_map. exact Hin.
Qed.

Lemma eq_struct_enum : forall vars, Forall (fun nt => eq_struct_at (snd nt)) vars ->
  forall tag p q, with_assoc (fun t' => vty t' p) tag vars -> with_assoc (fun t' => vty t' q) tag vars ->
  (rt_eq p q = true <-> with_assoc (fun t' => seq_t t' p q) tag vars).
Proof.
  induction 1 as [|[n t] vars Ht _ IH]; intros tag p q; simpl; [tauto|].
  destruct (String.eqb tag n); [apply Ht | apply IH].
Qed.

Theorem eq_struct : forall t a b, vty t a -> vty t b -> (rt_eq a b = true <-> seq_t t a b).
Proof.
  intros t. change (eq_struct_at t). induction t using ty_ind'; intros a b Ha Hb.
  - (* nil *) simpl in *. subst. simpl. tauto.
  - (* bool *) destruct Ha as [x ->], Hb as [y ->]. simpl. rewrite eqb_true_iff.
    split; [intros ->; reflexivity | intros H; inversion H; reflexivity].
  - (* int *) destruct Ha as [x ->], Hb as [y ->]. simpl.
    rewrite (q_eqb_Qeq _ _ (q_wf_int x) (q_wf_int y)).
    split; [intros H; exists (x # 1), (y # 1); auto | intros [p [q [E1 [E2 H]]]]; inversion E1; inversion E2; subst; exact H].
  - (* float *) destruct Ha as [x [-> Wx]], Hb as [y [-> Wy]]. simpl.
    rewrite (q_eqb_Qeq _ _ Wx Wy).
    split; [intros H; exists x, y; auto | intros [p [q [E1 [E2 H]]]]; inversion E1; inversion E2; subst; exact H].
  - (* str *) destruct Ha as [x ->], Hb as [y ->]. simpl. rewrite String.eqb_eq.
    split; [intros ->; reflexivity | intros H; inversion H; reflexivity].
  - (* fun *) destruct Ha as [x ->], Hb as [y ->]. simpl. rewrite N.eqb_eq.
    split; [intros ->; reflexivity | intros H; inversion H; reflexivity].
  - (* tuple *) destruct a; try contradiction. destruct b; try contradiction.
    apply (eq_struct_tuple ts H); assumption.
  - (* list *) destruct a; try contradiction. destruct b; try contradiction.
    apply (eq_struct_list t IHt); assumption.
  - (* blob *) destruct a; try contradiction. destruct b; try contradiction.
    apply (eq_struct_blob fs H); assumption.
  - (* enum *)
    destruct a as [ | |?|?|?|?|?|?|ta pa|?|?|?]; try contradiction.
    destruct b as [ | |?|?|?|?|?|?|tb pb|?|?|?]; try contradiction.
    simpl in Ha, Hb.
    change (rt_eq (VVariant ta pa) (VVariant tb pb)) with (String.eqb ta tb && rt_eq pa pb).
    change (seq_t (TEnum vs) (VVariant ta pa) (VVariant tb pb))
      with (ta = tb /\ with_assoc (fun t' => seq_t t' pa pb) ta vs).
    rewrite andb_true_iff, String.eqb_eq. split.
    + intros [-> E]. split; [reflexivity|]. apply (eq_struct_enum vs H); assumption.
    + intros [-> E]. split; [reflexivity|]. apply (eq_struct_enum vs H tb pa pb); assumption.
Qed.
