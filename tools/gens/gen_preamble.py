"""GenPreamble: the Lua runtime and the Sylt standard library as the compiler ships them today.

Regenerates coq/Gen/GenPreamble.v with
  preamble_src   : the bytes of sylt-compiler/src/preamble.lua as a Coq string,
  preamble_defs  : every global the preamble defines: (name, shape, digest of its defining text)
                   shape = fn:<arity> | alias:<expr> | call:<callee> | table | value,
  std_sources    : every std/*.sy verbatim (file name, text),
  std_defs       : every top-level definition of std/*.sy: (file, name, kind, digest)
                   kind = external | sylt | alias:<target> | type,
  op_templates   : how sylt-compiler/src/lua.rs emits the operators and constructors (IR arm, format string).
Props/C18.v and C19.v compare these with the hand-reviewed lists of coq/Sem/DocRuntime.v (vm_compute), so a
renamed, new or edited helper breaks a named obligation.  Anything unexpected raises Untranslatable."""
import hashlib
import os
import re

import gen_tables

NAME = "GenPreamble"
PREAMBLE = os.path.join("sylt-compiler", "src", "preamble.lua")
LUA_RS = os.path.join("sylt-compiler", "src", "lua.rs")
STD_DIR = "std"


def digest(text):
    return hashlib.sha256(text.encode("utf-8")).hexdigest()[:16]


def coq_string(b):
    """a Coq string literal for the byte string b (Coq reads the file as bytes; `"` is doubled)"""
    try:
        t = b.decode("utf-8")
    except UnicodeDecodeError:
        raise gen_tables.Untranslatable("non UTF-8 bytes in a source that is embedded verbatim")
    if "\r" in t:
        raise gen_tables.Untranslatable("carriage return in a source that is embedded verbatim")
    return '"' + t.replace('"', '""') + '"'


def norm(text):
    """normalise a definition's text for its digest: strip trailing blanks per line, drop blank and comment-only lines"""
    out = []
    for l in text.split("\n"):
        l = l.rstrip()
        if not l.strip() or l.strip().startswith("--") or l.strip().startswith("//"):
            continue
        out.append(l)
    return "\n".join(out)


# ---- preamble.lua: top-level chunks ------------------------------------------------------------

BLOCK_OPEN = re.compile(r"\b(function|if|for|while|do)\b")
BLOCK_SKIP = re.compile(r'"(?:[^"\\]|\\.)*"|--.*$')


def lua_depth_delta(line):
    """net change of block depth of one line (function/if/for/while open, `end` closes; `for..do`/`while..do`
    count once).  Strings and comments are removed first."""
    s = BLOCK_SKIP.sub('""', line)
    toks = re.findall(r"\b(function|if|for|while|do|end|repeat|until)\b", s)
    d = 0
    pending_do = 0
    for t in toks:
        if t in ("for", "while"):
            d += 1
            pending_do += 1
        elif t == "do":
            if pending_do:
                pending_do -= 1
            else:
                d += 1
        elif t in ("function", "if", "repeat"):
            d += 1
        elif t in ("end", "until"):
            d -= 1
    return d


def preamble_chunks(text):
    """split the file into top-level statements: a statement starts at column 0 and extends until the block
    depth is back to 0 (and, for a table constructor, until the closing brace)"""
    lines = text.split("\n")
    chunks = []
    cur = []
    depth = 0
    brace = 0
    for l in lines:
        stripped = l.strip()
        if not cur:
            if not stripped or stripped.startswith("--"):
                continue
            if l[0] in " \t":
                raise gen_tables.Untranslatable("preamble.lua: indented line outside a statement: %r" % l[:60])
        cur.append(l)
        depth += lua_depth_delta(l)
        code = BLOCK_SKIP.sub('""', l)
        brace += code.count("{") - code.count("}")
        if depth < 0 or brace < 0:
            raise gen_tables.Untranslatable("preamble.lua: unbalanced blocks near %r" % l[:60])
        if depth == 0 and brace == 0:
            chunks.append("\n".join(cur))
            cur = []
    if cur:
        raise gen_tables.Untranslatable("preamble.lua: unterminated statement %r" % cur[0][:60])
    return chunks


NAME_RE = r"[A-Za-z_][A-Za-z0-9_]*"


def classify_chunk(ch):
    """(global name, shape) of one top-level statement"""
    first = ch.split("\n")[0]
    m = re.match(r"function\s+(%s)\s*\(([^)]*)\)" % NAME_RE, first)
    if m:
        args = [a for a in m.group(2).split(",") if a.strip()]
        return m.group(1), "fn:%d" % len(args)
    m = re.match(r"(%s)\.(%s)\s*=\s*function\s*\(([^)]*)\)" % (NAME_RE, NAME_RE), first)
    if m:
        args = [a for a in m.group(3).split(",") if a.strip()]
        return m.group(1) + "." + m.group(2), "fn:%d" % len(args)
    m = re.match(r"(%s)\s*=\s*function\s*\(([^)]*)\)" % NAME_RE, first)
    if m:
        args = [a for a in m.group(2).split(",") if a.strip()]
        return m.group(1), "fn:%d" % len(args)
    m = re.match(r"(%s)\s*=\s*setmetatable\s*\(" % NAME_RE, first)
    if m:
        return m.group(1), "table"
    m = re.match(r"(%s)\s*=\s*\{" % NAME_RE, first)
    if m:
        return m.group(1), "table"
    m = re.match(r"(%s)\s*=\s*(%s)\s*\((.*)\)\s*$" % (NAME_RE, NAME_RE), first)
    if m and "\n" not in ch:
        return m.group(1), "call:" + m.group(2)
    m = re.match(r"(%s)\s*=\s*(%s(?:\.%s)*)\s*$" % (NAME_RE, NAME_RE, NAME_RE), first)
    if m and "\n" not in ch:
        return m.group(1), "alias:" + m.group(2)
    raise gen_tables.Untranslatable("preamble.lua: unrecognised top-level statement %r" % first[:80])


def preamble_defs(text):
    rows = []
    for ch in preamble_chunks(text):
        name, shape = classify_chunk(ch)
        rows.append((name, shape, digest(norm(ch))))
    names = [r[0] for r in rows]
    dup = sorted(set(n for n in names if names.count(n) > 1))
    if dup:
        raise gen_tables.Untranslatable("preamble.lua: defined twice: %s" % ", ".join(dup))
    return rows


# ---- std/*.sy: top-level definitions -------------------------------------------------------------

def std_defs_of(fname, text):
    lines = text.split("\n")
    starts = []
    for i, l in enumerate(lines):
        if re.match(r"(%s)\s*:" % NAME_RE, l):
            starts.append(i)
        elif l and l[0] not in " \t" and not re.match(r"(from|use|end|//|\)|\})", l) and l.strip():
            # continuation lines of `from x use (` blocks are indented; anything else at column 0 is unexpected
            raise gen_tables.Untranslatable("std/%s: unrecognised top-level line %r" % (fname, l[:60]))
    rows = []
    for k, i in enumerate(starts):
        j = starts[k + 1] if k + 1 < len(starts) else len(lines)
        body = []
        for l in lines[i:j]:
            if re.match(r"(from|use)\b", l):
                break
            body.append(l)
        chunk = norm("\n".join(body))
        name = re.match(r"(%s)" % NAME_RE, lines[i]).group(1)
        first = lines[i]
        if re.search(r":\s*external\s*$", first):
            kind = "external"
        elif re.match(r"%s\s*::\s*(blob|enum)\b" % NAME_RE, first):
            kind = "type"
        else:
            m = re.match(r"%s\s*::\s*(%s)\s*$" % (NAME_RE, NAME_RE), first)
            kind = ("alias:" + m.group(1)) if (m and "\n" not in chunk) else "sylt"
        rows.append((fname, name, kind, digest(chunk)))
    return rows


# ---- lua.rs: operator templates --------------------------------------------------------------------

OPS = ["Nil", "Add", "Sub", "Mul", "Div", "Neg", "Equals", "NotEquals", "Less", "LessEqual", "Greater", "GreaterEqual",
       "Not", "List", "Tuple", "Variant", "Index", "Blob"]


def op_templates(text):
    """for every IR arm of interest: the first string literal of the arm (its format string), whether the arm
    is written with the ii!/iis! macros or with write!"""
    rows = []
    for op in OPS + ["AssignIndex"]:
        m = re.search(r"\n\s*IR::%s\b[^=]*=>" % op, text)
        if not m:
            raise gen_tables.Untranslatable("lua.rs: no arm found for IR::%s" % op)
        rest = text[m.end():]
        nxt = re.search(r"\n\s*IR::[A-Za-z]+\b[^=\n]*=>", rest)
        body = rest[:nxt.start()] if nxt else rest
        lit = re.search(r'"((?:[^"\\]|\\.)*)"', body)
        if not lit:
            raise gen_tables.Untranslatable("lua.rs: no format string in the arm of IR::%s" % op)
        rows.append((op, lit.group(1).replace('\\"', '"')))
    return rows


def generate():
    repo = gen_tables.REPO
    try:
        pre = open(os.path.join(repo, PREAMBLE), "rb").read()
        lua_rs = open(os.path.join(repo, LUA_RS), encoding="utf-8").read()
    except OSError as e:
        raise gen_tables.Untranslatable("cannot read %s" % e)
    ptext = pre.decode("utf-8", "strict")
    defs = preamble_defs(ptext)
    sdir = os.path.join(repo, STD_DIR)
    if not os.path.isdir(sdir):
        raise gen_tables.Untranslatable("missing std directory")
    std = []
    sdefs = []
    for f in sorted(os.listdir(sdir)):
        if not f.endswith(".sy"):
            continue
        b = open(os.path.join(sdir, f), "rb").read()
        std.append((f, b))
        sdefs.extend(std_defs_of(f, b.decode("utf-8")))
    if not std:
        raise gen_tables.Untranslatable("no std/*.sy")
    ops = op_templates(lua_rs)

    def q(s):
        return '"' + s.replace('"', '""') + '"'

    out = ["(* GENERATED by tools/gens/gen_preamble.py -- do not edit *)",
           "From Coq Require Import String List.",
           "Import ListNotations.",
           "Local Open Scope string_scope.",
           "",
           "Definition preamble_src : string := " + coq_string(pre) + ".",
           "",
           "(* (global, shape, digest of the defining statement) *)",
           "Definition preamble_defs : list (string * string * string) := [",
           ";\n".join("  (%s, %s, %s)" % (q(n), q(s), q(d)) for n, s, d in defs),
           "].",
           "",
           "Definition std_sources : list (string * string) := [",
           ";\n".join("  (%s, %s)" % (q(f), coq_string(b)) for f, b in std),
           "].",
           "",
           "(* (file, name, kind, digest of the definition) *)",
           "Definition std_defs : list (string * string * string * string) := [",
           ";\n".join("  (%s, %s, %s, %s)" % (q(f), q(n), q(k), q(d)) for f, n, k, d in sdefs),
           "].",
           "",
           "(* (IR arm of lua.rs, format string) *)",
           "Definition op_templates : list (string * string) := [",
           ";\n".join("  (%s, %s)" % (q(o), q(t)) for o, t in ops),
           "]."]
    return "GenPreamble.v", "\n".join(out) + "\n"


if __name__ == "__main__":
    print(generate()[1])
