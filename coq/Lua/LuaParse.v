(* Fuelled recursive-descent parser for the Lua subset of LuaAst.v.  Definitions only.

   Grammar and operator priorities are those of lparser.c (Lua 5.1) / lj_parse.c (LuaJIT):
       or 1,1   and 2,2   < > <= >= ~= == 3,3   .. 5,4 (right)   + - 6,6   * / // % 7,7
       unary (not # -) 8   ^ 10,9 (right)
   (`//` exists in the Lua53 dialect only; its bitwise operators are not supported: the lexer
   reports them.  In Lua 5.3 they sit between the comparison and `..`, so leaving them out does
   not change any other priority relative to another.)
   Dialect differences in the parser itself: Lua53 accepts empty statements `;`.
   The parser is deliberately *lenient* about two Lua 5.1 rules which LuaWf checks on the AST instead,
   so that it can name the reason: `return`/`break` must be the last statement of a block.
   Everything else that makes LuaJIT refuse a chunk syntactically is refused here too: reserved
   words where a name is required, assignment to something that is not a variable or an index
   expression, an expression statement that is not a call, a lone `;`.

   Method calls `e:m(args)` are desugared (see parse_suffix); LuaWf then counts the local variables
   mentioned in `args` as upvalues of the synthetic function (an over-approximation that matters only
   for a call mentioning more than 60/255 distinct locals).
   Not supported (reported as load errors starting with "unsupported:"): `...`, method DEFINITIONS
   `function a:b() end`. *)
From Coq Require Import String Ascii List NArith ZArith QArith Bool.
From Sylt Require Import Lua.LuaAst Lua.LuaLex.
Import ListNotations.
Local Open Scope string_scope.

Definition toks := list (token * N).

Inductive presult (A : Type) :=
| POk (a : A) (rest : toks)
| PErr (line : N) (msg : string).
Arguments POk {A} a rest.
Arguments PErr {A} line msg.

Definition pbind {A B : Type} (r : presult A) (f : A -> toks -> presult B) : presult B :=
  match r with
  | POk a ts => f a ts
  | PErr l m => PErr l m
  end.

Local Notation "'do*' x , t <- e ; f" := (pbind e (fun x t => f))
  (at level 200, x name, t name, e at level 100, f at level 200).

Definition peek (ts : toks) : token := match ts with (t, _) :: _ => t | [] => TEof end.
Definition line_of (ts : toks) : N := match ts with (_, l) :: _ => l | [] => 0%N end.
Definition advance (ts : toks) : toks := match ts with _ :: r => r | [] => [] end.

Definition is_op (s : string) (ts : toks) : bool :=
  match peek ts with TOp o => String.eqb o s | _ => false end.
Definition is_kw (s : string) (ts : toks) : bool :=
  match peek ts with TKw k => String.eqb k s | _ => false end.

Definition tok_text (t : token) : string :=
  match t with
  | TName s => s
  | TKw s => s
  | TNum _ _ => "<number>"
  | TStr _ => "<string>"
  | TOp s => s
  | TEof => "<eof>"
  end.

Definition err_near {A : Type} (what : string) (ts : toks) : presult A :=
  PErr (line_of ts) (what ++ " near '" ++ tok_text (peek ts) ++ "'").

Definition expect_op (s : string) (ts : toks) : presult unit :=
  if is_op s ts then POk tt (advance ts) else err_near ("'" ++ s ++ "' expected") ts.
Definition expect_kw (s : string) (ts : toks) : presult unit :=
  if is_kw s ts then POk tt (advance ts) else err_near ("'" ++ s ++ "' expected") ts.
Definition expect_name (ts : toks) : presult string :=
  match peek ts with
  | TName x => POk x (advance ts)
  | _ => err_near "<name> expected" ts
  end.

(* binary operator with its left and right priority *)
Definition binop_of (t : token) : option (binop * N * N) :=
  match t with
  | TOp o =>
      if String.eqb o "+" then Some (OAdd, 6, 6)%N
      else if String.eqb o "-" then Some (OSub, 6, 6)%N
      else if String.eqb o "*" then Some (OMul, 7, 7)%N
      else if String.eqb o "/" then Some (ODiv, 7, 7)%N
      else if String.eqb o "//" then Some (OIDiv, 7, 7)%N
      else if String.eqb o "%" then Some (OMod, 7, 7)%N
      else if String.eqb o "^" then Some (OPow, 10, 9)%N
      else if String.eqb o ".." then Some (OConcat, 5, 4)%N
      else if String.eqb o "==" then Some (OEq, 3, 3)%N
      else if String.eqb o "~=" then Some (ONe, 3, 3)%N
      else if String.eqb o "<" then Some (OLt, 3, 3)%N
      else if String.eqb o "<=" then Some (OLe, 3, 3)%N
      else if String.eqb o ">" then Some (OGt, 3, 3)%N
      else if String.eqb o ">=" then Some (OGe, 3, 3)%N
      else None
  | TKw k =>
      if String.eqb k "and" then Some (OAnd, 2, 2)%N
      else if String.eqb k "or" then Some (OOr, 1, 1)%N
      else None
  | _ => None
  end.

Definition unop_of (t : token) : option unop :=
  match t with
  | TOp o => if String.eqb o "-" then Some UNeg else if String.eqb o "#" then Some ULen else None
  | TKw k => if String.eqb k "not" then Some UNot else None
  | _ => None
  end.

Definition unary_priority : N := 8%N.

(* the parameter of the function a method call desugars to; no program can write this name *)
Definition method_self : string := "(self)".

(* tokens that end a block *)
Definition block_end (t : token) : bool :=
  match t with
  | TEof => true
  | TKw k => String.eqb k "end" || String.eqb k "else" || String.eqb k "elseif" || String.eqb k "until"
  | _ => false
  end.

Definition is_var (e : expr) : bool :=
  match e with EVar _ | EIndex _ _ => true | _ => false end.

Fixpoint all_vars (es : list expr) : bool :=
  match es with [] => true | e :: es' => is_var e && all_vars es' end.

Definition out_of_fuel {A : Type} (ts : toks) : presult A := PErr (line_of ts) "parser out of fuel".

Fixpoint parse_subexpr (d : dialect) (n : nat) (limit : N) (ts : toks) {struct n} : presult expr :=
  match n with
  | O => out_of_fuel ts
  | S n =>
      match unop_of (peek ts) with
      | Some u =>
          do* a, ts1 <- parse_subexpr d n unary_priority (advance ts);
          parse_binloop d n limit (EUn u a) ts1
      | None =>
          do* a, ts1 <- parse_simple d n ts;
          parse_binloop d n limit a ts1
      end
  end

(* lhs has been read; continue while the next operator binds tighter than `limit` *)
with parse_binloop (d : dialect) (n : nat) (limit : N) (lhs : expr) (ts : toks) {struct n} : presult expr :=
  match n with
  | O => out_of_fuel ts
  | S n =>
      match binop_of (peek ts) with
      | Some (op, l, r) =>
          if (limit <? l)%N then
            do* rhs, ts1 <- parse_subexpr d n r (advance ts);
            parse_binloop d n limit (EBin op lhs rhs) ts1
          else POk lhs ts
      | None => POk lhs ts
      end
  end

with parse_simple (d : dialect) (n : nat) (ts : toks) {struct n} : presult expr :=
  match n with
  | O => out_of_fuel ts
  | S n =>
      match peek ts with
      | TNum fl q => POk (ENum fl q) (advance ts)
      | TStr s => POk (EStr s) (advance ts)
      | _ =>
          if is_kw "nil" ts then POk ENil (advance ts)
          else if is_kw "true" ts then POk ETrue (advance ts)
          else if is_kw "false" ts then POk EFalse (advance ts)
          else if is_op "..." ts then PErr (line_of ts) "unsupported: varargs '...'"
          else if is_op "{" ts then parse_table d n ts
          else if is_kw "function" ts then
            do* pb, ts1 <- parse_funcbody d n (advance ts);
            POk (EFunc (fst pb) (snd pb)) ts1
          else parse_primary d n ts
      end
  end

(* prefixexp { suffix } *)
with parse_primary (d : dialect) (n : nat) (ts : toks) {struct n} : presult expr :=
  match n with
  | O => out_of_fuel ts
  | S n =>
      match peek ts with
      | TName x => parse_suffix d n (EVar x) (advance ts)
      | _ =>
          if is_op "(" ts then
            do* e, ts1 <- parse_subexpr d n 0%N (advance ts);
            do* _u, ts2 <- expect_op ")" ts1;
            parse_suffix d n (EParen e) ts2
          else err_near "unexpected symbol" ts
      end
  end

with parse_suffix (d : dialect) (n : nat) (e : expr) (ts : toks) {struct n} : presult expr :=
  match n with
  | O => out_of_fuel ts
  | S n =>
      if is_op "." ts then
        do* f, ts1 <- expect_name (advance ts);
        parse_suffix d n (EIndex e (EStr f)) ts1
      else if is_op "[" ts then
        do* k, ts1 <- parse_subexpr d n 0%N (advance ts);
        do* _u, ts2 <- expect_op "]" ts1;
        parse_suffix d n (EIndex e k) ts2
      else if is_op ":" ts then
        (* method call  e:m(args)  ==>  (function(self) return self.m(self, args) end)(e)
           with an unnameable parameter: e is evaluated once, then the method is looked up, then the
           arguments are evaluated (in the current scope extended by that one variable), and all
           results are returned -- the order and the values of OP_SELF + OP_CALL *)
        do* m, ts1 <- expect_name (advance ts);
        if negb (is_op "(" ts1 || is_op "{" ts1 || match peek ts1 with TStr _ => true | _ => false end)
        then err_near "function arguments expected" ts1 else
        do* args, ts2 <- parse_args d n ts1;
        let self := EVar method_self in
        parse_suffix d n
          (ECall (EFunc [method_self] [SReturn [ECall (EIndex self (EStr m)) (self :: args)]]) [e]) ts2
      else if is_op "(" ts || is_op "{" ts || match peek ts with TStr _ => true | _ => false end then
        do* args, ts1 <- parse_args d n ts;
        parse_suffix d n (ECall e args) ts1
      else POk e ts
  end

with parse_args (d : dialect) (n : nat) (ts : toks) {struct n} : presult (list expr) :=
  match n with
  | O => out_of_fuel ts
  | S n =>
      match peek ts with
      | TStr s => POk [EStr s] (advance ts)
      | _ =>
          if is_op "{" ts then
            do* t, ts1 <- parse_table d n ts;
            POk [t] ts1
          else if is_op ")" (advance ts) then POk [] (advance (advance ts))
          else
            do* es, ts1 <- parse_explist d n (advance ts);
            do* _u, ts2 <- expect_op ")" ts1;
            POk es ts2
      end
  end

with parse_explist (d : dialect) (n : nat) (ts : toks) {struct n} : presult (list expr) :=
  match n with
  | O => out_of_fuel ts
  | S n =>
      do* e, ts1 <- parse_subexpr d n 0%N ts;
      if is_op "," ts1 then
        do* es, ts2 <- parse_explist d n (advance ts1);
        POk (e :: es) ts2
      else POk [e] ts1
  end

(* ts starts at '{' *)
with parse_table (d : dialect) (n : nat) (ts : toks) {struct n} : presult expr :=
  match n with
  | O => out_of_fuel ts
  | S n => parse_fields d n (advance ts) []
  end

with parse_fields (d : dialect) (n : nat) (ts : toks) (acc : list field) {struct n} : presult expr :=
  match n with
  | O => out_of_fuel ts
  | S n =>
      if is_op "}" ts then POk (ETable (rev' acc)) (advance ts)
      else
        do* f, ts1 <- parse_field d n ts;
        if is_op "," ts1 || is_op ";" ts1 then parse_fields d n (advance ts1) (f :: acc)
        else if is_op "}" ts1 then POk (ETable (rev' (f :: acc))) (advance ts1)
        else err_near "'}' expected" ts1
  end

with parse_field (d : dialect) (n : nat) (ts : toks) {struct n} : presult field :=
  match n with
  | O => out_of_fuel ts
  | S n =>
      let positional :=
        fun _ : unit => do* e, ts1 <- parse_subexpr d n 0%N ts; POk (FPos e) ts1 in
      match peek ts with
      | TName x =>
          if is_op "=" (advance ts) then
            do* v, ts1 <- parse_subexpr d n 0%N (advance (advance ts));
            POk (FKey (EStr x) v) ts1
          else positional tt
      | _ =>
          if is_op "[" ts then
            do* k, ts1 <- parse_subexpr d n 0%N (advance ts);
            do* _u, ts2 <- expect_op "]" ts1;
            do* _v, ts3 <- expect_op "=" ts2;
            do* v, ts4 <- parse_subexpr d n 0%N ts3;
            POk (FKey k v) ts4
          else positional tt
      end
  end

(* '(' params ')' block 'end' *)
with parse_funcbody (d : dialect) (n : nat) (ts : toks) {struct n} : presult (list string * block) :=
  match n with
  | O => out_of_fuel ts
  | S n =>
      do* _u, ts1 <- expect_op "(" ts;
      do* ps, ts2 <- (if is_op ")" ts1 then POk [] ts1 else parse_namelist d n ts1);
      do* _v, ts3 <- expect_op ")" ts2;
      do* b, ts4 <- parse_block d n ts3 [];
      do* _w, ts5 <- expect_kw "end" ts4;
      POk (ps, b) ts5
  end

with parse_namelist (d : dialect) (n : nat) (ts : toks) {struct n} : presult (list string) :=
  match n with
  | O => out_of_fuel ts
  | S n =>
      if is_op "..." ts then PErr (line_of ts) "unsupported: varargs '...'" else
      do* x, ts1 <- expect_name ts;
      if is_op "," ts1 then
        do* xs, ts2 <- parse_namelist d n (advance ts1);
        POk (x :: xs) ts2
      else POk [x] ts1
  end

(* statements up to (not including) a block-ending token; acc is reversed *)
with parse_block (d : dialect) (n : nat) (ts : toks) (acc : list stmt) {struct n} : presult block :=
  match n with
  | O => out_of_fuel ts
  | S n =>
      if block_end (peek ts) then POk (rev' acc) ts
      else if is53 d && is_op ";" ts then parse_block d n (advance ts) acc     (* empty statement (5.2+) *)
      else
        do* s, ts1 <- parse_stmt d n ts;
        parse_block d n (if is_op ";" ts1 then advance ts1 else ts1) (s :: acc)
  end

with parse_stmt (d : dialect) (n : nat) (ts : toks) {struct n} : presult stmt :=
  match n with
  | O => out_of_fuel ts
  | S n =>
      let ts0 := advance ts in
      if is_kw "if" ts then
        do* c, ts1 <- parse_subexpr d n 0%N ts0;
        do* _u, ts2 <- expect_kw "then" ts1;
        do* t, ts3 <- parse_block d n ts2 [];
        do* e, ts4 <- parse_if_tail d n ts3;
        POk (SIf c t e) ts4
      else if is_kw "while" ts then
        do* c, ts1 <- parse_subexpr d n 0%N ts0;
        do* _u, ts2 <- expect_kw "do" ts1;
        do* b, ts3 <- parse_block d n ts2 [];
        do* _v, ts4 <- expect_kw "end" ts3;
        POk (SWhile c b) ts4
      else if is_kw "do" ts then
        do* b, ts1 <- parse_block d n ts0 [];
        do* _u, ts2 <- expect_kw "end" ts1;
        POk (SDo b) ts2
      else if is_kw "for" ts then
        do* x, ts1 <- expect_name ts0;
        if is_op "=" ts1 then
          do* lo, ts2 <- parse_subexpr d n 0%N (advance ts1);
          do* _u, ts3 <- expect_op "," ts2;
          do* hi, ts4 <- parse_subexpr d n 0%N ts3;
          do* st, ts5 <- (if is_op "," ts4
                          then do* e, t5 <- parse_subexpr d n 0%N (advance ts4); POk (Some e) t5
                          else POk None ts4);
          do* _v, ts6 <- expect_kw "do" ts5;
          do* b, ts7 <- parse_block d n ts6 [];
          do* _w, ts8 <- expect_kw "end" ts7;
          POk (SNumFor x lo hi st b) ts8
        else
          do* xs, ts2 <- (if is_op "," ts1 then parse_namelist d n (advance ts1) else POk [] ts1);
          do* _u, ts3 <- expect_kw "in" ts2;
          do* es, ts4 <- parse_explist d n ts3;
          do* _v, ts5 <- expect_kw "do" ts4;
          do* b, ts6 <- parse_block d n ts5 [];
          do* _w, ts7 <- expect_kw "end" ts6;
          POk (SGenFor (x :: xs) es b) ts7
      else if is_kw "repeat" ts then
        do* b, ts1 <- parse_block d n ts0 [];
        do* _u, ts2 <- expect_kw "until" ts1;
        do* c, ts3 <- parse_subexpr d n 0%N ts2;
        POk (SRepeat b c) ts3
      else if is_kw "function" ts then
        do* x, ts1 <- expect_name ts0;
        do* target, ts2 <- parse_funcname d n (EVar x) ts1;
        do* pb, ts3 <- parse_funcbody d n ts2;
        POk (SAssign [target] [EFunc (fst pb) (snd pb)]) ts3
      else if is_kw "local" ts then
        if is_kw "function" ts0 then
          do* x, ts1 <- expect_name (advance ts0);
          do* pb, ts2 <- parse_funcbody d n ts1;
          POk (SLocalFun x (fst pb) (snd pb)) ts2
        else
          do* xs, ts1 <- parse_namelist d n ts0;
          if is_op "=" ts1 then
            do* es, ts2 <- parse_explist d n (advance ts1);
            POk (SLocal xs es) ts2
          else POk (SLocal xs []) ts1
      else if is_kw "return" ts then
        if block_end (peek ts0) || is_op ";" ts0 then POk (SReturn []) ts0
        else
          do* es, ts1 <- parse_explist d n ts0;
          POk (SReturn es) ts1
      else if is_kw "break" ts then POk SBreak ts0
      else if is_kw "goto" ts then
        do* l, ts1 <- expect_name ts0;
        POk (SGoto l) ts1
      else if is_op "::" ts then
        do* l, ts1 <- expect_name ts0;
        do* _u, ts2 <- expect_op "::" ts1;
        POk (SLabel l) ts2
      else
        (* assignment or call *)
        do* e, ts1 <- parse_primary d n ts;
        if is_op "=" ts1 || is_op "," ts1 then
          do* targets, ts2 <- parse_targets d n ts1 [e];
          do* _u, ts3 <- expect_op "=" ts2;
          do* es, ts4 <- parse_explist d n ts3;
          if all_vars targets then POk (SAssign targets es) ts4
          else PErr (line_of ts) "syntax error: cannot assign to this expression"
        else
          match e with
          | ECall f args => POk (SCall f args) ts1
          | _ => err_near "syntax error" ts1
          end
  end

(* after the `then` block of an if: the else part as a block *)
with parse_if_tail (d : dialect) (n : nat) (ts : toks) {struct n} : presult block :=
  match n with
  | O => out_of_fuel ts
  | S n =>
      if is_kw "elseif" ts then
        do* c, ts1 <- parse_subexpr d n 0%N (advance ts);
        do* _u, ts2 <- expect_kw "then" ts1;
        do* t, ts3 <- parse_block d n ts2 [];
        do* e, ts4 <- parse_if_tail d n ts3;
        POk [SIf c t e] ts4
      else if is_kw "else" ts then
        do* e, ts1 <- parse_block d n (advance ts) [];
        do* _u, ts2 <- expect_kw "end" ts1;
        POk e ts2
      else
        do* _u, ts1 <- expect_kw "end" ts;
        POk [] ts1
  end

(* function a.b.c : the name part after the first name *)
with parse_funcname (d : dialect) (n : nat) (e : expr) (ts : toks) {struct n} : presult expr :=
  match n with
  | O => out_of_fuel ts
  | S n =>
      if is_op "." ts then
        do* f, ts1 <- expect_name (advance ts);
        parse_funcname d n (EIndex e (EStr f)) ts1
      else if is_op ":" ts then PErr (line_of ts) "unsupported: method definition syntax"
      else POk e ts
  end

(* further assignment targets: { ',' primaryexp };  acc is reversed *)
with parse_targets (d : dialect) (n : nat) (ts : toks) (acc : list expr) {struct n} : presult (list expr) :=
  match n with
  | O => out_of_fuel ts
  | S n =>
      if is_op "," ts then
        do* e, ts1 <- parse_primary d n (advance ts);
        parse_targets d n ts1 (e :: acc)
      else POk (rev' acc) ts
  end.

Inductive parse_result :=
| ParseOk (b : block)
| ParseErr (line : N) (msg : string).

Definition parse_tokens (d : dialect) (ts : toks) : parse_result :=
  match parse_block d (10 * List.length ts + 100) ts [] with
  | POk b rest =>
      match peek rest with
      | TEof => ParseOk b
      | _ => ParseErr (line_of rest) ("'<eof>' expected near '" ++ tok_text (peek rest) ++ "'")
      end
  | PErr l m => ParseErr l m
  end.

Definition parse_lua (d : dialect) (src : string) : parse_result :=
  match lex d src with
  | LexOk ts => parse_tokens d ts
  | LexErr l m => ParseErr l m
  end.

Definition parse_lua_opt (d : dialect) (src : string) : option block :=
  match parse_lua d src with ParseOk b => Some b | ParseErr _ _ => None end.
