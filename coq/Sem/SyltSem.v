(* SyltSem: a reference interpreter for resolved Sylt programs (the denotation of the SOURCE), used by
   the C01/C10 oracle: its trace is compared with the trace of the emitted Lua run in LuaCore.
   Strict left-to-right evaluation; every execution of a definition allocates a fresh cell, closures
   capture cells by reference; blobs are references; tuples, lists and variants are values.
   Operators, printing and structural comparison are those of Sem/Runtime.v (the shallow model of
   preamble.lua).  Definitions only.

   Outside the reference semantics (the run stops with OUnsup, and the oracle skips the program):
   a blob or closure stored INSIDE a tuple/list/variant (would need references inside values),
   division, floats whose IEEE behaviour matters, externals other than `print`. *)
From Coq Require Import String List NArith ZArith QArith Bool.
From Sylt Require Import Syntax.Resolved Sem.Values Sem.Runtime.
From Sylt Require Back.IR.
Import ListNotations.
Local Open Scope string_scope.

Inductive sval :=
| SV (v : value)          (* immutable data: numbers, strings, booleans, nil, tuples, lists, variants *)
| SRef (l : nat)          (* a blob instance *)
| SClos (c : nat)         (* a Sylt function value *)
| SExt (name : string).   (* an external *)

Definition env := list (N * nat).   (* variable id -> cell *)

Record closure := mkClos { cl_params : list N; cl_body : list stmt; cl_env : env }.

Record state := mkState {
  cells : list sval;
  blobs : list (list (string * sval));
  clos : list closure;
  trace : list string            (* printed lines, newest first *)
}.

Inductive outcome :=
| ODone
| OAssert                        (* a failed <=> *)
| OUnreachable (msg : string)    (* a reached <!> *)
| OStuck (why : string)          (* a dynamic type error: what C02 forbids *)
| OFuel
| OUnsup (what : string).

(* abrupt completion: propagates like an exception through expressions and statements, caught by the
   enclosing loop (break/continue) or function application (ret) *)
Inductive ctl := CBreak | CContinue | CReturn (v : sval).

Inductive res (A : Type) := RVal (a : A) | RStop (o : outcome) | RAbrupt (c : ctl).
Arguments RVal {A}. Arguments RStop {A}. Arguments RAbrupt {A}.

Definition M (A : Type) := state -> res A * state.
Definition ret {A} (a : A) : M A := fun st => (RVal a, st).
Definition stop {A} (o : outcome) : M A := fun st => (RStop o, st).
Definition bind {A B} (m : M A) (k : A -> M B) : M B :=
  fun st => match m st with
            | (RVal a, st') => k a st'
            | (RStop o, st') => (RStop o, st')
            | (RAbrupt c, st') => (RAbrupt c, st')
            end.
Definition abrupt {A} (c : ctl) : M A := fun st => (RAbrupt c, st).
Notation "x <- m ;; k" := (bind m (fun x => k)) (at level 61, m at next level, right associativity).

Fixpoint lookup (e : env) (v : N) : option nat :=
  match e with
  | [] => None
  | (k, c) :: e' => if N.eqb k v then Some c else lookup e' v
  end.

Definition new_cell (v : sval) : M nat :=
  fun st => (RVal (length (cells st)), mkState (cells st ++ [v]) (blobs st) (clos st) (trace st)).

Fixpoint set_nth {A} (n : nat) (x : A) (l : list A) : list A :=
  match n, l with
  | O, _ :: t => x :: t
  | S k, h :: t => h :: set_nth k x t
  | _, [] => []
  end.

Definition read_cell (c : nat) : M sval :=
  fun st => match nth_error (cells st) c with
            | Some v => (RVal v, st)
            | None => (RStop (OStuck "read of an unallocated cell"), st)
            end.
Definition write_cell (c : nat) (v : sval) : M unit :=
  fun st => (RVal tt, mkState (set_nth c v (cells st)) (blobs st) (clos st) (trace st)).

Definition new_blob (fs : list (string * sval)) : M nat :=
  fun st => (RVal (length (blobs st)), mkState (cells st) (blobs st ++ [fs]) (clos st) (trace st)).
Definition read_blob (l : nat) : M (list (string * sval)) :=
  fun st => match nth_error (blobs st) l with
            | Some fs => (RVal fs, st)
            | None => (RStop (OStuck "dangling blob"), st)
            end.
Definition write_blob (l : nat) (fs : list (string * sval)) : M unit :=
  fun st => (RVal tt, mkState (cells st) (set_nth l fs (blobs st)) (clos st) (trace st)).

Definition new_clos (c : closure) : M nat :=
  fun st => (RVal (length (clos st)), mkState (cells st) (blobs st) (clos st ++ [c]) (trace st)).
Definition get_clos (c : nat) : M closure :=
  fun st => match nth_error (clos st) c with
            | Some x => (RVal x, st)
            | None => (RStop (OStuck "dangling closure"), st)
            end.

Definition emit_line (s : string) : M unit :=
  fun st => (RVal tt, mkState (cells st) (blobs st) (clos st) (s :: trace st)).

Fixpoint mapM {A B} (f : A -> M B) (l : list A) : M (list B) :=
  match l with
  | [] => ret []
  | x :: xs => y <- f x ;; ys <- mapM f xs ;; ret (y :: ys)
  end.

(* a snapshot of an sval as a tree (for ==, printing, storing in a tuple/list/variant) *)
Fixpoint reify (fuel : nat) (st : state) (v : sval) : option value :=
  match fuel with
  | O => None
  | S f =>
    match v with
    | SV x => Some x
    | SClos c => Some (VFun (N.of_nat c))
    | SExt _ => Some (VFun 0)
    | SRef l =>
        match nth_error (blobs st) l with
        | None => None
        | Some fs =>
            option_map VBlob
              ((fix go (fs : list (string * sval)) : option (list (string * value)) :=
                  match fs with
                  | [] => Some []
                  | (k, x) :: fs' =>
                      match reify f st x, go fs' with
                      | Some y, Some ys => Some ((k, y) :: ys)
                      | _, _ => None
                      end
                  end) fs)
        end
    end
  end.

Definition as_value (what : string) (v : sval) : M value :=
  match v with
  | SV x => ret x
  | _ => stop (OUnsup ("a blob or function inside " ++ what))
  end.

Definition snapshot (v : sval) : M value :=
  fun st => match reify 64 st v with
            | Some x => (RVal x, st)
            | None => (RStop (OUnsup "cyclic or too deep value"), st)
            end.

Definition lift_res {A} (what : string) (r : Values.res A) : M A :=
  match r with
  | Values.Ok a => ret a
  | Values.Err => stop (OStuck what)
  | Values.Unsup => stop (OUnsup what)
  end.

Definition truth (what : string) (v : sval) : M bool :=
  match v with
  | SV (VBool b) => ret b
  | _ => stop (OStuck (what ++ ": not a boolean"))
  end.

Definition binop_val (op : binop) (a b : value) : M value :=
  match op with
  | Add => lift_res "+" (rt_add a b)
  | Sub => lift_res "-" (rt_sub a b)
  | Mul => lift_res "*" (rt_mul a b)
  | Div => stop (OUnsup "division")
  | Equals => ret (VBool (rt_eq a b))
  | NotEquals => ret (VBool (rt_neq a b))
  | Less => b <- lift_res "<" (rt_lt a b) ;; ret (VBool b)
  | LessEqual => b <- lift_res "<=" (rt_le a b) ;; ret (VBool b)
  | Greater => b <- lift_res ">" (rt_gt a b) ;; ret (VBool b)
  | GreaterEqual => b <- lift_res ">=" (rt_ge a b) ;; ret (VBool b)
  | _ => stop (OStuck "not a value operator")
  end.


Section Interp.

Fixpoint eval (fuel : nat) (e : env) (x : expr) {struct fuel} : M sval :=
  match fuel with
  | O => stop OFuel
  | S f =>
    let ev := eval f in
    match x with
    | ERead v _ =>
        match lookup e v with
        | Some c => read_cell c
        | None => stop (OStuck "read of a variable that is not in scope")
        end
    | EVariant _ variant value _ =>
        p <- ev e value ;; pv <- as_value "an enum value" p ;; ret (SV (VVariant variant pv))
    | ECall fn args _ =>
        fv <- ev e fn ;;
        avs <- mapM (ev e) args ;;
        apply f fv avs
    | EBlobAccess value field _ =>
        o <- ev e value ;;
        match o with
        | SRef l =>
            fs <- read_blob l ;;
            match find (fun kv => String.eqb (fst kv) field) fs with
            | Some kv => ret (snd kv)
            | None => stop (OStuck "missing field")
            end
        | _ => stop (OStuck "field access on a value that is not a blob")
        end
    | EIndex value index _ =>
        o <- ev e value ;; i <- ev e index ;;
        ov <- as_value "an indexed value" o ;; iv <- as_value "an index" i ;;
        r <- lift_res "index" (rt_index ov iv) ;; ret (SV r)
    | EBinOp AssertEq a b _ =>
        va <- ev e a ;; vb <- ev e b ;;
        xa <- snapshot va ;; xb <- snapshot vb ;;
        if rt_eq xa xb then ret (SV (VBool true)) else stop OAssert
    | EBinOp And a b _ =>
        va <- ev e a ;; ba <- truth "and" va ;;
        if ba then ev e b else ret (SV (VBool false))
    | EBinOp Or a b _ =>
        va <- ev e a ;; ba <- truth "or" va ;;
        if ba then ret (SV (VBool true)) else ev e b
    | EBinOp op a b _ =>
        va <- ev e a ;; vb <- ev e b ;;
        xa <- snapshot va ;; xb <- snapshot vb ;;
        r <- binop_val op xa xb ;; ret (SV r)
    | EUniOp Not a _ =>
        va <- ev e a ;; ba <- truth "not" va ;; ret (SV (VBool (negb ba)))
    | EUniOp Neg a _ =>
        va <- ev e a ;; xa <- as_value "a negated value" va ;;
        r <- lift_res "unary -" (rt_neg xa) ;; ret (SV r)
    | EIf branches _ =>
        (fix go (brs : list ifbranch) : M sval :=
           match brs with
           | [] => ret (SV VLuaNil)
           | IfBranch (Some cond) body _ :: brs' =>
               c <- ev e cond ;; bc <- truth "if" c ;;
               if bc then block_value f e body else go brs'
           | IfBranch None body _ :: _ => block_value f e body
           end) branches
    | ECase to_match branches fall_through _ =>
        m <- ev e to_match ;;
        match m with
        | SV (VVariant tag payload) =>
            (fix go (brs : list casebranch) : M sval :=
               match brs with
               | [] => block_value f e (match fall_through with Some b => b | None => [] end)
               | CaseBranch pattern _ variable body _ :: brs' =>
                   if String.eqb pattern tag then
                     match variable with
                     | Some v => c <- new_cell (SV payload) ;; block_value f ((v, c) :: e) body
                     | None => block_value f e body
                     end
                   else go brs'
               end) branches
        | _ => stop (OStuck "case on a value that is not an enum value")
        end
    | EFunction _ params _ body _ _ =>
        c <- new_clos (mkClos (map (fun p => snd (fst (fst p))) params) body e) ;; ret (SClos c)
    | EBlob _ fields self_var _ =>
        sc <- new_cell (SV VLuaNil) ;;
        let e' := (self_var, sc) :: e in
        fvs <- mapM (fun fe => v <- ev e' (snd fe) ;; ret (fst fe, v)) fields ;;
        l <- new_blob fvs ;;
        _ <- write_cell sc (SRef l) ;;
        ret (SRef l)
    | ECollection c values _ =>
        vs <- mapM (ev e) values ;;
        xs <- mapM (as_value "a tuple or list") vs ;;
        ret (SV (match c with CTuple => VTuple xs | CList => VList xs end))
    | EFloat _ _ => stop (OUnsup "float literal")
    | EInt z _ => ret (SV (VInt z))
    | EStr s _ => ret (SV (VStr s))
    | EBool b _ => ret (SV (VBool b))
    | ENil _ => ret (SV VNil)
    end
  end

(* a block used as an expression: the value of its last statement if that is an expression,
   Lua nil otherwise *)
with block_value (fuel : nat) (e : env) (b : list stmt) {struct fuel} : M sval :=
  match fuel with
  | O => stop OFuel
  | S f =>
    match rev b with
    | SStatementExpression value _ :: rest_rev =>
        e' <- exec_block f e (rev rest_rev) ;; eval f e' value
    | _ =>
        _ <- exec_block f e b ;; ret (SV VLuaNil)
    end
  end

with exec_block (fuel : nat) (e : env) (ss : list stmt) {struct fuel} : M env :=
  match fuel with
  | O => stop OFuel
  | S f =>
    match ss with
    | [] => ret e
    | s :: ss' => e' <- exec f e s ;; exec_block f e' ss'
    end
  end

with exec (fuel : nat) (e : env) (s : stmt) {struct fuel} : M env :=
  match fuel with
  | O => stop OFuel
  | S f =>
    match s with
    | SDefinition _ var _ _ value _ =>
        c <- new_cell (SV VLuaNil) ;;
        let e' := (var, c) :: e in
        v <- eval f e' value ;;
        _ <- write_cell c v ;;
        ret e'
    | SAssignment op target value _ =>
        match target with
        | ERead v _ =>
            match lookup e v with
            | None => stop (OStuck "assignment to a variable that is not in scope")
            | Some c =>
                nv <- eval f e value ;;
                r <- match op with
                     | Nop => ret nv
                     | _ => old <- read_cell c ;; xo <- as_value "compound assignment" old ;;
                            xn <- as_value "compound assignment" nv ;;
                            x <- binop_val op xo xn ;; ret (SV x)
                     end ;;
                _ <- write_cell c r ;;
                ret e
            end
        | EBlobAccess obj field _ =>
            o <- eval f e obj ;;
            match o with
            | SRef l =>
                fs0 <- read_blob l ;;
                match find (fun kv => String.eqb (fst kv) field) fs0 with
                | None => stop (OStuck "assignment to a missing field")
                | Some kv =>
                    nv <- eval f e value ;;
                    r <- match op with
                         | Nop => ret nv
                         | _ => xo <- as_value "compound assignment" (snd kv) ;;
                                xn <- as_value "compound assignment" nv ;;
                                x <- binop_val op xo xn ;; ret (SV x)
                         end ;;
                    fs <- read_blob l ;;
                    _ <- write_blob l (map (fun kv => if String.eqb (fst kv) field then (fst kv, r) else kv) fs) ;;
                    ret e
                end
            | _ => stop (OStuck "field assignment on a value that is not a blob")
            end
        | _ => stop (OUnsup "index assignment")
        end
    | SBlock statements _ => _ <- exec_block f e statements ;; ret e
    | SLoop condition body _ =>
        (fix loop (n : nat) : M env :=
           match n with
           | O => stop OFuel
           | S n' =>
               c <- eval f e condition ;; bc <- truth "loop" c ;;
               if bc then
                 fun st =>
                   match exec_block f e body st with
                   | (RVal _, st') => loop n' st'
                   | (RAbrupt CBreak, st') => (RVal e, st')
                   | (RAbrupt CContinue, st') => loop n' st'
                   | (r, st') => (match r with RVal _ => RVal e | RStop o => RStop o | RAbrupt c => RAbrupt c end, st')
                   end
               else ret e
           end) f
    | SBreak _ => abrupt CBreak
    | SContinue _ => abrupt CContinue
    | SRet (Some value) _ => v <- eval f e value ;; abrupt (CReturn v)
    | SRet None _ => abrupt (CReturn (SV VNil))
    | SStatementExpression value _ => _ <- eval f e value ;; ret e
    | SUnreachable sp =>
        stop (OUnreachable ("Reached unreachable code on line " ++ Back.IR.N_to_string (sp_line0 sp)))
    | SBlob _ _ _ _ _ _ | SEnum _ _ _ _ _ | SExternalDefinition _ _ _ _ _ =>
        stop (OStuck "type or external declaration inside a function")
    end
  end

with apply (fuel : nat) (fv : sval) (args : list sval) {struct fuel} : M sval :=
  match fuel with
  | O => stop OFuel
  | S f =>
    match fv with
    | SExt name =>
        if String.eqb name "print" then
          match args with
          | [a] => x <- snapshot a ;; _ <- emit_line (rt_tostring x) ;; ret (SV VLuaNil)
          | _ => stop (OUnsup "print with several arguments")
          end
        else stop (OUnsup ("external " ++ name))
    | SClos c =>
        cl <- get_clos c ;;
        if Nat.eqb (length (cl_params cl)) (length args) then
          cs <- mapM new_cell args ;;
          let e' := (combine (cl_params cl) cs ++ cl_env cl)%list in
          (* the body: the last statement, if it is an expression, is the returned value;
             `ret` anywhere inside completes the call *)
          fun st =>
            match block_value f e' (cl_body cl) st with
            | (RAbrupt (CReturn v), st') => (RVal v, st')
            | (RAbrupt _, st') => (RStop (OStuck "break/continue outside a loop"), st')
            | r => r
            end
        else stop (OStuck "call with the wrong number of arguments")
    | _ => stop (OStuck "call of a value that is not a function")
    end
  end.

End Interp.

(* the whole program: outer statements in initialisation order, then start() *)
Fixpoint run_outer (fuel : nat) (e : env) (ss : list stmt) : M env :=
  match ss with
  | [] => ret e
  | SExternalDefinition name var _ _ _ :: ss' =>
      c <- new_cell (SExt name) ;; run_outer fuel ((var, c) :: e) ss'
  | (SDefinition _ _ _ _ _ _ as s) :: ss' =>
      e' <- exec fuel e s ;; run_outer fuel e' ss'
  | _ :: ss' => run_outer fuel e ss'
  end.

Definition find_start (vars : list var) : option N :=
  match find (fun v => String.eqb (v_name v) "start" && v_global v) vars with
  | Some v => Some (v_id v)
  | None => None
  end.

Record run_result := mkRun { r_trace : list string; r_final : outcome }.

Definition run (fuel : nat) (r : resolved) : run_result :=
  let st0 := mkState [] [] [] [] in
  match (e <- run_outer fuel [] (r_stmts r) ;;
         match find_start (r_vars r) with
         | None => stop (OStuck "no start")
         | Some s =>
             match lookup e s with
             | None => stop (OStuck "no start")
             | Some c => fv <- read_cell c ;; apply fuel fv []
             end
         end) st0 with
  | (RVal _, st) => mkRun (rev (trace st)) ODone
  | (RStop o, st) => mkRun (rev (trace st)) o
  | (RAbrupt _, st) => mkRun (rev (trace st)) (OStuck "ret/break/continue at top level")
  end.
