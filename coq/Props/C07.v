(* C07 -- the compiler is total.  Pinned statements only. *)
From Coq Require Import String List NArith Bool.
From Sylt Require Import Lex.Regex Lex.Logos Lex.LexerProofs Total.DocPanicSites Gen.GenPanicSites Gen.GenTokens.
From Sylt Require Import Syntax.Resolved Back.IR Back.RScope Back.TotalProofs.
Import ListNotations.

Fixpoint psites_eqb (a : list psite) (b : list (string * string * string * nat)) : bool :=
  match a, b with
  | [], [] => true
  | s :: a', (f, fn, k, n) :: b' =>
      String.eqb (p_file s) f && String.eqb (p_fn s) fn && String.eqb (p_kind s) k
      && Nat.eqb (p_count s) n && psites_eqb a' b'
  | _, _ => false
  end.

(* Obligation 1 (table tie): the panic sites found in /repo on this run are exactly the reviewed ones. *)
Theorem C07_sites_covered : psites_eqb doc_sites GenPanicSites.sites = true.
Proof. vm_compute. reflexivity. Qed.

(* The tokenizer always terminates and consumes its whole input: with fuel = |s| the raw token texts
   concatenate to s, i.e. every iteration makes progress (no input can make it loop), for every table. *)
Theorem C07_lexer_total : forall (t : table) (s : list N),
  concat (map r_text (raw_lex (length s) t s)) = s.
Proof. exact raw_lex_tiles. Qed.

(* Every token the model produces lies on code-point boundaries inside the input (the four unwrap()s of
   char_at_byte in string_to_tokens index at token boundaries). *)
Theorem C07_token_bounds : forall (s : list N) (tk : ptoken),
  In tk (lex gen_table s) -> N.to_nat (t_cp0 tk) < N.to_nat (t_cp1 tk) <= length s.
Proof. intros s tk H. exact (proj1 (lex_token_spec gen_table s tk H)). Qed.

(* The IR lowering (intermediate.rs; its unreachable!()/unwrap() sites are Panic outcomes of the model)
   is total on every resolved program that passes the fuelled scoping/shape check: no panic site is
   reached and the fuel that suffices for the check suffices for the lowering. *)
Theorem C07_lower_total : forall (fuel : nat) (r : resolved),
  rs_resolved fuel r = true -> exists code, lower fuel r = Ok code.
Proof. exact lower_total. Qed.

Print Assumptions C07_sites_covered.
Print Assumptions C07_lower_total.
Print Assumptions C07_lexer_total.
Print Assumptions C07_token_bounds.

(* ------------------------------------------------------------------------------------------------- *)
(* The parser (sylt-parser/src/{parser,statement,expression}.rs) is total.  Model: Parse/Parser.v, tied
   to the real parser token-for-token by the C13/C14/C07 plug-ins; proofs: Parse/ParserTotal.v.
   The model renders every place where the Rust code would panic or spin as the outcome [Panic]
   (`exprs.remove(0)` / `types.remove(0)` on an empty vector, the three `unreachable!()`, Context::prev
   walking back into index 0 over comments) and running out of recursion fuel as [Fuel].
   Panic/spin sites of the parser and what happens to each:
   - expression.rs grouping_or_tuple `exprs.remove(0)`, parser.rs parse_type `types.remove(0)`: [Panic] in the
     model; unreachable because the tuple loops only return an empty non-tuple when `)` is NOT next, and then
     the following expect!(RightParen) fails first (ParserTotal: tuple_pre / tuple_post).
   - parser.rs:707 `unreachable!("Checked in parse_type_constraint_argument")`: [Panic] in the model; unreachable
     because constraint_args only stops on `+` `,` `>` (cstop).
   - statement.rs:623 `_ => unreachable!()` (implied definition): [Panic] in the model; unreachable because the
     statement dispatch has already seen `::` or `:=` in that position (stmt_def_implied_ok).
   - expression.rs:598 `unreachable!()` (infix kind map): the guard list and the kind map are one table in the
     model; gen_prec.py refuses to translate (Untranslatable) when the two lists differ.
   - Context::prev at index 0 on a comment (would spin): [Panic] in the model at its three uses (loop arm, span
     of an implicit `use` name - twice for a path ending in '/', infix error path); unreachable because each caller
     has consumed a non-comment token since ([ltm]).
   - parser.rs detail_if_error! `unreachable!`: the macro is never used.  tokens_lookahead `res[i]`: i < N.
   - statement.rs use: `file_stem().unwrap()`, `.to_str().unwrap()`, `file.parent().unwrap()`: path strings, outside
     the token-level model ([last_component] is total); guarded for identifiers as the tokenizer produces them
     (non-empty, no '/' or '.'), the path "/" alone being rejected just before.
   - Context::comments_since_last_statement computes `self.curr - self.last_statement` (overflow-checked builds
     panic when it is negative, release builds wrap).  The model has NO last_statement field: the theorems below
     are about the release build's arithmetic.  Until /repo 6634c32 the subtraction could go negative
     (`if true do loop do break end end`: the loop arm's prev() stepped back over the body's `end`).  Since that
     fix the only context that is moved BACK and handed on is the loop arm's, and only onto a newline which the
     statement's own expect!(Newline) consumes again; [C07_loop_prev_returns] proves that this lands exactly
     on the context where the body ended (so `curr - last_statement` is 0 there); every other hand-over is a
     skip() forward.  The overflow-checked build itself is exercised by the thorough tier of tools/props/c07.py
     (compile on a sample of every input class and all hand-written inputs, and the parser alone against the
     model). *)
From Sylt Require Import Syntax.Tok Syntax.Ast Parse.PrecTable Parse.Parser Parse.ParserTotal.
From Sylt Require Gen.GenPrec.

(* the regenerated operator table meets the side condition of the totality proof: its postfix tokens are
   the four that sub_assignable dispatches on (unary, binary and valid-infix tokens are keywords/punctuation
   by construction of [interp]) *)
Theorem C07_parser_table_ok : total_ok (interp GenPrec.table).
Proof. apply total_ok_interp. vm_compute. reflexivity. Qed.

(* Termination and progress: the explicit, linear fuel [parse_fuel] suffices for every token list.  With
   at least that much fuel, parsing a whole file never runs out of fuel (every loop of the parser - top
   level statements, blocks, precedence climbing, argument/tuple/list/field lists, type lists, enum and
   blob bodies, and the skip-to-next-line error recovery - consumes a token per round or descends in a
   finite rank), never reaches a panic site, and ends in a tree or in a NON-EMPTY list of errors. *)
Theorem C07_parser_total : forall (ts : list tok) (f : nat), parse_fuel ts <= f ->
  match parse_program (interp GenPrec.table) f ts with
  | Ok _ => True
  | Err _ errors => errors <> []
  | Fuel => False
  | Panic => False
  end.
Proof. intros ts f Hf. exact (parse_program_total _ C07_parser_table_ok ts f Hf). Qed.

Theorem C07_parser_fuel_linear : forall ts : list tok, parse_fuel ts = 6 * length ts + 6.
Proof. reflexivity. Qed.

(* the same for the other public entry points (expression, statement, outer_statement, parse_type), and
   for every operator table with the side condition, not just today's *)
Theorem C07_parser_entries_total : forall (T : ptab), total_ok T -> forall (ts : list tok) (f : nat),
  parse_fuel ts <= f ->
  settled (parse_program T f ts) /\ settled (parse_statement T f ts) /\ settled (parse_outer_statement T f ts)
  /\ settled (parse_expression T f ts) /\ settled (parse_type_top T f ts).
Proof.
  intros T H ts f Hf. repeat split.
  - apply parse_program_total; assumption.
  - apply parse_statement_total; assumption.
  - apply parse_outer_statement_total; assumption.
  - apply parse_expression_total; assumption.
  - apply parse_type_total; assumption.
Qed.

(* [settled] is what it should be *)
Theorem C07_settled_spec : forall (A : Type) (r : res A),
  settled r <-> (exists a, r = Ok a) \/ (exists c e es, r = Err c (e :: es)).
Proof.
  intros A r. split.
  - destruct r as [a|c es| |]; cbn [settled]; try contradiction.
    + intros _. left. exists a. reflexivity.
    + intros H. right. destruct es as [|e es]; [contradiction H; reflexivity|]. exists c, e, es. reflexivity.
  - intros [[a ->]|(c & e & es & ->)]; cbn [settled]; [exact I|discriminate].
Qed.

(* an accepted file was read to its end: acceptance is never a prefix parse *)
Theorem C07_parser_accepts_whole_input : forall (T : ptab) (ts : list tok) (f : nat) (ss : list stmt) (c : ctx),
  parse_program T f ts = Ok (ss, c) -> token c = TEOF.
Proof. intros T ts f ss c. apply parse_program_ok_at_end. Qed.

(* the loop arm after /repo 6634c32: the body ended at c3 (a context as skip() and a pop to "newlines count"
   leave it); if the token before it is the newline, expect!(Newline) from there returns c3 itself *)
Theorem C07_loop_prev_returns : forall (n : nat) (c0 cp : ctx),
  let c3 := pop_nl false (skip n c0) in
  pre c3 <> [] -> over c3 = 0 -> prev c3 = Some cp -> is_k KNewline cp = true ->
  expect KNewline cp = Ok c3.
Proof. exact loop_prev_returns. Qed.

(* non-vacuity: `x :: 1⏎` is accepted, `x ::⏎z⏎y ::⏎` gives two errors (the parser recovered at a line
   break and went on), and with too little fuel the model does report [Fuel] - the bound is doing work *)
Example C07_parser_total_witness :
  let T := interp GenPrec.table in
  let good := [TIdent [120%N]; TK KColonColon; TInt 1%N; TK KNewline] in
  let bad := [TIdent [120%N]; TK KColonColon; TK KNewline; TIdent [122%N]; TK KNewline;
              TIdent [121%N]; TK KColonColon; TK KNewline] in
  (exists ss c, parse_program T (parse_fuel good) good = Ok (ss, c) /\ length ss = 1)
  /\ (exists c e1 e2, parse_program T (parse_fuel bad) bad = Err c [e1; e2])
  /\ parse_program T 3 good = Fuel.
Proof.
  vm_compute. split; [|split].
  - eexists. eexists. split; reflexivity.
  - eexists. eexists. eexists. reflexivity.
  - reflexivity.
Qed.

(* ---- how LONG the parser runs: fuel is depth, not time ----
   C07_parser_total bounds the DEPTH of the parser's requests (6 * tokens + 6), not their number: it says that the
   parser comes back, not when.  Parse/Steps.v counts the requests ([goc] = [go] with a counter, same answer).
   Up to /repo 356c2fa the statement parser probed with `assignable` and then parsed the same tokens again: calls
   with function-literal arguments nested in statement position cost 24 * 2^depth - 11 requests (18 * 2^depth - 5
   with a syntax error in the innermost body), in the model as in the code.  Since the fix (the probe's result is
   kept) the same inputs cost 13 + 11 * depth requests (13 + 7 * depth).  These are measurements of the model,
   pinned; a theorem "steps <= c * tokens^2" is not proved. *)
From Sylt Require Parse.Steps.

Theorem C07_steps_same_answer : forall f q,
  fst (Parse.Steps.goc (interp GenPrec.table) f q) = go (interp GenPrec.table) f q.
Proof. exact (Parse.Steps.goc_fst (interp GenPrec.table)). Qed.

Example C07_steps_nested_calls :
  map (fun d => Parse.Steps.steps (interp GenPrec.table) (Parse.Steps.nested_calls d)) [0; 1; 2; 3; 4; 5; 10; 20; 40; 100]
  = [13; 24; 35; 46; 57; 68; 123; 233; 453; 1113] /\
  map (fun d => Parse.Steps.steps (interp GenPrec.table) (Parse.Steps.nested_calls_err d)) [0; 1; 2; 3; 4; 5; 10; 20; 40; 100]
  = [13; 20; 27; 34; 41; 48; 83; 153; 293; 713] /\
  (forall d, In d [0; 1; 2; 3; 4; 5; 10; 20; 40; 100] ->
     Parse.Steps.steps (interp GenPrec.table) (Parse.Steps.nested_calls d) = 13 + 11 * d) /\
  (exists ss c, parse_program (interp GenPrec.table) (parse_fuel (Parse.Steps.nested_calls 3)) (Parse.Steps.nested_calls 3) = Ok (ss, c)) /\
  (exists c es, parse_program (interp GenPrec.table) (parse_fuel (Parse.Steps.nested_calls_err 3)) (Parse.Steps.nested_calls_err 3) = Err c es).
Proof.
  split; [vm_compute; reflexivity|]. split; [vm_compute; reflexivity|]. split.
  - intros d H. repeat (destruct H as [<-|H]; [vm_compute; reflexivity|]). destruct H.
  - split; vm_compute; eexists; eexists; reflexivity.
Qed.

Print Assumptions C07_parser_table_ok.
Print Assumptions C07_parser_total.
Print Assumptions C07_parser_fuel_linear.
Print Assumptions C07_parser_entries_total.
Print Assumptions C07_settled_spec.
Print Assumptions C07_parser_accepts_whole_input.
Print Assumptions C07_loop_prev_returns.
Print Assumptions C07_parser_total_witness.
Print Assumptions C07_steps_same_answer.

(* ---------------------------------------------------------------------------------------------- *)
(* Name resolution and dependency ordering never panic and never hang: theorems over the resolver model
   Resolve/Resolver.v (its Panic outcomes are the indexing sites `self.namespace_to_file[..]`,
   `self.namespaces[..]`, `file_to_namespace.get(..).unwrap()`, `namespaces.get_mut(..).unwrap()`; tied to
   the real resolver on every run by the C09 check) and over Dep/Topo.v. *)
From Sylt Require Resolve.PAst Resolve.Resolver Resolve.TreeOk Resolve.TotalProofs Resolve.RefineRefuted
     Dep.Topo Dep.DepProofs Gen.GenResolve.

(* C07_resolver_total.  `tree_ok ast` (computable, Resolve/TreeOk.v) is what tree() + extract_namespaces
   guarantee: the main module has file id 0 and every span whose file id the resolver uses to select a
   namespace table (identifier reads, `a.x` accesses, type paths, the statement spans of blob / enum /
   external / global definitions) carries the file id of a module.  Then for every amount of fuel at least
   `fuel_of ast` = 1 + the nesting depth of the deepest top-level statement, the resolver answers `Ok` or
   `Err` of a NON-EMPTY list: no Panic site is reachable, it never runs out of fuel.  (wf_ast is not
   needed.)  The C09 check evaluates tree_ok on every tie input. *)
Theorem C07_resolver_total : forall (ast : Resolve.PAst.past) (fuel : nat),
  Resolve.TreeOk.tree_ok ast = true -> Resolve.Resolver.fuel_of ast <= fuel ->
  (exists r, Resolve.Resolver.resolve_fuel Gen.GenResolve.gen_rflags fuel ast = Resolve.Resolver.Ok r)
  \/ (exists e es, Resolve.Resolver.resolve_fuel Gen.GenResolve.gen_rflags fuel ast = Resolve.Resolver.Err (e :: es)).
Proof. exact (Resolve.TotalProofs.resolve_total Gen.GenResolve.gen_rflags). Qed.

(* C07_order_total.  The dependency ordering always answers with an order or with a cycle: it has no
   Panic site (an unknown variable is "not a definition"), and `S (length table)` fuel is enough. *)
Theorem C07_order_total : forall (tgt : bool) (ss : list Syntax.Resolved.stmt),
  (exists l, Dep.Topo.initialization_order tgt ss = Dep.Topo.OOk l)
  \/ (exists c, Dep.Topo.initialization_order tgt ss = Dep.Topo.OCycle c).
Proof. exact Dep.DepProofs.order_total. Qed.

(* non-vacuity: a two-file program and a scope-violating program satisfy tree_ok; a tree with a span whose
   file id (7) is no module's does not, and on it the model does reach a Panic site -- the hypothesis is
   doing work *)
Example C07_resolver_total_witness :
  Resolve.TreeOk.tree_ok Resolve.RefineRefuted.w_nsfield_ok = true
  /\ Resolve.TreeOk.tree_ok Resolve.RefineRefuted.w_if = true
  /\ Resolve.TreeOk.tree_ok Resolve.TotalProofs.bad_tree = false
  /\ (exists s, Resolve.Resolver.resolve Gen.GenResolve.gen_rflags Resolve.TotalProofs.bad_tree = Resolve.Resolver.Panic s).
Proof. exact (Resolve.TotalProofs.total_example Gen.GenResolve.gen_rflags). Qed.

Print Assumptions C07_resolver_total.
Print Assumptions C07_order_total.
Print Assumptions C07_resolver_total_witness.

(* ---- the type checker (model: coq/Types/Tc.v; proofs: coq/Types/NoPanic.v) ------------------------------------ *)
From Sylt Require Types.TyGraph Types.Tc Types.NoPanic.

(* C07_checker_no_panic.  `input_ok r` (computable, Types/NoPanic.v) is what name resolution guarantees of its
   output: every variable id the checker indexes `self.variables` with (reads, definitions, parameters, case bindings,
   type names in annotations and instantiations, `self`, the start variable) is an index of the variable table; an
   index expression is an integer literal; there is no BinOp::Nop and no `if` without branches; the outer statements
   are blob / enum / definition / external-definition declarations.  Then no Panic site of the model is reachable, for
   any fuel: not `self.variables[..]` / `self.types[..]` out of bounds (the latter by the invariant that every type id
   stored in the graph is the id of a node: NoPanic.closed / dense, kept by every operation), not the `unreachable!()`s,
   not `branches.last().unwrap()`, not the field lookup of a blob instantiation (its keys are the keys the map was
   built from).  The type checker answers Ok, Err (the type carries a first error: never an empty list), or runs out
   of the fuel it was given.  The tie of C02-C05 / C08 evaluates input_ok on every input the real resolver produced
   (a false value is reported as a disagreement). *)
Theorem C07_checker_no_panic : forall fuel r,
  Sylt.Types.NoPanic.input_ok r = true -> forall p, Sylt.Types.Tc.typecheck fuel r <> Sylt.Types.TyGraph.Panic p.
Proof. exact Sylt.Types.NoPanic.typecheck_no_panic. Qed.

Theorem C07_checker_answers : forall fuel r,
  Sylt.Types.NoPanic.input_ok r = true ->
  Sylt.Types.Tc.typecheck fuel r = Sylt.Types.TyGraph.Ok tt
  \/ (exists e more, Sylt.Types.Tc.typecheck fuel r = Sylt.Types.TyGraph.Err e more)
  \/ Sylt.Types.Tc.typecheck fuel r = Sylt.Types.TyGraph.OutOfFuel.
Proof.
  intros fuel r H. pose proof (Sylt.Types.NoPanic.typecheck_no_panic fuel r H) as N.
  destruct (Sylt.Types.Tc.typecheck fuel r) as [[]| e more | p |]; [auto|right; left; eauto|exfalso; exact (N p eq_refl)|auto].
Qed.

(* non-vacuity: `start :: fn do x end` where x has an id outside the variable table does not satisfy input_ok, and on it
   the model does reach a Panic site; the same program with the id inside the table satisfies it *)
Definition c07_sp : Syntax.Resolved.span := Syntax.Resolved.mkSpan 0%N 1%N 1%N 1%N 2%N.
Definition c07_prog (x : N) : Syntax.Resolved.resolved :=
  Syntax.Resolved.mkResolved
    [Syntax.Resolved.mkVar 0%N "start" c07_sp true Syntax.Resolved.Const; Syntax.Resolved.mkVar 1%N "x" c07_sp true Syntax.Resolved.Const]
    [Syntax.Resolved.SDefinition "x" 1%N Syntax.Resolved.Const (Syntax.Resolved.TImplied c07_sp) (Syntax.Resolved.EInt (BinNums.Zpos BinNums.xH) c07_sp) c07_sp;
     Syntax.Resolved.SDefinition "start" 0%N Syntax.Resolved.Const (Syntax.Resolved.TImplied c07_sp)
       (Syntax.Resolved.EFunction "lambda" [] (Syntax.Resolved.TResolved Syntax.Resolved.BVoid c07_sp)
          [Syntax.Resolved.SStatementExpression (Syntax.Resolved.ERead x c07_sp) c07_sp] false c07_sp) c07_sp].

Example C07_checker_no_panic_witness :
  Sylt.Types.NoPanic.input_ok (c07_prog 1%N) = true
  /\ Sylt.Types.Tc.typecheck 40%nat (c07_prog 1%N) = Sylt.Types.TyGraph.Ok tt
  /\ Sylt.Types.NoPanic.input_ok (c07_prog 7%N) = false
  /\ Sylt.Types.Tc.typecheck 40%nat (c07_prog 7%N) = Sylt.Types.TyGraph.Panic Sylt.Types.TyGraph.PVarIndex.
Proof. vm_compute. auto. Qed.

Print Assumptions C07_checker_no_panic.
Print Assumptions C07_checker_answers.
Print Assumptions C07_checker_no_panic_witness.

(* note (types agent, /repo 356c2fa): C07_checker_no_panic excludes Panic, not OutOfFuel.  The one place where the
   constraint solving of the checker could grow a type without bound was fn div_res on a tuple whose unknown result is one
   of its own components (C07-divres-endless-inference: a native stack overflow); it is now refused by the occurs check
   (Tc.divres_body calls check_not_inside first; C03 plants cyclic-tuple-div..., corpus/c03/divres_own_component.sy). *)
