(* The parser's AST as the name resolver consumes it: a mirror of the public types of sylt-parser
   (parser.rs: AST, Module, Identifier, Assignable, TypeAssignable, Type, TypeConstraint;
   expression.rs: Expression, IfBranch, CaseBranch; statement.rs: Statement, NameIdentifier) with
   spans.  Filled from the real parser through the `treef` harness subcommand
   (ocaml/past_reader.ml).  Definitions only. *)
From Coq Require Import String List NArith ZArith Bool.
From Sylt Require Import Syntax.Resolved.
Import ListNotations.

(* sylt_common::FileOrLib; a path is kept as the text `Path::display` prints *)
Inductive file_or_lib := File (path : string) | Lib (name : string).

Record ident := mkIdent { i_name : string; i_span : span }.

(* TypeAssignable *)
Inductive ptassign :=
| TARead (i : ident) (sp : span)
| TAAccess (t : ptassign) (i : ident) (sp : span).

(* Type / TypeKind *)
Inductive pty :=
| PTImplied (sp : span)
| PTResolved (b : basety) (sp : span)
| PTUser (t : ptassign) (args : list pty) (sp : span)
| PTFn (constraints : list (string * list tconstraint)) (params : list pty) (ret : pty) (is_pure : bool) (sp : span)
| PTTuple (ts : list pty) (sp : span)
| PTList (t : pty) (sp : span)
| PTGeneric (name : string) (sp : span)
| PTGrouping (t : pty) (sp : span).

Inductive cmpkind := CKEquals | CKNotEquals | CKGreater | CKGreaterEqual | CKLess | CKLessEqual.
Inductive assignop := OpNop | OpAdd | OpSub | OpMul | OpDiv.

(* NameIdentifier of a `use` *)
Inductive usename := Implicit (i : ident) | Alias (i : ident).

Inductive pexpr :=
| PGet (a : passign) (sp : span)
| PAdd (a b : pexpr) (sp : span)
| PSub (a b : pexpr) (sp : span)
| PMul (a b : pexpr) (sp : span)
| PDiv (a b : pexpr) (sp : span)
| PNeg (a : pexpr) (sp : span)
| PComparison (a : pexpr) (k : cmpkind) (b : pexpr) (sp : span)
| PAssertEq (a b : pexpr) (sp : span)
| PAnd (a b : pexpr) (sp : span)
| POr (a b : pexpr) (sp : span)
| PNot (a : pexpr) (sp : span)
| PParenthesis (a : pexpr) (sp : span)
| PIf (branches : list pifbranch) (sp : span)
| PCase (to_match : pexpr) (branches : list pcasebranch) (fall_through : option (list pstmt)) (sp : span)
| PFunction (name : string) (params : list (ident * pty)) (ret : pty) (body : list pstmt) (pure : bool) (sp : span)
| PBlob (blob : ptassign) (fields : list (string * pexpr)) (sp : span)
| PTuple (values : list pexpr) (sp : span)
| PList (values : list pexpr) (sp : span)
| PFloat (repr : string) (sp : span)
| PInt (z : Z) (sp : span)
| PStr (s : string) (sp : span)
| PBool (b : bool) (sp : span)
| PNil (sp : span)
with passign :=
| ARead (i : ident) (sp : span)
| AVariant (enum_ass : passign) (variant : ident) (value : pexpr) (sp : span)
| ACall (f : passign) (args : list pexpr) (sp : span)
| AArrowCall (extra : pexpr) (f : passign) (args : list pexpr) (sp : span)
| AAccess (a : passign) (field : ident) (sp : span)
| AIndex (a : passign) (index : pexpr) (sp : span)
| AExpression (e : pexpr) (sp : span)
with pifbranch :=
| PIfBranch (condition : option pexpr) (body : list pstmt) (sp : span)
with pcasebranch :=
| PCaseBranch (pattern : ident) (variable : option ident) (body : list pstmt)
with pstmt :=
| PUse (path : ident) (name : usename) (file : file_or_lib) (sp : span)
| PFromUse (path : ident) (imports : list (ident * option ident)) (file : file_or_lib) (sp : span)
| PBlobDef (name : ident) (variables : list ident)
           (fields : list (ident * pty))       (* HashMap<Identifier, Type> in the code; sorted by name here *)
           (external : bool) (sp : span)
| PEnumDef (name : ident) (variables : list ident)
           (variants : list (ident * pty))     (* HashMap<Identifier, Type> in the code; sorted by name here *)
           (sp : span)
| PAssignment (op : assignop) (target : passign) (value : pexpr) (sp : span)
| PDefinition (i : ident) (kind : varkind) (t : pty) (value : pexpr) (sp : span)
| PExternalDefinition (i : ident) (kind : varkind) (t : pty) (sp : span)
| PLoop (condition : pexpr) (body : pstmt) (sp : span)
| PBreak (sp : span)
| PContinue (sp : span)
| PRet (value : option pexpr) (sp : span)
| PBlock (statements : list pstmt) (sp : span)
| PStatementExpression (value : pexpr) (sp : span)
| PUnreachable (sp : span)
| PEmptyStatement (sp : span).

Record pmodule := mkModule { m_file : file_or_lib; m_file_id : N; m_stmts : list pstmt }.

(* sylt_parser::AST: the modules in the order `tree` produced them *)
Definition past := list pmodule.

Definition pstmt_span (s : pstmt) : span :=
  match s with
  | PUse _ _ _ sp | PFromUse _ _ _ sp | PBlobDef _ _ _ _ sp | PEnumDef _ _ _ sp | PAssignment _ _ _ sp
  | PDefinition _ _ _ _ sp | PExternalDefinition _ _ _ sp | PLoop _ _ sp | PBreak sp | PContinue sp
  | PRet _ sp | PBlock _ sp | PStatementExpression _ sp | PUnreachable sp | PEmptyStatement sp => sp
  end.

Definition passign_span (a : passign) : span :=
  match a with
  | ARead _ sp | AVariant _ _ _ sp | ACall _ _ sp | AArrowCall _ _ _ sp | AAccess _ _ sp | AIndex _ _ sp
  | AExpression _ sp => sp
  end.

Definition ptassign_span (t : ptassign) : span :=
  match t with TARead _ sp | TAAccess _ _ sp => sp end.

Definition pty_span (t : pty) : span :=
  match t with
  | PTImplied sp | PTResolved _ sp | PTUser _ _ sp | PTFn _ _ _ _ sp | PTTuple _ sp | PTList _ sp
  | PTGeneric _ sp | PTGrouping _ sp => sp
  end.

Definition usename_ident (n : usename) : ident := match n with Implicit i | Alias i => i end.

(* fn is_function_literal (name_resolution.rs): a function literal, possibly inside redundant parentheses *)
Fixpoint is_function (e : pexpr) : bool :=
  match e with
  | PFunction _ _ _ _ _ _ => true
  | PParenthesis x _ => is_function x
  | _ => false
  end.

Definition fol_eqb (a b : file_or_lib) : bool :=
  match a, b with
  | File p, File q => String.eqb p q
  | Lib p, Lib q => String.eqb p q
  | _, _ => false
  end.

Definition span_eqb (a b : span) : bool :=
  N.eqb (sp_file a) (sp_file b) && N.eqb (sp_line0 a) (sp_line0 b) && N.eqb (sp_line1 a) (sp_line1 b)
  && N.eqb (sp_col0 a) (sp_col0 b) && N.eqb (sp_col1 a) (sp_col1 b).
