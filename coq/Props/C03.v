(* C03 -- Type mismatches are rejected at compile time.
   Only pinned statements, `exact`, Examples by vm_compute, and Print Assumptions. *)
From Coq Require Import String List NArith ZArith PArith Bool FMapPositive.
From Sylt Require Import Syntax.Resolved Types.TyGraph Types.Tc Types.Ctx Types.TcInv Types.Reject Types.Mismatch.
Import ListNotations.
Local Open Scope string_scope.

(* Placement.  For every mismatch of the listed kinds (bad_expr / bad_stmt: an arithmetic or ordering
   operator on incompatible literal types, == between different types, not / and / or on a non-bool, unary
   minus on a non-number, calling a non-function, calling a function expression with the wrong number of
   arguments, a returned value contradicting the declared return type, a non-bool if / loop condition, a
   heterogeneous list, a value contradicting the declared type of the variable it initialises, a compound
   assignment `x op= x` on a type without that operator) and every one-hole program
   context P (every syntactic position inside the value of any top-level definition, at any depth -
   operand, argument, list / tuple element, blob field initialiser, condition, branch, loop body, function
   and closure body, case arm, unused expression statement - or a top-level definition itself), every fuel
   and every variable table: the type checker does not return Ok. *)
Theorem C03_placement : forall (e : expr) (st : stmt) (P : pctx) (fuel : nat) (vars : list var),
  bad_expr e -> bad_stmt st ->
  typecheck fuel (mkResolved vars (plug_p e st P)) <> Ok tt.
Proof. exact Mismatch.C03_placement. Qed.

(* The same for an expression mismatch in any expression position or as an unused expression statement. *)
Theorem C03_placement_expr : forall e sp P fuel vars,
  bad_expr e -> typecheck fuel (mkResolved vars (plug_p e (SStatementExpression e sp) P)) <> Ok tt.
Proof. exact Mismatch.C03_placement_expr. Qed.

(* Propagation alone, for any filler: if the checker rejects the filler in the TypeCtx it has at the hole
   (in every well-formed state, with every fuel), it rejects the plugged expression / statement. *)
Theorem C03_propagation : forall kinds G (PG : gpres G) he hs f,
  (forall C ctx s, wf s -> at_e (rej_e kinds G he) (rej_s kinds G hs) C ctx ->
                   notok (r_expr (afix kinds G f) (plug_e he hs C) ctx s)) /\
  (forall C ctx s, wf s -> at_s (rej_e kinds G he) (rej_s kinds G hs) C ctx ->
                   notok (r_stmt (afix kinds G f) (plug_s he hs C) ctx s)).
Proof. exact Reject.placement_gen. Qed.

(* No output on error: the model of compile produces Lua only when the type checker returned Ok. *)
Theorem C03_no_output_on_error : forall {L} (lower : resolved -> L) fuel r,
  (forall lua, compile_after_order lower fuel r = COk lua -> typecheck fuel r = Ok tt /\ lua = lower r) /\
  (forall e more, compile_after_order lower fuel r = CErr e more -> typecheck fuel r = Err e more) /\
  (typecheck fuel r <> Ok tt -> forall lua, compile_after_order lower fuel r <> COk lua).
Proof. intros L. exact (@Reject.no_output_on_error L). Qed.

Theorem C03_no_output : forall {L} (lower : resolved -> L) e st P fuel vars,
  bad_expr e -> bad_stmt st ->
  forall lua, compile_after_order lower fuel (mkResolved vars (plug_p e st P)) <> COk lua.
Proof. intros L. exact (@Mismatch.C03_no_output L). Qed.

(* The invariants of the type graph the local rejection lemmas rest on (DESIGN 2.4). *)
Theorem C03_rep_idempotent_in_range : forall s i r,
  wf s -> rep s i = Some r -> rep s r = Some r /\ (r < next s)%positive.
Proof. exact TcInv.rep_idempotent_in_range. Qed.

Theorem C03_reachable_wf : forall fuel kinds stmts start nvars a s',
  (bind (init_vars nvars) (fun _ => solve kinds (gfix fuel) (afix kinds (gfix fuel) fuel) stmts start)) empty_st = Ok (a, s') ->
  wf s'.
Proof. exact TcInv.reachable_wf. Qed.

Theorem C03_push_keeps_classes : forall t s i s',
  wf s -> push_type t s = Ok (i, s') ->
  i = next s /\ (forall j n, lk s j = Some n -> lk s' j = Some n /\ rep s' j = rep s j /\ head s' j = head s j).
Proof. exact TcInv.push_keeps_classes. Qed.

Theorem C03_unify_same_rep : forall g sp a b s r s',
  wf s -> unify (gfix g) sp a b s = Ok (r, s') ->
  wf s' /\ ext s s' /\
  (exists q, rep s' a = Some q /\ rep s' b = Some q) /\
  (exists ha hb, head s a = Some ha /\ head s b = Some hb /\ (rep s a = rep s b \/ unify_compat ha hb)).
Proof. exact TcInv.unify_same_rep. Qed.

(* the occurs check of fn check_not_inside (/repo 1d60c01): a class whose type is still unknown does not unify with a
   tuple that has that class as a component (`y = (y, 1)`).  The operator checks (add / sub / mul / cmp / neg / div)
   recurse over the components of tuples; the only step that turns an unknown class into a tuple is this binding in
   sub_unify, and it is refused when the class is reachable from the tuple through tuple components alone, so the
   recursion of those checks is over a finite tree.  (Lists, blobs and enums may still be cyclic: the checks do not
   descend into them.)  Proved here: the one-step statement.  That no sequence of unifications builds a tuple-only
   cycle is the argument above, not a theorem; in the model such a cycle would show as OutOfFuel, which the
   differential tie never observed (planted kinds cyclic-tuple-...). *)
Theorem C03_occurs_check : forall g sp a b s tys c,
  wf s -> head s a = Some HUnknown -> head s b = Some (HTuple tys) ->
  In c tys -> rep s c = rep s a ->
  notok (unify (gfix g) sp a b s).
Proof. exact Mismatch.unify_occurs_rejected. Qed.

Theorem C03_head_stable : forall {A} (m : M A) s a s' i h,
  pres m -> wf s -> m s = Ok (a, s') -> head s i = Some h -> is_unknown h = false ->
  exists h', head s' i = Some h' /\ same_shape h h' = true.
Proof. intros A. exact (@TcInv.head_stable A). Qed.

Theorem C03_every_function_preserves : forall g kinds f,
  gpres (gfix g) /\ apres (afix kinds (gfix g) f).
Proof. intros. split; [apply gfix_pres|apply afix_pres, gfix_pres]. Qed.

(* ---- non-vacuity: a concrete program `start :: fn do <body> end` *)
Definition sp0 : span := mkSpan 0 1 1 1 2.
Definition spl (l : N) : span := mkSpan 0 l l 1 2.
Definition prog (body : list stmt) : resolved :=
  mkResolved [mkVar 0 "start" sp0 true Const; mkVar 1 "x" (spl 2) false Mutable]
             [SDefinition "start" 0 Const (TImplied sp0)
                          (EFunction "lambda" [] (TResolved BVoid sp0) body false sp0) sp0].

(* accepted: start :: fn do x := 1 + 2; if x > 1 do x = x * 2 end end *)
Example C03_example_accepts :
  typecheck 40 (prog [SDefinition "x" 1 Mutable (TImplied (spl 2)) (EBinOp Add (EInt 1 (spl 2)) (EInt 2 (spl 2)) (spl 2)) (spl 2);
                      SStatementExpression
                        (EIf [IfBranch (Some (EBinOp Greater (ERead 1 (spl 3)) (EInt 1 (spl 3)) (spl 3)))
                                       [SAssignment Nop (ERead 1 (spl 4)) (EBinOp Mul (ERead 1 (spl 4)) (EInt 2 (spl 4)) (spl 4)) (spl 4)]
                                       (spl 3)] (spl 3)) (spl 3)])
  = Ok tt.
Proof. vm_compute. reflexivity. Qed.

(* the hypotheses of the placement theorem are satisfiable, and the rejection is an Err with the expected
   kind and line: 1 + "a" planted in the condition of the `if` inside the function body *)
Example C03_example_bad : bad_expr (EBinOp Add (EInt 1 (spl 3)) (EStr "a" (spl 3)) (spl 3)).
Proof. eapply BadArith with (k := AAdd); reflexivity. Qed.

Example C03_example_rejects :
  typecheck 40 (prog [SDefinition "x" 1 Mutable (TImplied (spl 2)) (EInt 1 (spl 2)) (spl 2);
                      SStatementExpression
                        (EIf [IfBranch (Some (EBinOp Greater (EBinOp Add (EInt 1 (spl 3)) (EStr "a" (spl 3)) (spl 3))
                                                     (EInt 1 (spl 3)) (spl 3)))
                                       [] (spl 3)] (spl 3)) (spl 3)])
  = Err (mkErr KBinOp (spl 3)) [].
Proof. vm_compute. reflexivity. Qed.

Example C03_example_var_type : bad_stmt (SDefinition "x" 1 Mutable (TResolved BInt (spl 2)) (EStr "a" (spl 2)) (spl 2)).
Proof. eapply BadVarType; reflexivity. Qed.

Example C03_example_var_type_rejects :
  typecheck 40 (prog [SDefinition "x" 1 Mutable (TResolved BInt (spl 2)) (EStr "a" (spl 2)) (spl 2)])
  = Err (mkErr KMismatch (spl 2)) [].
Proof. vm_compute. reflexivity. Qed.

(* (fn a: int, b: int do end)(1): wrong arity, as an argument of a call inside a loop *)
Example C03_example_arity : bad_expr (ECall (EFunction "lambda" [("a", 2%N, spl 3, TResolved BInt (spl 3)); ("b", 3%N, spl 3, TResolved BInt (spl 3))]
                                                (TResolved BVoid (spl 3)) [] false (spl 3)) [EInt 1 (spl 3)] (spl 3)).
Proof. apply BadArity. cbn. discriminate. Qed.

(* fn -> int do ret "a" end *)
Example C03_example_ret_type : bad_expr (EFunction "lambda" [] (TResolved BInt (spl 3)) [SRet (Some (EStr "a" (spl 3))) (spl 3)] false (spl 3)).
Proof. eapply BadRetType; reflexivity. Qed.

Example C03_example_ret_type_rejects :
  typecheck 40 (prog [SStatementExpression (EFunction "lambda" [] (TResolved BInt (spl 3)) [SRet (Some (EStr "a" (spl 3))) (spl 3)] false (spl 3)) (spl 3)])
  = Err (mkErr KMismatch (spl 3)) [].
Proof. vm_compute. reflexivity. Qed.

(* do x := true ; x += x end *)
Example C03_example_compound_self :
  bad_stmt (SBlock [SDefinition "x" 1 Mutable (TImplied (spl 2)) (EBool true (spl 2)) (spl 2);
                    SAssignment Add (ERead 1 (spl 3)) (ERead 1 (spl 3)) (spl 3)] (spl 2)).
Proof. eapply BadCompoundSelf with (k := AAdd); try reflexivity. left. auto. Qed.

Example C03_example_compound_self_rejects :
  typecheck 40 (prog [SBlock [SDefinition "x" 1 Mutable (TImplied (spl 2)) (EBool true (spl 2)) (spl 2);
                              SAssignment Add (ERead 1 (spl 3)) (ERead 1 (spl 3)) (spl 3)] (spl 2)])
  = Err (mkErr KBinOp (spl 3)) [].
Proof. vm_compute. reflexivity. Qed.

(* the hypotheses of the unification theorems are satisfiable: two fresh variables unify *)
Example C03_example_unify : exists s r s', wf s /\ unify (gfix 5) sp0 1%positive 2%positive s = Ok (r, s').
Proof.
  assert (E : exists u s, init_vars 2 empty_st = Ok (u, s)) by (vm_compute; eauto).
  destruct E as (u & s & E). exists s.
  assert (W : wf s) by (eapply (pres_init_vars 2); [apply wf_empty|exact E]).
  vm_compute in E. injection E as _ <-. do 2 eexists. split; [exact W|]. vm_compute. reflexivity.
Qed.

Print Assumptions C03_placement.
Print Assumptions C03_placement_expr.
Print Assumptions C03_propagation.
Print Assumptions C03_no_output_on_error.
Print Assumptions C03_no_output.
Print Assumptions C03_rep_idempotent_in_range.
Print Assumptions C03_reachable_wf.
Print Assumptions C03_push_keeps_classes.
Print Assumptions C03_unify_same_rep.
Print Assumptions C03_head_stable.
Print Assumptions C03_occurs_check.
Print Assumptions C03_every_function_preserves.

(* ---- source tie: the hand-written model behind these theorems mirrors the files below; the digests of their
   functions regenerated from /repo on this run equal the reviewed ones (coq/Doc/DocSrcDigest.v).  Any edit of
   such a function breaks this obligation: the differential tie and the oracle then decide (tools/check.py). *)
From Sylt Require Doc.SrcDigest Doc.DocSrcDigest Gen.GenSrcDigest.
Theorem C03_model_sources_reviewed :
  Sylt.Doc.SrcDigest.sources_reviewed ["sylt-compiler/src/typechecker.rs"%string; "sylt-compiler/src/ty.rs"%string]
    Sylt.Doc.DocSrcDigest.doc_src_digests Sylt.Gen.GenSrcDigest.src_digests = true.
Proof. vm_compute. reflexivity. Qed.
Print Assumptions C03_model_sources_reviewed.
