(* The dependency order does not look at spans: `order` never inspects its payload (it is natural in it), the
   dependencies of a statement are variable ids, and the table is keyed by variable ids.  Hence
       init_order tgt (map er_s ss) = (the result of init_order tgt ss, with er_s applied to every statement)
   for the span erasure `er_s` of Back/SpanProofs.v. *)
From Coq Require Import String List NArith ZArith Bool Lia.
From Sylt Require Import Syntax.Resolved Dep.Deps Dep.Topo Back.SpanProofs.
Import ListNotations.

(* ---- `order` is natural in the payload ---- *)
Section Natural.
Context {A B : Type}.
Variable h : A -> B.

Definition tmap (t : table A) : table B := map (fun e => (fst e, (fst (snd e), h (snd (snd e))))) t.
Definition smap (st : dfs_state (A := A)) : dfs_state (A := B) := (fst st, map h (snd st)).
Definition dmap (r : dres (A := A)) : dres (A := B) :=
  match r with DOk st => DOk (smap st) | DCycle c => DCycle (map h c) | DOutOfFuel => DOutOfFuel end.
Definition omap (r : ores (A := A)) : ores (A := B) :=
  match r with OOk l => OOk (map h l) | OCycle c => OCycle (map h c) | OOutOfFuel => OOutOfFuel end.

Lemma tbl_get_map t k : tbl_get (tmap t) k = match tbl_get t k with Some v => Some (fst v, h (snd v)) | None => None end.
Proof.
  induction t as [|[k' v] t IH]; cbn; [reflexivity|]. destruct (N.eqb k k'); [reflexivity|exact IH].
Qed.

Lemma tbl_insert_map k d a t : tmap (tbl_insert k (d, a) t) = tbl_insert k (d, h a) (tmap t).
Proof.
  unfold tmap. induction t as [|[k' v] t IH]; cbn [tbl_insert map fst snd]; [reflexivity|].
  destruct (N.compare k k'); cbn [map fst snd]; [reflexivity|reflexivity|]. rewrite IH. reflexivity.
Qed.

Lemma for_deps_map (rec : N -> dfs_state -> dres (A := A)) (rec' : N -> dfs_state -> dres (A := B)) :
  (forall d st, rec' d (smap st) = dmap (rec d st)) ->
  forall deps st, for_deps rec' deps (smap st) = dmap (for_deps rec deps st).
Proof.
  intros H. induction deps as [|d ds IH]; intros st; cbn [for_deps]; [reflexivity|].
  rewrite H. destruct (rec d st) as [st'| |]; cbn [dmap]; [apply IH|reflexivity|reflexivity].
Qed.

Lemma recurse_map t : forall fuel g st, recurse fuel (tmap t) g (smap st) = dmap (recurse fuel t g st).
Proof.
  induction fuel as [|f IH]; intros g st; cbn [recurse]; [reflexivity|].
  rewrite tbl_get_map. destruct (tbl_get t g) as [[deps stmt]|]; [|reflexivity]. cbn [fst snd].
  change (fst (smap st)) with (fst st).
  destruct (status (fst st) g) as [[]|]; try reflexivity.
  change ((g, Inserting) :: fst st, snd (smap st)) with (smap ((g, Inserting) :: fst st, snd st)).
  rewrite (for_deps_map (recurse f t) (recurse f (tmap t)) IH).
  destruct (for_deps (recurse f t) deps ((g, Inserting) :: fst st, snd st)) as [st'|c|]; cbn [dmap]; try reflexivity.
  rewrite map_app. reflexivity.
Qed.

Lemma order_map t : order (tmap t) = omap (order t).
Proof.
  unfold order, order_fuel, tmap. rewrite map_length, map_map. cbn [fst].
  change (@nil (N * dstate), @nil B) with (smap (@nil (N * dstate), @nil A)).
  fold (tmap t).
  rewrite (for_deps_map (recurse (S (length t)) t) (recurse (S (length t)) (tmap t)) (recurse_map t (S (length t)))).
  destruct (for_deps (recurse (S (length t)) t) (map fst t) ([], [])) as [st'|c|]; cbn [dmap omap]; try reflexivity.
  cbn [smap snd]. rewrite map_rev. reflexivity.
Qed.

End Natural.

(* ---- dependencies are variable ids ---- *)
Lemma unions_map {X Y} (f : Y -> nset) (f' : X -> nset) (k : X -> Y) l :
  (forall x, In x l -> f (k x) = f' x) -> unions f (map k l) = unions f' l.
Proof.
  induction l as [|x l IH]; intros H; cbn; [reflexivity|].
  rewrite (H x (or_introl eq_refl)), IH; [reflexivity|]. intros y Hy. apply H. right. exact Hy.
Qed.

Lemma ty_dependency_er : forall t, ty_dependency (er_ty t) = ty_dependency t.
Proof.
  fix IH 1. intros t. destruct t; cbn [er_ty ty_dependency]; try reflexivity.
  - f_equal. induction args as [|a l IHl]; cbn; [reflexivity|]. rewrite IH, IHl. reflexivity.
  - induction ts as [|a l IHl]; cbn; [reflexivity|]. rewrite IH, IHl. reflexivity.
  - apply IH.
  - rewrite IH. f_equal. induction params as [|a l IHl]; cbn; [reflexivity|]. rewrite IH, IHl. reflexivity.
Qed.

Lemma is_function_expr_er e : is_function_expr (er_e e) = is_function_expr e.
Proof. destruct e; reflexivity. Qed.

Lemma deps_er_e tgt : forall e, dependencies tgt (er_e e) = dependencies tgt e
with deps_er_s tgt : forall s, statement_dependencies tgt (er_s s) = statement_dependencies tgt s.
Proof.
  - destruct e; cbn [er_e dependencies]; try reflexivity.
    + now rewrite deps_er_e.
    + rewrite deps_er_e. f_equal.
      induction args as [|a l IH]; cbn; [reflexivity|]. now rewrite deps_er_e, IH.
    + now rewrite deps_er_e.
    + now rewrite !deps_er_e.
    + now rewrite !deps_er_e.
    + now rewrite deps_er_e.
    + induction branches as [|b l IH]; cbn; [reflexivity|]. rewrite IH. f_equal.
      destruct b as [c body sp0']. cbn. f_equal.
      * destruct c; [apply deps_er_e|reflexivity].
      * induction body as [|a l' IH']; cbn; [reflexivity|]. now rewrite deps_er_s, IH'.
    + rewrite deps_er_e. f_equal. f_equal.
      * destruct fall_through as [l|]; [|reflexivity].
        induction l as [|a l' IH']; cbn; [reflexivity|]. now rewrite deps_er_s, IH'.
      * induction branches as [|b l IH]; cbn; [reflexivity|]. rewrite IH. f_equal.
        destruct b. cbn. induction body as [|a l' IH']; cbn; [reflexivity|]. now rewrite deps_er_s, IH'.
    + induction body as [|a l IH]; cbn; [reflexivity|]. now rewrite deps_er_s, IH.
    + f_equal. induction fields as [|[k a] l IH]; cbn; [reflexivity|]. cbn in IH. now rewrite deps_er_e, IH.
    + induction values as [|a l IH]; cbn; [reflexivity|]. now rewrite deps_er_e, IH.
  - destruct s; cbn [er_s statement_dependencies]; try reflexivity.
    + now rewrite !deps_er_e.
    + rewrite deps_er_e, ty_dependency_er, is_function_expr_er. reflexivity.
    + rewrite deps_er_e. f_equal. induction body as [|a l IH]; cbn; [reflexivity|]. now rewrite deps_er_s, IH.
    + destruct value as [v|]; [apply deps_er_e|reflexivity].
    + induction statements as [|a l IH]; cbn; [reflexivity|]. now rewrite deps_er_s, IH.
    + apply deps_er_e.
Qed.

Lemma defined_var_er s : defined_var (er_s s) = defined_var s.
Proof. destruct s; reflexivity. Qed.

Lemma is_type_stmt_er s : is_type_stmt (er_s s) = is_type_stmt s.
Proof. destruct s; reflexivity. Qed.

Lemma build_table_er tgt ss : forall t,
  build_table tgt (map er_s ss) (tmap er_s t) = tmap er_s (build_table tgt ss t).
Proof.
  induction ss as [|s ss IH]; intros t; cbn [map build_table]; [reflexivity|].
  rewrite defined_var_er, deps_er_s. destruct (defined_var s) as [v|]; [|apply IH].
  rewrite <- tbl_insert_map. apply IH.
Qed.

Lemma filter_map_comm {X Y} (p : Y -> bool) (k : X -> Y) l : filter p (map k l) = map k (filter (fun x => p (k x)) l).
Proof. induction l as [|x l IH]; cbn; [reflexivity|]. destruct (p (k x)); cbn; rewrite IH; reflexivity. Qed.

Lemma types_first_er l : types_first (map er_s l) = map er_s (types_first l).
Proof.
  unfold types_first. rewrite !filter_map_comm, map_app. f_equal; f_equal; apply filter_ext; intros s;
    rewrite is_type_stmt_er; reflexivity.
Qed.

(* init_order_ignores_spans *)
Theorem init_order_er tgt ss : init_order tgt (map er_s ss) = omap er_s (init_order tgt ss).
Proof.
  unfold init_order, initialization_order.
  pose proof (build_table_er tgt ss []) as E. cbn [tmap map] in E. rewrite E, order_map.
  destruct (order (build_table tgt ss [])) as [l|c|]; cbn [omap]; try reflexivity.
  rewrite types_first_er. reflexivity.
Qed.

(* two programs equal modulo spans are ordered alike: both accepted with orders equal modulo spans, or both
   rejected with cycles equal modulo spans *)
Corollary init_order_same_modulo_spans tgt r1 r2 :
  same_modulo_spans r1 r2 ->
  omap er_s (init_order tgt (r_stmts r1)) = omap er_s (init_order tgt (r_stmts r2)).
Proof.
  unfold same_modulo_spans, er. intros H. injection H as _ Hs. rewrite <- !init_order_er, Hs. reflexivity.
Qed.
