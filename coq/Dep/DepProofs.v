(* The DFS theorems of Dep/TopoProofs.v instantiated to top-level statements
   (`initialization_order` of dependency.rs), independence of the input order, and the completeness of
   the dependency sets (`deps_complete`). *)
From Coq Require Import String List NArith ZArith Bool Lia Arith Permutation Relations Sorted.
From Sylt Require Import Syntax.Resolved Dep.Deps Dep.Topo Dep.TopoProofs.
Import ListNotations.

(* the variable a defining statement defines (0 for the others, which never enter the table) *)
Definition key_of_stmt (s : stmt) : N := match defined_var s with Some v => v | None => 0%N end.

(* the variables defined by a list of top-level statements *)
Definition dvars (ss : list stmt) : list N :=
  flat_map (fun s => match defined_var s with Some v => [v] | None => [] end) ss.

Section Build.
Variable tgt : bool.

Lemma build_table_sorted ss t : keys_sorted t -> keys_sorted (build_table tgt ss t).
Proof.
  revert t. induction ss as [|s ss IH]; cbn; intros t H; [assumption|].
  destruct (defined_var s); apply IH; [apply tbl_insert_sorted|]; assumption.
Qed.

Lemma build_table_key ss t :
  (forall k deps a, tbl_get t k = Some (deps, a) -> key_of_stmt a = k) ->
  forall k deps a, tbl_get (build_table tgt ss t) k = Some (deps, a) -> key_of_stmt a = k.
Proof.
  revert t. induction ss as [|s ss IH]; cbn; intros t H; [assumption|].
  destruct (defined_var s) as [v|] eqn:E; apply IH; [|assumption].
  intros k deps a Hget. destruct (N.eq_dec k v) as [->|Hne].
  - rewrite tbl_get_insert_same in Hget. inversion Hget; subst. unfold key_of_stmt. rewrite E. reflexivity.
  - rewrite tbl_get_insert_other in Hget by assumption. eauto.
Qed.

(* every table entry is (the dependencies of s, s) for an input statement s defining that key *)
Lemma build_table_entry ss t :
  (forall k deps a, tbl_get t k = Some (deps, a) -> deps = statement_dependencies tgt a) ->
  forall k deps a, tbl_get (build_table tgt ss t) k = Some (deps, a) -> deps = statement_dependencies tgt a.
Proof.
  revert t. induction ss as [|s ss IH]; cbn; intros t H; [assumption|].
  destruct (defined_var s) as [v|] eqn:E; apply IH; [|assumption].
  intros k deps a Hget. destruct (N.eq_dec k v) as [->|Hne].
  - rewrite tbl_get_insert_same in Hget. inversion Hget; subst. reflexivity.
  - rewrite tbl_get_insert_other in Hget by assumption. eauto.
Qed.

Lemma build_table_keys ss t k :
  In k (map fst (build_table tgt ss t)) <-> In k (dvars ss) \/ In k (map fst t).
Proof.
  revert t. induction ss as [|s ss IH]; cbn; intros t; [intuition|].
  destruct (defined_var s) as [v|] eqn:E; rewrite IH; cbn.
  - rewrite tbl_insert_keys. intuition.
  - intuition.
Qed.

Lemma build_table_from ss t k deps a :
  NoDup (dvars ss) -> (forall x, In x (dvars ss) -> ~ In x (map fst t)) ->
  tbl_get (build_table tgt ss t) k = Some (deps, a) ->
  tbl_get t k = Some (deps, a) \/ (In a ss /\ defined_var a = Some k).
Proof.
  revert t. induction ss as [|s ss IH]; intros t Hnd Hdis Hget; [left; assumption|].
  cbn [build_table] in Hget. cbn [dvars flat_map] in Hnd, Hdis. fold (dvars ss) in Hnd, Hdis.
  destruct (defined_var s) as [v|] eqn:E.
  - cbn in Hnd. inversion Hnd as [|? ? Hni Hnd']; subst.
    assert (Hdis' : forall x, In x (dvars ss) ->
                       ~ In x (map fst (tbl_insert v (statement_dependencies tgt s, s) t))).
    { intros x Hx Hin. apply tbl_insert_keys in Hin as [Hin|Hin].
      - subst x. contradiction.
      - eapply Hdis; [|exact Hin]. cbn. right. exact Hx. }
    destruct (IH _ Hnd' Hdis' Hget) as [H|[H1 H2]].
    + destruct (N.eq_dec k v) as [->|Hne].
      * rewrite tbl_get_insert_same in H. inversion H; subst. right. split; [left; reflexivity|assumption].
      * rewrite tbl_get_insert_other in H by assumption. left. assumption.
    + right. split; [right; assumption|assumption].
  - assert (Hdis' : forall x, In x (dvars ss) -> ~ In x (map fst t)).
    { intros x Hx. apply Hdis. cbn. exact Hx. }
    destruct (IH _ Hnd Hdis' Hget) as [H|[H1 H2]]; [left; assumption|right; split; [right|]; assumption].
Qed.

(* ---- independence of the order of the input ---- *)

Lemma dvars_perm l l' : Permutation l l' -> Permutation (dvars l) (dvars l').
Proof. intros H. unfold dvars. apply Permutation_flat_map. exact H. Qed.

Lemma build_table_perm l l' :
  Permutation l l' -> NoDup (dvars l) -> forall t, build_table tgt l t = build_table tgt l' t.
Proof.
  induction 1 as [|x l l' Hp IH|x y l|l l' l'' H1 IH1 H2 IH2]; intros Hnd t.
  - reflexivity.
  - cbn. destruct (defined_var x) eqn:E; apply IH; cbn in Hnd; rewrite E in Hnd; cbn in Hnd.
    + inversion Hnd; assumption.
    + assumption.
  - cbn. destruct (defined_var x) as [v|] eqn:Ex, (defined_var y) as [w|] eqn:Ey; try reflexivity.
    rewrite tbl_insert_comm; [reflexivity|].
    cbn in Hnd. rewrite Ex, Ey in Hnd. cbn in Hnd. inversion Hnd as [|? ? Hni _]; subst.
    intros ->. apply Hni. left. reflexivity.
  - rewrite IH1 by assumption. apply IH2. eapply Permutation_NoDup; [apply dvars_perm; exact H1|assumption].
Qed.

(* The whole result (not only acceptance) depends only on the SET of statements, not on their order. *)
Theorem init_order_perm l l' :
  Permutation l l' -> NoDup (dvars l) -> init_order tgt l = init_order tgt l'.
Proof.
  intros Hp Hnd. unfold init_order, initialization_order. rewrite (build_table_perm l l' Hp Hnd). reflexivity.
Qed.

(* ---- soundness and completeness of the order for statements ---- *)

Definition table_of (ss : list stmt) : table stmt := build_table tgt ss [].

Lemma table_of_key ss k deps a : tbl_get (table_of ss) k = Some (deps, a) -> key_of_stmt a = k.
Proof. apply build_table_key. cbn. discriminate. Qed.

Lemma table_of_nodup ss : NoDup (map fst (table_of ss)).
Proof. apply keys_sorted_nodup. apply build_table_sorted. constructor. Qed.

(* g depends on d: d is in the dependency set of the statement defining g, and d is itself defined *)
Definition dep_edge (ss : list stmt) : N -> N -> Prop := edge (table_of ss).
Definition dep_cycle (ss : list stmt) : Prop := has_cycle (table_of ss).

Theorem topo_sound ss l :
  NoDup (dvars ss) ->
  initialization_order tgt ss = OOk l ->
  (* a permutation of the defining statements *)
  Permutation (map key_of_stmt l) (dvars ss)
  /\ (forall s, In s l -> In s ss /\ defined_var s = Some (key_of_stmt s))
  (* every statement comes after all the definitions it depends on *)
  /\ (forall l1 s l2 d, l = l1 ++ s :: l2 -> In d (statement_dependencies tgt s) -> In d (dvars ss) ->
                        exists s', In s' l1 /\ defined_var s' = Some d).
Proof.
  intros Hnd H. unfold initialization_order in H.
  destruct (order_sound key_of_stmt (table_of ss) (table_of_key ss) l (table_of_nodup ss) H) as (Hperm & Hpay & Hord).
  assert (Hfrom : forall k deps a, tbl_get (table_of ss) k = Some (deps, a) -> In a ss /\ defined_var a = Some k).
  { intros k deps a Hget. destruct (build_table_from ss [] k deps a Hnd ltac:(cbn; auto) Hget) as [Hx|Hx]; [discriminate|assumption]. }
  split; [|split].
  - eapply Permutation_trans; [exact Hperm|]. apply NoDup_Permutation; [apply table_of_nodup|assumption|].
    intros k. unfold table_of. rewrite build_table_keys. cbn. intuition.
  - intros s Hs. destruct (Hpay s Hs) as (deps & Hget). destruct (Hfrom _ _ _ Hget) as [H1 H2]. split; [assumption|].
    rewrite H2. unfold key_of_stmt. rewrite H2. reflexivity.
  - intros l1 s l2 d Hsplit Hin Hd.
    assert (Hs : In s l) by (rewrite Hsplit; apply in_or_app; right; left; reflexivity).
    destruct (Hpay s Hs) as (deps & Hget).
    assert (deps = statement_dependencies tgt s) as -> by (eapply build_table_entry; [|exact Hget]; cbn; discriminate).
    assert (Hkd : is_key (table_of ss) d).
    { apply in_keys_tbl_get. unfold table_of. apply build_table_keys. left. assumption. }
    specialize (Hord _ _ _ _ _ Hsplit Hget Hin Hkd). apply in_map_iff in Hord as (s' & Hk & Hin').
    exists s'. split; [assumption|].
    assert (Hs' : In s' l) by (rewrite Hsplit; apply in_or_app; left; assumption).
    destruct (Hpay s' Hs') as (deps' & Hget'). destruct (Hfrom _ _ _ Hget') as [_ H2]. rewrite H2, Hk. reflexivity.
Qed.

(* Err (a dependency cycle is reported) iff the dependency graph has a cycle; never OutOfFuel *)
Theorem topo_complete ss :
  ((exists c, initialization_order tgt ss = OCycle c) <-> dep_cycle ss)
  /\ initialization_order tgt ss <> OOutOfFuel.
Proof.
  split.
  - apply (order_cycle_iff key_of_stmt (table_of ss) (table_of_key ss) (table_of_nodup ss)).
  - apply (order_fuel_enough key_of_stmt (table_of ss) (table_of_key ss)).
Qed.

(* acceptance is invariant under any permutation of the top-level statements *)
Theorem order_accept_perm l l' :
  Permutation l l' -> NoDup (dvars l) ->
  ((exists o, init_order tgt l = OOk o) <-> (exists o, init_order tgt l' = OOk o)).
Proof. intros Hp Hnd. rewrite (init_order_perm l l' Hp Hnd). reflexivity. Qed.

End Build.

(* the types-first sort: every statement in front of a blob/enum is itself a blob/enum *)
Lemma types_first_spec ss l1 s l2 :
  types_first ss = l1 ++ s :: l2 -> is_type_stmt s = true -> forall x, In x l1 -> is_type_stmt x = true.
Proof.
  unfold types_first. intros H Hs x Hx.
  set (ty := filter is_type_stmt ss) in *. set (va := filter (fun s => negb (is_type_stmt s)) ss) in *.
  assert (Hty : forall y, In y ty -> is_type_stmt y = true) by (intros y Hy; apply filter_In in Hy; tauto).
  assert (Hva : forall y, In y va -> is_type_stmt y = false).
  { intros y Hy. apply filter_In in Hy as [_ Hy]. apply negb_true_iff in Hy. exact Hy. }
  clearbody ty va. revert l1 H Hx. induction ty as [|t ty IH]; intros l1 H Hx.
  - cbn in H. assert (In s va) by (rewrite H; apply in_or_app; right; left; reflexivity).
    rewrite (Hva s) in Hs by assumption. discriminate.
  - destruct l1 as [|y l1]; [destruct Hx|]. cbn in H. injection H as E1 E2. destruct Hx as [<-|Hx].
    + subst. apply Hty. left. reflexivity.
    + eapply IH; eauto. intros z Hz. apply Hty. right. assumption.
Qed.

(* the ordering always answers: an order or a cycle (its table lookups return "not a definition" for an
   unknown variable, it never indexes a missing entry; and `S (length table)` fuel is enough) *)
Theorem order_total tgt ss :
  (exists l, initialization_order tgt ss = OOk l) \/ (exists c, initialization_order tgt ss = OCycle c).
Proof.
  destruct (topo_complete tgt ss) as [_ Hf].
  destruct (initialization_order tgt ss) as [l|c|]; [left; eauto|right; eauto|contradiction Hf; reflexivity].
Qed.
