From Sylt Require Import Syntax.Ast Syntax.Tok Parse.PrecTable Gen.GenPrec.
Eval vm_compute in prec_table_ok table.
Eval vm_compute in (pt_prec (interp table) (TK KStar), pt_unary_level (interp table), pt_entry (interp table)).
