(* C01 -- compiled Lua behaves as the Sylt source denotes.

   WHAT IS A THEOREM (all programs of the fragment, all inputs, any fuel):
     C01_fragment_preservation -- semantic preservation of the backend model (Back/IR.v `lower` + the AST
     twin Pres/EmitAst.v of the text emitter Back/Emit.v) with respect to the reference interpreter
     Sem/SyltSem.v (source side) and the Lua 5.3 interpreter model Lua/LuaCore.v (target side), for the
     computable fragment Pres/Frag.v `frag` (STAGE 4l: int/bool/string expressions, print, definitions, assignments
     = += -= *=, if/elif/else expressions and statements, loops with break and continue, blocks, inside
     top-level functions; the outer definitions (global values and FUNCTIONS with parameters, `start` among them, in any
     order the resolver gives them),
     called by name, recursion included; the value of a function is that of its last expression or of an
     early `ret e`, also from inside if-branches and loops; LOCAL FUNCTIONS in any statement list (function bodies,
     blocks, loop bodies -- every pass its own closure over its own locals --, if-branches), nested to any depth, that capture the variables of the enclosing functions, MUTABLE locals included -- the
     closure and its definer share the variable and see each other's later assignments, every activation has its
     own locals -- called by name, and passed BY NAME to parameters of function type, where they are called or
     passed on, and LAMBDA expressions in argument position: FUNCTIONS AS ARGUMENTS; FUNCTIONS THAT RETURN FUNCTIONS -- a
     lambda as the last expression of the body is a new closure per call over that call's parameters and locals, which
     outlive the call; the returned function is passed to a parameter of function type, returned again, or named by a
     constant  c :: mkc(0)  and then called and passed on by that name, or called where it is computed: mk(1)(2)).  The Lua side runs the statements of the
     REAL preamble.lua (Gen/GenPreamble.v, regenerated on every run) followed by the program's statements.
   WHAT IS CHECKED AT RUN TIME, per program of the tie (tools/props/c01.py):
     * component "emit_ast": LuaParse.parse_lua Lua53 (real compiler output) = ParseOk (chunk_ast code), i.e. the
       abstract syntax the theorem speaks about IS what the real compiler printed (hypothesis of
       C01_fragment_preservation_text below);
     * the byte tie of Back/IR.v + Back/Emit.v with the real compiler (C10/C06);
     * outside the fragment: translation validation (reference interpreter vs LuaCore on the real chunk).
   WHAT IS NOT PROVED: the full statement C01_full_statement (kept visible below). *)
From Coq Require Import String List NArith ZArith Bool.
From Sylt Require Import Syntax.Resolved Back.IR Back.Emit Sem.SyltSem Lua.LuaAst Lua.LuaParse Lua.LuaCore.
From Sylt Require Import Gen.GenPreamble Pres.EmitAst Pres.Frag Pres.Tie Pres.PresProofs.
Import ListNotations.

(* the correspondence of final outcomes: a failed <=> and a reached <!> are Lua errors *)
Definition same_final := PresProofs.same_final.
Definition good_final := PresProofs.good_final.

(* "for every accepted program in the core fragment, if the reference interpreter terminates with a
   trace and a final outcome, then the emitted chunk (preamble ++ text), run in the Lua interpreter
   model with enough fuel, prints the same lines and ends the same way" -- NOT proved in general *)
Definition C01_full_statement (preamble : string) : Prop :=
  forall (r : resolved) (text : string) (n : nat) (res : SyltSem.run_result),
    backend n None r = Ok text ->
    SyltSem.run n r = res ->
    good_final (r_final res) ->
    exists m, let out := LuaCore.run Lua53 m (preamble ++ text) in
              o_trace out = r_trace res /\ same_final (r_final res) (o_final out).

(* ---- the theorem for the fragment ---- *)

(* chunk_ast code = the statements of preamble.lua (as LuaParse reads GenPreamble.preamble_src) ++ emit_ast code *)
Theorem C01_fragment_preservation :
  forall (k : nat) (r : resolved) (code : list ir) (n : nat) (res : SyltSem.run_result),
    frag k r = true ->
    lower n r = Ok code ->
    SyltSem.run n r = res ->
    good_final (r_final res) ->
    exists m, forall m', (m <= m')%nat ->
      let out := LuaCore.run_block Lua53 m' (chunk_ast code) in
      o_trace out = r_trace res /\ same_final (r_final res) (o_final out).
Proof. exact fragment_preservation. Qed.

(* the same, for the emitted TEXT, under the hypothesis that the tie checks on every program:
   the Lua parser model reads the real chunk as chunk_ast code *)
Theorem C01_fragment_preservation_text :
  forall (k : nat) (r : resolved) (code : list ir) (text : string) (n : nat) (res : SyltSem.run_result),
    frag k r = true ->
    lower n r = Ok code ->
    parse_lua Lua53 (preamble_src ++ text) = ParseOk (chunk_ast code) ->
    SyltSem.run n r = res ->
    good_final (r_final res) ->
    exists m, forall m', (m <= m')%nat ->
      let out := LuaCore.run Lua53 m' (preamble_src ++ text) in
      o_trace out = r_trace res /\ same_final (r_final res) (o_final out).
Proof.
  intros k r code text n res Hf Hl Hp Hr Hg.
  destruct (fragment_preservation k r code n res Hf Hl Hr Hg) as [m H].
  exists m. intros m' Hm. unfold LuaCore.run. rewrite Hp. exact (H m' Hm).
Qed.

(* ---- non-vacuity: a program in the fragment that satisfies every hypothesis ----
     print: fn *X -> void : external
     start :: fn do
       a :: 3
       b :: a + 2 * a
       c :: b < 5 or not (a == 3)
       print(b)  print(c)
       do d :: a - b  print(-d) end
       b <=> 9
       print(a + a)
     end                                                                                        *)
Definition sp0 := mkSpan 0 1 1 1 1.
Definition ex_prog : resolved :=
  mkResolved
    [mkVar 0 "print" sp0 true Const; mkVar 1 "start" sp0 true Const; mkVar 2 "== STACK ==" sp0 false Const;
     mkVar 3 "a" sp0 false Const; mkVar 4 "b" sp0 false Const; mkVar 5 "c" sp0 false Const; mkVar 6 "d" sp0 false Const]
    [SExternalDefinition "print" 0 Const (TImplied sp0) sp0;
     SDefinition "start" 1 Const (TImplied sp0)
       (EFunction "lambda" [] (TImplied sp0)
          [SDefinition "a" 3 Const (TImplied sp0) (EInt 3 sp0) sp0;
           SDefinition "b" 4 Const (TImplied sp0)
             (EBinOp Add (ERead 3 sp0) (EBinOp Mul (EInt 2 sp0) (ERead 3 sp0) sp0) sp0) sp0;
           SDefinition "c" 5 Const (TImplied sp0)
             (EBinOp Or (EBinOp Less (ERead 4 sp0) (EInt 5 sp0) sp0)
                        (EUniOp Not (EBinOp Equals (ERead 3 sp0) (EInt 3 sp0) sp0) sp0) sp0) sp0;
           SStatementExpression (Resolved.ECall (ERead 0 sp0) [ERead 4 sp0] sp0) sp0;
           SStatementExpression (Resolved.ECall (ERead 0 sp0) [ERead 5 sp0] sp0) sp0;
           SBlock [SDefinition "d" 6 Const (TImplied sp0) (EBinOp Sub (ERead 3 sp0) (ERead 4 sp0) sp0) sp0;
                   SStatementExpression (Resolved.ECall (ERead 0 sp0) [EUniOp Neg (ERead 6 sp0) sp0] sp0) sp0] sp0;
           SStatementExpression (EBinOp AssertEq (ERead 4 sp0) (EInt 9 sp0) sp0) sp0;
           SStatementExpression (Resolved.ECall (ERead 0 sp0) [EBinOp Add (ERead 3 sp0) (ERead 3 sp0) sp0] sp0) sp0]
          false sp0) sp0].

Example C01_example_hypotheses :
  frag 30 ex_prog = true /\
  (exists code, lower 30 ex_prog = Ok code) /\
  SyltSem.run 30 ex_prog = mkRun ["9"; "false"; "6"; "6"]%string ODone.
Proof. split; [vm_compute; reflexivity | split; [eexists; vm_compute; reflexivity | vm_compute; reflexivity]]. Qed.

(* the Lua side of the same program, computed: the theorem's conclusion observed at one fuel *)
Example C01_example_lua_side :
  match lower 30 ex_prog with
  | Ok code => let out := LuaCore.run_block Lua53 4000 (chunk_ast code) in
               o_trace out = ["9"; "false"; "6"; "6"]%string /\ o_final out = FDone
  | _ => False
  end.
Proof. vm_compute. split; reflexivity. Qed.

(* ---- a second program of the fragment (stage 2): mutable variables, compound assignment, a loop with
   break and continue, if statements and an if-expression ----
     start :: fn do
       i := 0
       s := 0
       loop i < 10 do
         i += 1
         if i == 3 do continue end
         if i > 6 do break end
         s = s + (if i < 3 do 1 else 2 end)
         print(s)
       end
       print(i)
     end                                                                                        *)
Definition ex_prog2 : resolved :=
  mkResolved
    [mkVar 0 "print" sp0 true Const; mkVar 1 "start" sp0 true Const; mkVar 2 "== STACK ==" sp0 false Const;
     mkVar 3 "i" sp0 false Mutable; mkVar 4 "s" sp0 false Mutable]
    [SExternalDefinition "print" 0 Const (TImplied sp0) sp0;
     SDefinition "start" 1 Const (TImplied sp0)
       (EFunction "lambda" [] (TImplied sp0)
          [SDefinition "i" 3 Mutable (TImplied sp0) (EInt 0 sp0) sp0;
           SDefinition "s" 4 Mutable (TImplied sp0) (EInt 0 sp0) sp0;
           SLoop (EBinOp Less (ERead 3 sp0) (EInt 10 sp0) sp0)
             [SAssignment Add (ERead 3 sp0) (EInt 1 sp0) sp0;
              SStatementExpression
                (EIf [IfBranch (Some (EBinOp Equals (ERead 3 sp0) (EInt 3 sp0) sp0)) [Resolved.SContinue sp0] sp0] sp0) sp0;
              SStatementExpression
                (EIf [IfBranch (Some (EBinOp Greater (ERead 3 sp0) (EInt 6 sp0) sp0)) [Resolved.SBreak sp0] sp0] sp0) sp0;
              SAssignment Nop (ERead 4 sp0)
                (EBinOp Add (ERead 4 sp0)
                   (EIf [IfBranch (Some (EBinOp Less (ERead 3 sp0) (EInt 3 sp0) sp0)) [SStatementExpression (EInt 1 sp0) sp0] sp0;
                         IfBranch None [SStatementExpression (EInt 2 sp0) sp0] sp0] sp0) sp0) sp0;
              SStatementExpression (Resolved.ECall (ERead 0 sp0) [ERead 4 sp0] sp0) sp0] sp0;
           SStatementExpression (Resolved.ECall (ERead 0 sp0) [ERead 3 sp0] sp0) sp0]
          false sp0) sp0].

Example C01_example2_hypotheses :
  frag 30 ex_prog2 = true /\
  (exists code, lower 30 ex_prog2 = Ok code) /\
  SyltSem.run 60 ex_prog2 = mkRun ["1"; "2"; "4"; "6"; "8"; "7"]%string ODone.
Proof. split; [vm_compute; reflexivity | split; [eexists; vm_compute; reflexivity | vm_compute; reflexivity]]. Qed.

Example C01_example2_lua_side :
  match lower 30 ex_prog2 with
  | Ok code => let out := LuaCore.run_block Lua53 4900 (chunk_ast code) in
               o_trace out = ["1"; "2"; "4"; "6"; "8"; "7"]%string /\ o_final out = FDone
  | _ => False
  end.
Proof. vm_compute. split; reflexivity. Qed.

(* ---- a third program (stage 3a): top-level global definitions before start ----
     a :: 3
     b :: a + 4 * a
     c :: b > 10 and not (a == 2)
     start :: fn do
       x := a
       x += b
       print(x)  print(c)
       if c do print(a) end
     end                                                                                        *)
Definition ex_prog3 : resolved :=
  mkResolved
    [mkVar 0 "print" sp0 true Const; mkVar 1 "a" sp0 true Const; mkVar 2 "b" sp0 true Const; mkVar 3 "c" sp0 true Const;
     mkVar 4 "start" sp0 true Const; mkVar 5 "== STACK ==" sp0 false Const; mkVar 6 "x" sp0 false Mutable]
    [SExternalDefinition "print" 0 Const (TImplied sp0) sp0;
     SDefinition "a" 1 Const (TImplied sp0) (EInt 3 sp0) sp0;
     SDefinition "b" 2 Const (TImplied sp0)
       (EBinOp Add (ERead 1 sp0) (EBinOp Mul (EInt 4 sp0) (ERead 1 sp0) sp0) sp0) sp0;
     SDefinition "c" 3 Const (TImplied sp0)
       (EBinOp And (EBinOp Greater (ERead 2 sp0) (EInt 10 sp0) sp0)
                   (EUniOp Not (EBinOp Equals (ERead 1 sp0) (EInt 2 sp0) sp0) sp0) sp0) sp0;
     SDefinition "start" 4 Const (TImplied sp0)
       (EFunction "lambda" [] (TImplied sp0)
          [SDefinition "x" 6 Mutable (TImplied sp0) (ERead 1 sp0) sp0;
           SAssignment Add (ERead 6 sp0) (ERead 2 sp0) sp0;
           SStatementExpression (Resolved.ECall (ERead 0 sp0) [ERead 6 sp0] sp0) sp0;
           SStatementExpression (Resolved.ECall (ERead 0 sp0) [ERead 3 sp0] sp0) sp0;
           SStatementExpression
             (EIf [IfBranch (Some (ERead 3 sp0)) [SStatementExpression (Resolved.ECall (ERead 0 sp0) [ERead 1 sp0] sp0) sp0] sp0] sp0) sp0]
          false sp0) sp0].

Example C01_example3_hypotheses :
  frag 30 ex_prog3 = true /\
  (exists code, lower 30 ex_prog3 = Ok code) /\
  SyltSem.run 30 ex_prog3 = mkRun ["18"; "true"; "3"]%string ODone.
Proof. split; [vm_compute; reflexivity | split; [eexists; vm_compute; reflexivity | vm_compute; reflexivity]]. Qed.

Example C01_example3_lua_side :
  match lower 30 ex_prog3 with
  | Ok code => let out := LuaCore.run_block Lua53 4000 (chunk_ast code) in
               o_trace out = ["18"; "true"; "3"]%string /\ o_final out = FDone
  | _ => False
  end.
Proof. vm_compute. split; reflexivity. Qed.

(* ---- a fourth program (stage 3b): top-level functions with parameters, calls, recursion ----
     g :: 2
     add :: fn a: int, b: int -> int do
       print(a)
       a + b * g
     end
     fact :: fn n: int -> int do
       if n <= 1 do 1 else n * fact(n - 1) end
     end
     start :: fn do
       x := add(3, 4)
       print(x)
       print(fact(5) + add(x, 1))
     end                                                                                        *)
Definition ex_prog4 : resolved :=
  mkResolved
    [mkVar 0 "print" sp0 true Const; mkVar 1 "g" sp0 true Const; mkVar 2 "add" sp0 true Const; mkVar 3 "fact" sp0 true Const;
     mkVar 4 "start" sp0 true Const; mkVar 5 "== STACK ==" sp0 false Const; mkVar 6 "a" sp0 false Const; mkVar 7 "b" sp0 false Const;
     mkVar 8 "n" sp0 false Const; mkVar 9 "x" sp0 false Mutable]
    [SExternalDefinition "print" 0 Const (TImplied sp0) sp0;
     SDefinition "g" 1 Const (TImplied sp0) (EInt 2 sp0) sp0;
     SDefinition "add" 2 Const (TImplied sp0)
       (EFunction "lambda" [("a"%string, 6%N, sp0, TImplied sp0); ("b"%string, 7%N, sp0, TImplied sp0)] (TImplied sp0)
          [SStatementExpression (Resolved.ECall (ERead 0 sp0) [ERead 6 sp0] sp0) sp0;
           SStatementExpression (EBinOp Add (ERead 6 sp0) (EBinOp Mul (ERead 7 sp0) (ERead 1 sp0) sp0) sp0) sp0]
          false sp0) sp0;
     SDefinition "fact" 3 Const (TImplied sp0)
       (EFunction "lambda" [("n"%string, 8%N, sp0, TImplied sp0)] (TImplied sp0)
          [SStatementExpression
             (EIf [IfBranch (Some (EBinOp LessEqual (ERead 8 sp0) (EInt 1 sp0) sp0)) [SStatementExpression (EInt 1 sp0) sp0] sp0;
                   IfBranch None
                     [SStatementExpression
                        (EBinOp Mul (ERead 8 sp0)
                           (Resolved.ECall (ERead 3 sp0) [EBinOp Sub (ERead 8 sp0) (EInt 1 sp0) sp0] sp0) sp0) sp0] sp0] sp0) sp0]
          false sp0) sp0;
     SDefinition "start" 4 Const (TImplied sp0)
       (EFunction "lambda" [] (TImplied sp0)
          [SDefinition "x" 9 Mutable (TImplied sp0) (Resolved.ECall (ERead 2 sp0) [EInt 3 sp0; EInt 4 sp0] sp0) sp0;
           SStatementExpression (Resolved.ECall (ERead 0 sp0) [ERead 9 sp0] sp0) sp0;
           SStatementExpression
             (Resolved.ECall (ERead 0 sp0)
                [EBinOp Add (Resolved.ECall (ERead 3 sp0) [EInt 5 sp0] sp0)
                            (Resolved.ECall (ERead 2 sp0) [ERead 9 sp0; EInt 1 sp0] sp0) sp0] sp0) sp0]
          false sp0) sp0].

Example C01_example4_hypotheses :
  frag 30 ex_prog4 = true /\
  (exists code, lower 30 ex_prog4 = Ok code) /\
  SyltSem.run 40 ex_prog4 = mkRun ["3"; "11"; "11"; "133"]%string ODone.
Proof. split; [vm_compute; reflexivity | split; [eexists; vm_compute; reflexivity | vm_compute; reflexivity]]. Qed.

Example C01_example4_lua_side :
  match lower 30 ex_prog4 with
  | Ok code => let out := LuaCore.run_block Lua53 4900 (chunk_ast code) in
               o_trace out = ["3"; "11"; "11"; "133"]%string /\ o_final out = FDone
  | _ => False
  end.
Proof. vm_compute. split; reflexivity. Qed.

(* ---- a fifth program (stage 4a): early return, also from inside a loop ----
     find :: fn lim: int -> int do
       i := 0
       loop i < 10 do
         i += 1
         if i * i > lim do ret i end
       end
       0 - 1
     end
     start :: fn do
       print(find(10))
       print(find(200))
       if find(3) == 2 do ret 7 end
       print(99)
     end                                                                                        *)
Definition ex_prog5 : resolved :=
  mkResolved
    [mkVar 0 "print" sp0 true Const; mkVar 1 "find" sp0 true Const; mkVar 2 "start" sp0 true Const;
     mkVar 3 "== STACK ==" sp0 false Const; mkVar 4 "lim" sp0 false Const; mkVar 5 "i" sp0 false Mutable]
    [SExternalDefinition "print" 0 Const (TImplied sp0) sp0;
     SDefinition "find" 1 Const (TImplied sp0)
       (EFunction "lambda" [("lim"%string, 4%N, sp0, TImplied sp0)] (TImplied sp0)
          [SDefinition "i" 5 Mutable (TImplied sp0) (EInt 0 sp0) sp0;
           SLoop (EBinOp Less (ERead 5 sp0) (EInt 10 sp0) sp0)
             [SAssignment Add (ERead 5 sp0) (EInt 1 sp0) sp0;
              SStatementExpression
                (EIf [IfBranch (Some (EBinOp Greater (EBinOp Mul (ERead 5 sp0) (ERead 5 sp0) sp0) (ERead 4 sp0) sp0))
                        [SRet (Some (ERead 5 sp0)) sp0] sp0] sp0) sp0] sp0;
           SStatementExpression (EBinOp Sub (EInt 0 sp0) (EInt 1 sp0) sp0) sp0]
          false sp0) sp0;
     SDefinition "start" 2 Const (TImplied sp0)
       (EFunction "lambda" [] (TImplied sp0)
          [SStatementExpression (Resolved.ECall (ERead 0 sp0) [Resolved.ECall (ERead 1 sp0) [EInt 10 sp0] sp0] sp0) sp0;
           SStatementExpression (Resolved.ECall (ERead 0 sp0) [Resolved.ECall (ERead 1 sp0) [EInt 200 sp0] sp0] sp0) sp0;
           SStatementExpression
             (EIf [IfBranch (Some (EBinOp Equals (Resolved.ECall (ERead 1 sp0) [EInt 3 sp0] sp0) (EInt 2 sp0) sp0))
                     [SRet (Some (EInt 7 sp0)) sp0] sp0] sp0) sp0;
           SStatementExpression (Resolved.ECall (ERead 0 sp0) [EInt 99 sp0] sp0) sp0]
          false sp0) sp0].

Example C01_example5_hypotheses :
  frag 30 ex_prog5 = true /\
  (exists code, lower 30 ex_prog5 = Ok code) /\
  SyltSem.run 40 ex_prog5 = mkRun ["4"; "-1"]%string ODone.
Proof. split; [vm_compute; reflexivity | split; [eexists; vm_compute; reflexivity | vm_compute; reflexivity]]. Qed.

Example C01_example5_lua_side :
  match lower 30 ex_prog5 with
  | Ok code => let out := LuaCore.run_block Lua53 4900 (chunk_ast code) in
               o_trace out = ["4"; "-1"]%string /\ o_final out = FDone
  | _ => False
  end.
Proof. vm_compute. split; reflexivity. Qed.

(* ---- a sixth program (stage 4b): outer definitions after start; a global initialiser that calls a function ----
     twice :: fn a: int -> int do a + a end
     start :: fn do print(twice(4)) end
     late :: twice(10)
     other :: fn -> int do print(late)  late end                                                  *)
Definition ex_prog6 : resolved :=
  mkResolved
    [mkVar 0 "print" sp0 true Const; mkVar 1 "twice" sp0 true Const; mkVar 2 "start" sp0 true Const; mkVar 3 "late" sp0 true Const;
     mkVar 4 "other" sp0 true Const; mkVar 5 "== STACK ==" sp0 false Const; mkVar 6 "a" sp0 false Const]
    [SExternalDefinition "print" 0 Const (TImplied sp0) sp0;
     SDefinition "twice" 1 Const (TImplied sp0)
       (EFunction "lambda" [("a"%string, 6%N, sp0, TImplied sp0)] (TImplied sp0)
          [SStatementExpression (EBinOp Add (ERead 6 sp0) (ERead 6 sp0) sp0) sp0] false sp0) sp0;
     SDefinition "start" 2 Const (TImplied sp0)
       (EFunction "lambda" [] (TImplied sp0)
          [SStatementExpression (Resolved.ECall (ERead 0 sp0) [Resolved.ECall (ERead 1 sp0) [EInt 4 sp0] sp0] sp0) sp0] false sp0) sp0;
     SDefinition "late" 3 Const (TImplied sp0) (Resolved.ECall (ERead 1 sp0) [EInt 10 sp0] sp0) sp0;
     SDefinition "other" 4 Const (TImplied sp0)
       (EFunction "lambda" [] (TImplied sp0)
          [SStatementExpression (Resolved.ECall (ERead 0 sp0) [ERead 3 sp0] sp0) sp0;
           SStatementExpression (ERead 3 sp0) sp0] false sp0) sp0].

Example C01_example6_hypotheses :
  frag 30 ex_prog6 = true /\
  (exists code, lower 30 ex_prog6 = Ok code) /\
  SyltSem.run 40 ex_prog6 = mkRun ["8"]%string ODone.
Proof. split; [vm_compute; reflexivity | split; [eexists; vm_compute; reflexivity | vm_compute; reflexivity]]. Qed.

Example C01_example6_lua_side :
  match lower 30 ex_prog6 with
  | Ok code => let out := LuaCore.run_block Lua53 4900 (chunk_ast code) in
               o_trace out = ["8"]%string /\ o_final out = FDone
  | _ => False
  end.
Proof. vm_compute. split; reflexivity. Qed.

(* ---- a seventh program (stage 4c): local functions that capture and change a mutable local of `start` ----
     start :: fn do
       n := 0
       bump :: fn k: int -> int do n += k  n end
       print(bump(3))                -- 3
       n = n * 10                    -- the closure sees the later assignment
       print(bump(1))                -- 31
       twice :: fn -> int do bump(1) + bump(1) end
       print(twice())                -- 32 + 33
       print(n)                      -- start sees what the closures did
     end                                                                                         *)
Definition ex_prog7 : resolved :=
  mkResolved
    [mkVar 0 "print" sp0 true Const; mkVar 1 "start" sp0 true Const; mkVar 2 "== STACK ==" sp0 false Const;
     mkVar 3 "n" sp0 false Mutable; mkVar 4 "bump" sp0 false Const; mkVar 5 "k" sp0 false Const; mkVar 6 "twice" sp0 false Const]
    [SExternalDefinition "print" 0 Const (TImplied sp0) sp0;
     SDefinition "start" 1 Const (TImplied sp0)
       (EFunction "lambda" [] (TImplied sp0)
          [SDefinition "n" 3 Mutable (TImplied sp0) (EInt 0 sp0) sp0;
           SDefinition "bump" 4 Const (TImplied sp0)
             (EFunction "lambda" [("k"%string, 5%N, sp0, TImplied sp0)] (TImplied sp0)
                [SAssignment Add (ERead 3 sp0) (ERead 5 sp0) sp0;
                 SStatementExpression (ERead 3 sp0) sp0] false sp0) sp0;
           SStatementExpression (Resolved.ECall (ERead 0 sp0) [Resolved.ECall (ERead 4 sp0) [EInt 3 sp0] sp0] sp0) sp0;
           SAssignment Nop (ERead 3 sp0) (EBinOp Mul (ERead 3 sp0) (EInt 10 sp0) sp0) sp0;
           SStatementExpression (Resolved.ECall (ERead 0 sp0) [Resolved.ECall (ERead 4 sp0) [EInt 1 sp0] sp0] sp0) sp0;
           SDefinition "twice" 6 Const (TImplied sp0)
             (EFunction "lambda" [] (TImplied sp0)
                [SStatementExpression (EBinOp Add (Resolved.ECall (ERead 4 sp0) [EInt 1 sp0] sp0)
                                                  (Resolved.ECall (ERead 4 sp0) [EInt 1 sp0] sp0) sp0) sp0] false sp0) sp0;
           SStatementExpression (Resolved.ECall (ERead 0 sp0) [Resolved.ECall (ERead 6 sp0) [] sp0] sp0) sp0;
           SStatementExpression (Resolved.ECall (ERead 0 sp0) [ERead 3 sp0] sp0) sp0]
          false sp0) sp0].

Example C01_example7_hypotheses :
  frag 30 ex_prog7 = true /\
  (exists code, lower 30 ex_prog7 = Ok code) /\
  SyltSem.run 40 ex_prog7 = mkRun ["3"; "31"; "65"; "33"]%string ODone.
Proof. split; [vm_compute; reflexivity | split; [eexists; vm_compute; reflexivity | vm_compute; reflexivity]]. Qed.

Example C01_example7_lua_side :
  match lower 30 ex_prog7 with
  | Ok code => let out := LuaCore.run_block Lua53 4900 (chunk_ast code) in
               o_trace out = ["3"; "31"; "65"; "33"]%string /\ o_final out = FDone
  | _ => False
  end.
Proof. vm_compute. split; reflexivity. Qed.

(* ---- an eighth program (stage 4c): every activation of a recursive function has its own local and its own closure ----
     f :: fn d: int -> int do
       acc := d * 10
       add :: fn k: int -> int do acc += k  acc end
       r :: if d > 0 do f(d - 1) else 0 end      -- the inner activations have their own acc and add
       print(add(r))
       acc
     end
     start :: fn do print(f(2)) end                                                               *)
Definition ex_prog8 : resolved :=
  mkResolved
    [mkVar 0 "print" sp0 true Const; mkVar 1 "f" sp0 true Const; mkVar 2 "start" sp0 true Const; mkVar 3 "== STACK ==" sp0 false Const;
     mkVar 4 "d" sp0 false Const; mkVar 5 "acc" sp0 false Mutable; mkVar 6 "add" sp0 false Const; mkVar 7 "k" sp0 false Const;
     mkVar 8 "r" sp0 false Const]
    [SExternalDefinition "print" 0 Const (TImplied sp0) sp0;
     SDefinition "f" 1 Const (TImplied sp0)
       (EFunction "lambda" [("d"%string, 4%N, sp0, TImplied sp0)] (TImplied sp0)
          [SDefinition "acc" 5 Mutable (TImplied sp0) (EBinOp Mul (ERead 4 sp0) (EInt 10 sp0) sp0) sp0;
           SDefinition "add" 6 Const (TImplied sp0)
             (EFunction "lambda" [("k"%string, 7%N, sp0, TImplied sp0)] (TImplied sp0)
                [SAssignment Add (ERead 5 sp0) (ERead 7 sp0) sp0;
                 SStatementExpression (ERead 5 sp0) sp0] false sp0) sp0;
           SDefinition "r" 8 Const (TImplied sp0)
             (EIf [IfBranch (Some (EBinOp Greater (ERead 4 sp0) (EInt 0 sp0) sp0))
                     [SStatementExpression (Resolved.ECall (ERead 1 sp0) [EBinOp Sub (ERead 4 sp0) (EInt 1 sp0) sp0] sp0) sp0] sp0;
                   IfBranch None [SStatementExpression (EInt 0 sp0) sp0] sp0] sp0) sp0;
           SStatementExpression (Resolved.ECall (ERead 0 sp0) [Resolved.ECall (ERead 6 sp0) [ERead 8 sp0] sp0] sp0) sp0;
           SStatementExpression (ERead 5 sp0) sp0]
          false sp0) sp0;
     SDefinition "start" 2 Const (TImplied sp0)
       (EFunction "lambda" [] (TImplied sp0)
          [SStatementExpression (Resolved.ECall (ERead 0 sp0) [Resolved.ECall (ERead 1 sp0) [EInt 2 sp0] sp0] sp0) sp0]
          false sp0) sp0].

Example C01_example8_hypotheses :
  frag 30 ex_prog8 = true /\
  (exists code, lower 30 ex_prog8 = Ok code) /\
  SyltSem.run 60 ex_prog8 = mkRun ["0"; "10"; "30"; "30"]%string ODone.
Proof. split; [vm_compute; reflexivity | split; [eexists; vm_compute; reflexivity | vm_compute; reflexivity]]. Qed.

(* the theorem at work (no Lua-side computation): the closures of ex_prog7 share `n` with start and see its later
   assignment; the activations of f in ex_prog8 each have their own `acc` *)
Theorem C01_closures_share_mutable_local_by_theorem code :
  lower 30 ex_prog7 = Ok code ->
  exists m, forall m', (m <= m')%nat ->
    let out := LuaCore.run_block Lua53 m' (chunk_ast code) in
    o_trace out = ["3"; "31"; "65"; "33"]%string /\ o_final out = FDone.
Proof.
  intros Hl.
  assert (Hf : frag 30 ex_prog7 = true) by (vm_compute; reflexivity).
  assert (Hr : SyltSem.run 40 ex_prog7 = mkRun ["3"; "31"; "65"; "33"]%string ODone) by (vm_compute; reflexivity).
  destruct (C01_fragment_preservation 30 ex_prog7 code 40 _ Hf Hl Hr I) as (m & Hm).
  exists m. intros m' Hle. specialize (Hm m' Hle). cbv zeta in *. destruct Hm as [Ht Hfin]. split; [exact Ht|].
  cbn [r_final] in Hfin. destruct (o_final _); try contradiction. reflexivity.
Qed.

Theorem C01_activations_own_locals_by_theorem code :
  lower 30 ex_prog8 = Ok code ->
  exists m, forall m', (m <= m')%nat ->
    let out := LuaCore.run_block Lua53 m' (chunk_ast code) in
    o_trace out = ["0"; "10"; "30"; "30"]%string /\ o_final out = FDone.
Proof.
  intros Hl.
  assert (Hf : frag 30 ex_prog8 = true) by (vm_compute; reflexivity).
  assert (Hr : SyltSem.run 60 ex_prog8 = mkRun ["0"; "10"; "30"; "30"]%string ODone) by (vm_compute; reflexivity).
  destruct (C01_fragment_preservation 30 ex_prog8 code 60 _ Hf Hl Hr I) as (m & Hm).
  exists m. intros m' Hle. specialize (Hm m' Hle). cbv zeta in *. destruct Hm as [Ht Hfin]. split; [exact Ht|].
  cbn [r_final] in Hfin. destruct (o_final _); try contradiction. reflexivity.
Qed.

(* ---- a ninth program (stage 4c'): local functions inside a loop body, an if-branch and a block; every pass of the
   loop has its own `j` and its own closure `addj` over it ----
     start :: fn do
       total := 0
       i := 0
       loop i < 3 do
         i += 1
         j :: i * 10
         addj :: fn k: int -> int do total += j + k  total end
         print(addj(i))                                                  -- 11, 33, 106
         if i == 2 do
           twice :: fn -> int do addj(0) + addj(0) end
           print(twice())                                                -- 53 + 73
         end
       end
       do  g :: fn -> int do total * 2 end  print(g())  end            -- 212
       print(total)                                                      -- 106
     end                                                                                          *)
Definition call f args := Resolved.ECall (ERead f sp0) args sp0.
Definition ex_prog9 : resolved :=
  mkResolved
    [mkVar 0 "print" sp0 true Const; mkVar 1 "start" sp0 true Const; mkVar 2 "== STACK ==" sp0 false Const;
     mkVar 3 "total" sp0 false Mutable; mkVar 4 "i" sp0 false Mutable; mkVar 5 "j" sp0 false Const; mkVar 6 "addj" sp0 false Const;
     mkVar 7 "k" sp0 false Const; mkVar 8 "twice" sp0 false Const; mkVar 9 "g" sp0 false Const]
    [SExternalDefinition "print" 0 Const (TImplied sp0) sp0;
     SDefinition "start" 1 Const (TImplied sp0)
       (EFunction "lambda" [] (TImplied sp0)
          [SDefinition "total" 3 Mutable (TImplied sp0) (EInt 0 sp0) sp0;
           SDefinition "i" 4 Mutable (TImplied sp0) (EInt 0 sp0) sp0;
           SLoop (EBinOp Less (ERead 4 sp0) (EInt 3 sp0) sp0)
             [SAssignment Add (ERead 4 sp0) (EInt 1 sp0) sp0;
              SDefinition "j" 5 Const (TImplied sp0) (EBinOp Mul (ERead 4 sp0) (EInt 10 sp0) sp0) sp0;
              SDefinition "addj" 6 Const (TImplied sp0)
                (EFunction "lambda" [("k"%string, 7%N, sp0, TImplied sp0)] (TImplied sp0)
                   [SAssignment Add (ERead 3 sp0) (EBinOp Add (ERead 5 sp0) (ERead 7 sp0) sp0) sp0;
                    SStatementExpression (ERead 3 sp0) sp0] false sp0) sp0;
              SStatementExpression (call 0 [call 6 [ERead 4 sp0]]) sp0;
              SStatementExpression
                (EIf [IfBranch (Some (EBinOp Equals (ERead 4 sp0) (EInt 2 sp0) sp0))
                        [SDefinition "twice" 8 Const (TImplied sp0)
                           (EFunction "lambda" [] (TImplied sp0)
                              [SStatementExpression (EBinOp Add (call 6 [EInt 0 sp0]) (call 6 [EInt 0 sp0]) sp0) sp0] false sp0) sp0;
                         SStatementExpression (call 0 [call 8 []]) sp0] sp0] sp0) sp0] sp0;
           SBlock
             [SDefinition "g" 9 Const (TImplied sp0)
                (EFunction "lambda" [] (TImplied sp0)
                   [SStatementExpression (EBinOp Mul (ERead 3 sp0) (EInt 2 sp0) sp0) sp0] false sp0) sp0;
              SStatementExpression (call 0 [call 9 []]) sp0] sp0;
           SStatementExpression (call 0 [ERead 3 sp0]) sp0]
          false sp0) sp0].

Example C01_example9_hypotheses :
  frag 30 ex_prog9 = true /\
  (exists code, lower 30 ex_prog9 = Ok code) /\
  SyltSem.run 60 ex_prog9 = mkRun ["11"; "33"; "126"; "106"; "212"; "106"]%string ODone.
Proof. split; [vm_compute; reflexivity | split; [eexists; vm_compute; reflexivity | vm_compute; reflexivity]]. Qed.

Theorem C01_loop_iteration_closures_by_theorem code :
  lower 30 ex_prog9 = Ok code ->
  exists m, forall m', (m <= m')%nat ->
    let out := LuaCore.run_block Lua53 m' (chunk_ast code) in
    o_trace out = ["11"; "33"; "126"; "106"; "212"; "106"]%string /\ o_final out = FDone.
Proof.
  intros Hl.
  assert (Hf : frag 30 ex_prog9 = true) by (vm_compute; reflexivity).
  assert (Hr : SyltSem.run 60 ex_prog9 = mkRun ["11"; "33"; "126"; "106"; "212"; "106"]%string ODone) by (vm_compute; reflexivity).
  destruct (C01_fragment_preservation 30 ex_prog9 code 60 _ Hf Hl Hr I) as (m & Hm).
  exists m. intros m' Hle. specialize (Hm m' Hle). cbv zeta in *. destruct Hm as [Ht Hfin]. split; [exact Ht|].
  cbn [r_final] in Hfin. destruct (o_final _); try contradiction. reflexivity.
Qed.

(* ---- a tenth program (stage 4d-s): strings -- literals, concatenation, comparison, equality, <=>, through
   parameters, a loop and a closure over a mutable string ----
     greet :: fn name: str, n: int -> str do
       s := "hello, " + name
       i := 0
       loop i < n do  i += 1  s += "!"  end
       s
     end
     start :: fn do
       print(greet("world", 2))
       print("a" < "b")
       print("abc" == "ab" + "c")
       t := "x"
       app :: fn u: str do t = t + u end
       app("y")  app("z")
       print(t)
       "done" <=> "do" + "ne"
     end                                                                                          *)
Definition str s := Resolved.EStr s sp0.
Definition ex_prog10 : resolved :=
  mkResolved
    [mkVar 0 "print" sp0 true Const; mkVar 1 "greet" sp0 true Const; mkVar 2 "start" sp0 true Const; mkVar 3 "== STACK ==" sp0 false Const;
     mkVar 4 "name" sp0 false Const; mkVar 5 "n" sp0 false Const; mkVar 6 "s" sp0 false Mutable; mkVar 7 "i" sp0 false Mutable;
     mkVar 8 "t" sp0 false Mutable; mkVar 9 "app" sp0 false Const; mkVar 10 "u" sp0 false Const]
    [SExternalDefinition "print" 0 Const (TImplied sp0) sp0;
     SDefinition "greet" 1 Const (TImplied sp0)
       (EFunction "lambda" [("name"%string, 4%N, sp0, TImplied sp0); ("n"%string, 5%N, sp0, TImplied sp0)] (TImplied sp0)
          [SDefinition "s" 6 Mutable (TImplied sp0) (EBinOp Add (str "hello, ") (ERead 4 sp0) sp0) sp0;
           SDefinition "i" 7 Mutable (TImplied sp0) (EInt 0 sp0) sp0;
           SLoop (EBinOp Less (ERead 7 sp0) (ERead 5 sp0) sp0)
             [SAssignment Add (ERead 7 sp0) (EInt 1 sp0) sp0;
              SAssignment Add (ERead 6 sp0) (str "!") sp0] sp0;
           SStatementExpression (ERead 6 sp0) sp0] false sp0) sp0;
     SDefinition "start" 2 Const (TImplied sp0)
       (EFunction "lambda" [] (TImplied sp0)
          [SStatementExpression (call 0 [call 1 [str "world"; EInt 2 sp0]]) sp0;
           SStatementExpression (call 0 [EBinOp Less (str "a") (str "b") sp0]) sp0;
           SStatementExpression (call 0 [EBinOp Equals (str "abc") (EBinOp Add (str "ab") (str "c") sp0) sp0]) sp0;
           SDefinition "t" 8 Mutable (TImplied sp0) (str "x") sp0;
           SDefinition "app" 9 Const (TImplied sp0)
             (EFunction "lambda" [("u"%string, 10%N, sp0, TImplied sp0)] (TImplied sp0)
                [SAssignment Nop (ERead 8 sp0) (EBinOp Add (ERead 8 sp0) (ERead 10 sp0) sp0) sp0] false sp0) sp0;
           SStatementExpression (call 9 [str "y"]) sp0;
           SStatementExpression (call 9 [str "z"]) sp0;
           SStatementExpression (call 0 [ERead 8 sp0]) sp0;
           SStatementExpression (EBinOp AssertEq (str "done") (EBinOp Add (str "do") (str "ne") sp0) sp0) sp0]
          false sp0) sp0].

Example C01_example10_hypotheses :
  frag 30 ex_prog10 = true /\
  (exists code, lower 30 ex_prog10 = Ok code) /\
  SyltSem.run 60 ex_prog10 = mkRun ["hello, world!!"; "true"; "true"; "xyz"]%string ODone.
Proof. split; [vm_compute; reflexivity | split; [eexists; vm_compute; reflexivity | vm_compute; reflexivity]]. Qed.

Theorem C01_strings_by_theorem code :
  lower 30 ex_prog10 = Ok code ->
  exists m, forall m', (m <= m')%nat ->
    let out := LuaCore.run_block Lua53 m' (chunk_ast code) in
    o_trace out = ["hello, world!!"; "true"; "true"; "xyz"]%string /\ o_final out = FDone.
Proof.
  intros Hl.
  assert (Hf : frag 30 ex_prog10 = true) by (vm_compute; reflexivity).
  assert (Hr : SyltSem.run 60 ex_prog10 = mkRun ["hello, world!!"; "true"; "true"; "xyz"]%string ODone) by (vm_compute; reflexivity).
  destruct (C01_fragment_preservation 30 ex_prog10 code 60 _ Hf Hl Hr I) as (m & Hm).
  exists m. intros m' Hle. specialize (Hm m' Hle). cbv zeta in *. destruct Hm as [Ht Hfin]. split; [exact Ht|].
  cbn [r_final] in Hfin. destruct (o_final _); try contradiction. reflexivity.
Qed.

(* ---- an eleventh program (stage 4e): functions as arguments -- a top-level function and a local closure over a
   mutable local are passed to function parameters and called there; the closure changes the local of its definer
   from inside the callee ----
     apply :: fn f: fn int -> int, x: int -> int do f(x) + 1 end
     twice :: fn g: fn int -> int, y: int -> int do g(g(y)) end
     inc   :: fn a: int -> int do a + 1 end
     start :: fn do
       n := 10
       add :: fn b: int -> int do n += b  n end
       print(apply(add, 1))       -- n = 11, prints 12
       print(twice(add, 2))       -- n = 13, then 26
       print(n)                   -- 26
       print(apply(inc, 5))       -- 7
     end                                                                                          *)
Definition tint := TImplied sp0.
Definition tfn1 := TFn [] [tint] tint false sp0.
Definition ex_prog11 : resolved :=
  mkResolved
    [mkVar 0 "print" sp0 true Const; mkVar 1 "apply" sp0 true Const; mkVar 2 "twice" sp0 true Const; mkVar 3 "inc" sp0 true Const;
     mkVar 4 "start" sp0 true Const; mkVar 5 "== STACK ==" sp0 false Const;
     mkVar 6 "f" sp0 false Const; mkVar 7 "x" sp0 false Const; mkVar 8 "g" sp0 false Const; mkVar 9 "y" sp0 false Const;
     mkVar 10 "a" sp0 false Const; mkVar 11 "n" sp0 false Mutable; mkVar 12 "add" sp0 false Const; mkVar 13 "b" sp0 false Const]
    [SExternalDefinition "print" 0 Const (TImplied sp0) sp0;
     SDefinition "apply" 1 Const (TImplied sp0)
       (EFunction "lambda" [("f"%string, 6%N, sp0, tfn1); ("x"%string, 7%N, sp0, tint)] tint
          [SStatementExpression (EBinOp Add (call 6 [ERead 7 sp0]) (EInt 1 sp0) sp0) sp0] false sp0) sp0;
     SDefinition "twice" 2 Const (TImplied sp0)
       (EFunction "lambda" [("g"%string, 8%N, sp0, tfn1); ("y"%string, 9%N, sp0, tint)] tint
          [SStatementExpression (call 8 [call 8 [ERead 9 sp0]]) sp0] false sp0) sp0;
     SDefinition "inc" 3 Const (TImplied sp0)
       (EFunction "lambda" [("a"%string, 10%N, sp0, tint)] tint
          [SStatementExpression (EBinOp Add (ERead 10 sp0) (EInt 1 sp0) sp0) sp0] false sp0) sp0;
     SDefinition "start" 4 Const (TImplied sp0)
       (EFunction "lambda" [] (TImplied sp0)
          [SDefinition "n" 11 Mutable (TImplied sp0) (EInt 10 sp0) sp0;
           SDefinition "add" 12 Const (TImplied sp0)
             (EFunction "lambda" [("b"%string, 13%N, sp0, tint)] tint
                [SAssignment Add (ERead 11 sp0) (ERead 13 sp0) sp0;
                 SStatementExpression (ERead 11 sp0) sp0] false sp0) sp0;
           SStatementExpression (call 0 [call 1 [ERead 12 sp0; EInt 1 sp0]]) sp0;
           SStatementExpression (call 0 [call 2 [ERead 12 sp0; EInt 2 sp0]]) sp0;
           SStatementExpression (call 0 [ERead 11 sp0]) sp0;
           SStatementExpression (call 0 [call 1 [ERead 3 sp0; EInt 5 sp0]]) sp0]
          false sp0) sp0].

Example C01_example11_hypotheses :
  frag 30 ex_prog11 = true /\
  (exists code, lower 30 ex_prog11 = Ok code) /\
  SyltSem.run 60 ex_prog11 = mkRun ["12"; "26"; "26"; "7"]%string ODone.
Proof. split; [vm_compute; reflexivity | split; [eexists; vm_compute; reflexivity | vm_compute; reflexivity]]. Qed.

Theorem C01_functions_as_arguments_by_theorem code :
  lower 30 ex_prog11 = Ok code ->
  exists m, forall m', (m <= m')%nat ->
    let out := LuaCore.run_block Lua53 m' (chunk_ast code) in
    o_trace out = ["12"; "26"; "26"; "7"]%string /\ o_final out = FDone.
Proof.
  intros Hl.
  assert (Hf : frag 30 ex_prog11 = true) by (vm_compute; reflexivity).
  assert (Hr : SyltSem.run 60 ex_prog11 = mkRun ["12"; "26"; "26"; "7"]%string ODone) by (vm_compute; reflexivity).
  destruct (C01_fragment_preservation 30 ex_prog11 code 60 _ Hf Hl Hr I) as (m & Hm).
  exists m. intros m' Hle. specialize (Hm m' Hle). cbv zeta in *. destruct Hm as [Ht Hfin]. split; [exact Ht|].
  cbn [r_final] in Hfin. destruct (o_final _); try contradiction. reflexivity.
Qed.

(* ---- a twelfth program (stage 4f): lambda expressions as arguments; they read and change a mutable local of the
   function that creates them ----
     (apply, twice, inc as in the eleventh program)
     start :: fn do
       n := 10
       add :: fn b: int -> int do n += b  n end
       print(apply(add, 1))  print(twice(add, 2))  print(n)  print(apply(inc, 5))     -- 12 26 26 7
       print(apply(fn z: int -> int do z * n end, 3))                               -- 3 * 26 + 1
       print(twice(fn w: int -> int do n -= 1  w + n end, 0))                       -- 25, then 25 + 24
       print(n)                                                                      -- 24
     end                                                                                          *)
Definition ex_prog12 : resolved :=
  mkResolved
    [mkVar 0 "print" sp0 true Const; mkVar 1 "apply" sp0 true Const; mkVar 2 "twice" sp0 true Const; mkVar 3 "inc" sp0 true Const;
     mkVar 4 "start" sp0 true Const; mkVar 5 "== STACK ==" sp0 false Const;
     mkVar 6 "f" sp0 false Const; mkVar 7 "x" sp0 false Const; mkVar 8 "g" sp0 false Const; mkVar 9 "y" sp0 false Const;
     mkVar 10 "a" sp0 false Const; mkVar 11 "n" sp0 false Mutable; mkVar 12 "add" sp0 false Const; mkVar 13 "b" sp0 false Const; mkVar 14 "z" sp0 false Const; mkVar 15 "w" sp0 false Const]
    [SExternalDefinition "print" 0 Const (TImplied sp0) sp0;
     SDefinition "apply" 1 Const (TImplied sp0)
       (EFunction "lambda" [("f"%string, 6%N, sp0, tfn1); ("x"%string, 7%N, sp0, tint)] tint
          [SStatementExpression (EBinOp Add (call 6 [ERead 7 sp0]) (EInt 1 sp0) sp0) sp0] false sp0) sp0;
     SDefinition "twice" 2 Const (TImplied sp0)
       (EFunction "lambda" [("g"%string, 8%N, sp0, tfn1); ("y"%string, 9%N, sp0, tint)] tint
          [SStatementExpression (call 8 [call 8 [ERead 9 sp0]]) sp0] false sp0) sp0;
     SDefinition "inc" 3 Const (TImplied sp0)
       (EFunction "lambda" [("a"%string, 10%N, sp0, tint)] tint
          [SStatementExpression (EBinOp Add (ERead 10 sp0) (EInt 1 sp0) sp0) sp0] false sp0) sp0;
     SDefinition "start" 4 Const (TImplied sp0)
       (EFunction "lambda" [] (TImplied sp0)
          [SDefinition "n" 11 Mutable (TImplied sp0) (EInt 10 sp0) sp0;
           SDefinition "add" 12 Const (TImplied sp0)
             (EFunction "lambda" [("b"%string, 13%N, sp0, tint)] tint
                [SAssignment Add (ERead 11 sp0) (ERead 13 sp0) sp0;
                 SStatementExpression (ERead 11 sp0) sp0] false sp0) sp0;
           SStatementExpression (call 0 [call 1 [ERead 12 sp0; EInt 1 sp0]]) sp0;
           SStatementExpression (call 0 [call 2 [ERead 12 sp0; EInt 2 sp0]]) sp0;
           SStatementExpression (call 0 [ERead 11 sp0]) sp0;
           SStatementExpression (call 0 [call 1 [ERead 3 sp0; EInt 5 sp0]]) sp0;
           SStatementExpression (call 0 [call 1 [EFunction "lambda" [("z"%string, 14%N, sp0, tint)] tint
                                                   [SStatementExpression (EBinOp Mul (ERead 14 sp0) (ERead 11 sp0) sp0) sp0] false sp0; EInt 3 sp0]]) sp0;
           SStatementExpression (call 0 [call 2 [EFunction "lambda" [("w"%string, 15%N, sp0, tint)] tint
                                                   [SAssignment Sub (ERead 11 sp0) (EInt 1 sp0) sp0;
                                                    SStatementExpression (EBinOp Add (ERead 15 sp0) (ERead 11 sp0) sp0) sp0] false sp0; EInt 0 sp0]]) sp0;
           SStatementExpression (call 0 [ERead 11 sp0]) sp0]
          false sp0) sp0].

Example C01_example12_hypotheses :
  frag 30 ex_prog12 = true /\
  (exists code, lower 30 ex_prog12 = Ok code) /\
  SyltSem.run 60 ex_prog12 = mkRun ["12"; "26"; "26"; "7"; "79"; "49"; "24"]%string ODone.
Proof. split; [vm_compute; reflexivity | split; [eexists; vm_compute; reflexivity | vm_compute; reflexivity]]. Qed.

Theorem C01_lambdas_by_theorem code :
  lower 30 ex_prog12 = Ok code ->
  exists m, forall m', (m <= m')%nat ->
    let out := LuaCore.run_block Lua53 m' (chunk_ast code) in
    o_trace out = ["12"; "26"; "26"; "7"; "79"; "49"; "24"]%string /\ o_final out = FDone.
Proof.
  intros Hl.
  assert (Hf : frag 30 ex_prog12 = true) by (vm_compute; reflexivity).
  assert (Hr : SyltSem.run 60 ex_prog12 = mkRun ["12"; "26"; "26"; "7"; "79"; "49"; "24"]%string ODone) by (vm_compute; reflexivity).
  destruct (C01_fragment_preservation 30 ex_prog12 code 60 _ Hf Hl Hr I) as (m & Hm).
  exists m. intros m' Hle. specialize (Hm m' Hle). cbv zeta in *. destruct Hm as [Ht Hfin]. split; [exact Ht|].
  cbn [r_final] in Hfin. destruct (o_final _); try contradiction. reflexivity.
Qed.

(* ---- a thirteenth program (stage 4g): functions that return closures.  Every call of mkc returns its own counter (a
   closure over the mutable local c of THAT call, which lives on after the call); adder returns a closure over its
   parameter; pass returns what a call of mkc returns ----
     mkc :: fn n: int -> fn -> int do  c := n  fn -> int do c += 1  c end  end
     adder :: fn a: int -> fn int -> int do  fn b: int -> int do a + b end  end
     use2 :: fn f: fn -> int -> int do  f() * 10 + f()  end
     app :: fn g: fn int -> int, x: int -> int do  g(x)  end
     pass :: fn m: int -> fn -> int do  mkc(m + 100)  end
     start :: fn do
       print(use2(mkc(0)))  print(use2(mkc(5)))        -- 12 67: two counters, each called twice
       print(app(adder(3), 4))                         -- 7
       print(use2(pass(1)))                            -- 1123
     end                                                                                          *)
Definition tfn0 := TFn [] [] tint false sp0.
Definition ex_prog13 : resolved :=
  mkResolved
    [mkVar 0 "print" sp0 true Const; mkVar 1 "mkc" sp0 true Const; mkVar 2 "adder" sp0 true Const; mkVar 3 "use2" sp0 true Const;
     mkVar 4 "app" sp0 true Const; mkVar 5 "pass" sp0 true Const; mkVar 6 "start" sp0 true Const; mkVar 7 "== STACK ==" sp0 false Const;
     mkVar 8 "n" sp0 false Const; mkVar 9 "c" sp0 false Mutable; mkVar 10 "a" sp0 false Const; mkVar 11 "b" sp0 false Const;
     mkVar 12 "f" sp0 false Const; mkVar 13 "g" sp0 false Const; mkVar 14 "x" sp0 false Const; mkVar 15 "m" sp0 false Const]
    [SExternalDefinition "print" 0 Const (TImplied sp0) sp0;
     SDefinition "mkc" 1 Const (TImplied sp0)
       (EFunction "lambda" [("n"%string, 8%N, sp0, tint)] tfn0
          [SDefinition "c" 9 Mutable tint (ERead 8 sp0) sp0;
           SStatementExpression
             (EFunction "lambda" [] tint
                [SAssignment Add (ERead 9 sp0) (EInt 1 sp0) sp0; SStatementExpression (ERead 9 sp0) sp0] false sp0) sp0] false sp0) sp0;
     SDefinition "adder" 2 Const (TImplied sp0)
       (EFunction "lambda" [("a"%string, 10%N, sp0, tint)] tfn1
          [SStatementExpression
             (EFunction "lambda" [("b"%string, 11%N, sp0, tint)] tint
                [SStatementExpression (EBinOp Add (ERead 10 sp0) (ERead 11 sp0) sp0) sp0] false sp0) sp0] false sp0) sp0;
     SDefinition "use2" 3 Const (TImplied sp0)
       (EFunction "lambda" [("f"%string, 12%N, sp0, tfn0)] tint
          [SStatementExpression (EBinOp Add (EBinOp Mul (call 12 []) (EInt 10 sp0) sp0) (call 12 []) sp0) sp0] false sp0) sp0;
     SDefinition "app" 4 Const (TImplied sp0)
       (EFunction "lambda" [("g"%string, 13%N, sp0, tfn1); ("x"%string, 14%N, sp0, tint)] tint
          [SStatementExpression (call 13 [ERead 14 sp0]) sp0] false sp0) sp0;
     SDefinition "pass" 5 Const (TImplied sp0)
       (EFunction "lambda" [("m"%string, 15%N, sp0, tint)] tfn0
          [SStatementExpression (call 1 [EBinOp Add (ERead 15 sp0) (EInt 100 sp0) sp0]) sp0] false sp0) sp0;
     SDefinition "start" 6 Const (TImplied sp0)
       (EFunction "lambda" [] (TImplied sp0)
          [SStatementExpression (call 0 [call 3 [call 1 [EInt 0 sp0]]]) sp0;
           SStatementExpression (call 0 [call 3 [call 1 [EInt 5 sp0]]]) sp0;
           SStatementExpression (call 0 [call 4 [call 2 [EInt 3 sp0]; EInt 4 sp0]]) sp0;
           SStatementExpression (call 0 [call 3 [call 5 [EInt 1 sp0]]]) sp0]
          false sp0) sp0].

Example C01_example13_hypotheses :
  frag 30 ex_prog13 = true /\
  (exists code, lower 30 ex_prog13 = Ok code) /\
  SyltSem.run 60 ex_prog13 = mkRun ["12"; "67"; "7"; "1123"]%string ODone.
Proof. split; [vm_compute; reflexivity | split; [eexists; vm_compute; reflexivity | vm_compute; reflexivity]]. Qed.

Theorem C01_returned_closures_by_theorem code :
  lower 30 ex_prog13 = Ok code ->
  exists m, forall m', (m <= m')%nat ->
    let out := LuaCore.run_block Lua53 m' (chunk_ast code) in
    o_trace out = ["12"; "67"; "7"; "1123"]%string /\ o_final out = FDone.
Proof.
  intros Hl.
  assert (Hf : frag 30 ex_prog13 = true) by (vm_compute; reflexivity).
  assert (Hr : SyltSem.run 60 ex_prog13 = mkRun ["12"; "67"; "7"; "1123"]%string ODone) by (vm_compute; reflexivity).
  destruct (C01_fragment_preservation 30 ex_prog13 code 60 _ Hf Hl Hr I) as (m & Hm).
  exists m. intros m' Hle. specialize (Hm m' Hle). cbv zeta in *. destruct Hm as [Ht Hfin]. split; [exact Ht|].
  cbn [r_final] in Hfin. destruct (o_final _); try contradiction. reflexivity.
Qed.

(* ---- a fourteenth program (stage 4h): function-valued constants.  c1 and c2 hold two closures returned by two calls
   of mkc: each keeps its own counter between the calls ----
     (mkc, adder, use2, app as in the thirteenth program)
     gc :: mkc(100)                                              -- an outer definition
     start :: fn do
       print(gc())  print(use2(gc))                              -- 101 1123
       c1 :: mkc(0)   c2 :: mkc(10)
       print(c1())  print(c1())  print(c2())  print(c1())        -- 1 2 11 3
       add3 :: adder(3)
       print(add3(4))  print(app(add3, 10))                      -- 7 13
       print(use2(c2))                                           -- 12 * 10 + 13
     end                                                                                          *)
Definition ex_prog14 : resolved :=
  mkResolved
    [mkVar 0 "print" sp0 true Const; mkVar 1 "mkc" sp0 true Const; mkVar 2 "adder" sp0 true Const; mkVar 3 "use2" sp0 true Const;
     mkVar 4 "app" sp0 true Const; mkVar 5 "start" sp0 true Const; mkVar 6 "== STACK ==" sp0 false Const;
     mkVar 7 "n" sp0 false Const; mkVar 8 "c" sp0 false Mutable; mkVar 9 "a" sp0 false Const; mkVar 10 "b" sp0 false Const;
     mkVar 11 "f" sp0 false Const; mkVar 12 "g" sp0 false Const; mkVar 13 "x" sp0 false Const;
     mkVar 14 "c1" sp0 false Const; mkVar 15 "c2" sp0 false Const; mkVar 16 "add3" sp0 false Const; mkVar 17 "gc" sp0 true Const]
    [SExternalDefinition "print" 0 Const (TImplied sp0) sp0;
     SDefinition "mkc" 1 Const (TImplied sp0)
       (EFunction "lambda" [("n"%string, 7%N, sp0, tint)] tfn0
          [SDefinition "c" 8 Mutable tint (ERead 7 sp0) sp0;
           SStatementExpression
             (EFunction "lambda" [] tint
                [SAssignment Add (ERead 8 sp0) (EInt 1 sp0) sp0; SStatementExpression (ERead 8 sp0) sp0] false sp0) sp0] false sp0) sp0;
     SDefinition "adder" 2 Const (TImplied sp0)
       (EFunction "lambda" [("a"%string, 9%N, sp0, tint)] tfn1
          [SStatementExpression
             (EFunction "lambda" [("b"%string, 10%N, sp0, tint)] tint
                [SStatementExpression (EBinOp Add (ERead 9 sp0) (ERead 10 sp0) sp0) sp0] false sp0) sp0] false sp0) sp0;
     SDefinition "use2" 3 Const (TImplied sp0)
       (EFunction "lambda" [("f"%string, 11%N, sp0, tfn0)] tint
          [SStatementExpression (EBinOp Add (EBinOp Mul (call 11 []) (EInt 10 sp0) sp0) (call 11 []) sp0) sp0] false sp0) sp0;
     SDefinition "app" 4 Const (TImplied sp0)
       (EFunction "lambda" [("g"%string, 12%N, sp0, tfn1); ("x"%string, 13%N, sp0, tint)] tint
          [SStatementExpression (call 12 [ERead 13 sp0]) sp0] false sp0) sp0;
     SDefinition "gc" 17 Const (TImplied sp0) (call 1 [EInt 100 sp0]) sp0;
     SDefinition "start" 5 Const (TImplied sp0)
       (EFunction "lambda" [] (TImplied sp0)
          [SStatementExpression (call 0 [call 17 []]) sp0;
           SStatementExpression (call 0 [call 3 [ERead 17 sp0]]) sp0;
           SDefinition "c1" 14 Const (TImplied sp0) (call 1 [EInt 0 sp0]) sp0;
           SDefinition "c2" 15 Const (TImplied sp0) (call 1 [EInt 10 sp0]) sp0;
           SStatementExpression (call 0 [call 14 []]) sp0;
           SStatementExpression (call 0 [call 14 []]) sp0;
           SStatementExpression (call 0 [call 15 []]) sp0;
           SStatementExpression (call 0 [call 14 []]) sp0;
           SDefinition "add3" 16 Const (TImplied sp0) (call 2 [EInt 3 sp0]) sp0;
           SStatementExpression (call 0 [call 16 [EInt 4 sp0]]) sp0;
           SStatementExpression (call 0 [call 4 [ERead 16 sp0; EInt 10 sp0]]) sp0;
           SStatementExpression (call 0 [call 3 [ERead 15 sp0]]) sp0]
          false sp0) sp0].

Example C01_example14_hypotheses :
  frag 30 ex_prog14 = true /\
  (exists code, lower 30 ex_prog14 = Ok code) /\
  SyltSem.run 60 ex_prog14 = mkRun ["101"; "1123"; "1"; "2"; "11"; "3"; "7"; "13"; "133"]%string ODone.
Proof. split; [vm_compute; reflexivity | split; [eexists; vm_compute; reflexivity | vm_compute; reflexivity]]. Qed.

Theorem C01_function_constants_by_theorem code :
  lower 30 ex_prog14 = Ok code ->
  exists m, forall m', (m <= m')%nat ->
    let out := LuaCore.run_block Lua53 m' (chunk_ast code) in
    o_trace out = ["101"; "1123"; "1"; "2"; "11"; "3"; "7"; "13"; "133"]%string /\ o_final out = FDone.
Proof.
  intros Hl.
  assert (Hf : frag 30 ex_prog14 = true) by (vm_compute; reflexivity).
  assert (Hr : SyltSem.run 60 ex_prog14 = mkRun ["101"; "1123"; "1"; "2"; "11"; "3"; "7"; "13"; "133"]%string ODone) by (vm_compute; reflexivity).
  destruct (C01_fragment_preservation 30 ex_prog14 code 60 _ Hf Hl Hr I) as (m & Hm).
  exists m. intros m' Hle. specialize (Hm m' Hle). cbv zeta in *. destruct Hm as [Ht Hfin]. split; [exact Ht|].
  cbn [r_final] in Hfin. destruct (o_final _); try contradiction. reflexivity.
Qed.

(* ---- a fifteenth program (stage 4i): computed callees ----
     (mkc, adder as in the thirteenth program)
     curry :: fn x: int -> fn int -> fn int -> int do  fn y: int -> fn int -> int do  fn z: int -> int do x*100 + y*10 + z end  end  end
     start :: fn do
       print(adder(3)(4))                                   -- 7
       print(mkc(5)())                                      -- 6
       print((fn w: int -> int do w * 2 end)(21))           -- 42
       print(curry(1)(2)(3))                                -- 123
     end                                                                                          *)
Definition ex_prog15 : resolved :=
  mkResolved
    [mkVar 0 "print" sp0 true Const; mkVar 1 "mkc" sp0 true Const; mkVar 2 "adder" sp0 true Const; mkVar 3 "curry" sp0 true Const;
     mkVar 4 "start" sp0 true Const; mkVar 5 "== STACK ==" sp0 false Const;
     mkVar 6 "n" sp0 false Const; mkVar 7 "c" sp0 false Mutable; mkVar 8 "a" sp0 false Const; mkVar 9 "b" sp0 false Const;
     mkVar 10 "x" sp0 false Const; mkVar 11 "y" sp0 false Const; mkVar 12 "z" sp0 false Const; mkVar 13 "w" sp0 false Const]
    [SExternalDefinition "print" 0 Const (TImplied sp0) sp0;
     SDefinition "mkc" 1 Const (TImplied sp0)
       (EFunction "lambda" [("n"%string, 6%N, sp0, tint)] tfn0
          [SDefinition "c" 7 Mutable tint (ERead 6 sp0) sp0;
           SStatementExpression
             (EFunction "lambda" [] tint
                [SAssignment Add (ERead 7 sp0) (EInt 1 sp0) sp0; SStatementExpression (ERead 7 sp0) sp0] false sp0) sp0] false sp0) sp0;
     SDefinition "adder" 2 Const (TImplied sp0)
       (EFunction "lambda" [("a"%string, 8%N, sp0, tint)] tfn1
          [SStatementExpression
             (EFunction "lambda" [("b"%string, 9%N, sp0, tint)] tint
                [SStatementExpression (EBinOp Add (ERead 8 sp0) (ERead 9 sp0) sp0) sp0] false sp0) sp0] false sp0) sp0;
     SDefinition "curry" 3 Const (TImplied sp0)
       (EFunction "lambda" [("x"%string, 10%N, sp0, tint)] (TFn [] [tint] tfn1 false sp0)
          [SStatementExpression
             (EFunction "lambda" [("y"%string, 11%N, sp0, tint)] tfn1
                [SStatementExpression
                   (EFunction "lambda" [("z"%string, 12%N, sp0, tint)] tint
                      [SStatementExpression (EBinOp Add (EBinOp Mul (ERead 10 sp0) (EInt 100 sp0) sp0)
                                                       (EBinOp Add (EBinOp Mul (ERead 11 sp0) (EInt 10 sp0) sp0) (ERead 12 sp0) sp0) sp0) sp0] false sp0) sp0] false sp0) sp0] false sp0) sp0;
     SDefinition "start" 4 Const (TImplied sp0)
       (EFunction "lambda" [] (TImplied sp0)
          [SStatementExpression (call 0 [Resolved.ECall (call 2 [EInt 3 sp0]) [EInt 4 sp0] sp0]) sp0;
           SStatementExpression (call 0 [Resolved.ECall (call 1 [EInt 5 sp0]) [] sp0]) sp0;
           SStatementExpression (call 0 [Resolved.ECall (EFunction "lambda" [("w"%string, 13%N, sp0, tint)] tint
                                                    [SStatementExpression (EBinOp Mul (ERead 13 sp0) (EInt 2 sp0) sp0) sp0] false sp0) [EInt 21 sp0] sp0]) sp0;
           SStatementExpression (call 0 [Resolved.ECall (Resolved.ECall (call 3 [EInt 1 sp0]) [EInt 2 sp0] sp0) [EInt 3 sp0] sp0]) sp0]
          false sp0) sp0].

Example C01_example15_hypotheses :
  frag 30 ex_prog15 = true /\
  (exists code, lower 30 ex_prog15 = Ok code) /\
  SyltSem.run 60 ex_prog15 = mkRun ["7"; "6"; "42"; "123"]%string ODone.
Proof. split; [vm_compute; reflexivity | split; [eexists; vm_compute; reflexivity | vm_compute; reflexivity]]. Qed.

Theorem C01_computed_callees_by_theorem code :
  lower 30 ex_prog15 = Ok code ->
  exists m, forall m', (m <= m')%nat ->
    let out := LuaCore.run_block Lua53 m' (chunk_ast code) in
    o_trace out = ["7"; "6"; "42"; "123"]%string /\ o_final out = FDone.
Proof.
  intros Hl.
  assert (Hf : frag 30 ex_prog15 = true) by (vm_compute; reflexivity).
  assert (Hr : SyltSem.run 60 ex_prog15 = mkRun ["7"; "6"; "42"; "123"]%string ODone) by (vm_compute; reflexivity).
  destruct (C01_fragment_preservation 30 ex_prog15 code 60 _ Hf Hl Hr I) as (m & Hm).
  exists m. intros m' Hle. specialize (Hm m' Hle). cbv zeta in *. destruct Hm as [Ht Hfin]. split; [exact Ht|].
  cbn [r_final] in Hfin. destruct (o_final _); try contradiction. reflexivity.
Qed.

(* ---- a sixteenth program (stage 4j): `ret` of a function value ----
     twice :: fn f: fn int -> int -> fn int -> int do  ret fn x: int -> int do f(f(x)) end  end
     inc :: fn a: int -> int do a + 1 end
     pick :: fn n: int -> fn int -> int do  k :: n * 10  ret twice(fn y: int -> int do y + k end)  end
     start :: fn do  print(twice(inc)(5))  print(pick(2)(1))  end                     -- 7 41          *)
Definition ex_prog16 : resolved :=
  mkResolved
    [mkVar 0 "print" sp0 true Const; mkVar 1 "twice" sp0 true Const; mkVar 2 "inc" sp0 true Const; mkVar 3 "pick" sp0 true Const;
     mkVar 4 "start" sp0 true Const; mkVar 5 "== STACK ==" sp0 false Const;
     mkVar 6 "f" sp0 false Const; mkVar 7 "x" sp0 false Const; mkVar 8 "a" sp0 false Const; mkVar 9 "n" sp0 false Const; mkVar 10 "k" sp0 false Const; mkVar 11 "y" sp0 false Const]
    [SExternalDefinition "print" 0 Const (TImplied sp0) sp0;
     SDefinition "twice" 1 Const (TImplied sp0)
       (EFunction "lambda" [("f"%string, 6%N, sp0, tfn1)] tfn1
          [SRet (Some (EFunction "lambda" [("x"%string, 7%N, sp0, tint)] tint
                         [SStatementExpression (call 6 [call 6 [ERead 7 sp0]]) sp0] false sp0)) sp0] false sp0) sp0;
     SDefinition "inc" 2 Const (TImplied sp0)
       (EFunction "lambda" [("a"%string, 8%N, sp0, tint)] tint
          [SStatementExpression (EBinOp Add (ERead 8 sp0) (EInt 1 sp0) sp0) sp0] false sp0) sp0;
     SDefinition "pick" 3 Const (TImplied sp0)
       (EFunction "lambda" [("n"%string, 9%N, sp0, tint)] tfn1
          [SDefinition "k" 10 Const tint (EBinOp Mul (ERead 9 sp0) (EInt 10 sp0) sp0) sp0;
           SRet (Some (call 1 [EFunction "lambda" [("y"%string, 11%N, sp0, tint)] tint
                                  [SStatementExpression (EBinOp Add (ERead 11 sp0) (ERead 10 sp0) sp0) sp0] false sp0])) sp0] false sp0) sp0;
     SDefinition "start" 4 Const (TImplied sp0)
       (EFunction "lambda" [] (TImplied sp0)
          [SStatementExpression (call 0 [Resolved.ECall (call 1 [ERead 2 sp0]) [EInt 5 sp0] sp0]) sp0;
           SStatementExpression (call 0 [Resolved.ECall (call 3 [EInt 2 sp0]) [EInt 1 sp0] sp0]) sp0]
          false sp0) sp0].

Example C01_example16_hypotheses :
  frag 30 ex_prog16 = true /\
  (exists code, lower 30 ex_prog16 = Ok code) /\
  SyltSem.run 60 ex_prog16 = mkRun ["7"; "41"]%string ODone.
Proof. split; [vm_compute; reflexivity | split; [eexists; vm_compute; reflexivity | vm_compute; reflexivity]]. Qed.

Theorem C01_ret_function_value_by_theorem code :
  lower 30 ex_prog16 = Ok code ->
  exists m, forall m', (m <= m')%nat ->
    let out := LuaCore.run_block Lua53 m' (chunk_ast code) in
    o_trace out = ["7"; "41"]%string /\ o_final out = FDone.
Proof.
  intros Hl.
  assert (Hf : frag 30 ex_prog16 = true) by (vm_compute; reflexivity).
  assert (Hr : SyltSem.run 60 ex_prog16 = mkRun ["7"; "41"]%string ODone) by (vm_compute; reflexivity).
  destruct (C01_fragment_preservation 30 ex_prog16 code 60 _ Hf Hl Hr I) as (m & Hm).
  exists m. intros m' Hle. specialize (Hm m' Hle). cbv zeta in *. destruct Hm as [Ht Hfin]. split; [exact Ht|].
  cbn [r_final] in Hfin. destruct (o_final _); try contradiction. reflexivity.
Qed.

(* ---- a seventeenth program (stage 4k): early returns of function values ----
     inc :: fn a: int -> int do a + 1 end
     pick :: fn n: int -> fn int -> int do
       k :: n * 10
       if n == 0 do ret inc end
       if n == 1 do ret fn y: int -> int do y + k end end
       fn z: int -> int do z * k end
     end
     start :: fn do  print(pick(0)(5))  print(pick(1)(5))  print(pick(3)(5))  end          -- 6 15 150   *)
Definition guard c fx := SStatementExpression (EIf [IfBranch (Some c) [SRet (Some fx) sp0] sp0] sp0) sp0.
Definition ex_prog17 : resolved :=
  mkResolved
    [mkVar 0 "print" sp0 true Const; mkVar 1 "inc" sp0 true Const; mkVar 2 "pick" sp0 true Const;
     mkVar 3 "start" sp0 true Const; mkVar 4 "== STACK ==" sp0 false Const;
     mkVar 5 "a" sp0 false Const; mkVar 6 "n" sp0 false Const; mkVar 7 "k" sp0 false Const; mkVar 8 "y" sp0 false Const; mkVar 9 "z" sp0 false Const]
    [SExternalDefinition "print" 0 Const (TImplied sp0) sp0;
     SDefinition "inc" 1 Const (TImplied sp0)
       (EFunction "lambda" [("a"%string, 5%N, sp0, tint)] tint
          [SStatementExpression (EBinOp Add (ERead 5 sp0) (EInt 1 sp0) sp0) sp0] false sp0) sp0;
     SDefinition "pick" 2 Const (TImplied sp0)
       (EFunction "lambda" [("n"%string, 6%N, sp0, tint)] tfn1
          [SDefinition "k" 7 Const tint (EBinOp Mul (ERead 6 sp0) (EInt 10 sp0) sp0) sp0;
           guard (EBinOp Equals (ERead 6 sp0) (EInt 0 sp0) sp0) (ERead 1 sp0);
           guard (EBinOp Equals (ERead 6 sp0) (EInt 1 sp0) sp0)
                 (EFunction "lambda" [("y"%string, 8%N, sp0, tint)] tint
                    [SStatementExpression (EBinOp Add (ERead 8 sp0) (ERead 7 sp0) sp0) sp0] false sp0);
           SStatementExpression
             (EFunction "lambda" [("z"%string, 9%N, sp0, tint)] tint
                [SStatementExpression (EBinOp Mul (ERead 9 sp0) (ERead 7 sp0) sp0) sp0] false sp0) sp0] false sp0) sp0;
     SDefinition "start" 3 Const (TImplied sp0)
       (EFunction "lambda" [] (TImplied sp0)
          [SStatementExpression (call 0 [Resolved.ECall (call 2 [EInt 0 sp0]) [EInt 5 sp0] sp0]) sp0;
           SStatementExpression (call 0 [Resolved.ECall (call 2 [EInt 1 sp0]) [EInt 5 sp0] sp0]) sp0;
           SStatementExpression (call 0 [Resolved.ECall (call 2 [EInt 3 sp0]) [EInt 5 sp0] sp0]) sp0]
          false sp0) sp0].

Example C01_example17_hypotheses :
  frag 30 ex_prog17 = true /\
  (exists code, lower 30 ex_prog17 = Ok code) /\
  SyltSem.run 60 ex_prog17 = mkRun ["6"; "15"; "150"]%string ODone.
Proof. split; [vm_compute; reflexivity | split; [eexists; vm_compute; reflexivity | vm_compute; reflexivity]]. Qed.

Theorem C01_early_ret_function_value_by_theorem code :
  lower 30 ex_prog17 = Ok code ->
  exists m, forall m', (m <= m')%nat ->
    let out := LuaCore.run_block Lua53 m' (chunk_ast code) in
    o_trace out = ["6"; "15"; "150"]%string /\ o_final out = FDone.
Proof.
  intros Hl.
  assert (Hf : frag 30 ex_prog17 = true) by (vm_compute; reflexivity).
  assert (Hr : SyltSem.run 60 ex_prog17 = mkRun ["6"; "15"; "150"]%string ODone) by (vm_compute; reflexivity).
  destruct (C01_fragment_preservation 30 ex_prog17 code 60 _ Hf Hl Hr I) as (m & Hm).
  exists m. intros m' Hle. specialize (Hm m' Hle). cbv zeta in *. destruct Hm as [Ht Hfin]. split; [exact Ht|].
  cbn [r_final] in Hfin. destruct (o_final _); try contradiction. reflexivity.
Qed.

(* ---- an eighteenth program (stage 4l): mutable variables that hold functions ----
     (inc, dbl :: fn int -> int; mkc as in the thirteenth program)
     start :: fn do
       h := inc   print(h(5))                                   -- 6
       h = dbl    print(h(5))                                   -- 10
       g :: fn x: int -> int do h(x) + 1 end   print(g(5))      -- 11: g calls the h of now
       h = fn y: int -> int do y - 1 end       print(g(5))      -- 5: and sees the assignment
       k := mkc(0)   print(k())                                 -- 1
       k = mkc(10)   print(k())  print(k())                     -- 11 12
     end                                                                                          *)
Definition asg h v := SAssignment Nop (ERead h sp0) v sp0.
Definition ex_prog18 : resolved :=
  mkResolved
    [mkVar 0 "print" sp0 true Const; mkVar 1 "inc" sp0 true Const; mkVar 2 "dbl" sp0 true Const; mkVar 3 "mkc" sp0 true Const;
     mkVar 4 "start" sp0 true Const; mkVar 5 "== STACK ==" sp0 false Const;
     mkVar 6 "a" sp0 false Const; mkVar 7 "b" sp0 false Const; mkVar 8 "n" sp0 false Const; mkVar 9 "c" sp0 false Mutable;
     mkVar 10 "h" sp0 false Mutable; mkVar 11 "g" sp0 false Const; mkVar 12 "x" sp0 false Const; mkVar 13 "y" sp0 false Const; mkVar 14 "k" sp0 false Mutable]
    [SExternalDefinition "print" 0 Const (TImplied sp0) sp0;
     SDefinition "inc" 1 Const (TImplied sp0)
       (EFunction "lambda" [("a"%string, 6%N, sp0, tint)] tint
          [SStatementExpression (EBinOp Add (ERead 6 sp0) (EInt 1 sp0) sp0) sp0] false sp0) sp0;
     SDefinition "dbl" 2 Const (TImplied sp0)
       (EFunction "lambda" [("b"%string, 7%N, sp0, tint)] tint
          [SStatementExpression (EBinOp Mul (ERead 7 sp0) (EInt 2 sp0) sp0) sp0] false sp0) sp0;
     SDefinition "mkc" 3 Const (TImplied sp0)
       (EFunction "lambda" [("n"%string, 8%N, sp0, tint)] tfn0
          [SDefinition "c" 9 Mutable tint (ERead 8 sp0) sp0;
           SStatementExpression
             (EFunction "lambda" [] tint
                [SAssignment Add (ERead 9 sp0) (EInt 1 sp0) sp0; SStatementExpression (ERead 9 sp0) sp0] false sp0) sp0] false sp0) sp0;
     SDefinition "start" 4 Const (TImplied sp0)
       (EFunction "lambda" [] (TImplied sp0)
          [SDefinition "h" 10 Mutable (TImplied sp0) (ERead 1 sp0) sp0;
           SStatementExpression (call 0 [call 10 [EInt 5 sp0]]) sp0;
           asg 10 (ERead 2 sp0);
           SStatementExpression (call 0 [call 10 [EInt 5 sp0]]) sp0;
           SDefinition "g" 11 Const (TImplied sp0)
             (EFunction "lambda" [("x"%string, 12%N, sp0, tint)] tint
                [SStatementExpression (EBinOp Add (call 10 [ERead 12 sp0]) (EInt 1 sp0) sp0) sp0] false sp0) sp0;
           SStatementExpression (call 0 [call 11 [EInt 5 sp0]]) sp0;
           asg 10 (EFunction "lambda" [("y"%string, 13%N, sp0, tint)] tint
                     [SStatementExpression (EBinOp Sub (ERead 13 sp0) (EInt 1 sp0) sp0) sp0] false sp0);
           SStatementExpression (call 0 [call 11 [EInt 5 sp0]]) sp0;
           SDefinition "k" 14 Mutable (TImplied sp0) (call 3 [EInt 0 sp0]) sp0;
           SStatementExpression (call 0 [call 14 []]) sp0;
           asg 14 (call 3 [EInt 10 sp0]);
           SStatementExpression (call 0 [call 14 []]) sp0;
           SStatementExpression (call 0 [call 14 []]) sp0]
          false sp0) sp0].

Example C01_example18_hypotheses :
  frag 30 ex_prog18 = true /\
  (exists code, lower 30 ex_prog18 = Ok code) /\
  SyltSem.run 60 ex_prog18 = mkRun ["6"; "10"; "11"; "5"; "1"; "11"; "12"]%string ODone.
Proof. split; [vm_compute; reflexivity | split; [eexists; vm_compute; reflexivity | vm_compute; reflexivity]]. Qed.

Theorem C01_function_assignment_by_theorem code :
  lower 30 ex_prog18 = Ok code ->
  exists m, forall m', (m <= m')%nat ->
    let out := LuaCore.run_block Lua53 m' (chunk_ast code) in
    o_trace out = ["6"; "10"; "11"; "5"; "1"; "11"; "12"]%string /\ o_final out = FDone.
Proof.
  intros Hl.
  assert (Hf : frag 30 ex_prog18 = true) by (vm_compute; reflexivity).
  assert (Hr : SyltSem.run 60 ex_prog18 = mkRun ["6"; "10"; "11"; "5"; "1"; "11"; "12"]%string ODone) by (vm_compute; reflexivity).
  destruct (C01_fragment_preservation 30 ex_prog18 code 60 _ Hf Hl Hr I) as (m & Hm).
  exists m. intros m' Hle. specialize (Hm m' Hle). cbv zeta in *. destruct Hm as [Ht Hfin]. split; [exact Ht|].
  cbn [r_final] in Hfin. destruct (o_final _); try contradiction. reflexivity.
Qed.

Print Assumptions C01_fragment_preservation.
Print Assumptions C01_fragment_preservation_text.
Print Assumptions C01_activations_own_locals_by_theorem.
Print Assumptions C01_loop_iteration_closures_by_theorem.
Print Assumptions C01_strings_by_theorem.
Print Assumptions C01_functions_as_arguments_by_theorem.
Print Assumptions C01_lambdas_by_theorem.
Print Assumptions C01_returned_closures_by_theorem.
Print Assumptions C01_function_constants_by_theorem.
Print Assumptions C01_computed_callees_by_theorem.
Print Assumptions C01_ret_function_value_by_theorem.
Print Assumptions C01_early_ret_function_value_by_theorem.
Print Assumptions C01_function_assignment_by_theorem.

(* ---- source tie: the hand-written model behind these theorems mirrors the files below; the digests of their
   functions regenerated from /repo on this run equal the reviewed ones (coq/Doc/DocSrcDigest.v).  Any edit of
   such a function breaks this obligation: the differential tie and the oracle then decide (tools/check.py). *)
From Sylt Require Doc.SrcDigest Doc.DocSrcDigest Gen.GenSrcDigest.
Theorem C01_model_sources_reviewed :
  Sylt.Doc.SrcDigest.sources_reviewed ["sylt-compiler/src/intermediate.rs"%string; "sylt-compiler/src/lua.rs"%string]
    Sylt.Doc.DocSrcDigest.doc_src_digests Sylt.Gen.GenSrcDigest.src_digests = true.
Proof. vm_compute. reflexivity. Qed.
Print Assumptions C01_model_sources_reviewed.
