(* C02 beyond closed expressions: blocks with local definitions (`x := e`, `x :: e`, `x: t = e`), reads and
   assignments (`x = e`), over the expression fragment of SoundE0.
   If the type checker accepts such a block (as the body it gives to fn expression_block: the statements, then the
   value of the last expression), in any well-formed state, then the block is well typed in the obvious simple type
   system with a type environment, and the tagged evaluator with a variable store does not get stuck on it; the
   class of the block's value has the type of the value as head.
   The link between the checker and the environment is the invariant env_ok: the class of every variable in scope
   has its base type as head; leaf types never change (TcInv.head_keep), so every extension of the state keeps it. *)
From Coq Require Import String List NArith ZArith PArith Bool Lia FMapPositive.
From Sylt Require Import Syntax.Resolved Types.TyGraph Types.Tc Types.Ctx Types.TcInv Types.Reject Types.Mismatch
     Types.ShapesDecl Types.SoundE0.
Import ListNotations.
Local Open Scope tc_scope.

(* ------------------------------------------------------------------ the fragment *)

Inductive e1 :=
| I1 (z : Z) | F1 (r : string) | S1 (s : string) | B1 (b : bool)
| Bin1 (op : binop) (a b : e1)
| Un1 (op : uniop) (a : e1)
| If1 (c a b : e1)
| R1 (x : N).                                   (* read of a local variable *)

Inductive s1 :=
| D1 (x : N) (kind : varkind) (annot : option bty) (e : e1)     (* x := e, x :: e, x: t = e, x: t : e *)
| A1 (x : N) (e : e1)                                          (* x = e *)
| X1 (e : e1).                                                 (* e as a statement *)

Fixpoint to_expr1 (sp : span) (e : e1) : expr :=
  match e with
  | I1 z => EInt z sp | F1 r => EFloat r sp | S1 s => EStr s sp | B1 b => EBool b sp
  | Bin1 op a b => EBinOp op (to_expr1 sp a) (to_expr1 sp b) sp
  | Un1 op a => EUniOp op (to_expr1 sp a) sp
  | If1 c a b =>
    EIf [IfBranch (Some (to_expr1 sp c)) [SStatementExpression (to_expr1 sp a) sp] sp;
         IfBranch None [SStatementExpression (to_expr1 sp b) sp] sp] sp
  | R1 x => ERead x sp
  end.

Definition base_of (t : bty) : basety := match t with TI => BInt | TF => BFloat | TS => BStr | TB => BBool end.

Definition to_stmt1 (sp : span) (st : s1) : stmt :=
  match st with
  | D1 x k None e => SDefinition "" x k (TImplied sp) (to_expr1 sp e) sp
  | D1 x k (Some t) e => SDefinition "" x k (TResolved (base_of t) sp) (to_expr1 sp e) sp
  | A1 x e => SAssignment Nop (ERead x sp) (to_expr1 sp e) sp
  | X1 e => SStatementExpression (to_expr1 sp e) sp
  end.

(* the statements of a block whose value is the value of e *)
Definition to_block1 (sp : span) (ss : list s1) (e : e1) : list stmt :=
  map (to_stmt1 sp) ss ++ [SStatementExpression (to_expr1 sp e) sp].

(* ------------------------------------------------------------------ simple types with an environment *)

Definition tenv := list (N * bty).
Fixpoint tlookup (G : tenv) (x : N) : option bty :=
  match G with [] => None | (y, t) :: r => if N.eqb x y then Some t else tlookup r x end.

Fixpoint ty1 (G : tenv) (e : e1) : option bty :=
  match e with
  | I1 _ => Some TI | F1 _ => Some TF | S1 _ => Some TS | B1 _ => Some TB
  | Bin1 op a b => match ty1 G a, ty1 G b with Some ta, Some tb => bin_ty op ta tb | _, _ => None end
  | Un1 op a => match ty1 G a with Some ta => un_ty op ta | None => None end
  | If1 c a b =>
    match ty1 G c, ty1 G a, ty1 G b with
    | Some TB, Some ta, Some tb => if bty_eqb ta tb then Some ta else None
    | _, _, _ => None
    end
  | R1 x => tlookup G x
  end.

Definition ty_stmt1 (G : tenv) (st : s1) : option tenv :=
  match st with
  | D1 x _ annot e =>
    match ty1 G e with
    | Some t => match annot with
                | Some t0 => if bty_eqb t0 t then Some ((x, t) :: G) else None
                | None => Some ((x, t) :: G)
                end
    | None => None
    end
  | A1 x e =>
    match ty1 G e, tlookup G x with
    | Some t, Some tx => if bty_eqb t tx then Some G else None
    | _, _ => None
    end
  | X1 e => match ty1 G e with Some _ => Some G | None => None end
  end.

Fixpoint ty_stmts1 (G : tenv) (ss : list s1) : option tenv :=
  match ss with
  | [] => Some G
  | st :: r => match ty_stmt1 G st with Some G' => ty_stmts1 G' r | None => None end
  end.

Definition ty_block1 (G : tenv) (ss : list s1) (e : e1) : option bty :=
  match ty_stmts1 G ss with Some G' => ty1 G' e | None => None end.

(* the fragment: no division, every variable that is read or assigned has been defined in the block *)
Fixpoint frag1 (bound : list N) (e : e1) : bool :=
  match e with
  | Bin1 op a b => (match op with Nop | Div => false | _ => true end) && frag1 bound a && frag1 bound b
  | Un1 _ a => frag1 bound a
  | If1 c a b => frag1 bound c && frag1 bound a && frag1 bound b
  | R1 x => existsb (N.eqb x) bound
  | _ => true
  end.

Fixpoint frag_stmts1 (bound : list N) (ss : list s1) (e : e1) : bool :=
  match ss with
  | [] => frag1 bound e
  | D1 x _ _ e0 :: r => frag1 bound e0 && frag_stmts1 (x :: bound) r e
  | A1 x e0 :: r => existsb (N.eqb x) bound && frag1 bound e0 && frag_stmts1 bound r e
  | X1 e0 :: r => frag1 bound e0 && frag_stmts1 bound r e
  end.

(* ------------------------------------------------------------------ the tagged evaluator with a store *)

Section Eval1.
  Variable farith : binop -> string -> string -> string.
  Variable fneg : string -> string.
  Variable fcmp : binop -> string -> string -> bool.
  Variable of_int : Z -> string.
  Variable scmp : binop -> string -> string -> bool.

  Definition store := list (N * value).
  Fixpoint slookup (r : store) (x : N) : option value :=
    match r with [] => None | (y, v) :: q => if N.eqb x y then Some v else slookup q x end.

  Fixpoint eval1 (r : store) (e : e1) : option value :=
    match e with
    | I1 z => Some (VInt z) | F1 x => Some (VFloat x) | S1 s => Some (VStr s) | B1 b => Some (VBool b)
    | Bin1 op a b => match eval1 r a, eval1 r b with
                     | Some x, Some y => eval_bin farith fcmp of_int scmp op x y | _, _ => None end
    | Un1 op a => match eval1 r a with Some x => eval_un fneg op x | None => None end
    | If1 c a b =>
      match eval1 r c, eval1 r a, eval1 r b with
      | Some (VBool true), Some x, Some _ => Some x
      | Some (VBool false), Some _, Some y => Some y
      | _, _, _ => None
      end
    | R1 x => slookup r x                         (* None = stuck: an undefined variable *)
    end.

  Definition exec1 (r : store) (st : s1) : option store :=
    match st with
    | D1 x _ _ e | A1 x e => match eval1 r e with Some v => Some ((x, v) :: r) | None => None end
    | X1 e => match eval1 r e with Some _ => Some r | None => None end
    end.

  Fixpoint run1 (r : store) (ss : list s1) (e : e1) : option value :=
    match ss with
    | [] => eval1 r e
    | st :: q => match exec1 r st with Some r' => run1 r' q e | None => None end
    end.

  (* the store agrees with the environment *)
  Definition store_ok (G : tenv) (r : store) : Prop :=
    forall x t, tlookup G x = Some t -> exists v, slookup r x = Some v /\ tag v = t.

  Lemma typed_eval1 G r e t : store_ok G r -> ty1 G e = Some t -> exists v, eval1 r e = Some v /\ tag v = t.
  Proof.
    intros SO. revert t. induction e as [z|x|s|b|op a IHa b IHb|op a IHa|c IHc a IHa b IHb|x]; intros t H; cbn [ty1 eval1] in *.
    - injection H as <-. eauto.
    - injection H as <-. eauto.
    - injection H as <-. eauto.
    - injection H as <-. eauto.
    - destruct (ty1 G a) as [ta|]; [|discriminate]. destruct (ty1 G b) as [tb|]; [|discriminate].
      destruct (IHa _ eq_refl) as (x & -> & Tx). destruct (IHb _ eq_refl) as (y & -> & Ty).
      destruct op, x, y; cbn in Tx, Ty; subst ta tb; cbn in H; try discriminate;
        injection H as <-; cbn; eauto.
    - destruct (ty1 G a) as [ta|]; [|discriminate]. destruct (IHa _ eq_refl) as (x & -> & Tx).
      destruct op, x; cbn in Tx; subst ta; cbn in H; try discriminate; injection H as <-; cbn; eauto.
    - destruct (ty1 G c) as [[]|]; try discriminate.
      destruct (ty1 G a) as [ta|]; [|discriminate]. destruct (ty1 G b) as [tb|]; [|discriminate].
      destruct (bty_eqb ta tb) eqn:E; [|discriminate]. injection H as <-. apply bty_eqb_eq in E. subst tb.
      destruct (IHc _ eq_refl) as (vc & -> & Tc). destruct (IHa _ eq_refl) as (x & -> & Tx).
      destruct (IHb _ eq_refl) as (y & -> & Ty). destruct vc; cbn in Tc; try discriminate. destruct b0; eauto.
    - exact (SO _ _ H).
  Qed.

  Lemma store_ok_cons G r x t v : store_ok G r -> tag v = t -> store_ok ((x, t) :: G) ((x, v) :: r).
  Proof.
    intros SO T y ty H. cbn [tlookup slookup] in *. destruct (N.eqb y x); [injection H as <-; eauto|exact (SO _ _ H)].
  Qed.

  Lemma store_ok_update G r x t v : store_ok G r -> tlookup G x = Some t -> tag v = t -> store_ok G ((x, v) :: r).
  Proof.
    intros SO Hx T y ty H. cbn [slookup]. destruct (N.eqb_spec y x) as [->|N]; [|exact (SO _ _ H)].
    rewrite Hx in H. injection H as <-. eauto.
  Qed.

  Lemma typed_exec1 G r st G' : store_ok G r -> ty_stmt1 G st = Some G' -> exists r', exec1 r st = Some r' /\ store_ok G' r'.
  Proof.
    intros SO H. destruct st as [x k annot e|x e|e]; cbn [ty_stmt1 exec1] in *.
    - destruct (ty1 G e) as [t|] eqn:Et; [|discriminate]. destruct (typed_eval1 _ _ _ _ SO Et) as (v & -> & Tv).
      assert (G' = (x, t) :: G) by (destruct annot as [t0|]; [destruct (bty_eqb t0 t); [|discriminate]|]; now injection H).
      subst G'. eexists. split; [reflexivity|]. now apply store_ok_cons.
    - destruct (ty1 G e) as [t|] eqn:Et; [|discriminate]. destruct (tlookup G x) as [tx|] eqn:Ex; [|discriminate].
      destruct (bty_eqb t tx) eqn:Eq; [|discriminate]. injection H as <-. apply bty_eqb_eq in Eq. subst tx.
      destruct (typed_eval1 _ _ _ _ SO Et) as (v & -> & Tv). eexists. split; [reflexivity|]. eapply store_ok_update; eassumption.
    - destruct (ty1 G e) as [t|] eqn:Et; [|discriminate]. injection H as <-.
      destruct (typed_eval1 _ _ _ _ SO Et) as (v & -> & Tv). eauto.
  Qed.

  (* well-typed blocks do not get stuck *)
  Theorem typed_run1 : forall ss G r e t,
    store_ok G r -> ty_block1 G ss e = Some t -> exists v, run1 r ss e = Some v /\ tag v = t.
  Proof.
    unfold ty_block1. induction ss as [|st ss IH]; intros G r e t SO H; cbn [ty_stmts1 run1] in *.
    - eapply typed_eval1; eassumption.
    - destruct (ty_stmt1 G st) as [G'|] eqn:Es; [|discriminate].
      destruct (typed_exec1 _ _ _ _ SO Es) as (r' & -> & SO'). eapply IH; eassumption.
  Qed.
End Eval1.

(* ------------------------------------------------------------------ accepted => typed *)

Section Accepted1.
  Variable kinds : PositiveMap.t varkind.
  Variable g : nat.
  Notation G := (gfix g).
  Notation afix := (afix kinds G).
  Let PG : gpres G := gfix_pres g.
  Let PA f : apres (afix f) := afix_pres kinds G PG f.

  (* the class of every variable in scope has the variable's type *)
  Definition env_ok (E : tenv) (s : st) : Prop :=
    forall x t, tlookup E x = Some t -> head s (N.succ_pos x) = Some (bty_head t).

  Lemma env_ok_ext E s s' : wf s -> ext s s' -> env_ok E s -> env_ok E s'.
  Proof. intros _ X H x t L. exact (head_keep _ _ _ _ X (H _ _ L) (rigid_bty t)). Qed.

  Notation SE E := (sound_expr kinds g (env_ok E)).

  Lemma bound_lookup E x : existsb (N.eqb x) (map fst E) = true -> exists t, tlookup E x = Some t.
  Proof.
    induction E as [|[y t] E IH]; cbn [map existsb fst tlookup]; [discriminate|].
    destruct (N.eqb x y); [eauto|exact IH].
  Qed.

  Lemma sound_read E x t sp : tlookup E x = Some t -> SE E (ERead x sp) (Some t).
  Proof.
    intros L f ctx s r s' W HI H. destruct f as [|f]; [discriminate|]. cbn [Tc.afix astep r_expr] in H. unfold expr_body in H.
    apply bind_inv in H as ([er ex] & s1 & H1 & H). cbv beta iota in H1.
    apply bind_inv in H1 as (tn & s2 & Ht & H1). apply is_type_name_inv in Ht as [-> _].
    destruct tn; [discriminate|].
    apply bind_inv in H1 as (k & s3 & Hk & H1).
    assert (s3 = s) by (unfold var_kind in Hk; destruct (PositiveMap.find _ kinds); [now injection Hk|discriminate]).
    subst s3. destruct (inside_pure ctx && negb (immutable k)); [discriminate|].
    apply bind_inv in H1 as (t0 & s4 & Hvt & H1). apply ShapesDecl_var_ty_inv in Hvt as [-> ->].
    injection H1 as <- <- <-.
    pose proof (HI _ _ L) as Hh. destruct (tail_base g _ _ _ _ _ _ Hh H) as [-> ->].
    split; [assumption|]. split; [apply ext_refl|]. eauto.
  Qed.

  (* accepted expressions are typed in the environment *)
  Theorem accepted_typed1 E sp : forall e, frag1 (map fst E) e = true -> SE E (to_expr1 sp e) (ty1 E e).
  Proof.
    pose proof (env_ok_ext E) as IE.
    induction e as [z|r|s|b|op a IHa b IHb|op a IHa|c IHc a IHa b IHb|x]; cbn [to_expr1 ty1 frag1]; intros Hf;
      repeat match goal with
             | H : _ && _ = true |- _ => apply andb_true_iff in H as [? ?]
             end;
      try specialize (IHa ltac:(assumption)); try specialize (IHb ltac:(assumption)); try specialize (IHc ltac:(assumption)).
    - apply (sound_lit kinds g _ _ TI). reflexivity.
    - apply (sound_lit kinds g _ _ TF). reflexivity.
    - apply (sound_lit kinds g _ _ TS). reflexivity.
    - apply (sound_lit kinds g _ _ TB). reflexivity.
    - change (match ty1 E a with Some ta => match ty1 E b with Some tb => bin_ty op ta tb | None => None end | None => None end)
        with (lift2 (bin_ty op) (ty1 E a) (ty1 E b)).
      destruct op.
      + discriminate.
      + apply (sound_equ kinds g _ IE); auto.
      + apply (sound_equ kinds g _ IE); auto.
      + apply (sound_cmp kinds g _ IE); auto.
      + apply (sound_cmpequ kinds g _ IE); auto.
      + apply (sound_cmp kinds g _ IE); auto.
      + apply (sound_cmpequ kinds g _ IE); auto.
      + apply (sound_equ kinds g _ IE); auto.
      + apply (sound_arith kinds g _ IE Add AAdd); auto.
      + apply (sound_arith kinds g _ IE Sub ASub); auto.
      + apply (sound_arith kinds g _ IE Mul AMul); auto 6.
      + discriminate.
      + apply (sound_andor kinds g _ IE); auto.
      + apply (sound_andor kinds g _ IE); auto.
    - destruct op; [apply (sound_neg kinds g)|apply (sound_not kinds g)]; assumption.
    - apply (sound_if kinds g _ IE); assumption.
    - destruct (bound_lookup _ _ Hf) as [t L]. rewrite L. now apply sound_read.
  Qed.

  Lemma to_expr1_not_fn sp e {A} (k1 : list (string * N * span * ty) -> ty -> bool -> M A) (d : M A) :
    match to_expr1 sp e with EFunction _ params rty _ pure _ => k1 params rty pure | _ => d end = d.
  Proof. destruct e; reflexivity. Qed.

  Lemma env_ok_cons E x t s :
    env_ok E s -> head s (N.succ_pos x) = Some (bty_head t) -> env_ok ((x, t) :: E) s.
  Proof.
    intros H Hx y ty L. cbn [tlookup] in L. destruct (N.eqb_spec y x) as [->|N]; [injection L as <-; exact Hx|exact (H _ _ L)].
  Qed.

  Definition frag_stmt1 (bound : list N) (st : s1) : bool :=
    match st with
    | D1 _ _ _ e | X1 e => frag1 bound e
    | A1 x e => existsb (N.eqb x) bound && frag1 bound e
    end.

  (* accepted statements are typed, and the environment they leave describes the state they leave *)
  Lemma accepted_stmt1 E sp st f ctx s r s' :
    frag_stmt1 (map fst E) st = true ->
    wf s -> env_ok E s -> r_stmt (afix f) (to_stmt1 sp st) ctx s = Ok (r, s') ->
    wf s' /\ ext s s' /\ exists E', ty_stmt1 E st = Some E' /\ env_ok E' s'.
  Proof.
    intros Hf W HI H. destruct (ap_stmt _ (PA f) _ _ _ _ _ W H) as [W' X']. split; [assumption|]. split; [assumption|].
    destruct f as [|f]; [discriminate|]. cbn [Tc.afix astep r_stmt] in H.
    destruct st as [x k annot e|x e|e]; cbn [ty_stmt1 frag_stmt1] in *.
    - (* definition *)
      assert (Hd : definition kinds G (afix f) x k (match annot with Some t => TResolved (base_of t) sp | None => TImplied sp end)
                     (to_expr1 sp e) sp ctx s = Ok (r, s')) by (destruct annot; exact H).
      clear H. unfold definition in Hd. destruct (inside_pure ctx && negb (immutable k)); [discriminate|].
      apply bind_inv in Hd as (vt & s0 & Hv & Hd). apply ShapesDecl_var_ty_inv in Hv as [-> ->].
      rewrite to_expr1_not_fn in Hd. rewrite (bind_ok (ret tt) _ s tt s eq_refl) in Hd.
      apply bind_inv_pres0 in Hd as (dt & s2 & Hr & W2 & E2 & Hd); [|apply pres_resolve_type, PA|assumption].
      apply bind_inv_pres0 in Hd as (u3 & s3 & Hc & W3 & E3 & Hd); [|apply pres_add_constraint|assumption].
      apply bind_inv in Hd as (u4 & s4 & Hu & Hd).
      destruct (unify_result_head _ _ _ _ _ _ _ W3 Hu) as (W4 & E4 & _ & Heq4).
      apply bind_inv in Hd as ([vr vty] & s5 & He & Hd).
      assert (E04 : ext s s4) by (eapply ext_trans; [exact E2|]; eapply ext_trans; [exact E3|exact E4]).
      destruct (accepted_typed1 E sp e Hf _ _ _ _ _ W4 (env_ok_ext _ _ _ W E04 HI) He) as (W5 & E5 & (t & Ety & Hvty)).
      cbn [snd] in Hvty. rewrite Ety.
      apply bind_inv in Hd as (u6 & s6 & Hu6 & Hd). injection Hd as _ <-.
      destruct (unify_result_head _ _ _ _ _ _ _ W5 Hu6) as (W6 & E6 & _ & Heq6).
      assert (Hx6 : head s6 (N.succ_pos x) = Some (bty_head t)).
      { rewrite Heq6. exact (head_keep _ _ _ _ E6 Hvty (rigid_bty t)). }
      assert (EO : env_ok ((x, t) :: E) s6).
      { apply env_ok_cons; [|exact Hx6]. eapply env_ok_ext; [exact W| |exact HI].
        eapply ext_trans; [exact E04|]. eapply ext_trans; [exact E5|exact E6]. }
      destruct annot as [t0|]; [|eauto].
      (* the annotation and the value agree, or the last unification would have failed *)
      assert (Hdt : head s2 dt = Some (bty_head t0)).
      { unfold resolve_type in Hr. apply bind_inv in Hr as (rd & s2' & Hr & Hr'). injection Hr' as <- <-.
        destruct f as [|f]; [discriminate|]. cbn [Tc.afix astep r_type] in Hr. unfold type_body in Hr.
        apply bind_inv in Hr as (i & s22 & Hp & Hr). injection Hr as <- <-. cbn [fst].
        destruct (push_spec _ _ _ _ W Hp) as (_ & _ & Hh). destruct t0; exact Hh. }
      assert (Hx5 : head s5 (N.succ_pos x) = Some (bty_head t0)).
      { eapply head_keep; [exact E5| |apply rigid_bty]. rewrite Heq4.
        eapply head_keep; [exact E4| |apply rigid_bty]. exact (head_keep _ _ _ _ E3 Hdt (rigid_bty t0)). }
      destruct (bty_eqb t0 t) eqn:Eq; [eauto|]. exfalso.
      eapply (unify_rejects g sp (N.succ_pos x) vty s5 _ _ W5 Hx5 Hvty); eauto using rigid_known, rigid_bty.
      rewrite shape_bty. exact Eq.
    - (* assignment *)
      apply andb_true_iff in Hf as [Hb Hf]. destruct (bound_lookup _ _ Hb) as [tx Lx]. rewrite Lx.
      unfold stmt_body in H. cbn [to_stmt1] in H.
      apply bind_inv in H as (u0 & s0 & Hca & H).
      assert (s0 = s).
      { unfold can_assign in Hca. apply bind_inv in Hca as (kd & sk & Hk & Hca).
        assert (sk = s) by (unfold var_kind in Hk; destruct (PositiveMap.find _ kinds); [now injection Hk|discriminate]).
        subst sk. destruct (immutable kd); [discriminate|]. now injection Hca. }
      subst s0. destruct (inside_pure ctx); [discriminate|].
      apply bind_inv in H as ([er ety] & s1 & He & H).
      destruct (accepted_typed1 E sp e Hf _ _ _ _ _ W HI He) as (W1 & E1 & (t & Ety & Hety)). cbn [snd] in Hety. rewrite Ety.
      apply bind_inv in H as ([tr tty] & s2 & Ht & H).
      destruct (sound_read E x tx sp Lx _ _ _ _ _ W1 (env_ok_ext _ _ _ W E1 HI) Ht) as (W2 & E2 & (t' & Et' & Htty)).
      injection Et' as <-. cbn [snd] in Htty.
      rewrite (bind_ok (ret tt) _ s2 tt s2 eq_refl) in H.
      apply bind_inv in H as (u3 & s3 & Hu & H).
      apply bind_inv in Hu as (u4 & s4 & Hu & _).
      destruct (bty_eqb t tx) eqn:Eq.
      + exists E. split; [reflexivity|]. eapply env_ok_ext; [exact W|exact X'|exact HI].
      + exfalso. eapply (unify_rejects g sp ety tty s2 (bty_head t) (bty_head tx) W2); eauto using rigid_known, rigid_bty.
        * exact (head_keep _ _ _ _ E2 Hety (rigid_bty t)).
        * rewrite shape_bty. exact Eq.
    - (* expression statement *)
      unfold stmt_body in H. cbn [to_stmt1] in H. apply bind_inv in H as ([er ety] & s1 & He & H). injection H as _ <-.
      destruct (accepted_typed1 E sp e Hf _ _ _ _ _ W HI He) as (W1 & E1 & (t & Ety & _)). rewrite Ety.
      exists E. split; [reflexivity|]. exact (env_ok_ext _ _ _ W X' HI).
  Qed.

  Lemma ty_stmt1_bound E st E' :
    ty_stmt1 E st = Some E' -> map fst E' = match st with D1 x _ _ _ => x :: map fst E | _ => map fst E end.
  Proof.
    destruct st as [x k annot e|x e|e]; cbn [ty_stmt1]; intros H.
    - destruct (ty1 E e) as [t|]; [|discriminate]. destruct annot as [t0|]; [destruct (bty_eqb t0 t); [|discriminate]|];
        injection H as <-; reflexivity.
    - destruct (ty1 E e); [|discriminate]. destruct (tlookup E x); [|discriminate]. destruct (bty_eqb b b0); [|discriminate].
      now injection H as <-.
    - destruct (ty1 E e); [|discriminate]. now injection H as <-.
  Qed.

  Lemma frag_stmts1_cons bound st ss e :
    frag_stmts1 bound (st :: ss) e = true ->
    frag_stmt1 bound st = true /\
    frag_stmts1 (match st with D1 x _ _ _ => x :: bound | _ => bound end) ss e = true.
  Proof.
    destruct st as [x k annot e0|x e0|e0]; cbn [frag_stmts1 frag_stmt1]; intros H.
    - apply andb_true_iff in H. exact H.
    - apply andb_true_iff in H as [H1 H2]. auto.
    - apply andb_true_iff in H. exact H.
  Qed.

  (* the statements of the block, one after the other *)
  Lemma accepted_stmts1 sp f ctx : forall ss E e acc s r s',
    frag_stmts1 (map fst E) ss e = true -> wf s -> env_ok E s ->
    foldM (fun (acc : option tyid) (st : stmt) => sr <- r_stmt (afix f) st ctx ;; unify_option G sp acc sr)
          (map (to_stmt1 sp) ss) acc s = Ok (r, s') ->
    wf s' /\ ext s s' /\ exists E', ty_stmts1 E ss = Some E' /\ env_ok E' s' /\ frag1 (map fst E') e = true.
  Proof.
    induction ss as [|st ss IH]; intros E e acc s r s' Hf W HI H; cbn [map foldM] in H.
    - injection H as <- <-. split; [assumption|]. split; [apply ext_refl|].
      exists E. split; [reflexivity|]. split; [exact HI|exact Hf].
    - apply frag_stmts1_cons in Hf as [Hf1 Hf2].
      apply bind_inv in H as (acc1 & s1 & H1 & H).
      apply bind_inv in H1 as (sr & s2 & Hs & Hu).
      destruct (accepted_stmt1 E sp st f ctx s sr s2 Hf1 W HI Hs) as (W2 & E2 & (E1 & Ty1 & EO1)).
      assert (Pu : pres (unify_option G sp acc sr)) by (pose proof PG; prs).
      destruct (Pu _ _ _ W2 Hu) as [W1 X1].
      rewrite <- (ty_stmt1_bound _ _ _ Ty1) in Hf2.
      destruct (IH E1 e acc1 s1 r s' Hf2 W1 (env_ok_ext _ _ _ W2 X1 EO1) H) as (W' & X' & (E' & Tys & EO' & Hfe)).
      split; [assumption|]. split; [eapply ext_trans; [exact E2|]; eapply ext_trans; eassumption|].
      exists E'. cbn [ty_stmts1]. rewrite Ty1. auto.
  Qed.

  Lemma last_stmt_snoc l x : last_stmt (l ++ [x]) = Some x.
  Proof.
    induction l as [|a l IH]; [reflexivity|]. cbn [app]. destruct (l ++ [x]) eqn:E; [destruct l; discriminate|].
    cbn [last_stmt]. exact IH.
  Qed.

  (* an accepted block is typed, and its value has the type of the block *)
  Theorem accepted_block1 sp ss e f ctx s r ov s' :
    frag_stmts1 [] ss e = true -> wf s ->
    expression_block G (afix f) sp (to_block1 sp ss e) ctx s = Ok ((r, ov), s') ->
    exists t v, ty_block1 [] ss e = Some t /\ ov = Some v /\ head s' v = Some (bty_head t).
  Proof.
    intros Hf W H. unfold expression_block, to_block1 in H. rewrite block_split_snoc in H. cbn [fst snd] in H.
    apply bind_inv in H as (r1 & s1 & H1 & H).
    assert (EO : env_ok [] s) by (intros x t L; discriminate).
    destruct (accepted_stmts1 sp f ctx ss [] e None s r1 s1 Hf W EO H1) as (W1 & E1 & (E' & Tys & EO' & Hfe)).
    apply bind_inv in H as ([vret v] & s2 & He & H).
    destruct (accepted_typed1 E' sp e Hfe _ _ _ _ _ W1 EO' He) as (W2 & E2 & (t & Ety & Hv)). cbn [snd] in Hv.
    apply bind_inv in H as (r' & s3 & Hu & H). injection H as <- <- <-.
    assert (Pu : pres (unify_option G sp r1 vret)) by (pose proof PG; prs).
    destruct (Pu _ _ _ W2 Hu) as [W3 E3].
    exists t, v. unfold ty_block1. rewrite Tys. split; [exact Ety|]. split; [reflexivity|].
    exact (head_keep _ _ _ _ E3 Hv (rigid_bty t)).
  Qed.

  (* the same for a block checked under an environment (the body of a function whose parameters have base types) *)
  Theorem accepted_block1_env E0 sp ss e f ctx s r ov s' :
    frag_stmts1 (map fst E0) ss e = true -> wf s -> env_ok E0 s ->
    expression_block G (afix f) sp (to_block1 sp ss e) ctx s = Ok ((r, ov), s') ->
    exists t v, ty_block1 E0 ss e = Some t /\ ov = Some v /\ head s' v = Some (bty_head t).
  Proof.
    intros Hf W EO H. unfold expression_block, to_block1 in H. rewrite block_split_snoc in H. cbn [fst snd] in H.
    apply bind_inv in H as (r1 & s1 & H1 & H).
    destruct (accepted_stmts1 sp f ctx ss E0 e None s r1 s1 Hf W EO H1) as (W1 & E1 & (E' & Tys & EO' & Hfe)).
    apply bind_inv in H as ([vret v] & s2 & He & H).
    destruct (accepted_typed1 E' sp e Hfe _ _ _ _ _ W1 EO' He) as (W2 & E2 & (t & Ety & Hv)). cbn [snd] in Hv.
    apply bind_inv in H as (r' & s3 & Hu & H). injection H as <- <- <-.
    assert (Pu : pres (unify_option G sp r1 vret)) by (pose proof PG; prs).
    destruct (Pu _ _ _ W2 Hu) as [W3 E3].
    exists t, v. unfold ty_block1. rewrite Tys. split; [exact Ety|]. split; [reflexivity|].
    exact (head_keep _ _ _ _ E3 Hv (rigid_bty t)).
  Qed.
End Accepted1.

(* ================================================================== C02_E1 *)

(* If the type checker accepts a block of the fragment (local definitions, with or without a type annotation,
   constant or mutable; assignments to variables defined in the block; reads; the expressions of C02_E0), in any
   well-formed state, any TypeCtx, with any fuel, then the tagged evaluator with a store does not get stuck on it
   (no operation on a value of the wrong tag, no undefined variable): it returns a value whose tag is the base type
   that heads the class the checker assigned to the value of the block. *)
Theorem C02_E1 : forall farith fneg fcmp of_int scmp kinds g f ctx sp ss (e : e1) s r ov s',
  frag_stmts1 [] ss e = true -> wf s ->
  expression_block (gfix g) (afix kinds (gfix g) f) sp (to_block1 sp ss e) ctx s = Ok ((r, ov), s') ->
  exists v t c, run1 farith fneg fcmp of_int scmp [] ss e = Some v /\ tag v = t /\
                ov = Some c /\ head s' c = Some (bty_head t).
Proof.
  intros farith fneg fcmp of_int scmp kinds g f ctx sp ss e s r ov s' Hf W H.
  destruct (accepted_block1 kinds g sp ss e f ctx s r ov s' Hf W H) as (t & c & Ty & -> & Hh).
  assert (SO : store_ok [] []) by (intros x tx L; discriminate).
  destruct (typed_run1 farith fneg fcmp of_int scmp ss [] [] e t SO Ty) as (v & Hv & Tv).
  exists v, t, c. auto.
Qed.
