(* The structural half of the simulation for expressions: the lowering of a fragment expression is a
   balanced code segment that the AST emitter turns into a block (cshape = Emits + frame of the inlining
   table), whatever the table it starts from.  Needed where the reference interpreter never evaluates a
   sub-expression (after a failed <=>) but the emitted block still contains its statements. *)
From Coq Require Import String Ascii List NArith ZArith QArith Bool Lia.
From Sylt Require Import Syntax.Resolved.
From Sylt Require Sem.Values Sem.Runtime Sem.SyltSem.
From Sylt Require Import Back.IR Back.Emit Back.ScopeProofs.
From Sylt Require Import Pres.EmitAst Pres.EmitRel Pres.Names Pres.LuaFuel Pres.LuaEv Pres.Preamble Pres.Frag.
From Sylt Require Import Pres.SimDefs Pres.SimOps Pres.SimVals Pres.SimExpr.
From Sylt Require Import Lua.LuaAst Lua.LuaMap Lua.LuaNum Lua.LuaProofs Lua.LuaCore.
Import ListNotations.
Local Open Scope N_scope.

Ltac frag_split H :=
  repeat match type of H with
         | (_ && _)%bool = true => let H2 := fresh "Hfr" in apply andb_prop in H as [H H2]
         end.
Ltac fresh_all := repeat match goal with H : fresh _ = Ok (_, _) |- _ => apply fresh_ok in H as [? ?]; subst end.

Ltac inj_code := match goal with H : (_, _) = (_, _) |- _ => injection H as <- <- end.

Section Sim.
Variable pv : N.
Variable bound : N.
Variable u : counts.

Lemma L_expr_zero : L_expr pv u O.
Proof. intros k x ctx c code v c' sc l H. discriminate. Qed.

Lemma used_plain (l : alut) t (ss : list stmt) : snd (if 0 <? count_of u t then (ss, l) else ([], l)) = l.
Proof. destruct (0 <? count_of u t); reflexivity. Qed.

(* the code after the first operand of and / or *)
Lemma and_tail_shape l1 t fl va code_b vb cb0 cb1 c c' :
  (forall l0, exists b2 l2, cshape u l0 code_b b2 l2 cb0 cb1 /\ cb0 <= vb /\ vb < cb1) ->
  c <= cb0 -> cb1 <= c' -> c <= t < c' -> c <= fl < c' ->
  exists bl l', cshape u l1 ([IDefine t; IBool fl false; IAssign t fl; IIf va] ++ code_b ++ [IAssign t vb; IEnd]) bl l' c c'.
Proof.
  intros Hb2 Hc0 Hc1 Ht Hfl.
  set (l1' := snd (aiis u l1 fl EFalse)).
  destruct (Hb2 l1') as (b2 & l2 & Hs2 & ? & ?).
  eexists _, _. cbn [app].
  eapply cshape_cons'; [apply (cshape_plain u l1 (IDefine t) c c'); [lia | reflexivity | reflexivity | apply used_plain]|].
  eapply cshape_cons'; [eapply (cshape_iis u l1 (IBool fl false) fl EFalse c c'); [lia | reflexivity | reflexivity]|].
  eapply cshape_cons'; [apply (cshape_plain u l1' (IAssign t fl) c c'); [lia | reflexivity | reflexivity | apply used_plain]|].
  replace (code_b ++ [IAssign t vb; IEnd]) with ((code_b ++ [IAssign t vb]) ++ [IEnd]) by (rewrite <- app_assoc; reflexivity).
  apply cshape_if.
  eapply cshape_app'; [eapply cshape_widen; [exact Hs2 | lia | lia]|].
  apply (cshape_plain u l2 (IAssign t vb) c c'); [lia | reflexivity | reflexivity | apply used_plain].
Qed.

Lemma or_tail_shape l1 t fl na va code_b vb cb0 cb1 c c' :
  (forall l0, exists b2 l2, cshape u l0 code_b b2 l2 cb0 cb1 /\ cb0 <= vb /\ vb < cb1) ->
  c <= cb0 -> cb1 <= c' -> c <= t < c' -> c <= fl < c' -> c <= na < c' ->
  exists bl l', cshape u l1 ([IDefine t; IBool fl true; IAssign t fl; INot na va; IIf na] ++ code_b ++ [IAssign t vb; IEnd]) bl l' c c'.
Proof.
  intros Hb2 Hc0 Hc1 Ht Hfl Hna.
  set (l1' := snd (aiis u l1 fl ETrue)).
  set (l1'' := snd (aiis u l1' na (EParen (EUn UNot (aexpand l1' va))))).
  destruct (Hb2 l1'') as (b2 & l2 & Hs2 & ? & ?).
  eexists _, _. cbn [app].
  eapply cshape_cons'; [apply (cshape_plain u l1 (IDefine t) c c'); [lia | reflexivity | reflexivity | apply used_plain]|].
  eapply cshape_cons'; [eapply (cshape_iis u l1 (IBool fl true) fl ETrue c c'); [lia | reflexivity | reflexivity]|].
  eapply cshape_cons'; [apply (cshape_plain u l1' (IAssign t fl) c c'); [lia | reflexivity | reflexivity | apply used_plain]|].
  eapply cshape_cons'; [eapply (cshape_iis u l1' (INot na va) na _ c c'); [lia | reflexivity | reflexivity]|].
  replace (code_b ++ [IAssign t vb; IEnd]) with ((code_b ++ [IAssign t vb]) ++ [IEnd]) by (rewrite <- app_assoc; reflexivity).
  apply cshape_if.
  eapply cshape_app'; [eapply cshape_widen; [exact Hs2 | lia | lia]|].
  apply (cshape_plain u l2 (IAssign t vb) c c'); [lia | reflexivity | reflexivity | apply used_plain].
Qed.

Lemma L_expr_succ g : L_expr pv u g -> L_expr pv u (S g).
Proof.
  intros IH k x ctx c code v c' sc l Hlow Hfrag.
  destruct k as [|k]; [discriminate|].
  destruct x; try discriminate Hfrag; cbn [frag_expr] in Hfrag.
  - (* ERead *)
    cbn [expression] in Hlow. mon Hlow. fresh_all. injection H as <- <-.
    eexists _, _. split; [|lia].
    apply cshape_plain; [lia | reflexivity | reflexivity | apply used_plain].
  - (* ECall print *)
    destruct x; try discriminate Hfrag. destruct args as [|a [|? ?]]; try discriminate Hfrag.
    frag_split Hfrag. apply N.eqb_eq in Hfrag. subst var.
    cbn [expression] in Hlow. mon Hlow.
    destruct g as [|g']; [discriminate|].
    cbn [expression] in Hm. mon Hm. fresh_all.
    apply mapM_cons_ok in Hm0 as (ya & ca & ys & Ha & Hnil & ->). apply mapM_nil_ok in Hnil as [-> ->].
    fresh_all. injection H as <- <-.
    destruct ya as [code_a va]. cbn [map fst snd concat] in *. rewrite app_nil_r.
    destruct (IH k a ctx (c + 1) code_a va ca sc l Ha Hfr) as (b_a & l1 & Hsa & Hva1 & Hva2).
    pose proof Hsa as (_ & Hca & _).
    eexists _, _. split.
    + eapply cshape_cons; [apply (cshape_plain u l (ICopy c pv) c (c + 1)); [lia | reflexivity | reflexivity | apply used_plain] |].
      eapply cshape_app; [exact Hsa|].
      apply (cshape_plain u l1 _ ca (ca + 1)); [lia | reflexivity | reflexivity | reflexivity].
    + lia.
  - (* EBinOp *)
    frag_split Hfrag.
    destruct op; try discriminate Hfrag.
    all: cbn [expression] in Hlow; mon Hlow; fresh_all.
    all: match goal with Ha : expression _ _ _ ?c0 = Ok (?ra, ?c1), Hb' : expression _ _ _ ?c1 = Ok (?rb, _) |- _ =>
           destruct ra as [code_a va]; destruct rb as [code_b vb]; cbn [fst snd] in *;
           destruct (IH k _ _ _ _ _ _ sc l Ha Hfr0) as (b1 & l1 & Hs1 & ? & ?);
           pose proof (fun l0 => IH k _ _ _ _ _ _ sc l0 Hb' Hfr) as Hb2
         end.
    all: pose proof Hs1 as (_ & ? & _).
    (* the six comparisons, + - * : one iis instruction *)
    all: try (destruct (Hb2 l1) as (b2 & l2 & Hs2 & ? & ?); pose proof Hs2 as (_ & ? & _);
              cbn [binop_ir] in Hlow; apply ret_ok in Hlow as [Heq <-]; injection Heq as <- <-;
              eexists _, _; split; [|lia];
              eapply cshape_app; [exact Hs1|]; eapply cshape_app; [exact Hs2|];
              eapply (cshape_iis u l2 _ c1); [lia | reflexivity | reflexivity]).
    + (* <=> *)
      destruct (Hb2 l1) as (b2 & l2 & Hs2 & ? & ?); pose proof Hs2 as (_ & ? & _).
      inj_code.
      eexists _, _. split; [|lia].
      eapply cshape_app; [exact Hs1|]. eapply cshape_app; [exact Hs2|].
      eapply cshape_cons; [eapply (cshape_iis u l2 _ c1 _ c1 (c1 + 1)); [lia | reflexivity | reflexivity]|].
      apply (cshape_plain u _ (IAssert c1) (c1 + 1) (c1 + 1)); [lia | reflexivity | reflexivity | reflexivity].
    + (* and *)
      inj_code.
      set (l1' := snd (aiis u l1 (c1 + 1) EFalse)).
      destruct (Hb2 l1') as (b2 & l2 & Hs2 & ? & ?); pose proof Hs2 as (_ & ? & _).
      eexists _, _. split; [|lia].
      eapply cshape_app'; [eapply cshape_widen; [exact Hs1 | lia | lia]|].
      eapply cshape_cons'; [apply (cshape_plain u l1 (IDefine c1) c (c1 + 1 + 1)); [lia | reflexivity | reflexivity | apply used_plain]|].
      eapply cshape_cons'; [eapply (cshape_iis u l1 (IBool (c1 + 1) false) (c1 + 1) EFalse c (c1 + 1 + 1)); [lia | reflexivity | reflexivity]|].
      eapply cshape_cons'; [apply (cshape_plain u l1' (IAssign c1 (c1 + 1)) c (c1 + 1 + 1)); [lia | reflexivity | reflexivity | apply used_plain]|].
      replace (code_b ++ [IAssign c1 vb; IEnd]) with ((code_b ++ [IAssign c1 vb]) ++ [IEnd]) by (rewrite <- app_assoc; reflexivity).
      apply cshape_if.
      eapply cshape_app'; [eapply cshape_widen; [exact Hs2 | lia | lia]|].
      apply (cshape_plain u l2 (IAssign c1 vb) c (c1 + 1 + 1)); [lia | reflexivity | reflexivity | apply used_plain].
    + (* or *)
      inj_code.
      set (l1' := snd (aiis u l1 (c1 + 1 + 1) ETrue)).
      set (l1'' := snd (aiis u l1' c1 (EParen (EUn UNot (aexpand l1' va))))).
      destruct (Hb2 l1'') as (b2 & l2 & Hs2 & ? & ?); pose proof Hs2 as (_ & ? & _).
      eexists _, _. split; [|lia].
      eapply cshape_app'; [eapply cshape_widen; [exact Hs1 | lia | lia]|].
      eapply cshape_cons'; [apply (cshape_plain u l1 (IDefine (c1 + 1)) c (c1 + 1 + 1 + 1)); [lia | reflexivity | reflexivity | apply used_plain]|].
      eapply cshape_cons'; [eapply (cshape_iis u l1 (IBool (c1 + 1 + 1) true) (c1 + 1 + 1) ETrue c (c1 + 1 + 1 + 1)); [lia | reflexivity | reflexivity]|].
      eapply cshape_cons'; [apply (cshape_plain u l1' (IAssign (c1 + 1) (c1 + 1 + 1)) c (c1 + 1 + 1 + 1)); [lia | reflexivity | reflexivity | apply used_plain]|].
      eapply cshape_cons'; [eapply (cshape_iis u l1' (INot c1 va) c1 _ c (c1 + 1 + 1 + 1)); [lia | reflexivity | reflexivity]|].
      replace (code_b ++ [IAssign (c1 + 1) vb; IEnd]) with ((code_b ++ [IAssign (c1 + 1) vb]) ++ [IEnd]) by (rewrite <- app_assoc; reflexivity).
      apply cshape_if.
      eapply cshape_app'; [eapply cshape_widen; [exact Hs2 | lia | lia]|].
      apply (cshape_plain u l2 (IAssign (c1 + 1) vb) c (c1 + 1 + 1 + 1)); [lia | reflexivity | reflexivity | apply used_plain].
  - (* EUniOp *)
    destruct op; cbn [expression] in Hlow; mon Hlow; fresh_all; inj_code.
    all: match goal with Ha : expression _ _ _ _ = Ok (?ra, _) |- _ =>
           destruct ra as [code_a va]; cbn [fst snd] in *;
           destruct (IH k _ _ _ _ _ _ sc l Ha Hfrag) as (b1 & l1 & Hs1 & ? & ?)
         end.
    all: pose proof Hs1 as (_ & ? & _).
    all: eexists _, _; (split; [|lia]); (eapply cshape_app; [exact Hs1|]).
    all: eapply (cshape_iis u l1 _ c0); [lia | reflexivity | reflexivity].
  - (* EInt *)
    cbn [expression] in Hlow. mon Hlow. fresh_all. inj_code.
    eexists _, _. split; [|lia]. eapply (cshape_iis u l _ c); [lia | reflexivity | reflexivity].
  - (* EBool *)
    cbn [expression] in Hlow. mon Hlow. fresh_all. inj_code.
    eexists _, _. split; [|lia]. eapply (cshape_iis u l _ c); [lia | reflexivity | reflexivity].
Qed.

Theorem L_expr_all g : L_expr pv u g.
Proof. induction g; [apply L_expr_zero | apply L_expr_succ; assumption]. Qed.
End Sim.
