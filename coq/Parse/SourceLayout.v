(* C14 on SOURCE TEXT: what the parser is given (Entry.drive: map classify (lex table source)) depends on the kinds
   and payloads of the lexer's tokens only, comments without their text.  So every layout change of the source that
   the lexer theorems of Lex/WsInsert.v cover gives the parser the same token list, hence the same result: the same
   tree, the same consumed count, the same error positions (as token indices). *)
From Coq Require Import String List NArith Bool.
From Sylt Require Import Lex.Regex Lex.Logos Lex.LayoutProofs Lex.WsInsert Syntax.Ast Syntax.Tok
  Parse.PrecTable Parse.Parser.
Import ListNotations.

Definition classify_kp (x : string * payload) : tok :=
  classify (mkP (fst x) (snd x) (mkSpan 0 0 0 0) 0 0).

Lemma classify_kp_spec p : classify p = classify_kp (t_kind p, t_pl p).
Proof. destruct p; reflexivity. Qed.

Lemma classify_erase k pl : classify_kp (k, erase_c k pl) = classify_kp (k, pl).
Proof.
  unfold erase_c. destruct (String.eqb k "Comment") eqn:E; [|reflexivity].
  apply String.eqb_eq in E. subst k. destruct pl; reflexivity.
Qed.

Theorem classify_ckinds ts : map classify ts = map classify_kp (ckinds ts).
Proof.
  induction ts as [|p ts IH]; [reflexivity|]. unfold ckinds in *. cbn [map]. rewrite <- IH. f_equal.
  rewrite classify_erase. apply classify_kp_spec.
Qed.

Corollary same_ckinds_same_tokens ts ts' : ckinds ts = ckinds ts' -> map classify ts = map classify ts'.
Proof. intros H. rewrite !classify_ckinds, H. reflexivity. Qed.

(* the token list the parser model is run on *)
Definition parser_input (lt : Logos.table) (src : list N) : list tok := map classify (lex lt src).

(* ---- a blank line in the source text ---- *)
From Sylt Require Parse.BlankCtx Parse.BlankSim.

Definition NLk : string * payload := ("Newline"%string, PNone).

Lemma classify_NLk : classify_kp NLk = TK KNewline.
Proof. reflexivity. Qed.

Lemma BL_app_refl p : forall l l', BlankCtx.BL l l' -> BlankCtx.BL (p ++ l) (p ++ l').
Proof. induction p as [|t p IH]; intros l l' H; [exact H|]. cbn [app]. constructor. apply IH. exact H. Qed.

(* one more line break after a line break (or at the very start) in the kinds of all tokens: the parser's token
   list has one more blank line *)
Theorem blank_line_tokens (A B : list ptoken) K1 K2 :
  ckinds A = (K1 ++ K2)%list -> ckinds B = (K1 ++ NLk :: K2)%list ->
  (K1 = [] \/ exists K0, K1 = (K0 ++ [NLk])%list) ->
  BlankSim.more_blank_lines (map classify A) (map classify B).
Proof.
  intros EA EB HK. rewrite !classify_ckinds, EA, EB, !map_app. cbn [map]. rewrite classify_NLk.
  destruct HK as [->|(K0 & ->)].
  - exists 1, (map classify_kp K2). cbn [map app repeat]. split; [reflexivity|apply BlankCtx.BL_refl].
  - exists 0, ((map classify_kp (K0 ++ [NLk]) ++ TK KNewline :: map classify_kp K2)%list). split; [reflexivity|].
    rewrite map_app. cbn [map]. rewrite classify_NLk, <- !app_assoc. apply BL_app_refl. cbn [app].
    apply BlankCtx.BL_dup. apply BlankCtx.BL_refl.
Qed.
