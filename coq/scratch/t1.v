From Coq Require Import String List NArith Bool Ascii DecimalString Decimal.
Compute NilZero.string_of_uint (Nat.to_uint 12).
Compute NilZero.string_of_uint (N.to_uint 0).
